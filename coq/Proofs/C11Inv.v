(* C11: the closure invariant - basic preservation lemmas (setters, namespace growth,
   the reconstruction / cloning / reading loops) *)
From Coq Require Import List Bool Arith ZArith Lia.
From DV Require Import Model.PyPrims Model.C11Model Proofs.C11Base.
Import ListNotations.
Open Scope nat_scope.

(* ---- monotone growth of the namespaces, objects untouched ---- *)
Definition mono (st st' : state) : Prop := forall n x, In x (members st n) -> In x (members st' n).
Definition same_objs (st st' : state) : Prop :=
  s_trees st' = s_trees st /\ s_lists st' = s_lists st /\ s_mats st' = s_mats st /\ s_dss st' = s_dss st.
Definition grows (st st' : state) : Prop := same_objs st st' /\ mono st st'.

Lemma grows_refl : forall st, grows st st.
Proof. intro st. split; [repeat split | intros n x H; exact H]. Qed.

Lemma grows_trans : forall a b c, grows a b -> grows b c -> grows a c.
Proof.
  intros a b c [[A1 [A2 [A3 A4]]] M1] [[B1 [B2 [B3 B4]]] M2]. split.
  - repeat split; congruence.
  - intros n x H. apply M2, M1, H.
Qed.

Lemma tree_ok_mono : forall st st' t, mono st st' -> tree_ok st t -> tree_ok st' t.
Proof. intros st st' t M H x Hx. apply M, H, Hx. Qed.

Lemma mat_ok_mono : forall st st' m, mono st st' -> mat_ok st m -> mat_ok st' m.
Proof. intros st st' m M H x Hx. apply M, H, Hx. Qed.

Lemma list_ok_wf : forall st l, list_ok st l -> list_wf st l.
Proof.
  intros st l H tr Htr. destruct (H tr Htr) as [t [E _]]. apply nth_error_Some. congruence.
Qed.

Ltac closed_split := unfold ClosedX; split; [|split; [|split]].

Lemma grows_closedX : forall XL XD st st', grows st st' -> ClosedX XL XD st -> ClosedX XL XD st'.
Proof.
  intros XL XD st st' [[T [L [M D]]] Mo] [C1 [C2 [C3 C4]]].
  closed_split; rewrite ?T, ?L, ?M, ?D.
  - intros i t H. eapply tree_ok_mono; [exact Mo | eapply C1; exact H].
  - intros i m H. eapply mat_ok_mono; [exact Mo | eapply C2; exact H].
  - intros i l H. destruct (C3 i l H) as [W K]. split.
    + unfold list_wf in *. rewrite T. exact W.
    + intro NX. specialize (K NX). unfold list_ok in *. rewrite T. exact K.
  - intros i d H. destruct (C4 i d H) as [[W1 W2] K]. split.
    + split; [rewrite L; exact W1 | rewrite M; exact W2].
    + intro NX. destruct (K NX) as [K1 K2]. split; [rewrite L; exact K1 | rewrite M; exact K2].
Qed.

Lemma ClosedX_weaken : forall (A B D E : oid -> Prop) st,
  (forall i, A i -> B i) -> (forall i, D i -> E i) -> ClosedX A D st -> ClosedX B E st.
Proof.
  intros A B D E st AB DE [C1 [C2 [C3 C4]]]. closed_split; try assumption.
  - intros i l H. destruct (C3 i l H) as [W K]. split; [exact W|].
    intro NB. apply K. intro HA. apply NB, AB, HA.
  - intros i d H. destruct (C4 i d H) as [W K]. split; [exact W|].
    intro NE. apply K. intro HD. apply NE, DE, HD.
Qed.

(* ---- namespace primitives ---- *)
Lemma set_members_grows : forall st n ms,
  (forall x, In x (members st n) -> In x ms) -> grows st (set_members st n ms).
Proof.
  intros st n ms H. split; [repeat split|]. intros n' x Hx. rewrite members_set_members.
  destruct (Nat.eqb n' n) eqn:E; [|exact Hx]. apply Nat.eqb_eq in E. subst. apply H, Hx.
Qed.

Lemma add_member_grows : forall st n x, grows st (add_member st n x).
Proof.
  intros st n x. unfold add_member. destruct (memb x (members st n)); [apply grows_refl|].
  apply set_members_grows. intros y Hy. apply in_or_app. left. exact Hy.
Qed.

Lemma add_member_In : forall st n x, In x (members (add_member st n x) n).
Proof.
  intros st n x. unfold add_member. destruct (memb x (members st n)) eqn:E.
  - apply memb_In. exact E.
  - rewrite members_set_members_same. apply in_or_app. right. left. reflexivity.
Qed.

Lemma add_members_grows : forall xs st n, grows st (add_members st n xs).
Proof.
  induction xs as [|x r IH]; intros st n; simpl; [apply grows_refl|].
  unfold add_members in *. simpl. eapply grows_trans; [apply add_member_grows | apply IH].
Qed.

Lemma add_members_In : forall xs st n x, In x xs -> In x (members (add_members st n xs) n).
Proof.
  induction xs as [|y r IH]; intros st n x H; [contradiction|].
  unfold add_members in *. simpl. destruct H as [H|H].
  - subst. destruct (add_members_grows r (add_member st n x) n) as [_ M]. apply M. apply add_member_In.
  - apply IH. exact H.
Qed.

Lemma alloc_taxon_grows : forall st l, grows st (fst (alloc_taxon st l)).
Proof. intros. split; [repeat split | intros n x H; exact H]. Qed.

Lemma new_taxon_spec : forall st n l st' x,
  new_taxon st n l = (st', x) -> grows st st' /\ In x (members st' n).
Proof.
  intros st n l st' x H. unfold new_taxon in H. simpl in H. inversion H. subst. clear H. split.
  - eapply grows_trans; [apply (alloc_taxon_grows st l)|].
    apply set_members_grows. intros y Hy. apply in_or_app. left. exact Hy.
  - rewrite members_set_members_same. apply in_or_app. right. left. reflexivity.
Qed.

Section WithLower.
Variable lower : lbl -> lbl.

Lemma require_taxon_spec : forall st n l cs st' x,
  require_taxon lower st n l cs = (st', x) -> grows st st' /\ In x (members st' n).
Proof.
  intros st n l cs st' x H. unfold require_taxon in H.
  destruct (first_match lower st n cs l) as [y|] eqn:E.
  - inversion H. subst. split; [apply grows_refl|].
    unfold first_match in E. apply find_some in E. apply E.
  - eapply new_taxon_spec. exact H.
Qed.

(* ---- Tree.reconstruct_taxon_namespace ---- *)
Lemma recon_refs_spec : forall n u refs st memo st' refs' memo',
  recon_refs lower st n u refs memo = (st', refs', memo') ->
  grows st st' /\ (forall y, In y refs' -> In y (members st' n)) /\ length refs' = length refs.
Proof.
  intros n u refs. induction refs as [|x r IH]; intros st memo st' refs' memo' H; simpl in H.
  - inversion H. subst. split; [apply grows_refl|]. split; [intros y []| reflexivity].
  - destruct (u || negb (memb x (members st n))) eqn:C.
    + destruct (alookup x memo) as [t|] eqn:A.
      * destruct (recon_refs lower (add_member st n t) n u r memo) as [[st2 r2] m2] eqn:R.
        inversion H. subst. clear H. destruct (IH _ _ _ _ _ R) as [G [I Len]]. split.
        -- eapply grows_trans; [apply add_member_grows | exact G].
        -- split; [|simpl; rewrite Len; reflexivity]. intros y [Hy|Hy]; [|apply I, Hy]. subst.
           destruct G as [_ M]. apply M, add_member_In.
      * destruct (if u then require_taxon lower st n (label st x) (ns_cs st n) else new_taxon st n (label st x))
          as [st1 t] eqn:Q.
        destruct (recon_refs lower st1 n u r ((x, t) :: memo)) as [[st2 r2] m2] eqn:R.
        inversion H. subst. clear H. destruct (IH _ _ _ _ _ R) as [G [I Len]].
        assert (Q' : grows st st1 /\ In t (members st1 n)).
        { destruct u; [eapply require_taxon_spec; exact Q | eapply new_taxon_spec; exact Q]. }
        destruct Q' as [G1 I1]. split; [eapply grows_trans; eassumption|].
        split; [|simpl; rewrite Len; reflexivity]. intros y [Hy|Hy]; [|apply I, Hy]. subst.
        destruct G as [_ M]. apply M, I1.
    + destruct (recon_refs lower st n u r memo) as [[st2 r2] m2] eqn:R.
      inversion H. subst. clear H. destruct (IH _ _ _ _ _ R) as [G [I Len]]. split; [exact G|].
      split; [|simpl; rewrite Len; reflexivity]. intros y [Hy|Hy]; [|apply I, Hy]. subst.
      apply orb_false_iff in C. destruct C as [_ C]. apply negb_false_iff in C. apply memb_In in C.
      destruct G as [_ M]. apply M, C.
Qed.

(* ---- cloning ---- *)
Lemma clone_memo_spec : forall n ms st memo st' memo',
  clone_memo lower st n ms memo = (st', memo') ->
  (forall x t, alookup x memo = Some t -> In t (members st n)) ->
  grows st st' /\
  (forall x t, alookup x memo' = Some t -> In t (members st' n)) /\
  (forall x, In x ms -> exists t, alookup x memo' = Some t) /\
  (forall x t, alookup x memo = Some t -> exists t', alookup x memo' = Some t').
Proof.
  intros n ms. induction ms as [|x r IH]; intros st memo st' memo' H Hm; simpl in H.
  - inversion H. subst. split; [apply grows_refl|]. split; [exact Hm|]. split; [intros x []|].
    intros x t E. exists t. exact E.
  - destruct (require_taxon lower st n (label st x) (ns_cs st n)) as [st1 t] eqn:Q.
    destruct (require_taxon_spec _ _ _ _ _ _ Q) as [G1 I1].
    assert (Hm1 : forall y t', alookup y ((x, t) :: memo) = Some t' -> In t' (members st1 n)).
    { intros y t' E. rewrite alookup_cons in E. destruct (Nat.eqb y x).
      - inversion E. subst. exact I1.
      - destruct G1 as [_ M]. apply M. eapply Hm. exact E. }
    destruct (IH _ _ _ _ H Hm1) as [G [I [Cov Keep]]]. split; [eapply grows_trans; eassumption|].
    split; [exact I|]. split.
    + intros y [Hy|Hy]; [|apply Cov, Hy]. subst. apply (Keep y t). rewrite alookup_cons, Nat.eqb_refl. reflexivity.
    + intros y t' E. destruct (Nat.eqb y x) eqn:Eq.
      * apply (Keep y t). rewrite alookup_cons, Eq. reflexivity.
      * apply (Keep y t'). rewrite alookup_cons, Eq. exact E.
Qed.

Lemma clone_refs_covered : forall n refs st memo,
  (forall x, In x refs -> exists t, alookup x memo = Some t /\ In t (members st n)) ->
  exists refs', clone_refs st refs memo = (st, refs', memo) /\ forall y, In y refs' -> In y (members st n).
Proof.
  intros n refs. induction refs as [|x r IH]; intros st memo H; simpl.
  - exists []. split; [reflexivity | intros y []].
  - destruct (H x (or_introl eq_refl)) as [t [E I]]. rewrite E.
    destruct (IH st memo) as [r' [R I']]. { intros y Hy. apply H. right. exact Hy. }
    rewrite R. exists (t :: r'). split; [reflexivity|]. intros y [Hy|Hy]; [subst; exact I | apply I', Hy].
Qed.

End WithLower.

(* ---- setters ---- *)
Lemma set_tree_closedX : forall XL XD st tr t',
  ClosedX XL XD st -> tree_ok st t' ->
  (forall i L, nth_error (s_lists st) i = Some L -> ~ XL i -> In tr (l_trees L) -> l_ns L = t_ns t') ->
  ClosedX XL XD (set_tree st tr t').
Proof.
  intros XL XD st tr t' [C1 [C2 [C3 C4]]] OK Hold. closed_split; simpl.
  - intros i t H. apply nth_error_upd_inv in H. destruct H as [[_ E]|[_ E]].
    + subst. exact OK.
    + exact (C1 i t E).
  - exact C2.
  - intros i l H. destruct (C3 i l H) as [W K]. split.
    + intros x Hx. simpl. rewrite upd_length. apply W, Hx.
    + intros NX x Hx. destruct (K NX x Hx) as [t [E N]]. simpl.
      destruct (Nat.eq_dec x tr) as [Eq|Ne].
      * subst x. exists t'. split; [eapply nth_error_upd_same; exact E|].
        symmetry. eapply Hold; eassumption.
      * exists t. split; [rewrite nth_error_upd_other by exact Ne; exact E | exact N].
  - exact C4.
Qed.

Lemma alloc_tree_closedX : forall XL XD st t,
  ClosedX XL XD st -> tree_ok st t -> ClosedX XL XD (fst (alloc_tree st t)).
Proof.
  intros XL XD st t [C1 [C2 [C3 C4]]] OK. closed_split; simpl.
  - intros i t0 H. apply nth_error_app_inv in H. destruct H as [[_ E]|[_ E]]; [subst; exact OK | exact (C1 i t0 E)].
  - exact C2.
  - intros i l H. destruct (C3 i l H) as [W K]. split.
    + intros x Hx. simpl. rewrite app_length. simpl. specialize (W x Hx). lia.
    + intros NX x Hx. destruct (K NX x Hx) as [t0 [E N]]. simpl.
      exists t0. split; [apply nth_error_app_old; exact E | exact N].
  - exact C4.
Qed.

Lemma set_list_closedX : forall XL XD st l L',
  ClosedX XL XD st -> list_wf st L' -> (~ XL l -> list_ok st L') ->
  (forall i d, nth_error (s_dss st) i = Some d -> ~ XD i -> In l (d_lists d) ->
               forall a, d_att d = Some a -> l_ns L' = a) ->
  ClosedX XL XD (set_list st l L').
Proof.
  intros XL XD st l L' [C1 [C2 [C3 C4]]] W OK DS. closed_split; simpl.
  - exact C1.
  - exact C2.
  - intros i l0 H. apply nth_error_upd_inv in H. destruct H as [[Ei E]|[_ E]].
    + subst. split; [exact W | exact OK].
    + exact (C3 i l0 E).
  - intros i d H. destruct (C4 i d H) as [[W1 W2] K]. split.
    + split; [|exact W2]. intros x Hx. simpl. rewrite upd_length. apply W1, Hx.
    + intro NX. destruct (K NX) as [K1 K2]. split; [|exact K2].
      intros x Hx. destruct (K1 x Hx) as [L0 [E A]]. simpl.
      destruct (Nat.eq_dec x l) as [Eq|Ne].
      * subst x. exists L'. split; [eapply nth_error_upd_same; exact E|].
        intros a Ha. eapply DS; eassumption.
      * exists L0. split; [rewrite nth_error_upd_other by exact Ne; exact E | exact A].
Qed.

Lemma alloc_list_closedX : forall XL XD st L,
  ClosedX XL XD st -> list_ok st L -> ClosedX XL XD (fst (alloc_list st L)).
Proof.
  intros XL XD st L [C1 [C2 [C3 C4]]] OK. closed_split; simpl.
  - exact C1.
  - exact C2.
  - intros i l H. apply nth_error_app_inv in H. destruct H as [[_ E]|[_ E]].
    + subst. split; [apply list_ok_wf; exact OK | intros _; exact OK].
    + exact (C3 i l E).
  - intros i d H. destruct (C4 i d H) as [[W1 W2] K]. split.
    + split; [|exact W2]. intros x Hx. simpl. rewrite app_length. simpl. specialize (W1 x Hx). lia.
    + intro NX. destruct (K NX) as [K1 K2]. split; [|exact K2].
      intros x Hx. destruct (K1 x Hx) as [L0 [E A]]. simpl.
      exists L0. split; [apply nth_error_app_old; exact E | exact A].
Qed.

Lemma set_mat_closedX : forall XL XD st m M',
  ClosedX XL XD st -> mat_ok st M' ->
  (forall i d, nth_error (s_dss st) i = Some d -> ~ XD i -> In m (d_mats d) ->
               forall a, d_att d = Some a -> m_ns M' = a) ->
  ClosedX XL XD (set_mat st m M').
Proof.
  intros XL XD st m M' [C1 [C2 [C3 C4]]] OK DS. closed_split; simpl.
  - exact C1.
  - intros i m0 H. apply nth_error_upd_inv in H. destruct H as [[_ E]|[_ E]]; [subst; exact OK | exact (C2 i m0 E)].
  - exact C3.
  - intros i d H. destruct (C4 i d H) as [[W1 W2] K]. split.
    + split; [exact W1|]. intros x Hx. simpl. rewrite upd_length. apply W2, Hx.
    + intro NX. destruct (K NX) as [K1 K2]. split; [exact K1|].
      intros x Hx. destruct (K2 x Hx) as [M0 [E A]]. simpl.
      destruct (Nat.eq_dec x m) as [Eq|Ne].
      * subst x. exists M'. split; [eapply nth_error_upd_same; exact E|].
        intros a Ha. eapply DS; eassumption.
      * exists M0. split; [rewrite nth_error_upd_other by exact Ne; exact E | exact A].
Qed.

Lemma alloc_mat_closedX : forall XL XD st M,
  ClosedX XL XD st -> mat_ok st M -> ClosedX XL XD (fst (alloc_mat st M)).
Proof.
  intros XL XD st M [C1 [C2 [C3 C4]]] OK. closed_split; simpl.
  - exact C1.
  - intros i m0 H. apply nth_error_app_inv in H. destruct H as [[_ E]|[_ E]]; [subst; exact OK | exact (C2 i m0 E)].
  - exact C3.
  - intros i d H. destruct (C4 i d H) as [[W1 W2] K]. split.
    + split; [exact W1|]. intros x Hx. simpl. rewrite app_length. simpl. specialize (W2 x Hx). lia.
    + intro NX. destruct (K NX) as [K1 K2]. split; [exact K1|].
      intros x Hx. destruct (K2 x Hx) as [M0 [E A]]. simpl.
      exists M0. split; [apply nth_error_app_old; exact E | exact A].
Qed.

Lemma set_ds_closedX : forall XL XD st d D',
  ClosedX XL XD st -> ds_wf st D' -> (~ XD d -> ds_ok st D') -> ClosedX XL XD (set_ds st d D').
Proof.
  intros XL XD st d D' [C1 [C2 [C3 C4]]] W OK. closed_split; simpl; try assumption.
  intros i d0 H. apply nth_error_upd_inv in H. destruct H as [[Ei E]|[_ E]].
  - subst. split; [exact W | exact OK].
  - exact (C4 i d0 E).
Qed.

Lemma alloc_ds_closedX : forall XL XD st D,
  ClosedX XL XD st -> ds_ok st D -> ds_wf st D -> ClosedX XL XD (fst (alloc_ds st D)).
Proof.
  intros XL XD st D [C1 [C2 [C3 C4]]] OK W. closed_split; simpl; try assumption.
  intros i d H. apply nth_error_app_inv in H. destruct H as [[_ E]|[_ E]].
  - subst. split; [exact W | intros _; exact OK].
  - exact (C4 i d E).
Qed.

Lemma alloc_ns_closedX : forall XL XD st cs, ClosedX XL XD st -> ClosedX XL XD (fst (alloc_ns st cs)).
Proof. intros XL XD st cs H. exact H. Qed.
