(* C03 proofs: operations that only permute child lists (ladderize, reorder), and the
   congruence of leaf taxa / node ids under a change inside a context. *)
From Coq Require Import ZArith List Bool Lia Permutation.
From DV Require Import Model.PyPrims Model.Tree Model.Heap Model.HeapOps
  Proofs.C03Base Proofs.C03Abs Proofs.C03Local Proofs.C03Prims.
Import ListNotations.
Open Scope Z_scope.

(* ---------- leaf taxa and ids through a context ---------- *)

Lemma leaf_taxa_node i x l e ks :
  ks <> [] -> leaf_taxa (T i x l e ks) = flat_map leaf_taxa ks.
Proof. destruct ks; [congruence|reflexivity]. Qed.

Lemma leaf_taxa_focus i x l e lft s rgt :
  leaf_taxa (T i x l e (lft ++ s :: rgt)) = flat_map leaf_taxa lft ++ leaf_taxa s ++ flat_map leaf_taxa rgt.
Proof.
  rewrite leaf_taxa_node by (destruct lft; discriminate). rewrite flat_map_app. reflexivity.
Qed.

Lemma leaf_taxa_plug_perm c s s' :
  Permutation (leaf_taxa s) (leaf_taxa s') -> Permutation (leaf_taxa (plug c s)) (leaf_taxa (plug c s')).
Proof.
  revert s s'. induction c as [|c' IH i x l e lft rgt]; intros s s' P; simpl; [exact P|].
  apply IH. rewrite !leaf_taxa_focus. apply Permutation_app_head, Permutation_app_tail. exact P.
Qed.

Lemma ids_plug_perm c s s' :
  Permutation (ids s) (ids s') -> Permutation (ids (plug c s)) (ids (plug c s')).
Proof.
  intro P. rewrite !ids_plug. apply Permutation_app_tail. exact P.
Qed.

Lemma flat_map_perm {A B} (f : A -> list B) l l' :
  Permutation l l' -> Permutation (flat_map f l) (flat_map f l').
Proof.
  induction 1; simpl.
  - constructor.
  - apply Permutation_app_head. assumption.
  - rewrite !app_assoc. apply Permutation_app_tail, Permutation_app_comm.
  - etransitivity; eassumption.
Qed.

Lemma leaf_taxa_kids_perm i x l e ks ks' :
  Permutation ks ks' -> Permutation (leaf_taxa (T i x l e ks)) (leaf_taxa (T i x l e ks')).
Proof.
  intro P. destruct ks as [|k r].
  - apply Permutation_nil in P. subst. reflexivity.
  - destruct ks' as [|k' r']; [apply Permutation_sym, Permutation_nil in P; discriminate|].
    rewrite !leaf_taxa_node by discriminate. apply flat_map_perm. exact P.
Qed.

Lemma ids_kids_perm i x l e ks ks' :
  Permutation ks ks' -> Permutation (ids (T i x l e ks)) (ids (T i x l e ks')).
Proof. intro P. rewrite !ids_eq. constructor. apply flat_map_perm. exact P. Qed.

(* same node set, same root, same leaf-taxon multiset *)
Definition same_nodes (t t' : tree) : Prop :=
  t_id t' = t_id t /\ Permutation (ids t) (ids t') /\ Permutation (leaf_taxa t) (leaf_taxa t').

Lemma same_nodes_refl t : same_nodes t t.
Proof. repeat split; reflexivity. Qed.
Lemma same_nodes_trans a b c : same_nodes a b -> same_nodes b c -> same_nodes a c.
Proof.
  intros [A1 [A2 A3]] [B1 [B2 B3]]. repeat split; [congruence|etransitivity; eassumption|etransitivity; eassumption].
Qed.

Lemma same_nodes_plug_kids c i x l e ks ks' :
  Permutation ks ks' -> same_nodes (plug c (T i x l e ks)) (plug c (T i x l e ks')).
Proof.
  intro P. repeat split.
  - rewrite !plug_id. reflexivity.
  - apply ids_plug_perm, ids_kids_perm, P.
  - apply leaf_taxa_plug_perm, leaf_taxa_kids_perm, P.
Qed.

(* ---------- permuting the children of a live node ---------- *)

Lemma set_kids_perm_wf h c p x l e ks ks' :
  Wr h (plug c (T p x l e ks)) -> Permutation ks ks' ->
  Wr (set_kids p (map t_id ks') h) (plug c (T p x l e ks')).
Proof.
  intros W P. destruct (wr_focus _ _ _ _ _ _ _ W) as [Hp [Gp [Fk [N1 [N2 [N3 [N4 [N5 N6]]]]]]]].
  assert (A : same_off [p] h (set_kids p (map t_id ks') h)) by (unfold set_kids; frame_solve).
  assert (G : grows h (set_kids p (map t_id ks') h)) by (unfold set_kids; frame_solve).
  assert (PI : Permutation (flat_map ids ks) (flat_map ids ks')) by (apply flat_map_perm, P).
  apply (focus_update_r [p] h _ c p x l e ks x l e ks' W A G).
  - intros j [<-|[]]. exact N3.
  - rewrite get_set_kids, Z.eqb_refl. unfold parent, elen, taxon, label. rewrite Gp. reflexivity.
  - apply (Forall_rep_frame_off [p] h _ (Some p) ks' A G).
    + intros j Hj [<-|[]]. apply N2. eapply Permutation_in; [apply Permutation_sym, PI|exact Hj].
    + eapply Permutation_Forall; eauto.
  - eapply Permutation_NoDup; eauto.
  - intro H. apply N2. eapply Permutation_in; [apply Permutation_sym, PI|exact H].
  - intros j Hj. apply N4. eapply Permutation_in; [apply Permutation_sym, PI|exact Hj].
  - intros j Hj. simpl. apply N5. eapply Permutation_in; [apply Permutation_sym, PI|exact Hj].
Qed.

Lemma sort_insert_perm key d x l : Permutation (sort_insert key d x l) (x :: l).
Proof.
  induction l as [|y r IH]; simpl; [reflexivity|].
  destruct (if d then key y <=? key x else key x <=? key y); [reflexivity|].
  etransitivity; [apply perm_skip, IH|apply perm_swap].
Qed.

Lemma sort_by_perm key d l : Permutation (sort_by key d l) l.
Proof.
  induction l as [|x r IH]; simpl; [reflexivity|].
  etransitivity; [apply sort_insert_perm|apply perm_skip, IH].
Qed.

(* one re-ordering step at a live node *)
Lemma reorder_step_wf h t nd (f : list Z -> list Z) :
  (forall l, Permutation (f l) l) ->
  Wr h t -> In nd (ids t) ->
  exists t', Wr (set_kids nd (f (kids h nd)) h) t' /\ same_nodes t t'.
Proof.
  intros Pf W Hn. destruct (find_ctx t nd Hn) as [c [s [Et Es]]]. subst t.
  destruct s as [i x l e ks]. simpl in Es. subst i.
  destruct (wr_focus _ _ _ _ _ _ _ W) as [_ [Gp _]].
  assert (K : kids h nd = map t_id ks) by (unfold kids; rewrite Gp; reflexivity).
  rewrite K. destruct (Permutation_map_inv t_id ks (Pf (map t_id ks))) as [ks' [E P]].
  rewrite E. exists (plug c (T nd x l e ks')). split.
  - apply (set_kids_perm_wf h c nd x l e ks ks' W P).
  - apply same_nodes_plug_kids, P.
Qed.

Lemma reorder_fold_wf (g : heap -> Z -> option (list Z -> list Z)) :
  (forall h nd f, g h nd = Some f -> forall l, Permutation (f l) l) ->
  forall L h t, Wr h t -> (forall nd, In nd L -> In nd (ids t)) ->
  let step := fun h nd => match g h nd with Some f => set_kids nd (f (kids h nd)) h | None => h end in
  exists t', Wr (fold_left step L h) t' /\ same_nodes t t' /\
             next (fold_left step L h) = next h /\ rooted (fold_left step L h) = rooted h /\
             seed (fold_left step L h) = seed h.
Proof.
  intros Pg L. induction L as [|nd r IH]; intros h t W HL step; simpl.
  - exists t. split; [exact W|split; [apply same_nodes_refl|auto]].
  - assert (S1 : exists t1, Wr (step h nd) t1 /\ same_nodes t t1).
    { unfold step. destruct (g h nd) as [f|] eqn:E.
      - apply reorder_step_wf; [eapply Pg; eauto|exact W|apply HL; left; reflexivity].
      - exists t. split; [exact W|apply same_nodes_refl]. }
    destruct S1 as [t1 [W1 SN1]].
    destruct (IH (step h nd) t1 W1) as [t' [W' [SN' [P1 [P2 P3]]]]].
    { intros x Hx. destruct SN1 as [_ [PI _]]. eapply Permutation_in; [exact PI|]. apply HL. right. exact Hx. }
    exists t'. split; [exact W'|split; [eapply same_nodes_trans; eauto|]].
    fold step in P1, P2, P3. rewrite P1, P2, P3. unfold step. destruct (g h nd); auto.
Qed.

Lemma post_ids_in t nd : In nd (post_ids t) -> In nd (ids t).
Proof.
  unfold post_ids, ids. intro H. apply in_map_iff in H. destruct H as [s [E Hs]]. subst.
  apply in_map. revert s Hs. induction t as [i x l e ks IH] using tree_ind'. intros s Hs.
  simpl in Hs. apply in_app_iff in Hs. destruct Hs as [Hs|[<-|[]]].
  - simpl. right. apply in_flat_map in Hs. destruct Hs as [k [Hk Hs]]. apply in_flat_map. exists k.
    split; [exact Hk|]. rewrite Forall_forall in IH. apply IH; assumption.
  - simpl. left. reflexivity.
Qed.

Lemma fold_left_ext_eq {A B} (f g : A -> B -> A) l a :
  (forall a b, f a b = g a b) -> fold_left f l a = fold_left g l a.
Proof. intro E. revert a. induction l as [|b r IH]; intro a; simpl; [reflexivity|]. rewrite E. apply IH. Qed.

Theorem ladderize_wf asc h t :
  WFt h t -> exists h' t', ladderize asc h = HOk h' /\ WFt h' t' /\ same_nodes t t' /\
                           next h' = next h /\ rooted h' = rooted h.
Proof.
  intros [W S]. unfold ladderize, with_sub. fold (abs h). rewrite (abs_WFt h t (conj W S)).
  set (cnt := desc_counts t).
  set (key := fun nd => match zlookup nd cnt with Some c => c | None => 0 end).
  pose (g := fun (h : heap) (nd : Z) =>
               if is_internal h nd then Some (sort_by key (negb asc)) else None).
  destruct (reorder_fold_wf g) with (L := post_ids t) (h := h) (t := t) as [t' [W' [SN [P1 [P2 P3]]]]].
  - intros h0 nd f E l. unfold g in E. destruct (is_internal h0 nd); [|discriminate]. inversion E. apply sort_by_perm.
  - exact W.
  - apply post_ids_in.
  - eexists. exists t'. split; [reflexivity|].
    match goal with |- WFt ?hh _ /\ _ => assert (EH : hh = fold_left (fun h nd => match g h nd with Some f => set_kids nd (f (kids h nd)) h | None => h end) (post_ids t) h) end.
    { apply fold_left_ext_eq. intros h0 nd. unfold g. destruct (is_internal h0 nd); reflexivity. }
    rewrite EH. split; [split; [exact W'|]|auto].
    rewrite P3. destruct SN as [E _]. congruence.
Qed.

Theorem reorder_wf asc ranks h t :
  WFt h t -> exists h' t', reorder asc ranks h = HOk h' /\ WFt h' t' /\ same_nodes t t' /\
                           next h' = next h /\ rooted h' = rooted h.
Proof.
  intros [W S]. unfold reorder, with_sub. fold (abs h). rewrite (abs_WFt h t (conj W S)).
  set (key := fun nd => match taxon h nd with
                        | Some x => match zlookup x ranks with Some r => r | None => 0 end
                        | None => 0 end).
  pose (g := fun (_ : heap) (_ : Z) => Some (sort_by key (negb asc))).
  destruct (reorder_fold_wf g) with (L := pre_ids t) (h := h) (t := t) as [t' [W' [SN [P1 [P2 P3]]]]].
  - intros h0 nd f E l. unfold g in E. inversion E. apply sort_by_perm.
  - exact W.
  - intros nd H. exact H.
  - eexists. exists t'. split; [reflexivity|].
    split; [split; [exact W'|]|auto].
    simpl in P3. rewrite P3. destruct SN as [E _]. congruence.
Qed.
