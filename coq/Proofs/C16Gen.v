(* C16 - the code generated from parsimony.py (Gen/Fitch.v) equals the hand-written model
   (Model/C16Model.v) on all inputs. *)
From Coq Require Import ZArith List Bool Lia.
From DV Require Import Model.PyPrims Model.Tree Model.C16Model Model.C16Prims Gen.Fitch.
Import ListNotations.
Open Scope Z_scope.

(* how an outcome of the hand model reads as a result of generated code *)
Definition outcome_view (o : outcome) : fres (store * option (list Z)) Z :=
  match o with
  | Done p => FRet (p_store p, p_sbc p) (p_score p)
  | Fail p e => FRaise (p_store p, p_sbc p) e
  end.

Definition get_view (r : store * res ssl) : fres store ssl :=
  match r with
  | (st, Ok v) => FRet st v
  | (st, Err e) => FRaise st e
  | (st, OutOfFuel) => FFuel
  end.

(* ---------- the two attribute helpers ---------- *)
Lemma gen_store_eq n v st : gen_store_sets_as_attr n v st = FRet (st_set st (t_id n) v) tt.
Proof. reflexivity. Qed.

Lemma gen_retrieve_eq n m st : gen_retrieve_state_sets_from_attr n m st = get_view (get_ss m st n).
Proof.
  unfold gen_retrieve_state_sets_from_attr, get_ss, py_getattr, py_dict_getitem, py_taxon, py_setattr.
  destruct (lookup (t_id n) st) as [v|]; [reflexivity|]. simpl err_eqb. cbv iota.
  destruct m as [mm|]; [|reflexivity].
  destruct (map_get mm (t_taxon n)); reflexivity.
Qed.

Lemma get_ss_no_fuel m st n s : get_ss m st n <> (s, OutOfFuel).
Proof.
  unfold get_ss. destruct (lookup (t_id n) st); [discriminate|].
  destruct m as [mm|]; [|discriminate]. destruct (map_get mm (t_taxon n)); discriminate.
Qed.

(* ---------- primitives against the operations of the model ---------- *)
Lemma inter1 a b : py_set_inter a [b] = Z.land a b.
Proof. reflexivity. Qed.

Lemma union_self a b : py_set_union a [a; b] = Z.lor a b.
Proof. unfold py_set_union. simpl. rewrite Z.lor_diag. reflexivity. Qed.

Lemma union1 a b : py_set_union a [b] = Z.lor a b.
Proof. reflexivity. Qed.

Lemma union2 a b c : py_set_union a [b; c] = Z.lor (Z.lor a b) c.
Proof. reflexivity. Qed.

Lemma list_iadd_eq : forall l n w, py_list_iadd l n w = list_add_at l n w.
Proof.
  reflexivity.
Qed.

(* ---------- the per-character loop ---------- *)
Definition char_view {A B C D E F G H I} (P : A) (m : B) (w : C) (st : store) (nd : D) (c : E) (lc : F) (rc : G)
           (rem : H) (lssl rssl : I) (r : (ssl * Z * option (list Z)) * option err)
  : lres (store * option (list Z)) (A * B * C * store * option (list Z) * Z * D * E * F * G * H * I * I * ssl) :=
  match r with
  | ((res, sc, sb), None) => LDone (P, m, w, st, sb, sc, nd, c, lc, rc, rem, lssl, rssl, res)
  | ((_, _, sb), Some e) => LRaise (st, sb) e
  end.

Lemma gen_char_loop_eq P m w st nd c lc rc rem lssl rssl : forall l r n result sc sbc,
  gen_fitch_down_pass_loop4 P m w st sbc sc nd c lc rc rem lssl rssl result n (py_zip2 l r) =
  char_view P m w st nd c lc rc rem lssl rssl (char_loop w n l r (rev result) sc sbc).
Proof.
  induction l as [|a l IH]; intros r n result sc sbc.
  - simpl. rewrite rev_involutive. reflexivity.
  - destruct r as [|b r]; [simpl; rewrite rev_involutive; reflexivity|].
    unfold py_zip2. cbn [combine gen_fitch_down_pass_loop4 char_loop].
    rewrite inter1, union_self. unfold py_set_truthy.
    fold (py_zip2 l r).
    destruct (negb (Z.land a b =? 0)).
    + unfold py_append. rewrite IH, rev_app_distr. reflexivity.
    + destruct w as [ws|]; simpl py_is_none; cbv iota.
      * unfold py_ogetitem. destruct (nth_error ws n) as [wt|]; [|simpl; reflexivity].
        destruct sbc as [sl|]; simpl py_is_none; simpl negb; cbv iota.
        -- unfold py_oiadd_item. rewrite list_iadd_eq.
           destruct (list_add_at sl n wt) as [sl'|]; [|simpl; reflexivity].
           unfold py_append. rewrite IH, rev_app_distr. reflexivity.
        -- unfold py_append. rewrite IH, rev_app_distr. reflexivity.
      * destruct sbc as [sl|]; simpl py_is_none; simpl negb; cbv iota.
        -- unfold py_oiadd_item. rewrite list_iadd_eq.
           destruct (list_add_at sl n 1) as [sl'|]; [|simpl; reflexivity].
           unfold py_append. rewrite IH, rev_app_distr. reflexivity.
        -- unfold py_append. rewrite IH, rev_app_distr. reflexivity.
Qed.

(* ---------- the `while True` loop over the remaining children ---------- *)
(* what the generated loop and the model's kids_loop have in common: the model also stores the
   result on the node (the statement after the loop), and does not keep the loop's dead variables *)
Definition kids_rel {A B C D E F G H} (P : A) (m : B) (w : C) (nd : tree) (c : D) (lc : E)
           (g : lres (store * option (list Z)) (A * B * C * store * option (list Z) * Z * tree * D * E * F * G * H * ssl))
           (o : outcome) : Prop :=
  match g, o with
  | LDone (P', m', w', st', sb', sc', nd', c', lc', _, _, _, result), Done p =>
    P' = P /\ m' = m /\ w' = w /\ nd' = nd /\ c' = c /\ lc' = lc /\ p = mkP (st_set st' (t_id nd) result) sc' sb'
  | LRaise (st', sb') e, Fail p e' => e = e' /\ p_store p = st' /\ p_sbc p = sb'
  | _, _ => False
  end.

Lemma gen_kids_loop_rel P m w nd c lc : forall rem fuel rc lssl st sbc sc,
  (length rem < fuel)%nat ->
  kids_rel P m w nd c lc
           (gen_fitch_down_pass_loop3 fuel P m w st sbc sc nd c lc rc rem lssl)
           (kids_loop m w nd lssl rc rem (mkP st sc sbc)).
Proof.
  induction rem as [|k rest IH]; intros fuel rc lssl st sbc sc Hf;
    (destruct fuel as [|fuel]; [simpl in Hf; lia|]);
    simpl gen_fitch_down_pass_loop3; simpl kids_loop; rewrite gen_retrieve_eq; simpl p_store;
    destruct (get_ss m st rc) as [st1 [rssl|e|]] eqn:G; simpl get_view; cbv iota; simpl p_score; simpl p_sbc;
    try (simpl; auto; fail); try (exfalso; exact (get_ss_no_fuel _ _ _ _ G)).
  - rewrite (gen_char_loop_eq P m w st1 nd c lc rc _ lssl rssl lssl rssl 0%nat [] sc sbc). simpl rev.
    destruct (char_loop w 0 lssl rssl [] sc sbc) as [[[res sc'] sb'] [e|]]; simpl; auto 10.
  - rewrite (gen_char_loop_eq P m w st1 nd c lc rc _ lssl rssl lssl rssl 0%nat [] sc sbc). simpl rev.
    destruct (char_loop w 0 lssl rssl [] sc sbc) as [[[res sc'] sb'] [e|]]; simpl char_view; cbv iota beta.
    + simpl. auto.
    + simpl py_list_truthy. cbv iota. simpl py_pop0. cbv iota beta.
      apply IH. simpl in Hf. lia.
Qed.

(* ---------- the loop over the nodes ---------- *)
Definition nodes_view {A B C} (P : A) (m : B) (w : C) (o : outcome)
  : lres (store * option (list Z)) (A * B * C * store * option (list Z) * Z) :=
  match o with
  | Done p => LDone (P, m, w, p_store p, p_sbc p, p_score p)
  | Fail p e => LRaise (p_store p, p_sbc p) e
  end.

Lemma gen_nodes_loop_eq P m w : forall nodes st sbc sc,
  gen_fitch_down_pass_loop2 P m w st sbc sc nodes = nodes_view P m w (run_nodes m w nodes (mkP st sc sbc)).
Proof.
  induction nodes as [|nd rest IH]; intros st sbc sc; [reflexivity|].
  cbn [gen_fitch_down_pass_loop2 run_nodes]. unfold node_step. unfold py_child_nodes.
  destruct (t_kids nd) as [|lc [|rc rem]] eqn:K; simpl py_list_truthy; simpl negb; cbv iota.
  - (* leaf *)
    destruct m as [mm|]; simpl py_is_none; simpl negb; cbv iota.
    + unfold py_dict_getitem, py_taxon. simpl p_store.
      destruct (map_get mm (t_taxon nd)) as [v|]; [|reflexivity].
      rewrite gen_store_eq. cbv iota beta. rewrite IH. reflexivity.
    + rewrite gen_retrieve_eq. simpl p_store.
      destruct (get_ss None st nd) as [st1 [v|e|]] eqn:G0; simpl get_view; cbv iota beta; simpl p_score; simpl p_sbc.
      * rewrite IH. reflexivity.
      * reflexivity.
      * exfalso. exact (get_ss_no_fuel _ _ _ _ G0).
  - reflexivity.
  - unfold py_slice_to, py_slice_from. simpl firstn. simpl skipn. simpl py_unpack2. cbv iota beta.
    rewrite gen_retrieve_eq. simpl p_store.
    destruct (get_ss m st lc) as [st1 [lssl|e|]] eqn:G; simpl get_view; cbv iota beta; simpl p_score; simpl p_sbc.
    + pose proof (gen_kids_loop_rel P m w nd (lc :: rc :: rem) lc rem (S (length rem)) rc lssl st1 sbc sc
                                    ltac:(lia)) as R.
      destruct (gen_fitch_down_pass_loop3 (S (length rem)) P m w st1 sbc sc nd (lc :: rc :: rem) lc rc rem lssl)
        as [[[[[[[[[[[[[P' m'] w'] st'] sb'] sc'] nd'] c'] lc'] rc'] rem'] lssl'] result]|[st' sb'] e|];
        destruct (kids_loop m w nd lssl rc rem (mkP st1 sc sbc)) as [p|p e']; simpl in R; try contradiction.
      * destruct R as [-> [-> [-> [-> [-> [-> ->]]]]]]. rewrite gen_store_eq. cbv iota beta.
        rewrite IH. reflexivity.
      * destruct R as [-> [<- <-]]. reflexivity.
    + reflexivity.
    + exfalso. exact (get_ss_no_fuel _ _ _ _ G).
Qed.

(* ---------- fitch_down_pass ---------- *)
Lemma gen_init_loop_eq P m w st : forall its l,
  gen_fitch_down_pass_loop1 P m w st (Some l) its = LDone (P, m, w, st, Some (l ++ repeat 0 (length its))).
Proof.
  induction its as [|i its IH]; intro l; simpl.
  - rewrite app_nil_r. reflexivity.
  - rewrite IH. rewrite <- app_assoc. reflexivity.
Qed.

Definition sbc_arg (given : bool) : option (list Z) := if given then Some [] else None.

Lemma gen_fitch_down_pass_eq m w sbc_given st t :
  gen_fitch_down_pass (postorder t) m w st (sbc_arg sbc_given) = outcome_view (fitch_down_pass m w sbc_given st t).
Proof.
  unfold gen_fitch_down_pass, fitch_down_pass, sbc_arg. destruct sbc_given; simpl py_is_none; simpl negb; cbv iota.
  - simpl py_olen. cbv iota. simpl Nat.eqb. cbv iota.
    destruct m as [[|[x0 row0] rest]|]; simpl py_dict_values; cbv iota; try reflexivity.
    change (py_getitem (row0 :: map snd rest) 0) with (@Ok (list Z) row0). cbv iota. rewrite gen_init_loop_eq. cbv iota beta.
    unfold py_range. rewrite seq_length. simpl app.
    rewrite gen_nodes_loop_eq.
    match goal with |- context [run_nodes ?a ?b ?c ?d] => destruct (run_nodes a b c d) end; reflexivity.
  - rewrite gen_nodes_loop_eq. destruct (run_nodes m w (postorder t) (mkP st 0 None)); reflexivity.
Qed.

(* ---------- fitch_up_pass ---------- *)
Lemma gen_up_char_loop_eq P m (st : store) nd c p lc rc
      lssl rssl pssl cssl : forall a b cc d result n,
  gen_fitch_up_pass_loop2 P m st nd c p lc rc lssl rssl pssl cssl result n (py_zip4 a b cc d) =
  LDone (P, m, st, nd, c, p, lc, rc, lssl, rssl, pssl, cssl, result ++ zip4 a b cc d).
Proof.
  induction a as [|x a IH]; intros b cc d result n.
  - simpl. rewrite app_nil_r. reflexivity.
  - destruct b as [|y b]; [simpl; rewrite app_nil_r; reflexivity|].
    destruct cc as [|z cc]; [simpl; rewrite app_nil_r; reflexivity|].
    destruct d as [|u d]; [simpl; rewrite app_nil_r; reflexivity|].
    cbn [py_zip4 gen_fitch_up_pass_loop2 zip4].
    rewrite !inter1, union1, union2. unfold py_set_eq, py_set_truthy, py_append, final_set.
    destruct (Z.land x y =? x).
    + rewrite IH, <- app_assoc. reflexivity.
    + rewrite negb_involutive. destruct (Z.land z u =? 0); rewrite IH, <- app_assoc; reflexivity.
Qed.

(* the model's pre-order walk, one node at a time *)
Definition up_here (m : option matrix) (st : store) (x : pnode) : store * option err :=
  match t_kids (fst x), snd x with
  | [], _ => (st, None)
  | _, None => (st, None)
  | [lc; rc], Some p =>
    match up_get m st lc with
    | Err er => (st, Some er) | OutOfFuel => (st, Some OtherErr)
    | Ok lss =>
      match up_get m st rc with
      | Err er => (st, Some er) | OutOfFuel => (st, Some OtherErr)
      | Ok rss =>
        match attr_get st p with
        | Err er => (st, Some er) | OutOfFuel => (st, Some OtherErr)
        | Ok pss =>
          match attr_get st (fst x) with
          | Err er => (st, Some er) | OutOfFuel => (st, Some OtherErr)
          | Ok css => (st_set st (t_id (fst x)) (zip4 pss css lss rss), None)
          end
        end
      end
    end
  | _, Some _ => (st, Some AssertErr)
  end.

Fixpoint up_list (m : option matrix) (xs : list pnode) (st : store) : store * option err :=
  match xs with
  | [] => (st, None)
  | x :: r => match up_here m st x with
              | (st1, Some er) => (st1, Some er)
              | (st1, None) => up_list m r st1
              end
  end.

Lemma up_list_app m xs ys st :
  up_list m (xs ++ ys) st =
  match up_list m xs st with (st1, Some er) => (st1, Some er) | (st1, None) => up_list m ys st1 end.
Proof.
  revert st. induction xs as [|x xs IH]; intro st; simpl.
  - destruct (up_list m ys st) as [s [e|]]; reflexivity.
  - destruct (up_here m st x) as [st1 [er|]]; [reflexivity|]. apply IH.
Qed.

Lemma up_walk_list m : forall t parent st,
  up_walk m parent t st = up_list m (preorder_with_parent parent t) st.
Proof.
  induction t as [i x l e ks IH] using tree_ind'. intros parent st.
  simpl preorder_with_parent. simpl up_list. simpl up_walk.
  change (up_here m st (T i x l e ks, parent)) with
    (match ks, parent with
     | [], _ => (st, None)
     | _, None => (st, None)
     | [lc; rc], Some p =>
       match up_get m st lc with
       | Err er => (st, Some er) | OutOfFuel => (st, Some OtherErr)
       | Ok lss =>
         match up_get m st rc with
         | Err er => (st, Some er) | OutOfFuel => (st, Some OtherErr)
         | Ok rss =>
           match attr_get st p with
           | Err er => (st, Some er) | OutOfFuel => (st, Some OtherErr)
           | Ok pss =>
             match attr_get st (T i x l e ks) with
             | Err er => (st, Some er) | OutOfFuel => (st, Some OtherErr)
             | Ok css => (st_set st i (zip4 pss css lss rss), None)
             end
           end
         end
       end
     | _, Some _ => (st, Some AssertErr)
     end).
  match goal with |- match ?H with _ => _ end = match ?H' with _ => _ end => change H' with H; destruct H as [st1 [er|]] end;
    [reflexivity|].
  clear st. revert st1. generalize (Some (T i x l e ks)). intro par.
  induction IH as [|k r Hk Hr IHr]; intro st1; simpl; [reflexivity|].
  rewrite up_list_app, <- Hk.
  destruct (up_walk m par k st1) as [s' [er|]]; [reflexivity|]. apply IHr.
Qed.

Lemma up_get_attr m st n : up_get m st n =
  match py_getattr st n with
  | Ok v => Ok v
  | Err _ => if negb (py_dict_truthy m) then Err AttrErr else py_dict_getitem m (py_taxon n)
  | OutOfFuel => OutOfFuel
  end.
Proof.
  unfold up_get, py_getattr. destruct (lookup (t_id n) st); [reflexivity|].
  destruct m as [[|r0 mm]|]; simpl; reflexivity.
Qed.

Lemma dict_getitem_no_fuel m k : py_dict_getitem m k <> OutOfFuel.
Proof. unfold py_dict_getitem. destruct m as [mm|]; [|discriminate]. destruct (map_get mm k); discriminate. Qed.

Definition up_view {A B} (P : A) (m : B) (r : store * option err) : lres store (A * B * store) :=
  match r with (st, None) => LDone (P, m, st) | (st, Some e) => LRaise st e end.

Lemma gen_up_loop_eq P m : forall xs st,
  gen_fitch_up_pass_loop1 P m st xs = up_view P m (up_list m xs st).
Proof.
  induction xs as [|x xs IH]; intro st; [reflexivity|].
  simpl gen_fitch_up_pass_loop1. simpl up_list. unfold up_here, py_child_nodes, pn_node, py_parent_node.
  destruct x as [nd p]. simpl fst. simpl snd.
  destruct (t_kids nd) as [|lc [|rc [|k3 rem]]]; simpl py_list_truthy; simpl negb; simpl orb; cbv iota.
  - rewrite IH. destruct p; reflexivity.
  - destruct p as [pp|]; simpl py_optnode_truthy; simpl negb; cbv iota; [reflexivity|]. rewrite IH. reflexivity.
  - destruct p as [pp|]; simpl py_optnode_truthy; simpl negb; cbv iota; [|rewrite IH; reflexivity].
    simpl length. simpl Nat.eqb. cbv iota. simpl py_unpack2. cbv iota beta.
    rewrite !up_get_attr. unfold attr_get, py_getattr_opt, py_getattr.
    destruct (lookup (t_id lc) st) as [lss|]; destruct (lookup (t_id rc) st) as [rss|];
      destruct (lookup (t_id pp) st) as [pss|]; destruct (lookup (t_id nd) st) as [css|];
      destruct (negb (py_dict_truthy m));
      destruct (py_dict_getitem m (py_taxon lc)) as [lv|le|] eqn:DL;
      destruct (py_dict_getitem m (py_taxon rc)) as [rv|re|] eqn:DR;
      try (exfalso; exact (dict_getitem_no_fuel _ _ DL)); try (exfalso; exact (dict_getitem_no_fuel _ _ DR));
      cbn [err_eqb]; cbv iota beta;
      try match goal with
          | |- context [gen_fitch_up_pass_loop2 ?P ?m ?st ?nd ?c ?p ?lc ?rc ?a ?b ?cc ?d ?res ?n (py_zip4 ?x ?y ?z ?u)] =>
            rewrite (gen_up_char_loop_eq P m st nd c p lc rc a b cc d x y z u res n)
          end;
      cbv iota beta; unfold py_setattr; rewrite ?IH; simpl app; reflexivity.
  - destruct p as [pp|]; simpl py_optnode_truthy; simpl negb; cbv iota; [|rewrite IH; reflexivity].
    reflexivity.
Qed.

Definition up_result_view (r : store * option err) : fres store unit :=
  match r with (st, None) => FRet st tt | (st, Some e) => FRaise st e end.

Lemma gen_fitch_up_pass_eq m st t :
  gen_fitch_up_pass (preorder_with_parent None t) m st = up_result_view (fitch_up_pass m st t).
Proof.
  unfold gen_fitch_up_pass, fitch_up_pass. rewrite gen_up_loop_eq, up_walk_list.
  destruct (up_list m (preorder_with_parent None t) st) as [s [e|]]; reflexivity.
Qed.

(* ---------- parsimony_score ---------- *)
Lemma gen_parsimony_score_eq ns_tree root ns_chars al cm gam w sbc_given st :
  gen_parsimony_score (mkTreeObj ns_tree root) (mkCharsObj ns_chars al cm) gam w st (sbc_arg sbc_given) =
  if Z.eqb ns_tree ns_chars
  then outcome_view (fitch_down_pass (Some (taxon_state_sets_map al gam cm)) w sbc_given st root)
  else FRaise (st, sbc_arg sbc_given) ValueErr.
Proof.
  unfold gen_parsimony_score, py_is, py_taxon_state_sets_map, py_postorder_node_iter. simpl to_namespace.
  simpl co_namespace. simpl to_seed. simpl co_alphabet. simpl co_rows.
  destruct (ns_tree =? ns_chars); simpl negb; cbv iota; [|reflexivity].
  rewrite gen_fitch_down_pass_eq.
  destruct (fitch_down_pass (Some (taxon_state_sets_map al gam cm)) w sbc_given st root) as [[s sc sb]|[s sc sb] e];
    reflexivity.
Qed.

(* a scoring call of a history, computed by the generated parsimony_score *)
Definition fres_obs (t : tree) (r : fres (store * option (list Z)) Z) : store * obs :=
  match r with
  | FRet (st, sb) sc => (st, mkObs (Ok sc) sb (dump st t))
  | FRaise (st, sb) e => (st, mkObs (Err e) sb (dump st t))
  | FFuel => ([], mkObs OutOfFuel None [])
  end.

Lemma run_call_generated t st c same ns_tree ns_chars :
  k_api c = ParsimonyScore same -> same = Z.eqb ns_tree ns_chars ->
  run_call t st c =
  fres_obs t (gen_parsimony_score (mkTreeObj ns_tree t) (mkCharsObj ns_chars (k_alpha c) (k_chars c))
                                  (k_gam c) (k_weights c) st (sbc_arg (k_sbc c))).
Proof.
  intros A ->. unfold run_call. rewrite A, gen_parsimony_score_eq. unfold call_map.
  destruct (ns_tree =? ns_chars).
  - destruct (fitch_down_pass _ _ _ _ _) as [[s sc sb]|[s sc sb] e]; reflexivity.
  - unfold sbc_arg. destruct (k_sbc c); reflexivity.
Qed.

(* ---------- the property theorems, restated for the generated code ---------- *)
From DV Require Import Proofs.C16Fitch Proofs.C16Link Proofs.C16Top.

Lemma gen_down_pass_weighted_sum m w k sbc_given st t :
  binary t -> NoDup (ids t) -> covers m k t -> Forall (fun row => length (snd row) = k) m -> weights_ok w k ->
  exists st',
    gen_fitch_down_pass (postorder t) (Some m) w st (sbc_arg sbc_given) =
    FRet (st', if sbc_given then Some (map (fun i => weight_at w i * fitch_score (column m i) t) (seq 0 k)) else None)
         (zsum (map (fun i => weight_at w i * fitch_score (column m i) t) (seq 0 k))).
Proof.
  intros B ND C R W. destruct (down_pass_binary m w k sbc_given st t B ND C R W) as [st' E].
  exists st'. rewrite gen_fitch_down_pass_eq, E. reflexivity.
Qed.

(* score / exception and per-character list of a result of generated code *)
Definition fres_result {S} (r : fres (S * option (list Z)) Z) : res Z * option (list Z) :=
  match r with
  | FRet (_, sb) sc => (Ok sc, sb)
  | FRaise (_, sb) e => (Err e, sb)
  | FFuel => (OutOfFuel, None)
  end.

Lemma gen_parsimony_score_store_independent ns_tree ns_chars root al cm gam w sbc_given st1 st2 :
  fres_result (gen_parsimony_score (mkTreeObj ns_tree root) (mkCharsObj ns_chars al cm) gam w st1 (sbc_arg sbc_given)) =
  fres_result (gen_parsimony_score (mkTreeObj ns_tree root) (mkCharsObj ns_chars al cm) gam w st2 (sbc_arg sbc_given)).
Proof.
  rewrite !gen_parsimony_score_eq. destruct (ns_tree =? ns_chars); [|reflexivity].
  pose proof (down_pass_sim (taxon_state_sets_map al gam cm) w sbc_given st1 st2 root) as S.
  destruct (fitch_down_pass (Some (taxon_state_sets_map al gam cm)) w sbc_given st1 root) as [[s1 sc1 sb1]|[s1 sc1 sb1] e1];
    destruct (fitch_down_pass (Some (taxon_state_sets_map al gam cm)) w sbc_given st2 root) as [[s2 sc2 sb2]|[s2 sc2 sb2] e2];
    simpl in S; try contradiction; simpl.
  - destruct S as [_ [E1 E2]]. simpl in E1, E2. subst. reflexivity.
  - destruct S as [E1 E2]. simpl in E2. subst. reflexivity.
Qed.
