(* C11, wave 9: once a tree has been imported by label it STAYS resolved - every node taxon is the first member of
   the tree's namespace matching its label - through every later operation that does not re-map that tree or purge
   a namespace; hence, over histories, equal labels of the trees of one list that arrived by the import routes sit on
   one taxon.  The read route is the counter-example (Proofs/C11W9Examples.v). *)
From Coq Require Import List Bool Arith ZArith Lia.
From DV Require Import Model.PyPrims Model.C11Model Model.C11W7Model Model.C11W8Model
  Proofs.C11Base Proofs.C11Inv Proofs.C11Ops Proofs.C11Unify Proofs.C11W7 Proofs.C11W7b Proofs.C11W8
  Proofs.C11W9First Proofs.C11W9Step Proofs.C11W9Wf Proofs.C11W8Examples Proofs.C11W9Examples.
Import ListNotations.
Open Scope nat_scope.

(* how a state may change: taxa are only created, existing namespaces only gain members at the end and keep their
   case rule, namespaces and trees are only created, and only the trees in S are re-written *)
Definition G (S : oid -> Prop) (a b : state) : Prop :=
  (exists L, s_lab b = s_lab a ++ L) /\
  (forall n, n < s_nns a -> (exists M, members b n = members a n ++ M) /\ ns_cs b n = ns_cs a n) /\
  s_nns a <= s_nns b /\ length (s_trees a) <= length (s_trees b) /\
  (forall j, j < length (s_trees a) -> ~ S j -> gettree b j = gettree a j).

Definition S0 : oid -> Prop := fun _ => False.

Lemma G_refl : forall S a, G S a a.
Proof.
  intros S a. split; [exists []; rewrite app_nil_r; reflexivity|]. split.
  - intros n _. split; [exists []; rewrite app_nil_r; reflexivity | reflexivity].
  - split; [lia|]. split; [lia|]. reflexivity.
Qed.

Lemma G_trans : forall S a b c, G S a b -> G S b c -> G S a c.
Proof.
  intros S a b c [[L1 E1] [N1 [A1 [B1 F1]]]] [[L2 E2] [N2 [A2 [B2 F2]]]]. split; [|split; [|split; [|split]]].
  - exists (L1 ++ L2). rewrite E2, E1, app_assoc. reflexivity.
  - intros n Hn. destruct (N1 n Hn) as [[M1 P1] Q1]. destruct (N2 n ltac:(lia)) as [[M2 P2] Q2]. split.
    + exists (M1 ++ M2). rewrite P2, P1, app_assoc. reflexivity.
    + congruence.
  - lia.
  - lia.
  - intros j Hj Ns. rewrite F2 by (try lia; exact Ns). apply F1; assumption.
Qed.

Lemma G_trans_lt : forall (S S' : oid -> Prop) a b c,
  G S a b -> G S' b c -> (forall j, j < length (s_trees a) -> ~ S j -> ~ S' j) -> G S a c.
Proof.
  intros S S' a b c [[L1 E1] [N1 [A1 [B1 F1]]]] [[L2 E2] [N2 [A2 [B2 F2]]]] H. split; [|split; [|split; [|split]]].
  - exists (L1 ++ L2). rewrite E2, E1, app_assoc. reflexivity.
  - intros n Hn. destruct (N1 n Hn) as [[M1 P1] Q1]. destruct (N2 n ltac:(lia)) as [[M2 P2] Q2]. split.
    + exists (M1 ++ M2). rewrite P2, P1, app_assoc. reflexivity.
    + congruence.
  - lia.
  - lia.
  - intros j Hj Ns. rewrite F2 by (try lia; apply H; assumption). apply F1; assumption.
Qed.

Lemma G_weaken : forall (S S' : oid -> Prop) a b,
  (forall j, j < length (s_trees a) -> S j -> S' j) -> G S a b -> G S' a b.
Proof.
  intros S S' a b H [E [N [A [B F]]]]. split; [exact E|]. split; [exact N|]. split; [exact A|]. split; [exact B|].
  intros j Hj Ns. apply F; [exact Hj|]. intro K. apply Ns. apply H; assumption.
Qed.

Lemma G_same : forall S a b,
  s_lab b = s_lab a -> s_mem b = s_mem a -> s_cs b = s_cs a -> s_nns b = s_nns a -> s_trees b = s_trees a -> G S a b.
Proof.
  intros S a b E1 E2 E3 E4 E5. unfold G, members, ns_cs, gettree. rewrite E1, E2, E3, E4, E5.
  split; [exists []; rewrite app_nil_r; reflexivity|]. split.
  - intros n _. split; [exists []; rewrite app_nil_r; reflexivity | reflexivity].
  - split; [lia|]. split; [lia|]. reflexivity.
Qed.

Lemma G_set_members_app : forall S st n M, G S st (set_members st n (members st n ++ M)).
Proof.
  intros S st n M. split; [exists []; rewrite app_nil_r; reflexivity|]. split.
  - intros n' _. split; [|reflexivity]. destruct (Nat.eq_dec n' n) as [->|Ne].
    + exists M. apply members_set_members_same.
    + exists []. rewrite app_nil_r. apply members_set_members_other. exact Ne.
  - split; [cbn; lia|]. split; [cbn; lia|]. reflexivity.
Qed.

Lemma G_alloc_taxon : forall S st l, G S st (fst (alloc_taxon st l)).
Proof.
  intros S st l. cbn [alloc_taxon fst]. split; [exists [l]; reflexivity|]. split.
  - intros n _. split; [exists []; rewrite app_nil_r; reflexivity | reflexivity].
  - split; [cbn; lia|]. split; [cbn; lia|]. reflexivity.
Qed.

Lemma G_set_tree : forall st i t, G (fun j => j = i) st (set_tree st i t).
Proof.
  intros st i t. split; [exists []; rewrite app_nil_r; reflexivity|]. split.
  - intros n _. split; [exists []; rewrite app_nil_r; reflexivity | reflexivity].
  - split; [cbn; lia|]. split; [cbn [set_tree s_trees]; rewrite upd_length; lia|].
    intros j _ Nj. apply gettree_set_other. exact Nj.
Qed.

Lemma G_alloc_tree : forall S st t, G S st (fst (alloc_tree st t)).
Proof.
  intros S st t. cbn [alloc_tree fst]. split; [exists []; rewrite app_nil_r; reflexivity|]. split.
  - intros n _. split; [exists []; rewrite app_nil_r; reflexivity | reflexivity].
  - split; [cbn; lia|]. split; [cbn [s_trees]; rewrite app_length; lia|].
    intros j Hj _. unfold gettree. cbn [s_trees]. apply app_nth1. exact Hj.
Qed.

Lemma G_alloc_ns : forall S st cs, G S st (fst (alloc_ns st cs)).
Proof.
  intros S st cs. cbn [alloc_ns fst]. split; [exists []; rewrite app_nil_r; reflexivity|]. split.
  - intros n Hn. split; [exists []; rewrite app_nil_r; reflexivity|]. unfold ns_cs. cbn [s_cs alookup].
    destruct (Nat.eqb n (s_nns st)) eqn:E; [apply Nat.eqb_eq in E; lia | reflexivity].
  - split; [cbn; lia|]. split; [cbn; lia|]. reflexivity.
Qed.

Lemma G_add_member : forall S st n t, G S st (add_member st n t).
Proof. intros S st n t. unfold add_member. destruct (memb t (members st n)); [apply G_refl | apply G_set_members_app]. Qed.

Lemma G_add_members : forall S xs st n, G S st (add_members st n xs).
Proof.
  intros S xs. induction xs as [|x r IH]; intros st n; cbn [add_members fold_left]; [apply G_refl|].
  eapply G_trans; [apply G_add_member | apply IH].
Qed.

Lemma G_new_taxon : forall S st n l, G S st (fst (new_taxon st n l)).
Proof.
  intros S st n l. unfold new_taxon. cbv beta iota zeta. unfold alloc_taxon. cbn [fst].
  eapply G_trans; [apply (G_alloc_taxon S st l)|]. cbn [alloc_taxon fst]. apply G_set_members_app.
Qed.

Section WithLower.
Variable lower : lbl -> lbl.

Lemma G_require_taxon : forall S st n l cs, G S st (fst (require_taxon lower st n l cs)).
Proof.
  intros S st n l cs. unfold require_taxon. destruct (first_match lower st n cs l); [apply G_refl | apply G_new_taxon].
Qed.

Lemma G_recon_refs : forall S n u refs st mm, G S st (fst (fst (recon_refs lower st n u refs mm))).
Proof.
  intros S n u refs. induction refs as [|x r IH]; intros st mm; cbn [recon_refs]; [apply G_refl|].
  destruct (u || negb (memb x (members st n))).
  - destruct (alookup x mm) as [t|].
    + specialize (IH (add_member st n t) mm). destruct (recon_refs lower (add_member st n t) n u r mm) as [[s2 r2] m2].
      cbn [fst] in *. eapply G_trans; [apply G_add_member | exact IH].
    + assert (K : G S st (fst (if u then require_taxon lower st n (label st x) (ns_cs st n) else new_taxon st n (label st x))))
        by (destruct u; [apply G_require_taxon | apply G_new_taxon]).
      destruct (if u then require_taxon lower st n (label st x) (ns_cs st n) else new_taxon st n (label st x)) as [s1 t].
      cbn [fst] in K. specialize (IH s1 ((x, t) :: mm)). destruct (recon_refs lower s1 n u r ((x, t) :: mm)) as [[s2 r2] m2].
      cbn [fst] in *. eapply G_trans; eassumption.
  - specialize (IH st mm). destruct (recon_refs lower st n u r mm) as [[s2 r2] m2]. cbn [fst] in *. exact IH.
Qed.

Lemma G_migrate_tree : forall st tr n u mm, G (fun j => j = tr) st (fst (migrate_tree lower st tr n u mm)).
Proof.
  intros st tr n u mm. unfold migrate_tree.
  pose proof (G_recon_refs (fun j => j = tr) n u (t_refs (gettree st tr)) st mm) as K.
  destruct (recon_refs lower st n u (t_refs (gettree st tr)) mm) as [[s1 refs'] m1]. cbn [fst] in *.
  eapply G_trans; [exact K | apply G_set_tree].
Qed.

Lemma G_update_tree : forall st tr n, G (fun j => j = tr) st (update_tree st tr n).
Proof. intros st tr n. unfold update_tree. eapply G_trans; [apply G_add_members | apply G_set_tree]. Qed.

Lemma G_clone_memo : forall S n ms st mm, G S st (fst (clone_memo lower st n ms mm)).
Proof.
  intros S n ms. induction ms as [|x r IH]; intros st mm; cbn [clone_memo]; [apply G_refl|].
  pose proof (G_require_taxon S st n (label st x) (ns_cs st n)) as K.
  destruct (require_taxon lower st n (label st x) (ns_cs st n)) as [s1 t]. cbn [fst] in K.
  eapply G_trans; [exact K | apply IH].
Qed.

Lemma G_clone_refs : forall S refs st mm, G S st (fst (fst (clone_refs st refs mm))).
Proof.
  intros S refs. induction refs as [|x r IH]; intros st mm; cbn [clone_refs]; [apply G_refl|].
  destruct (alookup x mm) as [t|].
  - specialize (IH st mm). destruct (clone_refs st r mm) as [[s2 r2] m2]. exact IH.
  - pose proof (G_alloc_taxon S st (label st x)) as K. destruct (alloc_taxon st (label st x)) as [s1 t]. cbn [fst] in K.
    specialize (IH s1 ((x, t) :: mm)). destruct (clone_refs s1 r ((x, t) :: mm)) as [[s2 r2] m2]. cbn [fst] in *.
    eapply G_trans; eassumption.
Qed.

Lemma G_clone_tree : forall S st tr n, G S st (fst (clone_tree lower st tr n)).
Proof.
  intros S st tr n. unfold clone_tree. cbv zeta.
  assert (K1 : G S st (fst (if Nat.eqb (t_ns (gettree st tr)) n then (st, map (fun x => (x, x)) (members st (t_ns (gettree st tr))))
                            else clone_memo lower st n (members st (t_ns (gettree st tr))) [])))
    by (destruct (Nat.eqb (t_ns (gettree st tr)) n); [apply G_refl | apply G_clone_memo]).
  destruct (if Nat.eqb (t_ns (gettree st tr)) n then (st, map (fun x => (x, x)) (members st (t_ns (gettree st tr))))
            else clone_memo lower st n (members st (t_ns (gettree st tr))) []) as [s1 mm]. cbn [fst] in K1.
  pose proof (G_clone_refs S (t_refs (gettree st tr)) s1 mm) as K2.
  destruct (clone_refs s1 (t_refs (gettree st tr)) mm) as [[s2 refs'] m2]. cbn [fst] in K2.
  eapply G_trans; [exact K1|]. eapply G_trans; [exact K2 | apply G_alloc_tree].
Qed.

Lemma G_list_push : forall S st l tr, G S st (list_push st l tr).
Proof. intros. apply G_same; reflexivity. Qed.

Lemma G_import_tree_m : forall st ln tr s mm, G (fun j => j = tr) st (fst (fst (import_tree_m lower st ln tr s mm))).
Proof.
  intros st ln tr s mm. unfold import_tree_m. destruct (Nat.eqb (t_ns (gettree st tr)) ln); [apply G_refl|].
  destruct s as [u| |]; [|apply G_update_tree | apply G_refl].
  pose proof (G_migrate_tree st tr ln u mm) as K. destruct (migrate_tree lower st tr ln u mm) as [s1 m1]. exact K.
Qed.

Lemma G_import_tree : forall st ln tr s, G (fun j => j = tr) st (fst (import_tree lower st ln tr s)).
Proof. intros st ln tr s. rewrite <- (import_tree_m_nil lower). cbn [fst]. apply G_import_tree_m. Qed.

Lemma G_append_tree : forall st l tr s, G (fun j => j = tr) st (fst (append_tree lower st l tr s)).
Proof.
  intros st l tr s. unfold append_tree. pose proof (G_import_tree st (l_ns (getlist st l)) tr s) as K.
  destruct (import_tree lower st (l_ns (getlist st l)) tr s) as [s1 ok]. cbn [fst] in K. destruct ok; cbn [fst]; [|exact K].
  eapply G_trans; [exact K | apply G_list_push].
Qed.

Lemma G_in_cons : forall (t : oid) r a b, G (fun j => j = t) a b -> G (fun j => In j (t :: r)) a b.
Proof. intros t r a b. apply G_weaken. intros j _ E. left. symmetry. exact E. Qed.

Lemma G_in_tail : forall (t : oid) r a b, G (fun j => In j r) a b -> G (fun j => In j (t :: r)) a b.
Proof. intros t r a b. apply G_weaken. intros j _ E. right. exact E. Qed.

Lemma G_append_all : forall trs st l, G (fun j => In j trs) st (append_all lower st l trs).
Proof.
  induction trs as [|t r IH]; intros st l; cbn [append_all]; [apply G_refl|].
  eapply G_trans; [apply G_in_cons, G_append_tree | apply G_in_tail, IH].
Qed.

Lemma G_import_all : forall trs st n, G (fun j => In j trs) st (import_all lower st n trs).
Proof.
  induction trs as [|t r IH]; intros st n; cbn [import_all]; [apply G_refl|].
  eapply G_trans; [apply G_in_cons, G_import_tree | apply G_in_tail, IH].
Qed.

Lemma G_clone_push_all : forall S trs st l, G S st (clone_push_all lower st l trs).
Proof.
  intros S trs. induction trs as [|t r IH]; intros st l; cbn [clone_push_all]; [apply G_refl|].
  pose proof (G_clone_tree S st t (l_ns (getlist st l))) as K. destruct (clone_tree lower st t (l_ns (getlist st l))) as [s1 c].
  cbn [fst] in K. eapply G_trans; [exact K|]. eapply G_trans; [apply G_list_push | apply IH].
Qed.

Lemma G_clone_all : forall S trs st n acc, G S st (fst (clone_all lower st n trs acc)).
Proof.
  intros S trs. induction trs as [|t r IH]; intros st n acc; cbn [clone_all]; [apply G_refl|].
  pose proof (G_clone_tree S st t n) as K. destruct (clone_tree lower st t n) as [s1 c]. cbn [fst] in K.
  eapply G_trans; [exact K | apply IH].
Qed.

Lemma G_migrate_trees : forall n u trs st mm, G (fun j => In j trs) st (fst (migrate_trees lower st n u trs mm)).
Proof.
  intros n u trs. induction trs as [|t r IH]; intros st mm; cbn [migrate_trees]; [apply G_refl|].
  pose proof (G_migrate_tree st t n u mm) as K. destruct (migrate_tree lower st t n u mm) as [s1 m1]. cbn [fst] in K.
  eapply G_trans; [apply G_in_cons, K | apply G_in_tail, IH].
Qed.

Lemma G_update_trees : forall trs st n, G (fun j => In j trs) st (update_trees st n trs).
Proof.
  induction trs as [|t r IH]; intros st n; cbn [update_trees]; [apply G_refl|].
  eapply G_trans; [apply G_in_cons, G_update_tree | apply G_in_tail, IH].
Qed.

Lemma G_read_refs : forall S n cs labels st seen, G S st (fst (fst (read_refs lower st n cs labels seen))).
Proof.
  intros S n cs labels. induction labels as [|l r IH]; intros st seen; cbn [read_refs]; [apply G_refl|].
  assert (K : G S st (fst (match last_match lower st n cs l with Some t => (st, t) | None => new_taxon st n l end)))
    by (destruct (last_match lower st n cs l); [apply G_refl | apply G_new_taxon]).
  destruct (match last_match lower st n cs l with Some t => (st, t) | None => new_taxon st n l end) as [s1 t]. cbn [fst] in K.
  destruct (memb t seen); cbn [fst]; [exact K|]. eapply G_trans; [exact K | apply IH].
Qed.

Lemma G_read_trees : forall cs trees st l, G S0 st (fst (read_trees lower st l cs trees)).
Proof.
  intros cs trees. induction trees as [|labels r IH]; intros st l; cbn [read_trees]; [apply G_refl|].
  unfold alloc_tree. cbv beta iota zeta.
  set (n := l_ns (getlist st l)).
  set (s1 := mkSt (s_lab st) (s_mem st) (s_cs st) (s_nns st) (s_trees st ++ [mkTree n []]) (s_lists st) (s_mats st) (s_dss st)).
  assert (K1 : G S0 st s1) by (apply (G_alloc_tree S0 st (mkTree n []))).
  pose proof (G_read_refs S0 n cs labels (list_push s1 l (length (s_trees st))) []) as K3.
  destruct (read_refs lower (list_push s1 l (length (s_trees st))) n cs labels []) as [[s3 refs] ok]. cbn [fst] in K3.
  assert (K : G S0 st (set_tree s3 (length (s_trees st)) (mkTree n refs))).
  { eapply G_trans_lt; [|apply G_set_tree|].
    - eapply G_trans; [exact K1|]. eapply G_trans; [apply (G_list_push S0) | exact K3].
    - intros j Hj _ E. lia. }
  destruct ok; cbn [fst]; [|exact K]. eapply G_trans; [exact K | apply IH].
Qed.

End WithLower.

Section WithLower2.
Variable lower : lbl -> lbl.

Lemma G_recon_rows : forall S n u orig st rows mm, G S st (fst (fst (fst (recon_rows lower st n u orig rows mm)))).
Proof.
  intros S n u orig. induction orig as [|x r IH]; intros st rows mm; cbn [recon_rows]; [apply G_refl|].
  destruct (u || negb (memb x (members st n))); [|apply IH].
  assert (K : G S st (fst (fst (match alookup x mm with
              | None => let '(s1, t) := if u then require_taxon lower st n (label st x) (ns_cs st n)
                                        else new_taxon st n (label st x) in (s1, t, (x, t) :: mm)
              | Some t => (add_member st n t, t, mm) end)))).
  { destruct (alookup x mm) as [t|]; [apply G_add_member|].
    assert (K : G S st (fst (if u then require_taxon lower st n (label st x) (ns_cs st n) else new_taxon st n (label st x))))
      by (destruct u; [apply G_require_taxon | apply G_new_taxon]).
    destruct (if u then require_taxon lower st n (label st x) (ns_cs st n) else new_taxon st n (label st x)) as [s1 t]. exact K. }
  destruct (match alookup x mm with
              | None => let '(s1, t) := if u then require_taxon lower st n (label st x) (ns_cs st n)
                                        else new_taxon st n (label st x) in (s1, t, (x, t) :: mm)
              | Some t => (add_member st n t, t, mm) end) as [[s1 t] m1]. cbn [fst] in K.
  destruct (memb t rows); cbn [fst]; [exact K|]. eapply G_trans; [exact K | apply IH].
Qed.

Lemma G_migrate_mat : forall S st m n u mm, G S st (fst (fst (migrate_mat lower st m n u mm))).
Proof.
  intros S st m n u mm. unfold migrate_mat.
  pose proof (G_recon_rows S n u (m_rows (getmat st m)) st (m_rows (getmat st m)) mm) as K.
  destruct (recon_rows lower st n u (m_rows (getmat st m)) (m_rows (getmat st m)) mm) as [[[s1 rows'] m1] ok]. cbn [fst] in *.
  eapply G_trans; [exact K | apply G_same; reflexivity].
Qed.

Lemma G_read_rows : forall S labels st m, G S st (fst (read_rows lower st m labels)).
Proof.
  intros S labels. induction labels as [|l r IH]; intros st m; cbn [read_rows]; [apply G_refl|].
  pose proof (G_require_taxon lower S st (m_ns (getmat st m)) l (ns_cs st (m_ns (getmat st m)))) as K.
  destruct (require_taxon lower st (m_ns (getmat st m)) l (ns_cs st (m_ns (getmat st m)))) as [s1 t]. cbn [fst] in K.
  destruct (memb t (m_rows (getmat s1 m))); cbn [fst]; [exact K|].
  eapply G_trans; [exact K|]. eapply G_trans; [|apply IH]. apply G_same; reflexivity.
Qed.

Lemma set_list_trees : forall st l n, l_trees (getlist (set_list st l (mkTL n (l_trees (getlist st l)))) l) = l_trees (getlist st l).
Proof.
  intros st l n. unfold getlist, set_list. cbn [s_lists]. destruct (nth_error (s_lists st) l) as [L|] eqn:E.
  - erewrite (nth_error_some_nth _ (upd (s_lists st) l _) l dlist); [|eapply nth_error_upd_same; exact E]. reflexivity.
  - apply nth_error_None in E. rewrite !nth_overflow; [reflexivity | exact E | rewrite upd_length; exact E].
Qed.

Lemma G_migrate_list : forall st l n u mm, G (fun j => In j (l_trees (getlist st l))) st (fst (migrate_list lower st l n u mm)).
Proof.
  intros st l n u mm. unfold migrate_list, reconstruct_list. rewrite set_list_trees.
  eapply (G_trans _ _ (set_list st l (mkTL n (l_trees (getlist st l))))); [apply G_same; reflexivity | apply G_migrate_trees].
Qed.

Definition ST : oid -> Prop := fun _ => True.

Lemma G_any : forall S a b, G S a b -> G ST a b.
Proof. intros S a b. apply G_weaken. intros. exact Logic.I. Qed.

Lemma G_unify_lists : forall n ls st mm, G ST st (fst (unify_lists lower st n ls mm)).
Proof.
  intros n ls. induction ls as [|l r IH]; intros st mm; cbn [unify_lists]; [apply G_refl|].
  pose proof (G_migrate_list st l n true mm) as K. destruct (migrate_list lower st l n true mm) as [s1 m1]. cbn [fst] in K.
  eapply G_trans; [eapply G_any; exact K | apply IH].
Qed.

Lemma G_unify_mats : forall S n ms st mm, G S st (fst (unify_mats lower st n ms mm)).
Proof.
  intros S n ms. induction ms as [|m r IH]; intros st mm; cbn [unify_mats]; [apply G_refl|].
  pose proof (G_migrate_mat S st m n true mm) as K. destruct (migrate_mat lower st m n true mm) as [[s1 m1] ok]. cbn [fst] in K.
  destruct ok; cbn [fst]; [|exact K]. eapply G_trans; [exact K | apply IH].
Qed.

Definition src_touch (s : src) (j : oid) : Prop := match s with SrcTrees ts => In j ts | SrcList _ => False end.

Lemma G_extend : forall st l s st1, extend lower st l s = Some st1 -> G (src_touch s) st st1.
Proof.
  intros st l s st1 H. destruct s as [l2|ts]; cbn [extend] in H.
  - destruct (Nat.eqb l2 l); [discriminate|]. injection H as <-. apply G_clone_push_all.
  - injection H as <-. apply G_append_all.
Qed.

Lemma G_ds_pick_ns : forall S st d nsarg st1 n, ds_pick_ns st d nsarg = Some (st1, n) -> G S st st1.
Proof.
  intros S st d nsarg st1 n H. unfold ds_pick_ns in H. destruct (d_att (getds st d)) as [a|]; destruct nsarg as [n0|].
  - destruct (Nat.eqb a n0); [|discriminate]. injection H as <- _. apply G_refl.
  - injection H as <- _. apply G_refl.
  - injection H as <- _. apply G_refl.
  - injection H as <- _. apply (G_alloc_ns S st false).
Qed.

Lemma G_ds_read_ns : forall S st d nsarg st1 n, ds_read_ns st d nsarg = Some (st1, n) -> G S st st1.
Proof.
  intros S st d nsarg st1 n H. unfold ds_read_ns in H. destruct (d_att (getds st d)) as [a|]; destruct nsarg as [n0|].
  - destruct (Nat.eqb a n0); [|discriminate]. injection H as <- _. apply G_refl.
  - injection H as <- _. apply G_refl.
  - injection H as <- _. apply G_refl.
  - unfold alloc_ns in H. cbv beta iota zeta in H. injection H as <- _.
    eapply G_trans; [apply (G_alloc_ns S st false) | apply G_same; reflexivity].
Qed.

(* the tree objects an operation may re-write *)
Definition touched (st : state) (o : op) (j : oid) : Prop :=
  match o with
  | Append _ t _ | Insert _ _ t _ | SetItem _ _ t | MigrateTree t _ _ | ReconstructTree t _ | UpdateTree t => j = t
  | Extend _ s | IAdd _ s | AddOp _ s | SetSlice _ _ _ s => src_touch s j
  | MigrateList l _ _ | ReconstructList l _ | UpdateList l | GetSlice l _ _ => In j (l_trees (getlist st l))
  | Unify _ _ _ => True
  | _ => False
  end.

Definition is_purge (o : op) : bool := match o with PurgeList _ | PurgeTree _ | PurgeMat _ => true | _ => false end.

Ltac els := cbn [fst]; apply G_refl.
Ltac samg := apply G_same; reflexivity.

Lemma G_step : forall st o, is_purge o = false -> G (touched st o) st (fst (step lower st o)).
Proof.
  intros st o Np. destruct o; try discriminate Np; cbn [step touched].
  - apply (G_alloc_ns _ st cs).
  - destruct (valid_ns st n); [|els]. pose proof (G_new_taxon S0 st n l) as K. destruct (new_taxon st n l) as [s1 x]. exact K.
  - destruct (valid_ns st n && forallb (valid_taxon st) refs); [|els].
    unfold alloc_tree. cbn [fst]. eapply G_trans; [apply G_add_members | apply (G_alloc_tree _ _ (mkTree n refs))].
  - destruct (valid_ns st n); [|els]. samg.
  - destruct (valid_ns st n); [|els]. samg.
  - samg.
  - destruct (valid_list st l && valid_tree st t); [|els]. pose proof (G_append_tree lower st l t s) as K.
    destruct (append_tree lower st l t s) as [s1 ok]. exact K.
  - destruct (valid_list st l && valid_tree st t); [|els]. pose proof (G_import_tree lower st (l_ns (getlist st l)) t s) as K.
    destruct (import_tree lower st (l_ns (getlist st l)) t s) as [s1 ok]. cbn [fst] in K. destruct ok; cbn [fst]; [|exact K].
    eapply G_trans; [exact K | samg].
  - destruct (valid_list st l && valid_src st s); [|els]. destruct (extend lower st l s) as [s1|] eqn:E; [|els]. cbn [fst].
    eapply G_extend; exact E.
  - destruct (valid_list st l && valid_src st s); [|els]. destruct (extend lower st l s) as [s1|] eqn:E; [|els]. cbn [fst].
    eapply G_extend; exact E.
  - destruct (valid_list st l && valid_src st s); [|els]. unfold alloc_list. cbv beta iota zeta.
    match goal with |- context [extend lower ?s1 ?nl (SrcList l)] => set (st1 := s1) in *; set (nl0 := nl) in * end.
    assert (K1 : G (src_touch s) st st1) by samg.
    destruct (extend lower st1 nl0 (SrcList l)) as [s2|] eqn:E1; [|exact K1].
    pose proof (G_extend _ _ _ _ E1) as K2. cbn [src_touch] in K2.
    assert (K12 : G (src_touch s) st s2).
    { eapply G_trans; [exact K1|]. eapply G_weaken; [|exact K2]. intros j _ []. }
    destruct (extend lower s2 nl0 s) as [s3|] eqn:E2; cbn [fst]; [|exact K12].
    eapply G_trans; [exact K12 | eapply G_extend; exact E2].
  - destruct (valid_list st l && valid_tree st t); [|els]. cbv zeta.
    pose proof (G_import_tree lower st (l_ns (getlist st l)) t (SMigrate true)) as K.
    set (s1 := fst (import_tree lower st (l_ns (getlist st l)) t (SMigrate true))) in *.
    destruct (norm_index (length (l_trees (getlist s1 l))) i); cbn [fst]; [|exact K]. eapply G_trans; [exact K | samg].
  - destruct (valid_list st l && valid_src st s); [|els]. cbv zeta. destruct s as [l2|ts]; cbn [src_touch].
    + pose proof (G_clone_all lower S0 (l_trees (getlist st l2)) st (l_ns (getlist st l)) []) as K.
      destruct (clone_all lower st (l_ns (getlist st l)) (l_trees (getlist st l2)) []) as [s1 v]. cbn [fst] in K.
      destruct (slice_bounds (length (l_trees (getlist s1 l))) a b) as [lo hi]. cbn [fst]. eapply G_trans; [exact K | samg].
    + destruct (slice_bounds (length (l_trees (getlist (import_all lower st (l_ns (getlist st l)) ts) l))) a b) as [lo hi]. cbn [fst].
      eapply G_trans; [apply G_import_all | samg].
  - destruct (valid_list st l); [|els]. cbv zeta. destruct (slice_bounds (length (l_trees (getlist st l))) a b) as [lo hi].
    unfold alloc_list. cbn [fst]. eapply G_trans; [|eapply G_weaken; [|apply G_append_all]]; [samg|].
    intros j Hj I. apply In_slice_get in I. exact I.
  - destruct (valid_list st l && valid_nsopt st nsarg && forallb (valid_taxon st) refs); [|els]. cbv zeta.
    destruct (match nsarg with Some a => Nat.eqb a (l_ns (getlist st l)) | None => true end); [|els].
    unfold alloc_tree. cbn [fst]. eapply G_trans; [apply G_add_members|].
    eapply G_trans; [apply (G_alloc_tree _ _ (mkTree (l_ns (getlist st l)) refs)) | samg].
  - destruct (valid_list st l && valid_nsopt st nsarg); [|els]. cbv zeta.
    destruct (match nsarg with Some a => Nat.eqb a (l_ns (getlist st l)) | None => true end); [|els].
    destruct (Bool.eqb cskw (ns_cs st (l_ns (getlist st l)))); [|els].
    pose proof (G_read_trees lower cskw trees st l) as K. destruct (read_trees lower st l cskw trees) as [s1 ok]. exact K.
  - destruct (valid_list st l); [|els]. cbv zeta. destruct (norm_index (length (l_trees (getlist st l))) i); [|els]. cbn [fst]. samg.
  - destruct (valid_list st l && valid_tree st t); [|els]. cbv zeta.
    destruct (remove_first t (l_trees (getlist st l))); [|els]. cbn [fst]. samg.
  - destruct (valid_list st l && valid_ns st n); [|els]. cbn [fst]. apply G_migrate_list.
  - destruct (valid_list st l); [|els]. cbn [fst]. unfold reconstruct_list. apply G_migrate_trees.
  - destruct (valid_list st l); [|els]. cbn [fst]. apply G_update_trees.
  - destruct (valid_tree st t && valid_ns st n); [|els]. cbn [fst]. apply G_migrate_tree.
  - destruct (valid_tree st t); [|els]. cbn [fst]. apply G_migrate_tree.
  - destruct (valid_tree st t); [|els]. cbn [fst]. apply G_update_tree.
  - destruct (valid_ns st n && valid_tree st t); [|els]. destruct (Nat.eqb (t_ns (gettree st t)) n); [|els].
    destruct (forallb (fun x => memb x (members st n)) (t_refs (gettree st t))); els.
  - destruct (valid_mat st m && valid_taxon st x); [|els]. cbv zeta. destruct (memb x (m_rows (getmat st m))); [els|].
    destruct (negb (memb x (members st (m_ns (getmat st m))))); [els|]. cbn [fst]. samg.
  - destruct (valid_mat st m && match k with KeyTaxon x => valid_taxon st x | _ => true end); [|els]. cbv zeta.
    destruct (row_key lower st (m_ns (getmat st m)) k) as [v| |]; [|els|els].
    destruct (negb (memb v (members st (m_ns (getmat st m))))); [els|]. cbn [fst]. samg.
  - destruct (valid_mat st m && valid_ns st n); [|els]. pose proof (G_migrate_mat S0 st m n unify []) as K.
    destruct (migrate_mat lower st m n unify []) as [[s1 m1] ok]. exact K.
  - destruct (valid_mat st m); [|els]. pose proof (G_migrate_mat S0 st m (m_ns (getmat st m)) unify []) as K.
    destruct (migrate_mat lower st m (m_ns (getmat st m)) unify []) as [[s1 m1] ok]. exact K.
  - destruct (valid_mat st m); [|els]. cbn [fst]. apply G_add_members.
  - destruct (valid_ds st d && valid_ns st n); [|els]. cbn [fst]. samg.
  - destruct (valid_ds st d); [|els]. cbn [fst]. samg.
  - destruct (valid_ds st d); [|els]. destruct o as [n|l|m].
    + destruct (valid_ns st n); [|els]. cbn [fst]. samg.
    + destruct (valid_list st l); [|els]. cbn [fst]. samg.
    + destruct (valid_mat st m); [|els]. cbn [fst]. samg.
  - destruct (valid_ds st d && valid_nsopt st nsarg); [|els]. destruct (ds_pick_ns st d nsarg) as [[s1 n]|] eqn:P; [|els].
    unfold alloc_list. cbn [fst]. eapply G_trans; [eapply G_ds_pick_ns; exact P | samg].
  - destruct (valid_ds st d && valid_nsopt st nsarg); [|els]. destruct (ds_pick_ns st d nsarg) as [[s1 n]|] eqn:P; [|els].
    unfold alloc_mat. cbn [fst]. eapply G_trans; [eapply G_ds_pick_ns; exact P | samg].
  - destruct (valid_ds st d && valid_nsopt st nsarg); [|els]. destruct (ds_read_ns st d nsarg) as [[s1 n]|] eqn:P; [|els].
    pose proof (G_ds_read_ns S0 _ _ _ _ _ P) as K. unfold alloc_list. cbv beta iota zeta.
    match goal with |- context [ds_add_list ?s ?dd ?ll] => set (s3 := ds_add_list s dd ll) in * end.
    assert (K3 : G S0 st s3) by (eapply G_trans; [exact K | samg]).
    destruct sc.
    + destruct (Bool.eqb cskw (ns_cs s3 n)); [|exact K3].
      pose proof (G_read_trees lower cskw trees s3 (length (s_lists s1))) as K4.
      destruct (read_trees lower s3 (length (s_lists s1)) cskw trees) as [s4 ok]. cbn [fst] in *. eapply G_trans; eassumption.
    + destruct (Bool.eqb cskw (ns_cs s1 n)); [|exact K]. destruct trees as [|t0 tr0]; [exact K|].
      pose proof (G_read_trees lower cskw (t0 :: tr0) s3 (length (s_lists s1))) as K4.
      destruct (read_trees lower s3 (length (s_lists s1)) cskw (t0 :: tr0)) as [s4 ok]. cbn [fst] in *. eapply G_trans; eassumption.
  - destruct (valid_ds st d && valid_nsopt st nsarg); [|els]. destruct (ds_read_ns st d nsarg) as [[s1 n]|] eqn:P; [|els].
    pose proof (G_ds_read_ns S0 _ _ _ _ _ P) as K. unfold alloc_mat. cbv beta iota zeta.
    match goal with |- context [ds_add_mat ?s ?dd ?ll] => set (s3 := ds_add_mat s dd ll) in * end.
    assert (K3 : G S0 st s3) by (eapply G_trans; [exact K | samg]).
    pose proof (G_read_rows S0 rows s3 (length (s_mats s1))) as K4.
    destruct (read_rows lower s3 (length (s_mats s1)) rows) as [s4 ok]. cbn [fst] in *. eapply G_trans; eassumption.
  - destruct (valid_ds st d && valid_nsopt st nsarg); [|els]. cbv zeta.
    match goal with |- G _ _ (fst (match ?e with pair _ _ => _ end)) => assert (P : G ST st (fst (fst e))) end.
    { assert (Gen : forall st0 : state, G ST st st0 ->
        G ST st (fst (fst (let '(st1, n) := match nsarg with
                          | Some n => (st0, n)
                          | None => let '(s, n) := alloc_ns st0 false in (ds_add_ns s d n, n)
                          end in
         let '(st2, memo) := unify_lists lower st1 n (d_lists (getds st d)) [] in
         let '(st3, ok) := unify_mats lower st2 n (d_mats (getds st d)) memo in
         (st3, Some n, ok))))).
      { intros st0 K0.
        assert (K1 : G ST st (fst (match nsarg with
                          | Some n => (st0, n)
                          | None => let '(s, n) := alloc_ns st0 false in (ds_add_ns s d n, n)
                          end))).
        { destruct nsarg; [exact K0|]. unfold alloc_ns. cbv beta iota zeta. cbn [fst].
          eapply G_trans; [exact K0|]. eapply G_trans; [apply (G_alloc_ns ST st0 false) | samg]. }
        destruct (match nsarg with
                  | Some n => (st0, n)
                  | None => let '(s, n) := alloc_ns st0 false in (ds_add_ns s d n, n)
                  end) as [s1 n]. cbn [fst] in K1.
        pose proof (G_unify_lists n (d_lists (getds st d)) s1 []) as K2.
        destruct (unify_lists lower s1 n (d_lists (getds st d)) []) as [s2 memo]. cbn [fst] in K2.
        pose proof (G_unify_mats ST n (d_mats (getds st d)) s2 memo) as K3.
        destruct (unify_mats lower s2 n (d_mats (getds st d)) memo) as [s3' ok']. cbn [fst] in *.
        eapply G_trans; [exact K1|]. eapply G_trans; eassumption. }
      destruct (d_nss (getds st d)); destruct (d_lists (getds st d)) eqn:EL; destruct (d_mats (getds st d)) eqn:EM;
        try (cbn [fst]; apply G_refl); rewrite <- ?EL, <- ?EM in *; apply Gen; samg. }
    match goal with |- G _ _ (fst (match ?e with pair _ _ => _ end)) => destruct e as [[s3 target] ok] end. cbn [fst] in P.
    destruct ok; [|exact P]. destruct attach; [|exact P]. destruct target; [|exact P]. cbn [fst]. eapply G_trans; [exact P | samg].
Qed.

End WithLower2.

Definition touched7 (x : xstate) (o : op7) (j : oid) : Prop :=
  match o with
  | Base b => touched (x_st x) b j
  | AppendM _ t _ _ | InsertM _ _ t _ _ | MigrateTreeM t _ _ _ | ReconstructTreeM t _ _ => j = t
  | MigrateListM l _ _ _ | ReconstructListM l _ _ => In j (l_trees (getlist (x_st x) l))
  | _ => False
  end.
Definition is_purge7 (o : op7) : bool := match o with Base b => is_purge b | _ => false end.
Definition touched8 (x : xstate) (o : op8) (j : oid) : Prop := match o with Op7 o | BadKw o => touched7 x o j end.
Definition is_purge8 (o : op8) : bool := match o with Op7 o | BadKw o => is_purge7 o end.

Section Canon.
Variable lower : lbl -> lbl.

Lemma G_step7 : forall x o, is_purge7 o = false -> G (touched7 x o) (x_st x) (x_st (fst (step7 lower x o))).
Proof.
  intros x o Np. destruct o; cbn [step7 touched7].
  - pose proof (G_step lower (x_st x) o Np) as K. destruct (step lower (x_st x) o) as [s1 r]. exact K.
  - pose proof (G_alloc_taxon S0 (x_st x) l) as K. destruct (alloc_taxon (x_st x) l) as [s1 t]. exact K.
  - destruct (valid_pairs (x_st x) es); cbn [fst x_st]; apply G_refl.
  - destruct (valid_mat (x_st x) m); [|apply G_refl]. unfold alloc_mat. cbn [fst x_st with_st]. apply G_same; reflexivity.
  - destruct (valid_list (x_st x) l); [|apply G_refl]. unfold alloc_list. cbn [fst x_st with_st]. apply G_same; reflexivity.
  - destruct (valid_list (x_st x) l && valid_tree (x_st x) t && valid_memo x k); [|apply G_refl].
    pose proof (G_import_tree_m lower (x_st x) (l_ns (getlist (x_st x) l)) t s (getmemo x k)) as K.
    destruct (import_tree_m lower (x_st x) (l_ns (getlist (x_st x) l)) t s (getmemo x k)) as [[s1 ok] mm]. cbn [fst] in K.
    destruct ok; cbn [fst x_st with_memo]; [|exact K]. eapply G_trans; [exact K | apply G_same; reflexivity].
  - destruct (valid_list (x_st x) l && valid_tree (x_st x) t && valid_memo x k); [|apply G_refl].
    pose proof (G_import_tree_m lower (x_st x) (l_ns (getlist (x_st x) l)) t s (getmemo x k)) as K.
    destruct (import_tree_m lower (x_st x) (l_ns (getlist (x_st x) l)) t s (getmemo x k)) as [[s1 ok] mm]. cbn [fst] in K.
    destruct ok; cbn [fst x_st with_memo]; [|exact K]. eapply G_trans; [exact K | apply G_same; reflexivity].
  - destruct (valid_tree (x_st x) t && valid_ns (x_st x) n && valid_memo x k); [|apply G_refl].
    pose proof (G_migrate_tree lower (x_st x) t n u (getmemo x k)) as K.
    destruct (migrate_tree lower (x_st x) t n u (getmemo x k)) as [s1 mm]. exact K.
  - destruct (valid_tree (x_st x) t && valid_memo x k); [|apply G_refl].
    pose proof (G_migrate_tree lower (x_st x) t (t_ns (gettree (x_st x) t)) u (getmemo x k)) as K.
    destruct (migrate_tree lower (x_st x) t (t_ns (gettree (x_st x) t)) u (getmemo x k)) as [s1 mm]. exact K.
  - destruct (valid_list (x_st x) l && valid_ns (x_st x) n && valid_memo x k); [|apply G_refl].
    pose proof (G_migrate_list lower (x_st x) l n u (getmemo x k)) as K.
    destruct (migrate_list lower (x_st x) l n u (getmemo x k)) as [s1 mm]. exact K.
  - destruct (valid_list (x_st x) l && valid_memo x k); [|apply G_refl].
    pose proof (G_migrate_trees lower (l_ns (getlist (x_st x) l)) u (l_trees (getlist (x_st x) l)) (x_st x) (getmemo x k)) as K.
    unfold reconstruct_list.
    destruct (migrate_trees lower (x_st x) (l_ns (getlist (x_st x) l)) u (l_trees (getlist (x_st x) l)) (getmemo x k)) as [s1 mm]. exact K.
  - destruct (valid_mat (x_st x) m && valid_ns (x_st x) n && valid_memo x k); [|apply G_refl].
    pose proof (G_migrate_mat lower S0 (x_st x) m n u (getmemo x k)) as K.
    destruct (migrate_mat lower (x_st x) m n u (getmemo x k)) as [[s1 mm] ok]. exact K.
  - destruct (valid_mat (x_st x) m && valid_memo x k); [|apply G_refl].
    pose proof (G_migrate_mat lower S0 (x_st x) m (m_ns (getmat (x_st x) m)) u (getmemo x k)) as K.
    destruct (migrate_mat lower (x_st x) m (m_ns (getmat (x_st x) m)) u (getmemo x k)) as [[s1 mm] ok]. exact K.
Qed.

Lemma G_step8 : forall x o, is_purge8 o = false -> G (touched8 x o) (x_st x) (x_st (fst (step8 lower x o))).
Proof.
  intros x o Np. destruct o as [o|o]; cbn [touched8 is_purge8] in *.
  - cbn [step8]. apply G_step7, Np.
  - destruct (step8_badkw_cases lower x o) as [E|[E _]]; rewrite E; [apply G_step7, Np | apply G_refl].
Qed.

(* tree object tr is RESOLVED: it exists, refers to an existing namespace, and every node taxon is the first member
   of that namespace matching its own label *)
Definition canon (st : state) (tr : oid) : Prop :=
  tr < length (s_trees st) /\ t_ns (gettree st tr) < s_nns st /\
  forall y, In y (t_refs (gettree st tr)) ->
    first_match lower st (t_ns (gettree st tr)) (ns_cs st (t_ns (gettree st tr))) (label st y) = Some y.

Lemma canon_G : forall (S : oid -> Prop) a b tr,
  G S a b -> mem_wf a -> refs_wf a -> ~ S tr -> canon a tr -> canon b tr /\ gettree b tr = gettree a tr.
Proof.
  intros S a b tr [[L EL] [N [A [B F]]]] Mw Rw Ns [V [Vn C]]. split; [|apply F; assumption]. unfold canon. rewrite (F tr V Ns).
  split; [lia|]. split; [lia|]. intros y Hy. destruct (N _ Vn) as [[M EM] Ecs]. rewrite Ecs.
  assert (X : ext (t_ns (gettree a tr)) a b).
  { split; [exists L; exact EL|]. split; [exists M; exact EM | exact Ecs]. }
  rewrite (label_ext _ a b y X (Rw tr y Hy)). eapply first_match_stable; [exact X | apply Mw | apply C, Hy].
Qed.

Theorem canon_kept_step8_l : forall x o tr,
  taxa_wf x -> is_purge8 o = false -> ~ touched8 x o tr -> canon (x_st x) tr ->
  canon (x_st (fst (step8 lower x o))) tr /\ gettree (x_st (fst (step8 lower x o))) tr = gettree (x_st x) tr.
Proof.
  intros x o tr [Mw [Rw _]] Np Nt C. eapply canon_G; [apply G_step8, Np | exact Mw | exact Rw | exact Nt | exact C].
Qed.

(* over histories *)
Fixpoint quiet_hist (x : xstate) (ops : list op8) (tr : oid) : Prop :=
  match ops with
  | [] => True
  | o :: r => is_purge8 o = false /\ ~ touched8 x o tr /\ quiet_hist (fst (step8 lower x o)) r tr
  end.

Theorem canon_kept_history8_l : forall ops x tr,
  taxa_wf x -> canon (x_st x) tr -> quiet_hist x ops tr ->
  canon (x_st (run_state8 lower x ops)) tr /\ gettree (x_st (run_state8 lower x ops)) tr = gettree (x_st x) tr.
Proof.
  induction ops as [|o r IH]; intros x tr W C Q; [split; [exact C | reflexivity]|]. destruct Q as [Np [Nt Q]].
  destruct (canon_kept_step8_l x o tr W Np Nt C) as [C1 E1].
  unfold run_state8 in *. cbn [fold_left].
  destruct (IH (fst (step8 lower x o)) tr (taxa_wf_step8_l lower x o W) C1 Q) as [C2 E2]. split; [exact C2 | congruence].
Qed.

(* an import by label without caller's memo makes the tree resolved *)
Lemma resolved_canon : forall st st' n s d,
  tree_resolved lower st st' n [] s d -> d < length (s_trees st') -> n < s_nns st' -> canon st' d.
Proof.
  intros st st' n s d [En [Len H]] V Vn. unfold canon. rewrite En. split; [exact V|]. split; [exact Vn|].
  intros y Hy. destruct (In_nth _ _ 0 Hy) as [i [Hi Ey]]. pose proof (Nat.lt_le_trans _ _ _ Hi (Nat.eq_le_incl _ _ Len)) as Hi'.
  specialize (H i Hi' eq_refl).
  assert (H' : first_match lower st' n (ns_cs st' n) (label st (nth i (t_refs (gettree st s)) 0)) = Some y)
    by (rewrite <- Ey; exact H).
  destruct (first_match_some lower _ _ _ _ _ H') as [_ K].
  rewrite <- (first_match_key lower st' n _ _ _ K). exact H'.
Qed.

(* two resolved trees under one namespace: labels equal under the case rule sit on ONE taxon object *)
Lemma canon_equal_labels_l : forall st t1 t2 y1 y2,
  canon st t1 -> canon st t2 -> t_ns (gettree st t1) = t_ns (gettree st t2) ->
  In y1 (t_refs (gettree st t1)) -> In y2 (t_refs (gettree st t2)) ->
  key lower (ns_cs st (t_ns (gettree st t1))) (label st y1) = key lower (ns_cs st (t_ns (gettree st t1))) (label st y2) ->
  y1 = y2.
Proof.
  intros st t1 t2 y1 y2 [_ [_ C1]] [_ [_ C2]] E I1 I2 K. specialize (C1 y1 I1). specialize (C2 y2 I2). rewrite <- E in C2.
  rewrite (first_match_key lower st _ _ _ _ K) in C1. rewrite C1 in C2. injection C2 as C2. exact C2.
Qed.

Theorem canon_after_import8_l : forall x o x' y n trs tr,
  step8 lower x o = (x', y) -> succeeded y = true -> taxa_wf x -> imports8 x o = Some (RMove n [] trs) -> In tr trs ->
  tr < length (s_trees (x_st x')) -> n < s_nns (x_st x') -> canon (x_st x') tr.
Proof.
  intros x o x' y n trs tr H S W R I V Vn.
  pose proof (import_resolves_first_match_step8_l lower x o x' y _ H S W R) as K. cbn [route_ok] in K.
  eapply resolved_canon; [apply K, I | exact V | exact Vn].
Qed.

(* the history corollary: two resolved trees under one namespace (e.g. two trees of one list that arrived by the
   import routes), any later history that does not re-map them and does not purge: labels equal under the case rule
   sit on one taxon object *)
Theorem history_equal_labels_one_taxon8_l : forall ops x t1 t2,
  taxa_wf x -> canon (x_st x) t1 -> canon (x_st x) t2 -> t_ns (gettree (x_st x) t1) = t_ns (gettree (x_st x) t2) ->
  quiet_hist x ops t1 -> quiet_hist x ops t2 ->
  let st' := x_st (run_state8 lower x ops) in
  forall y1 y2, In y1 (t_refs (gettree st' t1)) -> In y2 (t_refs (gettree st' t2)) ->
    key lower (ns_cs st' (t_ns (gettree st' t1))) (label st' y1) = key lower (ns_cs st' (t_ns (gettree st' t1))) (label st' y2) ->
    y1 = y2.
Proof.
  intros ops x t1 t2 W C1 C2 E Q1 Q2. cbv zeta.
  destruct (canon_kept_history8_l ops x t1 W C1 Q1) as [D1 G1]. destruct (canon_kept_history8_l ops x t2 W C2 Q2) as [D2 G2].
  intros y1 y2 I1 I2 K. apply (canon_equal_labels_l _ t1 t2 y1 y2 D1 D2); [|exact I1 | exact I2 | exact K].
  exact (eq_trans (f_equal t_ns G1) (eq_trans E (eq_sym (f_equal t_ns G2)))).
Qed.

End Canon.

(* ---- canon as a boolean, and the example ---- *)
Definition canonb (lower : lbl -> lbl) (st : state) (tr : oid) : bool :=
  Nat.ltb tr (length (s_trees st)) && Nat.ltb (t_ns (gettree st tr)) (s_nns st) &&
  forallb (fun y => match first_match lower st (t_ns (gettree st tr)) (ns_cs st (t_ns (gettree st tr))) (label st y) with
                    | Some z => Nat.eqb z y
                    | None => false
                    end) (t_refs (gettree st tr)).

Lemma canonb_sound : forall lower st tr, canonb lower st tr = true -> canon lower st tr.
Proof.
  intros lower st tr H. unfold canonb in H. apply andb_prop in H. destruct H as [H H3]. apply andb_prop in H. destruct H as [H1 H2].
  split; [apply ltb_lt', H1|]. split; [apply ltb_lt', H2|]. intros y Hy.
  pose proof (forallb_In _ _ _ _ H3 Hy) as K. cbv beta in K.
  destruct (first_match lower st (t_ns (gettree st tr)) (ns_cs st (t_ns (gettree st tr))) (label st y)) as [z|]; [|discriminate].
  apply Nat.eqb_eq in K. subst. reflexivity.
Qed.

(* history 0 from step 26 on (extend, +=, slice assignment, + from list 3, all clone routes): trees 0 (made under
   namespace 0) and 5 (appended by step 25) are resolved and stay so; trees 1 and 2, imported with
   taxon_import_strategy="add", are not resolved (tree 1 carries the second a) *)
Lemma w9_history_example_l :
  taxa_wfb w9_xb = true
  /\ canon w8_lower (x_st w9_xb) 5 /\ canon w8_lower (x_st w9_xb) 0
  /\ t_ns (gettree (x_st w9_xb) 5) = t_ns (gettree (x_st w9_xb) 0)
  /\ skipn 26 w8_history0 = [Op7 (Base (Extend 0 (SrcList 3))); Op7 (Base (IAdd 0 (SrcList 3)));
                             Op7 (Base (SetSlice 0 (Some 1%Z) (Some 2%Z) (SrcList 3))); Op7 (Base (AddOp 0 (SrcList 3)))]
  /\ quiet_hist w8_lower w9_xb (skipn 26 w8_history0) 5 /\ quiet_hist w8_lower w9_xb (skipn 26 w8_history0) 0
  /\ canonb w8_lower (x_st w9_xb) 1 = false /\ canonb w8_lower (x_st w9_xb) 2 = false
  /\ t_refs (gettree (x_st (run_state8 w8_lower w9_xb (skipn 26 w8_history0))) 5) = [3; 0]
  /\ t_refs (gettree (x_st (run_state8 w8_lower w9_xb (skipn 26 w8_history0))) 0) = [0; 1].
Proof.
  split; [vm_compute; reflexivity|]. split; [apply canonb_sound; vm_compute; reflexivity|].
  split; [apply canonb_sound; vm_compute; reflexivity|]. split; [vm_compute; reflexivity|]. split; [vm_compute; reflexivity|].
  split; [cbn; repeat split; auto|]. split; [cbn; repeat split; auto|]. vm_compute. repeat split.
Qed.
