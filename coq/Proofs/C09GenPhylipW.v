(* C09: the PHYLIP writer generated from the source (Gen/CharIO.v) equals the hand model *)
From Coq Require Import ZArith List Bool Lia.
From DV Require Import Model.PyPrims Model.C09AlphaTypes Model.C09Model Model.C09Prims Gen.CharIO
  Proofs.C09Text Proofs.C09GenFasta.
Import ListNotations.
Open Scope Z_scope.

(* ---- dictionaries keyed 0..n-1 ---- *)

Definition keys_lt (d : wdict) (k : nat) : Prop := forall j v, In (j, v) d -> (j < k)%nat.

Lemma wdict_set_new : forall (d : wdict) k v, keys_lt d k -> wdict_set d k v = d ++ [(k, v)].
Proof.
  induction d as [|[j w] d IH]; intros k v H; simpl; [reflexivity|].
  assert (j < k)%nat by (apply (H j w); left; reflexivity).
  destruct (Nat.eqb_spec k j); [lia|]. rewrite IH; [reflexivity|].
  intros j' v' Hin. apply (H j' v'). right. exact Hin.
Qed.

Lemma keys_lt_snoc : forall d k v, keys_lt d k -> keys_lt (d ++ [(k, v)]) (S k).
Proof.
  intros d k v H j w Hin. apply in_app_or in Hin. destruct Hin as [Hin|[Hin|[]]].
  - apply H in Hin. lia.
  - inversion Hin; subst. lia.
Qed.

(* building the dictionary: one entry per taxon, in order *)
Lemma dict_build : forall (f : text * list Z -> text) (body : wtaxon -> wdict -> res wdict) (m : matrix) k d,
  (forall t d', body t d' = Ok (wdict_set d' (wt_key t) (f (snd t)))) ->
  keys_lt d k ->
  for_each_res (combine (seq k (length m)) m) body d = Ok (d ++ combine (seq k (length m)) (map f m)).
Proof.
  intros f body m. induction m as [|r m IH]; intros k d Hb Hk.
  - simpl. rewrite List.app_nil_r. reflexivity.
  - cbn [length seq combine for_each_res map]. rewrite Hb. cbn [bind wt_key fst snd].
    rewrite (wdict_set_new d k (f r) Hk). rewrite (IH (S k) _ Hb (keys_lt_snoc d k (f r) Hk)).
    rewrite <- app_assoc. reflexivity.
Qed.

Lemma wdict_get_numbered : forall (labs : list text) k i, (i < length labs)%nat ->
  wdict_get (combine (seq k (length labs)) labs) (k + i) = Ok (nth i labs []).
Proof.
  induction labs as [|l labs IH]; intros k i H; simpl in H; [lia|].
  destruct i as [|i].
  - rewrite Nat.add_0_r. simpl. rewrite Nat.eqb_refl. reflexivity.
  - cbn [length seq combine wdict_get nth]. destruct (Nat.eqb_spec (k + S i) k); [lia|].
    replace (k + S i)%nat with (S k + i)%nat by lia. apply IH. lia.
Qed.

Lemma wdict_set_numbered : forall (labs : list text) k i v, (i < length labs)%nat ->
  wdict_set (combine (seq k (length labs)) labs) (k + i) v
  = combine (seq k (length labs)) (firstn i labs ++ v :: skipn (S i) labs).
Proof.
  induction labs as [|l labs IH]; intros k i v H; simpl in H; [lia|].
  destruct i as [|i].
  - rewrite Nat.add_0_r. simpl. rewrite Nat.eqb_refl. reflexivity.
  - cbn [length seq combine wdict_set firstn skipn app]. destruct (Nat.eqb_spec (k + S i) k); [lia|].
    replace (k + S i)%nat with (S k + i)%nat by lia. rewrite IH by lia. reflexivity.
Qed.

Lemma uniq_labels_length : forall max todo labels u, uniq_labels max todo labels = Ok u ->
  length u = (length labels + length todo)%nat.
Proof.
  induction todo as [|l todo IH]; intros labels u H; cbn [uniq_labels] in H.
  - inversion H. simpl. lia.
  - destruct (if text_mem l labels then uniq_loop (S (S (length labels))) max l labels 1 else Ok l) as [l'| |]; try discriminate.
    cbn [bind] in H. apply IH in H. rewrite app_length in H. simpl in *. lia.
Qed.

(* the padding loop of get_taxon_label_map over the keys of the dictionary *)
Lemma pad_loop : forall (g : text -> text) (body : nat -> wdict -> res wdict) (todo done : list text),
  (forall t d item, wdict_get d t = Ok item -> body t d = Ok (if len item <? 10 then wdict_set d t (g item) else d)) ->
  for_each_res (seq (length done) (length todo)) body
     (combine (seq 0 (length (done ++ todo))) (done ++ todo))
  = Ok (combine (seq 0 (length (done ++ todo))) (done ++ map (fun l => if len l <? 10 then g l else l) todo)).
Proof.
  intros g body todo. induction todo as [|l todo IH]; intros done Hb.
  - simpl. reflexivity.
  - cbn [length seq for_each_res].
    assert (Li : (length done < length (done ++ l :: todo))%nat) by (rewrite app_length; simpl; lia).
    pose proof (wdict_get_numbered (done ++ l :: todo) 0 (length done) Li) as G. rewrite Nat.add_0_l in G.
    rewrite app_nth2 in G by lia. rewrite Nat.sub_diag in G. cbn [nth] in G.
    rewrite (Hb _ _ _ G). cbn [bind map].
    assert (Next : (if len l <? 10 then wdict_set (combine (seq 0 (length (done ++ l :: todo))) (done ++ l :: todo)) (length done) (g l)
                    else combine (seq 0 (length (done ++ l :: todo))) (done ++ l :: todo))
                   = combine (seq 0 (length ((done ++ [if len l <? 10 then g l else l]) ++ todo)))
                             ((done ++ [if len l <? 10 then g l else l]) ++ todo)).
    { assert (Len : length ((done ++ [if len l <? 10 then g l else l]) ++ todo) = length (done ++ l :: todo))
        by (rewrite !app_length; simpl; lia).
      rewrite Len. destruct (len l <? 10).
      - pose proof (wdict_set_numbered (done ++ l :: todo) 0 (length done) (g l) Li) as SN. rewrite Nat.add_0_l in SN.
        rewrite SN. f_equal. rewrite firstn_app, Nat.sub_diag, firstn_all. cbn [firstn]. rewrite List.app_nil_r.
        rewrite <- app_assoc. cbn [app]. f_equal. f_equal.
        replace (S (length done)) with (length (done ++ [l])) by (rewrite app_length; simpl; lia).
        replace (done ++ l :: todo) with ((done ++ [l]) ++ todo) by (rewrite <- app_assoc; reflexivity).
        rewrite skipn_app, skipn_all, Nat.sub_diag. reflexivity.
      - rewrite <- app_assoc. reflexivity. }
    rewrite Next. specialize (IH (done ++ [if len l <? 10 then g l else l]) Hb).
    rewrite app_length in IH. cbn [length] in IH. rewrite Nat.add_1_r in IH. rewrite IH.
    rewrite <- !app_assoc. cbn [app]. f_equal. f_equal. f_equal. rewrite !app_length. reflexivity.
Qed.

Lemma map_snd_combine_seq : forall (A : Type) (l : list A) k, map snd (combine (seq k (length l)) l) = l.
Proof. induction l as [|x l IH]; intro k; simpl; [reflexivity | rewrite IH; reflexivity]. Qed.

Lemma map_fst_combine_seq : forall (A : Type) (l : list A) k, map fst (combine (seq k (length l)) l) = seq k (length l).
Proof. induction l as [|x l IH]; intro k; simpl; [reflexivity | rewrite IH; reflexivity]. Qed.

Lemma map_snd_combine_seq_n : forall (A : Type) (l : list A) k n, length l = n -> map snd (combine (seq k n) l) = l.
Proof. intros A l k n H. subst n. apply map_snd_combine_seq. Qed.

Lemma map_fst_combine_seq_n : forall (A : Type) (l : list A) k n, length l = n -> map fst (combine (seq k n) l) = seq k n.
Proof. intros A l k n H. subst n. apply map_fst_combine_seq. Qed.

Lemma keys_lt_nil : forall k, keys_lt [] k.
Proof. intros k j v []. Qed.

Arguments uniq_labels : simpl never.

(* get_taxon_label_map, strict mode *)
Lemma gen_label_map_strict : forall (s2u : bool) (m : matrix),
  PhylipWriter_get_taxon_label_map true s2u (wm_of m)
  = do u <- uniq_labels 10 (map (fun l => firstn 10 (conv_label (mkPW true s2u) l)) (map fst m)) [] ;;
    Ok (combine (seq 0 (length m)) (map (fun l => if len l <? 10 then ljust 10 l else l) u)).
Proof.
  intros s2u m. unfold PhylipWriter_get_taxon_label_map. cbn [bind].
  match goal with |- context [for_each_res (wm_of m) ?B _] => set (body1 := B) end.
  pose proof (dict_build (fun r => firstn 10 (conv_label (mkPW true s2u) (fst r))) body1 m 0 []) as DB.
  match goal with |- context [for_each_res ?xs body1 ?d0] =>
    assert (E1 : for_each_res xs body1 d0 = Ok ([] ++ combine (seq 0 (length m)) (map (fun r => firstn 10 (conv_label (mkPW true s2u) (fst r))) m)))
      by (apply DB; [intros t d'; unfold body1, wt_label, wt_key, conv_label; cbn [w_s2u]; destruct s2u; reflexivity | apply keys_lt_nil]);
    rewrite E1; clear E1 end.
  clear DB. cbn [bind app]. unfold py_unique_taxon_label_map.
  rewrite (map_snd_combine_seq_n _ _ 0 (length m) (map_length _ m)).
  rewrite (map_fst_combine_seq_n _ _ 0 (length m) (map_length _ m)). rewrite map_map.
  match goal with |- context [uniq_labels 10 ?L ?E] => destruct (uniq_labels 10 L E) as [u| |] eqn:Eu end;
    match goal with |- _ = bind ?X _ => match type of Eu with _ = ?rhs => assert (EX : X = rhs) by exact Eu; rewrite EX; clear EX end end;
    cbn [bind]; [|reflexivity|reflexivity].
  assert (Lu : length u = length m) by (apply uniq_labels_length in Eu; rewrite map_length in Eu; simpl in Eu; exact Eu).
  unfold wdict_keys. rewrite (map_fst_combine_seq_n _ u 0 (length m) Lu). rewrite <- Lu.
  match goal with |- context [for_each_res _ ?B _] => set (body2 := B) end.
  pose proof (pad_loop (ljust 10) body2 u []) as PL. cbn [app length] in PL.
  match goal with |- context [bind ?X _] => assert (EX : X = Ok (combine (seq 0 (length u)) (map (fun l => if len l <? 10 then ljust 10 l else l) u))) end.
  { rewrite PL; [reflexivity|]. intros t d item G. unfold body2. rewrite G. cbn [bind]. unfold py_len_str, py_ljust. destruct (len item <? 10); reflexivity. }
  rewrite EX. reflexivity.
Qed.

(* the loop that writes the rows, given the dictionary of labels *)
Lemma rows_loop : forall a (spacer : text) maxlen (D : wdict) (body : wtaxon -> text -> res text) (m : matrix) labs k stream,
  length labs = length m ->
  (forall i, (i < length m)%nat -> wdict_get D (k + i) = Ok (nth i labs [])) ->
  (forall t s item, wdict_get D (wt_key t) = Ok item ->
     body t s = Ok (s ++ (ljust maxlen item ++ spacer ++ symbols_as_string a (snd (snd t)) ++ [10]))) ->
  for_each_res (combine (seq k (length m)) m) body stream
  = Ok (stream ++ concat (map (fun lr => ljust maxlen (fst lr) ++ spacer ++ symbols_as_string a (snd (snd lr)) ++ [10]) (combine labs m))).
Proof.
  intros a spacer maxlen D body m. induction m as [|r m IH]; intros labs k stream Hl Hg Hb.
  - destruct labs; simpl; rewrite List.app_nil_r; reflexivity.
  - destruct labs as [|lab labs]; [discriminate|].
    cbn [length seq combine for_each_res map concat].
    pose proof (Hg 0%nat ltac:(simpl; lia)) as G0. rewrite Nat.add_0_r in G0. cbn [nth] in G0.
    rewrite (Hb (k, r) stream lab G0). cbn [bind snd fst].
    rewrite (IH labs (S k)).
    + rewrite <- !app_assoc. reflexivity.
    + simpl in Hl. lia.
    + intros i Hi. specialize (Hg (S i) ltac:(simpl; lia)). replace (S k + i)%nat with (k + S i)%nat by lia. exact Hg.
    + exact Hb.
Qed.

Theorem gen_phylip_writer_eq : forall a (strict s2u : bool) (stream : text) (m : matrix),
  PhylipWriter_write_char_matrix a strict false s2u false stream (wm_of m)
  = do t <- write_phylip (symbols_as_string a) (mkPW strict s2u) m ;; Ok (stream ++ t).
Proof.
  intros a strict s2u stream m. unfold PhylipWriter_write_char_matrix, write_phylip, phylip_label_map. cbn [w_strict].
  rewrite orb_false_r.
  (* the dictionary and the spacer *)
  assert (Hd : exists r : res (list text),
     (if strict
      then do u <- uniq_labels 10 (map (fun l => firstn 10 (conv_label (mkPW strict s2u) l)) (map fst m)) [] ;;
           Ok (map (fun l => if len l <? 10 then ljust 10 l else l) u)
      else Ok (map (conv_label (mkPW strict s2u)) (map fst m))) = r) by (eexists; reflexivity).
  destruct Hd as [r Er]. rewrite Er.
  match goal with |- bind ?X _ = _ =>
    assert (EX : X = match r with
                     | Ok labs => Ok (combine (seq 0 (length m)) labs, if strict then [] else [32; 32])
                     | Err e => Err e | OutOfFuel => OutOfFuel end
                 /\ match r with Ok labs => length labs = length m | _ => True end) end.
  { destruct strict.
    - rewrite gen_label_map_strict. rewrite <- Er.
      destruct (uniq_labels 10 (map (fun l => firstn 10 (conv_label (mkPW true s2u) l)) (map fst m)) []) as [u| |] eqn:Eu;
        cbn [bind negb]; split; try reflexivity; try exact I.
      rewrite map_length. apply uniq_labels_length in Eu. rewrite !map_length in Eu. simpl in Eu. exact Eu.
    - cbn [bind]. match goal with |- context [for_each_res (wm_of m) ?B _] => set (body1 := B) end.
      pose proof (dict_build (fun r0 => conv_label (mkPW false s2u) (fst r0)) body1 m 0 []) as DB.
      match goal with |- context [for_each_res ?xs body1 ?d0] =>
        assert (E1 : for_each_res xs body1 d0 = Ok ([] ++ combine (seq 0 (length m)) (map (fun r0 => conv_label (mkPW false s2u) (fst r0)) m)))
          by (apply DB; [intros t d'; unfold body1, wt_label, wt_key, conv_label; cbn [w_s2u]; destruct s2u; reflexivity | apply keys_lt_nil]);
        rewrite E1; clear E1 end.
      cbn [bind app]. rewrite <- Er. rewrite map_map. split; [reflexivity | rewrite map_length; reflexivity]. }
  destruct EX as [EX Hlen]. rewrite EX. clear EX.
  destruct r as [labs| |]; cbn [bind]; [|reflexivity|reflexivity].
  (* the header *)
  unfold wdict_values. rewrite (map_snd_combine_seq_n _ labs 0 (length m) Hlen).
  unfold py_max. replace (map (fun label : text => py_len_str label) labs) with (map len labs) by reflexivity.
  destruct (zmax_list (map len labs)) as [maxlen|]; cbn [bind]; [|reflexivity].
  assert (En : wm_len (wm_of m) = len m).
  { unfold wm_len, wm_of, wtaxon. unfold len. f_equal. rewrite combine_length, seq_length. apply Nat.min_id. }
  assert (Es : wm_max_sequence_size (wm_of m)
               = match zmax_list (map (fun r : text * list Z => len (snd r)) m) with Some n => n | None => 0 end).
  { unfold wm_max_sequence_size, wm_of, wtaxon. f_equal. f_equal.
    rewrite <- (map_map snd (fun r : text * list Z => len (snd r))). rewrite map_snd_combine_seq. reflexivity. }
  rewrite En, Es.
  match goal with |- context [for_each_res (wm_of m) ?B ?S0] => set (body := B); set (s0 := S0) end.
  pose proof (rows_loop a (if strict then [] else [32; 32]) maxlen (combine (seq 0 (length m)) labs) body m labs 0 s0 Hlen) as RL.
  assert (P1 : forall i, (i < length m)%nat -> wdict_get (combine (seq 0 (length m)) labs) (0 + i) = Ok (nth i labs [])).
  { intros i Hi. rewrite <- Hlen. apply wdict_get_numbered. lia. }
  assert (P2 : forall (t : wtaxon) (s : text) (item : text), wdict_get (combine (seq 0 (length m)) labs) (wt_key t) = Ok item ->
            body t s = Ok (s ++ (ljust maxlen item ++ (if strict then [] else [32; 32]) ++ symbols_as_string a (snd (snd t)) ++ [10]))).
  { intros t s item G. unfold body. rewrite G. cbn [bind]. unfold wm_contains, py_symbols_as_string, wm_getitem, py_ljust.
    cbn [bind negb]. rewrite orb_true_r. cbn [bind]. destruct strict; reflexivity. }
  specialize (RL P1 P2).
  match goal with |- bind ?X _ = _ => match type of RL with _ = ?rhs => assert (EX : X = rhs) by exact RL; rewrite EX; clear EX end end.
  cbn [bind]. unfold s0, py_int_str. f_equal. repeat (rewrite <- app_assoc; cbn [app]). reflexivity.
Qed.
