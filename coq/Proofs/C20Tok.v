(* C20: progress and totality of the character-level tokenizer model (C02's Model/Tokenizer.v).
   The lemmas of the first section are those of Proofs/C02Tok.v (C02's file), restated here so that
   the C20 cone does not depend on another property's proof files; the error-class and token-count
   lemmas after them are C20's own. *)
From Coq Require Import ZArith List Bool Lia.
From DV Require Import Model.PyPrims Gen.CharClasses Model.Tokenizer.
Import ListNotations.
Open Scope Z_scope.

Section Generic.
Variable cfg : tok_cfg.

Lemma skip_ws_len s : (length (skip_ws cfg s) <= length s)%nat.
Proof. induction s as [|c r IH]; simpl; [lia|]. destruct (zmem c (tc_uncaptured cfg)); simpl; lia. Qed.

Lemma skip_ws_head s c r : skip_ws cfg s = c :: r -> zmem c (tc_uncaptured cfg) = false.
Proof.
  induction s as [|x s IH]; simpl; [discriminate|].
  destruct (zmem x (tc_uncaptured cfg)) eqn:E; [exact IH|]. intro H. inversion H; subst. exact E.
Qed.

Lemma handle_comment_len s n : (length (snd (handle_comment cfg s n)) <= length s)%nat.
Proof.
  revert n. induction s as [|c r IH]; intro n; simpl; [lia|].
  destruct (zmem c (tc_cend cfg)).
  - destruct (n - 1 <=? 0); simpl; [lia|]. specialize (IH (n - 1)). lia.
  - destruct (zmem c (tc_cbegin cfg)).
    + specialize (IH (n + 1)). lia.
    + specialize (IH n). destruct (handle_comment cfg r n) as [t r']. simpl in *. lia.
Qed.

Lemma handle_comment_progress c r n :
  (length (snd (handle_comment cfg (c :: r) n)) < length (c :: r))%nat.
Proof.
  simpl. destruct (zmem c (tc_cend cfg)).
  - destruct (n - 1 <=? 0); simpl; [lia|]. pose proof (handle_comment_len r (n - 1)). lia.
  - destruct (zmem c (tc_cbegin cfg)).
    + pose proof (handle_comment_len r (n + 1)). lia.
    + pose proof (handle_comment_len r n). destruct (handle_comment cfg r n) as [t r']. simpl in *. lia.
Qed.

Lemma quoted_loop_len q : forall n s d rest, (length s <= n)%nat ->
  quoted_loop cfg q s = Some (d, rest) -> (length rest <= length s)%nat.
Proof.
  induction n as [|n IH]; intros s d rest Hn H.
  - destruct s; [discriminate | simpl in Hn; lia].
  - destruct s as [|c r]; [discriminate|]. simpl in H, Hn.
    destruct (c =? q).
    + destruct (tc_double cfg).
      * destruct r as [|c2 r2]; [inversion H; subst; simpl; lia|].
        destruct (c2 =? q).
        -- destruct (quoted_loop cfg q r2) as [[d' rest']|] eqn:E; [|discriminate].
           inversion H; subst. apply IH in E; simpl in *; lia.
        -- inversion H; subst. simpl. lia.
      * inversion H; subst. destruct r; simpl; lia.
    + destruct (quoted_loop cfg q r) as [[d' rest']|] eqn:E; [|discriminate].
      inversion H; subst. apply IH in E; simpl in *; lia.
Qed.

(* the unquoted loop: enough fuel, result independent of the fuel, progress *)
Lemma unquoted_loop_some : forall f s, (length s < f)%nat -> unquoted_loop cfg f s <> None.
Proof.
  induction f as [|f IH]; intros s Hf; [lia|].
  destruct s as [|c r]; cbn [unquoted_loop]; [discriminate|].
  destruct (zmem c (tc_uncaptured cfg)); [discriminate|].
  destruct (zmem c (tc_captured cfg)); [discriminate|].
  destruct (zmem c (tc_cbegin cfg)).
  - pose proof (handle_comment_progress c r 0) as P.
    destruct (handle_comment cfg (c :: r) 0) as [txt r'] eqn:E. simpl in P.
    specialize (IH r'). destruct (unquoted_loop cfg f r') as [[[d cs] rest]|]; [discriminate|].
    exfalso. apply IH; [simpl in Hf; lia | reflexivity].
  - specialize (IH r). destruct (unquoted_loop cfg f r) as [[[d cs] rest]|]; [discriminate|].
    exfalso. apply IH; [simpl in Hf; lia | reflexivity].
Qed.

Lemma unquoted_loop_mono : forall f s x, unquoted_loop cfg f s = Some x ->
  forall g, (f <= g)%nat -> unquoted_loop cfg g s = Some x.
Proof.
  induction f as [|f IH]; intros s x H g Hg; [discriminate|].
  destruct g as [|g]; [lia|].
  destruct s as [|c r]; cbn [unquoted_loop] in *; [exact H|].
  destruct (zmem c (tc_uncaptured cfg)); [exact H|].
  destruct (zmem c (tc_captured cfg)); [exact H|].
  destruct (zmem c (tc_cbegin cfg)).
  - destruct (handle_comment cfg (c :: r) 0) as [txt r'].
    destruct (unquoted_loop cfg f r') as [y|] eqn:E; [|discriminate].
    rewrite (IH _ _ E g ltac:(lia)). exact H.
  - destruct (unquoted_loop cfg f r) as [y|] eqn:E; [|discriminate].
    rewrite (IH _ _ E g ltac:(lia)). exact H.
Qed.

Lemma unquoted_loop_irrel f g s : (length s < f)%nat -> (length s < g)%nat ->
  unquoted_loop cfg f s = unquoted_loop cfg g s.
Proof.
  intros Hf Hg.
  destruct (unquoted_loop cfg f s) as [x|] eqn:E; [|exfalso; exact (unquoted_loop_some f s Hf E)].
  destruct (unquoted_loop cfg g s) as [y|] eqn:E2; [|exfalso; exact (unquoted_loop_some g s Hg E2)].
  destruct (Nat.le_ge_cases f g) as [L|L].
  - rewrite (unquoted_loop_mono _ _ _ E g L) in E2. exact E2.
  - rewrite (unquoted_loop_mono _ _ _ E2 f L) in E. symmetry. exact E.
Qed.

Lemma unquoted_loop_len : forall f s d cs rest, unquoted_loop cfg f s = Some (d, cs, rest) ->
  (length d + length rest <= length s)%nat.
Proof.
  induction f as [|f IH]; intros s d cs rest H; [discriminate|].
  destruct s as [|c r]; cbn [unquoted_loop] in H.
  - inversion H; subst. simpl. lia.
  - destruct (zmem c (tc_uncaptured cfg)); [inversion H; subst; simpl; lia|].
    destruct (zmem c (tc_captured cfg)); [inversion H; subst; simpl; lia|].
    destruct (zmem c (tc_cbegin cfg)).
    + pose proof (handle_comment_progress c r 0) as P.
      destruct (handle_comment cfg (c :: r) 0) as [txt r']. simpl in P.
      destruct (unquoted_loop cfg f r') as [[[d' cs'] rest']|] eqn:E; [|discriminate].
      inversion H; subst. apply IH in E. simpl. lia.
    + destruct (unquoted_loop cfg f r) as [[[d' cs'] rest']|] eqn:E; [|discriminate].
      inversion H; subst. apply IH in E. simpl. lia.
Qed.

(* an empty token from a significant non-delimiter start has consumed a comment *)
Lemma unquoted_loop_empty_progress f c r cs rest :
  zmem c (tc_uncaptured cfg) = false -> zmem c (tc_captured cfg) = false ->
  unquoted_loop cfg f (c :: r) = Some ([], cs, rest) -> (length rest < length (c :: r))%nat.
Proof.
  intros Hu Hc H. destruct f as [|f]; [discriminate|]. cbn [unquoted_loop] in H. rewrite Hu, Hc in H.
  destruct (zmem c (tc_cbegin cfg)).
  - pose proof (handle_comment_progress c r 0) as P.
    destruct (handle_comment cfg (c :: r) 0) as [txt r']. simpl in P.
    destruct (unquoted_loop cfg f r') as [[[d' cs'] rest']|] eqn:E; [|discriminate].
    inversion H; subst. apply unquoted_loop_len in E. simpl in *. lia.
  - destruct (unquoted_loop cfg f r) as [[[d' cs'] rest']|]; discriminate.
Qed.

(* __next__ : fuel irrelevance, no TFuel, progress *)
Lemma next_tok_irrel : forall n m s, (length s < n)%nat -> (length s < m)%nat ->
  next_tok cfg n s = next_tok cfg m s.
Proof.
  induction n as [|n IH]; intros m s Hn Hm; [lia|]. destruct m as [|m]; [lia|].
  cbn [next_tok]. pose proof (skip_ws_len s) as Hs.
  destruct (skip_ws cfg s) as [|c r] eqn:Es; [reflexivity|].
  pose proof (skip_ws_head _ _ _ Es) as Hu.
  destruct (zmem c (tc_captured cfg)) eqn:Hc; [reflexivity|].
  destruct (zmem c (tc_quotes cfg)); [reflexivity|].
  destruct (unquoted_loop cfg (S (length (c :: r))) (c :: r)) as [[[d cs] rest]|] eqn:E; [|reflexivity].
  destruct d; [|reflexivity]. destruct rest as [|x rest]; [reflexivity|].
  pose proof (unquoted_loop_empty_progress _ _ _ _ _ Hu Hc E) as P.
  rewrite (IH m (x :: rest)); [reflexivity | simpl in *; lia | simpl in *; lia].
Qed.

Lemma next_tok_no_fuel : forall n s, (length s < n)%nat -> next_tok cfg n s <> TFuel.
Proof.
  induction n as [|n IH]; intros s Hn; [lia|]. cbn [next_tok].
  pose proof (skip_ws_len s) as Hs.
  destruct (skip_ws cfg s) as [|c r] eqn:Es; [discriminate|].
  pose proof (skip_ws_head _ _ _ Es) as Hu.
  destruct (zmem c (tc_captured cfg)) eqn:Hc; [discriminate|].
  destruct (zmem c (tc_quotes cfg)).
  { destruct (quoted_loop cfg c r) as [[d rest]|]; discriminate. }
  destruct (unquoted_loop cfg (S (length (c :: r))) (c :: r)) as [[[d cs] rest]|] eqn:E.
  2:{ exfalso. eapply unquoted_loop_some; [|exact E]. lia. }
  destruct d; [|discriminate]. destruct rest as [|x rest]; [discriminate|].
  pose proof (unquoted_loop_empty_progress _ _ _ _ _ Hu Hc E) as P.
  specialize (IH (x :: rest)).
  destruct (next_tok cfg n (x :: rest)); try discriminate.
  exfalso. apply IH; [simpl in *; lia | reflexivity].
Qed.

Lemma next_tok_progress : forall n s t q cs rest, next_tok cfg n s = TTok t q cs rest ->
  (length rest < length s)%nat.
Proof.
  induction n as [|n IH]; intros s t q cs rest H; [discriminate|]. cbn [next_tok] in H.
  pose proof (skip_ws_len s) as Hs.
  destruct (skip_ws cfg s) as [|c r] eqn:Es; [discriminate|].
  pose proof (skip_ws_head _ _ _ Es) as Hu.
  destruct (zmem c (tc_captured cfg)) eqn:Hc.
  { inversion H; subst. simpl in *. lia. }
  destruct (zmem c (tc_quotes cfg)).
  { destruct (quoted_loop cfg c r) as [[d rest']|] eqn:Eq; [|discriminate].
    inversion H; subst. apply (quoted_loop_len c (length r)) in Eq; [simpl in *; lia | lia]. }
  destruct (unquoted_loop cfg (S (length (c :: r))) (c :: r)) as [[[d cs'] rest']|] eqn:E; [|discriminate].
  destruct d as [|d0 d].
  - destruct rest' as [|x rest']; [discriminate|].
    pose proof (unquoted_loop_empty_progress _ _ _ _ _ Hu Hc E) as P.
    destruct (next_tok cfg n (x :: rest')) eqn:En; try discriminate.
    inversion H; subst. apply IH in En. simpl in *. lia.
  - inversion H; subst. apply unquoted_loop_len in E. simpl in *. lia.
Qed.

Lemma next_token_no_fuel s : next_token cfg s <> TFuel.
Proof. apply next_tok_no_fuel. lia. Qed.

Lemma next_token_progress s t q cs rest : next_token cfg s = TTok t q cs rest ->
  (length rest < length s)%nat.
Proof. apply next_tok_progress. Qed.

(* tokenize *)
Lemma tokenize_fuel_irrel : forall n m s, (length s < n)%nat -> (length s < m)%nat ->
  tokenize_fuel cfg n s = tokenize_fuel cfg m s.
Proof.
  induction n as [|n IH]; intros m s Hn Hm; [lia|]. destruct m as [|m]; [lia|].
  simpl. destruct (next_token cfg s) as [cs|e| |t q cs rest] eqn:E; try reflexivity.
  apply next_token_progress in E. rewrite (IH m rest); [reflexivity | lia | lia].
Qed.

Lemma tokenize_unfold s :
  tokenize cfg s =
  match next_token cfg s with
  | TEof cs => ([], EndEof cs)
  | TErr e => ([], EndErr e)
  | TFuel => ([], EndFuel)
  | TTok t q cs rest => let '(l, e) := tokenize cfg rest in (mkTok t q cs (is_nil rest) :: l, e)
  end.
Proof.
  unfold tokenize at 1. simpl.
  destruct (next_token cfg s) as [cs|e| |t q cs rest] eqn:E; try reflexivity.
  apply next_token_progress in E. unfold tokenize.
  rewrite (tokenize_fuel_irrel (length s) (S (length rest)) rest); [reflexivity | lia | lia].
Qed.

Lemma tokenize_fuel_no_fuel : forall n s, (length s < n)%nat -> snd (tokenize_fuel cfg n s) <> EndFuel.
Proof.
  induction n as [|n IH]; intros s Hn; [lia|]. simpl.
  destruct (next_token cfg s) as [cs|e| |t q cs rest] eqn:E; simpl; try discriminate.
  - exfalso. eapply next_token_no_fuel; eauto.
  - apply next_token_progress in E. specialize (IH rest ltac:(lia)).
    destruct (tokenize_fuel cfg n rest). exact IH.
Qed.

(* totality of the tokenizer model: the fuel artefact is never returned *)
Lemma tokenize_total s : snd (tokenize cfg s) <> EndFuel.
Proof. apply tokenize_fuel_no_fuel. lia. Qed.


(* the only error the tokenizer raises is UnterminatedQuoteError, a DataParseError *)
Lemma next_tok_err : forall n s e, next_tok cfg n s = TErr e -> e = ParseErr.
Proof.
  induction n as [|n IH]; intros s e H; [discriminate|]. cbn [next_tok] in H.
  destruct (skip_ws cfg s) as [|c r]; [discriminate|].
  destruct (zmem c (tc_captured cfg)); [discriminate|].
  destruct (zmem c (tc_quotes cfg)).
  { destruct (quoted_loop cfg c r) as [[d rest]|]; [discriminate|]. inversion H. reflexivity. }
  destruct (unquoted_loop cfg (S (length (c :: r))) (c :: r)) as [[[d cs] rest]|]; [|discriminate].
  destruct d; [|discriminate]. destruct rest as [|x rest]; [discriminate|].
  destruct (next_tok cfg n (x :: rest)) eqn:E; try discriminate.
  inversion H; subst. eapply IH; eauto.
Qed.

Lemma tokenize_fuel_err : forall n s e, snd (tokenize_fuel cfg n s) = EndErr e -> e = ParseErr.
Proof.
  induction n as [|n IH]; intros s e H; [discriminate|]. simpl in H.
  destruct (next_token cfg s) as [cs|e'| |t q cs rest] eqn:E; simpl in H; try discriminate.
  - inversion H; subst. eapply next_tok_err; eauto.
  - specialize (IH rest e). destruct (tokenize_fuel cfg n rest). simpl in *. auto.
Qed.

Lemma tokenize_err s e : snd (tokenize cfg s) = EndErr e -> e = ParseErr.
Proof. apply tokenize_fuel_err. Qed.

End Generic.

(* each `__next__` strictly shortens the input, or reports end of stream, or raises
   UnterminatedQuoteError (a DataParseError); the model's own fuel artefact never appears *)
Lemma tokenizer_progress_l (cfg : tok_cfg) (s : str) :
  match next_token cfg s with
  | TTok t q cs rest => (length rest < length s)%nat
  | TEof _ => True
  | TErr e => e = ParseErr
  | TFuel => False
  end.
Proof.
  destruct (next_token cfg s) as [cs|e| |t q cs rest] eqn:E.
  - exact I.
  - unfold next_token in E. eapply next_tok_err; eauto.
  - exact (next_token_no_fuel cfg s E).
  - eapply next_token_progress; eauto.
Qed.

Lemma tokenize_total_l (cfg : tok_cfg) (s : str) :
  snd (tokenize cfg s) <> EndFuel /\ (forall e, snd (tokenize cfg s) = EndErr e -> e = ParseErr).
Proof. split; [apply tokenize_total | apply tokenize_err]. Qed.
