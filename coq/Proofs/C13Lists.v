(* C13: the tree-list bookkeeping of the NEXUS reader (one list per block / one list for all). *)
From Coq Require Import ZArith List Bool Lia.
From DV Require Import Model.PyPrims Model.C13Model.
Import ListNotations.

Lemma list_set_length : forall A (l : list A) i x, length (list_set l i x) = length l.
Proof. induction l as [|y r IH]; intros [|i] x; simpl; auto. Qed.

Lemma list_set_nth_eq : forall A (l : list A) i x d, (i < length l)%nat -> nth i (list_set l i x) d = x.
Proof.
  induction l as [|y r IH]; intros [|i] x d H; simpl in *; try lia; auto. apply IH. lia.
Qed.

Lemma list_set_last : forall A (l : list A) y x, list_set (l ++ [y]) (length l) x = l ++ [x].
Proof. induction l as [|z r IH]; intros; simpl; [reflexivity | rewrite IH; reflexivity]. Qed.

Lemma nth_last : forall A (l : list A) y d, nth (length l) (l ++ [y]) d = y.
Proof. induction l; simpl; auto. Qed.

Lemma map_nth_seq : forall A B (f : A -> B) (l : list A) d,
  map (fun i => f (nth i l d)) (seq 0 (length l)) = map f l.
Proof.
  intros A B f l d.
  assert (G : forall (pre : list A), map (fun i => f (nth i (pre ++ l) d)) (seq (length pre) (length l)) = map f l).
  { induction l as [|x r IH]; intros pre; simpl; [reflexivity|].
    f_equal.
    - rewrite app_nth2 by lia. rewrite Nat.sub_diag. reflexivity.
    - specialize (IH (pre ++ [x])). rewrite app_length in IH. simpl in IH.
      rewrite Nat.add_1_r in IH. rewrite <- app_assoc in IH. simpl in IH. exact IH. }
  apply (G []).
Qed.

Lemma exists_last' : forall A (l : list A), l <> [] -> exists l0 y, l = l0 ++ [y].
Proof. intros A l H. destruct (exists_last H) as [l0 [y E]]. eauto. Qed.

Section TL.
Variable T : Type.
Variable tlf : tl_factory.

Notation tlv := (tlval T).

(* every tree the reader has stored, in arrival order *)
Definition flat (tls : list tlv) : list T :=
  match tlf with
  | TLFixed => tl_trees (tl_at T tls 0)
  | TLNew => concat (map tl_trees tls)
  end.

(* tb = the current trees_block *)
Definition wf (tls : list tlv) (reg : list nat) (tb : option nat) : Prop :=
  match tlf with
  | TLFixed => (1 <= length tls)%nat /\ (tb = None \/ tb = Some O)
  | TLNew => reg = seq 0 (length tls) /\ (tb = None \/ (tb = Some (length tls - 1)%nat /\ tls <> []))
  end.

Lemma wf_forget : forall tls reg tb, wf tls reg tb -> wf tls reg None.
Proof. unfold wf. intros tls reg tb. destruct tlf; intros [H1 H2]; split; auto. Qed.

Lemma new_tree_list_wf : forall tls reg title i tls' reg',
  wf tls reg None -> new_tree_list T tlf tls reg title = (i, tls', reg') ->
  wf tls' reg' (Some i) /\ flat tls' = flat tls.
Proof.
  unfold wf, flat, new_tree_list. intros tls reg title i tls' reg' H E.
  destruct tlf; destruct H as [H1 _].
  - inversion E; subst; clear E. split.
    + split.
      * rewrite app_length, seq_app. simpl. reflexivity.
      * right. split.
        -- rewrite app_length. simpl. f_equal. lia.
        -- destruct tls; discriminate.
    + rewrite map_app, concat_app. simpl. rewrite app_nil_r. reflexivity.
  - inversion E; subst; clear E.
    destruct title as [t|]; [destruct (tl_label (nth 0 tls (mkTl None [] []))) eqn:EL|].
    + split; [split; auto|reflexivity].
    + split; [split; [rewrite list_set_length; assumption | auto]|].
      unfold tl_at. rewrite list_set_nth_eq by lia. reflexivity.
    + split; [split; auto|reflexivity].
Qed.

Lemma tl_append_wf : forall tls reg i t,
  wf tls reg (Some i) ->
  wf (tl_append T tls i t) reg (Some i) /\ flat (tl_append T tls i t) = flat tls ++ [t].
Proof.
  unfold wf, flat, tl_append. intros tls reg i t H.
  destruct tlf.
  - destruct H as [Hreg [Hn|[Htb Hne]]]; [discriminate|].
    inversion Htb; subst i; clear Htb.
    destruct (exists_last' _ tls Hne) as [l0 [y E]]. subst tls.
    rewrite app_length in *. simpl in *. replace (length l0 + 1 - 1)%nat with (length l0) by lia.
    unfold tl_at. rewrite nth_last, list_set_last. split.
    + split; [rewrite !app_length; simpl; assumption|].
      right. split; [rewrite app_length; simpl; f_equal; lia | destruct l0; discriminate].
    + rewrite !map_app, !concat_app. simpl. rewrite !app_nil_r, app_assoc. reflexivity.
  - destruct H as [Hlen [Hn|Htb]]; [discriminate|]. inversion Htb; subst i.
    split.
    + split; [rewrite list_set_length; assumption | auto].
    + unfold tl_at. rewrite list_set_nth_eq by lia. reflexivity.
Qed.

Lemma tl_add_comments_wf : forall tls reg i cs,
  wf tls reg (Some i) ->
  wf (tl_add_comments T tls i cs) reg (Some i) /\ flat (tl_add_comments T tls i cs) = flat tls.
Proof.
  unfold wf, flat, tl_add_comments. intros tls reg i cs H.
  destruct tlf.
  - destruct H as [Hreg [Hn|[Htb Hne]]]; [discriminate|].
    inversion Htb; subst i; clear Htb.
    destruct (exists_last' _ tls Hne) as [l0 [y E]]. subst tls.
    rewrite app_length in *. simpl in *. replace (length l0 + 1 - 1)%nat with (length l0) by lia.
    unfold tl_at. rewrite nth_last, list_set_last. split.
    + split; [rewrite !app_length; simpl; assumption|].
      right. split; [rewrite app_length; simpl; f_equal; lia | destruct l0; discriminate].
    + rewrite !map_app, !concat_app. simpl. reflexivity.
  - destruct H as [Hlen [Hn|Htb]]; [discriminate|]. inversion Htb; subst i.
    split.
    + split; [rewrite list_set_length; assumption | auto].
    + unfold tl_at. rewrite list_set_nth_eq by lia. reflexivity.
Qed.

Lemma appends_wf : forall out tls reg i,
  wf tls reg (Some i) ->
  wf (fold_left (fun l t => tl_append T l i t) out tls) reg (Some i)
  /\ flat (fold_left (fun l t => tl_append T l i t) out tls) = flat tls ++ out.
Proof.
  induction out as [|t r IH]; intros tls reg i H; simpl.
  - split; [assumption | rewrite app_nil_r; reflexivity].
  - destruct (tl_append_wf tls reg i t H) as [H1 H2].
    destruct (IH _ _ _ H1) as [H3 H4]. split; [assumption|].
    rewrite H4, H2, <- app_assoc. reflexivity.
Qed.

End TL.
