(* C08 - the two probed variants: label wrappers of extract_tree resolving through the namespace
   (notes/C08_fix_c.patch), and the exception class when pruning reaches the seed
   (notes/C03_fix_1.patch). *)
From Coq Require Import ZArith List Bool Lia.
From DV Require Import Model.PyPrims Model.Tree Model.C08Model Proofs.C08Base Proofs.C08InPlace Proofs.C08Prune
     Proofs.C08Extract Proofs.C08Spec Proofs.C08Final Proofs.C08Thms.
Import ListNotations.
Open Scope Z_scope.

(* ---- labels resolved by the namespace: extraction agrees with the in-place label methods ---- *)

Theorem extract_with_labels_ns_spec ns cs labels keep sup t :
  NoDup (ids t) -> leaf_taxa_only t = true -> labels_name_ns ns cs labels keep t ->
  extract_tree_with_taxa_labels_ns ns cs labels sup t = extract_tree_with_taxa keep sup t.
Proof.
  intros Hnd Hd HL. unfold extract_tree_with_taxa_labels_ns, extract_tree_with_taxa.
  rewrite !extract_wrapper_spec; try exact Hnd.
  rewrite (restrict_ext_leaf_taxa sup (with_taxa_p (get_taxa ns cs labels)) (with_taxa_p keep) t Hd); [reflexivity|].
  intros n a Hn Ea. unfold with_taxa_p. apply bool_iff. rewrite !memz_In, get_taxa_mem. exact (HL n a Hn Ea).
Qed.

Theorem extract_without_labels_ns_spec ns cs labels pruned sup t :
  NoDup (ids t) -> leaf_taxa_only t = true -> labels_name_ns ns cs labels pruned t ->
  extract_tree_without_taxa_labels_ns ns cs labels sup t = extract_tree_without_taxa pruned sup t.
Proof.
  intros Hnd Hd HL. unfold extract_tree_without_taxa_labels_ns, extract_tree_without_taxa.
  rewrite !extract_wrapper_spec; try exact Hnd.
  rewrite (restrict_ext_leaf_taxa sup (without_taxa_p (get_taxa ns cs labels)) (without_taxa_p pruned) t Hd); [reflexivity|].
  intros n a Hn Ea. unfold without_taxa_p. f_equal. apply bool_iff. rewrite !memz_In, get_taxa_mem. exact (HL n a Hn Ea).
Qed.

(* all four label variants, whatever the case of the labels: one label list naming the kept taxa
   and one naming the pruned taxa under the namespace's rule *)
Theorem labels_four_way ns cs lkeep lpruned keep pruned sup t rooted r :
  NoDup (ids t) -> leaf_taxa_only t = true -> taxa_in_ns ns t ->
  (forall n a, In n (leaves t) -> t_taxon n = Some a -> memz a pruned = negb (memz a keep)) ->
  labels_name_ns ns cs lkeep keep t -> labels_name_ns ns cs lpruned pruned t ->
  restrict sup (keep_taxa keep) t = Some r ->
  prune_taxa_with_labels ns cs lpruned false sup true false (t, rooted) = IOk ([], r, rooted) /\
  retain_taxa_with_labels ns cs lkeep false sup (t, rooted) = IOk ([], r, rooted) /\
  extract_tree_with_taxa_labels_ns ns cs lkeep sup t = XOk r /\
  extract_tree_without_taxa_labels_ns ns cs lpruned sup t = XOk r.
Proof.
  intros Hnd Hd Hns Hc HK HP Hr.
  destruct (four_way keep pruned ns sup t rooted r Hnd Hd Hns Hc Hr) as [P [R [X1 X2]]].
  split; [rewrite (prune_labels_spec ns cs lpruned pruned false sup t rooted Hnd Hd HP); exact P|].
  split; [rewrite (retain_labels_spec ns cs lkeep keep false sup t rooted Hnd Hd Hns HK); exact R|].
  split; [rewrite (extract_with_labels_ns_spec ns cs lkeep keep sup t Hnd Hd HK); exact X1|].
  rewrite (extract_without_labels_ns_spec ns cs lpruned pruned sup t Hnd Hd HP). exact X2.
Qed.

(* the witness of labels_case_refuted, after the repair: upper-case labels, case-insensitive namespace *)
Example ex_labels_case_agree :
  exists r, retain_taxa_with_labels [(0, 0); (1, 2); (2, 4)] false [1; 4] false true (ex_tree, Some true) = IOk ([], r, Some true) /\
            extract_tree_with_taxa_labels_ns [(0, 0); (1, 2); (2, 4)] false [1; 4] true ex_tree = XOk r.
Proof. eexists. split; vm_compute; reflexivity. Qed.

(* ---- the exception class at the seed ---- *)

Lemma seed_err_ok {A} e (a : A) : seed_err e (IOk a) = IOk a.
Proof. reflexivity. Qed.

Theorem prune_taxa_variant e taxa upd_bip sup lf intn t rooted :
  NoDup (ids t) -> leaf_taxa_only t = true ->
  seed_err e (prune_taxa taxa upd_bip sup lf intn (t, rooted)) =
  match restrict sup (p1_keep lf taxa) t with
  | Some r => IOk ([], fst (with_update upd_bip sup rooted r), snd (with_update upd_bip sup rooted r))
  | None => IErr e (set_kids t [])
  end.
Proof.
  intros Hnd Hd. rewrite (prune_taxa_spec taxa upd_bip sup lf intn t rooted Hnd Hd).
  destruct (restrict sup (p1_keep lf taxa) t); reflexivity.
Qed.

Theorem plwt_variant e upd_bip sup t rooted : NoDup (ids t) ->
  match restrictG sup has_taxon np_true has_taxon t with
  | Some r => exists rem,
      seed_err e (prune_leaves_without_taxa true upd_bip sup (t, rooted)) =
      IOk (rem, fst (with_update upd_bip sup rooted r), snd (with_update upd_bip sup rooted r))
  | None => seed_err e (prune_leaves_without_taxa true upd_bip sup (t, rooted)) = IErr e (set_kids t [])
  end.
Proof.
  intro Hnd. pose proof (plwt_spec upd_bip sup t rooted Hnd) as P.
  destruct (restrictG sup has_taxon np_true has_taxon t).
  - destruct P as [rem E]. exists rem. rewrite E. reflexivity.
  - rewrite P. reflexivity.
Qed.
