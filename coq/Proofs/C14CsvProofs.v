(* C14, CSV: what from_csv reads back from what write_csv wrote *)
From Coq Require Import ZArith QArith List Bool Lia ZifyBool.
From DV Require Import Model.PyPrims Model.C14Model Model.C14Csv Proofs.C14Dict Proofs.C14Clu.
Import ListNotations.
Open Scope Z_scope.

(* ---------- join / split ---------- *)
Definition no_char (d : Z) (s : str) : Prop := ~ In d s.

Lemma split_on_app d s : forall cur, no_char d s -> forall rest,
  split_on d (s ++ d :: rest) cur = rev (rev s ++ cur) :: split_on d rest [].
Proof.
  induction s as [|c s IH]; intros cur H rest; simpl.
  - rewrite Z.eqb_refl. reflexivity.
  - destruct (Z.eqb c d) eqn:E; [apply Z.eqb_eq in E; exfalso; apply H; left; exact E|].
    rewrite IH by (intro X; apply H; right; exact X). rewrite <- app_assoc. reflexivity.
Qed.

Lemma split_on_last d s : forall cur, no_char d s -> split_on d s cur = [rev (rev s ++ cur)].
Proof.
  induction s as [|c s IH]; intros cur H; simpl; [reflexivity|].
  destruct (Z.eqb c d) eqn:E; [apply Z.eqb_eq in E; exfalso; apply H; left; exact E|].
  rewrite IH by (intro X; apply H; right; exact X). rewrite <- app_assoc. reflexivity.
Qed.

Lemma split_join_aux d r : Forall (no_char d) r -> forall c, no_char d c ->
  split_on d (c ++ flat_map (fun x => d :: x) r) [] = c :: r.
Proof.
  induction 1 as [|c2 r Hc2 Fr IH]; intros c Hc; simpl.
  - rewrite app_nil_r, split_on_last by exact Hc. rewrite app_nil_r, rev_involutive. reflexivity.
  - rewrite split_on_app by exact Hc. rewrite app_nil_r, rev_involutive. f_equal. apply IH. exact Hc2.
Qed.

Lemma split_join d cells : cells <> [] -> Forall (no_char d) cells -> split_on d (join_on d cells) [] = cells.
Proof.
  destruct cells as [|c r]; [congruence|]. intros _ F. inversion F as [|? ? Hc Fr]; subst. simpl.
  apply split_join_aux; assumption.
Qed.

Lemma join_nonempty d c r : r <> [] -> join_on d (c :: r) <> [].
Proof. destruct r as [|x r]; [congruence|]. intros _. simpl. destruct c; discriminate. Qed.

Lemma In_join d cells x : In x (join_on d cells) -> x = d \/ exists c, In c cells /\ In x c.
Proof.
  destruct cells as [|c r]; [intros []|]. simpl. rewrite in_app_iff. intros [H|H].
  - right. exists c. auto.
  - apply in_flat_map in H. destruct H as [c2 [Hc2 [H|H]]]; [left; congruence | right; exists c2; auto].
Qed.

Lemma read_body_step ncols name cells rest names data : cells <> [] ->
  read_body ncols ((name :: cells) :: rest) names data =
  if negb (Nat.eqb ncols (S (length cells))) then Err AssertErr
  else if smem name names then Err AssertErr
       else do vals <- res_map (fun c => match parse_float c with Some q => Ok q | None => Err ValueErr end) cells ;;
            read_body ncols rest (names ++ [name]) (data ++ [vals]).
Proof. destruct cells as [|c cs]; [congruence|]. reflexivity. Qed.

(* ---------- the round trip ---------- *)
Section RoundTrip.
Variables (d : Z) (label : Z -> str) (cell : Z -> Z -> str) (val : Z -> Z -> Q) (lower : str -> str) (order : list Z).

Definition clean (s : str) : Prop := no_char d s /\ has_quote s = false /\ strip_sp s = s.

Hypothesis Hd : (d =? 34) || (d =? 13) || (d =? 10) = false.
Hypothesis Hlab : forall a, In a order -> clean (label a).
Hypothesis Hcell : forall a b, In a order -> In b order -> clean (cell a b) /\ parse_float (cell a b) = Some (val a b).
Hypothesis Hdistinct : NoDup (map (fun a => lower (label a)) order).

Let n := length order.
Let rowf (a : Z) : list str := label a :: map (cell a) order.

Lemma label_inj a b : In a order -> In b order -> label a = label b -> a = b.
Proof.
  intros Ha Hb E. assert (G : forall l, NoDup (map (fun a => lower (label a)) l) -> In a l -> In b l -> a = b).
  { induction l as [|x l IH]; [intros _ []|]. simpl. intro N. inversion N as [|? ? Hx N']; subst.
    intros [Hxa|Hxa] [Hxb|Hxb].
    - congruence.
    - subst x. exfalso. apply Hx. rewrite E. apply (in_map (fun a => lower (label a))). exact Hxb.
    - subst x. exfalso. apply Hx. rewrite <- E. apply (in_map (fun a => lower (label a))). exact Hxa.
    - apply IH; assumption. }
  apply (G order); assumption.
Qed.

Lemma smem_false x l : ~ In x l -> smem x l = false.
Proof.
  intro H. unfold smem. destruct (existsb (str_eqb x) l) eqn:E; [|reflexivity]. exfalso. apply H.
  apply existsb_exists in E. destruct E as [y [Hy Ey]]. apply (list_eqb_eq Z.eqb Z.eqb_eq) in Ey. subst. exact Hy.
Qed.

Lemma nodup_strs_true l : NoDup l -> nodup_strs l = true.
Proof.
  induction 1 as [|x l Hx N IH]; [reflexivity|]. simpl. rewrite (smem_false x l Hx), IH. reflexivity.
Qed.

Lemma NoDup_map_inj {A B} (f : A -> B) l : (forall a b, In a l -> In b l -> f a = f b -> a = b) -> NoDup l -> NoDup (map f l).
Proof.
  intros Inj N. induction N as [|x l Hx N IH]; [constructor|]. simpl. constructor.
  - intro H. apply in_map_iff in H. destruct H as [y [Ey Hy]]. apply Hx.
    rewrite <- (Inj y x); [exact Hy | right; exact Hy | left; reflexivity | exact Ey].
  - apply IH. intros a b Ha Hb. apply Inj; right; assumption.
Qed.

Lemma order_NoDup : NoDup order.
Proof.
  clear - Hdistinct. induction order as [|x l IH]; [constructor|]. simpl in Hdistinct.
  inversion Hdistinct as [|? ? Hx N]; subst. constructor; [|apply IH; exact N].
  intro H. apply Hx. apply (in_map (fun a => lower (label a))). exact H.
Qed.

Lemma labels_NoDup : NoDup (map label order).
Proof. apply NoDup_map_inj; [apply label_inj | apply order_NoDup]. Qed.

(* every line splits back into its cells *)
Lemma line_rows : order <> [] ->
  map (fun l => match l with [] => [] | _ => map strip_sp (split_on d l []) end) (write_csv d label cell order)
  = csv_rows label cell order.
Proof.
  intro Ne. unfold write_csv. rewrite map_map.
  assert (G : forall row, row <> [] -> tl row <> [] -> Forall clean row ->
              match join_on d row with [] => [] | _ => map strip_sp (split_on d (join_on d row) []) end = row).
  { intros row R1 R2 F. destruct row as [|c r]; [congruence|]. simpl in R2.
    pose proof (join_nonempty d c r R2) as J. destruct (join_on d (c :: r)) eqn:E; [congruence|]. rewrite <- E.
    rewrite split_join; [|discriminate|].
    - clear - F. induction F as [|x l Hx F IH]; [reflexivity|]. simpl. destruct Hx as [_ [_ Hx]]. rewrite Hx, IH. reflexivity.
    - eapply Forall_impl; [|exact F]. intros s0 [H0 _]. exact H0. }
  unfold csv_rows. rewrite map_cons. f_equal.
  - apply (G ([] :: map label order)); [discriminate | simpl; destruct order; [congruence | discriminate] |].
    constructor; [split; [intros []|split; reflexivity]|]. apply Forall_forall. intros s Hs.
    apply in_map_iff in Hs. destruct Hs as [a [<- Ha]]. apply Hlab. exact Ha.
  - rewrite map_map. apply map_ext_in. intros a Ha.
    apply (G (label a :: map (cell a) order)); [discriminate | simpl; destruct order; [congruence | discriminate] |].
    constructor; [apply Hlab; exact Ha|]. apply Forall_forall. intros s Hs.
    apply in_map_iff in Hs. destruct Hs as [b [<- Hb]]. apply (Hcell a b Ha Hb).
Qed.

Lemma no_quotes : existsb has_quote (write_csv d label cell order) = false.
Proof.
  destruct (existsb has_quote (write_csv d label cell order)) eqn:E; [|reflexivity]. exfalso.
  apply existsb_exists in E. destruct E as [l [Hl Hq]]. unfold write_csv in Hl. apply in_map_iff in Hl.
  destruct Hl as [row [<- Hrow]]. unfold has_quote in Hq. apply existsb_exists in Hq. destruct Hq as [c [Hc Hcq]].
  assert (Clean : forall s, In s row -> has_quote s = false).
  { intros s Hs. unfold csv_rows in Hrow. destruct Hrow as [<-|Hrow].
    - destruct Hs as [<-|Hs]; [reflexivity|]. apply in_map_iff in Hs. destruct Hs as [a [<- Ha]]. apply Hlab. exact Ha.
    - apply in_map_iff in Hrow. destruct Hrow as [a [<- Ha]]. destruct Hs as [<-|Hs]; [apply Hlab; exact Ha|].
      apply in_map_iff in Hs. destruct Hs as [b [<- Hb]]. apply (Hcell a b Ha Hb). }
  destruct (In_join d row c Hc) as [->|[s [Hs Hcs]]].
  - rewrite Hd in Hcq. discriminate.
  - specialize (Clean s Hs). unfold has_quote in Clean.
    assert (existsb (fun c0 => (c0 =? 34) || (c0 =? 13) || (c0 =? 10)) s = true) by (apply existsb_exists; exists c; auto).
    congruence.
Qed.

Lemma read_body_rows : order <> [] -> forall l names data,
  incl l order -> NoDup (map label l) -> (forall a, In a l -> ~ In (label a) names) ->
  read_body (S n) (map rowf l) names data
  = Ok (names ++ map label l, data ++ map (fun a => map (val a) order) l).
Proof.
  intro Ne. induction l as [|a l IH]; intros names data Hi N Hn.
  - simpl. rewrite !app_nil_r. reflexivity.
  - simpl map. simpl in N. inversion N as [|? ? Ha N']; subst.
    assert (Ina : In a order) by (apply Hi; left; reflexivity).
    unfold rowf at 1. rewrite read_body_step by (destruct order; [congruence | discriminate]).
    rewrite map_length. fold n. rewrite Nat.eqb_refl. cbn [negb].
    rewrite (smem_false (label a) names) by (apply Hn; left; reflexivity).
    rewrite (res_map_map _ (fun s => match parse_float s with Some q => q | None => 0%Q end)).
    2:{ intros s Hs. apply in_map_iff in Hs. destruct Hs as [b [<- Hb]].
        destruct (Hcell a b Ina Hb) as [_ P]. rewrite P. reflexivity. }
    cbn [bind]. rewrite map_map.
    rewrite (map_ext_in (fun x => match parse_float (cell a x) with Some q => q | None => 0%Q end) (val a)).
    2:{ intros b Hb. destruct (Hcell a b Ina Hb) as [_ P]. rewrite P. reflexivity. }
    rewrite IH.
    + rewrite <- !app_assoc. reflexivity.
    + intros x Hx. apply Hi. right. exact Hx.
    + exact N'.
    + intros b Hb Hin. apply in_app_iff in Hin. destruct Hin as [Hin|[Hin|[]]].
      * apply (Hn b); [right; exact Hb | exact Hin].
      * apply Ha. rewrite Hin. apply in_map. exact Hb.
Qed.

(* ---------- the dictionary built from the rows ---------- *)
Definition urow (i : nat) (a : Z) : dict Q :=
  (Z.of_nat i, 0%Q) :: map (fun j => (Z.of_nat j, val a (nth j order 0))) (seq (S i) (n - S i)).

Lemma nthq_map {A} (f : A -> Q) (dflt : A) l : forall j, (j < length l)%nat -> nthq (map f l) j = Ok (f (nth j l dflt)).
Proof.
  induction l as [|x l IH]; intros j Hj; [simpl in Hj; lia|]. destruct j as [|j]; [reflexivity|].
  simpl. apply IH. simpl in Hj. lia.
Qed.

Lemma upper_row_eval i a : upper_row i n (map (val a) order) = Ok (urow i a).
Proof.
  unfold upper_row, urow. rewrite (res_map_map _ (fun j => (Z.of_nat j, val a (nth j order 0)))); [reflexivity|].
  intros j Hj. apply in_seq in Hj. rewrite (nthq_map (val a) 0 order j) by (fold n; lia). reflexivity.
Qed.

Lemma upper_rows_eval : forall l i0,
  upper_rows i0 n (map (fun a => map (val a) order) l)
  = Ok (map (fun ia => (Z.of_nat (fst ia), urow (fst ia) (snd ia))) (combine (seq i0 (length l)) l)).
Proof.
  induction l as [|a l IH]; intro i0; [reflexivity|]. simpl. rewrite upper_row_eval. cbn [bind].
  rewrite IH. reflexivity.
Qed.

Lemma combine_seq_nth {B} (g : nat * Z -> B) : forall l i0,
  map g (combine (seq i0 (length l)) l) = map (fun k => g ((i0 + k)%nat, nth k l 0)) (seq 0 (length l)).
Proof.
  induction l as [|a l IH]; intro i0; [reflexivity|]. simpl. rewrite Nat.add_0_r. f_equal.
  rewrite IH. rewrite <- seq_shift, map_map. apply map_ext. intro k. rewrite Nat.add_succ_r. reflexivity.
Qed.

Definition up : tbl Q := map (fun k => (Z.of_nat k, urow k (nth k order 0))) (seq 0 n).

Lemma dget_seq {W} (f : nat -> W) x : forall m a,
  dget x (map (fun k => (Z.of_nat k, f k)) (seq a m))
  = if (Z.of_nat a <=? x) && (x <? Z.of_nat (a + m)) then Some (f (Z.to_nat x)) else None.
Proof.
  induction m as [|m IH]; intro a; simpl.
  - destruct (Z.of_nat a <=? x) eqn:E1; destruct (x <? Z.of_nat (a + 0)) eqn:E2; try reflexivity. lia.
  - destruct (Z.eqb x (Z.of_nat a)) eqn:E.
    + apply Z.eqb_eq in E. subst x. rewrite Nat2Z.id.
      assert ((Z.of_nat a <=? Z.of_nat a) && (Z.of_nat a <? Z.of_nat (a + S m)) = true) as -> by (apply andb_true_iff; split; lia).
      reflexivity.
    + apply Z.eqb_neq in E. rewrite IH.
      destruct (Z.of_nat (S a) <=? x) eqn:E1; destruct (x <? Z.of_nat (S a + m)) eqn:E2;
        destruct (Z.of_nat a <=? x) eqn:E3; destruct (x <? Z.of_nat (a + S m)) eqn:E4; simpl; try reflexivity; lia.
Qed.

Definition inr (x : Z) : bool := (0 <=? x) && (x <? Z.of_nat n).

Lemma up_get x y :
  tget2 x y up =
  if inr x && inr y then
    (if Z.eqb x y then Some 0%Q
     else if x <? y then Some (val (nth (Z.to_nat x) order 0) (nth (Z.to_nat y) order 0)) else None)
  else None.
Proof.
  unfold tget2, up. rewrite (dget_seq (fun k => urow k (nth k order 0)) x n 0). change (Z.of_nat 0) with 0. change (0 + n)%nat with n.
  fold (inr x). destruct (inr x) eqn:Ix; [|reflexivity]. simpl andb.
  unfold inr in Ix. apply andb_true_iff in Ix. destruct Ix as [X0 X1].
  unfold urow. simpl dget. rewrite Z2Nat.id by lia. rewrite (Z.eqb_sym y x).
  destruct (Z.eqb x y) eqn:Exy.
  - apply Z.eqb_eq in Exy. subst y. unfold inr. rewrite X0, X1. reflexivity.
  - apply Z.eqb_neq in Exy.
    rewrite (dget_seq (fun j => val (nth (Z.to_nat x) order 0) (nth j order 0)) y (n - S (Z.to_nat x)) (S (Z.to_nat x))).
    unfold inr.
    destruct (Z.of_nat (S (Z.to_nat x)) <=? y) eqn:E1; destruct (y <? Z.of_nat (S (Z.to_nat x) + (n - S (Z.to_nat x)))) eqn:E2;
      destruct (0 <=? y) eqn:E3; destruct (y <? Z.of_nat n) eqn:E4; destruct (x <? y) eqn:E5; simpl; try reflexivity; lia.
Qed.

Lemma up_keys : dkeys up = map Z.of_nat (seq 0 n).
Proof. unfold dkeys, up. rewrite map_map. reflexivity. Qed.

Lemma up_dmem x : dmem x up = inr x.
Proof.
  unfold dmem, up. rewrite (dget_seq (fun k => urow k (nth k order 0)) x n 0). change (Z.of_nat 0) with 0. change (0 + n)%nat with n.
  fold (inr x). destruct (inr x); reflexivity.
Qed.

Lemma up_wf : wf_tbl up.
Proof.
  split.
  - rewrite up_keys. apply FinFun.Injective_map_NoDup; [intros a b; apply Nat2Z.inj | apply seq_NoDup].
  - intros k r Hr. unfold up in Hr. apply dget_In in Hr. apply in_map_iff in Hr. destruct Hr as [i [E Hi]].
    inversion E. subst. unfold urow, dkeys. simpl. rewrite map_map. simpl. apply in_seq in Hi.
    change (NoDup (map Z.of_nat (i :: seq (S i) (n - S i)))).
    apply FinFun.Injective_map_NoDup; [intros a b; apply Nat2Z.inj|].
    constructor; [rewrite in_seq; lia | apply seq_NoDup].
Qed.

Theorem csv_roundtrip_l : order <> [] ->
  exists T, from_csv lower d (write_csv d label cell order) = Ok (map label order, T) /\
    forall i j, (i < n)%nat -> (j < n)%nat ->
      tget2 (Z.of_nat i) (Z.of_nat j) T =
      Some (if Nat.eqb i j then 0%Q
            else if Nat.ltb i j then val (nth i order 0) (nth j order 0) else val (nth j order 0) (nth i order 0)).
Proof.
  intro Ne. unfold from_csv. rewrite no_quotes. rewrite (line_rows Ne). unfold csv_rows.
  cbn [tl length]. rewrite map_length. fold n.
  rewrite (nodup_strs_true _ labels_NoDup). cbn [negb].
  change (map (fun a => label a :: map (cell a) order) order) with (map rowf order).
  rewrite (read_body_rows Ne order [] []); [|apply incl_refl | apply labels_NoDup | intros a _ []].
  cbn [bind app]. rewrite map_map. rewrite (nodup_strs_true _ Hdistinct). cbn [negb].
  rewrite map_length. fold n. rewrite upper_rows_eval.
  rewrite (combine_seq_nth (fun ia => (Z.of_nat (fst ia), urow (fst ia) (snd ia))) order 0). cbn [fst snd Nat.add].
  fold n. fold up. cbn [bind].
  destruct (mirror_tbl_spec up up_wf) as [T [E [_ [_ G]]]].
  - intros x y v H. rewrite up_dmem. rewrite up_get in H. destruct (inr x && inr y) eqn:I; [|discriminate].
    apply andb_true_iff in I. tauto.
  - intros x y Nxy H. rewrite up_get in *. destruct (inr x && inr y) eqn:I; [|congruence].
    rewrite (andb_comm (inr y)), I. assert (Z.eqb x y = false) as Exy by (apply Z.eqb_neq; exact Nxy).
    rewrite Exy in H. rewrite (Z.eqb_sym y x), Exy. destruct (x <? y) eqn:L; [|congruence].
    assert (y <? x = false) as -> by lia. reflexivity.
  - rewrite E. cbn [bind]. exists T. split; [reflexivity|]. intros i j Hi Hj. rewrite G, !up_get.
    assert (Ii : inr (Z.of_nat i) = true) by (unfold inr; apply andb_true_iff; split; lia).
    assert (Ij : inr (Z.of_nat j) = true) by (unfold inr; apply andb_true_iff; split; lia).
    rewrite Ii, Ij. simpl andb. rewrite !Nat2Z.id.
    destruct (Nat.eqb i j) eqn:Eij.
    + apply Nat.eqb_eq in Eij. subst j. rewrite Z.eqb_refl. reflexivity.
    + apply Nat.eqb_neq in Eij. assert (Z.eqb (Z.of_nat i) (Z.of_nat j) = false) as -> by lia.
      assert (Z.eqb (Z.of_nat j) (Z.of_nat i) = false) as -> by lia.
      destruct (Nat.ltb i j) eqn:Lij.
      * apply Nat.ltb_lt in Lij. assert (Z.of_nat i <? Z.of_nat j = true) as -> by lia. reflexivity.
      * apply Nat.ltb_ge in Lij. assert (Z.of_nat i <? Z.of_nat j = false) as -> by lia.
        assert (Z.of_nat j <? Z.of_nat i = true) as -> by lia. reflexivity.
Qed.
End RoundTrip.

Lemma csv_roundtrip_empty lower d label cell : from_csv lower d (write_csv d label cell []) = Ok ([], []).
Proof. reflexivity. Qed.

(* a concrete round trip: taxa C, A, B written in that order with entries 3.5, 4.5, 2.5 *)
Definition ex_lab (k : Z) : str := [65 + k].
Definition ex_cell (a b : Z) : str := if a =? b then [48; 46; 48] else [49 + a + b; 46; 53].
Lemma ex_csv :
  from_csv (fun x => x) 44 (write_csv 44 ex_lab ex_cell [2; 0; 1])
  = Ok ([[67]; [65]; [66]],
        [(0, [(0, 0%Q); (1, 7 # 2); (2, 9 # 2)]);
         (1, [(1, 0%Q); (2, 5 # 2); (0, 7 # 2)]);
         (2, [(2, 0%Q); (0, 9 # 2); (1, 5 # 2)])]).
Proof. vm_compute. reflexivity. Qed.
