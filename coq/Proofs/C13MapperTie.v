(* C13 (wave 6): the route-agreement theorems THROUGH the symbol mapper.

   1. the three operations of Model/C13GenPrims.v through which the compiled block drivers (Gen/Routes.v) use the
      mapper object - its construction, add_translate_token, lookup_taxon_symbol - are what the COMPILED class
      (Gen/RoutesMapper.v) computes on the namespace object the reader holds;
   2. a statement parser that resolves its leaf symbols through the compiled require_taxon_for_symbol, in
      document order (`g_parse_tree`): every route theorem holds of it, so the reader route and the iterator
      route resolve every leaf symbol of every tree to the same taxon and leave the same namespaces;
   (3-4, on the model's mapper alone, are in Proofs/C13MapperModel.v.) *)
From Coq Require Import ZArith List Bool Lia DecimalPos DecimalN.
From Coq Require String. Import String.StringSyntax.
From DV Require Import Model.PyPrims Model.C13Model Model.C13GenPrims Model.C13MapPrims Gen.Routes Gen.RoutesMapper
  Proofs.C13GenMapper Proofs.C13GenGlue Proofs.C13GenEntry Proofs.C13GenFinal.
Import ListNotations.

(* ================= 1. the interface operations of Gen/Routes.v are the compiled methods ================= *)
Section Tie.
Variable T : Type.
Variable lower : str -> str.

(* nexusprocessing.NexusTaxonSymbolMapper(taxon_namespace=ns, enable_lookup_by_taxon_number=b, case_sensitive=False):
   the compiled __init__ on the namespace object `ns` of the reader state, whatever its is_mutable *)
Theorem tie_new_mapper : forall (s : gst T) (ns : option nat) (b mut : bool) (o0 : mobj),
  exists o, gm_init lower o0 (ns_taxa_at (r_k s) (on_get ns), mut) b = Ok (tt, o)
            /\ ifc_new_mapper T lower s ns b = Ok (Some (on_get ns, mo_abs o), s)
            /\ mo_ns o = Some (ns_taxa_at (r_k s) (on_get ns), false) /\ mo_orig o = Some mut.
Proof.
  intros. destruct (G_mapper_init_abs lower o0 (ns_taxa_at (r_k s) (on_get ns)) mut b) as [o [E [A [N O]]]].
  exists o. repeat split; try assumption. unfold ifc_new_mapper. rewrite A. reflexivity.
Qed.

(* <mapper>.add_translate_token(token, taxon): the compiled method on the object that sees the namespace as it is now *)
Theorem tie_add_translate_token : forall (s : gst T) (ns : nat) (m : mapper) (tok : option str) (t : otaxon) (nl : pdict str),
  exists o, gm_add_translate_token lower (mo_of nl (mapper_set_ns m (ns_taxa_at (r_k s) ns)))
              (match tok with Some x => x | None => s2z "None" end) (tx_index t) = Ok (tt, o)
            /\ ifc_mapper_add_token T lower s (Some (ns, m)) tok t = Some (ns, mo_abs o).
Proof.
  intros. eexists. split; [apply G_mapper_add_translate_token|].
  unfold ifc_mapper_add_token. destruct m as [a b c d e]. reflexivity.
Qed.

(* <mapper>.lookup_taxon_symbol(symbol, create_taxon_if_not_found=b) *)
Theorem tie_lookup_taxon_symbol : forall (s : gst T) (ns : nat) (m : mapper) (sym : option str) (create : bool) (nl : pdict str),
  exists r o, gm_lookup_taxon_symbol lower (mo_of nl (mapper_set_ns m (ns_taxa_at (r_k s) ns))) (o_text sym) create = Ok (r, o)
    /\ ifc_mapper_lookup T lower s (Some (ns, m)) sym create
       = Ok (match r with Some i => Some (i, nth i (nso_taxa (mo_nso o)) []) | None => None end,
             Some (ns, mo_abs o), st_set_k T s (set_ns_taxa (r_k s) ns (nso_taxa (mo_nso o)))).
Proof.
  intros. eexists. eexists. split; [apply G_mapper_lookup_taxon_symbol|].
  unfold ifc_mapper_lookup. rewrite mo_abs_of. reflexivity.
Qed.
End Tie.

(* ================= 2. a statement parser over the compiled resolution ================= *)
Section Resolve.
Variable lower : str -> str.
Variable X : Type.
(* the tokenizer side of NewickReader._parse_tree_statement: the leaf symbols of the next tree statement in document
   order and everything else of the tree (X); None = no further tree.  An arbitrary function. *)
Variable scan : tz -> res (option (list str * X) * tz).

(* taxon_symbol_map_fn = <mapper>.require_taxon_for_symbol AS COMPILED, called once per leaf symbol, in order *)
Fixpoint g_resolve (o : mobj) (syms : list str) : res (list nat * mobj) :=
  match syms with
  | [] => Ok ([], o)
  | x :: r =>
    do a <- gm_require_taxon_for_symbol lower o x ;;
    match fst a with
    | None => Err AttrErr                 (* <None>.<attribute>: require_taxon_for_symbol returns a Taxon *)
    | Some t => do b <- g_resolve (snd a) r ;; Ok (t :: fst b, snd b)
    end
  end.
(* the same over the model's mapper *)
Fixpoint m_resolve (m : mapper) (syms : list str) : list nat * mapper :=
  match syms with
  | [] => ([], m)
  | x :: r => let a := require_taxon_for_symbol lower m x in
              let b := m_resolve (snd a) r in (fst a :: fst b, snd b)
  end.

Lemma g_resolve_eq : forall syms nl m,
  g_resolve (mo_of nl m) syms = Ok (fst (m_resolve m syms), mo_of nl (snd (m_resolve m syms))).
Proof.
  induction syms as [|x r IH]; intros nl m; [reflexivity|].
  cbn [g_resolve m_resolve]. rewrite G_mapper_require_taxon_for_symbol. cbn [bind fst snd].
  rewrite IH. reflexivity.
Qed.

(* a tree = what the tokenizer side made of it, and for every leaf (symbol, taxon it was resolved to) *)
Definition leaf_tree : Type := (X * list (str * nat))%type.
Definition g_parse_tree (m : mapper) (z : tz) : res (option leaf_tree * mapper * tz) :=
  do r <- scan z ;;
  match fst r with
  | None => Ok (None, m, snd r)
  | Some (syms, x) =>
    do a <- g_resolve (mo_of [] m) syms ;;
    Ok (Some (x, combine syms (fst a)), mo_abs (snd a), snd r)
  end.

Lemma g_parse_tree_eq : forall m z,
  g_parse_tree m z
  = (do r <- scan z ;;
     match fst r with
     | None => Ok (None, m, snd r)
     | Some (syms, x) => Ok (Some (x, combine syms (fst (m_resolve m syms))), snd (m_resolve m syms), snd r)
     end).
Proof.
  intros. unfold g_parse_tree. destruct (scan z) as [[[[syms x]|] z']| |]; cbn [bind fst snd]; try reflexivity.
  rewrite g_resolve_eq. cbn [bind fst snd]. rewrite mo_abs_of. reflexivity.
Qed.

Hypothesis H_scan : forall z o z', scan z = Ok (o, z') -> exists pre, z_toks z = pre ++ z_toks z'.

Lemma g_parse_tree_consumes : forall m z ot m' z',
  g_parse_tree m z = Ok (ot, m', z') -> exists pre, z_toks z = pre ++ z_toks z'.
Proof.
  intros m z ot m' z' H. rewrite g_parse_tree_eq in H.
  destruct (scan z) as [[o z1]| |] eqn:E; cbn [bind fst snd] in H; try discriminate.
  apply H_scan in E. destruct o as [[syms x]|]; inversion H; subst; exact E.
Qed.

Variables upper : str -> str.
Variable set_label : leaf_tree -> option str -> leaf_tree.
Variable add_comments : leaf_tree -> list str -> leaf_tree.
Hypothesis H_upper : forall s, upper (upper s) = upper s.

(* every leaf symbol of every tree is resolved to the same taxon by the reader route and by the iterator route:
   TreeList.read (compiled entry point, read_tree_lists, _read, block loops, TRANSLATE / TAXLABELS statements) adds to
   the list exactly the trees - with their (symbol, taxon) leaves - that the compiled iterator hands out, and fails
   exactly when it fails, with the same error *)
Theorem R_leaf_symbols_same : forall (ns0 : list str) (d : doc) (tl0 : list leaf_tree),
  let Y := g_yield_items_from_stream leaf_tree lower upper g_parse_tree set_label add_comments (mkNsCfg true (FacFixed false)) false
             (doc_fuel d)
             (mkRs (core_init (mkNsCfg true (FacFixed false)) ns0 d) (regs_init (mkNsCfg true (FacFixed false))) [] []) tt in
  g_treelist_parse_and_create_from_stream leaf_tree (doc_fuel d) tt
    (route_reader_ns leaf_tree lower upper g_parse_tree set_label add_comments Nexus ns0) d None None tl0
  = match snd Y with
    | Ok _ => Ok (tl0 ++ fst Y, tt)
    | Err e => Err e
    | OutOfFuel => OutOfFuel
    end.
Proof.
  exact (G_routes_agree leaf_tree lower upper g_parse_tree set_label add_comments g_parse_tree_consumes H_upper).
Qed.

(* ... and, whichever namespace configuration and tree-list factory the route uses, the compiled reader and the compiled
   iterator leave EVERY namespace object with the same members in the same order (and the same leaves) *)
Theorem R_namespaces_same : forall (nc : nscfg) (tlf : tl_factory) (ns0 : list str) (d : doc),
  let Y := g_yield_items_from_stream leaf_tree lower upper g_parse_tree set_label add_comments nc false (doc_fuel d)
             (mkRs (core_init nc ns0 d) (regs_init nc) [] []) tt in
  let R := g_parse_nexus_stream leaf_tree lower upper g_parse_tree set_label add_comments nc tlf false (doc_fuel d)
             (nexus_init leaf_tree (mkCfg nc tlf) ns0 d) tt in
  match snd Y with
  | Ok (_, sy) =>
    exists s, R = Ok (tt, s) /\ k_nss (r_k s) = k_nss (r_k sy)
              /\ concat (map (fun t => map snd (snd t)) (match tlf with TLFixed => rs_list0 leaf_tree s
                                                                     | TLNew => concat (rs_blocks leaf_tree s) end))
                 = concat (map (fun t => map snd (snd t)) (fst Y))
  | Err e => R = Err e
  | OutOfFuel => R = OutOfFuel
  end.
Proof.
  intros nc tlf ns0 d Y R.
  pose proof (G_loops_agree leaf_tree lower upper g_parse_tree set_label add_comments g_parse_tree_consumes H_upper nc tlf ns0 d) as G.
  cbv zeta in G. subst Y R.
  destruct (snd (g_yield_items_from_stream leaf_tree lower upper g_parse_tree set_label add_comments nc false (doc_fuel d)
                   (mkRs (core_init nc ns0 d) (regs_init nc) [] []) tt)) as [[u sy]| |]; try exact G.
  destruct G as [s [E [K [_ L]]]]. exists s. split; [exact E|]. split; [rewrite K; reflexivity|].
  destruct tlf; rewrite L; reflexivity.
Qed.
End Resolve.

(* the hypotheses of section 2 are satisfiable: a scanner that reads one token as a one-leaf tree *)
Definition one_leaf_scan (z : tz) : res (option (list str * unit) * tz) :=
  do z1 <- next_token z ;;
  match z_cur z1 with Some t => Ok (Some ([t], tt), z1) | None => Ok (None, z1) end.
Lemma one_leaf_scan_consumes : forall z o z', one_leaf_scan z = Ok (o, z') -> exists pre, z_toks z = pre ++ z_toks z'.
Proof.
  intros z o z' H. unfold one_leaf_scan, next_token, fetch in H.
  destruct (z_toks z) as [|t r] eqn:E.
  - destruct (z_end z); cbn [bind] in H; [|discriminate].
    cbn in H. inversion H; subst. exists []. reflexivity.
  - cbn [bind] in H. cbn in H. inversion H; subst. exists [t]. reflexivity.
Qed.
