(* C03Gen: Tree.reorder and Tree.ladderize as generated = HeapOps.v. *)
From Coq Require Import ZArith List Bool Lia.
From DV Require Import Model.PyPrims Model.Tree Model.Heap Model.HeapOps Model.C15Prims Model.MutPrims Gen.Mutators
     Model.C03GenInst Proofs.C03Base Proofs.C03Abs Proofs.C03Trav Proofs.C03GenPrims Proofs.C03GenNode Proofs.C03GenMisc.
Import ListNotations.
Open Scope Z_scope.

(* list.sort(key=, reverse=): the primitive of the compiler is HeapOps.v's stable insertion sort *)
Lemma py_insert_sort_insert (key : Z -> Z) rv x l : C15Prims.py_insert key rv x l = sort_insert key rv x l.
Proof. induction l as [|y r IH]; simpl; [reflexivity|]. rewrite IH. reflexivity. Qed.

Lemma py_sort_by_sort_by (key : Z -> Z) rv l : py_sort_by key rv l = sort_by key rv l.
Proof.
  unfold sort_by. induction l as [|x r IH]; simpl; [reflexivity|]. rewrite IH. apply py_insert_sort_insert.
Qed.

Lemma sort_insert_ext (k1 k2 : Z -> Z) rv x l :
  (forall y, k1 y = k2 y) -> sort_insert k1 rv x l = sort_insert k2 rv x l.
Proof. intro H. induction l as [|y r IH]; simpl; [reflexivity|]. rewrite IH, !H. reflexivity. Qed.

Lemma sort_by_ext (k1 k2 : Z -> Z) rv l : (forall y, k1 y = k2 y) -> sort_by k1 rv l = sort_by k2 rv l.
Proof.
  intro H. unfold sort_by. induction l as [|x r IH]; simpl; [reflexivity|]. rewrite IH. apply sort_insert_ext. exact H.
Qed.

Lemma taxon_set_kids i v h j : taxon (set_kids i v h) j = taxon h j.
Proof.
  unfold taxon. rewrite get_set_kids. destruct (Z.eqb_spec j i); [subst; reflexivity|reflexivity].
Qed.

(* ---------------------------------------------------------------- reorder *)
Definition rank_of (ranks : list (Z * Z)) (x : Z) : Z := match zlookup x ranks with Some r => r | None => 0 end.

Theorem gen_reorder asc ranks h :
  to_hres (Tree_reorder HG asc (Tree_reorder__default_key HG (rank_of ranks)) h) = reorder asc ranks h.
Proof.
  unfold Tree_reorder, reorder, with_sub. hsimpm. cbv zeta.
  destruct (abs_at h (seed h)) as [t|]; [|reflexivity].
  set (key0 := fun nd => match taxon h nd with
                         | Some x => match zlookup x ranks with Some r => r | None => 0 end
                         | None => 0 end).
  assert (L : forall l s, (forall nd, taxon s nd = taxon h nd) ->
     mfor (fun nd (_ : unit) s0 =>
             MOk (LNext tt) (set_kids nd (py_sort_by (Tree_reorder__default_key HG (rank_of ranks) s0) (negb asc) (kids s0 nd)) s0))
          l tt s
     = MOk (LNext tt) (fold_left (fun h0 nd => set_kids nd (sort_by key0 (negb asc) (kids h0 nd)) h0) l s)).
  { induction l as [|nd r IH]; intros s Ht; [reflexivity|]. simpl mfor. simpl fold_left.
    rewrite py_sort_by_sort_by.
    rewrite (sort_by_ext (Tree_reorder__default_key HG (rank_of ranks) s) key0)
      by (intro y; unfold Tree_reorder__default_key, key0, rank_of; hsimpm; rewrite Ht; reflexivity).
    apply IH. intro x. rewrite taxon_set_kids. apply Ht. }
  rewrite L by reflexivity. reflexivity.
Qed.

(* ---------------------------------------------------------------- ladderize *)
(* the heap represents the rose tree u below its root: child lists agree, recursively *)
Fixpoint reads (s : heap) (u : tree) : Prop :=
  match u with
  | T i _ _ _ ks =>
    kids s i = map t_id ks /\
    (fix all (ks : list tree) : Prop := match ks with [] => True | k :: r => reads s k /\ all r end) ks
  end.

Fixpoint reads_all (s : heap) (ks : list tree) : Prop :=
  match ks with [] => True | k :: r => reads s k /\ reads_all s r end.

Lemma reads_eq s i x l e ks : reads s (T i x l e ks) <-> kids s i = map t_id ks /\ reads_all s ks.
Proof.
  simpl. assert (H : forall ks, (fix all (ks : list tree) : Prop :=
                                    match ks with [] => True | k :: r => reads s k /\ all r end) ks <-> reads_all s ks).
  { induction ks0 as [|k r IH]; simpl; [tauto|]. rewrite IH. tauto. }
  rewrite H. tauto.
Qed.

Lemma sub_reads : forall fuel h i t, sub fuel h i = Some t -> t_id t = i /\ reads h t.
Proof.
  induction fuel as [|n IH]; intros h i t H; [discriminate|]. simpl in H.
  assert (G : forall l ts,
     (fix go (l : list Z) : option (list tree) :=
        match l with
        | [] => Some []
        | k :: r => match sub n h k, go r with Some t, Some ts => Some (t :: ts) | _, _ => None end
        end) l = Some ts -> l = map t_id ts /\ reads_all h ts).
  { induction l as [|k r IHl]; intros ts E.
    - inversion E. split; [reflexivity|exact I].
    - destruct (sub n h k) as [tk|] eqn:Ek; [|discriminate].
      destruct ((fix go (l : list Z) : option (list tree) :=
                   match l with
                   | [] => Some []
                   | k :: r => match sub n h k, go r with Some t, Some ts => Some (t :: ts) | _, _ => None end
                   end) r) as [tr|] eqn:Er; [|discriminate].
      inversion E; subst ts. destruct (IH h k tk Ek) as [Hid Hr]. destruct (IHl tr eq_refl) as [Hl Ha].
      simpl. rewrite Hid, <- Hl. split; [reflexivity|split; assumption]. }
  destruct ((fix go (l : list Z) : option (list tree) :=
               match l with
               | [] => Some []
               | k :: r => match sub n h k, go r with Some t, Some ts => Some (t :: ts) | _, _ => None end
               end) (kids h i)) as [ks|] eqn:Ego; [|discriminate].
  inversion H; subst t. destruct (G _ _ Ego) as [Hk Ha]. split; [reflexivity|].
  apply reads_eq. split; assumption.
Qed.

Lemma map_flat_map_pre (ks : list tree) : map t_id (flat_map preorder ks) = flat_map pre_ids ks.
Proof. induction ks as [|k r IH]; simpl; [reflexivity|]. rewrite map_app, IH. reflexivity. Qed.

(* one step of HeapOps.ladderize *)
Definition lad_step (key : Z -> Z) (asc : bool) (h : heap) (nd : Z) : heap :=
  if is_internal h nd then set_kids nd (sort_by key (negb asc) (kids h nd)) h else h.

Lemma kids_lad_step key asc h nd x : x <> nd -> kids (lad_step key asc h nd) x = kids h x.
Proof.
  intro N. unfold lad_step. destruct (is_internal h nd); [|reflexivity].
  rewrite kids_set_kids. destruct (Z.eqb_spec x nd); [contradiction|reflexivity].
Qed.

Lemma kids_lad_fold key asc : forall l h x, ~ In x l -> kids (fold_left (lad_step key asc) l h) x = kids h x.
Proof.
  induction l as [|nd r IH]; intros h x N; [reflexivity|]. simpl.
  rewrite IH by (intro E; apply N; right; exact E).
  apply kids_lad_step. intro E. apply N. left. symmetry. exact E.
Qed.

Lemma map_flat_map_post (ks : list tree) : map t_id (flat_map postorder ks) = flat_map post_ids ks.
Proof. induction ks as [|k r IH]; simpl; [reflexivity|]. rewrite map_app, IH. reflexivity. Qed.

Lemma post_ids_eq i x l e ks : post_ids (T i x l e ks) = flat_map post_ids ks ++ [i].
Proof. unfold post_ids at 1. simpl. rewrite map_app, map_flat_map_post. reflexivity. Qed.

Lemma reads_frame key asc l : forall u h, (forall x, In x (post_ids u) -> ~ In x l) ->
  reads h u -> reads (fold_left (lad_step key asc) l h) u.
Proof.
  induction u as [i x0 l0 e ks IH] using tree_ind'. intros h D R.
  apply reads_eq in R. destruct R as [Rk Ra]. apply reads_eq. split.
  - rewrite kids_lad_fold; [exact Rk|]. apply D. rewrite post_ids_eq. apply in_or_app. right. left. reflexivity.
  - assert (Dk : forall k, In k ks -> forall x, In x (post_ids k) -> ~ In x l).
    { intros k Hk x Hx. apply D. rewrite post_ids_eq. apply in_or_app. left.
      apply in_flat_map. exists k. split; assumption. }
    clear Rk D. induction IH as [|k r Hk _ IHr]; [exact I|]. destruct Ra as [R1 R2]. split.
    + apply Hk; [apply Dk; left; reflexivity|exact R1].
    + apply IHr; [exact R2|]. intros k' Hk'. apply Dk. right. exact Hk'.
Qed.

Lemma reads_all_frame key asc l ks h : (forall x, In x (flat_map post_ids ks) -> ~ In x l) ->
  reads_all h ks -> reads_all (fold_left (lad_step key asc) l h) ks.
Proof.
  induction ks as [|k r IH]; intros D R; [exact I|]. destruct R as [R1 R2]. split.
  - apply reads_frame; [|exact R1]. intros x Hx. apply D. simpl. apply in_or_app. left. exact Hx.
  - apply IH; [|exact R2]. intros x Hx. apply D. simpl. apply in_or_app. right. exact Hx.
Qed.

(* ---- the dictionary of descendant counts ---- *)
Notation dget := (py_dict_get Z.eqb).
Definition dset (d : list (Z * Z)) (v : tree) : list (Z * Z) := py_dict_set Z.eqb (t_id v) (Z.of_nat (size v) - 1) d.
Definition dfold (l : list tree) (d : list (Z * Z)) : list (Z * Z) := fold_left dset l d.

Lemma dget_set_same k v (d : list (Z * Z)) : dget k (py_dict_set Z.eqb k v d) = Some v.
Proof.
  induction d as [|[k' v'] r IH]; simpl; [rewrite Z.eqb_refl; reflexivity|].
  destruct (Z.eqb k k') eqn:E; simpl; [rewrite Z.eqb_refl; reflexivity|]. rewrite E. exact IH.
Qed.

Lemma dget_set_other k k' v (d : list (Z * Z)) : k <> k' -> dget k (py_dict_set Z.eqb k' v d) = dget k d.
Proof.
  intro N. induction d as [|[k2 v2] r IH]; simpl.
  - destruct (Z.eqb_spec k k'); [contradiction|reflexivity].
  - destruct (Z.eqb_spec k' k2) as [->|N2]; simpl.
    + destruct (Z.eqb_spec k k2); [contradiction|reflexivity].
    + destruct (Z.eqb k k2); [reflexivity|exact IH].
Qed.

Lemma dfold_get_other : forall l d x, ~ In x (map t_id l) -> dget x (dfold l d) = dget x d.
Proof.
  induction l as [|v r IH]; intros d x N; [reflexivity|]. simpl. rewrite IH by (intro E; apply N; right; exact E).
  unfold dset. apply dget_set_other. intro E. apply N. left. symmetry. exact E.
Qed.

Lemma dfold_app a b d : dfold (a ++ b) d = dfold b (dfold a d).
Proof. unfold dfold. apply fold_left_app. Qed.

Lemma postorder_eq i x l e ks : postorder (T i x l e ks) = flat_map postorder ks ++ [T i x l e ks].
Proof. reflexivity. Qed.

Lemma dfold_get_root u d : dget (t_id u) (dfold (postorder u) d) = Some (Z.of_nat (size u) - 1).
Proof.
  destruct u as [i x l e ks]. rewrite postorder_eq, dfold_app. simpl dfold. unfold dset. apply dget_set_same.
Qed.

(* every child's count is in the dictionary after the children have been processed *)
Lemma children_get : forall ks d, NoDup (flat_map post_ids ks) ->
  forall k, In k ks -> dget (t_id k) (dfold (flat_map postorder ks) d) = Some (Z.of_nat (size k) - 1).
Proof.
  induction ks as [|k0 r IH]; intros d ND k Hk; [destruct Hk|].
  simpl flat_map in *. rewrite dfold_app.
  apply NoDup_app_iff in ND. destruct ND as [ND0 [NDr Dis]].
  destruct Hk as [->|Hk].
  - rewrite dfold_get_other; [apply dfold_get_root|].
    rewrite map_flat_map_post. intro E. apply (Dis (t_id k)); [|exact E].
    destruct k as [i x l e ks]. rewrite post_ids_eq. apply in_or_app. right. left. reflexivity.
  - apply IH; assumption.
Qed.

(* ---- what one iteration of the source's loop does ---- *)
Fixpoint sumget (l : list Z) (d : list (Z * Z)) (acc : Z) : option Z :=
  match l with
  | [] => Some acc
  | c :: r => match dget c d with Some v => sumget r d (acc + v) | None => None end
  end.

Definition lad_body (asc : bool) (nd : Z) (d : list (Z * Z)) (s : heap) : mres heap (lctl (list (Z * Z))) :=
  match kids s nd with
  | [] => MOk (LNext (py_dict_set Z.eqb nd 0 d)) s
  | _ =>
    match sumget (kids s nd) d 0 with
    | None => MErr KeyErr s
    | Some tot =>
      let d2 := py_dict_set Z.eqb nd (tot + py_len (kids s nd)) d in
      if py_dict_has_all Z.eqb (kids s nd) d2
      then MOk (LNext d2) (set_kids nd (py_sort_by (py_dict_key Z.eqb d2) (negb asc) (kids s nd)) s)
      else MErr KeyErr s
    end
  end.

Lemma sum_loop (d : list (Z * Z)) (s : heap) : forall l total,
  mfor (fun (child : Z) (total : Z) (s0 : heap) =>
          match py_dict_get Z.eqb child d with
          | Some dv_val4 => MOk (LNext (Z.add total dv_val4)) s0
          | None => MErr KeyErr s0
          end) l total s
  = match sumget l d total with Some t => MOk (LNext t) s | None => MErr KeyErr s end.
Proof.
  induction l as [|c r IH]; intro total; [reflexivity|]. simpl.
  destruct (py_dict_get Z.eqb c d); [apply IH|reflexivity].
Qed.

Lemma mfor_app {S X V} (body : X -> V -> S -> mres S (lctl V)) : forall a b v s,
  mfor body (a ++ b) v s =
  match mfor body a v s with
  | MOk (LNext v') s' => mfor body b v' s'
  | other => other
  end.
Proof.
  induction a as [|x r IH]; intros b v s; [reflexivity|]. simpl.
  destruct (body x v s) as [[v'|v'] s'|e s'|]; try reflexivity. apply IH.
Qed.

Lemma sumget_children : forall ks d acc,
  (forall k, In k ks -> dget (t_id k) d = Some (Z.of_nat (size k) - 1)) ->
  sumget (map t_id ks) d acc = Some (acc + Z.of_nat (sizes ks) - Z.of_nat (length ks)).
Proof.
  induction ks as [|k r IH]; intros d acc H.
  - simpl. f_equal. unfold sizes. simpl. lia.
  - simpl map. simpl sumget. rewrite (H k (or_introl eq_refl)).
    rewrite IH by (intros k' Hk'; apply H; right; exact Hk').
    f_equal. rewrite sizes_cons. simpl length. lia.
Qed.

Lemma sort_insert_ext_in (k1 k2 : Z -> Z) rv x l :
  (forall y, In y (x :: l) -> k1 y = k2 y) -> sort_insert k1 rv x l = sort_insert k2 rv x l.
Proof.
  intro H. induction l as [|y r IH]; simpl; [reflexivity|].
  rewrite (H x (or_introl eq_refl)), (H y (or_intror (or_introl eq_refl))).
  rewrite IH; [reflexivity|]. intros z [->|Hz]; apply H; [left; reflexivity|right; right; exact Hz].
Qed.

Lemma sort_insert_In (k : Z -> Z) rv x l y : In y (sort_insert k rv x l) -> In y (x :: l).
Proof.
  induction l as [|z r IH]; simpl; [tauto|].
  destruct (if rv then k z <=? k x else k x <=? k z); simpl; [tauto|].
  intros [->|H]; [tauto|]. apply IH in H. simpl in H. tauto.
Qed.

Lemma sort_by_In (k : Z -> Z) rv l y : In y (sort_by k rv l) -> In y l.
Proof.
  unfold sort_by. induction l as [|x r IH]; simpl; [tauto|]. intro H. apply sort_insert_In in H.
  destruct H as [->|H]; [left; reflexivity|right; apply IH; exact H].
Qed.

Lemma sort_by_ext_in (k1 k2 : Z -> Z) rv l : (forall y, In y l -> k1 y = k2 y) -> sort_by k1 rv l = sort_by k2 rv l.
Proof.
  intro H. unfold sort_by. induction l as [|x r IH]; simpl; [reflexivity|].
  rewrite IH by (intros y Hy; apply H; right; exact Hy).
  apply sort_insert_ext_in. intros y [->|Hy]; [apply H; left; reflexivity|].
  apply H. right. apply (sort_by_In k2 rv). exact Hy.
Qed.

(* ---- processing the post-order of a subtree ---- *)
Definition lad_ok (key : Z -> Z) (asc : bool) (u : tree) : Prop :=
  forall d s, reads s u -> NoDup (post_ids u) ->
    (forall v, In v (preorder u) -> key (t_id v) = Z.of_nat (size v) - 1) ->
    mfor (lad_body asc) (post_ids u) d s
    = MOk (LNext (dfold (postorder u) d)) (fold_left (lad_step key asc) (post_ids u) s).

Lemma lad_list key asc : forall ks, Forall (lad_ok key asc) ks ->
  forall d s, reads_all s ks -> NoDup (flat_map post_ids ks) ->
    (forall k v, In k ks -> In v (preorder k) -> key (t_id v) = Z.of_nat (size v) - 1) ->
    mfor (lad_body asc) (flat_map post_ids ks) d s
    = MOk (LNext (dfold (flat_map postorder ks) d)) (fold_left (lad_step key asc) (flat_map post_ids ks) s).
Proof.
  induction 1 as [|k r Hk _ IH]; intros d s R ND Hkey; [reflexivity|].
  simpl flat_map. destruct R as [R1 R2].
  apply NoDup_app_iff in ND. destruct ND as [ND0 [NDr Dis]].
  rewrite mfor_app, (Hk d s R1 ND0) by (intros v Hv; apply (Hkey k v); [left; reflexivity|exact Hv]).
  rewrite dfold_app, fold_left_app. apply IH.
  - apply reads_all_frame; [|exact R2]. intros x Hx Hin. exact (Dis x Hin Hx).
  - exact NDr.
  - intros k' v Hk' Hv. apply (Hkey k' v); [right; exact Hk'|exact Hv].
Qed.

Lemma lad_body_nonleaf asc nd d s : kids s nd <> [] ->
  lad_body asc nd d s =
  match sumget (kids s nd) d 0 with
  | None => MErr KeyErr s
  | Some tot =>
    let d2 := py_dict_set Z.eqb nd (tot + py_len (kids s nd)) d in
    if py_dict_has_all Z.eqb (kids s nd) d2
    then MOk (LNext d2) (set_kids nd (py_sort_by (py_dict_key Z.eqb d2) (negb asc) (kids s nd)) s)
    else MErr KeyErr s
  end.
Proof. intro N. unfold lad_body. destruct (kids s nd); [congruence|reflexivity]. Qed.

Lemma lad_step_nonleaf key asc h nd : kids h nd <> [] ->
  lad_step key asc h nd = set_kids nd (sort_by key (negb asc) (kids h nd)) h.
Proof. intro N. unfold lad_step, is_internal. destruct (kids h nd); [congruence|reflexivity]. Qed.

Lemma lad_step_leaf key asc h nd : kids h nd = [] -> lad_step key asc h nd = h.
Proof. intro N. unfold lad_step, is_internal. rewrite N. reflexivity. Qed.

Lemma lad_body_leaf asc nd d s : kids s nd = [] -> lad_body asc nd d s = MOk (LNext (py_dict_set Z.eqb nd 0 d)) s.
Proof. intro N. unfold lad_body. rewrite N. reflexivity. Qed.

Lemma lad_tree key asc : forall u, lad_ok key asc u.
Proof.
  induction u as [i x l e ks IH] using tree_ind'. intros d s R ND Hkey.
  apply reads_eq in R. destruct R as [Rk Ra].
  rewrite post_ids_eq in *. apply NoDup_app_iff in ND. destruct ND as [NDk [_ Dis]].
  rewrite mfor_app, (lad_list key asc ks IH d s Ra NDk).
  2:{ intros k v Hk Hv. apply Hkey. simpl. right. apply in_flat_map. exists k. split; assumption. }
  rewrite postorder_eq, dfold_app, fold_left_app.
  set (s1 := fold_left (lad_step key asc) (flat_map post_ids ks) s).
  set (d1 := dfold (flat_map postorder ks) d).
  assert (Hk1 : kids s1 i = map t_id ks).
  { unfold s1. rewrite kids_lad_fold; [exact Rk|]. intro Hin. apply (Dis i Hin). left. reflexivity. }
  assert (Hget : forall k, In k ks -> dget (t_id k) d1 = Some (Z.of_nat (size k) - 1))
    by (intros k Hk; apply children_get; assumption).
  simpl mfor. simpl fold_left. simpl dfold. unfold dset. simpl t_id.
  destruct (list_eq_dec Z.eq_dec (map t_id ks) []) as [E0|N0].
  - rewrite lad_body_leaf, lad_step_leaf by (rewrite Hk1; exact E0).
    destruct ks; [|discriminate].
    replace (Z.of_nat (size (T i x l e [])) - 1) with 0 by (simpl; lia). reflexivity.
  - rewrite lad_body_nonleaf, lad_step_nonleaf by (rewrite Hk1; exact N0). rewrite Hk1.
    rewrite (sumget_children ks d1 0 Hget). cbv zeta.
    assert (Htot : 0 + Z.of_nat (sizes ks) - Z.of_nat (length ks) + py_len (map t_id ks)
                   = Z.of_nat (size (T i x l e ks)) - 1).
    { unfold py_len. rewrite map_length, size_eq. lia. }
    rewrite Htot.
    assert (Hd2 : forall k, In k ks ->
                dget (t_id k) (py_dict_set Z.eqb i (Z.of_nat (size (T i x l e ks)) - 1) d1) = Some (Z.of_nat (size k) - 1)).
    { intros k Hk. rewrite dget_set_other; [apply Hget; exact Hk|].
      intro E. apply (Dis i); [|left; reflexivity]. rewrite <- E.
      apply in_flat_map. exists k. split; [exact Hk|]. destruct k as [j xj lj ej kj]. rewrite post_ids_eq.
      apply in_or_app. right. left. reflexivity. }
    replace (py_dict_has_all Z.eqb (map t_id ks) (py_dict_set Z.eqb i (Z.of_nat (size (T i x l e ks)) - 1) d1)) with true.
    2:{ symmetry. unfold py_dict_has_all. apply forallb_forall. intros y Hy. apply in_map_iff in Hy.
        destruct Hy as [k [<- Hk]]. rewrite (Hd2 k Hk). reflexivity. }
    rewrite py_sort_by_sort_by.
    rewrite (sort_by_ext_in _ key); [reflexivity|].
    intros y Hy. apply in_map_iff in Hy. destruct Hy as [k [<- Hk]].
    unfold py_dict_key. rewrite (Hd2 k Hk). symmetry. apply Hkey.
    simpl. right. apply in_flat_map. exists k. split; [exact Hk|]. destruct k; simpl; left; reflexivity.
Qed.

(* ---- the generated loop body is lad_body ---- *)
Lemma py_len_zero {A} (l : list A) : (py_len l =? 0) = match l with [] => true | _ => false end.
Proof. destruct l; [reflexivity|]. unfold py_len. simpl length. apply Z.eqb_neq. lia. Qed.

(* ---- HeapOps.v's descendant-count table ---- *)
Lemma zlookup_app k a b : zlookup k (a ++ b) = match zlookup k a with Some v => Some v | None => zlookup k b end.
Proof. induction a as [|[k' v] r IH]; simpl; [reflexivity|]. destruct (Z.eqb k k'); [reflexivity|exact IH]. Qed.

Lemma pre_ids_eq i x l e ks : pre_ids (T i x l e ks) = i :: flat_map pre_ids ks.
Proof. unfold pre_ids. simpl. rewrite map_flat_map_pre. reflexivity. Qed.

Lemma desc_counts_none : forall t k, ~ In k (pre_ids t) -> zlookup k (desc_counts t) = None.
Proof.
  induction t as [i x l e ks IH] using tree_ind'. intros k N. rewrite pre_ids_eq in N.
  simpl desc_counts. simpl zlookup. destruct (Z.eqb_spec k i) as [->|_]; [exfalso; apply N; left; reflexivity|].
  assert (N' : ~ In k (flat_map pre_ids ks)) by (intro E; apply N; right; exact E). clear N.
  induction IH as [|k0 r H0 _ IHr]; [reflexivity|]. simpl flat_map in *. rewrite zlookup_app.
  rewrite H0 by (intro E; apply N'; apply in_or_app; left; exact E).
  apply IHr. intro E. apply N'. apply in_or_app. right. exact E.
Qed.

Lemma desc_counts_lookup : forall t, NoDup (pre_ids t) ->
  forall v, In v (preorder t) -> zlookup (t_id v) (desc_counts t) = Some (Z.of_nat (size v) - 1).
Proof.
  induction t as [i x l e ks IH] using tree_ind'. intros ND v Hv. rewrite pre_ids_eq in ND.
  inversion ND as [|? ? Hni NDk]; subst. simpl in Hv. destruct Hv as [<-|Hv].
  - simpl desc_counts. simpl zlookup. simpl t_id. rewrite Z.eqb_refl. reflexivity.
  - assert (Hvi : t_id v <> i).
    { intro E. apply Hni. rewrite <- E, <- map_flat_map_pre. apply in_map. exact Hv. }
    simpl desc_counts. simpl zlookup. destruct (Z.eqb_spec (t_id v) i); [contradiction|].
    clear Hni ND Hvi n. induction IH as [|k0 r H0 _ IHr]; [destruct Hv|].
    simpl flat_map in *. rewrite zlookup_app. apply NoDup_app_iff in NDk. destruct NDk as [ND0 [NDr Dis]].
    apply in_app_or in Hv. destruct Hv as [Hv|Hv].
    + rewrite (H0 ND0 v Hv). reflexivity.
    + rewrite desc_counts_none; [apply IHr; assumption|].
      intro E. apply (Dis (t_id v) E). rewrite <- map_flat_map_pre. apply in_map. exact Hv.
Qed.

Lemma mfor_ext {S X V} (b1 b2 : X -> V -> S -> mres S (lctl V)) :
  (forall x v s, b1 x v s = b2 x v s) -> forall l v s, mfor b1 l v s = mfor b2 l v s.
Proof.
  intro H. induction l as [|x r IH]; intros v s; [reflexivity|]. simpl. rewrite H.
  destruct (b2 x v s) as [[v'|v'] s'|e s'|]; try reflexivity. apply IH.
Qed.

Theorem gen_ladderize asc h :
  (forall t, abs_at h (seed h) = Some t -> NoDup (pre_ids t)) ->
  to_hres (Tree_ladderize HG asc h) = ladderize asc h.
Proof.
  intro Hwf. unfold Tree_ladderize, ladderize, with_sub. hsimpm. cbv zeta.
  destruct (abs_at h (seed h)) as [t|] eqn:Eabs; [|reflexivity].
  specialize (Hwf t eq_refl).
  set (key := fun nd => match zlookup nd (desc_counts t) with Some c => c | None => 0 end).
  match goal with |- context [mfor ?b (post_ids t) [] h] =>
    rewrite (mfor_ext b (lad_body asc)) end.
  2:{ intros nd d s. unfold lad_body. rewrite py_len_zero, sum_loop.
      destruct (kids s nd) as [|c r] eqn:Ek; [reflexivity|].
      destruct (sumget (c :: r) d 0); [|reflexivity]. cbn beta iota. unfold lctl_val. rewrite Ek. reflexivity. }
  destruct (sub_reads _ _ _ _ Eabs) as [_ R].
  rewrite (lad_tree key asc t [] h R).
  - reflexivity.
  - eapply Permutation.Permutation_NoDup; [|exact Hwf]. symmetry. apply post_pre_ids_perm.
  - intros v Hv. unfold key. rewrite (desc_counts_lookup t Hwf v Hv). reflexivity.
Qed.

(* on C03's well-formed heaps *)
Corollary gen_ladderize_wf asc h : WF h -> to_hres (Tree_ladderize HG asc h) = ladderize asc h.
Proof.
  intros [t W]. apply gen_ladderize. intros t' E.
  pose proof (abs_WFt h t W) as A. unfold abs in A. rewrite A in E. inversion E; subst t'.
  destruct W as [[_ [ND _]] _]. exact ND.
Qed.
