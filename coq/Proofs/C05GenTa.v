(* C05: the generated TreeArray functions that return a tree (Gen/SplitDistTa.v) equal the hand
   model (Model/C05Model3.v); property theorems of the generated code *)
From Coq Require Import ZArith QArith Qabs Qreduction List Bool Lia Permutation String.
From DV Require Import Model.PyPrims Gen.BitFns Gen.Consts Model.C05Model Model.C05Spec Model.C05Model2
     Model.C05GenPrims Model.C05GenPrims2 Model.C05GenPrims3 Model.C05Model3 Gen.SplitDist Gen.SplitDistTa
     Proofs.C05Lists Proofs.C05Freq Proofs.C05Stats Proofs.C05Trees Proofs.C05GenDist Proofs.C05GenDist3
     Proofs.C05GenScores Proofs.C05GenSumm.
Import ListNotations.
Open Scope Z_scope.

(* ---------------------------------------------------------------- indices *)
Lemma py_index_nat {A} (l : list A) (i : nat) :
  py_index l (Z.of_nat i) = match nth_error l i with Some x => Ok x | None => Err IndexErr end.
Proof.
  unfold py_index, py_len. cbv zeta.
  destruct (Z.of_nat i <? 0) eqn:N; [apply Z.ltb_lt in N; lia|].
  destruct (nth_error l i) as [x|] eqn:E.
  - assert (L : (i < List.length l)%nat) by (apply nth_error_Some; congruence).
    replace ((Z.of_nat i <? 0) || (Z.of_nat (List.length l) <=? Z.of_nat i)) with false.
    + rewrite Nat2Z.id, E. reflexivity.
    + symmetry. apply orb_false_iff. split; [exact N|]. apply Z.leb_gt. lia.
  - apply nth_error_None in E.
    replace ((Z.of_nat i <? 0) || (Z.of_nat (List.length l) <=? Z.of_nat i)) with true; [reflexivity|].
    symmetry. apply orb_true_iff. right. apply Z.leb_le. lia.
Qed.

Lemma nth_error_nth_d {A} (l : list A) i d : (i < List.length l)%nat -> nth_error l i = Some (nth i l d).
Proof. revert i. induction l as [|x r IH]; intros [|i] L; simpl in *; try lia; [reflexivity|]. apply IH. lia. Qed.

(* ---------------------------------------------------------------- the summarisation wrappers *)
Definition sd_ok (d : sd) : Prop :=
  NoDup (keys (counts d)) /\ NoDup (keys (elens d)) /\ NoDup (keys (nages d)) /\ total d <> 0.

Lemma conv_is_conv_out : conv = conv_out.
Proof. reflexivity. Qed.

Theorem gen_sd_summarize_splits_on_tree_eq c x t b o :
  gen_sd_summarize_splits_on_tree c x t b o = gen_summarize_splits_on_tree c o x t b.
Proof.
  unfold gen_sd_summarize_splits_on_tree.
  destruct (gen_summarize_splits_on_tree c o x t b) as [[x' l]| |]; reflexivity.
Qed.

Theorem ta_sd_summarize_eq c a all t o :
  sd_ok (ta_sd a) ->
  ta_sd_summarize_splits_on_tree c a all t o = summarize_target fsb_bipartition_passes_is_rooted a all o t.
Proof.
  intros (N1 & N2 & N3 & T).
  unfold ta_sd_summarize_splits_on_tree, summarize_target. rewrite gen_sd_summarize_splits_on_tree_eq.
  set (x := mkSdx (ta_sd a) None None 0).
  set (tg := py_rtree_target fsb_bipartition_passes_is_rooted all (mt_tree t)).
  pose proof (gen_summarize_splits_on_tree_eq c o x tg true N1 N2 N3) as H.
  assert (NE : x_counted_for_summ x <> total (x_sd x)) by (simpl; congruence).
  specialize (H NE). change (x_sd x) with (ta_sd a) in H.
  destruct (summarize_tree (ta_sd a) o tg) as [d' r]. cbn [fst snd] in H.
  destruct r as [outs|e|].
  - destruct H as [x' [G S]]. rewrite G. simpl. rewrite S. reflexivity.
  - rewrite H. reflexivity.
  - contradiction.
Qed.

(* ---------------------------------------------------------------- restore_tree *)
Theorem gen_restore_tree_eq c a all bits i b o :
  sd_ok (ta_sd a) ->
  gen_restore_tree c a all bits (Some (Z.of_nat i)) b o
  = restore_tree fsb_bipartition_passes_is_rooted c a all bits i b o.
Proof.
  intro OK. unfold gen_restore_tree, restore_tree, ta_restore_rt, py_index_opt, c_ignore_edge_lengths.
  rewrite !py_index_nat.
  destruct (nth_error (ta_splits a) i) as [ss|]; [|reflexivity]. simpl.
  destruct (ignore_len c); simpl.
  - destruct (py_from_split_bitmasks_el all bits (ta_rooting a) ss None) as [rt|e|]; simpl; try reflexivity.
    destruct b; simpl; [|reflexivity].
    rewrite (ta_sd_summarize_eq c a all (py_mt_new rt) o OK).
    destruct (summarize_target _ a all o (py_mt_new rt)) as [[a' t']|e|]; reflexivity.
  - destruct (nth_error (ta_elens a) i) as [el|]; [|reflexivity]. simpl.
    destruct (py_from_split_bitmasks_el all bits (ta_rooting a) ss (Some (py_dict_zip ss el))) as [rt|e|]; simpl; try reflexivity.
    destruct b; simpl; [|reflexivity].
    rewrite (ta_sd_summarize_eq c a all (py_mt_new rt) o OK).
    destruct (summarize_target _ a all o (py_mt_new rt)) as [[a' t']|e|]; reflexivity.
Qed.

(* restore_tree(index=None): TypeError *)
Theorem gen_restore_tree_none c a all bits b o : gen_restore_tree c a all bits None b o = Err TypeErr.
Proof. reflexivity. Qed.

(* the clades of a restored tree are the hand model's ta_restore (mcc_topology applies) *)
Theorem restored_clades c a all bits i rt :
  ta_restore_rt c a all bits i = Ok rt ->
  rt_clades rt = ta_restore a all i /\ rt_rooting rt = ta_rooting a /\
  rt_tree rt = fsb_tree all bits (truthy (ta_rooting a)) (nth i (ta_splits a) []).
Proof.
  unfold ta_restore_rt, ta_restore. intro H.
  destruct (nth_error (ta_splits a) i) as [ss|] eqn:E; [|discriminate].
  assert (N : nth i (ta_splits a) [] = ss).
  { assert (L : (i < List.length (ta_splits a))%nat) by (apply nth_error_Some; congruence).
    rewrite (nth_error_nth_d _ _ [] L) in E. congruence. }
  rewrite N.
  assert (G : forall sel, py_from_split_bitmasks_el all bits (ta_rooting a) ss sel = Ok rt ->
                          rt_clades rt = greedy all [] (fsb_prepare all (truthy (ta_rooting a)) ss) /\
                          rt_rooting rt = ta_rooting a /\
                          rt_tree rt = fsb_tree all bits (truthy (ta_rooting a)) ss).
  { intros sel G. unfold py_from_split_bitmasks_el, py_from_split_bitmasks in G.
    destruct (lens_ok sel _); inversion G. simpl. repeat split. }
  destruct (ignore_len c); [now apply (G None)|].
  destruct (nth_error (ta_elens a) i) as [el|]; [|discriminate]. now apply (G (Some (py_dict_zip ss el))).
Qed.

(* ---------------------------------------------------------------- maximum_*_of_split_support_tree *)
Lemma get_freqs_keeps d :
  counts (fst (get_freqs d)) = counts d /\ elens (fst (get_freqs d)) = elens d /\
  nages (fst (get_freqs d)) = nages d /\ total (fst (get_freqs d)) = total d.
Proof.
  unfold get_freqs, calc_freqs. destruct (freqs d); [destruct (negb _)|]; simpl; repeat split.
Qed.

Lemma get_freqs_idem d : get_freqs (fst (get_freqs d)) = (fst (get_freqs d), snd (get_freqs d)).
Proof.
  unfold get_freqs, calc_freqs.
  destruct (freqs d) as [tbl|] eqn:F.
  - destruct (counted_for_freqs d =? total d) eqn:E; simpl.
    + rewrite F, E. reflexivity.
    + rewrite Z.eqb_refl. reflexivity.
  - simpl. rewrite Z.eqb_refl. reflexivity.
Qed.

Lemma summarize_tree_after_get d o t :
  snd (summarize_tree (fst (get_freqs d)) o t) = snd (summarize_tree d o t).
Proof.
  unfold summarize_tree. destruct (get_freqs_keeps d) as (_ & E2 & E3 & _). rewrite E2, E3, get_freqs_idem.
  destruct (get_freqs d) as [d1 ftbl]. reflexivity.
Qed.

Lemma sd_ok_get d : sd_ok d -> sd_ok (fst (get_freqs d)).
Proof.
  destruct (get_freqs_keeps d) as (E1 & E2 & E3 & E4). unfold sd_ok. now rewrite E1, E2, E3, E4.
Qed.

Lemma ta_scores_fst product a ext : fst (ta_scores product a ext) = with_sd a (fst (get_freqs (ta_sd a))).
Proof. unfold ta_scores. destruct (get_freqs (ta_sd a)). reflexivity. Qed.

Section Mcc.
  Variables (c : config) (a : ta) (all : Z) (bits : list Z) (ext summ : bool) (o : sopts).
  Hypothesis OK : sd_ok (ta_sd a).

  Lemma mcc_common (product : bool) (g : config -> ta -> bool -> ta * (list Q * option Z)) :
    g c a ext = (fst (ta_scores product a ext), (fst (snd (ta_scores product a ext)),
                                                  option_map Z.of_nat (snd (snd (ta_scores product a ext))))) ->
    (let '(self, (scores, max_score_tree_idx)) := g c a ext in
     py_bind (gen_restore_tree c self all bits max_score_tree_idx false o) (fun '(self, tree) =>
     py_bind (py_index_opt scores max_score_tree_idx) (fun sc =>
     let tree := py_mt_set_score tree sc in
     py_bind (if summ
              then py_bind (ta_sd_summarize_splits_on_tree c self all tree o) (fun '(self, tree) => Ok (self, tree))
              else Ok (self, tree)) (fun '(self, tree) => Ok (self, tree)))))
    = mcc_tree fsb_bipartition_passes_is_rooted product c a all bits ext summ o.
  Proof.
    intro G. rewrite G. unfold mcc_tree.
    pose proof (ta_scores_fst product a ext) as F.
    destruct (ta_scores product a ext) as [a1 [sc idx]] eqn:TS. cbn [fst snd] in *. subst a1.
    set (a1 := with_sd a (fst (get_freqs (ta_sd a)))).
    assert (OK1 : sd_ok (ta_sd a1)) by (apply sd_ok_get; exact OK).
    destruct idx as [i|]; simpl; [|reflexivity].
    assert (AF : argmax_first sc = Some i).
    { unfold ta_scores in TS. destruct (get_freqs (ta_sd a)) as [d' ftbl]. inversion TS. reflexivity. }
    destruct (argmax_first_spec_l sc i AF) as [L _].
    rewrite (gen_restore_tree_eq c a1 all bits i false o OK1). unfold restore_tree.
    destruct (ta_restore_rt c a1 all bits i) as [rt|e|]; simpl; try reflexivity.
    rewrite py_index_nat, (nth_error_nth_d sc i 0%Q L). simpl.
    destruct summ; simpl; [|reflexivity].
    rewrite (ta_sd_summarize_eq c a1 all _ o OK1).
    unfold py_mt_set_score, py_mt_new. simpl.
    destruct (summarize_target _ a1 all o _) as [[a' t']|e|]; reflexivity.
  Qed.

  Theorem gen_maximum_product_of_split_support_tree_eq :
    gen_maximum_product_of_split_support_tree c a all bits ext summ o
    = mcc_tree fsb_bipartition_passes_is_rooted true c a all bits ext summ o.
  Proof.
    destruct OK as [ND _]. unfold gen_maximum_product_of_split_support_tree.
    exact (mcc_common true gen_calculate_log_product_of_split_supports
                      (gen_calculate_log_product_of_split_supports_eq c a ext ND)).
  Qed.

  Theorem gen_maximum_sum_of_split_support_tree_eq :
    gen_maximum_sum_of_split_support_tree c a all bits ext summ o
    = mcc_tree fsb_bipartition_passes_is_rooted false c a all bits ext summ o.
  Proof.
    destruct OK as [ND _]. unfold gen_maximum_sum_of_split_support_tree.
    exact (mcc_common false gen_calculate_sum_of_split_supports
                      (gen_calculate_sum_of_split_supports_eq c a ext ND)).
  Qed.
End Mcc.

(* ---------------------------------------------------------------- the property, of the generated code:
   the returned tree is the restored tree of the FIRST index attaining the maximum of the score
   list the array reports, carries that score, and has that tree's clades *)
Theorem gen_mcc_tree_is_argmax_l (product : bool) c a all bits ext summ o a' t :
  sd_ok (ta_sd a) ->
  (if product then gen_maximum_product_of_split_support_tree c a all bits ext summ o
   else gen_maximum_sum_of_split_support_tree c a all bits ext summ o) = Ok (a', t) ->
  let scores := fst (snd (if product then gen_calculate_log_product_of_split_supports c a ext
                          else gen_calculate_sum_of_split_supports c a ext)) in
  exists i : nat,
    (i < List.length scores)%nat /\
    (forall k, (k < List.length scores)%nat -> (nth k scores 0%Q <= nth i scores 0%Q)%Q) /\
    (forall k, (k < i)%nat -> (nth k scores 0%Q < nth i scores 0%Q)%Q) /\
    mt_score t = Some (nth i scores 0%Q) /\
    rt_clades (mt_tree t) = ta_restore a all i /\
    rt_tree (mt_tree t) = fsb_tree all bits (truthy (ta_rooting a)) (nth i (ta_splits a) []) /\
    rt_rooting (mt_tree t) = ta_rooting a /\
    (summ = false -> mt_nodes t = None /\ ta_sd a' = fst (get_freqs (ta_sd a))).
Proof.
  intros OK H.
  assert (M : mcc_tree fsb_bipartition_passes_is_rooted product c a all bits ext summ o = Ok (a', t)).
  { destruct product; [rewrite <- gen_maximum_product_of_split_support_tree_eq by exact OK
                      | rewrite <- gen_maximum_sum_of_split_support_tree_eq by exact OK]; exact H. }
  clear H.
  assert (SC : (if product then gen_calculate_log_product_of_split_supports c a ext
                else gen_calculate_sum_of_split_supports c a ext)
               = (fst (ta_scores product a ext), (fst (snd (ta_scores product a ext)),
                                                  option_map Z.of_nat (snd (snd (ta_scores product a ext)))))).
  { destruct OK as [ND _]. destruct product;
      [apply gen_calculate_log_product_of_split_supports_eq | apply gen_calculate_sum_of_split_supports_eq]; exact ND. }
  rewrite SC. cbn [fst snd]. clear SC.
  unfold mcc_tree in M. pose proof (ta_scores_fst product a ext) as F.
  destruct (ta_scores product a ext) as [a1 [sc idx]] eqn:TS. cbn [fst snd] in *. subst a1.
  destruct idx as [i|]; [|discriminate].
  assert (AF : argmax_first sc = Some i).
  { unfold ta_scores in TS. destruct (get_freqs (ta_sd a)) as [d' ftbl]. inversion TS. reflexivity. }
  destruct (argmax_first_spec_l sc i AF) as [L [Mx Fi]].
  exists i. split; [exact L|]. split; [exact Mx|]. split; [exact Fi|].
  destruct (ta_restore_rt c (with_sd a (fst (get_freqs (ta_sd a)))) all bits i) as [rt|e|] eqn:R; try discriminate.
  destruct (restored_clades c _ all bits i rt R) as [C1 [C2 C3]]. simpl in C2, C3.
  assert (C1' : rt_clades rt = ta_restore a all i) by exact C1.
  destruct summ.
  - unfold summarize_target in M. simpl in M.
    destruct (summarize_tree _ o _) as [d' r]. destruct r as [outs|e|]; try discriminate.
    inversion M. subst. simpl. repeat split; try assumption; try discriminate.
  - inversion M. subst. simpl. repeat split; assumption.
Qed.

Lemma forall2_conv_out (P : stree -> Q -> Prop) (T : stree -> node_out -> Prop) (l : list stree) outs :
  Forall2 (fun node out => n_split out = sn_split node /\ P node (n_support out) /\ T node out) l outs ->
  Forall2 (fun node v => nv_split v = sn_split node /\ exists q, nv_support v = Some q /\ P node q) l (map conv_out outs).
Proof.
  induction 1 as [|node out l l' [H1 [H2 _]] F IH]; simpl; constructor; [|exact IH].
  split; [exact H1|]. exists (n_support out). split; [reflexivity | exact H2].
Qed.

(* ---------------------------------------------------------------- support annotations of the returned tree *)
(* every node of the returned tree carries the frequency (x100 under support_as_percentages) of
   the split bitmask its edge's Bipartition holds *)
Theorem gen_mcc_tree_support_l (product : bool) c ts a all bits ext o a' t nodes :
  ta_sd a = count_trees c sd_empty ts ->
  (forall t0, In t0 ts -> NoDup (splits_of t0)) ->
  ignore_len c = false -> ignore_ages c = false ->
  sd_ok (ta_sd a) ->
  (if product then gen_maximum_product_of_split_support_tree c a all bits ext true o
   else gen_maximum_sum_of_split_support_tree c a all bits ext true o) = Ok (a', t) ->
  mt_nodes t = Some nodes ->
  Forall2 (fun node v =>
             nv_split v = sn_split node /\
             exists q, nv_support v = Some q /\
                       (q == (if o_percent o then 100 else 1) * exact_freq c ts (sn_split node))%Q)
          (st_preorder (py_rtree_target fsb_bipartition_passes_is_rooted all (mt_tree t))) nodes.
Proof.
  intros CT ND IL IA OK H MN.
  assert (M : mcc_tree fsb_bipartition_passes_is_rooted product c a all bits ext true o = Ok (a', t)).
  { destruct product; [rewrite <- gen_maximum_product_of_split_support_tree_eq by exact OK
                      | rewrite <- gen_maximum_sum_of_split_support_tree_eq by exact OK]; exact H. }
  clear H. unfold mcc_tree in M. pose proof (ta_scores_fst product a ext) as F.
  destruct (ta_scores product a ext) as [a1 [sc idx]] eqn:TS. cbn [fst snd] in *. subst a1.
  destruct idx as [i|]; [|discriminate].
  set (a1 := with_sd a (fst (get_freqs (ta_sd a)))) in *.
  destruct (ta_restore_rt c a1 all bits i) as [rt|e|]; try discriminate.
  unfold summarize_target in M. cbn [mt_tree mt_score] in M.
  set (tg := py_rtree_target fsb_bipartition_passes_is_rooted all rt) in *.
  pose proof (summarize_tree_after_get (ta_sd a) o tg) as SG.
  change (fst (get_freqs (ta_sd a))) with (ta_sd a1) in SG.
  destruct (summarize_tree (ta_sd a1) o tg) as [d' r] eqn:ST. destruct r as [outs|e|]; try discriminate.
  inversion M. subst a' t. simpl in MN. inversion MN. subst nodes. clear M MN.
  destruct (summarize_tree (ta_sd a) o tg) as [d2 r2] eqn:S2. cbn [snd] in SG. subst r2.
  rewrite CT in S2. pose proof (support_is_freq_l c ts o tg d2 outs ND S2) as F.
  exact (forall2_conv_out (fun node q => (q == (if o_percent o then 100 else 1) * exact_freq c ts (sn_split node))%Q) _ _ _ F).
Qed.

(* ---------------------------------------------------------------- TreeArray.consensus_tree *)
Theorem gen_ta_consensus_tree_eq c a all bits mf b (o : sopts) :
  NoDup (keys (counts (ta_sd a))) ->
  (forall tbl, freqs (ta_sd a) = Some tbl -> NoDup (keys tbl)) ->
  gen_ta_consensus_tree c a all bits mf b o = Ok (ta_consensus a all bits mf).
Proof.
  intros ND NDt. unfold gen_ta_consensus_tree, ta_sd_consensus_tree, ta_consensus.
  destruct (gen_consensus_tree_eq c (mkSdx (ta_sd a) None None 0) all bits mf (ta_rooting a) b ND NDt) as [E1 E2].
  destruct (gen_consensus_tree c (mkSdx (ta_sd a) None None 0) all bits mf (ta_rooting a) b) as [x r].
  cbn [fst snd] in *. rewrite E1, E2. reflexivity.
Qed.
