(* C03, wave 9: op_error_frame for the Tree-level operations.
   Model/Heap.v: HErr e h' = the exception e was raised and h' is the heap AT THE MOMENT OF THE RAISE.
   For a well-formed heap and arguments in the operation's domain (covered_v: live nodes) this file proves
   that an error outcome of  reseed_at, reroot_at_node, reroot_at_edge, reroot_at_midpoint,
   to_outgroup_position (old and repaired form), prune_subtree, set_child_nodes  leaves the heap it met, and that
   an error outcome of the pruning loops  filter_leaf_nodes, prune_leaves_without_taxa, prune_nodes, prune_taxa,
   retain_taxa  leaves one of an explicitly computed list of partial states (err_states o h: the states BEFORE
   an iteration of one of the operation's removal loops - an exception inside Node.remove_child is raised before
   anything is written), every one of which is well formed. *)
From Coq Require Import ZArith List Bool Lia Permutation.
From DV Require Import Model.PyPrims Model.Tree Model.Heap Model.HeapOps Model.C03Spec
  Proofs.C03Base Proofs.C03Abs Proofs.C03Local Proofs.C03Prims Proofs.C03Collapse Proofs.C03Suppress
  Proofs.C03Reseed Proofs.C03Order Proofs.C03Ops Proofs.C03Ops2 Proofs.C03Unweighted Proofs.C03PruneLoops
  Proofs.C03SpecLinks Proofs.C03Hist Proofs.C03More Proofs.C03More2 Proofs.C03SetKids Proofs.C03More3
  Proofs.C03RemoveSu Proofs.C03Resolve Proofs.C03Midpoint Proofs.C03Hist2 Proofs.C03Outgroup Proofs.C03Variants
  Proofs.C03ErrFrame Proofs.C03Thms.
Import ListNotations.
Open Scope Z_scope.

(* ---------- the enumeration ---------- *)

(* "for x in l: f x": the states met at the head of each iteration that is reached *)
Fixpoint prefix_states (f : Z -> heap -> hres) (l : list Z) (h : heap) : list heap :=
  match l with
  | [] => []
  | x :: r => h :: match f x h with HOk h1 => prefix_states f r h1 | _ => [] end
  end.

(* the leaf-pruning loop (HeapOps.leaf_prune_loop): the iteration heads of every round that is reached *)
Fixpoint loop_states (fuel : nat) (bad : heap -> Z -> bool) (ne : err) (recursive : bool) (h : heap) : list heap :=
  match fuel with
  | O => []
  | S n =>
    match abs_at h (seed h) with
    | None => []
    | Some t =>
      let rm := filter (bad h) (leaf_ids t) in
      prefix_states (remove_from_parent ne) rm h ++
      match hfold (remove_from_parent ne) rm h, rm with
      | HOk h1, _ :: _ => if recursive then loop_states n bad ne recursive h1 else []
      | _, _ => []
      end
    end
  end.

Definition plwt_states (recursive : bool) (h : heap) : list heap :=
  loop_states (fuel_of h) (fun h nd => match taxon h nd with None => true | Some _ => false end) AttrErr recursive h.

(* body of the first loop of prune_taxa *)
Definition pt_step (taxa : list Z) (ol oi : bool) (nd : Z) (h : heap) : hres :=
  if ((oi && is_internal h nd) || (ol && negb (is_internal h nd)))
     && (match taxon h nd with Some x => memz x taxa | None => false end)
  then remove_from_parent AttrErr nd h else HOk h.

Definition prune_taxa_states (taxa : list Z) (ol oi : bool) (h : heap) : list heap :=
  match abs_at h (seed h) with
  | None => []
  | Some t =>
    prefix_states (pt_step taxa ol oi) (post_ids t) h ++
    match hfold (pt_step taxa ol oi) (post_ids t) h with
    | HOk h1 => plwt_states true h1
    | _ => []
    end
  end.

(* the documented partial states of an operation, as a function of the operation and the heap it meets;
   [] = none: an error leaves the heap of the call *)
Definition err_states (o : op) (h : heap) : list heap :=
  match o with
  | OFilterLeafNodes keep rc _ _ => loop_states (fuel_of h) (fun _ nd => negb (memz nd keep)) OtherErr rc h
  | OPruneLeavesWithoutTaxa rc _ _ => plwt_states rc h
  | OPruneNodes nodes plwt _ _ =>
    prefix_states (remove_from_parent OtherErr) nodes h ++
    match hfold (remove_from_parent OtherErr) nodes h with
    | HOk h1 => if plwt then plwt_states true h1 else []
    | _ => []
    end
  | OPruneTaxa taxa _ _ ol oi => prune_taxa_states taxa ol oi h
  | ORetainTaxa ns taxa _ _ => prune_taxa_states (filter (fun x => negb (memz x taxa)) ns) true false h
  | _ => []
  end.

Definition tree_level_op (o : op) : bool :=
  match o with
  | OReseedAt _ _ _ _ | OToOutgroup _ _ _ | ORerootAtNode _ _ _ _ | ORerootAtEdge _ _ _ _ _
  | ORerootAtMidpoint _ _ _ _ _ | OPruneSubtree _ _ _ | OSetChildNodes _ _
  | OFilterLeafNodes _ _ _ _ | OPruneLeavesWithoutTaxa _ _ _ | OPruneNodes _ _ _ _
  | OPruneTaxa _ _ _ _ _ | ORetainTaxa _ _ _ _ => true
  | _ => false
  end.

(* ---------- generic loop facts (no well-formedness needed) ---------- *)

Definition err_unchanged (f : Z -> heap -> hres) : Prop := forall x h e h', f x h = HErr e h' -> h' = h.

Lemma hfold_err_prefix f : err_unchanged f ->
  forall l h e h', hfold f l h = HErr e h' -> In h' (prefix_states f l h).
Proof.
  intros U. induction l as [|x r IH]; intros h e h' H; cbn [hfold] in H; [discriminate|].
  cbn [prefix_states]. destruct (f x h) as [h1|e1 h1|] eqn:E; cbn [hbind] in H.
  - right. eapply IH, H.
  - left. inversion H; subst. symmetry. eapply U, E.
  - discriminate.
Qed.

Lemma remove_from_parent_err ne : err_unchanged (remove_from_parent ne).
Proof.
  intros x h e h' H. unfold remove_from_parent in H. destruct (parent h x).
  - exact (proj1 (remove_child_plain_err _ _ _ _ _ H)).
  - inversion H; reflexivity.
Qed.

Lemma pt_step_err taxa ol oi : err_unchanged (pt_step taxa ol oi).
Proof.
  intros x h e h' H. unfold pt_step in H.
  destruct (((oi && is_internal h x) || (ol && negb (is_internal h x)))
            && (match taxon h x with Some y => memz y taxa | None => false end)).
  - exact (remove_from_parent_err AttrErr x h e h' H).
  - discriminate.
Qed.

Lemma leaf_prune_loop_err bad ne rec : forall fuel h e h',
  leaf_prune_loop fuel bad ne rec h = HErr e h' -> In h' (loop_states fuel bad ne rec h).
Proof.
  induction fuel as [|n IH]; intros h e h' H; cbn [leaf_prune_loop] in H; [discriminate|].
  cbn [loop_states]. unfold with_sub in H. destruct (abs_at h (seed h)) as [t|]; [|discriminate].
  cbv zeta in *. apply in_or_app.
  destruct (hfold (remove_from_parent ne) (filter (bad h) (leaf_ids t)) h) as [h1|e1 h1|] eqn:E; cbn [hbind] in H.
  - right. destruct (filter (bad h) (leaf_ids t)); [discriminate|]. destruct rec; [eapply IH, H|discriminate].
  - left. inversion H; subst. eapply hfold_err_prefix; [apply remove_from_parent_err|exact E].
  - discriminate.
Qed.

Lemma relabel_err_inv a b r e h' : relabel_err a b r = HErr e h' -> exists e0, r = HErr e0 h'.
Proof.
  destruct r as [h1|e1 h1|]; cbn [relabel_err]; try discriminate.
  destruct (err_eqb e1 a); intros H; inversion H; subst; eexists; reflexivity.
Qed.

Lemma guard_inv (g : bool) a b r e h' :
  (if g then relabel_err a b r else r) = HErr e h' -> exists e0, r = HErr e0 h'.
Proof. destruct g; [apply relabel_err_inv|intro H; exists e; exact H]. Qed.

(* ---------- the pruning loops on a well-formed heap ---------- *)

Lemma tail_no_err (ub su : bool) h1 e h' :
  WF h1 -> hbind (if su then suppress_unifurcations h1 else HOk h1) (ub_tail_su ub su) = HErr e h' -> False.
Proof.
  intros W H. destruct (tail_outcome ub su h1 (fun _ => False) (@nil err) W) as [[h2 [E _]]|[e2 [h2 [_ [[] _]]]]].
  rewrite E in H. discriminate.
Qed.

Lemma finishes_ok_state r (P : heap -> Prop) errs h1 : finishes r P errs -> r = HOk h1 -> P h1.
Proof. intros [[h2 [E Ph]]|[e2 [h2 [E _]]]] H; rewrite H in E; inversion E; subst; exact Ph. Qed.

Lemma leaf_loop_tail_err bad ne rec (ub su : bool) h e h' :
  WF h ->
  hbind (leaf_prune_loop (fuel_of h) bad ne rec h)
        (fun h1 => hbind (if su then suppress_unifurcations h1 else HOk h1) (fun h2 => ub_tail_su ub su h2)) = HErr e h' ->
  In h' (loop_states (fuel_of h) bad ne rec h).
Proof.
  intros [t W] H.
  destruct (leaf_prune_loop (fuel_of h) bad ne rec h) as [h1|e1 h1|] eqn:E; cbn [hbind] in H.
  - exfalso. eapply (tail_no_err ub su h1 e h'); [|exact H].
    eapply shrunk_WF. eapply finishes_ok_state; [apply (leaf_prune_loop_fuel_of bad ne rec h t W)|exact E].
  - inversion H; subst. eapply leaf_prune_loop_err, E.
  - discriminate.
Qed.

Lemma plwt_err rc ub su h e h' :
  WF h -> prune_leaves_without_taxa rc ub su h = HErr e h' -> In h' (plwt_states rc h).
Proof. intros W H. unfold prune_leaves_without_taxa in H. unfold plwt_states. eapply leaf_loop_tail_err; [exact W|exact H]. Qed.

Lemma filter_leaf_nodes_err keep rc ub su h e h' :
  WF h -> filter_leaf_nodes keep rc ub su h = HErr e h' ->
  In h' (err_states (OFilterLeafNodes keep rc ub su) h).
Proof. intros W H. unfold filter_leaf_nodes in H. cbn [err_states]. eapply leaf_loop_tail_err; [exact W|exact H]. Qed.

Lemma prune_nodes_mid nodes h h1 : WF h -> hfold (remove_from_parent OtherErr) nodes h = HOk h1 -> WF h1.
Proof.
  intros [t W] E. eapply shrunk_WF. eapply finishes_ok_state; [apply (hfold_remove_any OtherErr nodes h t W)|exact E].
Qed.

Lemma prune_nodes_err nodes plwt ub su h e h' :
  WF h -> prune_nodes nodes plwt ub su h = HErr e h' -> In h' (err_states (OPruneNodes nodes plwt ub su) h).
Proof.
  intros W H. unfold prune_nodes in H. cbn [err_states]. apply in_or_app.
  destruct (hfold (remove_from_parent OtherErr) nodes h) as [h1|e1 h1|] eqn:E; cbn [hbind] in H.
  - right. destruct plwt; [|discriminate]. eapply plwt_err; [|exact H]. eapply prune_nodes_mid; [exact W|exact E].
  - left. inversion H; subst. eapply hfold_err_prefix; [apply remove_from_parent_err|exact E].
  - discriminate.
Qed.

Lemma prune_taxa_err taxa ub su ol oi h e h' :
  WF h -> prune_taxa taxa ub su ol oi h = HErr e h' -> In h' (prune_taxa_states taxa ol oi h).
Proof.
  intros [t W] H. unfold prune_taxa, with_sub in H. unfold prune_taxa_states.
  destruct (abs_at h (seed h)) as [t0|] eqn:A; [|discriminate]. apply in_or_app.
  change (hbind (hfold (pt_step taxa ol oi) (post_ids t0) h) (fun h1 => prune_leaves_without_taxa true ub su h1) = HErr e h') in H.
  destruct (hfold (pt_step taxa ol oi) (post_ids t0) h) as [h1|e1 h1|] eqn:E; cbn [hbind] in H.
  - right. eapply plwt_err; [|exact H]. eapply shrunk_WF with (t := t).
    eapply finishes_ok_state; [|exact E].
    apply (hfold_shrinking (pt_step taxa ol oi) [AttrErr; ValueErr]); [|exact W].
    intros h0 t1 nd W0. unfold pt_step.
    destruct (((oi && is_internal h0 nd) || (ol && negb (is_internal h0 nd))) &&
              match taxon h0 nd with Some x => memz x taxa | None => false end).
    + apply remove_from_parent_any, W0.
    + left. exists h0. split; [reflexivity|apply shrunk_refl, W0].
  - left. inversion H; subst. eapply hfold_err_prefix; [apply pt_step_err|exact E].
  - discriminate.
Qed.

(* ---------- the re-rooting family, prune_subtree, set_child_nodes: an error leaves the heap of the call ---------- *)

Lemma covered_err_raises h o e h' : WF h -> covered h o -> run_op o h = HErr e h' -> raises h o e h'.
Proof.
  intros W C H. destruct (op_wf_l h o W C) as [h2 [_ [E|[e2 [E R]]]]]; rewrite H in E; [discriminate|].
  inversion E; subst. exact R.
Qed.

Lemma raises_unchanged h o e h' :
  raises h o e h' ->
  match o with
  | OPruneSubtree _ _ _ | ORerootAtEdge _ _ _ _ _ | OToOutgroup _ _ _ | OReseedAt _ _ _ _ | ORerootAtNode _ _ _ _ => h' = h
  | _ => True
  end.
Proof.
  destruct o; try (intros _; exact I); destruct e; cbn [raises]; try (intros []; fail); intros [_ E]; exact E.
Qed.

Lemma to_outgroup_r_err og ub su h e h' :
  WF h -> live h og -> to_outgroup_position_r og ub su h = HErr e h' ->
  h' = h /\ e = AssertErr /\ parent h og = None.
Proof.
  intros [t W] L H. pose proof (live_in h t og W L) as Hn.
  destruct (find_ctx t og Hn) as [c [s [-> Es]]]. subst og.
  destruct c as [|c' p x l e0 lft rgt].
  - unfold to_outgroup_position_r in H. destruct W as [[R N] S]. simpl in R.
    pose proof (rep_parent h None s R) as P. rewrite P in H. inversion H; subst. repeat split. exact P.
  - simpl plug in W. destruct (to_outgroup_r_ctx ub su h c' p x l e0 lft s rgt W) as [h2 [E _]].
    rewrite E in H. discriminate.
Qed.

Lemma raises_refusal h o e h' :
  WF h -> raises h o e h' ->
  match o with
  | OPruneSubtree _ _ _ | ORerootAtEdge _ _ _ _ _ | OToOutgroup _ _ _ | OReseedAt _ _ _ _ | ORerootAtNode _ _ _ _ =>
    refusal h o = Some e
  | _ => True
  end.
Proof.
  intros W R. destruct (wf_meaning_l h W) as [t [_ [_ [_ [P _]]]]].
  destruct o; try exact I; destruct e; cbn [raises] in R; try contradiction; destruct R as [-> _];
    cbn [refusal]; rewrite P; reflexivity.
Qed.

(* old form with suppression, on the arguments where it works (covered2.c2_to_outgroup_su): it completes *)
Lemma to_outgroup_su_err og ub h e h' :
  WF h -> live h og -> og <> seed h -> outgroup_su_ok h og ->
  to_outgroup_position og ub true h = HErr e h' -> False.
Proof.
  intros [t W] H H0 H1 HE. destruct (live_ctx h t og W H) as [c [s [-> Es]]]. subst og.
  pose proof W as [W0 S]. destruct H1 as [NU OKs].
  destruct c as [|c' p x l e0 lft rgt]; [apply H0; rewrite <- S; reflexivity|].
  simpl plug in *.
  destruct (to_outgroup_su_wf ub h c' p x l e0 lft s rgt W) as [h2 [E [W' _]]].
  - unfold not_unary. rewrite (kids_of_focus h (CNode c' p x l e0 lft rgt) s W0), map_length in NU. exact NU.
  - destruct c' as [|c2 i y m f a b]; [|left; discriminate]. right. intro E0.
    apply app_eq_nil in E0. destruct E0 as [-> ->]. simpl plug in *. simpl in S.
    destruct (wr_focus h CTop p x l e0 [s] W0) as [_ [Gp [Fk _]]]. pose proof (Forall_inv Fk) as Rs.
    apply OKs.
    + rewrite <- S. apply (rep_parent h (Some p) s Rs).
    + rewrite <- S. unfold kids. rewrite Gp. reflexivity.
  - rewrite E in HE. discriminate.
Qed.

Lemma set_child_nodes_err p l h e h' :
  WF h -> covered2 h (OSetChildNodes p l) -> set_child_nodes p l h = HErr e h' -> False.
Proof.
  intros W C HE. inversion C as [o C0| | | | |p0 l0 H H0|p0 l0 H| | | | | | | | | | | ]; subst.
  - inversion C0; subst; match goal with X : prune_leaf_op _ = Some _ |- _ => simpl in X; discriminate X end.
  - destruct W as [t W]. destruct (live_ctx h t p W H) as [c [s [-> Es]]].
    destruct s as [p' x lb e0 ks]. simpl in Es. subst p'. pose proof W as [W0 S].
    pose proof (kids_of_focus h c _ W0) as K. simpl in K.
    destruct (set_child_nodes_own h c p x lb e0 ks l W0) as [h2 [ks' [E _]]].
    { intros ci Hc. rewrite <- K. apply H0, Hc. }
    rewrite E in HE. discriminate.
  - destruct H as [c [x [lb [e0 [ks [todo [Wt [El [F [N [D B]]]]]]]]]]]. subst l. pose proof Wt as [W0 S].
    destruct (set_child_nodes_wf h c p x lb e0 ks todo W0 F N D B) as [h2 [E _]].
    rewrite E in HE. discriminate.
Qed.

(* coverage of the variant = coverage of the old form, except for to_outgroup_position *)
Lemma covered_v_2 v h o :
  covered_v v h o -> (forall og ub su, o <> OToOutgroup og ub su) ->
  (forall pick perms ub, o <> ORandomlyReorient pick perms ub) -> covered2 h o.
Proof.
  unfold covered_v. intros C N1 N2. destruct (v_outgroup_first v); [|exact C].
  destruct o; try exact C; exfalso; [eapply N1|eapply N2]; reflexivity.
Qed.

Lemma covered2_old h o :
  covered2 h o ->
  match o with
  | OReseedAt _ _ _ _ | ORerootAtNode _ _ _ _ | ORerootAtEdge _ _ _ _ _ | OPruneSubtree _ _ _ => covered h o
  | _ => True
  end.
Proof.
  intros C. destruct o; try exact I; inversion C as [o C0| | | | | | | | | | | | | | | | | ]; subst; exact C0.
Qed.

(* ---------- the theorems ---------- *)

Definition reroot_op (o : op) : bool :=
  match o with
  | OReseedAt _ _ _ _ | OToOutgroup _ _ _ | ORerootAtNode _ _ _ _ | ORerootAtEdge _ _ _ _ _ | OPruneSubtree _ _ _ => true
  | _ => false
  end.

(* re-seeding / re-rooting / prune_subtree: the only error is the entry refusal (ErrFrame.refusal: the seed as
   outgroup, the seed's edge, pruning the seed), with the heap of the call; reseed_at and reroot_at_node never raise *)
Theorem reroot_error_is_refusal_l v h o e h' :
  WF h -> covered_v v h o -> reroot_op o = true ->
  run_op_v v o h = HErr e h' -> h' = h /\ refusal h o = Some e.
Proof.
  intros W C T H.
  assert (OLD : covered h o -> run_op o h = HErr e h' -> h' = h /\ refusal h o = Some e).
  { intros C0 H0. pose proof (covered_err_raises h o e h' W C0 H0) as R.
    pose proof (raises_unchanged h o e h' R) as U. pose proof (raises_refusal h o e h' W R) as F.
    destruct o; cbn [reroot_op] in T; try discriminate; split; assumption. }
  destruct o; cbn [reroot_op] in T; try discriminate; cbn [run_op_v] in H.
  - apply OLD; [|exact H]. apply (covered2_old h (OReseedAt n ub cb su)).
    apply (covered_v_2 v); [exact C|discriminate|discriminate].
  - unfold covered_v in C. destruct (v_outgroup_first v).
    + cbn [covered3] in C. destruct (to_outgroup_r_err og ub su h e h' W C H) as (-> & -> & P).
      split; [reflexivity|]. cbn [refusal]. rewrite P. reflexivity.
    + inversion C as [o C0| | | | | | | | | |og0 ub0 L D OK| | | | | | | ]; subst.
      * apply OLD; [exact C0|exact H].
      * exfalso. cbn [run_op] in H. eapply to_outgroup_su_err; [exact W|exact L|exact D|exact OK|exact H].
  - apply OLD; [|exact H]. apply (covered2_old h (ORerootAtNode n ub su cb)).
    apply (covered_v_2 v); [exact C|discriminate|discriminate].
  - apply OLD; [|exact H]. apply (covered2_old h (ORerootAtEdge c l1 l2 ub su)).
    apply (covered_v_2 v); [exact C|discriminate|discriminate].
  - apply OLD; [|exact H]. apply (covered2_old h (OPruneSubtree n ub su)).
    apply (covered_v_2 v); [exact C|discriminate|discriminate].
Qed.

Theorem op_error_frame_l v h o e h' :
  WF h -> covered_v v h o -> tree_level_op o = true ->
  run_op_v v o h = HErr e h' ->
  (h' = h \/ In h' (err_states o h)) /\ WF h'.
Proof.
  intros W C T H. split.
  2:{ destruct (op_wf_variants_l v h o W C) as [h2 [W2 [E|[e2 E]]]]; rewrite H in E; [discriminate|].
      inversion E; subst. exact W2. }
  destruct (reroot_op o) eqn:RO.
  { left. exact (proj1 (reroot_error_is_refusal_l v h o e h' W C RO H)). }
  destruct o; cbn [tree_level_op] in T; try discriminate; cbn [reroot_op] in RO; try discriminate; cbn [run_op_v] in H.
  - (* set_child_nodes *) exfalso. cbn [run_op] in H. eapply set_child_nodes_err; [exact W| |exact H].
    apply (covered_v_2 v); [exact C|discriminate|discriminate].
  - (* reroot_at_midpoint *) left. cbn [run_op] in H.
    destruct (reroot_at_midpoint_finishes tx1 tx2 ub su cb h W) as [[h2 [E _]]|[e2 [E _]]]; rewrite H in E;
      [discriminate|inversion E; reflexivity].
  - (* filter_leaf_nodes *) right. cbn [run_op] in H. eapply filter_leaf_nodes_err; [exact W|exact H].
  - (* prune_leaves_without_taxa *) right. apply guard_inv in H. destruct H as [e0 H]. cbn [run_op] in H.
    cbn [err_states]. eapply plwt_err; [exact W|exact H].
  - (* prune_nodes *) right. cbv zeta in H.
    set (r := if v_seed_guard v then relabel_err AttrErr OtherErr (run_op (OPruneNodes nodes plwt ub su) h)
              else run_op (OPruneNodes nodes plwt ub su) h) in H.
    assert (R : forall e1 h1, r = HErr e1 h1 -> In h1 (err_states (OPruneNodes nodes plwt ub su) h)).
    { intros e1 h1 Hr. unfold r in Hr. apply guard_inv in Hr. destruct Hr as [e0 Hr]. cbn [run_op] in Hr.
      eapply prune_nodes_err; [exact W|exact Hr]. }
    destruct (v_prune_nodes_tail v && negb plwt) eqn:G; [|eapply R, H].
    destruct r as [h1|e1 h1|] eqn:Er; cbn [hbind] in H.
    + exfalso. eapply (tail_no_err ub su h1 e h'); [|exact H].
      assert (Ro : run_op (OPruneNodes nodes plwt ub su) h = HOk h1).
      { unfold r in Er. destruct (v_seed_guard v); [|exact Er].
        destruct (run_op (OPruneNodes nodes plwt ub su) h) as [x|ex x|]; cbn [relabel_err] in Er;
          [exact Er|destruct (err_eqb ex AttrErr); discriminate|discriminate]. }
      eapply finishes_ok_state; [apply (prune_nodes_finishes nodes plwt ub su h W)|exact Ro].
    + inversion H; subst. eapply R. reflexivity.
    + discriminate.
  - (* prune_taxa *) right. apply guard_inv in H. destruct H as [e0 H]. cbn [run_op] in H.
    cbn [err_states]. eapply prune_taxa_err; [exact W|exact H].
  - (* retain_taxa *) right. apply guard_inv in H. destruct H as [e0 H]. cbn [run_op] in H. unfold retain_taxa in H.
    cbn [err_states]. eapply prune_taxa_err; [exact W|exact H].
Qed.

(* for the operations without partial states: the conclusion reads h' = h *)
Corollary op_error_unchanged_l v h o e h' :
  WF h -> covered_v v h o -> tree_level_op o = true -> err_states o h = [] ->
  run_op_v v o h = HErr e h' -> h' = h.
Proof.
  intros W C T N H. destruct (op_error_frame_l v h o e h' W C T H) as [[E|I] _]; [exact E|].
  rewrite N in I. destruct I.
Qed.

(* ---------- satisfiable, and not vacuous ---------- *)
Lemma ef_heap_wf : WF ef_heap.
Proof. apply of_tree_WF. apply has_dup_false. vm_compute. reflexivity. Qed.

(* a partial state that is NOT the heap of the call: filter_leaf_nodes(lambda nd: False, recursive=True) prunes the
   seven-node tree down to its seed, then raises SeedNodeDeletionException; the state left is in the list *)
Example w9_partial_state v :
  exists e h', WF ef_heap /\ covered_v v ef_heap (OFilterLeafNodes [] true false false) /\
    run_op_v v (OFilterLeafNodes [] true false false) ef_heap = HErr e h' /\
    h' <> ef_heap /\ In h' (err_states (OFilterLeafNodes [] true false false) ef_heap) /\
    kids h' (seed h') = [] /\ WF h'.
Proof.
  assert (C : covered_v v ef_heap (OFilterLeafNodes [] true false false)).
  { unfold covered_v. destruct (v_outgroup_first v); cbn [covered3]; apply c2_old, (cov_prune_leaf _ _ OtherErr); reflexivity. }
  destruct (run_op_v v (OFilterLeafNodes [] true false false) ef_heap) as [h1|e1 h1|] eqn:E;
    cbn [run_op_v] in E; vm_compute in E; try discriminate.
  exists e1, h1. split; [exact ef_heap_wf|]. split; [exact C|]. split; [reflexivity|].
  assert (N : h1 <> ef_heap).
  { intro X. rewrite X in E. vm_compute in E. discriminate. }
  assert (E' : run_op_v v (OFilterLeafNodes [] true false false) ef_heap = HErr e1 h1).
  { cbn [run_op_v]. inversion E; subst. vm_compute. reflexivity. }
  destruct (op_error_frame_l v ef_heap _ e1 h1 ef_heap_wf C eq_refl E') as [[X|I] W1]; [contradiction|].
  split; [exact N|]. split; [exact I|]. split; [|exact W1]. inversion E; subst. vm_compute. reflexivity.
Qed.

(* the entry refusal of the re-rooting family on the same tree *)
Example w9_refusal v :
  covered_v v ef_heap (ORerootAtEdge 0 None None false true) /\
  run_op_v v (ORerootAtEdge 0 None None false true) ef_heap = HErr AttrErr ef_heap /\
  covered_v v ef_heap (OToOutgroup 0 true false) /\
  run_op_v v (OToOutgroup 0 true false) ef_heap = HErr AssertErr ef_heap.
Proof.
  assert (L : live ef_heap 0) by (eexists; split; [vm_compute; reflexivity|vm_compute; tauto]).
  split; [|split; [|split]].
  - unfold covered_v. destruct (v_outgroup_first v); cbn [covered3]; apply c2_old, cov_reroot_edge, L.
  - apply refused_op_frame_l. vm_compute. reflexivity.
  - unfold covered_v. destruct (v_outgroup_first v); cbn [covered3]; [exact L|]. apply c2_old, cov_to_outgroup, L.
  - apply refused_op_frame_l. vm_compute. reflexivity.
Qed.
