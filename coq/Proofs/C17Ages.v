(* C17: proofs about calc_node_ages (first-child ages, the local ultrametricity test, forcing
   options, disabled check) and set_edge_lengths_from_node_ages. *)
From Coq Require Import ZArith QArith List Bool Lia ZifyBool Permutation.
From DV Require Import Model.PyPrims Model.Tree Model.C17Model.
Import ListNotations.
Open Scope Z_scope.

(* ------------------------------------------------------------------------------------------ *)
(* generalities                                                                                *)

Lemma preorder_unfold t : preorder t = t :: flat_map preorder (t_kids t).
Proof. destruct t; reflexivity. Qed.

Lemma in_preorder_self t : In t (preorder t).
Proof. rewrite preorder_unfold. left. reflexivity. Qed.

Lemma in_preorder_kid t k v : In k (t_kids t) -> In v (preorder k) -> In v (preorder t).
Proof.
  intros Hk Hv. rewrite preorder_unfold. right. apply in_flat_map. exists k. split; assumption.
Qed.

Lemma in_preorder_inv t v : In v (preorder t) -> v = t \/ exists k, In k (t_kids t) /\ In v (preorder k).
Proof.
  rewrite preorder_unfold. intros [E | H]; [left; symmetry; exact E|].
  right. apply in_flat_map in H. exact H.
Qed.

Lemma in_preorder_trans t v w : In v (preorder t) -> In w (preorder v) -> In w (preorder t).
Proof.
  revert v w. induction t as [i x l e ks IH] using tree_ind'. intros v w Hv Hw.
  apply in_preorder_inv in Hv. destruct Hv as [-> | [k [Hk Hv]]]; [exact Hw|].
  eapply in_preorder_kid; [exact Hk|]. rewrite Forall_forall in IH. eapply IH; eassumption.
Qed.

Lemma maxl_spec x r : In (maxl x r) (x :: r) /\ forall y, In y (x :: r) -> y <= maxl x r.
Proof.
  revert x. induction r as [|z r IH]; intro x.
  - simpl. split; [left; reflexivity|]. intros y [<- | []]. lia.
  - cbn [maxl]. destruct (IH z) as [Hin Hle]. split.
    + destruct (Z.max_spec x (maxl z r)) as [[_ E] | [_ E]]; rewrite E.
      * right. exact Hin.
      * left. reflexivity.
    + intros y [<- | Hy]; [lia|]. specialize (Hle y Hy). lia.
Qed.

Lemma minl_spec x r : In (minl x r) (x :: r) /\ forall y, In y (x :: r) -> minl x r <= y.
Proof.
  revert x. induction r as [|z r IH]; intro x.
  - simpl. split; [left; reflexivity|]. intros y [<- | []]. lia.
  - cbn [minl]. destruct (IH z) as [Hin Hle]. split.
    + destruct (Z.min_spec x (minl z r)) as [[_ E] | [_ E]]; rewrite E.
      * left. reflexivity.
      * right. exact Hin.
    + intros y [<- | Hy]; [lia|]. specialize (Hle y Hy). lia.
Qed.

(* ------------------------------------------------------------------------------------------ *)
(* tip distances                                                                               *)

Lemma tipdists_node i x l e k r :
  tipdists (T i x l e (k :: r)) = flat_map (fun c => map (Z.add (elen c)) (tipdists c)) (k :: r).
Proof. reflexivity. Qed.

Lemma tipdists_kid t k d : In k (t_kids t) -> In d (tipdists k) -> In (d + elen k) (tipdists t).
Proof.
  destruct t as [i x l e ks]. cbn [t_kids]. intros Hk Hd. destruct ks as [|k0 r]; [destruct Hk|].
  rewrite tipdists_node. apply in_flat_map. exists k. split; [exact Hk|].
  apply in_map_iff. exists d. split; [lia | exact Hd].
Qed.

Lemma tipdists_inv t d : In d (tipdists t) ->
  (t_kids t = [] /\ d = 0) \/ exists k d', In k (t_kids t) /\ In d' (tipdists k) /\ d = d' + elen k.
Proof.
  destruct t as [i x l e ks]. destruct ks as [|k0 r].
  - simpl. intros [<- | []]. left. split; reflexivity.
  - rewrite tipdists_node. intro H. right. apply in_flat_map in H. destruct H as [k [Hk H]].
    apply in_map_iff in H. destruct H as [d' [E H]]. exists k, d'. simpl. repeat split; [exact Hk | exact H | lia].
Qed.

Lemma fp_leaf i x l e : fp (T i x l e []) = 0.
Proof. reflexivity. Qed.
Lemma fp_cons i x l e k r : fp (T i x l e (k :: r)) = fp k + elen k.
Proof. reflexivity. Qed.

Lemma fp_in_tipdists t : In (fp t) (tipdists t).
Proof.
  induction t as [i x l e ks IH] using tree_ind'. destruct ks as [|k r].
  - left. reflexivity.
  - rewrite fp_cons. apply (tipdists_kid (T i x l e (k :: r)) k); [left; reflexivity|].
    inversion IH; assumption.
Qed.

Lemma hext_in_tipdists (h : tree -> Z) (ext : Z -> list Z -> Z) (le : Z -> Z -> Prop)
      (Hleaf : forall i x l e, h (T i x l e []) = 0)
      (Hnode : forall i x l e k r, h (T i x l e (k :: r)) = ext (h k + elen k) (map (fun cc => h cc + elen cc) r))
      (Hext : forall x r, In (ext x r) (x :: r) /\ forall y, In y (x :: r) -> le y (ext x r))
      (Hrefl : le 0 0)
      (Hmono : forall a b c d, le a b -> le (b + d) c -> le (a + d) c) t :
  In (h t) (tipdists t) /\ forall d, In d (tipdists t) -> le d (h t).
Proof.
  induction t as [i x l e ks IH] using tree_ind'. destruct ks as [|k r].
  - rewrite Hleaf. split; [left; reflexivity|]. intros d [<- | []]. exact Hrefl.
  - set (g := fun cc => h cc + elen cc).
    assert (Hn : h (T i x l e (k :: r)) = ext (g k) (map g r)) by apply Hnode.
    rewrite Hn.
    destruct (Hext (g k) (map g r)) as [Hin Hle].
    rewrite Forall_forall in IH.
    assert (Hg : forall c, In c (k :: r) -> In (g c) (g k :: map g r)).
    { intros c Hc. apply (in_map g (k :: r) c Hc). }
    split.
    + assert (exists c, In c (k :: r) /\ g c = ext (g k) (map g r)) as [c [Hc E]].
      { apply (in_map_iff g (k :: r)) in Hin. destruct Hin as [c [E Hc]]. exists c. split; assumption. }
      rewrite <- E. apply (tipdists_kid (T i x l e (k :: r)) c); [exact Hc|]. apply IH. exact Hc.
    + intros d Hd. apply tipdists_inv in Hd. destruct Hd as [[E _] | [c [d' [Hc [Hd' ->]]]]]; [discriminate|].
      cbn [t_kids] in Hc. destruct (IH c Hc) as [_ Hm]. specialize (Hm d' Hd').
      specialize (Hle _ (Hg c Hc)). eapply Hmono; [exact Hm | exact Hle].
Qed.

Lemma hmax_in_tipdists t : In (hmax t) (tipdists t) /\ forall d, In d (tipdists t) -> d <= hmax t.
Proof.
  apply (hext_in_tipdists hmax maxl Z.le); try reflexivity.
  - apply maxl_spec.
  - intros. lia.
Qed.

Lemma hmin_in_tipdists t : In (hmin t) (tipdists t) /\ forall d, In d (tipdists t) -> hmin t <= d.
Proof.
  apply (hext_in_tipdists hmin minl (fun a b => b <= a)); try reflexivity.
  - apply minl_spec.
  - intros. lia.
Qed.

(* ------------------------------------------------------------------------------------------ *)
(* annot                                                                                       *)

Lemma annot_age f m co t : a_age (annot f m co t) = f t.
Proof. destruct t; reflexivity. Qed.

Lemma annot_id f m co t : a_id (annot f m co t) = t_id t.
Proof. destruct t; reflexivity. Qed.

Lemma annot_path f m co t : a_path (annot f m co t) = f t + elen t.
Proof. destruct t as [i x l e ks]. unfold a_path, elen. simpl. destruct co, e; reflexivity. Qed.

Lemma annot_coerce f m t : coerce_len (annot f m false t) = annot f m true t.
Proof. destruct t as [i x l e ks]. destruct e; reflexivity. Qed.

Lemma annot_len_defined f m t : len_defined (annot f m false t) = match t_len t with Some _ => true | None => false end.
Proof. destruct t as [i x l e ks]. reflexivity. Qed.

Lemma aforget_annot f m co t : aforget (annot f m co t) = coerce m co t.
Proof.
  revert co. induction t as [i x l e ks IH] using tree_ind'. intro co. cbn [annot aforget coerce]. f_equal.
  destruct m.
  - rewrite map_map. apply map_ext_in. intros k Hk. rewrite Forall_forall in IH. apply IH. exact Hk.
  - destruct ks as [|k r]; [reflexivity|]. inversion IH as [|? ? Hk Hr]; subst. cbn [map]. f_equal; [apply Hk|].
    rewrite map_map. apply map_ext_in. intros c Hc. rewrite Forall_forall in Hr. apply Hr. exact Hc.
  - rewrite map_map. apply map_ext_in. intros k Hk. rewrite Forall_forall in IH. apply IH. exact Hk.
Qed.

Lemma coerce_none t : coerce CoNone false t = t.
Proof.
  induction t as [i x l e ks IH] using tree_ind'. cbn [coerce]. f_equal.
  rewrite <- (map_id ks) at 2. apply map_ext_in. intros k Hk. rewrite Forall_forall in IH. apply IH. exact Hk.
Qed.

Lemma elen_coerce m co t : elen (coerce m co t) = elen t.
Proof. destruct t as [i x l e ks]. unfold elen. simpl. destruct co, e; reflexivity. Qed.

Lemma kids_nil_coerce m co t : t_kids (coerce m co t) = [] <-> t_kids t = [].
Proof.
  destruct t as [i x l e ks]. simpl. destruct m, ks; simpl; split; intro H; try reflexivity; discriminate.
Qed.

Lemma tipdists_coerce m co t : tipdists (coerce m co t) = tipdists t.
Proof.
  revert co. induction t as [i x l e ks IH] using tree_ind'. intro co.
  destruct ks as [|k r]; [destruct m; reflexivity|].
  rewrite Forall_forall in IH.
  assert (G : forall (g : tree -> tree) (ls : list tree),
             (forall c, In c ls -> In c (k :: r)) ->
             (forall c, In c ls -> exists co', g c = coerce m co' c) ->
             flat_map (fun c => map (Z.add (elen c)) (tipdists c)) (map g ls)
             = flat_map (fun c => map (Z.add (elen c)) (tipdists c)) ls).
  { intros g ls Hs Hg. induction ls as [|c ls IHl]; [reflexivity|]. cbn [map flat_map].
    destruct (Hg c (or_introl eq_refl)) as [co' E]. rewrite E, elen_coerce, (IH c (Hs c (or_introl eq_refl))).
    f_equal. apply IHl; intros; [apply Hs | apply Hg]; right; assumption. }
  destruct m; cbn [coerce].
  - rewrite tipdists_node. cbn [map]. rewrite <- tipdists_node with (i := i) (x := x) (l := l) (e := e).
    change (coerce CoAll true k :: map (coerce CoAll true) r) with (map (coerce CoAll true) (k :: r)).
    rewrite tipdists_node. apply G; [auto|]. intros c _. exists true. reflexivity.
  - rewrite !tipdists_node. cbn [flat_map]. rewrite elen_coerce, (IH k (or_introl eq_refl)). f_equal.
    apply G; [intros; right; assumption|]. intros c _. exists false. reflexivity.
  - change (map (coerce CoNone false) (k :: r)) with (coerce CoNone false k :: map (coerce CoNone false) r).
    rewrite !tipdists_node.
    change (coerce CoNone false k :: map (coerce CoNone false) r) with (map (coerce CoNone false) (k :: r)).
    apply G; [auto|]. intros c _. exists false. reflexivity.
Qed.

(* nodes of annot f m co t are annotated subtrees of t *)
Lemma apreorder_annot f m co t v :
  In v (apreorder (annot f m co t)) -> exists s co', In s (preorder t) /\ v = annot f m co' s.
Proof.
  revert co v. induction t as [i x l e ks IH] using tree_ind'. intros co v H.
  rewrite Forall_forall in IH. cbn [annot apreorder] in H. destruct H as [<- | H].
  - exists (T i x l e ks), co. split; [apply in_preorder_self | reflexivity].
  - apply in_flat_map in H. destruct H as [a [Ha Hv]].
    assert (exists k co', In k ks /\ a = annot f m co' k) as [k [co' [Hk ->]]].
    { destruct m.
      - apply in_map_iff in Ha. destruct Ha as [k [E Hk]]. exists k, true. split; [exact Hk | symmetry; exact E].
      - destruct ks as [|k r]; [destruct Ha|]. destruct Ha as [<- | Ha].
        + exists k, true. split; [left; reflexivity | reflexivity].
        + apply in_map_iff in Ha. destruct Ha as [c [E Hc]]. exists c, false. split; [right; exact Hc | symmetry; exact E].
      - apply in_map_iff in Ha. destruct Ha as [k [E Hk]]. exists k, false. split; [exact Hk | symmetry; exact E]. }
    destruct (IH k Hk _ _ Hv) as [s [co'' [Hs E]]]. exists s, co''. split; [|exact E].
    eapply in_preorder_kid; [exact Hk | exact Hs].
Qed.

Lemma postorder_ids_annot f m co t : map a_id (apostorder (annot f m co t)) = map t_id (postorder t).
Proof.
  revert co. induction t as [i x l e ks IH] using tree_ind'. intro co.
  rewrite Forall_forall in IH. cbn [annot apostorder postorder]. rewrite !map_app. f_equal.
  assert (G : forall (g : tree -> atree) (ls : list tree),
             (forall c, In c ls -> In c ks) -> (forall c, In c ls -> exists co', g c = annot f m co' c) ->
             map a_id (flat_map apostorder (map g ls)) = map t_id (flat_map postorder ls)).
  { intros g ls Hs Hg. induction ls as [|c ls IHl]; [reflexivity|]. cbn [map flat_map]. rewrite !map_app.
    destruct (Hg c (or_introl eq_refl)) as [co' E]. rewrite E, (IH c (Hs c (or_introl eq_refl))). f_equal.
    apply IHl; intros; [apply Hs | apply Hg]; right; assumption. }
  destruct m.
  - apply G; [auto|]. intros c _. exists true. reflexivity.
  - destruct ks as [|k r]; [reflexivity|]. cbn [flat_map]. rewrite !map_app. rewrite (IH k (or_introl eq_refl)). f_equal.
    apply G; [intros; right; assumption|]. intros c _. exists false. reflexivity.
  - apply G; [auto|]. intros c _. exists false. reflexivity.
Qed.

(* ------------------------------------------------------------------------------------------ *)
(* csequence over the children                                                                 *)

Lemma cseq_map {X} (g : tree -> cres X) (F : tree -> X) (Bad : tree -> cerr -> Z -> Prop) ks :
  Forall (fun k => g k = COk (F k) \/ exists e n, g k = CErr e n /\ Bad k e n) ks ->
  (csequence (map g ks) = COk (map F ks) /\ Forall (fun k => g k = COk (F k)) ks)
  \/ exists k e n, In k ks /\ csequence (map g ks) = CErr e n /\ g k = CErr e n /\ Bad k e n.
Proof.
  induction 1 as [|k r Hk Hr IH].
  - left. split; [reflexivity | constructor].
  - cbn [map csequence]. destruct Hk as [E | [e [n [E B]]]]; rewrite E.
    + destruct IH as [[E2 F2] | [k' [e [n [Hin [E2 [E3 B]]]]]]]; rewrite E2.
      * left. split; [reflexivity | constructor; assumption].
      * right. exists k', e, n. repeat split; try assumption. right. exact Hin.
    + right. exists k, e, n. repeat split; try assumption. left. reflexivity.
Qed.

(* ------------------------------------------------------------------------------------------ *)
(* check enabled, no forcing                                                                   *)

Definition viol (p : Z) (t : tree) (e : cerr) (n : Z) : Prop :=
  exists v cx, In v (preorder t) /\ n = t_id v /\ In cx (tl (t_kids v))
    /\ Z.abs (fp v - (fp cx + elen cx)) > p
    /\ e = Ultra.

Lemma check_rest_spec p i age f r :
  (forallb (fun c => Z.abs (age - (f c + elen c)) <=? p) r = true
   /\ check_rest p i age (map (annot f CoAll false) r) = COk (map (annot f CoAll true) r))
  \/ (forallb (fun c => Z.abs (age - (f c + elen c)) <=? p) r = false
      /\ exists cx, In cx r /\ Z.abs (age - (f cx + elen cx)) > p
          /\ check_rest p i age (map (annot f CoAll false) r) = CErr Ultra i).
Proof.
  induction r as [|c r IH].
  - left. split; reflexivity.
  - cbn [map check_rest forallb]. rewrite annot_path.
    destruct (Z.abs (age - (f c + elen c)) >? p) eqn:Eg.
    + right. split; [apply andb_false_iff; left; lia|].
      exists c. repeat split; [left; reflexivity | lia].
    + destruct IH as [[Hf Hc] | [Hf [cx [Hin [Hv Hc]]]]]; rewrite Hc.
      * left. split; [apply andb_true_iff; split; [lia | exact Hf]|]. rewrite annot_coerce. reflexivity.
      * right. split; [apply andb_false_iff; right; exact Hf|]. exists cx. repeat split; [right; exact Hin | exact Hv].
Qed.

Lemma calc_enabled c p t :
  c_fmax c = false -> c_fmin c = false -> check_prec (c_prec c) = Some p ->
  (local_okb p t = true /\ calc c t = COk (annot fp CoAll false t))
  \/ (local_okb p t = false /\ exists e n, calc c t = CErr e n /\ viol p t e n).
Proof.
  intros Hmx Hmn Hp. induction t as [i x l e ks IH] using tree_ind'.
  cbn [calc]. unfold node_step.
  destruct (cseq_map (calc c) (annot fp CoAll false) (fun k e n => local_okb p k = false /\ viol p k e n) ks) as
      [[Hs Hall] | [k [er [n [Hk [Hs [Hck [Hlk Hv]]]]]]]].
  { apply Forall_impl with (2 := IH). intros k [[_ H] | [H [er [n [H1 H2]]]]]; [left; exact H|].
    right. exists er, n. repeat split; assumption. }
  - rewrite Hs. destruct ks as [|k0 r].
    + left. split; reflexivity.
    + cbn [map]. rewrite Hmx, Hmn, Hp. rewrite annot_path, annot_coerce.
      assert (Hkids : forallb (local_okb p) (k0 :: r) = true).
      { apply forallb_forall. intros k Hk. rewrite Forall_forall in IH, Hall.
        destruct (IH k Hk) as [[H _] | [_ [er [n [H _]]]]]; [exact H|]. rewrite (Hall k Hk) in H. discriminate. }
      destruct (check_rest_spec p i (fp k0 + elen k0) fp r) as [[Hf Hc] | [Hf [cx [Hin [Hv Hc]]]]]; rewrite Hc.
      * left. split; [|reflexivity]. cbn [local_okb tl]. rewrite fp_cons, Hf. exact Hkids.
      * right. split; [cbn [local_okb tl]; rewrite fp_cons, Hf; reflexivity|].
        exists Ultra, i. split; [reflexivity|]. exists (T i x l e (k0 :: r)), cx.
        split; [apply in_preorder_self|]. split; [reflexivity|]. split; [exact Hin|]. split; [rewrite fp_cons; exact Hv|].
        reflexivity.
  - rewrite Hs. right. split.
    + cbn [local_okb]. apply andb_false_iff. right. apply not_true_is_false. intro H.
      rewrite forallb_forall in H. rewrite (H k Hk) in Hlk. discriminate.
    + exists er, n. split; [reflexivity|]. destruct Hv as [v [cx [Hv [En [Hcx [Hd He]]]]]].
      exists v, cx. split; [eapply in_preorder_kid; [exact Hk | exact Hv]|]. repeat split; assumption.
Qed.

(* local_okb in readable form *)
Lemma local_okb_iff p t :
  local_okb p t = true <->
  forall v, In v (preorder t) -> forall c, In c (tl (t_kids v)) -> Z.abs (fp v - (fp c + elen c)) <= p.
Proof.
  induction t as [i x l e ks IH] using tree_ind'. rewrite Forall_forall in IH. cbn [local_okb]. split.
  - intro H. apply andb_true_iff in H. destruct H as [H1 H2]. rewrite forallb_forall in H1, H2.
    intros v Hv c Hc. apply in_preorder_inv in Hv. destruct Hv as [-> | [k [Hk Hv]]].
    + specialize (H1 c Hc). lia.
    + simpl in Hk. apply (proj1 (IH k Hk) (H2 k Hk) v Hv c Hc).
  - intro H. apply andb_true_iff. split; apply forallb_forall.
    + intros c Hc. specialize (H _ (in_preorder_self _) c Hc). lia.
    + intros k Hk. apply IH; [exact Hk|]. intros v Hv c Hc. apply H; [|exact Hc].
      eapply in_preorder_kid; [exact Hk | exact Hv].
Qed.

Lemma local_okb_sub p t v : local_okb p t = true -> In v (preorder t) -> local_okb p v = true.
Proof.
  intros H Hv. apply local_okb_iff. intros w Hw c Hc. apply (proj1 (local_okb_iff p t) H w); [|exact Hc].
  eapply in_preorder_trans; eassumption.
Qed.

(* drift: what the local test implies for all tip paths *)
Lemma height_kid i x l e ks k : In k ks -> (height k < height (T i x l e ks))%nat.
Proof.
  intro Hk. cbn [height]. induction ks as [|c r IH]; [destruct Hk|]. cbn [fold_right].
  destruct Hk as [-> | Hk]; [lia|]. specialize (IH Hk). lia.
Qed.

Lemma height_pos t : (1 <= height t)%nat.
Proof. destruct t. cbn [height]. lia. Qed.

Lemma drift_bound p t : 0 <= p -> local_okb p t = true ->
  forall d, In d (tipdists t) -> Z.abs (fp t - d) <= (Z.of_nat (height t) - 1) * p.
Proof.
  intros Hp. induction t as [i x l e ks IH] using tree_ind'. intros Hok d Hd.
  rewrite Forall_forall in IH.
  apply tipdists_inv in Hd. destruct Hd as [[Ek ->] | [k [d' [Hk [Hd' ->]]]]].
  - simpl in Ek. subst ks. rewrite fp_leaf. cbn [height fold_right]. lia.
  - simpl in Hk. pose proof (height_kid i x l e ks k Hk) as Hh. pose proof (height_pos k) as Hh1.
    assert (Hokk : local_okb p k = true).
    { apply (local_okb_sub p _ k Hok). eapply in_preorder_kid; [exact Hk | apply in_preorder_self]. }
    specialize (IH k Hk Hokk d' Hd').
    assert (Hloc : Z.abs (fp (T i x l e ks) - (fp k + elen k)) <= p).
    { destruct ks as [|k0 r]; [destruct Hk|]. destruct Hk as [<- | Hk].
      - rewrite fp_cons. lia.
      - apply (proj1 (local_okb_iff p _) Hok _ (in_preorder_self _)). exact Hk. }
    assert ((Z.of_nat (height k) - 1) * p + p <= (Z.of_nat (height (T i x l e ks)) - 1) * p) by nia.
    lia.
Qed.

(* ------------------------------------------------------------------------------------------ *)
(* check disabled, no forcing                                                                  *)

Lemma calc_disabled c t :
  c_fmax c = false -> c_fmin c = false -> check_prec (c_prec c) = None ->
  calc c t = COk (annot fp CoFirst false t).
Proof.
  intros Hmx Hmn Hp. induction t as [i x l e ks IH] using tree_ind'.
  cbn [calc]. unfold node_step.
  destruct (cseq_map (calc c) (annot fp CoFirst false) (fun _ _ _ => False) ks) as
      [[Hs _] | [k [er [n [_ [_ [_ []]]]]]]].
  { apply Forall_impl with (2 := IH). intros k H. left. exact H. }
  rewrite Hs. destruct ks as [|k0 r]; [reflexivity|].
  cbn [map]. rewrite Hmx, Hmn, Hp, annot_path, annot_coerce. reflexivity.
Qed.

(* ------------------------------------------------------------------------------------------ *)
(* forcing options                                                                             *)

Definition lens_defined (t : tree) : Prop :=
  forall v, In v (preorder t) -> forall c, In c (t_kids v) -> t_len c <> None.

Lemma lens_defined_kid t k : lens_defined t -> In k (t_kids t) -> lens_defined k.
Proof.
  intros H Hk v Hv c Hc. apply (H v); [|exact Hc]. eapply in_preorder_kid; eassumption.
Qed.

Lemma forallb_len_defined f ks :
  forallb len_defined (map (annot f CoNone false) ks) = true <-> forall c, In c ks -> t_len c <> None.
Proof.
  rewrite forallb_forall. split.
  - intros H c Hc. specialize (H _ (in_map _ _ _ Hc)). rewrite annot_len_defined in H.
    destruct (t_len c); [discriminate | discriminate].
  - intros H a Ha. apply in_map_iff in Ha. destruct Ha as [c [<- Hc]]. rewrite annot_len_defined.
    specialize (H c Hc). destruct (t_len c); [reflexivity | contradiction].
Qed.

Lemma calc_forced (mx : bool) c t :
  (if mx then c_fmax c = true else c_fmax c = false /\ c_fmin c = true) ->
  (lens_defined t /\ calc c t = COk (annot (if mx then hmax else hmin) CoNone false t))
  \/ (~ lens_defined t /\ exists n, calc c t = CErr (Py TypeErr) n
        /\ exists v, In v (preorder t) /\ n = t_id v /\ exists s, In s (t_kids v) /\ t_len s = None).
Proof.
  intros Hc. set (h := if mx then hmax else hmin). induction t as [i x l e ks IH] using tree_ind'.
  cbn [calc]. unfold node_step.
  destruct (cseq_map (calc c) (annot h CoNone false)
              (fun k e n => ~ lens_defined k /\ e = Py TypeErr /\
                 exists v, In v (preorder k) /\ n = t_id v /\ exists s, In s (t_kids v) /\ t_len s = None) ks) as
      [[Hs Hall] | [k [er [n [Hk [Hs [Hck [Hnd [-> Hv]]]]]]]]].
  { apply Forall_impl with (2 := IH). intros k [[_ H] | [H [n [H1 H2]]]]; [left; exact H|].
    right. exists (Py TypeErr), n. repeat split; assumption. }
  - rewrite Hs.
    assert (Hkd : forall k, In k ks -> lens_defined k).
    { intros k Hk. rewrite Forall_forall in IH, Hall. destruct (IH k Hk) as [[H _] | [_ [n [H _]]]]; [exact H|].
      rewrite (Hall k Hk) in H. discriminate. }
    destruct ks as [|k0 r].
    + left. split; [|destruct mx; reflexivity]. intros v Hv cc Hcc.
      apply in_preorder_inv in Hv. destruct Hv as [-> | [k [[] _]]]. destruct Hcc.
    + change (map (annot h CoNone false) (k0 :: r)) with (annot h CoNone false k0 :: map (annot h CoNone false) r).
      cbv iota beta.
      change (annot h CoNone false k0 :: map (annot h CoNone false) r) with (map (annot h CoNone false) (k0 :: r)).
      destruct (forallb len_defined (map (annot h CoNone false) (k0 :: r))) eqn:Ed.
      * left. split.
        { intros v Hv cc Hcc. apply in_preorder_inv in Hv. destruct Hv as [-> | [k [Hk Hv]]].
          - apply (proj1 (forallb_len_defined h (k0 :: r)) Ed). exact Hcc.
          - apply (Hkd k Hk v Hv cc Hcc). }
        assert (Ep : map a_path (map (annot h CoNone false) r) = map (fun cc => h cc + elen cc) r).
        { rewrite map_map. apply map_ext. intro cc. apply annot_path. }
        destruct mx.
        -- rewrite Hc. cbn [map]. rewrite annot_path, Ep. reflexivity.
        -- destruct Hc as [Hc1 Hc2]. rewrite Hc1, Hc2. cbn [map]. rewrite annot_path, Ep. reflexivity.
      * right. split.
        { intro H. apply not_true_iff_false in Ed. apply Ed. apply forallb_len_defined.
          intros cc Hcc. apply (H _ (in_preorder_self _)). exact Hcc. }
        exists i. split; [destruct mx; [rewrite Hc | destruct Hc as [Hc1 Hc2]; rewrite Hc1, Hc2]; reflexivity|].
        exists (T i x l e (k0 :: r)). split; [apply in_preorder_self|]. split; [reflexivity|].
        clear - Ed. induction (k0 :: r) as [|s r' IHr]; [discriminate|]. cbn [map forallb] in Ed.
        apply andb_false_iff in Ed. destruct Ed as [Ed | Ed].
        -- exists s. split; [left; reflexivity|]. rewrite annot_len_defined in Ed. destruct (t_len s); [discriminate | reflexivity].
        -- destruct (IHr Ed) as [s' [Hs Hn]]. exists s'. split; [right; exact Hs | exact Hn].
  - rewrite Hs. right. split.
    + intro H. apply Hnd. eapply lens_defined_kid; [exact H | exact Hk].
    + exists n. split; [reflexivity|]. destruct Hv as [v [Hv [En Hs']]]. exists v.
      split; [eapply in_preorder_kid; [exact Hk | exact Hv]|]. split; assumption.
Qed.
