(* C04: the triangle inequality of the Euclidean distance in its usual form over the reals
   (euclidean_distance = sqrt(euclid_sq) * 2^-10).  Uses Coq's classical real numbers: the theorems here
   depend on the three standard axioms of Coq.Reals and on nothing else. *)
From Coq Require Import ZArith List Bool Reals Lra Lia Psatz.
From DV Require Import Model.PyPrims Model.Tree Model.C04Model Proofs.C04Lists Proofs.C04Loops Proofs.C04Core.
Open Scope R_scope.

Lemma sqrt_triangle_of_sqfree (A B C : R) :
  0 <= A -> 0 <= B -> 0 <= C ->
  (A - B - C <= 0 \/ (A - B - C) * (A - B - C) <= 4 * B * C) ->
  sqrt A <= sqrt B + sqrt C.
Proof.
  intros HA HB HC H.
  set (b := sqrt B). set (c := sqrt C).
  assert (Hb : 0 <= b) by apply sqrt_pos. assert (Hc : 0 <= c) by apply sqrt_pos.
  assert (Eb : b * b = B) by (apply sqrt_sqrt; exact HB).
  assert (Ec : c * c = C) by (apply sqrt_sqrt; exact HC).
  assert (Hbc : 0 <= b * c) by (apply Rmult_le_pos; assumption).
  assert (K : A <= (b + c) * (b + c)).
  { replace ((b + c) * (b + c)) with (B + C + 2 * (b * c)) by (rewrite <- Eb, <- Ec; ring).
    destruct H as [H|H]; [lra|].
    destruct (Rle_or_lt (A - B - C) (2 * (b * c))) as [L|L]; [lra|exfalso].
    assert (S : (2 * (b * c)) * (2 * (b * c)) < (A - B - C) * (A - B - C)).
    { apply Rmult_le_0_lt_compat; lra. }
    assert (E4 : (2 * (b * c)) * (2 * (b * c)) = 4 * B * C) by (rewrite <- Eb, <- Ec; ring).
    lra. }
  replace (b + c) with (sqrt ((b + c) * (b + c))) by (apply sqrt_square; lra).
  apply sqrt_le_1; [exact HA | apply Rle_0_sqr || nra | exact K].
Qed.

Theorem euclid_triangle_sqrt_l mg p acc s1 s2 s3 d13 d12 d23 :
  well_formed acc s1 = true -> well_formed acc s2 = true -> well_formed acc s3 = true ->
  euclid_sq mg p acc s1 s3 = Ok d13 -> euclid_sq mg p acc s1 s2 = Ok d12 -> euclid_sq mg p acc s2 s3 = Ok d23 ->
  sqrt (IZR d13) <= sqrt (IZR d12) + sqrt (IZR d23).
Proof.
  intros W1 W2 W3 H13 H12 H23.
  destruct (F_euclid_triangle mg p acc s1 s2 s3 d13 d12 d23 W1 W2 W3 H13 H12 H23) as [P13 [P12 [P23 T]]].
  apply sqrt_triangle_of_sqfree; try (apply IZR_le; assumption).
  destruct T as [T|T]; [left|right].
  - apply IZR_le in T. rewrite !minus_IZR in T. exact T.
  - apply IZR_le in T. rewrite !mult_IZR, !minus_IZR in T. exact T.
Qed.
