(* C19 translator tie, object level, part 2: new_sequence, __getitem__, extend_sequences, extend_matrix,
   remove_ / discard_ / keep_sequences as compiled from the current source (Gen/CharMatrixObj.v) = the
   object-level model Model/C19RowHeap.v.  All equalities are exact (same store, same map). *)
From Coq Require Import ZArith List Bool Lia.
From DV Require Import Model.PyPrims Model.C19Model Model.C19RowHeap Model.C19Prims Model.C19ObjPrims
                       Gen.CharMatrixObj Proofs.C19Alist Proofs.C19GenObj.
Import ListNotations.
Open Scope Z_scope.

Definition blk_val (st : ost) (r : res (store * omatrix * rid)) : ost * res rid :=
  match r with
  | Ok (s', m', x) => ((s', om_rows m'), Ok x)
  | Err e => (st, Err e)
  | OutOfFuel => (st, OutOfFuel)
  end.

Lemma gen_o_new_sequence_eq T s m t vals :
  gen_o_new_sequence T (s, om_rows m) t vals = blk_val (s, om_rows m) (o_new_sequence T s m t vals).
Proof.
  unfold gen_o_new_sequence, o_new_sequence, map_has. cbn [snd].
  destruct (ahas t (om_rows m)); [reflexivity|]. destruct (negb (memb t T)); reflexivity.
Qed.

Lemma gen_o_getitem_eq T s m k :
  gen_o_getitem T (s, om_rows m) k = blk_val (s, om_rows m) (o_getitem T s m k).
Proof.
  unfold gen_o_getitem, o_getitem, map_get. cbn [snd]. destruct (resolve_key T k) as [t|e|]; try reflexivity.
  destruct (aget t (om_rows m)) as [r|]; [reflexivity|].
  rewrite gen_o_new_sequence_eq. destruct (o_new_sequence T s m t []) as [[[s' m'] x]|e|]; reflexivity.
Qed.

(* ---- extend_sequences / extend_matrix ---- *)
Theorem gen_o_extend_sequences_eq ns_self ns_other st o addnew :
  NoDup (keys o) ->
  gen_o_extend_sequences ns_self ns_other st o addnew = binary_blk (o_extend_rows addnew) ns_self ns_other st o.
Proof.
  intros N. unfold gen_o_extend_sequences, binary_blk. destruct (negb _); [reflexivity|].
  unfold o_extend_rows.
  rewrite bind_ret; etransitivity;
    [|exact (for_each_keys o (fun (t : tid) (x : rid) (st : ost) =>
               match aget t (snd st) with
               | None => if addnew then o_copy_in st t x else st
               | Some rs => o_extend_in st rs x
               end) N [] o st eq_refl)].
  apply for_each_ext_in. intros t [s sr] I. destruct (key_has o t I) as [x Hx]. rewrite Hx.
  unfold map_has, map_get, ahas. cbn [snd]. destruct (aget t sr) as [rs|]; cbn [negb]; rewrite bind_ret.
  - reflexivity.
  - destruct addnew; reflexivity.
Qed.

Theorem gen_o_extend_matrix_eq ns_self ns_other st o :
  NoDup (keys o) ->
  gen_o_extend_matrix ns_self ns_other st o = binary_blk o_extend_matrix_rows ns_self ns_other st o.
Proof.
  intros N. unfold gen_o_extend_matrix, binary_blk. destruct (negb _); [reflexivity|].
  unfold o_extend_matrix_rows.
  rewrite bind_ret; etransitivity;
    [|exact (for_each_keys o (fun (t : tid) (x : rid) (st : ost) =>
               match aget t (snd st) with
               | Some rs => o_extend_in st rs x
               | None => o_copy_in st t x
               end) N [] o st eq_refl)].
  apply for_each_ext_in. intros t [s sr] I. destruct (key_has o t I) as [x Hx]. rewrite Hx.
  unfold map_has, map_get, ahas. cbn [snd]. destruct (aget t sr) as [rs|]; rewrite bind_ret; reflexivity.
Qed.

Example extend_hyp_sat : NoDup (keys ([(1, 10); (2, 11)] : orows)).
Proof. repeat constructor; simpl; intuition discriminate. Qed.

(* the translation distinguishes the in-place extension from storing: on an existing taxon the RECEIVER's object 10
   is mutated, on a new taxon a NEW object (id 3 = s_next) holding a copy is stored, never the argument's 20 / 21 *)
Example extend_sequences_run :
  gen_o_extend_sequences 0 0 (mkS [(21, [7]); (20, [5; 6]); (10, [1; 2])] 3, [(1, 10)]) [(1, 20); (2, 21)] true
  = ((mkS [(3, [7]); (10, [1; 2; 5; 6]); (21, [7]); (20, [5; 6]); (10, [1; 2])] 4, [(1, 10); (2, 3)]), Ok tt).
Proof. reflexivity. Qed.

(* ---- remove / discard / keep: the map only ---- *)
Definition status_of (e : option err) : res unit := match e with None => Ok tt | Some x => Err x end.

Theorem gen_o_remove_sequences_eq : forall (taxa : list tid) (st : ost),
  gen_o_remove_sequences st taxa
  = ((fst st, fst (o_remove_rows (snd st) taxa)), status_of (snd (o_remove_rows (snd st) taxa))).
Proof.
  intros taxa st. unfold gen_o_remove_sequences. rewrite bind_ret. revert st.
  induction taxa as [|t ts IH]; intros [s sr]; cbn [for_each o_remove_rows fst snd]; [reflexivity|].
  unfold map_del. cbn [fst snd]. destruct (ahas t sr); cbn [bind_blk]; [|reflexivity].
  rewrite IH. reflexivity.
Qed.

Theorem gen_o_discard_sequences_eq : forall (taxa : list tid) (st : ost),
  gen_o_discard_sequences st taxa = ((fst st, o_discard_rows (snd st) taxa), Ok tt).
Proof.
  intros taxa st. unfold gen_o_discard_sequences, o_discard_rows. rewrite bind_ret. revert st.
  induction taxa as [|t ts IH]; intros [s sr]; cbn [for_each fold_left fst snd]; [reflexivity|].
  unfold map_del. cbn [fst snd]. destruct (ahas t sr); cbn [bind_blk catch_err err_eqb]; rewrite IH; reflexivity.
Qed.

Lemma adel_app_r' {V} k (a b : list (Z * V)) : ~ In k (keys a) -> adel k (a ++ b) = a ++ adel k b.
Proof.
  induction a as [|[k' v'] a IH]; simpl; intros H; [reflexivity|].
  destruct (Z.eqb_spec k k'); [exfalso; apply H; left; symmetry; assumption|].
  rewrite IH; [reflexivity|]. intro X. apply H. right. exact X.
Qed.

Lemma o_keep_loop (ts : list tid) (s : store) : forall (q p : orows) (sr : orows),
  NoDup (keys (p ++ q)) -> sr = o_keep_rows p ts ++ q ->
  for_each (map fst q)
    (fun taxon st =>
       bind_blk (if negb (py_set_contains taxon (py_set ts))
                 then bind_blk (map_del st taxon) (fun st0 => (st0, Ok tt))
                 else (st, Ok tt)) (fun st0 => (st0, Ok tt))) (s, sr)
  = ((s, o_keep_rows (p ++ q) ts), Ok tt).
Proof.
  induction q as [|[k v] q IH]; intros p sr ND E.
  - simpl. rewrite app_nil_r in *. rewrite E. reflexivity.
  - assert (NK : ~ In k (keys (o_keep_rows p ts))).
    { unfold o_keep_rows. rewrite (keys_filter_key (fun x => memb x ts)). intro X. apply filter_In in X. destruct X as [X _].
      unfold keys in ND. rewrite map_app in ND. simpl in ND. apply NoDup_remove_2 in ND. apply ND. apply in_app_iff. left. exact X. }
    assert (ND' : NoDup (keys ((p ++ [(k, v)]) ++ q))) by (rewrite <- app_assoc; exact ND).
    replace (p ++ (k, v) :: q) with ((p ++ [(k, v)]) ++ q) by (rewrite <- app_assoc; reflexivity).
    cbn [map fst for_each].
    change (py_set_contains k (py_set ts)) with (memb k ts).
    destruct (memb k ts) eqn:M; cbn [negb bind_blk].
    + apply IH; [exact ND'|]. rewrite E. unfold o_keep_rows. rewrite filter_app. simpl. rewrite M.
      rewrite <- app_assoc. reflexivity.
    + assert (Hk : ahas k sr = true).
      { rewrite E. apply ahas_In. unfold keys. rewrite map_app. apply in_app_iff. right. left. reflexivity. }
      unfold map_del at 1. cbn [fst snd]. rewrite Hk. cbn [bind_blk].
      apply IH; [exact ND'|].
      rewrite E. rewrite adel_app_r' by exact NK. cbn [adel]. rewrite Z.eqb_refl.
      unfold o_keep_rows. rewrite filter_app. simpl. rewrite M. rewrite app_nil_r. reflexivity.
Qed.

Theorem gen_o_keep_sequences_eq (st : ost) (taxa : list tid) :
  NoDup (keys (snd st)) ->
  gen_o_keep_sequences st taxa = ((fst st, o_keep_rows (snd st) taxa), Ok tt).
Proof.
  intros ND. unfold gen_o_keep_sequences. cbv zeta. rewrite bind_ret. unfold map_keys. destruct st as [s sr].
  apply (o_keep_loop taxa s sr [] sr ND). reflexivity.
Qed.

Example keep_hyp_sat : NoDup (keys (snd ((mkS [(10, [1; 2]); (11, [3])] 12, [(1, 10); (2, 11)]) : ost))).
Proof. repeat constructor; simpl; intuition discriminate. Qed.
