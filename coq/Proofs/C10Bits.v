(* C10: invariant over histories, stability / distinctness / single-bit-ness of the
   taxon bit, copies. *)
From Coq Require Import ZArith List Bool Lia Permutation.
From DV Require Import Model.PyPrims Model.C10Model Proofs.C10Lists Proofs.C10Inv.
Import ListNotations.
Open Scope Z_scope.

Lemma alookup_app {V} (k : Z) (l1 l2 : list (Z * V)) :
  alookup k (l1 ++ l2) = match alookup k l1 with Some v => Some v | None => alookup k l2 end.
Proof.
  induction l1 as [|[k' v] r IH]; simpl; [reflexivity|]. destruct (Z.eqb k k'); [reflexivity| exact IH].
Qed.

Section WithLower.
Variable lower : lbl -> lbl.

Lemma lift_ns_next w r o : w_next (fst (lift_ns w r o)) = w_next w.
Proof. destruct r; reflexivity. Qed.

Lemma lift_ns_lab w r o : w_lab (fst (lift_ns w r o)) = w_lab w.
Proof. destruct r; reflexivity. Qed.

Lemma step_next_mono w o : w_next w <= w_next (fst (step lower w o)).
Proof.
  destruct o; cbn [step]; try rewrite lift_ns_next; try (cbn [fst set_ns w_next]; lia).
  - destruct (new_taxon w l) as [[w' t]| |] eqn:N; cbn [fst]; try lia.
    apply new_taxon_spec in N. lia.
  - destruct (negb (is_mut (w_ns w))); cbn [fst]; try lia.
    destruct (new_taxa w ls []) as [[w' ts]| |] eqn:N; cbn [fst]; try lia.
    apply new_taxa_star in N. lia.
  - destruct (lookup_first lower w l cs); cbn [fst]; try lia.
    destruct (negb (is_mut (w_ns w))); cbn [fst]; try lia.
    destruct (new_taxon w l) as [[w' t]| |] eqn:N; cbn [fst]; try lia.
    apply new_taxon_spec in N. lia.
  - destruct (lookup_all lower w l cs); [cbn [fst]; lia| rewrite lift_ns_next; lia].
  - destruct (lookup_all lower w l cs); [cbn [fst]; lia| rewrite lift_ns_next; lia].
  - destruct (taxon_bitmask (w_ns w) t) as [[n' m]| |]; cbn [fst set_ns w_next]; lia.
  - destruct (taxa_bitmask (w_ns w) ts 0) as [[n' m]| |]; cbn [fst set_ns w_next]; lia.
  - destruct (bitmask_taxa_list _ _ _ _ _); cbn [fst]; lia.
  - destruct (alookup t (acc (w_ns w))); cbn [fst]; lia.
  - destruct (_ || _); [cbn [fst]; lia|].
    destruct (newick_groups _ _ _ _ _ _) as [[n' [l r]]| |]; cbn [fst set_ns w_next]; lia.
  - unfold deep_copy. cbn [fst w_next]. lia.
Qed.

(* ---------- 1. the invariant holds in every reachable state ---------- *)

Theorem ops_inv_l (w : world) (ops : list op) :
  Inv (w_ns w) -> Inv (w_ns (run_world lower w ops)).
Proof.
  revert w. unfold run_world. induction ops as [|o r IH]; intros w I; simpl; [exact I|].
  apply IH. apply step_inv. exact I.
Qed.

(* world-level side invariant: the members are existing objects *)
Definition WInv (w : world) : Prop :=
  Inv (w_ns w) /\ forall t, In t (taxa (w_ns w)) -> t < w_next w.

(* an operation can only be applied to objects that exist *)
Definition op_wf (w : world) (o : op) : Prop :=
  match o with
  | AddTaxon t => t < w_next w
  | AddTaxa ts => forall t, In t ts -> t < w_next w
  | _ => True
  end.

Fixpoint ops_wf (w : world) (ops : list op) : Prop :=
  match ops with
  | [] => True
  | o :: r => op_wf w o /\ ops_wf (fst (step lower w o)) r
  end.

Lemma deep_copy_members w x : In x (taxa (w_ns (deep_copy w))) ->
  w_next w <= x < w_next (deep_copy w).
Proof.
  unfold deep_copy. cbn [w_ns taxa w_next]. intros H. apply in_map_iff in H.
  destruct H as (t & E & M). subst x. apply ren_fresh_range. exact M.
Qed.

Theorem step_winv w o : WInv w -> op_wf w o -> WInv (fst (step lower w o)).
Proof.
  intros [I B] F. split; [apply step_inv; exact I|].
  intros x H. pose proof (step_next_mono w o) as Mn.
  destruct (op_eq_DeepCopy_dec o) as [E|E].
  - subst. cbn [step fst] in *. apply deep_copy_members in H. lia.
  - destruct (step_trans lower w o E) as [S|[S|(b & _ & S)]].
    + destruct (star_grow_members _ _ _ x S H) as [H1|[H1|[H1|H1]]].
      * apply B in H1. lia.
      * subst o. simpl in F. lia.
      * destruct H1 as (ts & Eo & Hin). subst o. simpl in F. apply F in Hin. lia.
      * lia.
    + apply star_shrinks in S. apply (s_taxa _ _ S) in H. apply B in H. lia.
    + rewrite S in H. unfold set_mut in H. cbn [taxa] in H. apply B in H. lia.
Qed.

Theorem ops_winv_l (w : world) (ops : list op) :
  WInv w -> ops_wf w ops -> WInv (run_world lower w ops).
Proof.
  revert w. unfold run_world. induction ops as [|o r IH]; intros w I F; simpl; [exact I|].
  destruct F as [F1 F2]. apply IH; [apply step_winv; assumption| exact F2].
Qed.

(* ---------- 2. a member's accession index (bit) never changes ---------- *)

Theorem bit_stable_l w o t i : Inv (w_ns w) -> o <> DeepCopy ->
  In t (taxa (w_ns w)) -> alookup t (acc (w_ns w)) = Some i ->
  In t (taxa (w_ns (fst (step lower w o)))) ->
  alookup t (acc (w_ns (fst (step lower w o)))) = Some i.
Proof.
  intros I ND M A M'. destruct (step_trans lower w o ND) as [S|[S|(b & _ & S)]].
  - apply star_grows in S. apply (g_acc _ _ S). exact A.
  - pose proof (step_inv lower w o I) as I'. apply (inv_dom _ I') in M'. destruct M' as [j Hj].
    apply star_shrinks in S. pose proof (s_acc _ _ S _ _ Hj) as Hj'. congruence.
  - rewrite S. exact A.
Qed.

(* all states a history passes through *)
Fixpoint trace (w : world) (ops : list op) : list world :=
  w :: match ops with [] => [] | o :: r => trace (fst (step lower w o)) r end.

Lemma trace_head w ops : In w (trace w ops).
Proof. destruct ops; left; reflexivity. Qed.

Theorem bit_stable_run_l w ops t i : WInv w -> ops_wf w ops ->
  (forall w', In w' (trace w ops) -> In t (taxa (w_ns w'))) ->
  alookup t (acc (w_ns w)) = Some i ->
  forall w', In w' (trace w ops) ->
    alookup t (acc (w_ns w')) = Some i
    /\ exists n', taxon_bitmask (w_ns w') t = Ok (n', Z.shiftl 1 i).
Proof.
  revert w. induction ops as [|o r IH]; intros w W F Hm A w' Hw'.
  - destruct Hw' as [E|[]]. subst w'. split; [exact A|].
    destruct (taxon_bitmask_member (w_ns w) t (proj1 W) (Hm w (trace_head w []))) as (n' & j & T & Aj).
    assert (j = i) by congruence. subst. eauto.
  - cbn [trace] in Hw'. destruct Hw' as [E|Hw'].
    + subst w'. split; [exact A|].
      destruct (taxon_bitmask_member (w_ns w) t (proj1 W) (Hm w (trace_head w _))) as (n' & j & T & Aj).
      assert (j = i) by congruence. subst. eauto.
    + destruct F as [F1 F2]. set (w1 := fst (step lower w o)) in *.
      assert (M1 : In t (taxa (w_ns w1))).
      { apply Hm. cbn [trace]. right. apply trace_head. }
      assert (M0 : In t (taxa (w_ns w))) by (apply Hm; apply trace_head).
      apply (IH w1); try assumption.
      * apply step_winv; assumption.
      * intros w2 H2. apply Hm. cbn [trace]. right. exact H2.
      * destruct (op_eq_DeepCopy_dec o) as [E|E].
        -- exfalso. subst o. unfold w1 in M1. cbn [step fst] in M1. apply deep_copy_members in M1.
           apply (proj2 W) in M0. lia.
        -- apply bit_stable_l; try assumption. exact (proj1 W).
Qed.

(* without identity-changing copies no side condition on object ids is needed *)
Theorem bit_stable_run_nodeep_l w ops t i : Inv (w_ns w) -> ~ In DeepCopy ops ->
  (forall w', In w' (trace w ops) -> In t (taxa (w_ns w'))) ->
  alookup t (acc (w_ns w)) = Some i ->
  forall w', In w' (trace w ops) -> alookup t (acc (w_ns w')) = Some i.
Proof.
  revert w. induction ops as [|o r IH]; intros w I ND Hm A w' Hw'.
  - destruct Hw' as [E|[]]. subst w'. exact A.
  - cbn [trace] in Hw'. destruct Hw' as [E|Hw']; [subst w'; exact A|].
    apply (IH (fst (step lower w o))); try assumption.
    + apply step_inv. exact I.
    + intros H. apply ND. right. exact H.
    + intros w2 H2. apply Hm. cbn [trace]. right. exact H2.
    + apply bit_stable_l; try assumption.
      * intros E. apply ND. left. exact E.
      * apply Hm. apply trace_head.
      * apply Hm. cbn [trace]. right. apply trace_head.
Qed.

(* ---------- copies ---------- *)

Lemma fresh_map_label (g : tid -> lbl) ts next t x :
  alookup t (fresh_map ts next) = Some x ->
  alookup x (map (fun p => (snd p, g (fst p))) (fresh_map ts next)) = Some (g t).
Proof.
  revert next. induction ts as [|y r IH]; intros next; simpl; [discriminate|].
  destruct (Z.eqb_spec t y) as [E|E].
  - subst. intros H; inversion H; subst. rewrite Z.eqb_refl. reflexivity.
  - intros H. pose proof (fresh_map_lookup _ _ _ _ H) as [_ R].
    destruct (Z.eqb_spec x next) as [E2|E2]; [lia|]. apply IH. exact H.
Qed.

Theorem deepcopy_preserves_bits_l w :
  Inv (w_ns w) ->
  let w' := fst (step lower w DeepCopy) in
  let f := dc_ren w in
  taxa (w_ns w') = map f (taxa (w_ns w))
  /\ (forall t, In t (taxa (w_ns w)) -> alookup (f t) (acc (w_ns w')) = alookup t (acc (w_ns w)))
  /\ (forall x i, alookup x (acc (w_ns w')) = Some i ->
        exists t, In t (taxa (w_ns w)) /\ x = f t /\ alookup t (acc (w_ns w)) = Some i)
  /\ (forall t, In t (taxa (w_ns w)) -> label_of w' (f t) = label_of w t)
  /\ (forall t, In t (taxa (w_ns w)) -> w_next w <= f t < w_next w')
  /\ (forall t1 t2, In t1 (taxa (w_ns w)) -> In t2 (taxa (w_ns w)) -> f t1 = f t2 -> t1 = t2)
  /\ count (w_ns w') = count (w_ns w)
  /\ is_mut (w_ns w') = is_mut (w_ns w) /\ is_cs (w_ns w') = is_cs (w_ns w).
Proof.
  intros I w' f. unfold w', f. cbn [step fst].
  split; [reflexivity|]. split; [intros; apply deep_copy_acc; assumption|].
  split; [intros; apply deep_copy_acc_inv; assumption|].
  split; [|split; [|split; [|repeat split]]].
  - intros t M. unfold label_of at 1. unfold deep_copy. cbn [w_lab]. rewrite alookup_app.
    destruct (fresh_map_member (taxa (w_ns w)) (w_next w) t M) as [x Ex].
    unfold dc_ren, ren. rewrite Ex.
    rewrite (fresh_map_label (label_of w) _ _ _ _ Ex). reflexivity.
  - intros t M. unfold deep_copy. cbn [w_next]. apply ren_fresh_range. exact M.
  - intros t1 t2. apply ren_fresh_inj.
Qed.

Theorem copy_preserves_bits_l w :
  step lower w CopyConstruct = (w, OUnit).
Proof. reflexivity. Qed.

(* ---------- 3. distinct single bits ---------- *)

Theorem single_bit_l n t : Inv n -> In t (taxa n) ->
  exists n' i, taxon_bitmask n t = Ok (n', Z.shiftl 1 i)
    /\ alookup t (acc n) = Some i /\ 0 <= i < count n
    /\ (forall k, Z.testbit (Z.shiftl 1 i) k = Z.eqb i k)
    /\ 0 < Z.shiftl 1 i <= all_taxa_bitmask n
    /\ same_core n n' /\ Inv n'.
Proof.
  intros I M. destruct (taxon_bitmask_member n t I M) as (n' & i & T & A).
  exists n', i. pose proof (inv_range _ I _ _ A) as R.
  destruct (taxon_bitmask_spec _ _ _ _ I T) as (I' & C & _).
  split; [exact T|]. split; [exact A|]. split; [exact R|].
  split; [|split; [split|split; assumption]].
  - intros k. apply shiftl1_testbit. lia.
  - apply shiftl1_pos. lia.
  - unfold all_taxa_bitmask. rewrite !shiftl1_pow by lia.
    assert (2 ^ i < 2 ^ count n) by (apply Z.pow_lt_mono_r; lia). lia.
Qed.

Theorem nonmember_no_bit_l n t : Inv n -> ~ In t (taxa n) -> taxon_bitmask n t = Err KeyErr.
Proof.
  intros I M. unfold taxon_bitmask. destruct (alookup t (bm n)) eqn:B.
  - exfalso. apply M. destruct (inv_bm _ I _ _ B) as (i & A & _). apply (inv_dom _ I). eauto.
  - destruct (alookup t (acc n)) eqn:A; [|reflexivity].
    exfalso. apply M. apply (inv_dom _ I). eauto.
Qed.

Theorem bits_distinct_l n t1 t2 : Inv n -> In t1 (taxa n) -> In t2 (taxa n) -> t1 <> t2 ->
  exists i1 i2 n1 n2,
    alookup t1 (acc n) = Some i1 /\ alookup t2 (acc n) = Some i2 /\ i1 <> i2
    /\ taxon_bitmask n t1 = Ok (n1, Z.shiftl 1 i1) /\ taxon_bitmask n t2 = Ok (n2, Z.shiftl 1 i2)
    /\ Z.shiftl 1 i1 <> Z.shiftl 1 i2 /\ Z.land (Z.shiftl 1 i1) (Z.shiftl 1 i2) = 0.
Proof.
  intros I M1 M2 N.
  destruct (taxon_bitmask_member n t1 I M1) as (n1 & i1 & T1 & A1).
  destruct (taxon_bitmask_member n t2 I M2) as (n2 & i2 & T2 & A2).
  exists i1, i2, n1, n2. pose proof (inv_range _ I _ _ A1). pose proof (inv_range _ I _ _ A2).
  assert (D : i1 <> i2) by (intros E; subst; apply N; eapply inv_inj; eauto).
  repeat split; try assumption.
  - intros E. apply shiftl1_inj in E; lia.
  - apply Z.eqb_eq. rewrite land_shiftl1_zero by lia. rewrite shiftl1_testbit by lia.
    destruct (Z.eqb_spec i1 i2); [contradiction| reflexivity].
Qed.

End WithLower.
