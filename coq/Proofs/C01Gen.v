(* C01, translator tie: the functions generated from the Python source (Gen/Bipartition.v) equal the
   hand-written model (Model/C01Model.v) on all inputs. *)
From Coq Require Import ZArith List Bool Lia.
From DV Require Import Model.PyPrims Model.Tree Gen.BitFns Model.C01Model Model.C01GenPrims Gen.Bipartition
  Proofs.C01Bits Proofs.C01Enc Proofs.C01Flags.
Import ListNotations.
Open Scope Z_scope.

(* ------------------------------------------------------------------------------------------ *)
(* taxonmodel                                                                                  *)

Lemma gen_taxon_bitmask_eq acc x : gen_taxon_bitmask (acc x) = taxon_bitmask acc x.
Proof. reflexivity. Qed.

Lemma gen_all_taxa_bitmask_eq c : gen_all_taxa_bitmask c = all_taxa_bitmask c.
Proof. reflexivity. Qed.

(* ------------------------------------------------------------------------------------------ *)
(* the bipartition objects encode_bipartitions creates and compiles                            *)

Lemma truthy_ob_is_true r : truthy_ob r = is_true r.
Proof. destruct r as [[|]|]; reflexivity. Qed.

(* Bipartition(compile_bipartition=False, is_mutable=True) with _leafset_bitmask and _is_rooted set *)
Definition fresh_bip (r : option bool) (ls : Z) : bip := mkB (Some 0) (Some ls) None None r (Some true).

Lemma gen_init_fresh :
  gen_init None None None None (Some (Some true)) (Some (Some false))
  = Ok (mkB (Some 0) (Some 0) None None None (Some true), tt).
Proof. reflexivity. Qed.

(* after compile_split_bitmask(tree_leafset_bitmask=tm, is_mutable=mut) *)
Definition compiled_bip (mut : bool) (r : option bool) (tm ls : Z) : bip :=
  if Z.eqb tm 0 then fresh_bip r ls
  else mkB (Some (compile_split r tm ls)) (Some ls) (Some tm) (Some (py_least_significant_set_bit tm)) r (Some mut).

Lemma gen_compile_split_fresh mut r tm ls :
  gen_compile_split_bitmask (fresh_bip r ls) None (Some tm) None (Some mut)
  = Ok (compiled_bip mut r tm ls, if Z.eqb tm 0 then None else b_split (compiled_bip mut r tm ls)).
Proof.
  unfold compiled_bip, compile_split. destruct (Z.eqb_spec tm 0) as [-> | N].
  - destruct r as [[|]|]; reflexivity.
  - assert (E : (tm =? 0) = false) by (apply Z.eqb_neq; exact N).
    unfold gen_compile_split_bitmask, gen_compile_tree_leafset_bitmask, fresh_bip, truthy_oz.
    repeat (cbn -[py_normalize_bitmask py_least_significant_set_bit Z.eqb]; rewrite ?E).
    destruct r as [[|]|]; cbn -[py_normalize_bitmask py_least_significant_set_bit Z.eqb]; reflexivity.
Qed.

Lemma compiled_bip_fields mut r tm ls :
  b_split (compiled_bip mut r tm ls) = Some (compile_split r tm ls) /\
  b_leafset (compiled_bip mut r tm ls) = Some ls /\ b_rooted (compiled_bip mut r tm ls) = r.
Proof.
  unfold compiled_bip, compile_split. destruct (Z.eqb tm 0); repeat split; reflexivity.
Qed.

Lemma gen_compile_edge (mut : bool) r tm ls :
  (if mut then gen_compile_mutable_bipartition_for_edge else gen_compile_immutable_bipartition_for_edge)
    (Some tm) (fresh_bip r ls) = Ok (compiled_bip mut r tm ls).
Proof.
  destruct mut; unfold gen_compile_mutable_bipartition_for_edge, gen_compile_immutable_bipartition_for_edge;
    rewrite gen_compile_split_fresh; reflexivity.
Qed.

(* ------------------------------------------------------------------------------------------ *)
(* the loop body = the model's enc_visit_f                                                     *)

Definition vc_of (r : option bool) (mt : tree * Z * list (Z * Z)) : vchild :=
  mkVC (fst (fst mt)) (fresh_bip r (snd (fst mt))) (map (fun e => (fst e, fresh_bip r (snd e))) (snd mt)).

Lemma fold_children r rs : forall a,
  fold_left (fun acc_ child => do leafset_bitmask <- acc_;;
                               (do w4 <- need_int (b_leafset (vc_bip child));; Ok (Z.lor leafset_bitmask w4)))
            (map (vc_of r) rs) (Ok a)
  = Ok (fold_left Z.lor (map (fun x => snd (fst x)) rs) a).
Proof. induction rs as [|x q IH]; intro a; [reflexivity|]. cbn [map fold_left]. cbn. apply IH. Qed.

Lemma concat_entries r rs :
  concat (map vc_entries (map (vc_of r) rs))
  = map (fun e => (fst e, fresh_bip r (snd e))) (concat (map snd rs)).
Proof.
  induction rs as [|x q IH]; [reflexivity|]. cbn [map concat]. rewrite IH, map_app. reflexivity.
Qed.

Lemma gen_encode_visit_eq su acc r i x l e hp rs :
  gen_encode_visit su acc r (mkNV i x l e hp (map (vc_of r) rs)) = Ok (vc_of r (enc_visit_f su acc i x l e rs)).
Proof.
  unfold gen_encode_visit. cbn [nv_children nv_length nv_taxon nv_has_parent].
  unfold py_len. rewrite map_length.
  destruct rs as [|r1 [|r2 q]].
  - (* leaf *)
    cbn [length map]. change (Z.of_nat 0 =? 1) with false. change (Z.of_nat 0 =? 0) with true. cbn [andb].
    unfold enc_visit_f. destruct su; cbn [enc_visit]; destruct x as [tx|]; reflexivity.
  - (* one child *)
    cbn [length]. change (Z.of_nat 1 =? 1) with true. change (Z.of_nat 1 =? 0) with false.
    destruct su; cbn [andb].
    + destruct r1 as [[c' m] en]. unfold enc_visit_f. cbn [enc_visit fst snd].
      destruct c' as [ic xc lc ec kc]. destruct hp, e as [eh|], ec as [ecv|]; cbn; rewrite ?app_nil_r; reflexivity.
    + rewrite (fold_children r [r1] 0). cbn [bind]. rewrite gen_init_fresh. cbn [bind fst].
      unfold enc_visit_f. cbn. rewrite ?app_nil_r. unfold vc_of. cbn [fst snd]. f_equal. f_equal.
      rewrite map_app. reflexivity.
  - (* at least two children *)
    set (rs := r1 :: r2 :: q).
    assert (L1 : (Z.of_nat (length rs) =? 1) = false) by (unfold rs; cbn [length]; lia).
    assert (L0 : (Z.of_nat (length rs) =? 0) = false) by (unfold rs; cbn [length]; lia).
    rewrite L1, L0. cbn [andb]. rewrite (fold_children r rs 0). cbn [bind]. rewrite gen_init_fresh. cbn [bind fst].
    unfold vs_update_bip, vs_set_bip, vs_append, vs_init. cbn [vs_bip vs_child_length vs_spliced vs_appended bind].
    unfold finish_visit. cbn [vs_spliced vs_bip vs_appended nv_children nv_id nv_taxon nv_label nv_length].
    rewrite concat_entries.
    assert (V : enc_visit_f su acc i x l e rs =
                (T i x l e (map (fun r0 => fst (fst r0)) rs), fold_left Z.lor (map (fun r0 => snd (fst r0)) rs) 0,
                 concat (map snd rs) ++ [(i, fold_left Z.lor (map (fun r0 => snd (fst r0)) rs) 0)])).
    { unfold enc_visit_f. destruct su; reflexivity. }
    rewrite V. unfold vc_of. cbn [fst snd]. rewrite map_app, map_map. cbn [map fst snd vc_tree].
    unfold fresh_bip, set_b_leafset, set_b_rooted. cbn. reflexivity.
Qed.

(* the loop = the model's enc_node_f *)
Lemma for_postorder_eq su acc r : forall t hp,
  for_postorder (gen_encode_visit su acc r) hp t = Ok (vc_of r (enc_node_f su acc t)).
Proof.
  induction t as [i x l e ks IH] using tree_ind'. intro hp. cbn [for_postorder enc_node_f].
  assert (G : forall done,
    (fix go (ks0 : list tree) (done0 : list vchild) {struct ks0} : res vchild :=
       match ks0 with
       | [] => gen_encode_visit su acc r (mkNV i x l e hp (rev done0))
       | k :: r0 => match for_postorder (gen_encode_visit su acc r) true k with
                    | Ok c => go r0 (c :: done0)
                    | Err er => Err er
                    | OutOfFuel => OutOfFuel
                    end
       end) ks done
    = gen_encode_visit su acc r (mkNV i x l e hp (rev done ++ map (vc_of r) (map (enc_node_f su acc) ks)))).
  { induction IH as [|k q Hk _ IHq]; intro done.
    - cbn [map]. rewrite app_nil_r. reflexivity.
    - rewrite (Hk true). rewrite IHq. cbn [rev map]. rewrite <- app_assoc. reflexivity. }
  rewrite (G []). cbn [rev app]. apply gen_encode_visit_eq.
Qed.

(* ------------------------------------------------------------------------------------------ *)
(* encode_bipartitions                                                                         *)

Lemma map_res_compile (mut : bool) r tm : forall (entries : list (Z * Z)),
  map_res (fun e => do b <- (if mut then gen_compile_mutable_bipartition_for_edge
                             else gen_compile_immutable_bipartition_for_edge) (Some tm) (snd e);; Ok (fst e, b))
          (map (fun e => (fst e, fresh_bip r (snd e))) entries)
  = Ok (map (fun e => (fst e, compiled_bip mut r tm (snd e))) entries).
Proof.
  induction entries as [|e q IH]; [reflexivity|]. cbn [map map_res fst snd].
  rewrite (gen_compile_edge mut r tm (snd e)). cbn [bind]. rewrite IH. reflexivity.
Qed.

(* the generated encode_bipartitions computes, for all flags, trees, rooting states and accession maps,
   exactly the model's encode_f: same resulting structure, same rooting flag, and for every edge of
   tree_edges (in order) the bipartition whose leafset / split masks are the model's *)
Lemma gen_encode_bipartitions_eq su cb ss mut acc rooted t :
  let R := encode_f su cb acc rooted t in
  let tm := fst (snd (last (r_edges R) (0, (0, 0)))) in
  gen_encode_bipartitions su cb ss mut acc rooted t =
  Ok (Some (mkGE (r_tree R) (r_rooted R)
                 (map (fun e => (fst e, compiled_bip mut (r_rooted R) tm (fst (snd e)))) (r_edges R))
                 (if ss then None
                  else Some (map (fun e => compiled_bip mut (r_rooted R) tm (fst (snd e))) (r_edges R))))).
Proof.
  intros R tm. unfold gen_encode_bipartitions. cbn [negb].
  assert (PC : (if (cb && (negb (truthy_ob rooted) && (py_len (t_kids t) =? 2)))%bool
                then prim_collapse_basal_bifurcation t rooted else (t, rooted))
               = pre_collapse_f cb rooted t).
  { unfold pre_collapse_f, pre_collapse, prim_collapse_basal_bifurcation. rewrite truthy_ob_is_true.
    unfold py_len, nkids. destruct cb; cbn [andb]; [| reflexivity].
    destruct (negb (is_true rooted) && (Z.of_nat (length (t_kids t)) =? 2)); [| reflexivity].
    destruct (collapse_basal t); reflexivity. }
  rewrite PC. destruct (pre_collapse_f cb rooted t) as [t1 rooted1] eqn:EP.
  rewrite for_postorder_eq. cbn [bind]. rewrite (enc_node_f_spec su acc t1). unfold vc_of. cbn [fst snd vc_entries vc_bip vc_tree].
  change (b_leafset (fresh_bip rooted1 (cmask acc t1))) with (Some (cmask acc t1)).
  rewrite (map_res_compile mut rooted1 (cmask acc t1) (entries_of acc (post_f su t1))). cbn [bind].
  (* the model side *)
  assert (RS : R = mkEnc (post_f su t1) rooted1 (spec_edges acc rooted1 (cmask acc t) (post_f su t1))
                     (map snd (spec_edges acc rooted1 (cmask acc t) (post_f su t1)))).
  { unfold R. rewrite encode_f_spec. cbv zeta. rewrite EP. reflexivity. }
  assert (CM : cmask acc t1 = cmask acc t).
  { unfold cmask. replace t1 with (fst (pre_collapse_f cb rooted t)) by (rewrite EP; reflexivity).
    rewrite leaf_taxa_pre_collapse_f. reflexivity. }
  assert (TM : tm = cmask acc t).
  { unfold tm. rewrite RS. cbn [r_edges]. unfold spec_edges.
    destruct (post_f su t1) as [i x l e ks] eqn:EPF. rewrite postorder_unfold, map_app. cbn [map].
    rewrite last_last. cbn [fst snd t_id]. rewrite <- EPF. unfold cmask. rewrite leaf_taxa_post_f. fold (cmask acc t1). exact CM. }
  rewrite RS. cbn [r_tree r_rooted r_edges]. rewrite TM, CM. unfold spec_edges, entries_of. rewrite !map_map. cbn [fst snd].
  destruct ss; reflexivity.
Qed.

(* the tree mask the second pass uses is the model's *)
Lemma last_edge_mask su cb acc rooted t :
  fst (snd (last (r_edges (encode_f su cb acc rooted t)) (0, (0, 0)))) = cmask acc t.
Proof.
  rewrite encode_f_spec. cbv zeta. cbn [r_edges]. unfold spec_edges.
  destruct (post_f su (fst (pre_collapse_f cb rooted t))) as [i x l e ks] eqn:EPF.
  rewrite postorder_unfold, map_app. cbn [map]. rewrite last_last. cbn [fst snd]. rewrite <- EPF.
  unfold cmask. rewrite leaf_taxa_post_f, leaf_taxa_pre_collapse_f. reflexivity.
Qed.

Lemma gen_encode_masks_exact_l su cb ss mut acc rooted t g :
  (forall x, In (Some x) (leaf_taxa t) -> 0 <= acc x) ->
  gen_encode_bipartitions su cb ss mut acc rooted t = Ok (Some g) ->
  Forall2 (fun n e =>
             fst e = t_id n /\
             (exists ls, b_leafset (snd e) = Some ls /\
                forall i, 0 <= i -> (Z.testbit ls i = true <-> exists x, In (Some x) (leaf_taxa n) /\ acc x = i)))
          (postorder (ge_tree g)) (ge_edges g)
  /\ map (fun e => (fst e, (b_leafset (snd e), b_split (snd e)))) (ge_edges g)
     = map (fun e => (fst e, (Some (fst (snd e)), Some (snd (snd e))))) (r_edges (encode_f su cb acc rooted t)).
Proof.
  intros Hacc H. rewrite gen_encode_bipartitions_eq in H. inversion H; subst g; clear H. cbn [ge_tree ge_edges].
  rewrite last_edge_mask.
  destruct (leafset_mask_exact_f_l su cb acc rooted t Hacc) as [F _].
  set (R := encode_f su cb acc rooted t) in *.
  split.
  - clear - F. induction F as [|n e ns es [E1 E2] _ IH]; cbn [map]; constructor; [| exact IH].
    cbn [fst snd]. split; [exact E1|]. exists (fst (snd e)). split; [apply compiled_bip_fields | exact E2].
  - rewrite map_map. cbn [fst snd]. apply map_ext_in. intros e He.
    destruct (compiled_bip_fields mut (r_rooted R) (cmask acc t) (fst (snd e))) as (A & B & _).
    rewrite A, B. f_equal. f_equal. f_equal.
    (* the model's own split of this edge *)
    unfold R in He. rewrite encode_f_spec in He. cbv zeta in He. cbn [r_edges] in He. unfold spec_edges in He.
    apply in_map_iff in He. destruct He as (n & <- & _). cbn [fst snd].
    unfold R. rewrite encode_f_spec. reflexivity.
Qed.
