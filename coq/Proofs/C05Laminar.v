(* C05: the transcribed tree-building insertion of Tree.from_split_bitmasks realises exactly
   the set-level greedy selection (laminar-family invariant) *)
From Coq Require Import ZArith List Bool Lia Permutation.
From DV Require Import Model.PyPrims Gen.BitFns Model.C05Model Model.C05Spec
     Proofs.C05Lists Proofs.C05Consensus Proofs.C05Trees Proofs.C05Bits.
Import ListNotations.
Open Scope Z_scope.

(* ---------------------------------------------------------------- compat = nested or disjoint *)

Lemma compat_iff all a b : all <> 0 -> sub a all -> sub b all -> (compat all a b = true <-> nd a b).
Proof.
  intros NZ Ha Hb. unfold compat, py_is_compatible_bitmasks.
  apply Z.eqb_neq in NZ. rewrite NZ. cbv beta iota zeta. simpl negb. cbv beta iota zeta.
  assert (Ea : Z.land all a = a) by (rewrite Z.land_comm; exact Ha).
  assert (Eb : Z.land all b = b) by (rewrite Z.land_comm; exact Hb).
  rewrite Ea, Eb. split.
  - destruct (0 =? Z.land a b) eqn:T1.
    { intros _. left. apply Z.eqb_eq in T1. unfold disj. congruence. }
    destruct (0 =? Z.land a (Z.lxor a b)) eqn:T2.
    { intros _. right. left. apply Z.eqb_eq in T2. clear T1 Ea Eb NZ Ha Hb. zbits. }
    destruct (0 =? Z.land (Z.lxor all a) b) eqn:T3.
    { intros _. right. right. apply Z.eqb_eq in T3. clear T1 T2 Ea Eb NZ. zbits. }
    destruct (0 =? Z.land (Z.lxor all a) (Z.lxor a b)) eqn:T4; [|discriminate].
    intros _. right. right. apply Z.eqb_eq in T4. clear T1 T2 T3 Ea Eb NZ. zbits.
  - intros [H | [H | H]].
    + unfold disj in H. rewrite H. reflexivity.
    + destruct (0 =? Z.land a b); [reflexivity|].
      assert (X : Z.land a (Z.lxor a b) = 0) by (clear Ea Eb NZ Ha Hb; zbits).
      rewrite X. reflexivity.
    + destruct (0 =? Z.land a b); [reflexivity|].
      destruct (0 =? Z.land a (Z.lxor a b)); [reflexivity|].
      assert (X : Z.land (Z.lxor all a) b = 0) by (clear Ea Eb NZ Hb; zbits).
      rewrite X. reflexivity.
Qed.

(* ---------------------------------------------------------------- well-formed clade trees *)

Fixpoint ct_masks (t : ctree) : list Z :=
  match t with CT m ks => m :: flat_map ct_masks ks end.

Fixpoint wf (t : ctree) : Prop :=
  match t with
  | CT m ks =>
    match ks with
    | [] => atom m
    | _ => (2 <= length ks)%nat /\ m = orl (map ct_mask ks) /\ pdisj (map ct_mask ks) /\
           (fix all (l : list ctree) : Prop :=
              match l with [] => True | k :: r => wf k /\ all r end) ks
    end
  end.

Lemma wf_all_forall (l : list ctree) :
  (fix all (l : list ctree) : Prop := match l with [] => True | k :: r => wf k /\ all r end) l
  <-> Forall wf l.
Proof.
  induction l as [|k r IH]; simpl.
  - split; [constructor | trivial].
  - rewrite IH. split; [intros [A B]; now constructor | intro F; inversion F; tauto].
Qed.

Lemma wf_node m ks : ks <> [] ->
  (wf (CT m ks) <-> (2 <= length ks)%nat /\ m = orl (map ct_mask ks) /\ pdisj (map ct_mask ks) /\ Forall wf ks).
Proof.
  intro NE. destruct ks as [|k r]; [congruence|].
  change (wf (CT m (k :: r))) with
      ((2 <= length (k :: r))%nat /\ m = orl (map ct_mask (k :: r)) /\ pdisj (map ct_mask (k :: r)) /\
       (fix all (l : list ctree) : Prop := match l with [] => True | k :: r => wf k /\ all r end) (k :: r)).
  rewrite wf_all_forall. reflexivity.
Qed.

Lemma wf_leaf m : wf (CT m []) <-> atom m.
Proof. reflexivity. Qed.

Lemma wf_mask_nonzero : forall t, wf t -> ct_mask t <> 0.
Proof.
  induction t as [m ks IH] using ctree_ind'. intro W. simpl.
  destruct ks as [|k r].
  - apply wf_leaf in W. apply W.
  - apply wf_node in W; [|discriminate]. destruct W as [_ [E [_ F]]].
    inversion F as [|? ? Wk _]. subst. inversion IH as [|? ? IHk _]. subst.
    intro X. apply (IHk Wk).
    assert (S : sub (ct_mask k) (orl (map ct_mask (k :: r)))) by (apply sub_orl_in; now left).
    rewrite X in S. now apply sub_zero.
Qed.

Lemma masks_sub : forall t, wf t -> forall c, In c (ct_masks t) -> sub c (ct_mask t).
Proof.
  induction t as [m ks IH] using ctree_ind'. intros W c I. simpl in I. simpl ct_mask.
  destruct I as [I|I]; [subst; apply sub_refl|].
  destruct ks as [|k0 r0]; [destruct I|].
  apply wf_node in W; [|discriminate]. destruct W as [_ [E [_ F]]].
  apply in_flat_map in I. destruct I as [k [Ik Ic]].
  rewrite Forall_forall in IH, F.
  eapply sub_trans; [apply (IH k Ik (F k Ik) c Ic)|].
  rewrite E. apply sub_orl_in. now apply in_map.
Qed.

Lemma masks_nonzero : forall t, wf t -> forall c, In c (ct_masks t) -> c <> 0.
Proof.
  induction t as [m ks IH] using ctree_ind'. intros W c I.
  simpl in I. destruct I as [I|I].
  - subst. apply (wf_mask_nonzero (CT c ks) W).
  - destruct ks as [|k0 r0]; [destruct I|].
    apply wf_node in W; [|discriminate]. destruct W as [_ [_ [_ F]]].
    apply in_flat_map in I. destruct I as [k [Ik Ic]].
    rewrite Forall_forall in IH, F. exact (IH k Ik (F k Ik) c Ic).
Qed.

Lemma clades_head m ks : ks <> [] -> In m (ct_clades (CT m ks)).
Proof. intro NE. rewrite ct_clades_node by assumption. now left. Qed.

Lemma masks_split : forall t c, In c (ct_masks t) <-> In c (ct_clades t) \/ In c (ct_leaves t).
Proof.
  induction t as [m ks IH] using ctree_ind'. intro c.
  destruct ks as [|k0 r0].
  - simpl. tauto.
  - rewrite ct_clades_node, ct_leaves_node by discriminate.
    change (ct_masks (CT m (k0 :: r0))) with (m :: flat_map ct_masks (k0 :: r0)).
    set (ks := k0 :: r0) in *. rewrite Forall_forall in IH. split.
    + intros [H | H]; [left; now left|]. apply in_flat_map in H. destruct H as [k [Ik Ic]].
      apply (IH k Ik) in Ic. destruct Ic as [Ic|Ic]; [left; right | right]; apply in_flat_map; now exists k.
    + intros [[H | H] | H]; [now left | right | right]; apply in_flat_map in H; destruct H as [k [Ik Ic]];
        apply in_flat_map; exists k; (split; [assumption|]); apply (IH k Ik); tauto.
Qed.

(* ---------------------------------------------------------------- one insertion *)

Definition Res (s : Z) (t t' : ctree) : Prop :=
  (In s (ct_masks t) /\ t' = t) \/
  (~ In s (ct_masks t) /\ (forall c, In c (ct_masks t) -> nd s c) /\
   (forall c, In c (ct_clades t') <-> c = s \/ In c (ct_clades t))) \/
  (~ In s (ct_masks t) /\ (exists c, In c (ct_clades t) /\ ~ nd s c) /\ t' = t).

Lemma map_if_id {A} (p : A -> bool) (f : A -> A) l :
  (forall x, In x l -> p x = false) -> map (fun x => if p x then f x else x) l = l.
Proof.
  induction l as [|x r IH]; intro H; simpl; [reflexivity|].
  rewrite (H x (or_introl eq_refl)). f_equal. apply IH. intros; apply H; now right.
Qed.

Lemma sub_two_disj s a b : sub s a -> sub s b -> disj a b -> s = 0.
Proof. intros H1 H2 H3. zbits. Qed.

Lemma disj_under s c k0 k : sub c k -> disj k0 k -> sub s k0 -> disj s c.
Proof. intros H1 H2 H3. zbits. Qed.

Lemma land_comm_zero a b : Z.land a b = 0 -> Z.land b a = 0.
Proof. now rewrite Z.land_comm. Qed.

Lemma existsb_false_all {A} (f : A -> bool) l : existsb f l = false -> forall x, In x l -> f x = false.
Proof.
  intros E x I. destruct (f x) eqn:F; [|reflexivity].
  assert (existsb f l = true) by (apply existsb_exists; now exists x). congruence.
Qed.

Lemma ct_insert_spec s : s <> 0 -> forall t, wf t -> sub s (ct_mask t) ->
  ct_mask (ct_insert s t) = ct_mask t /\ wf (ct_insert s t) /\ Res s t (ct_insert s t).
Proof.
  intro NZ. induction t as [m ks IH] using ctree_ind'. intros W S. simpl in S.
  destruct ks as [|kh kt] eqn:Eks.
  { (* leaf *)
    apply wf_leaf in W. destruct W as [M0 At].
    assert (s = m).
    { destruct (At s) as [X|X]; rewrite Z.land_comm in X; unfold sub in S; congruence. }
    subst s. simpl. rewrite Z.eqb_refl. repeat split; [exact M0 | exact At |].
    left. split; [now left | reflexivity]. }
  rewrite <- Eks in *. assert (NE : ks <> []) by (rewrite Eks; discriminate). clear Eks kh kt.
  pose proof W as W0. apply wf_node in W; [|assumption]. destruct W as [Len [Em [PD FW]]].
  rewrite Forall_forall in IH, FW.
  simpl ct_insert.
  destruct (existsb (fun k => contains (ct_mask k) s) ks) eqn:Ex.
  - (* a child contains s: descend *)
    apply existsb_exists in Ex. destruct Ex as [k0 [Ik0 C0]]. apply contains_sub in C0.
    destruct (in_split k0 ks Ik0) as [l1 [l2 Esplit]].
    assert (Others : forall k, In k (l1 ++ l2) -> contains (ct_mask k) s = false).
    { intros k Ik. destruct (contains (ct_mask k) s) eqn:C; [|reflexivity]. exfalso.
      apply contains_sub in C. apply NZ.
      apply (sub_two_disj s (ct_mask k0) (ct_mask k) C0 C).
      apply (pdisj_in (map ct_mask ks) PD (map ct_mask l1) (ct_mask k0) (map ct_mask l2)).
      - rewrite Esplit, map_app. reflexivity.
      - rewrite <- map_app. now apply in_map. }
    destruct (IH k0 Ik0 (FW k0 Ik0) C0) as [M0 [W0' R0]].
    set (t0' := ct_insert s k0) in *.
    assert (Emap : map (fun k => if contains (ct_mask k) s then ct_insert s k else k) ks = l1 ++ t0' :: l2).
    { rewrite Esplit, map_app. simpl. rewrite (proj2 (contains_sub _ _) C0). fold t0'.
      rewrite !map_if_id; [reflexivity | |]; intros x Ix; apply Others; apply in_or_app; tauto. }
    rewrite Emap.
    assert (Emasks : map ct_mask (l1 ++ t0' :: l2) = map ct_mask ks).
    { rewrite Esplit, !map_app. simpl. now rewrite M0. }
    assert (NE' : l1 ++ t0' :: l2 <> []) by (intro X; apply app_eq_nil in X; destruct X; discriminate).
    split; [reflexivity|]. split.
    { apply wf_node; [assumption|]. rewrite Emasks. repeat split; try assumption.
      - rewrite app_length in *. rewrite Esplit, app_length in Len. simpl in *. lia.
      - apply Forall_forall. intros x Ix. apply in_app_or in Ix. destruct Ix as [Ix | [Ix | Ix]].
        + apply FW. rewrite Esplit. apply in_or_app. now left.
        + now subst.
        + apply FW. rewrite Esplit. apply in_or_app. right. now right. }
    (* s is not m, and not below another child *)
    assert (Sm : s <> m).
    { intro X. subst s.
      assert (exists k1, In k1 (l1 ++ l2)) as [k1 Ik1].
      { rewrite Esplit, app_length in Len. simpl in Len.
        destruct l1 as [|a l1']; [destruct l2 as [|b l2']; [simpl in Len; lia | exists b; now left] | exists a; now left]. }
      assert (Ik1' : In k1 ks) by (rewrite Esplit; apply in_app_or in Ik1; apply in_or_app; simpl; tauto).
      apply (wf_mask_nonzero k1 (FW k1 Ik1')).
      assert (S1 : sub (ct_mask k1) m) by (rewrite Em; apply sub_orl_in; now apply in_map).
      assert (D : disj (ct_mask k0) (ct_mask k1)).
      { apply (pdisj_in (map ct_mask ks) PD (map ct_mask l1) (ct_mask k0) (map ct_mask l2)).
        - rewrite Esplit, map_app. reflexivity.
        - rewrite <- map_app. now apply in_map. }
      clear - S1 C0 D. zbits. }
    assert (NotOther : forall k, In k (l1 ++ l2) -> ~ In s (ct_masks k)).
    { intros k Ik I.
      assert (Ik' : In k ks) by (rewrite Esplit; apply in_app_or in Ik; apply in_or_app; simpl; tauto).
      pose proof (masks_sub k (FW k Ik') s I) as X. apply contains_sub in X.
      rewrite (Others k Ik) in X. discriminate. }
    assert (NotIn : ~ In s (ct_masks k0) -> ~ In s (ct_masks (CT m ks))).
    { intros N0 I. simpl in I. destruct I as [I|I]; [now apply Sm|].
      apply in_flat_map in I. destruct I as [k [Ik Ic]]. rewrite Esplit in Ik.
      apply in_app_or in Ik. destruct Ik as [Ik | [Ik | Ik]].
      - apply (NotOther k); [apply in_or_app; now left | assumption].
      - subst. contradiction.
      - apply (NotOther k); [apply in_or_app; now right | assumption]. }
    destruct R0 as [[I0 E0] | [[N0 [ND0 CL0]] | [N0 [[c [Ic Nc]] E0]]]].
    + left. split.
      * simpl. right. apply in_flat_map. now exists k0.
      * rewrite E0, <- Esplit. reflexivity.
    + right. left. split; [now apply NotIn|]. split.
      * intros c Ic. simpl in Ic. destruct Ic as [Ic|Ic]; [subst; right; now left|].
        apply in_flat_map in Ic. destruct Ic as [k [Ik Ic]]. rewrite Esplit in Ik.
        assert (Oth : In k (l1 ++ l2) -> nd s c).
        { intro Ik'. left.
          assert (Ik'' : In k ks) by (rewrite Esplit; apply in_app_or in Ik'; apply in_or_app; simpl; tauto).
          apply (disj_under s c (ct_mask k0) (ct_mask k)); [apply (masks_sub k (FW k Ik'') c Ic) | | assumption].
          apply (pdisj_in (map ct_mask ks) PD (map ct_mask l1) (ct_mask k0) (map ct_mask l2)).
          - rewrite Esplit, map_app. reflexivity.
          - rewrite <- map_app. now apply in_map. }
        apply in_app_or in Ik. destruct Ik as [Ik | [Ik | Ik]].
        -- apply Oth. apply in_or_app. now left.
        -- subst. now apply ND0.
        -- apply Oth. apply in_or_app. now right.
      * intro c. rewrite (ct_clades_node m _ NE'), (ct_clades_node m ks NE), Esplit.
        simpl In. rewrite !flat_map_app. simpl flat_map. rewrite !in_app_iff, CL0. tauto.
    + right. right. split; [now apply NotIn|]. split.
      * exists c. split; [|assumption]. rewrite (ct_clades_node m ks NE). right.
        apply in_flat_map. now exists k0.
      * rewrite E0, <- Esplit. reflexivity.
  - (* no child contains s *)
    pose proof (existsb_false_all _ _ Ex) as NoC.
    assert (NoSub : forall k, In k ks -> ~ sub s (ct_mask k)).
    { intros k Ik X. apply contains_sub in X. rewrite (NoC k Ik) in X. discriminate. }
    destruct (m =? s) eqn:Ems.
    { apply Z.eqb_eq in Ems. subst s. split; [reflexivity|]. split; [exact W0|].
      left. split; [now left | reflexivity]. }
    apply Z.eqb_neq in Ems.
    assert (NotIn : ~ In s (ct_masks (CT m ks))).
    { intro I. simpl in I. destruct I as [I|I]; [congruence|].
      apply in_flat_map in I. destruct I as [k [Ik Ic]].
      apply (NoSub k Ik). apply (masks_sub k (FW k Ik) s Ic). }
    set (p := fun k : ctree => negb (Z.land (ct_mask k) s =? 0)).
    set (inside := filter p ks).
    set (outside := filter (fun k => Z.land (ct_mask k) s =? 0) ks).
    assert (Eout : filter (fun k => negb (p k)) ks = outside).
    { unfold outside, p. apply filter_ext. intro k. now rewrite negb_involutive. }
    assert (Epart : m = Z.lor (orl (map ct_mask inside)) (orl (map ct_mask outside))).
    { rewrite Em, (orl_partition ct_mask p ks), Eout. reflexivity. }
    assert (Dout : disj (orl (map ct_mask outside)) s).
    { apply orl_disj. intros x Ix. apply in_map_iff in Ix. destruct Ix as [k [E Ik]]. subst x.
      apply filter_In in Ik. destruct Ik as [_ Z0]. apply Z.eqb_eq in Z0. exact Z0. }
    assert (Sin : sub s (orl (map ct_mask inside))).
    { clear - S Epart Dout. rewrite Epart in S. zbits. }
    change (fold_left Z.lor (map ct_mask inside) 0) with (orl (map ct_mask inside)).
    destruct (orl (map ct_mask inside) =? s) eqn:Enew.
    + (* the children meeting s add up to s: new node *)
      apply Z.eqb_eq in Enew.
      assert (InSub : forall k, In k inside -> sub (ct_mask k) s).
      { intros k Ik. rewrite <- Enew. apply sub_orl_in. now apply in_map. }
      assert (InKs : forall k, In k inside -> In k ks) by (intros k Ik; apply filter_In in Ik; tauto).
      assert (OutKs : forall k, In k outside -> In k ks) by (intros k Ik; apply filter_In in Ik; tauto).
      assert (Lin : (2 <= length inside)%nat).
      { destruct inside as [|a [|b r]] eqn:Ei; simpl; try lia.
        - exfalso. apply NZ. rewrite <- Enew. reflexivity.
        - exfalso. apply (NoSub a).
          + apply InKs. now left.
          + rewrite <- Enew. simpl map. rewrite orl_cons. unfold orl. simpl. rewrite Z.lor_0_r. apply sub_refl. }
      assert (NEin : inside <> []) by (intro X; rewrite X in Lin; simpl in Lin; lia).
      assert (NEout : outside <> []).
      { intro X. apply Ems. rewrite Epart, X, Enew. unfold orl at 1. simpl. apply Z.lor_0_r. }
      assert (NE' : outside ++ [CT s inside] <> []) by (intro X; apply app_eq_nil in X; destruct X; discriminate).
      split; [reflexivity|]. split.
      { apply wf_node; [assumption|]. repeat split.
        - rewrite app_length. simpl. destruct outside; [congruence | simpl; lia].
        - rewrite map_app, orl_app. change (map ct_mask [CT s inside]) with [s].
          assert (E1 : orl [s] = s) by reflexivity.
          rewrite E1, Epart, Enew. apply Z.lor_comm.
        - rewrite map_app. simpl map. apply pdisj_snoc.
          + unfold outside. now apply pdisj_map_filter.
          + intros x Ix. apply in_map_iff in Ix. destruct Ix as [k [E Ik]]. subst x.
            apply filter_In in Ik. destruct Ik as [_ Z0]. apply Z.eqb_eq in Z0. exact Z0.
        - apply Forall_forall. intros x Ix. apply in_app_or in Ix. destruct Ix as [Ix | [Ix | []]].
          + apply FW. now apply OutKs.
          + rewrite <- Ix. apply wf_node; [assumption|]. repeat split.
            * exact Lin.
            * now symmetry.
            * unfold inside. now apply pdisj_map_filter.
            * apply Forall_forall. intros y Iy. apply FW. now apply InKs. }
      right. left. split; [exact NotIn|]. split.
      * intros c Ic. simpl in Ic. destruct Ic as [Ic|Ic]; [rewrite <- Ic; right; now left|].
        apply in_flat_map in Ic. destruct Ic as [k [Ik Ic]].
        pose proof (masks_sub k (FW k Ik) c Ic) as Sc.
        destruct (Z.land (ct_mask k) s =? 0) eqn:Z0.
        -- left. apply Z.eqb_eq in Z0. clear - Sc Z0. zbits.
        -- right. right. eapply sub_trans; [exact Sc|]. apply InSub. apply filter_In. split; [assumption|].
           unfold p. now rewrite Z0.
      * intro c. rewrite (ct_clades_node m _ NE'), (ct_clades_node m ks NE).
        rewrite flat_map_app.
        change (flat_map ct_clades [CT s inside]) with (ct_clades (CT s inside) ++ []).
        rewrite app_nil_r, (ct_clades_node s inside NEin).
        split.
        -- intros [H | H]; [right; now left|]. apply in_app_or in H. destruct H as [H | [H | H]].
           ++ apply in_flat_map in H. destruct H as [k [Ik Ic]]. right. right. apply in_flat_map.
              exists k. split; [now apply OutKs | assumption].
           ++ left. now symmetry.
           ++ apply in_flat_map in H. destruct H as [k [Ik Ic]]. right. right. apply in_flat_map.
              exists k. split; [now apply InKs | assumption].
        -- intros [H | [H | H]].
           ++ right. apply in_or_app. right. left. now symmetry.
           ++ now left.
           ++ apply in_flat_map in H. destruct H as [k [Ik Ic]]. right. apply in_or_app.
              destruct (Z.land (ct_mask k) s =? 0) eqn:Z0.
              ** left. apply in_flat_map. exists k. split; [|assumption]. apply filter_In. tauto.
              ** right. right. apply in_flat_map. exists k. split; [|assumption]. apply filter_In.
                 split; [assumption|]. unfold p. now rewrite Z0.
    + (* some child meets s without being inside it: rejected *)
      apply Z.eqb_neq in Enew.
      split; [reflexivity|]. split; [exact W0|].
      right. right. split; [exact NotIn|]. split; [|reflexivity].
      destruct (forallb (fun k => contains s (ct_mask k)) inside) eqn:Fa.
      { exfalso. apply Enew. apply sub_antisym; [|exact Sin].
        apply orl_sub. intros x Ix. apply in_map_iff in Ix. destruct Ix as [k [E Ik]]. subst x.
        rewrite forallb_forall in Fa. apply contains_sub. now apply Fa. }
      apply forallb_false_ex in Fa. destruct Fa as [k [Ik Ck]].
      assert (Nk : ~ sub (ct_mask k) s) by (intro X; apply contains_sub in X; congruence).
      apply filter_In in Ik. destruct Ik as [Ik Pk]. unfold p in Pk. apply negb_true_iff in Pk.
      apply Z.eqb_neq in Pk.
      destruct k as [mk kk]. simpl ct_mask in *.
      destruct kk as [|k1 kr].
      { exfalso. pose proof (FW _ Ik) as Wk. apply wf_leaf in Wk. destruct Wk as [_ At].
        destruct (At s) as [X|X]; [contradiction | apply Nk; exact X]. }
      exists mk. split.
      * rewrite (ct_clades_node m ks NE). right. apply in_flat_map. exists (CT mk (k1 :: kr)).
        split; [assumption | apply clades_head; discriminate].
      * intros [D | [D | D]].
        -- apply Pk. unfold disj in D. now rewrite Z.land_comm.
        -- exact (NoSub _ Ik D).
        -- exact (Nk D).
Qed.

(* ---------------------------------------------------------------- the whole reconstruction *)

Definition namespace_ok (all : Z) (idxs : list Z) (bits : list Z) : Prop :=
  bits = map (Z.pow 2) idxs /\ NoDup idxs /\ (forall i, In i idxs -> 0 <= i) /\
  (2 <= length idxs)%nat /\ all = orl bits.

Lemma pdisj_pows idxs : NoDup idxs -> (forall i, In i idxs -> 0 <= i) -> pdisj (map (Z.pow 2) idxs).
Proof.
  induction idxs as [|i r IH]; intros ND P; simpl; [exact I|].
  inversion ND as [|? ? Ni Nr]. subst. split.
  - intros y Iy. apply in_map_iff in Iy. destruct Iy as [j [E Ij]]. subst y.
    apply pow2_disj; [apply P; now left | apply P; now right | intro X; subst; contradiction].
  - apply IH; [assumption | intros; apply P; now right].
Qed.

Section Recon.
  Variables (all : Z) (idxs bits : list Z).
  Hypothesis NS : namespace_ok all idxs bits.

  Lemma all_nonneg : 0 <= all.
  Proof.
    destruct NS as [Eb [_ [P [_ Ea]]]]. rewrite Ea. apply orl_nonneg. intros x Ix. rewrite Eb in Ix.
    apply in_map_iff in Ix. destruct Ix as [i [E Ii]]. subst x. apply Z.pow_nonneg. lia.
  Qed.

  Lemma bits_sub : forall b, In b bits -> sub b all.
  Proof. intros b Ib. destruct NS as [_ [_ [_ [_ Ea]]]]. rewrite Ea. now apply sub_orl_in. Qed.

  Lemma star_wf : wf (ct_star all bits) /\ ct_mask (ct_star all bits) = all /\
                  ct_leaves (ct_star all bits) = bits /\ ct_clades (ct_star all bits) = [all].
  Proof.
    destruct NS as [Eb [ND [P [Len Ea]]]].
    assert (NEb : bits <> []) by (rewrite Eb; destruct idxs; [simpl in Len; lia | discriminate]).
    assert (NEk : map (fun b => CT b []) bits <> []) by (intro X; apply map_eq_nil in X; contradiction).
    assert (Em : map ct_mask (map (fun b => CT b []) bits) = bits).
    { rewrite map_map. simpl. apply map_id. }
    unfold ct_star. change (fold_left Z.lor bits 0) with (orl bits). rewrite <- Ea.
    split; [|split; [reflexivity | split]].
    - apply wf_node; [assumption|]. rewrite Em. repeat split.
      + rewrite map_length, Eb, map_length. exact Len.
      + exact Ea.
      + rewrite Eb. now apply pdisj_pows.
      + apply Forall_forall. intros x Ix. apply in_map_iff in Ix. destruct Ix as [b [E Ib]]. subst x.
        apply wf_leaf. rewrite Eb in Ib. apply in_map_iff in Ib. destruct Ib as [i [E Ii]]. subst b.
        apply pow2_atom. now apply P.
    - rewrite ct_leaves_node by assumption. clear. induction bits as [|b r IH]; simpl; [reflexivity | now rewrite IH].
    - rewrite ct_clades_node by assumption. f_equal.
      clear. induction bits as [|b r IH]; simpl; [reflexivity | exact IH].
  Qed.

  Lemma single_in_bits c : 0 < c -> sub c all -> is_single c = true -> In c bits.
  Proof.
    intros Pc Sc Si. destruct (single_pow2 c Pc Si) as [j [Hj Ec]]. subst c.
    destruct NS as [Eb [_ [P [_ Ea]]]].
    assert (T : Z.testbit all j = true).
    { unfold sub in Sc. rewrite pow2_land in Sc by assumption.
      destruct (Z.testbit all j); [reflexivity|]. exfalso.
      pose proof (Z.pow_pos_nonneg 2 j). lia. }
    rewrite Ea in T. apply orl_testbit in T. destruct T as [x [Ix Tx]].
    rewrite Eb in Ix. apply in_map_iff in Ix. destruct Ix as [i [E Ii]]. subst x.
    rewrite Z.pow2_bits_eqb in Tx by (now apply P). apply Z.eqb_eq in Tx. subst i.
    rewrite Eb. now apply in_map.
  Qed.

  Lemma bits_single b : In b bits -> is_single b = true.
  Proof.
    intro Ib. destruct NS as [Eb [_ [P _]]]. rewrite Eb in Ib. apply in_map_iff in Ib.
    destruct Ib as [i [E Ii]]. subst b. apply pow2_single. now apply P.
  Qed.

  Definition Inv (t : ctree) (acc : list Z) : Prop :=
    wf t /\ ct_mask t = all /\ Permutation (ct_leaves t) bits /\
    (forall c, In c (ct_clades t) <-> c = all \/ In c acc).

  Definition good (c : Z) : Prop := 0 < c /\ sub c all /\ c <> all.

  Lemma all_nonzero : all <> 0.
  Proof.
    pose proof bits_sub as BS.
    destruct NS as [Eb [_ [P [Len Ea]]]]. destruct idxs as [|i r]; [simpl in Len; lia|].
    intro X. assert (S : sub (2 ^ i) all) by (apply BS; rewrite Eb; now left).
    rewrite X in S. apply sub_zero in S. pose proof (Z.pow_pos_nonneg 2 i).
    assert (0 <= i) by (apply P; now left). lia.
  Qed.

  Lemma step t acc c : Inv t acc -> good c ->
    Inv (ct_add t c)
        (if is_single c || zmem c acc then acc
         else if forallb (compat all c) acc then acc ++ [c] else acc).
  Proof.
    intros [W [M [L CL]]] [Pc [Sc Nc]].
    assert (NZ : c <> 0) by lia.
    unfold ct_add. rewrite M, (proj2 (contains_sub all c) Sc). simpl negb. cbv iota.
    assert (Sc' : sub c (ct_mask t)) by (now rewrite M).
    destruct (ct_insert_spec c NZ t W Sc') as [M' [W' R]].
    assert (L' : Permutation (ct_leaves (ct_insert c t)) bits).
    { eapply Permutation_trans; [apply ct_insert_leaves; assumption | exact L]. }
    assert (MasksIff : forall x, In x (ct_masks t) <-> x = all \/ In x acc \/ In x bits).
    { intro x. rewrite masks_split, CL. split.
      - intros [[H|H]|H]; [tauto | tauto | right; right; exact (Permutation_in x L H)].
      - intros [H|[H|H]]; [tauto | tauto | right; exact (Permutation_in x (Permutation_sym L) H)]. }
    assert (Unchanged : ct_insert c t = t -> Inv (ct_insert c t) acc).
    { intro E. rewrite E. repeat split; try assumption; apply CL. }
    destruct (is_single c) eqn:Si.
    { (* a leaf mask: already in tree *)
      simpl. apply Unchanged.
      assert (Ic : In c (ct_masks t)) by (apply MasksIff; right; right; now apply single_in_bits).
      destruct R as [[_ E] | [[N _] | [N _]]]; [exact E | contradiction | contradiction]. }
    destruct (zmem c acc) eqn:Zm.
    { simpl. apply Unchanged.
      assert (Ic : In c (ct_masks t)) by (apply MasksIff; right; left; now apply zmem_in).
      destruct R as [[_ E] | [[N _] | [N _]]]; [exact E | contradiction | contradiction]. }
    simpl.
    assert (Nin : ~ In c (ct_masks t)).
    { intro I. apply MasksIff in I. destruct I as [I | [I | I]].
      - contradiction.
      - apply zmem_false in Zm. contradiction.
      - apply bits_single in I. congruence. }
    assert (AccSub : forall a, In a acc -> sub a all).
    { intros a Ia. rewrite <- M. apply (masks_sub t W). apply MasksIff. tauto. }
    destruct (forallb (compat all c) acc) eqn:Fa.
    - (* compatible with everything accepted: case (ii) *)
      destruct R as [[I _] | [[_ [_ CL']] | [_ [[x [Ix Nx]] _]]]]; [contradiction | |].
      + repeat split; try assumption; [now rewrite M' | |].
        * intro H. apply CL' in H. rewrite CL in H. rewrite in_app_iff. simpl.
          destruct H as [H|[H|H]]; [right; right; left; now symmetry | now left | right; now left].
        * intro H. apply CL'. rewrite CL. rewrite in_app_iff in H. simpl in H.
          destruct H as [H|[H|[H|[]]]]; [right; now left | right; now right | left; now symmetry].
      + exfalso. apply Nx. apply CL in Ix. destruct Ix as [Ix|Ix].
        * subst x. right. now left.
        * rewrite forallb_forall in Fa. apply (compat_iff all c x all_nonzero Sc (AccSub x Ix)). now apply Fa.
    - (* conflicts with an accepted clade: case (iii) *)
      apply forallb_false_ex in Fa. destruct Fa as [a [Ia Ca]].
      assert (Nnd : ~ nd c a).
      { intro X. apply (compat_iff all c a all_nonzero Sc (AccSub a Ia)) in X. congruence. }
      destruct R as [[I _] | [[_ [NDall _]] | [_ [_ E]]]]; [contradiction | | now apply Unchanged].
      exfalso. apply Nnd. apply NDall. apply MasksIff. tauto.
  Qed.

  Lemma fold_inv cs : forall t acc, Inv t acc -> (forall c, In c cs -> good c) ->
    Inv (fold_left ct_add cs t) (greedy all acc cs).
  Proof.
    induction cs as [|c r IH]; intros t acc I G; simpl; [exact I|].
    pose proof (step t acc c I (G c (or_introl eq_refl))) as S.
    assert (Gr : forall x, In x r -> good x) by (intros; apply G; now right).
    destruct (is_single c || zmem c acc); [now apply IH|].
    destruct (forallb (compat all c) acc); now apply IH.
  Qed.

  Lemma prepare_good rooted ss c : In c (fsb_prepare all rooted ss) -> good c.
  Proof.
    intro I. pose proof (fsb_prepare_nonzero_fwd all rooted ss c I) as NZ.
    apply fsb_prepare_in in I. destruct I as [s [_ [N E]]].
    unfold fsb_nontrivial in N. apply andb_true_iff in N. destruct N as [N1 N2].
    apply negb_true_iff in N1. apply Z.eqb_neq in N1.
    apply negb_true_iff in N2. apply Z.eqb_neq in N2.
    set (m := Z.land s all) in *.
    assert (M0 : m <> 0) by (intro X; rewrite X in N2; apply N2; reflexivity).
    assert (Sub : sub c all).
    { subst c. unfold fsb_denorm, sub. fold m.
      destruct rooted; [|destruct (negb (Z.land 1 m =? 0))];
        unfold m; rewrite <- Z.land_assoc, Z.land_diag; reflexivity. }
    assert (Nn : 0 <= c).
    { rewrite <- Sub. apply Z.land_nonneg. right. apply all_nonneg. }
    split; [lia|]. split; [exact Sub|].
    subst c. unfold fsb_denorm. fold m.
    destruct rooted; [exact N1|]. destruct (negb (Z.land 1 m =? 0)); [|exact N1].
    intro X. apply M0. apply Z.bits_inj'. intros n Hn. rewrite Z.bits_0.
    assert (Xn : Z.testbit (Z.land (Z.lnot m) all) n = Z.testbit all n) by (now rewrite X).
    rewrite Z.land_spec, Z.lnot_spec in Xn by assumption.
    unfold m in *. rewrite Z.land_spec in *.
    destruct (Z.testbit s n), (Z.testbit all n); simpl in *; congruence.
  Qed.

  Theorem consensus_tree_clades_l rooted ss :
    forall c, In c (ct_clades (fsb_tree all bits rooted ss)) <->
              c = all \/ In c (greedy all [] (fsb_prepare all rooted ss)).
  Proof.
    destruct star_wf as [W [M [L C]]].
    assert (I0 : Inv (ct_star all bits) []).
    { repeat split; try assumption.
      - rewrite L. reflexivity.
      - rewrite C. simpl. intros [H|[]]. left. now symmetry.
      - rewrite C. simpl. intros [H|[]]. left. now symmetry. }
    pose proof (fold_inv (fsb_prepare all rooted ss) _ _ I0 (prepare_good rooted ss)) as [_ [_ [_ CL]]].
    exact CL.
  Qed.

  (* and the tree is a well-formed laminar family over the namespace *)
  Theorem consensus_tree_wf_l rooted ss :
    wf (fsb_tree all bits rooted ss) /\ ct_mask (fsb_tree all bits rooted ss) = all /\
    Permutation (ct_leaves (fsb_tree all bits rooted ss)) bits.
  Proof.
    destruct star_wf as [W [M [L C]]].
    assert (I0 : Inv (ct_star all bits) []).
    { repeat split; try assumption.
      - rewrite L. reflexivity.
      - rewrite C. simpl. intros [H|[]]. left. now symmetry.
      - rewrite C. simpl. intros [H|[]]. left. now symmetry. }
    pose proof (fold_inv (fsb_prepare all rooted ss) _ _ I0 (prepare_good rooted ss)) as [A [B [D _]]].
    tauto.
  Qed.
End Recon.
