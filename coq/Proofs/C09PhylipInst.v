(* C09: the PHYLIP round trip for discrete state alphabets and for continuous values *)
From Coq Require Import ZArith List Bool Lia.
From DV Require Import Model.PyPrims Model.C09AlphaTypes Model.C09Model Model.C09Spec
  Proofs.C09Text Proofs.C09Fasta Proofs.C09Phylip.
Import ListNotations.
Open Scope Z_scope.
Arguments state_of_symbol : simpl never.
Arguments plain_symbol_char : simpl never.
Arguments is_space : simpl never.
Arguments is_blank : simpl never.

Lemma not_space_not_blank : forall c, is_space c = false -> is_blank c = false.
Proof.
  intros c H. destruct (is_blank c) eqn:B; [|reflexivity]. apply blank_is_space in B. congruence.
Qed.

Lemma nospace_no_nlcr : forall t, nospace t -> no_nlcr t.
Proof.
  intros t H c Hc. split; intro E; subst; specialize (H _ Hc); discriminate.
Qed.

Section Discrete.
Variable lower : text -> text.
Variable a : alphabet.

Lemma phylip_states_sym : forall t, symtext a t -> phylip_states a t = Ok (st_of a t).
Proof.
  induction t as [|c t IH]; intro H; simpl; [reflexivity|].
  destruct (H c (or_introl eq_refl)) as [P [i L]].
  rewrite (not_space_not_blank c (plain_not_space c P)). rewrite L.
  rewrite (IH (symtext_cons_inv _ _ _ H)). simpl.
  unfold st_of. simpl. try rewrite L. reflexivity.
Qed.

Definition dgood (s : list Z) : Prop := forallb (cell_ok a) s = true.

Lemma d_enc_nonempty : forall s, dgood s -> s <> [] -> symbols_as_string a s <> [].
Proof.
  intros s H N. destruct (symbols_as_string_ok a s H) as [_ [_ L]].
  intro E. rewrite E in L. destruct s; [contradiction | discriminate].
Qed.

Lemma d_enc_rstrip : forall s, dgood s -> rstrip (symbols_as_string a s) = symbols_as_string a s.
Proof.
  intros s H. destruct (symbols_as_string_ok a s H) as [T _]. apply rstrip_nospace.
  apply (symtext_nospace a). exact T.
Qed.

Lemma d_enc_head : forall s, dgood s -> head_nonblank (symbols_as_string a s).
Proof.
  intros s H. destruct (symbols_as_string_ok a s H) as [T _]. unfold head_nonblank.
  destruct (symbols_as_string a s) as [|c r]; [exact I|].
  apply not_space_not_blank. apply plain_not_space. apply (T c). left. reflexivity.
Qed.

Lemma d_enc_nonl : forall s, dgood s -> no_nlcr (symbols_as_string a s).
Proof.
  intros s H. destruct (symbols_as_string_ok a s H) as [T _]. apply nospace_no_nlcr.
  apply (symtext_nospace a). exact T.
Qed.

Lemma d_dec_enc : forall s, dgood s -> phylip_states a (symbols_as_string a s) = Ok s.
Proof.
  intros s H. destruct (symbols_as_string_ok a s H) as [T [S _]]. rewrite (phylip_states_sym _ T). rewrite S. reflexivity.
Qed.

Theorem phylip_roundtrip_l : forall (wo : phy_wopts) (ro : phy_ropts) (nchar : Z) (m : matrix),
  r_strict ro = w_strict wo ->
  m <> [] -> 1 <= nchar ->
  forallb (phylip_label_ok wo ro) (map fst m) = true ->
  labels_distinct lower (map fst m) = true ->
  cells_ok a m = true ->
  rectangular nchar m = true ->
  exists t, write_phylip (symbols_as_string a) wo m = Ok t
            /\ read_phylip lower Z (phylip_states a) ro t = Ok m.
Proof.
  intros wo ro nchar m Hs Hm Hn Hl Hd Hc Hr.
  apply (phylip_roundtrip_gen lower Z (symbols_as_string a) (phylip_states a) dgood
           d_enc_nonempty d_enc_rstrip d_enc_head d_enc_nonl d_dec_enc wo ro Hs nchar m Hm Hn).
  - intros r Hin. unfold row_ok. split; [|split].
    + rewrite forallb_forall in Hl. apply Hl. apply in_map. exact Hin.
    + unfold cells_ok in Hc. rewrite forallb_forall in Hc. apply (Hc r Hin).
    + unfold rectangular in Hr. rewrite forallb_forall in Hr. apply Z.eqb_eq. apply (Hr r Hin).
  - apply texts_distinct_NoDup. exact Hd.
Qed.

End Discrete.

(* ---- continuous ---- *)

Section ContinuousInst.
Variable lower : text -> text.
Variable V : Type.
Variable render : V -> text.
Variable parse : text -> option V.
Hypothesis parse_render : forall v, parse (render v) = Some v.
Hypothesis render_plain : forall v, render v <> [] /\ nospace (render v).

Lemma split_ws_aux_word : forall w cur rest, nospace w ->
  split_ws_aux cur (w ++ rest) = split_ws_aux (rev w ++ cur) rest.
Proof.
  induction w as [|c w IH]; intros cur rest H; simpl; [reflexivity|].
  rewrite (H c (or_introl eq_refl)). rewrite IH by (intros d Hd; apply H; right; exact Hd).
  rewrite <- app_assoc. reflexivity.
Qed.

Definition words_ok (l : list text) : Prop := forall w, In w l -> w <> [] /\ nospace w.

Lemma split_ws_join : forall l, words_ok l -> split_ws (join_with [32] l) = l.
Proof.
  unfold split_ws. induction l as [|x l IH]; intro H; [reflexivity|].
  destruct (H x (or_introl eq_refl)) as [Nx Sx].
  destruct l as [|y l'].
  - simpl. replace x with (x ++ []) at 1 by apply List.app_nil_r.
    rewrite split_ws_aux_word by exact Sx. rewrite List.app_nil_r. simpl.
    destruct (rev x) eqn:E.
    + exfalso. apply Nx. rewrite <- (rev_involutive x). rewrite E. reflexivity.
    + rewrite <- E. rewrite rev_involutive. reflexivity.
  - change (join_with [32] (x :: y :: l')) with (x ++ [32] ++ join_with [32] (y :: l')).
    rewrite split_ws_aux_word by exact Sx. rewrite List.app_nil_r. simpl app.
    cbn [split_ws_aux]. change (is_space 32) with true. cbv iota.
    destruct (rev x) eqn:E.
    + exfalso. apply Nx. rewrite <- (rev_involutive x). rewrite E. reflexivity.
    + rewrite <- E. rewrite rev_involutive. f_equal. apply IH. intros w Hw. apply H. right. exact Hw.
Qed.

Lemma cont_values_render : forall s, cont_values V parse (map render s) = Ok s.
Proof.
  induction s as [|v s IH]; simpl; [reflexivity|]. rewrite parse_render. rewrite IH. reflexivity.
Qed.

Lemma words_render : forall s, words_ok (map render s).
Proof. intros s w Hw. apply in_map_iff in Hw. destruct Hw as [v [E _]]. subst. apply render_plain. Qed.

Lemma join_nospace_parts : forall l c, words_ok l -> In c (join_with [32] l) -> c = 32 \/ is_space c = false.
Proof.
  induction l as [|x l IH]; intros c H Hc; [destruct Hc|].
  destruct l as [|y l'].
  - simpl in Hc. right. apply (proj2 (H x (or_introl eq_refl))). exact Hc.
  - change (join_with [32] (x :: y :: l')) with (x ++ [32] ++ join_with [32] (y :: l')) in Hc.
    apply in_app_or in Hc. destruct Hc as [Hc|Hc]; [right; apply (proj2 (H x (or_introl eq_refl))); exact Hc|].
    destruct Hc as [Hc|Hc]; [left; auto|]. apply IH; [intros w Hw; apply H; right; exact Hw | exact Hc].
Qed.

Lemma join_last : forall l, words_ok l -> l <> [] ->
  exists p w, join_with [32] l = p ++ w /\ w <> [] /\ nospace w.
Proof.
  induction l as [|x l IH]; intros H N; [contradiction|].
  destruct l as [|y l'].
  - exists [], x. simpl. split; [reflexivity | apply H; left; reflexivity].
  - destruct IH as [p [w [E [Nw Sw]]]]; [intros z Hz; apply H; right; exact Hz | discriminate|].
    exists (x ++ [32] ++ p), w. split; [|split; assumption].
    change (join_with [32] (x :: y :: l')) with (x ++ [32] ++ join_with [32] (y :: l')).
    rewrite E. rewrite <- !app_assoc. reflexivity.
Qed.

Definition cgood (s : list V) : Prop := True.

Lemma c_enc_nonempty : forall s, cgood s -> s <> [] -> cont_as_string V render s <> [].
Proof.
  intros s _ N. unfold cont_as_string.
  destruct (join_last (map render s) (words_render s)) as [p [w [E [Nw _]]]]; [destruct s; [contradiction | discriminate]|].
  rewrite E. intro X. apply app_eq_nil in X. destruct X. contradiction.
Qed.

Lemma c_enc_rstrip : forall s, cgood s -> rstrip (cont_as_string V render s) = cont_as_string V render s.
Proof.
  intros s _. unfold cont_as_string. destruct s as [|v s]; [reflexivity|].
  destruct (join_last (map render (v :: s)) (words_render (v :: s))) as [p [w [E [Nw Sw]]]]; [discriminate|].
  rewrite E. rewrite rstrip_app_keep; rewrite (rstrip_nospace w Sw); [reflexivity | exact Nw].
Qed.

Lemma c_enc_head : forall s, cgood s -> head_nonblank (cont_as_string V render s).
Proof.
  intros s _. unfold cont_as_string, head_nonblank. destruct s as [|v s]; [exact I|].
  destruct (render_plain v) as [Nv Sv].
  assert (exists c r, join_with [32] (map render (v :: s)) = c :: r /\ is_space c = false).
  { simpl. destruct (render v) as [|c r] eqn:E; [contradiction|].
    destruct (map render s); [exists c, r | eexists c, _]; (split; [reflexivity | apply Sv; left; reflexivity]). }
  destruct H as [c [r [E Hc]]]. rewrite E. apply not_space_not_blank. exact Hc.
Qed.

Lemma c_enc_nonl : forall s, cgood s -> no_nlcr (cont_as_string V render s).
Proof.
  intros s _ c Hc. unfold cont_as_string in Hc.
  destruct (join_nospace_parts _ c (words_render s) Hc) as [E|E]; [subst; lia|].
  split; intro X; subst; discriminate.
Qed.

Lemma c_dec_enc : forall s, cgood s -> phylip_cont V parse (cont_as_string V render s) = Ok s.
Proof.
  intros s _. unfold phylip_cont, cont_as_string. rewrite split_ws_join by apply words_render.
  apply cont_values_render.
Qed.

Theorem phylip_continuous_roundtrip_l : forall (wo : phy_wopts) (ro : phy_ropts) (nchar : Z) (m : list (text * list V)),
  r_strict ro = w_strict wo ->
  m <> [] -> 1 <= nchar ->
  forallb (phylip_label_ok wo ro) (map fst m) = true ->
  labels_distinct lower (map fst m) = true ->
  rectangular nchar m = true ->
  exists t, write_phylip (cont_as_string V render) wo m = Ok t
            /\ read_phylip lower V (phylip_cont V parse) ro t = Ok m.
Proof.
  intros wo ro nchar m Hs Hm Hn Hl Hd Hr.
  apply (phylip_roundtrip_gen lower V (cont_as_string V render) (phylip_cont V parse) cgood
           c_enc_nonempty c_enc_rstrip c_enc_head c_enc_nonl c_dec_enc wo ro Hs nchar m Hm Hn).
  - intros r Hin. unfold row_ok. split; [|split].
    + rewrite forallb_forall in Hl. apply Hl. apply in_map. exact Hin.
    + exact I.
    + unfold rectangular in Hr. rewrite forallb_forall in Hr. apply Z.eqb_eq. apply (Hr r Hin).
  - apply texts_distinct_NoDup. exact Hd.
Qed.

End ContinuousInst.
