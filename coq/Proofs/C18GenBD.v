(* C18 - the event loop of birth_death_tree GENERATED from the Python source (Gen/Sim.v) refines the
   hand-written model: under the loop invariant of Proofs/C18BD.v (unique node identities, extant tips
   are leaves, ...) and "every extant node has its rate attributes", one generated pass equals one
   pass of bd_body, hence the whole generated loop equals bd_loop started from bd_init. *)
From Coq Require Import QArith ZArith List Bool Arith Lia Permutation.
From DV Require Import Model.C18Model Model.C18Prims Gen.Sim.
From DV Require Import Proofs.C18Lists Proofs.C18Tree Proofs.C18Monad Proofs.C18BD Proofs.C18GenCoal.
From DV Require Model.PyPrims.
Import ListNotations.
Open Scope nat_scope.

(* ---------------- the event lists ---------------- *)

Definition has_rates (br dr : list (nat * Q)) (x : nat) : Prop := b_has br x = true /\ b_has dr x = true.

Lemma gen_event_step : forall b d br dr er en x, has_rates br dr x ->
  gen_birth_death_tree_loop_fold3 b d (br, dr, er, en) x =
  (br, dr, (er ++ [b_rate br x]) ++ [b_rate dr x], (en ++ [(x, true)]) ++ [(x, false)]).
Proof.
  intros b d br dr er en x [Hb Hd]. unfold gen_birth_death_tree_loop_fold3. cbv beta iota zeta.
  rewrite Hb, Hd. reflexivity.
Qed.

Lemma gen_event_fold : forall b d L br dr er en,
  (forall x, In x L -> has_rates br dr x) ->
  fold_left (gen_birth_death_tree_loop_fold3 b d) L (br, dr, er, en) =
  (br, dr, er ++ flat_map (fun x => [b_rate br x; b_rate dr x]) L,
   en ++ flat_map (fun x => [(x, true); (x, false)]) L).
Proof.
  intros b d. induction L as [|x L IH]; intros br dr er en H; cbn [fold_left flat_map].
  - rewrite !app_nil_r. reflexivity.
  - rewrite gen_event_step by (apply H; left; reflexivity).
    rewrite IH by (intros y Hy; apply H; right; exact Hy). rewrite <- !app_assoc. reflexivity.
Qed.

Lemma b_rate_has_b : forall P st x, b_has (s_brates st) x = true -> b_rate (s_brates st) x = rate_b P st x.
Proof. intros P st x H. unfold b_has, b_rate, rate_b in *. destruct (assoc x (s_brates st)); [reflexivity|discriminate]. Qed.
Lemma b_rate_has_d : forall P st x, b_has (s_drates st) x = true -> b_rate (s_drates st) x = rate_d P st x.
Proof. intros P st x H. unfold b_has, b_rate, rate_d in *. destruct (assoc x (s_drates st)); [reflexivity|discriminate]. Qed.

(* ---------------- relabelling by one identity ---------------- *)

Lemma set_len_notin : forall x f t, ~ In x (ids t) -> set_len x f t = t.
Proof.
  intros x f. induction t as [i l tx ks IH] using btree_ind2. intros H. simpl in *.
  destruct (i =? x) eqn:E; [apply Nat.eqb_eq in E; exfalso; auto|].
  f_equal. apply map_id_Forall. rewrite Forall_forall in *. intros k Hk. apply (IH k Hk).
  intro Hi. apply H. right. apply in_flat_map. eauto.
Qed.

Lemma relabel_ext : forall f g t, (forall i l x, In i (ids t) -> f i l x = g i l x) -> relabel f t = relabel g t.
Proof.
  intros f g. induction t as [i l x ks IH] using btree_ind2. intros H. simpl.
  rewrite (H i l x) by (simpl; auto). f_equal. apply map_ext_Forall. rewrite Forall_forall in *.
  intros k Hk. apply (IH k Hk). intros j l' x' Hj. apply H. simpl. right. apply in_flat_map. eauto.
Qed.

Lemma relabel_relabel : forall f g t,
  relabel g (relabel f t) = relabel (fun i l x => g i (fst (f i l x)) (snd (f i l x))) t.
Proof.
  intros f g. induction t as [i l x ks IH] using btree_ind2. simpl. f_equal.
  rewrite map_map. apply map_ext_Forall. exact IH.
Qed.

Lemma set_len_relabel : forall x f t, NoDup (ids t) ->
  set_len x f t = relabel (fun i l tx => ((if i =? x then f l else l), tx)) t.
Proof.
  intros x f. induction t as [i l tx ks IH] using btree_ind2. intros Hn. simpl.
  destruct (NoDup_kids _ _ _ _ Hn) as [Hi Hnk].
  destruct (i =? x) eqn:E.
  - apply Nat.eqb_eq in E. subst i. f_equal. symmetry.
    rewrite <- (map_id ks) at 2. apply map_ext_Forall. apply Forall_forall. intros k Hk.
    rewrite <- (relabel_ext (fun i l tx => (l, tx))).
    + clear. induction k as [i l tx ks IH] using btree_ind2. simpl. f_equal. apply map_id_Forall. exact IH.
    + intros j l' x' Hj. simpl. destruct (j =? x) eqn:Ej; [|reflexivity]. apply Nat.eqb_eq in Ej. subst j.
      exfalso. apply Hi. apply in_flat_map. eauto.
  - f_equal. apply map_ext_Forall. rewrite Forall_forall in *. intros k Hk. apply (IH k Hk).
    eapply NoDup_kid; eauto.
Qed.

(* for nd in extant_tips: nd.edge.length += waiting_time *)
Lemma gen_grow_fold : forall w L t, NoDup (ids t) -> NoDup L ->
  fold_left (gen_birth_death_tree_loop_fold2 w) L t = add_len_set L w t.
Proof.
  intros w. induction L as [|x L IH]; intros t Hn HL; simpl.
  - rewrite add_len_set_relabel. symmetry.
    rewrite <- (relabel_ext (fun i l tx => (l, tx))); [|reflexivity].
    clear. induction t as [i l tx ks IH] using btree_ind2. simpl. f_equal. apply map_id_Forall. exact IH.
  - inversion HL as [|? ? Hx HL']; subst.
    change (gen_birth_death_tree_loop_fold2 w t x) with (set_len x (fun l_ => (l_ + w)%Q) t).
    rewrite (set_len_relabel x _ t Hn).
    rewrite IH; [|rewrite relabel_ids; exact Hn|exact HL'].
    rewrite !add_len_set_relabel, relabel_relabel. apply relabel_ext. intros i l tx _. cbn [fst snd memb].
    destruct (i =? x) eqn:E.
    + apply Nat.eqb_eq in E. subst i. rewrite (proj2 (memb_false x L) Hx). reflexivity.
    + reflexivity.
Qed.

(* ---------------- birth: two new children ---------------- *)

Lemma add_kid_set_kids : forall x c ks t, add_kid x c (set_kids x ks t) = set_kids x (ks ++ [c]) t.
Proof.
  intros x c ks. induction t as [i l tx kids IH] using btree_ind2. simpl.
  destruct (i =? x) eqn:E; simpl; rewrite E; [reflexivity|].
  f_equal. rewrite map_map. apply map_ext_Forall. exact IH.
Qed.

Lemma add_kid_notin : forall x c t, ~ In x (ids t) -> add_kid x c t = t.
Proof.
  intros x c. induction t as [i l tx ks IH] using btree_ind2. intros H. simpl in *.
  destruct (i =? x) eqn:E; [apply Nat.eqb_eq in E; exfalso; auto|].
  f_equal. apply map_id_Forall. rewrite Forall_forall in *. intros k Hk. apply (IH k Hk).
  intro Hi. apply H. right. apply in_flat_map. eauto.
Qed.

Lemma add_kid_leaf : forall x c t, NoDup (ids t) -> In x (leaf_ids t) -> add_kid x c t = set_kids x [c] t.
Proof.
  intros x c. induction t as [i l tx ks IH] using btree_ind2. intros Hn Hx. simpl.
  destruct (i =? x) eqn:E.
  - apply Nat.eqb_eq in E. subst i. rewrite (leaf_root_case _ _ _ _ Hn Hx). reflexivity.
  - apply Nat.eqb_neq in E. f_equal. destruct (NoDup_kids _ _ _ _ Hn) as [Hi Hnk].
    apply map_ext_Forall. rewrite Forall_forall in *. intros k Hk.
    destruct (in_dec Nat.eq_dec x (ids k)) as [Hin|Hnin].
    + apply (IH k Hk); [eapply NoDup_kid; eauto|].
      destruct (leaf_below_case x i l tx ks E Hx) as (_ & _ & Hxl).
      apply in_flat_map in Hxl. destruct Hxl as (k' & Hk' & Hxk').
      destruct (in_split k ks Hk) as (l1 & l2 & ->).
      rewrite flat_map_split in Hnk. apply NoDup_app_iff in Hnk. destruct Hnk as (_ & Hn2 & Hd1).
      apply NoDup_app_iff in Hn2. destruct Hn2 as (_ & _ & Hd2).
      apply in_app_or in Hk'. destruct Hk' as [Hk'|[<-|Hk']]; [| exact Hxk' |].
      * exfalso. apply (Hd1 x); [apply in_flat_map; exists k'; split; auto; apply leaf_in_ids; auto|].
        apply in_or_app. left. exact Hin.
      * exfalso. apply (Hd2 x Hin). apply in_flat_map. exists k'. split; auto. apply leaf_in_ids; auto.
    + rewrite add_kid_notin, set_kids_notin by assumption. reflexivity.
Qed.

Lemma set_len_new_kids : forall c nd c1 c2 t, ~ In c (ids t) ->
  set_len c (fun _ => 0%Q) (set_kids nd [bleaf c1 0; bleaf c2 0] t) = set_kids nd [bleaf c1 0; bleaf c2 0] t.
Proof.
  intros c nd c1 c2. induction t as [i l tx ks IH] using btree_ind2. intros H.
  assert (Hic : i =? c = false) by (apply Nat.eqb_neq; intro; subst; apply H; simpl; auto).
  simpl set_kids. destruct (i =? nd).
  - simpl. rewrite Hic. simpl. destruct (c1 =? c); destruct (c2 =? c); reflexivity.
  - simpl. rewrite Hic. f_equal. rewrite map_map. apply map_ext_Forall. rewrite Forall_forall in *.
    intros k Hk. apply (IH k Hk). intro Hi. apply H. simpl. right. apply in_flat_map. eauto.
Qed.

Lemma gen_birth_tree : forall t nd c1 c2, NoDup (ids t) -> In nd (leaf_ids t) ->
  ~ In c1 (ids t) -> ~ In c2 (ids t) ->
  b_set_len (b_set_len (add_kid nd (bleaf c2 0) (add_kid nd (bleaf c1 0) t)) c1 0) c2 0 =
  set_kids nd [bleaf c1 0; bleaf c2 0] t.
Proof.
  intros t nd c1 c2 Hn Hnd H1 H2. unfold b_set_len.
  rewrite (add_kid_leaf nd _ t Hn Hnd), add_kid_set_kids. simpl app.
  rewrite (set_len_new_kids c1 nd c1 c2 t H1), (set_len_new_kids c2 nd c1 c2 t H2). reflexivity.
Qed.

(* ---------------- one pass ---------------- *)

Definition tup (st : bdst) :=
  (s_brates st, s_drates st, s_tr st, s_time st, s_ext st, s_next st, s_dead st).

Definition rates_ok (st : bdst) : Prop :=
  forall x, In x (s_ext st) \/ x = 0 -> has_rates (s_brates st) (s_drates st) x.

Definition mkP b d sb sd N := mkBdp b d sb sd N.

Lemma event_lists_length : forall (ext : list nat) (f : nat -> list Q),
  (forall x, length (f x) = 2) ->
  length (flat_map f ext) = length (flat_map (fun x : nat => [(x, true); (x, false)]) ext).
Proof.
  intros ext f Hf. induction ext as [|x L IH]; simpl; [reflexivity|]. rewrite app_length, Hf, IH. reflexivity.
Qed.

Lemma py_list_remove_In : forall x l r, In x l -> py_list_remove x l r = Done (remove_first x l) r.
Proof. intros x l r H. unfold py_list_remove. rewrite (proj2 (memb_In x l) H). reflexivity. Qed.

Lemma b_has_cons : forall rates y v x, b_has rates x = true -> b_has ((y, v) :: rates) x = true.
Proof. intros rates y v x H. unfold b_has in *. simpl. destruct (x =? y); [reflexivity|exact H]. Qed.

Lemma b_rate_cons_ne : forall rates y v x, x <> y -> b_rate ((y, v) :: rates) x = b_rate rates x.
Proof. intros rates y v x H. unfold b_rate. simpl. rewrite (proj2 (Nat.eqb_neq x y) H). reflexivity. Qed.

Lemma bnd_smap_cong {A B C} (f : B -> C) (m : M A) (k1 : A -> M C) (k2 : A -> M B) r :
  (forall a r', k1 a r' = smap f (k2 a r')) -> bnd m k1 r = smap f (bnd m k2 r).
Proof. intros H. unfold bnd. destruct (m r); try reflexivity. apply H. Qed.

Lemma bnd_ext_l {A B} (m m' : M A) (k : A -> M B) r : m r = m' r -> bnd m k r = bnd m' k r.
Proof. intros H. unfold bnd. rewrite H. reflexivity. Qed.

Lemma bnd_assoc {A B C} (m : M A) (f : A -> M B) (g : B -> M C) r :
  bnd (bnd m f) g r = bnd m (fun x => bnd (f x) g) r.
Proof. unfold bnd. destruct (m r); reflexivity. Qed.

Lemma bnd_Done_l {A B} (m : M A) (k : A -> M B) r a r' : m r = Done a r' -> bnd m k r = k a r'.
Proof. intros H. unfold bnd. rewrite H. reflexivity. Qed.

Theorem gen_bd_pass : forall b d sb sd N st r,
  bd_inv N st -> rates_ok st ->
  gen_birth_death_tree_loop_while4 b d sb sd N [0] [] (tup st) r =
  (if N <=? length (s_ext st) then Done (CBreak (R := Empty_set) (tup st)) r
   else smap (fun st' => CNext (R := Empty_set) (tup st')) (bd_body (mkP b d sb sd N) st r)).
Proof.
  intros b d sb sd N st r I RO. set (P := mkP b d sb sd N).
  unfold gen_birth_death_tree_loop_while4, tup. cbv beta iota.
  destruct (N <=? length (s_ext st)) eqn:EN; [reflexivity|].
  cbv zeta.
  rewrite gen_event_fold by (intros x Hx; apply RO; left; exact Hx). cbv beta iota. cbn [app].
  assert (Erates : flat_map (fun x => [b_rate (s_brates st) x; b_rate (s_drates st) x]) (s_ext st) =
                   flat_map (fun x => [rate_b P st x; rate_d P st x]) (s_ext st)).
  { apply flat_map_ext_Forall. apply Forall_forall. intros x Hx. destruct (RO x (or_introl Hx)) as [Hb Hd].
    rewrite (b_rate_has_b P st x Hb), (b_rate_has_d P st x Hd). reflexivity. }
  rewrite Erates. unfold bd_body. cbv zeta. fold P.
  set (event_rates := flat_map (fun x => [rate_b P st x; rate_d P st x]) (s_ext st)).
  set (event_nodes := flat_map (fun x : nat => [(x, true); (x, false)]) (s_ext st)).
  unfold py_sum, py_expovariate.
  apply bnd_smap_cong. intros w r1.
  rewrite gen_grow_fold by (apply (inv_nodup _ _ I) || eapply inv_ext_NoDup; eauto).
  rewrite (bnd_ext_l _ (weighted_choice_model event_nodes (map (fun x_ => (x_ / qsum_left event_rates)%Q) event_rates))).
  2:{ apply gen_weighted_choice_eq. rewrite map_length. unfold event_rates, event_nodes.
      apply event_lists_length. reflexivity. }
  unfold weighted_choice_model. rewrite bnd_assoc.
  apply bnd_smap_cong. intros oi r2.
  destruct oi as [i|]; [|reflexivity].
  destruct (nth_error event_nodes i) as [[nd is_birth]|] eqn:En; [|reflexivity].
  assert (Hnd : In nd (s_ext st)) by (eapply event_nodes_In; eauto).
  rewrite (bnd_Done_l (ret (nd, is_birth)) _ r2 (nd, is_birth) r2 eq_refl). cbv beta iota.
  rewrite (bnd_Done_l _ _ r2 _ r2 (py_list_remove_In nd _ r2 Hnd)).
  destruct is_birth.
  - (* birth *)
    unfold py_new_child. cbv beta iota zeta.
    assert (Hleaf : In nd (leaf_ids (add_len_set (s_ext st) w (s_tr st)))).
    { rewrite add_len_set_relabel, relabel_leaf_ids. apply (inv_leaves _ _ I). auto. }
    assert (Hnd2 : NoDup (ids (add_len_set (s_ext st) w (s_tr st)))).
    { rewrite add_len_set_relabel, relabel_ids. apply (inv_nodup _ _ I). }
    assert (Hfresh : forall c, s_next st <= c -> ~ In c (ids (add_len_set (s_ext st) w (s_tr st)))).
    { intros c Hc Hi. rewrite add_len_set_relabel, relabel_ids in Hi. apply (inv_fresh _ _ I) in Hi. lia. }
    rewrite (gen_birth_tree _ nd (s_next st) (S (s_next st)) Hnd2 Hleaf (Hfresh _ (le_n _)) (Hfresh _ (le_S _ _ (le_n _)))).
    assert (Hlt : nd < s_next st).
    { apply (inv_fresh _ _ I). apply leaf_in_ids. apply (inv_leaves _ _ I). auto. }
    destruct (RO nd (or_introl Hnd)) as [Hb Hd].
    unfold b_set_rate.
    apply bnd_smap_cong. intros g1 r3. apply bnd_smap_cong. intros g2 r4.
    apply bnd_smap_cong. intros g3 r5. apply bnd_smap_cong. intros g4 r6.
    rewrite (b_rate_cons_ne (s_brates st) (s_next st) _ nd) by lia.
    rewrite (b_rate_cons_ne (s_drates st) (s_next st) _ nd) by lia.
    rewrite (b_rate_has_b P st nd Hb), (b_rate_has_d P st nd Hd).
    unfold ret, smap, tup. cbn [s_brates s_drates s_tr s_time s_ext s_next s_dead]. rewrite <- app_assoc. reflexivity.
  - (* death *)
    destruct (remove_first nd (s_ext st)) as [|e1 er] eqn:Er; reflexivity.
Qed.

(* ---------------- the invariant "every extant node (and the seed) has its rates" ---------------- *)

Lemma rates_ok_init : forall P, rates_ok (bd_init P).
Proof. intros P x Hx. assert (x = 0) by (destruct Hx as [[Hx|[]]|Hx]; congruence). subst. split; reflexivity. Qed.

Lemma rates_ok_body : forall P st r st' r', bd_inv (p_n P) st -> rates_ok st ->
  bd_body P st r = Done st' r' -> rates_ok st'.
Proof.
  intros P st r st' r' I RO H. unfold bd_body in H. cbv zeta in H.
  step H. step H. destruct a0 as [i|]; [|discriminate].
  destruct (nth_error _ i) as [[nd b]|] eqn:En; [|discriminate].
  apply event_nodes_In in En.
  assert (Hlt : forall x, In x (s_ext st) \/ x = 0 -> x < s_next st).
  { intros x [Hx| ->].
    - apply (inv_fresh _ _ I). apply leaf_in_ids. apply (inv_leaves _ _ I). auto.
    - apply (inv_fresh _ _ I). rewrite <- (inv_root _ _ I). apply ids_root. }
  destruct b.
  - step H. step H. step H. step H. apply ret_Done in H. destruct H as [<- _].
    intros x Hx. cbn [s_ext s_brates s_drates] in *.
    assert (Hcase : (In x (s_ext st) \/ x = 0) \/ x = s_next st \/ x = S (s_next st)).
    { destruct Hx as [Hx|Hx]; [|left; right; exact Hx]. apply in_app_or in Hx. destruct Hx as [Hx|[<-|[<-|[]]]]; auto.
      left. left. eapply remove_first_In; eauto. }
    destruct Hcase as [Hold|[->| ->]].
    + destruct (RO x Hold) as [Hb Hd]. split; apply b_has_cons; apply b_has_cons; assumption.
    + split; unfold b_has; simpl; rewrite Nat.eqb_refl;
        replace (s_next st =? S (s_next st)) with false by (symmetry; apply Nat.eqb_neq; lia); reflexivity.
    + split; unfold b_has; simpl; rewrite Nat.eqb_refl; reflexivity.
  - destruct (remove_first nd (s_ext st)) as [|e1 er] eqn:Er.
    + apply ret_Done in H. destruct H as [<- _]. intros x Hx. cbn [bd_restart s_ext s_brates s_drates] in *.
      apply RO. right. destruct Hx as [[<-|[]]|Hx]; auto.
    + apply ret_Done in H. destruct H as [<- _]. intros x Hx. cbn [s_ext s_brates s_drates] in *.
      apply RO. destruct Hx as [Hx|Hx]; [left|right; exact Hx].
      rewrite <- Er in Hx. eapply remove_first_In; eauto.
Qed.

(* ---------------- the whole loop ---------------- *)

Theorem gen_bd_loop : forall f b d sb sd N st r,
  1 <= N -> bd_inv N st -> rates_ok st -> left_ r < f ->
  py_while (S f) (gen_birth_death_tree_loop_while4 b d sb sd N [0] []) (tup st) r =
  smap (fun st' => CNext (R := Empty_set) (tup st')) (bd_loop f (mkP b d sb sd N) st r).
Proof.
  induction f as [|f IH]; intros b d sb sd N st r HN I RO Hl; [lia|].
  rewrite py_while_S. unfold bnd at 1. rewrite (gen_bd_pass b d sb sd N st r I RO).
  cbn [bd_loop]. change (p_n (mkP b d sb sd N)) with N.
  destruct (N <=? length (s_ext st)) eqn:EN; [reflexivity|].
  unfold bnd. destruct (bd_body (mkP b d sb sd N) st r) as [st' r'| | | |] eqn:Eb; try reflexivity.
  cbn [smap]. apply Nat.leb_gt in EN.
  apply IH; try assumption.
  - eapply (bd_body_inv (mkP b d sb sd N)); eauto.
  - eapply (rates_ok_body (mkP b d sb sd N)); eauto.
  - apply bd_body_shape in Eb. destruct Eb as (_ & _ & _ & _ & Hlt). lia.
Qed.

Definition bd_loop_result (st : bdst) :=
  (s_tr st, s_ext st, s_dead st, s_brates st, s_drates st, s_next st, s_time st).

Theorem gen_birth_death_tree_loop_eq : forall b d sb sd N ns r, 1 <= N ->
  gen_birth_death_tree_loop b d sb sd N ns r =
  smap bd_loop_result (bd_loop (S (length (fst r))) (mkBdp b d sb sd N) (bd_init (mkBdp b d sb sd N)) r).
Proof.
  intros b d sb sd N ns r HN. unfold gen_birth_death_tree_loop. cbv zeta.
  change (b_set_len py_tree_new (b_id py_tree_new) 0%Q) with (bleaf 0 0%Q).
  change (b_id (bleaf 0 0%Q)) with 0.
  change (b_set_rate [] 0 b, b_set_rate [] 0 d, bleaf 0 0%Q, 0%Q, [0], 1, @nil nat)
    with (tup (bd_init (mkBdp b d sb sd N))).
  unfold py_while_script, bnd.
  rewrite (gen_bd_loop (S (length (fst r))) b d sb sd N (bd_init (mkBdp b d sb sd N)) r HN
             (bd_init_inv (mkBdp b d sb sd N) HN) (rates_ok_init _)) by (unfold left_; lia).
  unfold mkP. destruct (bd_loop _ _ _ r) as [st' r'| | | |]; reflexivity.
Qed.

(* the loop invariant and the tip count, of the generated loop *)
Theorem gen_bd_loop_invariant : forall b d sb sd N ns r tr ext dead br dr next time r',
  1 <= N ->
  gen_birth_death_tree_loop b d sb sd N ns r = Done (tr, ext, dead, br, dr, next, time) r' ->
  bd_inv N (mkSt tr ext dead br dr next time) /\ length ext = N.
Proof.
  intros b d sb sd N ns r tr ext dead br dr next time r' HN H.
  rewrite gen_birth_death_tree_loop_eq in H by exact HN.
  destruct (bd_loop _ _ _ r) as [st' r1| | | |] eqn:El; try discriminate.
  cbn [smap] in H. inversion H; subst.
  destruct (bd_loop_inv _ (mkBdp b d sb sd N) _ _ _ _ HN (bd_init_inv (mkBdp b d sb sd N) HN) El) as [I L].
  destruct st'. exact (conj I L).
Qed.
