(* C18 - the code GENERATED from the Python source (Gen/Sim.v) equals the hand-written model:
   weighted_index_choice, weighted_choice, time_to_coalescence, coalesce_nodes, pure_kingman_tree *)
From Coq Require Import QArith ZArith List Bool Arith Lia.
From DV Require Import Model.C18Model Model.C18Prims Gen.Sim.
From DV Require Import Proofs.C18Lists Proofs.C18Monad Proofs.C18Coal.
From DV Require Model.PyPrims.
Import ListNotations.
Open Scope nat_scope.

(* ---------------- weighted_index_choice ---------------- *)

Lemma gen_wic_loop1 : forall ws k rnd,
  exists rnd', py_for gen_weighted_index_choice_for2 (combine (seq k (length ws)) ws) rnd =
               match widx ws rnd k with Some i => CReturn (Some i) | None => CNext rnd' end.
Proof.
  induction ws as [|w r IH]; intros k rnd; simpl.
  - exists rnd. reflexivity.
  - unfold gen_weighted_index_choice_for2 at 1. cbv zeta. destruct (Qltb (rnd - w) 0).
    + exists rnd. reflexivity.
    + apply IH.
Qed.

Lemma gen_wic_loop2 : forall ws l,
  py_for (gen_weighted_index_choice_for1 ws) l tt =
  match find_down ws l with Some i => CReturn (Some i) | None => CNext tt end.
Proof.
  intros ws. induction l as [|i r IH]; simpl; [reflexivity|].
  unfold gen_weighted_index_choice_for1 at 1. cbv zeta. unfold py_getitem_q.
  destruct (Qltb 0 (nth i ws 0%Q)); [reflexivity|exact IH].
Qed.

Lemma py_range_down_len : forall n, py_range_down (Z.of_nat n - 1) = rev (seq 0 n).
Proof.
  intros n. unfold py_range_down. replace (Z.to_nat (Z.of_nat n - 1 + 1)) with n by lia. reflexivity.
Qed.

Theorem gen_weighted_index_choice_eq : forall ws r,
  gen_weighted_index_choice ws r = weighted_index_choice ws r.
Proof.
  intros ws r. unfold gen_weighted_index_choice, weighted_index_choice, bnd.
  destruct (d_unit r) as [u r'| | | |]; try reflexivity.
  cbv zeta. unfold py_sum, py_enumerate, pick_index, last_positive.
  destruct (gen_wic_loop1 ws 0 (u * qsum_left ws)%Q) as [rnd' E]. rewrite E.
  destruct (widx ws (u * qsum_left ws) 0) as [i|]; [reflexivity|].
  rewrite py_range_down_len, gen_wic_loop2. destruct (find_down ws (rev (seq 0 (length ws)))); reflexivity.
Qed.

(* weighted_choice(seq, weights) with as many weights as elements: seq[weighted_index_choice(weights)] *)
Definition weighted_choice_model {A} (seq : list A) (ws : list Q) : M A :=
  let! oi := weighted_index_choice ws in
  match oi with
  | None => raise PyPrims.TypeErr
  | Some i => match nth_error seq i with Some a => ret a | None => raise PyPrims.IndexErr end
  end.

Theorem gen_weighted_choice_eq : forall (A : Type) (seq : list A) ws r,
  length ws = length seq ->
  gen_weighted_choice seq ws r = weighted_choice_model seq ws r.
Proof.
  intros A seq ws r E. unfold gen_weighted_choice, weighted_choice_model.
  replace (Z.of_nat (length ws) <? Z.of_nat (length seq) - 1)%Z with false by (symmetry; apply Z.ltb_ge; lia).
  replace (Z.of_nat (length ws) =? Z.of_nat (length seq) - 1)%Z with false by (symmetry; apply Z.eqb_neq; lia).
  unfold bnd. rewrite gen_weighted_index_choice_eq.
  destruct (weighted_index_choice ws r) as [oi r'| | | |]; try reflexivity.
  unfold py_index. destruct oi as [i|]; [|reflexivity].
  destruct (nth_error seq i); reflexivity.
Qed.

(* ---------------- time_to_coalescence ---------------- *)

Definition time_to_coalescence_model (n : nat) (pop : Q) : M Q :=
  let! e := d_exp (choose2 n) in ret (e * time_units pop)%Q.

(* choose(n, 2) is not 0 for n >= 2: rng.expovariate does not raise ZeroDivisionError *)
Lemma choose2_nonzero : forall n, 1 < n -> Qeq_bool (choose2 n) 0 = false.
Proof.
  intros n Hn. unfold choose2.
  assert (H1 : 1 <= n * (n - 1) / 2) by (apply Nat.div_le_lower_bound; [lia|nia]).
  destruct (n * (n - 1) / 2) as [|k]; [lia|]. reflexivity.
Qed.

Theorem gen_time_to_coalescence_eq : forall n pop r, 1 < n ->
  gen_time_to_coalescence n pop r = time_to_coalescence_model n pop r.
Proof.
  intros n pop r Hn. unfold gen_time_to_coalescence, time_to_coalescence_model, py_expovariate, expovariate, py_choose2.
  cbv zeta. rewrite (choose2_nonzero n Hn). reflexivity.
Qed.

(* ---------------- coalesce_nodes ---------------- *)

Lemma gen_stretch : forall w g, gen_coalesce_nodes_map1 w g = stretch w g.
Proof. intros w [x [q|] ks]; reflexivity. Qed.

Lemma gen_stretch_rem : forall rm g, gen_coalesce_nodes_map3 (Some rm) g = stretch rm g.
Proof. intros rm [x [q|] ks]; reflexivity. Qed.

Definition smap {A B} (f : A -> B) (x : sres A) : sres B :=
  match x with
  | Done a r => Done (f a) r
  | Exhausted => Exhausted
  | BadScript => BadScript
  | PyErr e => PyErr e
  | NoFuel => NoFuel
  end.

Lemma py_while_S : forall {St R} f (body : St -> M (ctl St R)) s,
  py_while (S f) body s =
  bnd (body s) (fun c => match c with
                         | CNext s' => py_while f body s'
                         | CBreak s' => ret (CNext s')
                         | CReturn r => ret (CReturn r)
                         end).
Proof. reflexivity. Qed.

Lemma gen_coal_loop : forall fuel pop nodes rem r, length nodes <= fuel ->
  py_while (S fuel) (gen_coalesce_nodes_while2 pop) (nodes, rem) r =
  smap (fun s => CNext (R := Empty_set) s) (coal_loop fuel pop nodes rem r).
Proof.
  induction fuel as [|f IH]; intros pop nodes rem r Hl.
  - assert (E : length nodes <=? 1 = true) by (apply Nat.leb_le; lia).
    assert (E' : 1 <? length nodes = false) by (apply Nat.ltb_ge; lia).
    rewrite py_while_S. cbn [coal_loop]. unfold gen_coalesce_nodes_while2. cbv beta iota. rewrite E, E'. reflexivity.
  - rewrite py_while_S. cbn [coal_loop]. unfold gen_coalesce_nodes_while2 at 1. cbv beta iota.
    destruct (length nodes <=? 1) eqn:E.
    + assert (E' : 1 <? length nodes = false) by (apply Nat.ltb_ge; apply Nat.leb_le in E; lia).
      rewrite E'. reflexivity.
    + assert (E' : 1 <? length nodes = true) by (apply Nat.ltb_lt; apply Nat.leb_gt in E; lia).
      rewrite E'. unfold bnd. rewrite gen_time_to_coalescence_eq by (apply Nat.ltb_lt; exact E'). unfold time_to_coalescence_model, bnd, ret.
      destruct (d_exp (choose2 (length nodes)) r) as [e r1| | | |]; try reflexivity.
      cbv beta iota zeta.
      assert (Ec : (py_is_none rem || Qle_bool (e * time_units pop) (py_unwrap rem)) =
                   match rem with Some rm => Qle_bool (e * time_units pop) rm | None => true end)
        by (destruct rem; reflexivity).
      rewrite Ec. destruct (match rem with Some rm => Qle_bool (e * time_units pop) rm | None => true end); [|reflexivity].
      rewrite (map_ext _ _ (gen_stretch (e * time_units pop))).
      unfold py_sample2. rewrite map_length.
      destruct (d_sample2 (length nodes) r1) as [[i j] r2| | | |] eqn:Es; try reflexivity.
      apply d_sample2_Done in Es. destruct Es as (Hi & Hj & Hne & _).
      cbn [fst snd].
      assert (Hlen : length (coal_step (e * time_units pop) i j nodes) <= f).
      { pose proof (coal_step_length (e * time_units pop) i j nodes Hi Hj Hne). lia. }
      specialize (IH pop (coal_step (e * time_units pop) i j nodes)
                     (option_map (fun rm => (rm - e * time_units pop)%Q) rem) r2 Hlen).
      destruct rem as [rm|]; cbn [py_is_none negb py_unwrap lenq option_map] in *; exact IH.
Qed.

Theorem gen_coalesce_nodes_eq : forall pop period nodes r,
  gen_coalesce_nodes pop period nodes r = coalesce_nodes pop period nodes r.
Proof.
  intros pop period nodes r. unfold gen_coalesce_nodes, coalesce_nodes.
  destruct nodes as [|n0 nr] eqn:En; [reflexivity|]. rewrite <- En.
  replace (length nodes =? 0) with false by (subst; reflexivity).
  cbv zeta. unfold bnd. rewrite gen_coal_loop by lia.
  destruct (coal_loop (length nodes) pop nodes period r) as [[nodes' rem'] r'| | | |]; try reflexivity.
  cbn [smap]. cbv beta iota zeta. unfold ret.
  destruct rem' as [rm|]; cbn [py_is_none negb andb py_unwrap lenq]; [|reflexivity].
  destruct (Qltb 0 rm); [|reflexivity].
  rewrite (map_ext _ _ (gen_stretch_rem rm)). reflexivity.
Qed.

(* ---------------- pure_kingman_tree ---------------- *)

Theorem gen_pure_kingman_tree_eq : forall N pop r,
  gen_pure_kingman_tree (seq 0 N) pop r = kingman_run N pop r.
Proof.
  intros N pop r. unfold gen_pure_kingman_tree, kingman_run. cbv zeta.
  unfold bnd. rewrite gen_coalesce_nodes_eq.
  unfold g_new.
  destruct (coalesce_nodes pop None (map (fun i => G (Some i) None []) (seq 0 N)) r) as [res r'| | | |]; try reflexivity.
  destruct res as [|g rest]; reflexivity.
Qed.

(* ---------------- facts read off the source ---------------- *)

Theorem gen_rng_threading_facts :
  fact_geometric_rv_draws_from_rng = true /\
  fact_poisson_rv_draws_from_rng = true /\
  fact_discrete_time_to_coalescence_passes_rng = true /\
  fact_time_to_coalescence_draws_from_rng = true /\
  fact_weighted_index_choice_draws_from_rng = true /\
  fact_weighted_choice_passes_rng = true /\
  fact_sample_multinomial_draws_from_rng = true /\
  fact_birth_death_tree_draws_from_rng = true /\
  fact_fast_birth_death_tree_draws_from_rng = true /\
  fact_uniform_pure_birth_tree_draws_from_rng = true /\
  fact_coalesce_nodes_draws_from_rng = true /\
  fact_pure_kingman_tree_passes_rng = true /\
  fact_contained_coalescent_tree_passes_rng = true.
Proof. repeat split; reflexivity. Qed.

Theorem gen_repaired_sites_facts :
  fact_birth_death_tree_fresh_label_new_taxon = true /\
  fact_fast_birth_death_tree_fresh_label_new_taxon = true /\
  fact_contained_gene_taxa_sorted_by_accession = true.
Proof. repeat split; reflexivity. Qed.

Theorem gen_kingman_spec_proved : forall N pop script t r,
  gen_pure_kingman_tree (seq 0 N) pop (script, []) = Done t r ->
  Permutation.Permutation (gleaf_taxa t) (map Some (seq 0 N)) /\
  (forall s, In s (gsubtrees t) -> length (g_kids s) = 0 \/ length (g_kids s) = 2) /\
  (exists D, forall x h, In (x, h) (gtips t) -> h == D)%Q.
Proof.
  intros N pop script t r H. rewrite gen_pure_kingman_tree_eq in H. eapply kingman_spec_proved. exact H.
Qed.
