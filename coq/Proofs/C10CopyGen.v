(* C10: the constructor / copy protocol generated from the Python source (Gen/NamespaceCopy.v)
   equals the hand-written model (Model/C10CopyModel.v). *)
From Coq Require Import ZArith List Bool Lia String.
From DV Require Import Model.PyPrims Model.C10Model Model.C10ModelExt Model.C10NsPrims Model.C10CopyModel
  Model.C10CopyPrims Gen.Namespace Gen.NamespaceCopy.
From DV Require Import Proofs.C10Lists Proofs.C10Gen.
Import ListNotations.
Open Scope Z_scope.

Definition item_val (i : item) : pyval := match i with ITaxon t => VTaxon t | ILabel l => VLabel l end.

(* how a constructor call of the model is written in Python *)
Definition args_of (src : csrc) : list carg :=
  match src with SNone => [] | SNs h => [CNs h] | SItems l => [CItems (map item_val l)] end.

Definition kw_of (mut cs : option bool) : list (string * pyval) :=
  (match mut with Some b => [("is_mutable"%string, VBool b)] | None => [] end)
  ++ (match cs with Some b => [("is_case_sensitive"%string, VBool b)] | None => [] end).

(* the add loop *)
Lemma gen_add_loop (l : list item) : forall w,
  py_for_w (map item_val l) (fun v_i w =>
    if py_is_taxon v_i
    then (do (w, r__) <- py_add_taxon w v_i ;; Ok w)
    else (do (w, r__) <- py_new_taxon w v_i ;; Ok w)) w
  = construct_items w l.
Proof.
  induction l as [|x r IH]; intros w; [reflexivity|].
  cbn [map py_for_w construct_items]. destruct x as [t|lb]; cbn [item_val py_is_taxon].
  - rewrite gen_add_taxon_l. unfold lift_ns_v. destruct (add_taxon (w_ns w) t); cbn [bind]; try reflexivity. apply IH.
  - rewrite gen_new_taxon_l. unfold new_taxon_v. destruct (new_taxon w lb) as [[w1 t]| |]; cbn [bind]; try reflexivity. apply IH.
Qed.

Lemma taxa_vals_items (l : list tid) : taxa_vals l = map item_val (map ITaxon l).
Proof. unfold taxa_vals. rewrite map_map. reflexivity. Qed.

(* the attribute-by-attribute deep copy of the generated __dict__ loop is copy_fields *)
Lemma gen_copy_fields (memo : list (tid * tid)) (other n : ns) :
  fold_left (fun n__ v_k =>
     if orb (String.eqb (attr_name v_k) "_annotations") (String.eqb (attr_name v_k) "_taxa")
     then n__ else attr_deepcopy memo other v_k n__) [FMut; FCs; FRev; FTaxa; FAcc; FBm; FCount] n
  = copy_fields memo other n.
Proof. reflexivity. Qed.

Lemma gen_memo_aux (l : list (tid * tid)) : forall m : list (tid * tid),
  fold_left (fun m__ p__ => let '(v_t1, v_t2) := p__ in aset v_t2 v_t1 m__) l m
  = fold_left (fun m p => aset (snd p) (fst p) m) l m.
Proof. induction l as [|[x y] r IH]; intros m; [reflexivity|]. cbn [fold_left fst snd]. apply IH. Qed.

Lemma gen_memo (a b : list tid) :
  fold_left (fun m__ p__ => let '(v_t1, v_t2) := p__ in aset v_t2 v_t1 m__) (combine a b) []
  = memo_zip a b.
Proof. apply gen_memo_aux. Qed.

Theorem gen_init_eq_l (mw : mworld) (src : csrc) (mut cs : option bool) :
  py_TaxonNamespace_init mw (args_of src) (kw_of mut cs) = construct mw src mut cs.
Proof.
  unfold py_TaxonNamespace_init, construct.
  destruct mut as [b1|], cs as [b2|]; cbn [kw_of app kw_pop kw_remove kw_lookup String.eqb Ascii.eqb Bool.eqb fst snd];
  cbn [attr_set ns_blank bind taxa acc rev count bm is_mut is_cs dflt].
  all: destruct src as [|h|l]; cbn [args_of args_len List.length Z.of_nat Z.gtb Z.eqb Z.compare Pos.compare Pos.compare_cont Pos.of_succ_nat Pos.succ kw_nonempty].
  all: try reflexivity.
  all: cbn [Pos.eqb args_get Z.ltb Z.compare nth_error Z.to_nat bind carg_iter carg_ns].
  all: try (rewrite gen_add_loop;
            match goal with |- context [construct_items ?w ?l] => destruct (construct_items w l) end; reflexivity).
  all: destruct (nth_error (mw_nss mw) h) as [other|]; cbn [bind]; [|reflexivity].
  all: rewrite taxa_vals_items, gen_add_loop.
  all: match goal with |- context [construct_items ?w ?l] => destruct (construct_items w l) as [w1| |] end; cbn [bind]; try reflexivity.
  all: f_equal; f_equal; etransitivity; [apply gen_copy_fields|]; rewrite gen_memo; reflexivity.
Qed.

(* copy.copy(ns) = TaxonNamespace.__copy__ *)
Theorem gen_copy_eq_l (mw : mworld) (h : nat) :
  py_TaxonNamespace_copy mw h = construct mw (SNs h) None None.
Proof. unfold py_TaxonNamespace_copy. apply (gen_init_eq_l mw (SNs h) None None). Qed.

(* taxon_namespace_scoped_copy(memo): the namespace object itself; every member is entered into the
   memo as its own copy (a memo of None stays None) *)
Theorem gen_scoped_copy_l (h : nat) (n : ns) (m : list (tid * tid)) :
  py_scoped_copy h n None = (h, None)
  /\ exists m', py_scoped_copy h n (Some m) = (h, Some m')
       /\ (forall t, In t (taxa n) -> alookup t m' = Some t)
       /\ (forall t, ~ In t (taxa n) -> alookup t m' = alookup t m).
Proof.
  split; [reflexivity|]. unfold py_scoped_copy, py_populate_memo. eexists. split; [reflexivity|].
  revert m. induction (taxa n) as [|x r IH]; intros m; cbn [fold_left].
  - split; [intros t []| reflexivity].
  - destruct (IH (aset x x m)) as [A B]. split.
    + intros t [->|Ht].
      * destruct (in_dec Z.eq_dec t r) as [I|I]; [apply A; exact I|]. etransitivity; [apply B; exact I|]. apply alookup_aset_eq.
      * apply A. exact Ht.
    + intros t Ht. etransitivity; [apply B; intros Q; apply Ht; right; exact Q|].
      apply alookup_aset_neq. intros ->. apply Ht. left. reflexivity.
Qed.
