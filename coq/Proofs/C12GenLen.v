(* C12, translator tie: the heap of the hand model only grows (no hypotheses on the heap; needed to know
   that the object under construction is still allocated when deep_copy_annotations_from is reached). *)
From Coq Require Import ZArith List Bool Lia.
From DV Require Import Model.PyPrims Model.C12Model Model.C12GenPrims Gen.CopyGen Model.C12GenDispatch Proofs.C12Heap Proofs.C12Inv Proofs.C12Copy Proofs.C12Iso.
Import ListNotations.
Open Scope Z_scope.


Lemma memo_val_len : forall s v v', hlen (sh (memo_val s v v')) = hlen (sh s).
Proof. intros s [p|a] [q|b]; simpl; try reflexivity; destruct p; reflexivity. Qed.

Lemma copy_append_len : forall rec xs s y i s', RecLen rec -> copy_append rec s y i xs = Ok s' -> hlen (sh s) <= hlen (sh s').
Proof.
  intros rec. induction xs as [|a r IH]; intros s y i s' RL H; simpl in H.
  - inversion H. lia.
  - destruct (rec s a) as [[s1 a']| |] eqn:E; simpl in H; try discriminate.
    apply RL in E. apply IH in H; [|exact RL]. rewrite put_hlen in H. lia.
Qed.

Lemma copy_entries_len : forall rec ck es s y s', RecLen rec -> copy_entries rec ck s y es = Ok s' -> hlen (sh s) <= hlen (sh s').
Proof.
  intros rec ck. induction es as [|[k v] r IH]; intros s y s' RL H; simpl in H.
  - inversion H. lia.
  - destruct (if ck then rec s k else match k with P _ => Ok (s, k) | R _ => Err AttrErr end) as [[s1 k']| |] eqn:E;
      simpl in H; try discriminate.
    assert (L1 : hlen (sh s) <= hlen (sh s1)).
    { destruct ck; [apply RL in E; exact E|]. destruct k; inversion E; subst. lia. }
    destruct (rec s1 v) as [[s2 v']| |] eqn:E2; simpl in H; try discriminate.
    apply RL in E2. apply IH in H; [|exact RL]. rewrite put_hlen in H. lia.
Qed.

Lemma plain_fields_len : forall rec skip es s y s', RecLen rec -> plain_fields rec skip s y es = Ok s' -> hlen (sh s) <= hlen (sh s').
Proof.
  intros rec skip. induction es as [|[k v] r IH]; intros s y s' RL H; simpl in H.
  - inversion H. lia.
  - destruct (existsb (val_eqb k) skip); [eapply IH; eassumption|].
    destruct (rec s v) as [[s1 v']| |] eqn:E; simpl in H; try discriminate.
    apply RL in E. apply IH in H; [|exact RL]. rewrite put_hlen in H. lia.
Qed.

Lemma annotable_fields_len : forall rec es s y s', RecLen rec -> annotable_fields rec s y es = Ok s' -> hlen (sh s) <= hlen (sh s').
Proof.
  intros rec. induction es as [|[k v] r IH]; intros s y s' RL H; simpl in H.
  - inversion H. lia.
  - destruct (val_eqb k NM_ANN); [eapply IH; eassumption|].
    destruct (bget (body_of s y) k); [eapply IH; eassumption|].
    destruct (rec s v) as [[s1 v']| |] eqn:E; simpl in H; try discriminate.
    apply RL in E. apply IH in H; [|exact RL]. rewrite memo_val_len, put_hlen in H. lia.
Qed.

Lemma oset_add_len : forall s sy a s', oset_add s sy a = Ok s' -> hlen (sh s') = hlen (sh s).
Proof.
  intros s sy a s' H. unfold oset_add in H.
  destruct (bget (body_of s sy) NM_ISET) as [[?|zy]|]; try discriminate.
  destruct (bget (body_of s sy) NM_ILIST) as [[?|ly]|]; try discriminate.
  destruct (bget (body_of s zy) a); inversion H; subst; [reflexivity|]. rewrite !put_hlen. reflexivity.
Qed.

Lemma new_annset_len : forall s cls tg, hlen (sh (fst (new_annset s cls tg))) = hlen (sh s) + 3.
Proof. intros. destruct (new_annset_shape s cls tg) as [_ [_ [_ [L _]]]]. exact L. Qed.

Lemma annotations_add_len : forall s dst a s', annotations_add s dst a = Ok s' -> hlen (sh s) <= hlen (sh s').
Proof.
  intros s dst a s' H. unfold annotations_add in H.
  destruct (bget (body_of s dst) NM_ANN) as [[?|sy]|]; try discriminate.
  - apply oset_add_len in H. lia.
  - assert (L := new_annset_len s CLS_ANNSET (R dst)).
    destruct (new_annset s CLS_ANNSET (R dst)) as [s1 sy]. cbn [fst] in L.
    apply oset_add_len in H. rewrite put_hlen in H. lia.
Qed.

Lemma retarget_len : forall s dst src a1 a2 s', retarget s dst src a1 a2 = Ok s' -> hlen (sh s) <= hlen (sh s').
Proof.
  intros s dst src a1 a2 s' H. unfold retarget in H.
  destruct a2 as [?|a2o]; [discriminate|].
  destruct (bget (body_of s a2o) NM_ISATTR) as [isattr|]; [|discriminate].
  destruct (val_eqb isattr PTrue); [|inversion H; lia].
  destruct a1 as [?|a1o]; [discriminate|].
  destruct (bget (body_of s a1o) NM_VALUE) as [[?|t]|]; try discriminate.
  destruct (match kind_of s t with Some KTuple | Some KList => values (body_of s t) | _ => [] end) as [|owner rest];
    [discriminate|].
  destruct (val_eqb owner (R src)); [|inversion H; lia].
  destruct rest as [|name rest']; [discriminate|]. cbn [alloc] in H. inversion H. rewrite put_hlen. simpl. rewrite hlen_app1. lia.
Qed.

Lemma copy_annotation_items_len : forall rec items s dst src s', RecLen rec ->
  copy_annotation_items rec s dst src items = Ok s' -> hlen (sh s) <= hlen (sh s').
Proof.
  intros rec. induction items as [|a1 r IH]; intros s dst src s' RL H; simpl in H.
  - inversion H. lia.
  - destruct (rec s a1) as [[s1 a2]| |] eqn:E; simpl in H; try discriminate. apply RL in E.
    destruct (retarget (memo_val s1 a1 a2) dst src a1 a2) as [s3| |] eqn:RT; simpl in H; try discriminate.
    apply retarget_len in RT. rewrite memo_val_len in RT.
    destruct (annotations_add s3 dst a2) as [s4| |] eqn:AA; simpl in H; try discriminate.
    apply annotations_add_len in AA. apply IH in H; [|exact RL]. lia.
Qed.

Lemma dcaf_len : forall rec s dst src s', RecLen rec ->
  deep_copy_annotations_from rec s dst src = Ok s' -> hlen (sh s) <= hlen (sh s').
Proof.
  intros rec s dst src s' RL H. unfold deep_copy_annotations_from in H.
  destruct (bget (body_of s src) NM_ANN) as [[?|sx]|]; try discriminate; [|inversion H; lia].
  destruct (hget (sh s) dst) as [d|]; [|discriminate]. destruct (hget (sh s) src) as [o|]; [|discriminate].
  destruct (negb (ocls d =? ocls o)); [discriminate|].
  destruct (bget (body_of s sx) NM_ILIST) as [[?|lx]|]; try discriminate.
  destruct (copy_annotation_items rec s dst src (values (body_of s lx))) as [s1| |] eqn:CI; simpl in H; try discriminate.
  apply copy_annotation_items_len in CI; [|exact RL].
  destruct (bget (body_of s1 dst) NM_ANN) as [[?|sy]|]; inversion H; subst; simpl; try lia.
Qed.

Lemma annset_items_len : forall rec items s o s', RecLen rec -> annset_items rec s o items = Ok s' -> hlen (sh s) <= hlen (sh s').
Proof.
  intros rec. induction items as [|a r IH]; intros s o s' RL H; simpl in H.
  - inversion H. lia.
  - destruct (rec s a) as [[sa a']| |] eqn:E; simpl in H; try discriminate. apply RL in E.
    destruct (oset_add (memo_val sa a a') o a') as [sq| |] eqn:OA; simpl in H; try discriminate.
    apply oset_add_len in OA. rewrite memo_val_len in OA. apply IH in H; [|exact RL]. lia.
Qed.

Lemma new_copy_len : forall s x ob, hlen (sh (fst (new_copy s x ob))) = hlen (sh s) + 1.
Proof. intros. rewrite new_copy_eq. simpl. apply hlen_app1. Qed.

Lemma dc_step_len : forall rec, RecLen rec -> RecLen (dc_step rec).
Proof.
  intros rec RL s v s' v' H. unfold dc_step in H. destruct v as [p|x]; [inversion H; lia|].
  destruct (alookup x (sm s)); [inversion H; lia|].
  destruct (hget (sh s) x) as [ob|]; [|discriminate].
  assert (NC := new_copy_len s x ob).
  destruct (okind ob).
  - inversion H. lia.
  - destruct (new_copy s x ob) as [s1 y]. cbn [fst] in NC.
    destruct (copy_append rec s1 y 0 (values (obody ob))) as [s2| |] eqn:L; simpl in H; try discriminate.
    inversion H; subst. apply copy_append_len in L; [lia | exact RL].
  - destruct (new_copy s x ob) as [s1 y]. cbn [fst] in NC.
    destruct (copy_entries rec true s1 y (obody ob)) as [s2| |] eqn:L; simpl in H; try discriminate.
    inversion H; subst. apply copy_entries_len in L; [lia | exact RL].
  - destruct (forallb (fun e => is_prim (fst e) && is_prim (snd e)) (obody ob)); [|discriminate].
    cbn [alloc] in H. inversion H. simpl. rewrite hlen_app1. lia.
  - destruct (new_copy s x ob) as [s1 y]. cbn [fst] in NC.
    destruct (copy_append rec s1 y 0 (values (obody ob))) as [s2| |] eqn:L; simpl in H; try discriminate.
    inversion H; subst. apply copy_append_len in L; [lia | exact RL].
  - destruct (new_copy s x ob) as [s1 y]. cbn [fst] in NC.
    destruct (plain_fields rec [] s1 y (obody ob)) as [s2| |] eqn:L; simpl in H; try discriminate.
    inversion H; subst. apply plain_fields_len in L; [lia | exact RL].
  - destruct (new_copy s x ob) as [s1 y]. cbn [fst] in NC.
    destruct (annotable_fields rec s1 y (obody ob)) as [s2| |] eqn:L; simpl in H; try discriminate.
    destruct (deep_copy_annotations_from rec s2 y x) as [s3| |] eqn:D; simpl in H; try discriminate.
    inversion H; subst. apply annotable_fields_len in L; [|exact RL]. apply dcaf_len in D; [lia | exact RL].
  - destruct (bget (obody ob) NM_TARGET) as [tg|]; [|discriminate].
    destruct (match tg with
              | R t => match alookup t (sm s) with Some t' => Ok (R t') | None => Err KeyErr end
              | P 0 => if snone s then Ok PNone else Err KeyErr
              | P _ => Err KeyErr end) as [tg'| |]; cbn [bind] in H; try discriminate.
    assert (NL := new_annset_len s (ocls ob) tg').
    destruct (new_annset s (ocls ob) tg') as [s1 o]. cbn [fst] in NL.
    destruct (bget (obody ob) NM_ILIST) as [[?|lx]|]; try discriminate.
    destruct (annset_items rec (note (memo_set s1 x o) x o) o (values (body_of (note (memo_set s1 x o) x o) lx))) as [s5| |] eqn:L;
      simpl in H; try discriminate.
    inversion H; subst. apply annset_items_len in L; [|exact RL]. simpl in L. lia.
  - destruct (new_copy s x ob) as [s1 y]. cbn [fst] in NC.
    destruct (plain_fields rec [NM_ANN] s1 y (obody ob)) as [s2| |] eqn:L; simpl in H; try discriminate.
    destruct (deep_copy_annotations_from rec s2 y x) as [s3| |] eqn:D; simpl in H; try discriminate.
    inversion H; subst. apply plain_fields_len in L; [|exact RL]. apply dcaf_len in D; [lia | exact RL].
  - destruct (new_copy s x ob) as [s1 y]. cbn [fst] in NC.
    destruct (bget (obody ob) NM_TAXA) as [[?|lt]|]; try discriminate.
    cbn [alloc] in H.
    match type of H with context [copy_append rec ?S3 ?L 0 ?XS] =>
      destruct (copy_append rec S3 L 0 XS) as [s4| |] eqn:CA; simpl in H; try discriminate;
      assert (L3 : hlen (sh S3) = hlen (sh s1) + 1) by (simpl; rewrite put_hlen; simpl; apply hlen_app1) end.
    destruct (plain_fields rec [NM_ANN; NM_TAXA] s4 y (obody ob)) as [s5| |] eqn:PF; simpl in H; try discriminate.
    destruct (deep_copy_annotations_from rec s5 y x) as [s6| |] eqn:D; simpl in H; try discriminate.
    inversion H; subst. apply copy_append_len in CA; [|exact RL]. apply plain_fields_len in PF; [|exact RL].
    apply dcaf_len in D; [lia | exact RL].
  - destruct (new_copy s x ob) as [s1 y]. cbn [fst] in NC.
    destruct (copy_entries rec false s1 y (obody ob)) as [s2| |] eqn:L; simpl in H; try discriminate.
    inversion H; subst. apply copy_entries_len in L; [lia | exact RL].
Qed.

Lemma dc_len : forall f, RecLen (dc f).
Proof.
  induction f as [|f IH]; [intros s v s' v' H; discriminate H|]. simpl. apply dc_step_len. exact IH.
Qed.
