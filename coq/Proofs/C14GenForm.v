(* C14 translator tie: the arithmetic of nj_tree / upgma_tree extracted from the source (Gen/Pdm.v) is the
   arithmetic of the hand model's nj_step / upgma_step (Model/C14Model.v), expression by expression. *)
From Coq Require Import ZArith QArith List Bool Lia.
From DV Require Import Model.PyPrims Model.Tree Model.C14Model Model.C14GenPrims Gen.Pdm.
Import ListNotations.
Open Scope Q_scope.

Lemma inject_Z_sub2 n : inject_Z (n - 2) == inject_Z n - (2 # 1).
Proof. unfold Z.sub. rewrite inject_Z_plus. reflexivity. Qed.

(* nj_step: the Q criterion of a pair, the strict comparison keeping the first minimum *)
Lemma nj_qvalue_model n d x1 x2 : inject_Z (n - 2) * d - x1 - x2 == NJ_qvalue (inject_Z n) d x1 x2.
Proof. unfold NJ_qvalue. rewrite inject_Z_sub2. reflexivity. Qed.

Lemma nj_better_model {A} (v m : Q) (x y : A) :
  (if Qlt_le_dec v m then x else y) = if NJ_better v m then x else y.
Proof. unfold NJ_better. destruct (Qlt_le_dec v m); reflexivity. Qed.

(* distance of the new node to another node; the other node's row sum *)
Lemma nj_dist_model a0 a1 v3 : Qred ((1 # 2) * ((0 + a0 + a1) - v3)) == NJ_dist (0 + a0 + a1) v3.
Proof. rewrite Qred_correct. reflexivity. Qed.

Lemma nj_xsub_model x dist b0 b1 : Qred (x + dist - b0 - b1) == NJ_xsub_update x dist b0 b1.
Proof. rewrite Qred_correct. reflexivity. Qed.

(* branch lengths of the joined pair *)
Lemma nj_delta_f_model n v3 x0 x1 :
  Qred ((1 # 2) * v3 + (1 / inject_Z (2 * (n - 2))) * (x0 - x1)) == NJ_delta_f (inject_Z n) v3 x0 x1.
Proof.
  rewrite Qred_correct. unfold NJ_delta_f. rewrite inject_Z_mult, inject_Z_sub2. reflexivity.
Qed.

Lemma nj_delta_g_model v3 f : Qred (v3 - f) == v3 - f.
Proof. apply Qred_correct. Qed.

Lemma nj_delta_g_def n v3 x0 x1 : NJ_delta_g n v3 x0 x1 = v3 - NJ_delta_f n v3 x0 x1.
Proof. reflexivity. Qed.

Lemma nj_half_model v3 : Qred (v3 / 2) == NJ_half v3.
Proof. rewrite Qred_correct. reflexivity. Qed.

Lemma nj_guards_model n : (1 <? n)%Z = NJ_continue n /\ (2 <? n)%Z = NJ_general n.
Proof. unfold NJ_continue, NJ_general. rewrite !Z.gtb_ltb. split; reflexivity. Qed.

(* upgma_step *)
Lemma upgma_better_model {A} (v m : Q) (x y : A) :
  (if Qlt_le_dec v m then x else y) = if UPGMA_better v m then x else y.
Proof. unfold UPGMA_better. destruct (Qlt_le_dec v m); reflexivity. Qed.

Lemma upgma_elen_model dmin : Qred (dmin / 2) == UPGMA_elen dmin.
Proof. rewrite Qred_correct. reflexivity. Qed.

Lemma upgma_child_len_model elen tip : Qred (elen - tip) == UPGMA_child_len elen tip.
Proof. rewrite Qred_correct. reflexivity. Qed.

Lemma upgma_tip_model elen tip : Qred ((elen - tip) + tip) == UPGMA_tip (UPGMA_child_len elen tip) tip.
Proof. rewrite Qred_correct. reflexivity. Qed.

Lemma upgma_avg_model d20 s0 d21 s1 count :
  Qred ((0 + d20 * s0 + d21 * s1) / inject_Z count)
  == UPGMA_avg (UPGMA_acc (UPGMA_acc 0 d20 s0) d21 s1) (inject_Z count).
Proof. rewrite Qred_correct. reflexivity. Qed.
