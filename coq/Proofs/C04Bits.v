(* C04: the two leafset masks on either side of one edge of a not-rooted tree normalise to the same
   split mask (Bipartition.normalize_bitmask with the lowest set bit of the tree's leafset mask) *)
From Coq Require Import ZArith List Bool Lia.
From DV Require Import Model.PyPrims Gen.BitFns.
Open Scope Z_scope.

Lemma land_odd_even a : 0 <= a -> Z.land (2 * a + 1) (2 * a) = 2 * a.
Proof.
  intro Ha. apply Z.bits_inj'. intros n Hn. rewrite Z.land_spec.
  destruct (Z.eq_dec n 0) as [->|Hz].
  - rewrite Z.testbit_odd_0, Z.testbit_even_0. reflexivity.
  - replace n with (Z.succ (n - 1)) by lia.
    rewrite Z.testbit_odd_succ, Z.testbit_even_succ by lia. apply andb_diag.
Qed.

Lemma lxor_even_odd a : 0 <= a -> Z.lxor (2 * a) (2 * a + 1) = 1.
Proof.
  intro Ha. apply Z.bits_inj'. intros n Hn. rewrite Z.lxor_spec.
  destruct (Z.eq_dec n 0) as [->|Hz].
  - rewrite Z.testbit_odd_0, Z.testbit_even_0. reflexivity.
  - replace n with (Z.succ (n - 1)) by lia.
    rewrite Z.testbit_odd_succ, Z.testbit_even_succ by lia. rewrite xorb_nilpotent.
    change 1 with (2 * 0 + 1). rewrite Z.testbit_odd_succ by lia. rewrite Z.bits_0. reflexivity.
Qed.

Lemma land_even_odd a b : Z.land (2 * a) (2 * b + 1) = 2 * Z.land a b.
Proof.
  apply Z.bits_inj'. intros n Hn. rewrite Z.land_spec.
  destruct (Z.eq_dec n 0) as [->|Hz].
  - rewrite !Z.testbit_even_0. reflexivity.
  - replace n with (Z.succ (n - 1)) by lia.
    rewrite Z.testbit_odd_succ, !Z.testbit_even_succ by lia. rewrite Z.land_spec. reflexivity.
Qed.

Lemma lxor_even_even a b : Z.lxor (2 * a) (2 * b) = 2 * Z.lxor a b.
Proof.
  apply Z.bits_inj'. intros n Hn. rewrite Z.lxor_spec.
  destruct (Z.eq_dec n 0) as [->|Hz].
  - rewrite !Z.testbit_even_0. reflexivity.
  - replace n with (Z.succ (n - 1)) by lia.
    rewrite !Z.testbit_even_succ by lia. rewrite Z.lxor_spec. reflexivity.
Qed.

Lemma lsb_odd a : 0 <= a -> py_least_significant_set_bit (2 * a + 1) = 1.
Proof.
  intro Ha. unfold py_least_significant_set_bit. cbv zeta.
  replace (2 * a + 1 - 1) with (2 * a) by lia. rewrite land_odd_even by exact Ha. apply lxor_even_odd, Ha.
Qed.

Lemma lsb_even a : py_least_significant_set_bit (2 * a) = 2 * py_least_significant_set_bit a.
Proof.
  unfold py_least_significant_set_bit. cbv zeta.
  replace (2 * a - 1) with (2 * (a - 1) + 1) by lia. rewrite land_even_odd, lxor_even_even. reflexivity.
Qed.

(* least_significant_set_bit of a positive number is a single bit of it *)
Lemma lsb_spec : forall p, exists j, 0 <= j /\ py_least_significant_set_bit (Zpos p) = 2 ^ j /\ Z.testbit (Zpos p) j = true.
Proof.
  induction p as [p IH|p IH|].
  - exists 0. rewrite Pos2Z.inj_xI. split; [lia|]. split; [apply lsb_odd; lia | apply Z.testbit_odd_0].
  - destruct IH as [j [Hj [E Tb]]]. exists (Z.succ j). rewrite Pos2Z.inj_xO. split; [lia|]. split.
    + rewrite lsb_even, E, Z.pow_succ_r by exact Hj. reflexivity.
    + rewrite Z.testbit_even_succ by exact Hj. exact Tb.
  - exists 0. split; [lia|]. split; reflexivity.
Qed.

Lemma land_pow2_zero m j : 0 <= j -> Z.eqb (Z.land m (2 ^ j)) 0 = negb (Z.testbit m j).
Proof.
  intro Hj. destruct (Z.testbit m j) eqn:E; simpl.
  - apply Z.eqb_neq. intro H. assert (T : Z.testbit (Z.land m (2 ^ j)) j = true).
    { rewrite Z.land_spec, E, Z.pow2_bits_true by exact Hj. reflexivity. }
    rewrite H, Z.bits_0 in T. discriminate.
  - apply Z.eqb_eq. apply Z.bits_inj'. intros n Hn. rewrite Z.land_spec, Z.bits_0.
    destruct (Z.eq_dec n j) as [->|Hne].
    + rewrite E. reflexivity.
    + rewrite Z.pow2_bits_false by lia. apply andb_false_r.
Qed.

Theorem normalize_complement m0 m1 tm :
  0 < tm -> Z.lor m0 m1 = tm -> Z.land m0 m1 = 0 ->
  py_normalize_bitmask m0 tm (py_least_significant_set_bit tm)
  = py_normalize_bitmask m1 tm (py_least_significant_set_bit tm).
Proof.
  intros Hpos Hor Hand.
  destruct tm as [|p|p]; try lia.
  destruct (lsb_spec p) as [j [Hj [E Tb]]]. rewrite E. unfold py_normalize_bitmask.
  rewrite !land_pow2_zero by exact Hj. rewrite !negb_involutive.
  assert (B : forall n, Z.testbit m0 n && Z.testbit m1 n = false).
  { intro n. rewrite <- Z.land_spec, Hand. apply Z.bits_0. }
  assert (O : forall n, Z.testbit (Zpos p) n = Z.testbit m0 n || Z.testbit m1 n).
  { intro n. rewrite <- Hor. apply Z.lor_spec. }
  rewrite O in Tb. specialize (B j) as Bj.
  destruct (Z.testbit m0 j) eqn:E0, (Z.testbit m1 j) eqn:E1; simpl in *; try discriminate;
    apply Z.bits_inj'; intros n Hn; rewrite !Z.land_spec, ?Z.lnot_spec by exact Hn; rewrite O;
    specialize (B n); destruct (Z.testbit m0 n), (Z.testbit m1 n); simpl in *; try reflexivity; discriminate.
Qed.
