(* C15: every edge iterator of Tree yields exactly the edges of the nodes its node counterpart
   yields, in the same order, with the filter transported (the node filter is the edge filter
   applied to node.edge).  Proved for EVERY object graph in which the head node of a node's edge
   is that node; Tree.preorder_edge_iter / postorder_edge_iter are independent stack machines in
   the source, so this is a simulation proof between two generated machines. *)
From Coq Require Import ZArith List Bool Arith Lia.
From DV Require Import Model.PyPrims Model.Tree Model.C15Prims Gen.Traversals Model.C15Model Proofs.C15Base.
Import ListNotations.
Open Scope nat_scope.

Lemma py_pop_last_map {A B} (f : A -> B) l :
  py_pop_last (map f l) = match py_pop_last l with Some (x, r) => Some (f x, map f r) | None => None end.
Proof.
  unfold py_pop_last. rewrite <- map_rev. destruct (rev l) as [|x r]; simpl; [reflexivity|].
  rewrite map_rev. reflexivity.
Qed.

Lemma gflat_map_gprepend {O P} (f : O -> list P) o g :
  gflat_map f (gprepend o g) = gprepend (flat_map f o) (gflat_map f g).
Proof. destruct g; simpl; rewrite ?flat_map_app; reflexivity. Qed.

Lemma gflat_map_gflat_map {O P Q} (f : P -> list Q) (h : O -> list P) g :
  gflat_map f (gflat_map h g) = gflat_map (fun x => flat_map f (h x)) g.
Proof.
  assert (Hl : forall l, flat_map f (flat_map h l) = flat_map (fun x => flat_map f (h x)) l).
  { induction l as [|x r IH]; simpl; [reflexivity|]. rewrite flat_map_app, IH. reflexivity. }
  destruct g; simpl; rewrite ?Hl; reflexivity.
Qed.

Lemma gflat_map_ext {O P} (f h : O -> list P) g : (forall x, f x = h x) -> gflat_map f g = gflat_map h g.
Proof. intro H. destruct g; simpl; rewrite ?(flat_map_ext _ _ H); reflexivity. Qed.

Lemma gflat_map_id {O} (g : gres O) : gflat_map (fun x => [x]) g = g.
Proof. destruct g; simpl; rewrite ?flat_map_singleton; reflexivity. Qed.

Section Edges.
  Variable G : objgraph.
  Hypothesis head_edge : forall n, attr_head_node G (attr_edge G n) = n.

  Notation efilter := (efilter G).
  Notation edges_of := (edges_of G).

  (* ---- pre-order ---- *)
  Lemma pre_sim fe seed self : forall fuel stack,
    run (Tree_preorder_edge_iter_step G fe seed) fuel (map (attr_edge G) stack)
    = edges_of (run (Node_preorder_iter_step G (efilter fe) self) fuel stack).
  Proof.
    induction fuel as [|fuel IH]; intro stack; [reflexivity|].
    rewrite !run_S. unfold Tree_preorder_edge_iter_step at 1, Node_preorder_iter_step at 1.
    cbv beta zeta. rewrite py_is_empty_map, py_pop_last_map.
    destruct stack as [|a s] using rev_ind; [reflexivity|]. clear IHs.
    rewrite py_is_empty_snoc, py_pop_last_snoc. simpl negb. cbv iota.
    rewrite head_edge. unfold py_extend, py_reversed.
    assert (Hf : match fe with None => true | Some f => f (attr_edge G a) end
                 = match efilter fe with None => true | Some f => f a end) by (destruct fe; reflexivity).
    rewrite Hf.
    assert (Hs : map (attr_edge G) s ++ map (fun n => attr_edge G n) (rev (attr_child_nodes G a))
                 = map (attr_edge G) (s ++ map (fun n => n) (rev (attr_child_nodes G a)))).
    { rewrite map_app, map_map. reflexivity. }
    rewrite Hs.
    destruct (match efilter fe with None => true | Some f => f a end);
      rewrite IH; unfold C15Model.edges_of; rewrite gflat_map_gprepend; reflexivity.
  Qed.

  Theorem preorder_edge_iter_is_node_iter fuel fe seed :
    Tree_preorder_edge_iter G fuel fe seed = edges_of (Tree_preorder_node_iter G fuel (efilter fe) seed).
  Proof.
    unfold Tree_preorder_edge_iter, Tree_preorder_node_iter, Node_preorder_iter. cbv zeta.
    exact (pre_sim fe seed seed fuel [seed]).
  Qed.

  (* ---- post-order ---- *)
  Definition epair (p : gnode G * bool) : gedge G * bool := (attr_edge G (fst p), snd p).

  Lemma post_sim fe seed self : forall fuel stack,
    run (Tree_postorder_edge_iter_step G fe seed) fuel (map epair stack)
    = edges_of (run (Node_postorder_iter_step G (efilter fe) self) fuel stack).
  Proof.
    induction fuel as [|fuel IH]; intro stack; [reflexivity|].
    rewrite !run_S. unfold Tree_postorder_edge_iter_step at 1, Node_postorder_iter_step at 1.
    cbv beta zeta. rewrite py_is_empty_map, py_pop_last_map.
    destruct stack as [|[a b] s] using rev_ind; [reflexivity|]. clear IHs.
    rewrite py_is_empty_snoc, py_pop_last_snoc. simpl negb. cbv iota.
    unfold epair at 1. simpl fst. simpl snd. cbv iota beta.
    destruct b.
    - assert (Hf : match fe with None => true | Some f => f (attr_edge G a) end
                   = match efilter fe with None => true | Some f => f a end) by (destruct fe; reflexivity).
      rewrite Hf.
      destruct (match efilter fe with None => true | Some f => f a end);
        rewrite IH; unfold C15Model.edges_of; rewrite gflat_map_gprepend; reflexivity.
    - rewrite head_edge. unfold py_extend, py_reversed, py_append.
      assert (Hs : (map epair s ++ [(attr_edge G a, true)])
                     ++ map (fun n => (attr_edge G n, false)) (rev (attr_child_nodes G a))
                   = map epair ((s ++ [(a, true)]) ++ map (fun n => (n, false)) (rev (attr_child_nodes G a)))).
      { rewrite !map_app, map_map. reflexivity. }
      rewrite Hs, IH. unfold C15Model.edges_of. rewrite gflat_map_gprepend. reflexivity.
  Qed.

  Theorem postorder_edge_iter_is_node_iter fuel fe seed :
    Tree_postorder_edge_iter G fuel fe seed = edges_of (Tree_postorder_node_iter G fuel (efilter fe) seed).
  Proof.
    unfold Tree_postorder_edge_iter, Tree_postorder_node_iter, Node_postorder_iter. cbv zeta.
    exact (post_sim fe seed seed fuel [(seed, false)]).
  Qed.

  (* ---- filters that agree pointwise give the same run ---- *)
  Lemma pre_filter_ext (f f' : gnode G -> bool) self : (forall x, f x = f' x) -> forall fuel stack,
    run (Node_preorder_iter_step G (Some f) self) fuel stack
    = run (Node_preorder_iter_step G (Some f') self) fuel stack.
  Proof.
    intros H. induction fuel as [|fuel IH]; intro stack; [reflexivity|].
    rewrite !run_S. unfold Node_preorder_iter_step at 1 3. cbv beta zeta.
    destruct (negb (py_is_empty stack)); [|reflexivity].
    destruct (py_pop_last stack) as [[a s]|]; [|reflexivity].
    rewrite (H a). destruct (f' a); rewrite IH; reflexivity.
  Qed.

  Lemma post_filter_ext (f f' : gnode G -> bool) self : (forall x, f x = f' x) -> forall fuel stack,
    run (Node_postorder_iter_step G (Some f) self) fuel stack
    = run (Node_postorder_iter_step G (Some f') self) fuel stack.
  Proof.
    intros H. induction fuel as [|fuel IH]; intro stack; [reflexivity|].
    rewrite !run_S. unfold Node_postorder_iter_step at 1 3. cbv beta zeta.
    destruct (negb (py_is_empty stack)); [|reflexivity].
    destruct (py_pop_last stack) as [[[a b] s]|]; [|reflexivity].
    destruct b; [rewrite (H a); destruct (f' a)|]; rewrite IH; reflexivity.
  Qed.

  (* ---- internal-edge variants ---- *)
  Theorem preorder_internal_edge_iter_is_node_iter fuel fe excl seed :
    Tree_preorder_internal_edge_iter G fuel fe excl seed
    = edges_of (Tree_preorder_internal_node_iter G fuel (efilter fe) excl seed).
  Proof.
    unfold Tree_preorder_internal_edge_iter, Tree_preorder_internal_node_iter, Node_preorder_internal_node_iter.
    destruct excl, fe as [g|]; cbv zeta; simpl efilter; rewrite preorder_edge_iter_is_node_iter;
      unfold Tree_preorder_node_iter, Node_preorder_iter; cbv zeta; simpl efilter; f_equal;
      apply pre_filter_ext; intro x; rewrite !head_edge; reflexivity.
  Qed.

  Theorem postorder_internal_edge_iter_is_node_iter fuel fe excl seed :
    Tree_postorder_internal_edge_iter G fuel fe excl seed
    = edges_of (Tree_postorder_internal_node_iter G fuel (efilter fe) excl seed).
  Proof.
    unfold Tree_postorder_internal_edge_iter, Tree_postorder_internal_node_iter, Node_postorder_internal_node_iter.
    destruct excl, fe as [g|]; cbv zeta; simpl efilter; rewrite postorder_edge_iter_is_node_iter;
      unfold Tree_postorder_node_iter, Node_postorder_iter; cbv zeta; simpl efilter; f_equal;
      apply post_filter_ext; intro x; rewrite !head_edge; reflexivity.
  Qed.

  (* ---- the remaining edge iterators are written as maps over the node iterator in the source ---- *)
  Theorem levelorder_edge_iter_is_node_iter fuel fe seed :
    Tree_levelorder_edge_iter G fuel fe seed = edges_of (Tree_levelorder_node_iter G fuel (efilter fe) seed).
  Proof. unfold Tree_levelorder_edge_iter. destruct fe; reflexivity. Qed.

  Theorem level_order_edge_iter_is_node_iter fuel fe seed :
    Tree_level_order_edge_iter G fuel fe seed = edges_of (Tree_level_order_node_iter G fuel (efilter fe) seed).
  Proof. unfold Tree_level_order_edge_iter, Tree_levelorder_edge_iter. destruct fe; reflexivity. Qed.

  Theorem inorder_edge_iter_is_node_iter fuel fe seed :
    Tree_inorder_edge_iter G fuel fe seed = edges_of (Tree_inorder_node_iter G fuel (efilter fe) seed).
  Proof. unfold Tree_inorder_edge_iter. destruct fe; reflexivity. Qed.

  Theorem leaf_edge_iter_is_node_iter fuel fe seed :
    Tree_leaf_edge_iter G fuel fe seed = edges_of (Tree_leaf_node_iter G fuel (efilter fe) seed).
  Proof. unfold Tree_leaf_edge_iter. destruct fe; reflexivity. Qed.

  (* ---- list-returning wrappers ---- *)
  Lemma gbind_done_edges (g : gres (gnode G)) :
    gbind (gflat_map (fun e => [e]) (edges_of g)) (fun l => GDone l)
    = edges_of (gbind (gflat_map (fun n => [n]) g) (fun l => GDone l)).
  Proof. unfold C15Model.edges_of. destruct g; simpl; rewrite ?flat_map_singleton; reflexivity. Qed.

  Theorem edges_is_nodes fuel fe seed :
    Tree_edges G fuel fe seed = edges_of (Tree_nodes G fuel (efilter fe) seed).
  Proof. unfold Tree_edges, Tree_nodes. rewrite preorder_edge_iter_is_node_iter. apply gbind_done_edges. Qed.

  Theorem leaf_edges_is_leaf_nodes fuel seed :
    Tree_leaf_edges G fuel seed = edges_of (Tree_leaf_nodes G fuel seed).
  Proof.
    unfold Tree_leaf_edges, Tree_leaf_nodes , C15Model.edges_of. rewrite gflat_map_gflat_map.
    apply gflat_map_ext. intro x. reflexivity.
  Qed.

  Theorem internal_edges_is_internal_nodes fuel excl seed :
    Tree_internal_edges G fuel excl seed = edges_of (Tree_internal_nodes G fuel excl seed).
  Proof.
    unfold Tree_internal_edges, Tree_internal_nodes , C15Model.edges_of. rewrite gflat_map_gflat_map.
    apply gflat_map_ext. intro x. reflexivity.
  Qed.
End Edges.
