(* C05: a well-formed clade tree is determined, up to the order of children, by its set of
   node masks: equal mask sets <-> equal canonical form (children sorted by mask) *)
From Coq Require Import ZArith List Bool Lia Permutation Sorted.
From DV Require Import Model.PyPrims Model.C05Model Model.C05Spec
     Proofs.C05Lists Proofs.C05Trees Proofs.C05Bits Proofs.C05Laminar.
Import ListNotations.
Open Scope Z_scope.

Definition mask_leb (a b : ctree) : bool := ct_mask a <=? ct_mask b.

Fixpoint ct_canon (t : ctree) : ctree :=
  match t with CT m ks => CT m (sort_by mask_leb (map ct_canon ks)) end.

Lemma ct_canon_mask t : ct_mask (ct_canon t) = ct_mask t.
Proof. destruct t; reflexivity. Qed.

Definition set_eq (a b : list Z) : Prop := forall x, In x a <-> In x b.

(* ---- children of a well-formed node *)
Lemma kids_eq_or_disj ks : pdisj (map ct_mask ks) ->
  forall a b, In a ks -> In b ks -> a = b \/ disj (ct_mask a) (ct_mask b).
Proof.
  induction ks as [|k r IH]; simpl; intros P a b Ia Ib; [tauto|].
  destruct P as [P1 P2]. destruct Ia as [Ia|Ia]; destruct Ib as [Ib|Ib]; subst.
  - now left.
  - right. apply P1. now apply in_map.
  - right. apply disj_sym. apply P1. now apply in_map.
  - now apply IH.
Qed.

Lemma disj_self_zero a : disj a a -> a = 0.
Proof. unfold disj. now rewrite Z.land_diag. Qed.

Lemma exists_other ks k : (2 <= length ks)%nat -> pdisj (map ct_mask ks) -> In k ks ->
  exists k', In k' ks /\ disj (ct_mask k) (ct_mask k').
Proof.
  intros L P I. destruct ks as [|a [|b r]]; simpl in L; try lia.
  simpl in P. destruct P as [P1 _].
  assert (Dab : disj (ct_mask a) (ct_mask b)) by (apply P1; now left).
  destruct I as [I | [I | I]].
  - subst. exists b. split; [right; now left | assumption].
  - subst. exists a. split; [now left | now apply disj_sym].
  - exists a. split; [now left|]. apply disj_sym. apply P1. right. now apply in_map.
Qed.

Section Node.
  Variables (m : Z) (ks : list ctree).
  Hypothesis NE : ks <> [].
  Hypothesis W : wf (CT m ks).

  Let Wn := proj1 (wf_node m ks NE) W.

  Lemma kid_wf k : In k ks -> wf k.
  Proof. destruct Wn as [_ [_ [_ F]]]. rewrite Forall_forall in F. apply F. Qed.

  Lemma kid_sub k : In k ks -> sub (ct_mask k) m.
  Proof. intro I. destruct Wn as [_ [E _]]. rewrite E. apply sub_orl_in. now apply in_map. Qed.

  Lemma kid_nonzero k : In k ks -> ct_mask k <> 0.
  Proof. intro I. apply wf_mask_nonzero. now apply kid_wf. Qed.

  Lemma kid_same_mask a b : In a ks -> In b ks -> ct_mask a = ct_mask b -> a = b.
  Proof.
    intros Ia Ib E. destruct Wn as [_ [_ [P _]]].
    destruct (kids_eq_or_disj ks P a b Ia Ib) as [H|H]; [assumption|].
    exfalso. rewrite E in H. apply disj_self_zero in H. now apply (kid_nonzero b).
  Qed.

  Lemma kid_strict k : In k ks -> ct_mask k <> m.
  Proof.
    intros I X. destruct Wn as [L [_ [P _]]].
    destruct (exists_other ks k L P I) as [k' [I' D]].
    apply (kid_nonzero k' I'). pose proof (kid_sub k' I') as S. rewrite <- X in S.
    apply disj_sym in D. clear - S D. zbits.
  Qed.

  Lemma under_kid c : In c (ct_masks (CT m ks)) -> c <> m -> exists k, In k ks /\ In c (ct_masks k).
  Proof.
    intros I N. simpl in I. destruct I as [I|I]; [congruence|]. apply in_flat_map in I. exact I.
  Qed.

  Lemma in_kid_masks k c : In k ks -> In c (ct_masks k) -> In c (ct_masks (CT m ks)) /\ sub c (ct_mask k) /\ c <> m /\ c <> 0.
  Proof.
    intros Ik Ic. split; [simpl; right; apply in_flat_map; now exists k|].
    pose proof (masks_sub k (kid_wf k Ik) c Ic) as S. split; [assumption|]. split.
    - intro X. subst c. apply (kid_strict k Ik). apply sub_antisym; [now apply kid_sub | assumption].
    - apply (masks_nonzero k (kid_wf k Ik) c Ic).
  Qed.
End Node.

Lemma sub_both_disj c a b : sub c a -> sub c b -> disj a b -> c = 0.
Proof. intros H1 H2 H3. zbits. Qed.

(* the children of two well-formed nodes with the same mask set correspond *)
Lemma kids_match m ks1 ks2 : ks1 <> [] -> ks2 <> [] -> wf (CT m ks1) -> wf (CT m ks2) ->
  set_eq (ct_masks (CT m ks1)) (ct_masks (CT m ks2)) ->
  forall k1, In k1 ks1 -> exists k2, In k2 ks2 /\ ct_mask k1 = ct_mask k2 /\ set_eq (ct_masks k1) (ct_masks k2).
Proof.
  intros N1 N2 W1 W2 E k1 I1.
  assert (Half : forall ksa ksb, ksa <> [] -> ksb <> [] -> wf (CT m ksa) -> wf (CT m ksb) ->
                 set_eq (ct_masks (CT m ksa)) (ct_masks (CT m ksb)) ->
                 forall ka, In ka ksa -> exists kb, In kb ksb /\ sub (ct_mask ka) (ct_mask kb)).
  { intros ksa ksb Na Nb Wa Wb Eab ka Ia.
    assert (Im : In (ct_mask ka) (ct_masks (CT m ksb))).
    { apply Eab. simpl. right. apply in_flat_map. exists ka. split; [assumption|]. destruct ka; now left. }
    destruct (under_kid m ksb (ct_mask ka) Im (kid_strict m ksa Na Wa ka Ia)) as [kb [Ib Ic]].
    exists kb. split; [assumption|]. apply (masks_sub kb (kid_wf m ksb Nb Wb kb Ib) _ Ic). }
  destruct (Half ks1 ks2 N1 N2 W1 W2 E k1 I1) as [k2 [I2 S12]].
  assert (E' : set_eq (ct_masks (CT m ks2)) (ct_masks (CT m ks1))) by (intro x; symmetry; apply E).
  destruct (Half ks2 ks1 N2 N1 W2 W1 E' k2 I2) as [k1' [I1' S21]].
  assert (Eq1 : k1 = k1').
  { destruct (proj1 (wf_node m ks1 N1) W1) as [_ [_ [P _]]].
    destruct (kids_eq_or_disj ks1 P k1 k1' I1 I1') as [H|H]; [assumption|]. exfalso.
    apply (kid_nonzero m ks1 N1 W1 k1 I1).
    apply (sub_both_disj _ (ct_mask k1) (ct_mask k1') (sub_refl _) (sub_trans _ _ _ S12 S21) H). }
  subst k1'. assert (Em : ct_mask k1 = ct_mask k2) by (now apply sub_antisym).
  exists k2. split; [assumption|]. split; [assumption|].
  assert (Dir : forall ksa ksb ka kb, ksa <> [] -> ksb <> [] -> wf (CT m ksa) -> wf (CT m ksb) ->
                set_eq (ct_masks (CT m ksa)) (ct_masks (CT m ksb)) -> In ka ksa -> In kb ksb ->
                ct_mask ka = ct_mask kb -> forall c, In c (ct_masks ka) -> In c (ct_masks kb)).
  { intros ksa ksb ka kb Na Nb Wa Wb Eab Ia Ib Emab c Ic.
    destruct (in_kid_masks m ksa Na Wa ka c Ia Ic) as [Ict [Sc [Ncm Nc0]]].
    apply Eab in Ict. destruct (under_kid m ksb c Ict Ncm) as [kb' [Ib' Ic']].
    destruct (proj1 (wf_node m ksb Nb) Wb) as [_ [_ [P _]]].
    destruct (kids_eq_or_disj ksb P kb kb' Ib Ib') as [H|H]; [now subst|]. exfalso. apply Nc0.
    rewrite Emab in Sc.
    apply (sub_both_disj c (ct_mask kb) (ct_mask kb') Sc (masks_sub kb' (kid_wf m ksb Nb Wb kb' Ib') c Ic') H). }
  intro c. split.
  - apply (Dir ks1 ks2 k1 k2 N1 N2 W1 W2 E I1 I2 Em).
  - apply (Dir ks2 ks1 k2 k1 N2 N1 W2 W1 E' I2 I1 (eq_sym Em)).
Qed.

(* ---- sorted lists *)
Lemma mask_leb_total a b : mask_leb a b = true \/ mask_leb b a = true.
Proof. unfold mask_leb. destruct (Z.le_ge_cases (ct_mask a) (ct_mask b)); [left | right]; now apply Z.leb_le. Qed.
Lemma mask_leb_trans a b c : mask_leb a b = true -> mask_leb b c = true -> mask_leb a c = true.
Proof. unfold mask_leb. rewrite !Z.leb_le. lia. Qed.

Lemma sorted_perm_unique (l1 l2 : list ctree) :
  StronglySorted (fun a b => mask_leb a b = true) l1 ->
  StronglySorted (fun a b => mask_leb a b = true) l2 ->
  Permutation l1 l2 ->
  (forall a b, In a l1 -> In b l1 -> ct_mask a = ct_mask b -> a = b) ->
  l1 = l2.
Proof.
  revert l2. induction l1 as [|x r IH]; intros l2 S1 S2 P Inj.
  - apply Permutation_nil in P. now subst.
  - destruct l2 as [|y r2]; [apply Permutation_sym, Permutation_nil in P; discriminate|].
    inversion S1 as [|? ? S1' F1]. inversion S2 as [|? ? S2' F2]. subst.
    rewrite Forall_forall in F1, F2.
    assert (Exy : x = y).
    { assert (Ix : In x (y :: r2)) by (apply (Permutation_in _ P); now left).
      assert (Iy : In y (x :: r)) by (apply (Permutation_in _ (Permutation_sym P)); now left).
      destruct Ix as [Ix|Ix]; [now symmetry|]. destruct Iy as [Iy|Iy]; [assumption|].
      apply Inj; [now left | now right |].
      specialize (F1 y Iy). specialize (F2 x Ix). unfold mask_leb in *. apply Z.leb_le in F1, F2. lia. }
    subst y. f_equal. apply IH; try assumption.
    + now apply Permutation_cons_inv in P.
    + intros a b Ia Ib. apply Inj; now right.
Qed.

(* ---- uniqueness *)
Theorem wf_tree_unique : forall t1 t2, wf t1 -> wf t2 -> ct_mask t1 = ct_mask t2 ->
  set_eq (ct_masks t1) (ct_masks t2) -> ct_canon t1 = ct_canon t2.
Proof.
  induction t1 as [m ks1 IH] using ctree_ind'. intros [m2 ks2] W1 W2 Em E. simpl in Em. subst m2.
  destruct ks1 as [|a1 r1] eqn:E1; destruct ks2 as [|a2 r2] eqn:E2.
  - reflexivity.
  - exfalso. rewrite <- E2 in *. assert (N2 : ks2 <> []) by (rewrite E2; discriminate).
    assert (I : In a2 ks2) by (rewrite E2; now left).
    assert (Im : In (ct_mask a2) (ct_masks (CT m ks2))).
    { simpl. right. apply in_flat_map. exists a2. split; [assumption | destruct a2; now left]. }
    apply E in Im. simpl in Im. destruct Im as [Im | []].
    apply (kid_strict m ks2 N2 W2 a2 I). now symmetry.
  - exfalso. rewrite <- E1 in *. assert (N1 : ks1 <> []) by (rewrite E1; discriminate).
    assert (I : In a1 ks1) by (rewrite E1; now left).
    assert (Im : In (ct_mask a1) (ct_masks (CT m ks1))).
    { simpl. right. apply in_flat_map. exists a1. split; [assumption | destruct a1; now left]. }
    apply E in Im. simpl in Im. destruct Im as [Im | []].
    apply (kid_strict m ks1 N1 W1 a1 I). now symmetry.
  - rewrite <- E1, <- E2 in *.
    assert (N1 : ks1 <> []) by (rewrite E1; discriminate).
    assert (N2 : ks2 <> []) by (rewrite E2; discriminate). clear E1 E2 a1 r1 a2 r2.
    assert (E' : set_eq (ct_masks (CT m ks2)) (ct_masks (CT m ks1))) by (intro x; symmetry; apply E).
    simpl. f_equal.
    rewrite Forall_forall in IH.
    assert (Inc : forall x, In x (map ct_canon ks1) <-> In x (map ct_canon ks2)).
    { intro x. rewrite !in_map_iff. split.
      - intros [k1 [Ex I1]]. destruct (kids_match m ks1 ks2 N1 N2 W1 W2 E k1 I1) as [k2 [I2 [Emk Ek]]].
        exists k2. split; [|assumption]. rewrite <- Ex. symmetry.
        apply (IH k1 I1 k2 (kid_wf m ks1 N1 W1 k1 I1) (kid_wf m ks2 N2 W2 k2 I2) Emk Ek).
      - intros [k2 [Ex I2]]. destruct (kids_match m ks2 ks1 N2 N1 W2 W1 E' k2 I2) as [k1 [I1 [Emk Ek]]].
        exists k1. split; [|assumption]. rewrite <- Ex.
        apply (IH k1 I1 k2 (kid_wf m ks1 N1 W1 k1 I1) (kid_wf m ks2 N2 W2 k2 I2) (eq_sym Emk)).
        intro x0. symmetry. apply Ek. }
    assert (InjC : forall ks, ks <> [] -> wf (CT m ks) -> forall a b, In a (map ct_canon ks) -> In b (map ct_canon ks) ->
                   ct_mask a = ct_mask b -> a = b).
    { intros ks N W a b Ia Ib Eab. apply in_map_iff in Ia. destruct Ia as [ka [Ea Ia]].
      apply in_map_iff in Ib. destruct Ib as [kb [Eb Ib]]. subst a b. rewrite !ct_canon_mask in Eab.
      now rewrite (kid_same_mask m ks N W ka kb Ia Ib Eab). }
    assert (ND : forall ks, ks <> [] -> wf (CT m ks) -> NoDup (map ct_canon ks)).
    { intros ks N W. assert (NDk : NoDup ks).
      { destruct (proj1 (wf_node m ks N) W) as [_ [_ [P F]]]. rewrite Forall_forall in F. clear - P F.
        induction ks as [|k r IHr]; [constructor|]. simpl in P. destruct P as [P1 P2]. constructor.
        - intro I. specialize (P1 (ct_mask k) (in_map ct_mask r k I)). apply disj_self_zero in P1.
          apply (wf_mask_nonzero k); [apply F; now left | assumption].
        - apply IHr; [assumption | intros; apply F; now right]. }
      clear - NDk N W. 
      assert (G : forall l, NoDup l -> (forall a b, In a l -> In b l -> ct_mask a = ct_mask b -> a = b) -> NoDup (map ct_canon l)).
      { induction l as [|k r IHr]; intros NDl Inj; simpl; [constructor|]. inversion NDl as [|? ? Nk Nr]. subst.
        constructor.
        - intro I. apply in_map_iff in I. destruct I as [k' [Ek Ik]].
          assert (k' = k). { apply Inj; [now right | now left |]. rewrite <- (ct_canon_mask k'), Ek, ct_canon_mask. reflexivity. }
          subst. contradiction.
        - apply IHr; [assumption | intros a b Ia Ib; apply Inj; now right]. }
      apply G; [assumption|]. intros a b Ia Ib. now apply (kid_same_mask m ks N W). }
    apply sorted_perm_unique.
    + apply sort_by_strongly_sorted; [apply mask_leb_total | apply mask_leb_trans].
    + apply sort_by_strongly_sorted; [apply mask_leb_total | apply mask_leb_trans].
    + rewrite (sort_by_perm mask_leb (map ct_canon ks1)), (sort_by_perm mask_leb (map ct_canon ks2)).
      apply NoDup_Permutation; [now apply ND | now apply ND | exact Inc].
    + intros a b Ia Ib. apply (InjC ks1 N1 W1); now apply sort_by_in in Ia, Ib.
Qed.

(* converse: the canonical form has the same masks *)
Lemma ct_canon_masks : forall t, set_eq (ct_masks (ct_canon t)) (ct_masks t).
Proof.
  induction t as [m ks IH] using ctree_ind'. intro x. simpl. rewrite Forall_forall in IH.
  rewrite !in_flat_map. split; (intros [H|[k [Ik Ic]]]; [now left | right]).
  - apply sort_by_in in Ik. apply in_map_iff in Ik. destruct Ik as [k0 [E Ik0]]. subst k.
    exists k0. split; [assumption|]. now apply (IH k0 Ik0).
  - exists (ct_canon k). split; [apply sort_by_in; now apply in_map | now apply (IH k Ik)].
Qed.

Theorem canon_iff_masks t1 t2 : wf t1 -> wf t2 ->
  (ct_canon t1 = ct_canon t2 <-> ct_mask t1 = ct_mask t2 /\ set_eq (ct_masks t1) (ct_masks t2)).
Proof.
  intros W1 W2. split.
  - intro E. split.
    + rewrite <- (ct_canon_mask t1), <- (ct_canon_mask t2), E. reflexivity.
    + intro x. rewrite <- (ct_canon_masks t1 x), <- (ct_canon_masks t2 x), E. reflexivity.
  - intros [Em Es]. now apply wf_tree_unique.
Qed.
