(* C14: the statements of Props/C14.v, assembled from the lemma files *)
From Coq Require Import ZArith QArith List Bool Lia.
From DV Require Import Model.PyPrims Model.Tree Model.C14Model Model.C14Spec
     Proofs.C14Dict Proofs.C14Pdm Proofs.C14Mrca.
Import ListNotations.
Open Scope Z_scope.

Definition leaf_taxon (t : tree) (a : Z) : Prop := In (Some a) (leaf_taxa t).

Lemma dist_steps_of_lca t a b r la sa lb sb :
  lca a b t = Some r -> down a r = Some (la, sa) -> down b r = Some (lb, sb) ->
  dist t a b = Some (la + lb) /\ steps t a b = Some (sa + sb).
Proof. intros L D1 D2. unfold dist, steps. rewrite L, D1, D2. auto. Qed.

Lemma pdm_exact_p : forall t : tree,
  good_leaves t -> t_kids t <> [] ->
  exists p, compile_from_tree t = Ok p /\
    (forall a b, leaf_taxon t a -> leaf_taxon t b ->
       exists r d s,
         lca a b t = Some r /\ dist t a b = Some d /\ steps t a b = Some s /\
         tget2 a b (p_dist p) = Some d /\ tget2 a b (p_steps p) = Some s /\
         tget2 a b (p_mrca p) = Some (t_id r) /\
         patristic_distance p a b = Ok d /\ path_edge_count p a b = Ok s /\ pdm_mrca p a b = Ok (t_id r)) /\
    (forall a b, ~ (leaf_taxon t a /\ leaf_taxon t b) ->
       tget2 a b (p_dist p) = None /\ tget2 a b (p_steps p) = None /\ tget2 a b (p_mrca p) = None) /\
    (forall a b, leaf_taxon t a -> leaf_taxon t b -> a <> b ->
       (count_occ zz_dec (p_log p) (a, b) + count_occ zz_dec (p_log p) (b, a) = 1)%nat) /\
    (forall a b, In (a, b) (p_log p) -> leaf_taxon t a /\ leaf_taxon t b /\ a <> b) /\
    p_pairs p = p_log p /\
    NoDup (p_mapped p) /\ (forall a, In a (p_mapped p) <-> leaf_taxon t a) /\
    p_num_edges p = Z.of_nat (size t) /\ p_tree_length p = total_length t.
Proof.
  intros t G Hk. destruct (pdm_exact_l t G Hk) as [p [E [Hn [Hl [Nd [Hm [Hp [Hc [Hv Hnone]]]]]]]]].
  exists p. split; [exact E|]. unfold leaf_taxon.
  split; [|split; [|split; [|split; [|split; [|split; [|split; [|split]]]]]]]; auto.
  - intros a b Ha Hb. apply has_In in Ha. apply has_In in Hb.
    destruct (Hv a b Ha Hb) as [r [la [sa [lb [sb [L [D1 [D2 [T1 [T2 T3]]]]]]]]]].
    destruct (dist_steps_of_lca _ _ _ _ _ _ _ _ L D1 D2) as [Ed Es].
    exists r, (la + lb), (sa + sb). repeat split; auto.
    + unfold patristic_distance. destruct (Z.eqb a b) eqn:Eab.
      * apply Z.eqb_eq in Eab. subst b. destruct (lca_diag a t Ha) as [r0 [e0 [L0 [_ [_ D0]]]]].
        rewrite L in L0. inversion L0. subst r0. rewrite D0 in D1, D2. inversion D1. inversion D2. subst. reflexivity.
      * unfold key_get. rewrite T1. reflexivity.
    + unfold path_edge_count. destruct (Z.eqb a b) eqn:Eab.
      * apply Z.eqb_eq in Eab. subst b. destruct (lca_diag a t Ha) as [r0 [e0 [L0 [_ [_ D0]]]]].
        rewrite L in L0. inversion L0. subst r0. rewrite D0 in D1, D2. inversion D1. inversion D2. subst. reflexivity.
      * unfold key_get. rewrite T2. reflexivity.
    + unfold pdm_mrca, key_get. rewrite T3. reflexivity.
  - intros a b H. apply Hnone. destruct (has a t) eqn:Ha; [|reflexivity]. destruct (has b t) eqn:Hb; [|reflexivity].
    exfalso. apply H. split; apply has_In; assumption.
  - intros a b Ha Hb N. apply has_In in Ha. apply has_In in Hb. rewrite !Hc.
    rewrite (ord_total a b N t G Ha Hb). destruct (ord b a t); reflexivity.
  - intros a b Hin. apply (count_occ_In zz_dec) in Hin. rewrite Hc in Hin.
    destruct (ord a b t) eqn:O; [|lia]. split; [apply has_In; eapply ord_has_x; exact O|].
    split; [apply has_In; eapply ord_has_y; exact O|]. intro; subst. rewrite ord_irrefl in O. discriminate.
  - intro a. rewrite Hm. apply has_In.
Qed.

Lemma dist_sym t a b : dist t a b = dist t b a.
Proof.
  unfold dist. rewrite (lca_sym a b t). destruct (lca b a t) as [r|]; [|reflexivity].
  destruct (down a r) as [[la sa]|], (down b r) as [[lb sb]|]; simpl; try reflexivity. f_equal. lia.
Qed.

Lemma steps_sym t a b : steps t a b = steps t b a.
Proof.
  unfold steps. rewrite (lca_sym a b t). destruct (lca b a t) as [r|]; [|reflexivity].
  destruct (down a r) as [[la sa]|], (down b r) as [[lb sb]|]; simpl; try reflexivity. f_equal. lia.
Qed.

Lemma leaf_taxon_dec t a : {leaf_taxon t a} + {~ leaf_taxon t a}.
Proof.
  unfold leaf_taxon. destruct (has a t) eqn:H.
  - left. apply has_In. exact H.
  - right. intro Hin. apply has_In in Hin. congruence.
Qed.

Lemma pdm_sym_p : forall t p, good_leaves t -> t_kids t <> [] -> compile_from_tree t = Ok p ->
  forall a b, tget2 a b (p_dist p) = tget2 b a (p_dist p) /\
              tget2 a b (p_steps p) = tget2 b a (p_steps p) /\
              tget2 a b (p_mrca p) = tget2 b a (p_mrca p).
Proof.
  intros t p G Hk E a b. destruct (pdm_exact_p t G Hk) as [p' [E' [Hv [Hnone _]]]].
  rewrite E in E'. inversion E'. subst p'.
  destruct (leaf_taxon_dec t a) as [Ha|Ha]; [destruct (leaf_taxon_dec t b) as [Hb|Hb]|].
  - destruct (Hv a b Ha Hb) as [r [d [s [L [Ed [Es [T1 [T2 [T3 _]]]]]]]]].
    destruct (Hv b a Hb Ha) as [r' [d' [s' [L' [Ed' [Es' [T1' [T2' [T3' _]]]]]]]]].
    rewrite T1, T2, T3, T1', T2', T3'. rewrite dist_sym in Ed. rewrite steps_sym in Es. rewrite lca_sym in L.
    split; [congruence|]. split; congruence.
  - destruct (Hnone a b) as [N1 [N2 N3]]; [tauto|]. destruct (Hnone b a) as [N1' [N2' N3']]; [tauto|].
    rewrite N1, N2, N3, N1', N2', N3'. auto.
  - destruct (Hnone a b) as [N1 [N2 N3]]; [tauto|]. destruct (Hnone b a) as [N1' [N2' N3']]; [tauto|].
    rewrite N1, N2, N3, N1', N2', N3'. auto.
Qed.

Lemma pdm_zero_diag_p : forall t p, good_leaves t -> t_kids t <> [] -> compile_from_tree t = Ok p ->
  forall a, leaf_taxon t a ->
    tget2 a a (p_dist p) = Some 0 /\ tget2 a a (p_steps p) = Some 0 /\
    patristic_distance p a a = Ok 0 /\ path_edge_count p a a = Ok 0 /\
    exists leaf, lca a a t = Some leaf /\ t_kids leaf = [] /\ t_taxon leaf = Some a /\ tget2 a a (p_mrca p) = Some (t_id leaf).
Proof.
  intros t p G Hk E a Ha. destruct (pdm_exact_p t G Hk) as [p' [E' [Hv _]]].
  rewrite E in E'. inversion E'. subst p'.
  destruct (Hv a a Ha Ha) as [r [d [s [L [Ed [Es [T1 [T2 [T3 _]]]]]]]]].
  pose proof Ha as Ha'. apply has_In in Ha'. destruct (lca_diag a t Ha') as [r0 [e0 [L0 [_ [_ D0]]]]].
  rewrite L in L0. inversion L0. subst r0. unfold dist in Ed. unfold steps in Es. rewrite L, D0 in Ed, Es.
  simpl in Ed, Es. inversion Ed. inversion Es. subst d s.
  split; [exact T1|]. split; [exact T2|]. unfold patristic_distance, path_edge_count. rewrite Z.eqb_refl.
  split; [reflexivity|]. split; [reflexivity|]. exists r. split; [exact L|].
  destruct r as [i x lb e ks]. destruct ks as [|k ks].
  - simpl in D0. destruct (oz_eqb x (Some a)) eqn:Ex; [|discriminate]. apply oz_eqb_eq in Ex.
    split; [reflexivity|]. split; [exact Ex | exact T3].
  - exfalso. rewrite down_node in D0.
    assert (forall l, first_some (fun c => match down a c with Some ls => Some (fst ls + len0 c, snd ls + 1) | None => None end) l <> Some (0, 0)).
    { induction l as [|c l IHl]; simpl; [discriminate|]. destruct (down a c) as [[l0 s0]|] eqn:Dc; [|exact IHl].
      simpl. intro X. inversion X.
      assert (0 <= s0); [|lia].
      clear - Dc. revert s0 l0 Dc. induction c as [i x lb e ks IH] using tree_ind'. intros s0 l0 Dc. destruct ks as [|k r].
      - simpl in Dc. destruct (oz_eqb x (Some a)); inversion Dc. lia.
      - rewrite down_node in Dc. induction IH as [|c cs Hc Hcs IHcs]; [discriminate|]. simpl in Dc.
        destruct (down a c) as [[l1 s1]|] eqn:D1.
        + inversion Dc. specialize (Hc s1 l1 eq_refl). simpl. lia.
        + apply IHcs. exact Dc. }
    apply (H (k :: ks)). exact D0.
Qed.

Lemma pdm_single_node_p i x lb e :
  exists p, compile_from_tree (T i x lb e []) = Ok p /\
    p_dist p = [] /\ p_steps p = [] /\ p_mrca p = [] /\ p_mapped p = [] /\ p_pairs p = [] /\
    p_num_edges p = 1 /\ p_tree_length p = total_length (T i x lb e []).
Proof. eexists. split; [reflexivity|]. destruct e; simpl; unfold len0; simpl; repeat split; lia. Qed.

(* ---- Tree.mrca ---- *)
Lemma tree_mrca_deepest_p :
  forall (ee : bool) (ns : nspace) (t : tree) (rooted : option bool) (enc : dict Z) (S : list Z)
         (start : option Z) (updated : bool),
  ns_inj ns -> (forall a, In a S -> member ns a) -> S <> [] ->
  let sid := match start with Some i => i | None => t_id t end in
  let refresh := Z.eqb (enc_get enc sid) 0 || negb updated in
  let t' := tree_after t rooted refresh in
  good_leaves t' -> members_ok ns t' -> NoDup (ids t') ->
  (refresh = true \/ current ns enc t) ->
  forall st, find_node sid t' = Some st ->
  exists mt', tree_mrca ee ns (mkMt t rooted enc) (ByTaxa S) start updated
              = (Ok (option_map t_id (deepest S st)), mt')
              /\ mt_tree mt' = t' /\ (refresh = false -> mt' = mkMt t rooted enc).
Proof. exact tree_mrca_taxa_l. Qed.

Lemma tree_after_leaves t rooted refresh : leaf_taxa (tree_after t rooted refresh) = leaf_taxa t.
Proof.
  unfold tree_after. destruct (refresh && (negb (is_true rooted) && (nkids t =? 2))); [|reflexivity].
  apply leaf_taxa_collapse.
Qed.

Lemma tree_after_rooted t refresh : tree_after t (Some true) refresh = t.
Proof. unfold tree_after. simpl. rewrite andb_false_r. reflexivity. Qed.

Lemma tree_mrca_errors_p ee ns mt start updated :
  tree_mrca ee ns mt (ByTaxa []) start updated = (Err ValueErr, mt) /\
  tree_mrca ee ns mt (ByMask 0) start updated = (Err ValueErr, mt) /\
  tree_mrca ee ns mt NoArg start updated = (Err TypeErr, mt) /\
  (forall S a, In a S -> ns_bit ns a = None -> tree_mrca ee ns mt (ByTaxa S) start updated = (Err KeyErr, mt)).
Proof.
  split; [reflexivity|]. split; [reflexivity|]. split; [reflexivity|].
  intros S a. apply tree_mrca_nonmember.
Qed.

(* a non-vacuity witness: ((A:1,B:2):1,(C:1,(D:0.5)):2,E:3) with a unifurcation above D *)
Definition ex_tree : tree :=
  T 0 None None None
    [T 1 None None (Some 1024) [T 2 (Some 0) None (Some 1024) []; T 3 (Some 1) None (Some 2048) []];
     T 4 None None (Some 2048) [T 5 (Some 2) None (Some 1024) []; T 8 None None None [T 6 (Some 3) None (Some 512) []]];
     T 7 (Some 4) None (Some 3072) []].
Definition ex_ns : nspace := map (fun i => mkNsEnt i (i + 1) i) [0; 1; 2; 3; 4].

Lemma ex_good : good_leaves ex_tree /\ t_kids ex_tree <> [].
Proof.
  split; [|discriminate]. split.
  - simpl. repeat (constructor; [simpl; intuition discriminate|]). constructor.
  - simpl. intuition discriminate.
Qed.

Lemma ex_ns_bit a i : ns_bit ex_ns a = Some i -> i = a + 1.
Proof.
  unfold ex_ns. cbn -[Z.eqb Z.add]. intro H.
  destruct (Z.eqb 0 a) eqn:E0; [apply Z.eqb_eq in E0; inversion H; lia|].
  destruct (Z.eqb 1 a) eqn:E1; [apply Z.eqb_eq in E1; inversion H; lia|].
  destruct (Z.eqb 2 a) eqn:E2; [apply Z.eqb_eq in E2; inversion H; lia|].
  destruct (Z.eqb 3 a) eqn:E3; [apply Z.eqb_eq in E3; inversion H; lia|].
  destruct (Z.eqb 4 a) eqn:E4; [apply Z.eqb_eq in E4; inversion H; lia|].
  discriminate.
Qed.

Lemma ex_mrca_hyps :
  ns_inj ex_ns /\ (forall a, In a [2; 3] -> member ex_ns a) /\ members_ok ex_ns ex_tree /\ NoDup (ids ex_tree)
  /\ find_node 0 (tree_after ex_tree None true) = Some ex_tree.
Proof.
  assert (M : forall a, In a [0; 1; 2; 3; 4] -> member ex_ns a).
  { intros a H. simpl in H. exists (a + 1). destruct H as [<-|[<-|[<-|[<-|[<-|[]]]]]]; split; (reflexivity || lia). }
  split; [|split; [|split; [|split]]].
  - intros a b i Ha Hb. apply ex_ns_bit in Ha. apply ex_ns_bit in Hb. lia.
  - intros a H. apply M. simpl in *. tauto.
  - intros a H. apply M. apply has_In in H. simpl in H.
    destruct H as [H|[H|[H|[H|[H|[]]]]]]; inversion H; simpl; tauto.
  - unfold ids. simpl. repeat (constructor; [simpl; intuition discriminate|]). constructor.
  - reflexivity.
Qed.

(* ---- NJ / UPGMA run to completion on the matrix of any tree ---- *)
From DV Require Import Proofs.C14Clu.

Lemma dget_map_vals {V W} (f : V -> W) k (d : dict V) :
  dget k (map (fun kv => (fst kv, f (snd kv))) d) = option_map f (dget k d).
Proof. induction d as [|[k' v] r IH]; simpl; [reflexivity|]. destruct (Z.eqb k k'); [reflexivity | exact IH]. Qed.

Lemma tget2_map_vals {V W} (f : V -> W) a b (T : tbl V) :
  tget2 a b (map (fun r => (fst r, map (fun kv => (fst kv, f (snd kv))) (snd r))) T) = option_map f (tget2 a b T).
Proof.
  unfold tget2. induction T as [|[k row] r IH]; simpl; [reflexivity|].
  destruct (Z.eqb a k); [apply dget_map_vals | exact IH].
Qed.

Lemma qtable_get p w a b :
  tget2 a b (qtable p w) = if w then option_map uq (tget2 a b (p_dist p)) else option_map inject_Z (tget2 a b (p_steps p)).
Proof. unfold qtable. destruct w; apply tget2_map_vals. Qed.

Lemma clustering_total_p t p w order :
  good_leaves t -> t_kids t <> [] -> compile_from_tree t = Ok p ->
  NoDup order -> order <> [] -> (forall a, In a order -> In (Some a) (leaf_taxa t)) ->
  (exists T, nj_tree (qtable p w) order = Ok T) /\ (exists T, upgma_tree (qtable p w) order = Ok T).
Proof.
  intros G Hk E N Ne Hin. destruct (pdm_exact_p t G Hk) as [p' [E' [Hv _]]]. rewrite E in E'. inversion E'. subst p'.
  assert (C : mcomplete (qtable p w) order).
  { intros a b Ha Hb _. destruct (Hv a b (Hin a Ha) (Hin b Hb)) as [r [d [s [_ [_ [_ [T1 [T2 _]]]]]]]].
    rewrite qtable_get, T1, T2. destruct w; discriminate. }
  assert (S : msymmetric (qtable p w) order).
  { intros a b Ha Hb _. unfold mval. rewrite !qtable_get.
    destruct (pdm_sym_p t p G Hk E a b) as [S1 [S2 _]]. rewrite S1, S2. reflexivity. }
  split; [apply nj_tree_total_l | apply upgma_tree_total_l]; assumption.
Qed.

(* ---- a leaf without a taxon beside the clade asked for: Tree.mrca stops too early ---- *)
Definition bad_tree : tree :=
  T 0 None None None
    [T 1 None None (Some 1024) [];
     T 3 None None (Some 1024) [T 4 (Some 1) None (Some 1024) []; T 2 (Some 0) None (Some 1024) []]].
Definition bad_ns : nspace := [mkNsEnt 0 0 0; mkNsEnt 1 1 1].

Lemma tree_mrca_taxonless_leaf_refuted_p :
  NoDup (leaf_taxa bad_tree) /\ NoDup (ids bad_tree) /\
  fst (tree_mrca true bad_ns (mkMt bad_tree (Some true) []) (ByTaxa [0; 1]) None true) = Ok (Some 0) /\
  fst (tree_mrca false bad_ns (mkMt bad_tree (Some true) []) (ByTaxa [0; 1]) None true) = Ok (Some 3) /\
  option_map t_id (deepest [0; 1] bad_tree) = Some 3.
Proof.
  split; [|split; [|split; [|split]]]; try reflexivity.
  - simpl. repeat (constructor; [simpl; intuition discriminate|]). constructor.
  - unfold ids. simpl. repeat (constructor; [simpl; intuition discriminate|]). constructor.
Qed.
