(* C20: the number of rows of a matrix the NEXUS skeleton accepts (Model/C20Nexus2.v).
   The reader never compares the number of rows with NTAX; what bounds it is the capacity of the taxon namespace
   (get_taxon raises TooManyTaxaError when a NEW label arrives and the namespace already has NTAX members):
   the rows are distinct taxa of the namespace, and the namespace holds at most max(NTAX, what it held before). *)
From Coq Require Import String ZArith List Bool Lia.
From DV Require Import Model.PyPrims Model.Tokenizer Model.Newick Gen.ReaderLoops Model.C20Model Model.C20Nexus2
  Proofs.C20NexusDims.
Import ListNotations.
Close Scope string_scope.
Open Scope list_scope.
Open Scope Z_scope.

Lemma PE_tns a b : PE a b -> n_tns b = n_tns a.
Proof. unfold PE, pay. intro H. inversion H. reflexivity. Qed.
Lemma PE_ntax a b : PE a b -> n_ntax b = n_ntax a.
Proof. unfold PE, pay. intro H. inversion H. reflexivity. Qed.

Lemma tns_set_last_mat st m : n_tns (set_last_mat st m) = n_tns st.
Proof. unfold set_last_mat. destruct (rev (n_mats st)); reflexivity. Qed.
Lemma ntax_set_last_mat st m : n_ntax (set_last_mat st m) = n_ntax st.
Proof. unfold set_last_mat. destruct (rev (n_mats st)); reflexivity. Qed.

Lemma nth_error_set_nth_same (A : Type) : forall (l : list A) i v, (i < length l)%nat -> nth_error (set_nth l i v) i = Some v.
Proof.
  induction l as [|x l IH]; intros i v H; [simpl in H; lia|].
  destruct i as [|i]; [reflexivity|]. cbn [set_nth nth_error]. apply IH. simpl in H. lia.
Qed.

Lemma set_nth_length (A : Type) : forall (l : list A) i v, length (set_nth l i v) = length l.
Proof.
  induction l as [|x l IH]; intros i v; [destruct i; reflexivity|].
  destruct i as [|i]; [reflexivity|]. cbn [set_nth length]. rewrite IH. reflexivity.
Qed.

Lemma tns_labels_set st ti ls : (ti < length (n_tns st))%nat -> tns_labels (tns_set_labels st ti ls) ti = ls.
Proof.
  intro H. unfold tns_set_labels. destruct (nth_error (n_tns st) ti) as [[t l]|] eqn:E.
  - unfold tns_labels. cbn. rewrite nth_error_set_nth_same by exact H. reflexivity.
  - apply nth_error_None in E. lia.
Qed.

Lemma tns_length_set st ti ls : length (n_tns (tns_set_labels st ti ls)) = length (n_tns st).
Proof.
  unfold tns_set_labels. destruct (nth_error (n_tns st) ti) as [[t l]|]; [|reflexivity].
  cbn. apply set_nth_length.
Qed.

Lemma ntax_tns_set_labels st ti ls : n_ntax (tns_set_labels st ti ls) = n_ntax st.
Proof. unfold tns_set_labels. destruct (nth_error (n_tns st) ti) as [[t l]|]; reflexivity. Qed.

Lemma find_label_bound lower l : forall ls k i, find_label lower l ls k = Some i -> (k <= i < k + length ls)%nat.
Proof.
  induction ls as [|x ls IH]; intros k i H; cbn [find_label] in H; [discriminate|].
  destruct (label_eq lower x l); [inversion H; subst; simpl; lia|]. apply IH in H. simpl. lia.
Qed.

(* get_taxon on a valid namespace: the taxon is a member afterwards; the namespace grows only below NTAX *)
Lemma get_taxon_rows lower st ti label t st1 nt B :
  get_taxon lower st ti label = ROk (t, st1) ->
  (ti < length (n_tns st))%nat -> n_ntax st = Some nt -> nt <> 0 -> nt <= B -> zlen (tns_labels st ti) <= B ->
  (t < length (tns_labels st1 ti))%nat /\ (length (tns_labels st ti) <= length (tns_labels st1 ti))%nat
  /\ zlen (tns_labels st1 ti) <= B /\ length (n_tns st1) = length (n_tns st) /\ n_ntax st1 = n_ntax st.
Proof.
  intros H Hv Hnt Hz HB HL. unfold get_taxon in H. cbv zeta in H. rewrite Hnt in H.
  destruct (find_label lower label (tns_labels st ti) 0) as [i|] eqn:Ef.
  - inversion H; subst. apply find_label_bound in Ef. repeat split; try lia; try assumption; reflexivity.
  - destruct (negb (nt =? 0) && negb (zlen (tns_labels st ti) <? nt)) eqn:Efull; [discriminate H|].
    inversion H; subst. rewrite tns_labels_set by exact Hv. rewrite app_length. cbn [length].
    apply andb_false_iff in Efull. destruct Efull as [Ez|El].
    + apply negb_false_iff in Ez. apply Z.eqb_eq in Ez. contradiction.
    + apply negb_false_iff in El. apply Z.ltb_lt in El.
      repeat split; try lia.
      * unfold zlen in *. rewrite app_length. cbn [length]. lia.
      * apply tns_length_set.
      * apply ntax_tns_set_labels.
Qed.

(* keys of the rows *)
Lemma set_row_keys : forall rows t n,
  map fst (set_row rows t n) = if existsb (Nat.eqb t) (map fst rows) then map fst rows else map fst rows ++ [t].
Proof.
  induction rows as [|[i k] rows IH]; intros t n; cbn [set_row map fst existsb]; [reflexivity|].
  rewrite (Nat.eqb_sym t i). destruct (Nat.eqb i t) eqn:E; cbn [orb map fst]; [reflexivity|].
  rewrite IH. destruct (existsb (Nat.eqb t) (map fst rows)); reflexivity.
Qed.

Lemma set_row_keys_ok : forall rows t n (P : nat -> Prop),
  NoDup (map fst rows) -> (forall k, In k (map fst rows) -> P k) -> P t ->
  NoDup (map fst (set_row rows t n)) /\ (forall k, In k (map fst (set_row rows t n)) -> P k).
Proof.
  intros rows t n P ND HP Pt. rewrite set_row_keys.
  destruct (existsb (Nat.eqb t) (map fst rows)) eqn:E; [split; assumption|].
  split.
  - apply NoDup_rev in ND. rewrite <- (rev_involutive (map fst rows ++ [t])). apply NoDup_rev.
    rewrite rev_app_distr. cbn [rev app]. constructor; [|exact ND].
    rewrite <- in_rev. intro Hin.
    assert (existsb (Nat.eqb t) (map fst rows) = true) by (apply existsb_exists; exists t; split; [exact Hin | apply Nat.eqb_refl]).
    congruence.
  - intros k Hk. apply in_app_or in Hk. destruct Hk as [Hk|[Hk|[]]]; [auto | subst; exact Pt].
Qed.

Lemma nodup_bounded_length : forall (l : list nat) n, NoDup l -> (forall k, In k l -> (k < n)%nat) -> (length l <= n)%nat.
Proof.
  intros l n ND HB. rewrite <- (seq_length n 0). apply NoDup_incl_length; [exact ND|].
  intros k Hk. apply in_seq. specialize (HB k Hk). lia.
Qed.

Section Rows.
Variable fx : nfix.
Variable upper lower : str -> str.
Variable sym_ok : Z -> Z -> bool.
Variable is_float : str -> bool.
Variable F : nat.

(* the invariant of the row loop *)
Definition KI (ti : nat) (nt B : Z) (st : nstate) (m : matrix) : Prop :=
  m_tns m = ti /\ (ti < length (n_tns st))%nat /\ n_ntax st = Some nt
  /\ zlen (tns_labels st ti) <= B
  /\ NoDup (map fst (m_rows m)) /\ (forall k, In k (map fst (m_rows m)) -> (k < length (tns_labels st ti))%nat).

Lemma KI_frame ti nt B st st' m : n_tns st' = n_tns st -> n_ntax st' = n_ntax st -> KI ti nt B st m -> KI ti nt B st' m.
Proof.
  intros Ht Hn [A [Bv [C [D [E G]]]]]. unfold KI, tns_labels in *. rewrite Ht, Hn. repeat split; assumption.
Qed.

Lemma matrix_loop_rows L al il nchar ti nt B : nt <> 0 -> nt <= B ->
  forall f tok st m first tok' st' term pre,
  matrix_loop fx upper lower sym_ok is_float F f L al il nchar tok st m first = ROk (tok', st', term) ->
  n_mats st = pre ++ [m] -> KI ti nt B st m ->
  exists m', n_mats st' = pre ++ [m'] /\ KI ti nt B st' m'.
Proof.
  intros Hz HB. induction f as [|f IH]; intros tok st m first tok' st' term pre H Hm K; [discriminate|].
  cbn [matrix_loop] in H. step H.
  2:{ inversion H; subst. exists m. auto. }
  cbv zeta in H. step H. destruct a as [t st1].
  destruct K as [K1 [K2 [K3 [K4 [K5 K6]]]]].
  rewrite K1 in E.
  destruct (get_taxon_rows _ _ _ _ _ _ _ _ E K2 K3 Hz HB K4) as [T1 [T2 [T3 [T4 T5]]]].
  destruct (get_taxon_frame _ _ _ _ _ _ E) as [Fm _].
  set (n0 := match row_len_of (m_rows m) t with Some n => n | None => 0 end) in *.
  set (m1 := mkMat (m_label m) (m_tns m) (set_row (m_rows m) t n0) (m_sets m)) in *.
  step H. destruct a as [[n1 term0] st2].
  assert (Q1 : PE (set_last_mat st1 m1) st2).
  { destruct al as [a|];
      [exact (proj1 (read_character_states_spec _ _ _ _ _ _ _ _ _ _ _ E0)) | exact (proj1 (read_continuous_values_spec _ _ _ _ _ _ _ _ _ _ E0))]. }
  set (m2 := mkMat (m_label m) (m_tns m) (set_row (m_rows m1) t n1) (m_sets m)) in *.
  assert (Hm2 : n_mats st2 = pre ++ [m1]).
  { rewrite (PE_mats _ _ Q1). apply (set_last_mat_mats _ pre m). congruence. }
  assert (Hm3 : n_mats (set_last_mat st2 m2) = pre ++ [m2]) by (apply (set_last_mat_mats _ pre m1); exact Hm2).
  assert (Ht3 : n_tns (set_last_mat st2 m2) = n_tns st1) by (rewrite tns_set_last_mat, (PE_tns _ _ Q1), tns_set_last_mat; reflexivity).
  assert (Hn3 : n_ntax (set_last_mat st2 m2) = n_ntax st1) by (rewrite ntax_set_last_mat, (PE_ntax _ _ Q1), ntax_set_last_mat; reflexivity).
  assert (K1' : KI ti nt B st1 m2).
  { unfold KI. cbn [m_tns m_rows m2 m1]. rewrite set_row_twice.
    destruct (set_row_keys_ok (m_rows m) t n1 (fun k => (k < length (tns_labels st1 ti))%nat) K5) as [N1 N2];
      [intros k Hk; specialize (K6 k Hk); lia | exact T1 |].
    repeat split; try assumption; try congruence; try lia. }
  assert (K3' : KI ti nt B (set_last_mat st2 m2) m2) by (apply (KI_frame _ _ _ st1); assumption).
  destruct term0.
  - inversion H; subst. exists m2. split; assumption.
  - step H; [discriminate H|]. step H. destruct a as [tk st4]. cbn [fst snd] in *.
    assert (P4 : PE (set_last_mat st2 m2) st4) by (apply fetch_PE in E1; exact E1).
    apply (IH _ _ _ _ _ _ _ pre) in H; [exact H | rewrite (PE_mats _ _ P4); exact Hm3 |].
    apply (KI_frame _ _ _ (set_last_mat st2 m2)); [apply (PE_tns _ _ P4) | apply (PE_ntax _ _ P4) | exact K3'].
Qed.

Lemma enum_from_bound (A : Type) : forall (l : list A) k i x, In (i, x) (enum_from k l) -> (k <= i < k + length l)%nat /\ nth_error l (i - k) = Some x.
Proof.
  induction l as [|y l IH]; intros k i x H; cbn [enum_from] in H; [destruct H|].
  destruct H as [H|H].
  - inversion H; subst. rewrite Nat.sub_diag. simpl. split; [lia | reflexivity].
  - apply IH in H. destruct H as [H1 H2]. simpl. split; [lia|].
    replace (i - k)%nat with (S (i - S k)) by lia. exact H2.
Qed.

(* the namespace a MATRIX statement reads into: valid, and with the labels it had before *)
Lemma get_tns_valid st title ti st1 : get_tns upper st title = ROk (ti, st1) ->
  (ti < length (n_tns st1))%nat /\ n_ntax st1 = n_ntax st /\ n_mats st1 = n_mats st /\ tns_labels st1 ti = tns_labels st ti.
Proof.
  unfold get_tns. intro H. destruct title as [t|].
  - match type of H with match ?hits with _ => _ end = _ => destruct hits as [|[i e] [|h2 hs]] eqn:Eh end; try discriminate H.
    inversion H; subst.
    assert (Hin : In (ti, e) (filter (fun p : nat * (option str * list str) =>
                      match fst (snd p) with Some l => seqb (upper l) (upper t) | None => false end) (enum_from 0 (n_tns st1))))
      by (rewrite Eh; left; reflexivity).
    apply filter_In in Hin. destruct Hin as [Hin _]. apply enum_from_bound in Hin. destruct Hin as [Hb _].
    repeat split; try reflexivity. lia.
  - destruct (n_tns st) as [|x [|y r]] eqn:Et; try discriminate H.
    + unfold new_tns in H. inversion H; subst. unfold tns_labels. cbn. rewrite Et. cbn. repeat split; lia.
    + inversion H; subst. rewrite Et. cbn. repeat split; lia.
Qed.

(* a MATRIX statement the skeleton accepts: the rows are distinct taxa and there are at most
   max(NTAX, members the namespace had before) of them *)
Lemma parse_matrix_rows st bt lt st' nt :
  parse_matrix fx upper lower sym_ok is_float F st bt lt = ROk st' -> n_ntax st = Some nt ->
  exists m, n_mats st' = n_mats st ++ [m] /\ NoDup (map fst (m_rows m))
            /\ zlen (m_rows m) <= Z.max nt (zlen (tns_labels st (m_tns m))).
Proof.
  intros H Hnt. unfold parse_matrix in H. rewrite Hnt in H.
  destruct (n_nchar st) as [nc|]; [|discriminate H].
  step H; [discriminate H|]. step H. destruct a as [ti st1].
  destruct (get_tns_valid _ _ _ _ E) as [V1 [V2 [V3 V4]]].
  cbv zeta in H.
  set (m0 := mkMat bt ti [] []) in *.
  set (st2 := upd_mats st1 (n_mats st1 ++ [m0])) in *.
  set (B := Z.max nt (zlen (tns_labels st ti))).
  assert (Hz : nt <> 0) by (apply orb_false_iff in C; destruct C as [C1 _]; apply Z.eqb_neq in C1; exact C1).
  assert (HB : nt <= B) by (unfold B; lia).
  assert (Hm2 : n_mats st2 = n_mats st ++ [m0]) by (unfold st2; rewrite mats_upd_mats; congruence).
  assert (K2 : KI ti nt B st2 m0).
  { unfold KI. cbn [m_tns m_rows m0 map]. repeat split; try assumption.
    - unfold st2. exact V2 || (cbn; congruence).
    - unfold st2, tns_labels in *. cbn. rewrite V4. unfold B. lia.
    - constructor.
    - intros k []. }
  assert (G : forall L al il tk s2 tok st3 term, PE st2 s2 ->
            matrix_loop fx upper lower sym_ok is_float F F L al il nc tk s2 m0 None = ROk (tok, st3, term) ->
            exists m', n_mats st3 = n_mats st ++ [m'] /\ KI ti nt B st3 m').
  { intros L al il tk s2 tok st3 term P2 EM.
    apply (matrix_loop_rows L al il nc ti nt B Hz HB F tk s2 m0 None tok st3 term (n_mats st)) in EM;
      [ exact EM | rewrite (PE_mats _ _ P2); exact Hm2 | apply (KI_frame _ _ _ st2); [apply (PE_tns _ _ P2) | apply (PE_ntax _ _ P2) | exact K2] ]. }
  assert (Fin : forall st3 m', PE st3 st' -> n_mats st3 = n_mats st ++ [m'] -> KI ti nt B st3 m' ->
            exists m, n_mats st' = n_mats st ++ [m] /\ NoDup (map fst (m_rows m))
                      /\ zlen (m_rows m) <= Z.max nt (zlen (tns_labels st (m_tns m)))).
  { intros st3 m' P34 Hm3 [K1 [_ [_ [K4 [K5 K6]]]]]. exists m'. split; [rewrite (PE_mats _ _ P34); exact Hm3|].
    split; [exact K5|]. rewrite K1. fold B.
    pose proof (nodup_bounded_length _ _ K5 K6) as L1. rewrite map_length in L1. unfold zlen in *. lia. }
  destruct (n_dtype st2) eqn:Dt.
  all: steps.
  all: repeat match goal with p : (option str * nstate)%type |- _ => destruct p end; cbn [fst snd] in *.
  all: match goal with
       | EM : matrix_loop _ _ _ _ _ _ _ _ _ _ _ _ ?s2 _ _ = ROk (_, ?s3, _) |- _ =>
         let P2 := fresh "P2" in
         assert (P2 : PE st2 s2) by (repeat match goal with E : next_token _ = ROk _ |- _ => apply next_token_PE in E end;
                                     unfold PE in *; cbn [fst snd] in *; congruence);
         destruct (G _ _ _ _ _ _ _ _ P2 EM) as [m' [A3 K3]]
       end.
  all: eapply (Fin _ m'); [ | exact A3 | exact K3 ];
       first [ apply PE_refl
             | repeat match goal with E : next_token _ = ROk _ |- _ => apply next_token_PE in E end;
               unfold PE in *; cbn [fst snd] in *; congruence ].
Qed.

End Rows.

Lemma nexus_matrix_rows_l fx upper lower sym_ok is_float F st bt lt st' ntax :
  parse_matrix fx upper lower sym_ok is_float F st bt lt = ROk st' -> n_ntax st = Some ntax ->
  exists m, n_mats st' = n_mats st ++ [m] /\ NoDup (map fst (m_rows m))
            /\ Z.of_nat (length (m_rows m)) <= Z.max ntax (Z.of_nat (length (tns_labels st (m_tns m)))).
Proof. exact (parse_matrix_rows fx upper lower sym_ok is_float F st bt lt st' ntax). Qed.
