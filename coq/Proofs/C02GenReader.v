(* Translator tie, part 4: the generated NewickReader methods (Gen/NewickGen.v) against Model/Newick.v. *)
From Coq Require Import ZArith List Bool Lia.
From DV Require Import Model.PyPrims Gen.CharClasses Model.Tokenizer Model.Newick Model.C02GenPrims Gen.NewickGen Proofs.C02GenReaderInv.
Import ListNotations.
Open Scope Z_scope.

Section ReaderGen.
Variable L : Type.
Variable parse_len : str -> option L.
Variable lower : str -> str.
Variable ro : ropts.

Ltac unf_body := unfold s_seq, s_if, s_ife, s_do, s_doe, s_call, s_break, s_skip, s_raise, s_ret, s_rete.

(* ---- _parse_tree_rooting_state ---- *)
Theorem py_rd_parse_tree_rooting_state_eq fuel st c :
  py_rd_parse_tree_rooting_state L parse_len lower ro fuel st (Some c) = MRet (parse_tree_rooting_state ro c) st.
Proof.
  unfold py_rd_parse_tree_rooting_state, py_rd_parse_tree_rooting_state_body, parse_tree_rooting_state, run_f. unf_body.
  cbv beta iota delta [fst snd py_rd_parse_tree_rooting_state_v_rooting_comment].
  unfold mem_str, reader_rooted_comments, reader_unrooted_comments. cbn [existsb ostr_eqb]. rewrite !orb_false_r.
  destruct (ro_rooting ro); cbn [rooting_is rooting_is_none str_eqb list_eqb Z.eqb Pos.eqb andb];
    destruct (str_eqb c [38; 82] || str_eqb c [38; 114]); try reflexivity;
    destruct (str_eqb c [38; 85] || str_eqb c [38; 117]); reflexivity.
Qed.

(* ---- _process_tree_comments ---- *)
Notation ptc_tree := py_rd_process_tree_comments_v_tree.
Notation ptc_found := py_rd_process_tree_comments_v_rooting_token_found.

Ltac ev_ptc := cbv beta iota delta [fst snd
    py_rd_process_tree_comments_v_tree py_rd_process_tree_comments_v_rooting_token_found py_rd_process_tree_comments_v_comment
    py_rd_process_tree_comments_v_stripped_comment py_rd_process_tree_comments_v_tree_comments py_rd_process_tree_comments_v_weighting_token_found
    set_py_rd_process_tree_comments_v_tree set_py_rd_process_tree_comments_v_rooting_token_found set_py_rd_process_tree_comments_v_comment
    set_py_rd_process_tree_comments_v_stripped_comment set_py_rd_process_tree_comments_v_tree_comments
    set_py_rd_process_tree_comments_v_weighting_token_found];
  cbn [bind mval negb].

Definition is_some {A} (x : option A) : bool := match x with Some _ => true | None => false end.

Lemma ptc_loop fuel st : forall cs c0 found s0 tree tcs wfound acc,
  found = is_some acc -> (forall r, acc = Some r -> rt_rooted tree = r) ->
  exists c1 s1,
  for_loop cs (fun x (s : pstate * lc_py_rd_process_tree_comments L) => (fst s, set_py_rd_process_tree_comments_v_comment (snd s) x))
    (py_rd_process_tree_comments_for0_body L parse_len lower ro fuel)
    (st, mk_lc_py_rd_process_tree_comments c0 found s0 tree tcs wfound)
  = @FNext _ (rtree L)
      (st, mk_lc_py_rd_process_tree_comments c1
             (is_some (fst (process_tree_comments_loop ro cs acc (rt_comments tree))))
             s1
             (mkRtree (match fst (process_tree_comments_loop ro cs acc (rt_comments tree)) with Some r => r | None => rt_rooted tree end)
                      (snd (process_tree_comments_loop ro cs acc (rt_comments tree)))
                      (rt_seed tree))
             tcs wfound).
Proof.
  induction cs as [|c cs IH]; intros c0 found s0 tree tcs wfound acc Hf Hr.
  - exists c0, s0. cbn [for_loop process_tree_comments_loop fst snd]. subst found.
    destruct acc as [r|]; [pose proof (Hr r eq_refl) as Hx|]; destruct tree; cbn in *; subst; reflexivity.
  - cbn [for_loop process_tree_comments_loop]. unfold py_rd_process_tree_comments_for0_body at 1. unf_body. ev_ptc.
    change [[38; 117]; [38; 85]; [38; 114]; [38; 82]] with reader_rooting_comments.
    destruct (mem_str (py_strip c) reader_rooting_comments); ev_ptc.
    + rewrite py_rd_parse_tree_rooting_state_eq. ev_ptc.
      destruct (IH c true (py_strip c) (set_rt_rooted tree (parse_tree_rooting_state ro (py_strip c))) tcs wfound
                   (Some (parse_tree_rooting_state ro (py_strip c))) eq_refl) as (c1 & s1 & E).
      { intros r Hx. inversion Hx. reflexivity. }
      exists c1, s1. refine (eq_trans E _). cbn [rt_comments rt_seed rt_rooted set_rt_rooted].
      assert (Hs : forall l a k, is_some (fst (process_tree_comments_loop ro l (Some a) k)) = true).
      { induction l as [|x l IHl]; intros a k; [reflexivity|]. cbn [process_tree_comments_loop].
        destruct (mem_str (py_strip x) reader_rooting_comments); apply IHl. }
      specialize (Hs cs (parse_tree_rooting_state ro (py_strip c)) (rt_comments tree)).
      destruct (process_tree_comments_loop ro cs (Some (parse_tree_rooting_state ro (py_strip c))) (rt_comments tree)) as [[r|] k];
        cbn [fst is_some] in Hs; [reflexivity | discriminate].
    + destruct (IH c found (py_strip c) (set_rt_comments tree (rt_comments tree ++ [c])) tcs wfound acc Hf) as (c1 & s1 & E).
      { intros r Hx. cbn [rt_rooted set_rt_comments]. exact (Hr r Hx). }
      exists c1, s1. refine (eq_trans E _). reflexivity.
Qed.

Theorem py_rd_process_tree_comments_eq fuel st tree cs :
  py_rd_process_tree_comments L parse_len lower ro fuel st tree (to_olist cs)
  = MRet (mkRtree (fst (process_tree_comments ro cs))
                  (snd (process_tree_comments_loop ro cs None (rt_comments tree))) (rt_seed tree)) st.
Proof.
  unfold py_rd_process_tree_comments, py_rd_process_tree_comments_body, process_tree_comments, run_f.
  destruct cs as [|c cs].
  - unf_body. ev_ptc. cbn [to_olist]. ev_ptc. rewrite py_rd_parse_tree_rooting_state_eq. ev_ptc.
    destruct tree. reflexivity.
  - cbn [to_olist]. unf_body. unfold s_fore. ev_ptc. cbn [need_list]. ev_ptc.
    destruct (ptc_loop fuel st (c :: cs) [] false [] tree (Some (c :: cs)) false None eq_refl) as (c1 & s1 & E); [discriminate|].
    match goal with |- context [for_loop ?xa ?xb ?xc ?xd] => replace (for_loop xa xb xc xd) with
        (for_loop (c :: cs) (fun x (s : pstate * lc_py_rd_process_tree_comments L) => (fst s, set_py_rd_process_tree_comments_v_comment (snd s) x))
           (py_rd_process_tree_comments_for0_body L parse_len lower ro fuel)
           (st, mk_lc_py_rd_process_tree_comments [] false [] tree (Some (c :: cs)) false)) by reflexivity end.
    rewrite E. clear E.
    assert (Hk : forall l a k1 k2, fst (process_tree_comments_loop ro l a k1) = fst (process_tree_comments_loop ro l a k2)).
    { induction l as [|x l IHl]; intros a k1 k2; [reflexivity|]. cbn [process_tree_comments_loop].
      destruct (mem_str (py_strip x) reader_rooting_comments); apply IHl. }
    specialize (Hk (c :: cs) None [] (rt_comments tree)).
    destruct (process_tree_comments_loop ro (c :: cs) None (rt_comments tree)) as [a1 k1] eqn:El1.
    destruct (process_tree_comments_loop ro (c :: cs) None []) as [a2 k2] eqn:El2.
    cbn [fst] in Hk. subst a2. cbv beta iota.
    destruct a1 as [r|]; unf_body; ev_ptc; cbn [is_some negb].
    + reflexivity.
    + rewrite py_rd_parse_tree_rooting_state_eq. ev_ptc. reflexivity.
Qed.

(* ---- _parse_tree_node_description ---- *)
Notation LC := (@mk_lc_py_rd_parse_tree_node_description L).
Notation PD := (py_rd_parse_tree_node_description L parse_len lower ro).

Ltac ev_nd := cbv beta iota delta [fst snd
    py_rd_parse_tree_node_description_v_cc py_rd_parse_tree_node_description_v_count py_rd_parse_tree_node_description_v_current_node
    py_rd_parse_tree_node_description_v_current_node_comments py_rd_parse_tree_node_description_v_edge_length
    py_rd_parse_tree_node_description_v_is_internal_node py_rd_parse_tree_node_description_v_is_new_internal_node
    py_rd_parse_tree_node_description_v_label py_rd_parse_tree_node_description_v_label_parsed py_rd_parse_tree_node_description_v_new_node
    py_rd_parse_tree_node_description_v_node_created py_rd_parse_tree_node_description_v_node_taxon py_rd_parse_tree_node_description_v_tmp_comments
    set_py_rd_parse_tree_node_description_v_cc set_py_rd_parse_tree_node_description_v_count set_py_rd_parse_tree_node_description_v_current_node
    set_py_rd_parse_tree_node_description_v_current_node_comments set_py_rd_parse_tree_node_description_v_edge_length
    set_py_rd_parse_tree_node_description_v_is_internal_node set_py_rd_parse_tree_node_description_v_is_new_internal_node
    set_py_rd_parse_tree_node_description_v_label set_py_rd_parse_tree_node_description_v_label_parsed set_py_rd_parse_tree_node_description_v_new_node
    set_py_rd_parse_tree_node_description_v_node_created set_py_rd_parse_tree_node_description_v_node_taxon set_py_rd_parse_tree_node_description_v_tmp_comments];
  cbn [bind mval negb andb orb is_none].

Lemma while_S {S R} f (c : S -> res bool) (b : @stmt S R) (s : S) :
  while_loop (Datatypes.S f) c b s =
  match c s with
  | Ok true => match b s with FNext s' => while_loop f c b s' | FBreak s' => FNext s' | o => o end
  | Ok false => FNext s
  | Err e => FExc (ExErr e) s
  | OutOfFuel => FFuel
  end.
Proof. reflexivity. Qed.

Lemma cur_is_eq st c : cur_is st c = ostr_eqb (ps_cur st) (Some [c]).
Proof.
  unfold cur_is, ostr_eqb. destruct (ps_cur st) as [[|x [|y r]]|]; cbn; try reflexivity.
  - rewrite andb_true_r. reflexivity.
  - rewrite andb_false_r. reflexivity.
Qed.

Lemma finish_node_eq fuel st nd : py_rd_finish_node L parse_len lower ro fuel st nd = MRet tt st.
Proof. reflexivity. Qed.

Lemma blank_eq cs : pt_add_comments (@new_pnode L) (to_olist cs) = blank_node L cs.
Proof. destruct cs; reflexivity. Qed.

(* errors: the exception the generated code raises maps to the model's error class *)
Definition flow_err {S R} (r : flow S R) (e : err) : Prop := exists x s', r = FExc x s' /\ exc_err x = e.

Lemma pull_eq st : rd_pull_comments st = MRet (to_olist (fst (pull_comments st))) (snd (pull_comments st)).
Proof. reflexivity. Qed.

(* model result vs. flow of the generated code *)
Definition rel {A S R} (mr : res A) (fl : flow S R) (ok : A -> flow S R -> Prop) : Prop :=
  match mr with Ok a => ok a fl | Err e => flow_err fl e | OutOfFuel => True end.

(* the tokenizer steps *)
Lemma require_next_flow {Lc R} (st : pstate) (lc : Lc) (store : option str -> Lc -> Lc) :
  @s_call pstate Lc R (option str) rd_require_next store (st, lc) =
  match advance st with
  | AdvTok st' => FNext (st', store (ps_cur st') lc)
  | AdvStop st' => FExc ExEos (st', lc)
  | AdvErr (Err e) => FExc (ExErr e) (st, lc)
  | AdvErr _ => FFuel
  end.
Proof. unfold s_call, rd_require_next. cbn [fst snd]. destruct (advance st) as [x|x|[u|e|]]; reflexivity. Qed.

(* the `while current_token == ","` loop: one blank node per comma *)
Lemma loop1_body_eq G rec st cc cnt tx lb ln cm kids cnc el ii ini lbl lp nn nc nt tmp :
  py_rd_parse_tree_node_description_loop1_body L parse_len lower ro G rec
    (st, LC cc cnt (PN tx lb ln cm kids) cnc el ii ini lbl lp nn nc nt tmp)
  = match advance (snd (pull_comments st)) with
    | AdvTok st2 => FNext (st2, LC cc cnt (PN tx lb ln cm (kids ++ [blank_node L (fst (pull_comments st))])) cnc el ii ini lbl lp
                                   (blank_node L (fst (pull_comments st))) nc nt (to_olist (fst (pull_comments st))))
    | AdvStop st2 => FExc ExEos (st2, LC cc cnt (PN tx lb ln cm (kids ++ [blank_node L (fst (pull_comments st))])) cnc el ii ini lbl lp
                                   (blank_node L (fst (pull_comments st))) nc nt (to_olist (fst (pull_comments st))))
    | AdvErr (Err e) => FExc (ExErr e) (snd (pull_comments st), LC cc cnt (PN tx lb ln cm (kids ++ [blank_node L (fst (pull_comments st))])) cnc el ii ini lbl lp
                                   (blank_node L (fst (pull_comments st))) nc nt (to_olist (fst (pull_comments st))))
    | AdvErr _ => FFuel
    end.
Proof.
  unfold py_rd_parse_tree_node_description_loop1_body. unfold s_seq at 1, s_do at 1. ev_nd.
  unfold s_seq at 1. unfold s_seq at 1. unfold s_call at 1. ev_nd. rewrite pull_eq. ev_nd.
  unfold s_do at 1. ev_nd. unfold s_seq at 1, s_call at 1. ev_nd. rewrite finish_node_eq. ev_nd.
  unfold s_seq at 1, s_do at 1. ev_nd. rewrite require_next_flow. rewrite blank_eq.
  unfold pt_add_child. cbn [pt_taxon pt_label pt_len pt_comments pt_kids]. reflexivity.
Qed.

Lemma comma_gen G rec : forall m w, (m <= w)%nat ->
  forall st cc cnt tx lb ln cm kids cnc el ii ini lbl lp nn nc nt tmp,
  rel (comma_loop L m st kids)
      (while_loop w (fun s => Ok (py_rd_parse_tree_node_description_loop1_test L parse_len lower ro G rec s))
                 (py_rd_parse_tree_node_description_loop1_body L parse_len lower ro G rec)
                 (st, LC cc cnt (PN tx lb ln cm kids) cnc el ii ini lbl lp nn nc nt tmp))
      (fun r fl => exists nn' tmp', fl = FNext (snd r, LC cc cnt (PN tx lb ln cm (fst r)) cnc el ii ini lbl lp nn' nc nt tmp')).
Proof.
  induction m as [|m IH]; intros w Hw st cc cnt tx lb ln cm kids cnc el ii ini lbl lp nn nc nt tmp; [exact I|].
  destruct w as [|w]; [lia|]. cbn [comma_loop]. rewrite while_S. cbv beta.
  assert (Ht : py_rd_parse_tree_node_description_loop1_test L parse_len lower ro G rec
                 (st, LC cc cnt (PN tx lb ln cm kids) cnc el ii ini lbl lp nn nc nt tmp) = cur_is st COMMA).
  { unfold py_rd_parse_tree_node_description_loop1_test. ev_nd. rewrite cur_is_eq. reflexivity. }
  rewrite Ht. destruct (cur_is st COMMA) eqn:Ecur.
  - rewrite loop1_body_eq. destruct (pull_comments st) as [cs st1] eqn:Ep. cbn [fst snd].
    unfold require_next. destruct (advance st1) as [st2|st2|e] eqn:Adv; cbn [bind].
    + apply IH. lia.
    + eexists _, _. split; reflexivity.
    + destruct e as [u|e|]; cbn [lift_err rel]; try exact I. eexists _, _. split; reflexivity.
  - cbn [rel fst snd]. eexists _, _. reflexivity.
Qed.

(* ---- the `while True` loop over label / edge length / terminator, with the statements after it ---- *)
Lemma advance_tok_cur st st' : advance st = AdvTok st' -> ps_cur st' <> None.
Proof.
  unfold advance. destruct (ps_toks st) as [|t r]; [destruct (ps_end st); discriminate|].
  intro H. inversion H. cbn. discriminate.
Qed.

Lemma pull_cur st : ps_cur (snd (pull_comments st)) = ps_cur st.
Proof. reflexivity. Qed.

Section Loop2.
Variable G : nat.
Variable rec : pstate -> ptree L -> option bool -> mres pstate (ptree L).

Notation T2 := (fun s => Ok (py_rd_parse_tree_node_description_loop2_test L parse_len lower ro G rec s)).
Notation B2 := (py_rd_parse_tree_node_description_loop2_body L parse_len lower ro G rec).

(* the dispatch on the current token, after the comments have been pulled *)
Definition rest2 : @stmt (pstate * lc_py_rd_parse_tree_node_description L) (ptree L) :=
  ltac:(let b := eval unfold py_rd_parse_tree_node_description_loop2_body in
                   (py_rd_parse_tree_node_description_loop2_body L parse_len lower ro G rec) in
        match b with s_seq _ (s_seq _ ?r) => exact r end).

Lemma loop2_prefix st cc cnt cn ccs el ii ini lbl lp nn nc nt tmp :
  B2 (st, LC cc cnt cn (Some ccs) el ii ini lbl lp nn nc nt tmp)
  = rest2 (snd (pull_comments st),
           LC (to_olist (fst (pull_comments st))) cnt cn (Some (ccs ++ fst (pull_comments st))) el ii ini lbl lp nn nc nt tmp).
Proof.
  change B2 with (s_seq (s_call rd_pull_comments (fun v lc => set_py_rd_parse_tree_node_description_v_cc lc v))
                    (s_seq (s_if (fun s : pstate * lc_py_rd_parse_tree_node_description L => negb (is_none (py_rd_parse_tree_node_description_v_cc (snd s))))
                              (s_doe (fun s => do v <- (do x1 <- (do x1 <- need_list (py_rd_parse_tree_node_description_v_current_node_comments (snd s)) ;;
                                                                     do x2 <- need_list (py_rd_parse_tree_node_description_v_cc (snd s)) ;; Ok (x1 ++ x2)) ;; Ok (Some x1)) ;;
                                               Ok (fst s, set_py_rd_parse_tree_node_description_v_current_node_comments (snd s) v)))
                              s_skip) rest2)).
  unfold s_seq at 1, s_call at 1. ev_nd. rewrite pull_eq. destruct (pull_comments st) as [cs0 st1]. ev_nd.
  unfold s_seq at 1, s_if at 1. ev_nd.
  destruct cs0 as [|c cs]; cbn [to_olist is_none negb].
  - unfold s_skip. rewrite app_nil_r. reflexivity.
  - unfold s_doe. ev_nd. cbn [need_list bind]. reflexivity.
Qed.

Lemma try_next {Lc R} (st : pstate) (lc : Lc) (H : @stmt (pstate * Lc) R) :
  s_try (s_call rd_require_next (fun _ l => l)) catch_eos H (st, lc) =
  match advance st with
  | AdvTok st' => FNext (st', lc)
  | AdvStop st' => H (st', lc)
  | AdvErr (Err e) => FExc (ExErr e) (st, lc)
  | AdvErr _ => FFuel
  end.
Proof. unfold s_try. rewrite require_next_flow. destruct (advance st) as [x|x|[u|e|]]; reflexivity. Qed.

Lemma next_token_flow {Lc R} (st : pstate) (lc : Lc) :
  @s_call pstate Lc R (option str) rd_next_token (fun _ l => l) (st, lc) =
  match advance st with
  | AdvTok st' => FNext (st', lc)
  | AdvStop st' => FNext (set_cur st' None, lc)
  | AdvErr (Err e) => FExc (ExErr e) (st, lc)
  | AdvErr _ => FFuel
  end.
Proof. unfold s_call, rd_next_token. cbn [fst snd]. destruct (advance st) as [x|x|[u|e|]]; reflexivity. Qed.

Lemma finish_call {R} (s : pstate * lc_py_rd_parse_tree_node_description L) nd :
  @s_call _ _ R _ (fun o => py_rd_finish_node L parse_len lower ro G o nd) (fun _ lc => lc) s = FNext s.
Proof. destruct s. reflexivity. Qed.

(* the statements after the loop *)
Definition tail2 (s : pstate * lc_py_rd_parse_tree_node_description L) : flow (pstate * lc_py_rd_parse_tree_node_description L) (ptree L) :=
  if negb (ps_nesting (fst s) =? 0) then FExc (ExErr ParseErr) s
  else FRet (pt_add_comments (py_rd_parse_tree_node_description_v_current_node (snd s)) (py_rd_parse_tree_node_description_v_current_node_comments (snd s)))
            (fst s, set_py_rd_parse_tree_node_description_v_current_node (snd s)
                      (pt_add_comments (py_rd_parse_tree_node_description_v_current_node (snd s)) (py_rd_parse_tree_node_description_v_current_node_comments (snd s)))).
Definition after2 (w : nat) (s : pstate * lc_py_rd_parse_tree_node_description L) :=
  match while_loop w T2 B2 s with FNext s' => tail2 s' | o => o end.

Ltac ev_rest := unfold rest2; unfold s_seq, s_if, s_do, s_doe, s_break, s_skip, s_raise, s_ret; ev_nd;
  rewrite <- ?cur_is_eq; change 58 with COLON; change 41 with RPAREN; change 59 with SEMI; change 44 with COMMA; change 40 with LPAREN.

Lemma cur_is_pull st c : cur_is (snd (pull_comments st)) c = cur_is st c.
Proof. reflexivity. Qed.

Lemma label_gen : forall m w, (m <= w)%nat ->
  forall st cc cnt tx lb ln cm kids ccs el ii ini lbl lp nn nc nt tmp,
  ps_cur st <> None ->
  rel (label_loop L parse_len lower ro m st (obool_truthy ii) lp (mkPnode L tx lb ln (cm ++ ccs)))
      (after2 w (st, LC cc cnt (PN tx lb ln cm kids) (Some ccs) el ii ini lbl lp nn nc nt tmp))
      (fun r fl => exists lc', fl = FRet (finish L (fst r) kids) (snd r, lc')).
Proof.
  induction m as [|m IH]; intros w Hw st cc cnt tx lb ln cm kids ccs el ii ini lbl lp nn nc nt tmp Hcur; [exact I|].
  destruct w as [|w]; [lia|]. cbn [label_loop]. unfold after2. rewrite while_S. cbv beta.
  change (py_rd_parse_tree_node_description_loop2_test L parse_len lower ro G rec
            (st, LC cc cnt (PN tx lb ln cm kids) (Some ccs) el ii ini lbl lp nn nc nt tmp)) with true. cbv iota.
  rewrite loop2_prefix.
  destruct (pull_comments st) as [cs st1] eqn:Ep. cbn [fst snd Newick.pn_taxon Newick.pn_label Newick.pn_len Newick.pn_comments].
  assert (Hc1 : forall c, cur_is st1 c = cur_is st c) by (intro c; rewrite <- (cur_is_pull st c), Ep; reflexivity).
  assert (Hcur1 : ps_cur st1 <> None) by (rewrite <- (pull_cur st) in Hcur; rewrite Ep in Hcur; exact Hcur).
  rewrite <- app_assoc.
  set (lc1 := LC (to_olist cs) cnt (PN tx lb ln cm kids) (Some (ccs ++ cs)) el ii ini lbl lp nn nc nt tmp).
  destruct (cur_is st1 COLON) eqn:E1.
  { (* ":" edge length *)
    unfold require_next. destruct (advance st1) as [sa|sa|e] eqn:Adv1; cbn [bind].
    2:{ assert (Hr : rest2 (st1, lc1) = FExc ExEos (sa, lc1)).
        { subst lc1. ev_rest. rewrite E1. ev_nd. rewrite require_next_flow, Adv1. reflexivity. }
        rewrite Hr. eexists _, _. split; reflexivity. }
    2:{ destruct e as [u|e|]; cbn [lift_err rel]; try exact I.
        assert (Hr : rest2 (st1, lc1) = FExc (ExErr e) (st1, lc1)).
        { subst lc1. ev_rest. rewrite E1. ev_nd. rewrite require_next_flow, Adv1. reflexivity. }
        rewrite Hr. eexists _, _. split; reflexivity. }
    pose proof (advance_tok_cur _ _ Adv1) as Hca. destruct (ps_cur sa) as [tok|] eqn:Ecur_a; [|contradiction].
    assert (Htxt : cur_text sa = tok) by (unfold cur_text; rewrite Ecur_a; reflexivity). rewrite Htxt.
    (* the edge length, then the token after it *)
    assert (Hlen : forall ln', (if ro_suppress_edge_lengths ro then @Ok (pnode L) (mkPnode L tx lb ln (cm ++ ccs ++ cs))
                    else match parse_len tok with Some x => Ok (mkPnode L tx lb (Some x) (cm ++ ccs ++ cs)) | None => Err ParseErr end)
                   = Ok (mkPnode L tx lb ln' (cm ++ ccs ++ cs)) ->
            exists el',
            rest2 (st1, lc1) =
            match advance sa with
            | AdvTok sb => FNext (sb, LC (to_olist cs) cnt (PN tx lb ln' cm kids) (Some (ccs ++ cs)) el' ii ini lbl lp nn nc nt tmp)
            | AdvStop sb => if ro_terminating_semicolon_required ro
                            then FExc ExEos (sb, LC (to_olist cs) cnt (PN tx lb ln' cm kids) (Some (ccs ++ cs)) el' ii ini lbl lp nn nc nt tmp)
                            else FBreak (set_complete sb true, LC (to_olist cs) cnt (PN tx lb ln' cm kids) (Some (ccs ++ cs)) el' ii ini lbl lp nn nc nt tmp)
            | AdvErr (Err e) => FExc (ExErr e) (sa, LC (to_olist cs) cnt (PN tx lb ln' cm kids) (Some (ccs ++ cs)) el' ii ini lbl lp nn nc nt tmp)
            | AdvErr _ => FFuel
            end).
    { intros ln' Hl. destruct (ro_suppress_edge_lengths ro) eqn:Es.
      - inversion Hl; subst ln'. exists el. subst lc1. ev_rest. rewrite E1. ev_nd. rewrite require_next_flow, Adv1. ev_nd. rewrite Es. ev_nd.
        unfold s_skip. rewrite try_next. destruct (advance sa) as [sb|sb|[u|e|]]; try reflexivity; try (destruct (ro_terminating_semicolon_required ro); reflexivity).
      - destruct (parse_len tok) as [x|] eqn:Epl; [|discriminate]. inversion Hl; subst ln'. exists (Some x).
        subst lc1. ev_rest. rewrite E1. ev_nd. rewrite require_next_flow, Adv1. ev_nd. rewrite Es. ev_nd.
        unfold s_try at 1. ev_nd. rewrite Ecur_a. cbn [need_str bind]. unfold edge_length_of. rewrite Epl. ev_nd.
        unfold pt_set_len. cbn [pt_taxon pt_label pt_comments pt_kids]. rewrite try_next.
        destruct (advance sa) as [sb|sb|[u|e|]]; try reflexivity; try (destruct (ro_terminating_semicolon_required ro); reflexivity). }
    destruct (if ro_suppress_edge_lengths ro then @Ok (pnode L) (mkPnode L tx lb ln (cm ++ ccs ++ cs))
              else match parse_len tok with Some x => Ok (mkPnode L tx lb (Some x) (cm ++ ccs ++ cs)) | None => Err ParseErr end)
      as [nd1|e1|] eqn:End1; cbn [bind].
    - assert (Hnd1 : exists ln', nd1 = mkPnode L tx lb ln' (cm ++ ccs ++ cs)).
      { destruct (ro_suppress_edge_lengths ro); [inversion End1; eexists; reflexivity|].
        destruct (parse_len tok); inversion End1. eexists; reflexivity. }
      destruct Hnd1 as (ln' & ->). destruct (Hlen ln' eq_refl) as (el' & Hr). rewrite Hr. clear Hr Hlen.
      destruct (advance sa) as [sb|sb|e] eqn:Adv2.
      + apply (IH w ltac:(lia) sb (to_olist cs) cnt tx lb ln' cm kids (ccs ++ cs) el' ii ini lbl lp nn nc nt tmp).
        exact (advance_tok_cur _ _ Adv2).
      + destruct (ro_terminating_semicolon_required ro).
        * eexists _, _. split; reflexivity.
        * unfold tail2. cbn [fst snd]. change (ps_nesting (set_complete sb true)) with (ps_nesting sb).
          destruct (ps_nesting sb =? 0); cbn [negb rel].
          -- ev_nd. eexists. unfold finish, pt_add_comments. cbn [Newick.pn_taxon Newick.pn_label Newick.pn_len Newick.pn_comments fst snd pt_taxon pt_label pt_len pt_comments pt_kids]. reflexivity.
          -- eexists _, _. split; reflexivity.
      + destruct e as [u|e|]; cbn [lift_err rel]; try exact I. eexists _, _. split; reflexivity.
    - (* the length does not parse *)
      destruct (ro_suppress_edge_lengths ro) eqn:Es; [discriminate|]. destruct (parse_len tok) as [x|] eqn:Epl; [discriminate|].
      inversion End1; subst e1.
      assert (Hr : exists s', rest2 (st1, lc1) = FExc (ExErr ParseErr) s').
      { subst lc1. ev_rest. rewrite E1. ev_nd. rewrite require_next_flow, Adv1. ev_nd. rewrite Es. ev_nd.
        unfold s_try at 1. ev_nd. rewrite Ecur_a. cbn [need_str bind]. unfold edge_length_of. rewrite Epl. ev_nd.
        cbn [catch_err err_eqb]. eexists. reflexivity. }
      destruct Hr as (s' & Hr). rewrite Hr. eexists _, _. split; reflexivity.
    - destruct (ro_suppress_edge_lengths ro); [discriminate|]. destruct (parse_len tok); discriminate. }
  destruct (cur_is st1 RPAREN) eqn:E2.
  { assert (Hr : rest2 (st1, lc1)
                 = FRet (PN tx lb ln (cm ++ ccs ++ cs) kids)
                        (st1, LC (to_olist cs) cnt (PN tx lb ln (cm ++ ccs ++ cs) kids) (Some (ccs ++ cs)) el ii ini lbl lp nn nc nt tmp)).
    { subst lc1. ev_rest. rewrite E1, E2. ev_nd. rewrite finish_call. reflexivity. }
    rewrite Hr. cbn [rel fst snd]. eexists. reflexivity. }
  destruct (cur_is st1 SEMI) eqn:E3.
  { unfold next_token_or_none.
    assert (Hr : rest2 (st1, lc1) =
                 match advance (set_complete st1 true) with
                 | AdvTok sb => FBreak (sb, lc1)
                 | AdvStop sb => FBreak (set_cur sb None, lc1)
                 | AdvErr (Err e) => FExc (ExErr e) (set_complete st1 true, lc1)
                 | AdvErr _ => FFuel
                 end).
    { subst lc1. ev_rest. rewrite E1, E2, E3. ev_nd. rewrite next_token_flow.
      destruct (advance (set_complete st1 true)) as [sb|sb|[u|e|]]; reflexivity. }
    rewrite Hr. clear Hr.
    destruct (advance (set_complete st1 true)) as [sb|sb|e]; cbn [bind].
    - unfold tail2. subst lc1. cbn [fst snd]. destruct (ps_nesting sb =? 0); cbn [negb rel].
      + ev_nd. eexists. unfold finish, pt_add_comments. cbn [Newick.pn_taxon Newick.pn_label Newick.pn_len Newick.pn_comments fst snd pt_taxon pt_label pt_len pt_comments pt_kids]. reflexivity.
      + eexists _, _. split; reflexivity.
    - unfold tail2. subst lc1. cbn [fst snd]. change (ps_nesting (set_cur sb None)) with (ps_nesting sb).
      destruct (ps_nesting sb =? 0); cbn [negb rel].
      + ev_nd. eexists. unfold finish, pt_add_comments. cbn [Newick.pn_taxon Newick.pn_label Newick.pn_len Newick.pn_comments fst snd pt_taxon pt_label pt_len pt_comments pt_kids]. reflexivity.
      + eexists _, _. split; reflexivity.
    - destruct e as [u|e|]; cbn [lift_err rel]; try exact I. eexists _, _. split; reflexivity. }
  destruct (cur_is st1 COMMA) eqn:E4.
  { assert (Hr : rest2 (st1, lc1)
                 = FRet (PN tx lb ln (cm ++ ccs ++ cs) kids)
                        (st1, LC (to_olist cs) cnt (PN tx lb ln (cm ++ ccs ++ cs) kids) (Some (ccs ++ cs)) el ii ini lbl lp nn nc nt tmp)).
    { subst lc1. ev_rest. rewrite E1, E2, E3, E4. ev_nd. rewrite finish_call. reflexivity. }
    rewrite Hr. cbn [rel fst snd]. eexists. reflexivity. }
  destruct (cur_is st1 LPAREN) eqn:E5.
  { assert (Hr : exists s', rest2 (st1, lc1) = FExc (ExErr ParseErr) s').
    { subst lc1. ev_rest. rewrite E1, E2, E3, E4, E5. ev_nd. eexists. reflexivity. }
    destruct Hr as (s' & Hr). rewrite Hr. eexists _, _. split; reflexivity. }
  destruct lp.
  { assert (Hr : exists s', rest2 (st1, lc1) = FExc (ExErr ParseErr) s').
    { subst lc1. ev_rest. rewrite E1, E2, E3, E4, E5. ev_nd. eexists. reflexivity. }
    destruct Hr as (s' & Hr). rewrite Hr. eexists _, _. split; reflexivity. }
  (* a label *)
  destruct (ps_cur st1) as [tok|] eqn:Ecur1; [|contradiction].
  assert (Htxt : cur_text st1 = tok) by (unfold cur_text; rewrite Ecur1; reflexivity). rewrite Htxt.
  set (cond := (obool_truthy ii && ro_suppress_internal_node_taxa ro) || (negb (obool_truthy ii) && ro_suppress_leaf_node_taxa ro)).
  assert (Hlab : forall tx' lb' st1',
      (if cond then Ok (mkPnode L tx (Some tok) ln (cm ++ ccs ++ cs), st1)
       else let '(i, m0) := require_taxon_for_symbol lower (ps_map st1) tok in
            if existsb (Nat.eqb i) (ps_seen st1) then Err ParseErr
            else Ok (mkPnode L (Some i) lb ln (cm ++ ccs ++ cs), set_seen_map st1 (i :: ps_seen st1) m0))
      = Ok (mkPnode L tx' lb' ln (cm ++ ccs ++ cs), st1') ->
      exists nt',
      rest2 (st1, lc1) =
      match advance st1' with
      | AdvTok sb => FNext (sb, LC (to_olist cs) cnt (PN tx' lb' ln cm kids) (Some (ccs ++ cs)) el ii ini (Some tok) true nn nc nt' tmp)
      | AdvStop sb => if ro_terminating_semicolon_required ro
                      then FExc ExEos (sb, LC (to_olist cs) cnt (PN tx' lb' ln cm kids) (Some (ccs ++ cs)) el ii ini (Some tok) true nn nc nt' tmp)
                      else FBreak (sb, LC (to_olist cs) cnt (PN tx' lb' ln cm kids) (Some (ccs ++ cs)) el ii ini (Some tok) true nn nc nt' tmp)
      | AdvErr (Err e) => FExc (ExErr e) (st1', LC (to_olist cs) cnt (PN tx' lb' ln cm kids) (Some (ccs ++ cs)) el ii ini (Some tok) true nn nc nt' tmp)
      | AdvErr _ => FFuel
      end).
  { intros tx' lb' st1' Hl. destruct cond eqn:Ec.
    - inversion Hl; subst tx' lb' st1'. exists nt. subst lc1. ev_rest. rewrite E1, E2, E3, E4, E5. ev_nd. rewrite Ecur1.
      fold cond. rewrite Ec. ev_nd. unfold pt_set_label. cbn [pt_taxon pt_len pt_comments pt_kids]. rewrite try_next.
      destruct (advance st1) as [sb|sb|[u|e|]]; try reflexivity; try (destruct (ro_terminating_semicolon_required ro); reflexivity).
    - destruct (require_taxon_for_symbol lower (ps_map st1) tok) as [i m0] eqn:Ereq.
      destruct (existsb (Nat.eqb i) (ps_seen st1)) eqn:Eseen; [discriminate|]. inversion Hl; subst tx' lb' st1'. exists i.
      subst lc1. ev_rest. rewrite E1, E2, E3, E4, E5. ev_nd. rewrite Ecur1. fold cond. rewrite Ec. ev_nd. cbn [need_str].
      unfold s_call at 1, rd_map_symbol. ev_nd. rewrite Ereq. ev_nd. cbn [ps_seen set_seen_map]. rewrite Eseen. ev_nd.
      unfold pt_set_taxon, set_ps_seen. cbn [pt_label pt_len pt_comments pt_kids ps_seen ps_map set_seen_map
        ps_cur ps_eof ps_comments ps_toks ps_end ps_nesting ps_complete]. rewrite try_next.
      match goal with |- context [advance ?x] => change x with (set_seen_map st1 (i :: ps_seen st1) m0) end.
      destruct (advance (set_seen_map st1 (i :: ps_seen st1) m0)) as [sb|sb|[u|e|]]; try reflexivity; try (destruct (ro_terminating_semicolon_required ro); reflexivity). }
  fold cond.
  destruct (if cond then Ok (mkPnode L tx (Some tok) ln (cm ++ ccs ++ cs), st1)
            else let '(i, m0) := require_taxon_for_symbol lower (ps_map st1) tok in
                 if existsb (Nat.eqb i) (ps_seen st1) then Err ParseErr
                 else Ok (mkPnode L (Some i) lb ln (cm ++ ccs ++ cs), set_seen_map st1 (i :: ps_seen st1) m0))
    as [[nd1 st1']|e1|] eqn:End1; cbn [bind].
  - assert (Hnd1 : exists tx' lb', nd1 = mkPnode L tx' lb' ln (cm ++ ccs ++ cs)).
    { destruct cond; [inversion End1; eexists _, _; reflexivity|].
      destruct (require_taxon_for_symbol lower (ps_map st1) tok) as [i m0].
      destruct (existsb (Nat.eqb i) (ps_seen st1)); inversion End1. eexists _, _; reflexivity. }
    destruct Hnd1 as (tx' & lb' & ->). destruct (Hlab tx' lb' st1' eq_refl) as (nt' & Hr). rewrite Hr. clear Hr Hlab.
    destruct (advance st1') as [sb|sb|e] eqn:Adv2.
    + apply (IH w ltac:(lia) sb (to_olist cs) cnt tx' lb' ln cm kids (ccs ++ cs) el ii ini (Some tok) true nn nc nt' tmp).
      exact (advance_tok_cur _ _ Adv2).
    + destruct (ro_terminating_semicolon_required ro).
      * eexists _, _. split; reflexivity.
      * unfold tail2. cbn [fst snd]. destruct (ps_nesting sb =? 0); cbn [negb rel].
        -- ev_nd. eexists. unfold finish, pt_add_comments. cbn [Newick.pn_taxon Newick.pn_label Newick.pn_len Newick.pn_comments fst snd pt_taxon pt_label pt_len pt_comments pt_kids]. reflexivity.
        -- eexists _, _. split; reflexivity.
    + destruct e as [u|e|]; cbn [lift_err rel]; try exact I. eexists _, _. split; reflexivity.
  - (* duplicate taxon *)
    destruct cond eqn:Ec; [discriminate|].
    destruct (require_taxon_for_symbol lower (ps_map st1) tok) as [i m0] eqn:Ereq.
    destruct (existsb (Nat.eqb i) (ps_seen st1)) eqn:Eseen; [|discriminate]. inversion End1; subst e1.
    assert (Hr : exists s', rest2 (st1, lc1) = FExc (ExErr ParseErr) s').
    { subst lc1. ev_rest. rewrite E1, E2, E3, E4, E5. ev_nd. rewrite Ecur1. fold cond. rewrite Ec. ev_nd. cbn [need_str].
      unfold s_call at 1, rd_map_symbol. ev_nd. rewrite Ereq. ev_nd. cbn [ps_seen set_seen_map]. rewrite Eseen. ev_nd. eexists. reflexivity. }
    destruct Hr as (s' & Hr). rewrite Hr. eexists _, _. split; reflexivity.
  - destruct cond; [discriminate|]. destruct (require_taxon_for_symbol lower (ps_map st1) tok) as [i m0].
    destruct (existsb (Nat.eqb i) (ps_seen st1)); discriminate.
Qed.

(* ---- the `for count in it.count()` loop over the children ---- *)
Definition mrel {A B} (mr : res A) (r : mres pstate B) (ok : A -> mres pstate B -> Prop) : Prop :=
  match mr with Ok a => ok a r | Err e => exists x o, r = MExc x o /\ exc_err x = e | OutOfFuel => True end.

Definition node_spec (f : nat) (pd : pstate -> ptree L -> option bool -> mres pstate (ptree L)) : Prop :=
  forall st pre isint, ps_cur st <> None -> (cur_is st LPAREN = true -> 1 <= ps_nesting st) ->
    mrel (parse_node L parse_len lower ro f st isint pre) (pd st (PN None None None pre []) isint)
         (fun r res => res = MRet (fst r) (snd r)).

Variable F : nat.
Hypothesis Hrec : forall f, (f <= F)%nat -> node_spec f rec.
Hypothesis Hblank : ro_blank_after_comma ro = true.

Notation T0 := (fun s => Ok (py_rd_parse_tree_node_description_loop0_test L parse_len lower ro G rec s)).
Notation B0 := (py_rd_parse_tree_node_description_loop0_body L parse_len lower ro G rec).
Notation T1 := (fun s => Ok (py_rd_parse_tree_node_description_loop1_test L parse_len lower ro G rec s)).
Notation B1 := (py_rd_parse_tree_node_description_loop1_body L parse_len lower ro G rec).

(* the pieces of the loop body *)
Definition br_comma_pre : @stmt (pstate * lc_py_rd_parse_tree_node_description L) (ptree L) :=
  ltac:(let b := eval unfold py_rd_parse_tree_node_description_loop0_body in B0 in
        match b with s_seq (s_if _ (s_seq (s_if _ ?p _) _) _) _ => exact p end).
Definition br_comma_post : @stmt (pstate * lc_py_rd_parse_tree_node_description L) (ptree L) :=
  ltac:(let b := eval unfold py_rd_parse_tree_node_description_loop0_body in B0 in
        match b with s_seq (s_if _ (s_seq _ (s_seq _ (s_seq _ ?p))) _) _ => exact p end).
Definition br_rparen : @stmt (pstate * lc_py_rd_parse_tree_node_description L) (ptree L) :=
  ltac:(let b := eval unfold py_rd_parse_tree_node_description_loop0_body in B0 in
        match b with s_seq (s_if _ _ (s_if _ ?p _)) _ => exact p end).
Definition br_child : @stmt (pstate * lc_py_rd_parse_tree_node_description L) (ptree L) :=
  ltac:(let b := eval unfold py_rd_parse_tree_node_description_loop0_body in B0 in
        match b with s_seq (s_if _ _ (s_if _ _ ?p)) _ => exact p end).

Definition inc_count : @stmt (pstate * lc_py_rd_parse_tree_node_description L) (ptree L) :=
  s_do (fun s => (fst s, set_py_rd_parse_tree_node_description_v_count (snd s) (py_rd_parse_tree_node_description_v_count (snd s) + 1))).

Lemma B0_eq : B0 =
  s_seq (s_if (fun s => ostr_eqb (ps_cur (fst s)) (Some [44]))
           (s_seq (s_if (fun s => negb (py_rd_parse_tree_node_description_v_node_created (snd s))) br_comma_pre s_skip)
              (s_seq (s_call rd_require_next (fun _ lc => lc))
                 (s_seq (s_while (fun _ => G) (py_rd_parse_tree_node_description_loop1_test L parse_len lower ro G rec) B1) br_comma_post)))
           (s_if (fun s => ostr_eqb (ps_cur (fst s)) (Some [41])) br_rparen br_child))
        inc_count.
Proof. reflexivity. Qed.

Ltac ev_b := unfold s_seq, s_if, s_do, s_doe, s_break, s_skip, s_raise, s_ret; ev_nd.

Lemma pre_eq st cc cnt tx lb ln cm kids cnc el ii ini lbl lp nn nc nt tmp :
  br_comma_pre (st, LC cc cnt (PN tx lb ln cm kids) cnc el ii ini lbl lp nn nc nt tmp)
  = FNext (snd (pull_comments st),
           LC cc cnt (PN tx lb ln cm (kids ++ [blank_node L (fst (pull_comments st))])) cnc el ii ini lbl lp
              (blank_node L (fst (pull_comments st))) nc nt (to_olist (fst (pull_comments st)))).
Proof.
  unfold br_comma_pre. unfold s_seq at 1, s_do at 1. ev_nd. unfold s_seq at 1. unfold s_seq at 1, s_call at 1. ev_nd.
  rewrite pull_eq. ev_nd. unfold s_do at 1. ev_nd. unfold s_seq at 1. rewrite finish_call. unfold s_do. ev_nd.
  rewrite blank_eq. reflexivity.
Qed.

Lemma post_eq st cc cnt tx lb ln cm kids cnc el ii ini lbl lp nn nc nt tmp :
  br_comma_post (st, LC cc cnt (PN tx lb ln cm kids) cnc el ii ini lbl lp nn nc nt tmp)
  = if cur_is st RPAREN
    then FNext (snd (pull_comments st),
                LC cc cnt (PN tx lb ln cm (kids ++ [blank_node L (fst (pull_comments st))])) cnc el ii ini lbl lp
                   (blank_node L (fst (pull_comments st))) true nt (to_olist (fst (pull_comments st))))
    else FNext (st, LC cc cnt (PN tx lb ln cm kids) cnc el ii ini lbl lp nn nc nt tmp).
Proof.
  unfold br_comma_post. unfold s_if at 1. ev_nd. rewrite <- cur_is_eq. change 41 with RPAREN.
  destruct (cur_is st RPAREN); [|reflexivity].
  unfold s_seq at 1, s_do at 1. ev_nd. unfold s_seq at 1. unfold s_seq at 1, s_call at 1. ev_nd.
  rewrite pull_eq. ev_nd. unfold s_do at 1. ev_nd. unfold s_seq at 1. rewrite finish_call. unfold s_seq, s_do. ev_nd.
  rewrite blank_eq. reflexivity.
Qed.

Lemma rparen_eq st cc cnt tx lb ln cm kids cnc el ii ini lbl lp nn nc nt tmp :
  exists nn' ini',
  br_rparen (st, LC cc cnt (PN tx lb ln cm kids) cnc el ii ini lbl lp nn nc nt tmp)
  = match advance (set_nesting st (ps_nesting st - 1)) with
    | AdvTok st1 => FBreak (st1, LC cc cnt (PN tx lb ln cm (if cnt =? 0 then kids ++ [blank_node L []] else kids)) cnc el ii ini' lbl lp nn' nc nt tmp)
    | AdvStop st1 => FExc ExEos (st1, LC cc cnt (PN tx lb ln cm (if cnt =? 0 then kids ++ [blank_node L []] else kids)) cnc el ii ini' lbl lp nn' nc nt tmp)
    | AdvErr (Err e) => FExc (ExErr e) (set_nesting st (ps_nesting st - 1), LC cc cnt (PN tx lb ln cm (if cnt =? 0 then kids ++ [blank_node L []] else kids)) cnc el ii ini' lbl lp nn' nc nt tmp)
    | AdvErr _ => FFuel
    end.
Proof.
  unfold br_rparen. unfold s_seq at 1, s_if at 1. ev_nd. destruct (cnt =? 0).
  - exists new_pnode, false. unfold s_seq at 1, s_do at 1. ev_nd. unfold s_seq at 1, s_do at 1. ev_nd.
    unfold s_seq at 1. rewrite finish_call. unfold s_do at 1. ev_nd. unfold s_seq at 1, s_do at 1. ev_nd.
    unfold s_seq. rewrite require_next_flow.
    destruct (advance (set_nesting st (ps_nesting st - 1))) as [x|x|[u|e|]]; reflexivity.
  - exists nn, ini. unfold s_skip. unfold s_seq at 1, s_do at 1. ev_nd. unfold s_seq. rewrite require_next_flow.
    destruct (advance (set_nesting st (ps_nesting st - 1))) as [x|x|[u|e|]]; reflexivity.
Qed.

(* the child branch up to the recursive call, and after it *)
Lemma child_eq st cc cnt tx lb ln cm kids cnc el ii ini lbl lp nn nc nt tmp :
  let isnew := cur_is st LPAREN in
  let st0 := if isnew then set_nesting st (ps_nesting st + 1) else st in
  br_child (st, LC cc cnt (PN tx lb ln cm kids) cnc el ii ini lbl lp nn nc nt tmp)
  = match rec (snd (pull_comments st0)) (PN None None None (fst (pull_comments st0)) []) (Some isnew) with
    | MRet child st2 => FNext (st2, LC cc cnt (PN tx lb ln cm (kids ++ [child])) cnc el ii isnew lbl lp child true nt (to_olist (fst (pull_comments st0))))
    | MExc x st2 => FExc x (st2, LC cc cnt (PN tx lb ln cm kids) cnc el ii isnew lbl lp (blank_node L (fst (pull_comments st0))) nc nt (to_olist (fst (pull_comments st0))))
    | MFuel => FFuel
    end.
Proof.
  intros isnew st0. unfold br_child. unfold s_seq at 1, s_if at 1. ev_nd. rewrite <- cur_is_eq. change 40 with LPAREN. fold isnew.
  subst st0. destruct isnew.
  - unfold s_seq at 1, s_do at 1. ev_nd. unfold s_do at 1. ev_nd. unfold s_seq at 1, s_do at 1. ev_nd.
    unfold s_seq at 1. unfold s_seq at 1, s_call at 1. ev_nd. rewrite pull_eq. ev_nd. unfold s_do at 1. ev_nd.
    rewrite blank_eq. unfold s_seq at 1, s_call at 1. ev_nd.
    destruct (pull_comments (set_nesting st (ps_nesting st + 1))) as [cs st1]. cbn [fst snd]. unfold blank_node.
    destruct (rec st1 (PN None None None cs []) (Some true)) as [child st2|x st2|]; first [reflexivity | unfold s_seq, s_do; ev_nd; reflexivity].
  - unfold s_do at 1. ev_nd. unfold s_seq at 1, s_do at 1. ev_nd.
    unfold s_seq at 1. unfold s_seq at 1, s_call at 1. ev_nd. rewrite pull_eq. ev_nd. unfold s_do at 1. ev_nd.
    rewrite blank_eq. unfold s_seq at 1, s_call at 1. ev_nd.
    destruct (pull_comments st) as [cs st1]. cbn [fst snd]. unfold blank_node.
    destruct (rec st1 (PN None None None cs []) (Some false)) as [child st2|x st2|]; first [reflexivity | unfold s_seq, s_do; ev_nd; reflexivity].
Qed.

Lemma pull_props st : ps_cur (snd (pull_comments st)) = ps_cur st /\ ps_nesting (snd (pull_comments st)) = ps_nesting st
  /\ (forall c, cur_is (snd (pull_comments st)) c = cur_is st c).
Proof. repeat split. Qed.

Lemma children_gen : forall m w, (m <= w)%nat -> (m <= G)%nat -> (m <= S F)%nat ->
  forall st cc cnt tx lb ln cm kids cnc el ii ini lbl lp nn nc nt tmp,
  0 <= cnt -> ps_cur st <> None -> 1 <= ps_nesting st ->
  rel (children_loop L parse_len lower ro m st nc (cnt =? 0) kids)
      (while_loop w T0 B0 (st, LC cc cnt (PN tx lb ln cm kids) cnc el ii ini lbl lp nn nc nt tmp))
      (fun r fl => exists cnt' ini' nn' nc' tmp',
          fl = FNext (snd r, LC cc cnt' (PN tx lb ln cm (fst r)) cnc el ii ini' lbl lp nn' nc' nt tmp')).
Proof.
  induction m as [|m IH]; intros w Hw HG HF st cc cnt tx lb ln cm kids cnc el ii ini lbl lp nn nc nt tmp Hcnt Hcur Hnest; [exact I|].
  destruct w as [|w]; [lia|]. rewrite children_loop_eq. rewrite while_S. cbv beta.
  change (py_rd_parse_tree_node_description_loop0_test L parse_len lower ro G rec
            (st, LC cc cnt (PN tx lb ln cm kids) cnc el ii ini lbl lp nn nc nt tmp)) with true. cbv iota.
  assert (Hc1 : (cnt + 1 =? 0) = false) by (apply Z.eqb_neq; lia).
  rewrite B0_eq. unfold s_seq at 1. unfold s_if at 1. ev_nd. rewrite <- cur_is_eq. change 44 with COMMA.
  destruct (cur_is st COMMA) eqn:E1.
  { (* "," *)
    unfold s_seq at 1. unfold s_if at 1. ev_nd.
    set (kst := if nc then (kids, st) else let '(cs, st') := pull_comments st in (kids ++ [blank_node L cs], st')).
    assert (Hpre : exists nn1 tmp1,
       (if negb nc then br_comma_pre (st, LC cc cnt (PN tx lb ln cm kids) cnc el ii ini lbl lp nn nc nt tmp)
        else s_skip (st, LC cc cnt (PN tx lb ln cm kids) cnc el ii ini lbl lp nn nc nt tmp))
       = FNext (snd kst, LC cc cnt (PN tx lb ln cm (fst kst)) cnc el ii ini lbl lp nn1 nc nt tmp1)
       /\ ps_cur (snd kst) <> None /\ ps_nesting (snd kst) = ps_nesting st).
    { subst kst. destruct nc; cbn [negb].
      - eexists _, _. split; [reflexivity|]. split; [exact Hcur | reflexivity].
      - rewrite pre_eq. destruct (pull_comments st) as [cs st'] eqn:Ep. cbn [fst snd]. eexists _, _. split; [reflexivity|].
        pose proof (pull_props st) as (P1 & P2 & _). rewrite Ep in P1, P2. cbn [snd] in P1, P2. split; [congruence | exact P2]. }
    destruct Hpre as (nn1 & tmp1 & Hpre & Hcur1 & Hn1). rewrite Hpre. clear Hpre.
    destruct kst as [kids1 st1]. cbn [fst snd] in *.
    unfold s_seq at 1. rewrite require_next_flow. unfold require_next.
    destruct (advance st1) as [st2|st2|e] eqn:Adv; cbn [bind].
    2:{ eexists _, _. split; reflexivity. }
    2:{ destruct e as [u|e|]; cbn [lift_err rel]; try exact I. eexists _, _. split; reflexivity. }
    destruct (C02GenReaderInv.advance_tok _ _ Adv) as (Hcur2 & Hn2 & _).
    unfold s_seq at 1. unfold s_while at 1, s_whilee at 1.
    pose proof (comma_gen G rec m G ltac:(lia) st2 cc cnt tx lb ln cm kids1 cnc el ii ini lbl lp nn1 nc nt tmp1) as CG.
    destruct (comma_loop L m st2 kids1) as [[kids2 st3]|e|] eqn:Ecl; cbn [bind rel] in CG |- *; [| |exact I].
    2:{ destruct CG as (x & s' & Ex & Ee). rewrite Ex. eexists _, _. split; [reflexivity | exact Ee]. }
    destruct CG as (nn2 & tmp2 & Ex). cbn [fst snd] in Ex. rewrite Ex. clear Ex.
    destruct (comma_loop_inv L _ _ _ _ _ Hcur2 Ecl) as (Hcur3 & Hn3).
    rewrite post_eq. rewrite Hblank. cbn [orb andb].
    destruct (cur_is st3 RPAREN).
    - unfold inc_count, s_do. ev_nd. destruct (pull_comments st3) as [cs st4] eqn:Ep. cbn [fst snd].
      pose proof (pull_props st3) as (P1 & P2 & _). rewrite Ep in P1, P2. cbn [snd] in P1, P2.
      rewrite <- Hc1.
      apply (IH w ltac:(lia) ltac:(lia) ltac:(lia) st4 cc (cnt + 1) tx lb ln cm (kids2 ++ [blank_node L cs]) cnc el ii ini lbl lp
                (blank_node L cs) true nt (to_olist cs)); [lia | congruence | lia].
    - unfold inc_count, s_do. ev_nd. rewrite <- Hc1.
      apply (IH w ltac:(lia) ltac:(lia) ltac:(lia) st3 cc (cnt + 1) tx lb ln cm kids2 cnc el ii ini lbl lp nn2 nc nt tmp2); [lia | exact Hcur3 | lia]. }
  unfold s_if at 1. ev_nd. rewrite <- cur_is_eq. change 41 with RPAREN.
  destruct (cur_is st RPAREN) eqn:E2.
  { (* ")" *)
    destruct (rparen_eq st cc cnt tx lb ln cm kids cnc el ii ini lbl lp nn nc nt tmp) as (nn' & ini' & Hr). rewrite Hr. clear Hr.
    unfold require_next. destruct (advance (set_nesting st (ps_nesting st - 1))) as [st1|st1|e]; cbn [bind].
    - cbn [rel fst snd]. eexists _, _, _, _, _. reflexivity.
    - eexists _, _. split; reflexivity.
    - destruct e as [u|e|]; cbn [lift_err rel]; try exact I. eexists _, _. split; reflexivity. }
  (* a child *)
  cbv zeta. rewrite child_eq. cbv zeta.
  set (st0 := if cur_is st LPAREN then set_nesting st (ps_nesting st + 1) else st).
  destruct (pull_comments st0) as [cs st1] eqn:Ep. cbn [fst snd].
  pose proof (pull_props st0) as (P1 & P2 & P3). rewrite Ep in P1, P2, P3. cbn [snd] in P1, P2, P3.
  assert (Hcur0 : ps_cur st0 = ps_cur st) by (subst st0; destruct (cur_is st LPAREN); reflexivity).
  assert (Hn0 : ps_nesting st0 = ps_nesting st + (if cur_is st LPAREN then 1 else 0)) by (subst st0; destruct (cur_is st LPAREN); cbn; lia).
  assert (HL : cur_is st1 LPAREN = cur_is st LPAREN).
  { rewrite P3. subst st0. destruct (cur_is st LPAREN) eqn:EL; [|exact EL]. unfold cur_is in *. cbn. exact EL. }
  pose proof (Hrec m ltac:(lia) st1 cs (Some (cur_is st LPAREN)) ltac:(congruence)) as HR.
  assert (Hpre1 : cur_is st1 LPAREN = true -> 1 <= ps_nesting st1).
  { intro X. rewrite P2, Hn0. rewrite HL in X. rewrite X. lia. }
  specialize (HR Hpre1).
  destruct (parse_node L parse_len lower ro m st1 (Some (cur_is st LPAREN)) cs) as [[child st2]|e|] eqn:En; cbn [bind mrel] in HR |- *.
  - cbn [fst snd] in HR. rewrite HR.
    destruct (node_children_inv L parse_len lower ro m) as (Hinv & _). destruct (Hinv _ _ _ _ En) as (N2 & C2). cbn [snd] in N2, C2.
    assert (Hn2 : ps_nesting st2 = ps_nesting st).
    { rewrite N2, HL, P2, Hn0. destruct (cur_is st LPAREN); lia. }
    unfold inc_count, s_do. ev_nd. rewrite <- Hc1.
    apply (IH w ltac:(lia) ltac:(lia) ltac:(lia) st2 cc (cnt + 1) tx lb ln cm (kids ++ [child]) cnc el ii (cur_is st LPAREN) lbl lp child true nt (to_olist cs));
      [lia | apply C2; lia | lia].
  - destruct HR as (x & o & Ex & Ee). rewrite Ex. eexists _, _. split; [reflexivity | exact Ee].
  - exact I.
Qed.

(* the part of the function body after the children, and the part after the label loop *)
Definition node_rest : @stmt (pstate * lc_py_rd_parse_tree_node_description L) (ptree L) :=
  ltac:(let b := eval unfold py_rd_parse_tree_node_description_body in
                   (py_rd_parse_tree_node_description_body L parse_len lower ro G rec) in
        match b with s_seq _ (s_seq _ ?r) => exact r end).
Definition node_tail : @stmt (pstate * lc_py_rd_parse_tree_node_description L) (ptree L) :=
  ltac:(let b := eval unfold node_rest in node_rest in
        match b with s_seq _ (s_seq _ (s_seq _ (s_seq _ (s_seq _ ?t)))) => exact t end).

Lemma node_tail_eq s : node_tail s = tail2 s.
Proof.
  unfold node_tail, tail2, s_seq at 1, s_if at 1.
  destruct (negb (ps_nesting (fst s) =? 0)); [reflexivity|]. unfold s_skip. unfold s_seq at 1, s_do at 1.
  unfold s_seq at 1. rewrite finish_call. unfold s_ret. destruct s as [o lc]. destruct lc. reflexivity.
Qed.

Lemma node_rest_eq st2 cnt' pre kids cs0 isint ini' nn' nc' tmp' :
  node_rest (st2, LC None cnt' (PN None None None pre kids) (to_olist cs0) None isint ini' None false nn' nc' 0%nat tmp')
  = after2 G (set_complete st2 false,
              LC None cnt' (PN None None None pre kids) (Some cs0) None
                 (if is_none isint then (if list_truthy kids then Some true else None) else isint) ini' None false nn' nc' 0%nat tmp').
Proof.
  unfold node_rest. unfold s_seq at 1, s_do at 1. ev_nd. unfold s_seq at 1, s_do at 1. ev_nd.
  unfold s_seq at 1.
  assert (H1 : forall K : @stmt (pstate * lc_py_rd_parse_tree_node_description L) (ptree L),
     match s_if (fun s : pstate * lc_py_rd_parse_tree_node_description L => is_none (py_rd_parse_tree_node_description_v_is_internal_node (snd s)))
             (s_if (fun s => list_truthy (pt_kids (py_rd_parse_tree_node_description_v_current_node (snd s))))
                (s_do (fun s => (fst s, set_py_rd_parse_tree_node_description_v_is_internal_node (snd s) (Some true)))) s_skip) s_skip
             (set_complete st2 false, LC None cnt' (PN None None None pre kids) (to_olist cs0) None isint ini' None false nn' nc' 0%nat tmp')
     with FNext s' => K s' | o => o end
     = K (set_complete st2 false, LC None cnt' (PN None None None pre kids) (to_olist cs0) None
            (if is_none isint then (if list_truthy kids then Some true else None) else isint) ini' None false nn' nc' 0%nat tmp')).
  { intro K. unfold s_if, s_do, s_skip. ev_nd. cbn [pt_kids]. destruct isint as [b|]; cbn [is_none]; [reflexivity|].
    destruct (list_truthy kids); reflexivity. }
  rewrite H1. clear H1. unfold s_seq at 1, s_if at 1. ev_nd.
  destruct cs0 as [|c cs0]; cbn [to_olist is_none]; unfold s_do, s_skip; ev_nd;
    (unfold s_seq at 1; unfold s_while at 1, s_whilee at 1; unfold after2;
     match goal with |- match ?X with _ => _ end = _ => destruct X as [s'| | | |]; try reflexivity end; apply node_tail_eq).
Qed.
End Loop2.

(* ---- the node ---- *)
Lemma PD_S g st cn ii :
  PD (S g) st cn ii
  = run_f (py_rd_parse_tree_node_description_body L parse_len lower ro (S g) (PD g))
          (st, LC None 0 cn None None ii false None false new_pnode false 0%nat None)
          (fun s => py_rd_parse_tree_node_description_v_current_node (snd s)).
Proof. reflexivity. Qed.

Theorem node_gen : ro_blank_after_comma ro = true ->
  forall g f, (f <= g)%nat -> node_spec f (PD g).
Proof.
  intro Hb. induction g as [|g IH]; intros f Hf st pre isint Hcur Hn.
  { assert (f = 0%nat) by lia. subst f. exact I. }
  destruct f as [|f]; [exact I|].
  rewrite parse_node_eq, PD_S. unfold run_f.
  change (py_rd_parse_tree_node_description_body L parse_len lower ro (S g) (PD g))
    with (s_seq (s_call rd_pull_comments (fun v lc => set_py_rd_parse_tree_node_description_v_current_node_comments lc v))
            (s_seq (s_if (fun s : pstate * lc_py_rd_parse_tree_node_description L => ostr_eqb (ps_cur (fst s)) (Some [40]))
                      (s_seq (s_call rd_require_next (fun _ lc => lc))
                         (s_seq (s_do (fun s => (fst s, set_py_rd_parse_tree_node_description_v_node_created (snd s) false)))
                            (s_seq (s_do (fun s => (fst s, set_py_rd_parse_tree_node_description_v_count (snd s) 0)))
                               (s_while (fun _ => S g) (py_rd_parse_tree_node_description_loop0_test L parse_len lower ro (S g) (PD g))
                                        (py_rd_parse_tree_node_description_loop0_body L parse_len lower ro (S g) (PD g))))))
                      s_skip)
                   (node_rest (S g) (PD g)))).
  unfold s_seq at 1, s_call at 1. ev_nd. rewrite pull_eq. ev_nd.
  destruct (pull_comments st) as [cs0 st0] eqn:Ep. cbn [fst snd].
  pose proof (pull_props st) as (P1 & P2 & P3). rewrite Ep in P1, P2, P3. cbn [snd] in P1, P2, P3.
  unfold s_seq at 1, s_if at 1. ev_nd. rewrite <- cur_is_eq. change 40 with LPAREN.
  (* the part after the children, from any state reached *)
  assert (Rest : forall st2 kids cnt' ini' nn' nc' tmp', ps_cur st2 <> None ->
    mrel (do r <- label_loop L parse_len lower ro f (set_complete st2 false)
                    (match isint with Some b => b | None => negb (is_nil kids) end) false (mkPnode L None None None (pre ++ cs0)) ;;
          let '(nd, st4) := r in Ok (finish L nd kids, st4))
      (match node_rest (S g) (PD g)
               (st2, LC None cnt' (PN None None None pre kids) (to_olist cs0) None isint ini' None false nn' nc' 0%nat tmp')
       with
       | FNext s | FBreak s => MRet (py_rd_parse_tree_node_description_v_current_node (snd s)) (fst s)
       | FRet r s => MRet r (fst s)
       | FExc x s => MExc x (fst s)
       | FFuel => MFuel
       end)
      (fun r res => res = MRet (fst r) (snd r))).
  { intros st2 kids cnt' ini' nn' nc' tmp' Hc2. rewrite node_rest_eq.
    set (ii' := if is_none isint then (if list_truthy kids then Some true else None) else isint).
    pose proof (label_gen (S g) (PD g) f (S g) ltac:(lia) (set_complete st2 false) None cnt' None None None pre kids cs0 None ii' ini' None false nn' nc' 0%nat tmp' Hc2) as LG.
    assert (Hisint : obool_truthy ii' = match isint with Some b => b | None => negb (is_nil kids) end).
    { subst ii'. destruct isint as [[|]|]; try reflexivity. cbn [is_none]. destruct kids; reflexivity. }
    rewrite Hisint in LG.
    destruct (label_loop L parse_len lower ro f (set_complete st2 false) _ false _) as [[nd st4]|e|]; cbn [bind rel mrel] in LG |- *.
    - destruct LG as (lc' & ->). reflexivity.
    - destruct LG as (x & s' & -> & Ee). eexists _, _. split; [reflexivity | exact Ee].
    - exact I. }
  rewrite P3.
  destruct (cur_is st LPAREN) eqn:EL.
  - (* "(": children *)
    unfold s_seq at 1. rewrite require_next_flow. unfold require_next.
    destruct (advance st0) as [st1|st1|e] eqn:Adv; cbn [bind].
    2:{ eexists _, _. split; reflexivity. }
    2:{ destruct e as [u|e|]; cbn [lift_err mrel]; try exact I. eexists _, _. split; reflexivity. }
    destruct (C02GenReaderInv.advance_tok _ _ Adv) as (Hc1 & Hn1 & _).
    unfold s_seq at 1, s_do at 1. ev_nd. unfold s_seq at 1, s_do at 1. ev_nd.
    unfold s_while at 1, s_whilee at 1.
    assert (Hnest1 : 1 <= ps_nesting st1) by (rewrite Hn1, P2; apply Hn; reflexivity).
    pose proof (children_gen (S g) (PD g) g IH Hb f (S g) ltac:(lia) ltac:(lia) ltac:(lia)
                  st1 None 0 None None None pre [] (to_olist cs0) None isint false None false new_pnode false 0%nat None
                  ltac:(lia) Hc1 Hnest1) as CG.
    change (0 =? 0) with true in CG.
    destruct (children_loop L parse_len lower ro f st1 false true []) as [[kids st2]|e|] eqn:Ecl; cbn [bind rel mrel] in CG |- *.
    + destruct CG as (cnt' & ini' & nn' & nc' & tmp' & Ex). cbn [fst snd] in Ex. rewrite Ex. clear Ex.
      destruct (node_children_inv L parse_len lower ro f) as (_ & Hci). destruct (Hci _ _ _ _ _ _ Ecl) as (_ & Hc2).
      apply Rest. exact Hc2.
    + destruct CG as (x & s' & Ex & Ee). rewrite Ex. eexists _, _. split; [reflexivity | exact Ee].
    + exact I.
  - unfold s_skip at 1. cbn [bind]. apply Rest. congruence.
Qed.

(* ---- _parse_tree_statement ---- *)
Notation LCS := (@mk_lc_py_rd_parse_tree_statement L).

Ltac ev_st := cbv beta iota delta [fst snd
    py_rd_parse_tree_statement_v_current_token py_rd_parse_tree_statement_v_tree py_rd_parse_tree_statement_v_tree_comments
    set_py_rd_parse_tree_statement_v_current_token set_py_rd_parse_tree_statement_v_tree set_py_rd_parse_tree_statement_v_tree_comments];
  cbn [bind mval negb andb orb is_none].

Lemma skip_gen : forall f fuel0 st tc tree,
  rel (skip_semicolons f st tc)
      (while_loop f (fun s => Ok (py_rd_parse_tree_statement_loop0_test L parse_len lower ro fuel0 s))
                 (py_rd_parse_tree_statement_loop0_body L parse_len lower ro fuel0)
                 (st, LCS (ps_cur st) tree (to_olist tc)))
      (fun r fl => fl = @FNext _ (option (rtree L)) (snd r, LCS (ps_cur (snd r)) tree (to_olist (fst r)))).
Proof.
  induction f as [|f IH]; intros fuel0 st tc tree; [exact I|].
  cbn [skip_semicolons]. rewrite while_S. cbv beta.
  assert (Ht : py_rd_parse_tree_statement_loop0_test L parse_len lower ro fuel0 (st, LCS (ps_cur st) tree (to_olist tc))
               = (cur_is st SEMI || match ps_cur st with None => true | _ => false end) && negb (ps_eof st)).
  { unfold py_rd_parse_tree_statement_loop0_test. ev_st. rewrite cur_is_eq. destruct (ps_cur st); reflexivity. }
  rewrite Ht. destruct ((cur_is st SEMI || match ps_cur st with None => true | _ => false end) && negb (ps_eof st)).
  - unfold py_rd_parse_tree_statement_loop0_body. unfold s_seq at 1. rewrite require_next_flow. unfold require_next.
    destruct (advance st) as [st1|st1|e]; cbn [bind].
    + ev_st. unfold s_call. ev_st. rewrite pull_eq. destruct (pull_comments st1) as [cs st2] eqn:Ep. ev_st.
      pose proof (pull_props st1) as (P1 & _). rewrite Ep in P1. cbn [snd] in P1. rewrite <- P1. apply IH.
    + eexists _, _. split; reflexivity.
    + destruct e as [u|e|]; cbn [lift_err rel]; try exact I. eexists _, _. split; reflexivity.
  - reflexivity.
Qed.

Lemma trailing_gen : forall f fuel0 st tree tcs,
  rel (skip_trailing f st)
      (while_loop f (fun s => Ok (py_rd_parse_tree_statement_loop1_test L parse_len lower ro fuel0 s))
                 (py_rd_parse_tree_statement_loop1_body L parse_len lower ro fuel0)
                 (st, LCS (ps_cur st) tree tcs))
      (fun r fl => fl = @FNext _ (option (rtree L)) (r, LCS (ps_cur r) tree tcs)).
Proof.
  induction f as [|f IH]; intros fuel0 st tree tcs; [exact I|].
  cbn [skip_trailing]. rewrite while_S. cbv beta.
  assert (Ht : py_rd_parse_tree_statement_loop1_test L parse_len lower ro fuel0 (st, LCS (ps_cur st) tree tcs)
               = cur_is st SEMI && negb (ps_eof st)).
  { unfold py_rd_parse_tree_statement_loop1_test. ev_st. rewrite cur_is_eq. reflexivity. }
  rewrite Ht. destruct (cur_is st SEMI && negb (ps_eof st)).
  - unfold py_rd_parse_tree_statement_loop1_body. unfold s_seq at 1, s_call at 1, rd_clear_comments. ev_st.
    destruct (pull_comments st) as [cs st1] eqn:Ep. cbn [fst snd].
    unfold s_call, rd_next_token, next_token_or_none. ev_st.
    destruct (advance st1) as [st2|st2|e]; cbn [bind].
    + apply IH.
    + change (@None str) with (ps_cur (set_cur st2 None)) at 2. apply IH.
    + destruct e as [u|e|]; cbn [lift_err rel]; try exact I. eexists _, _. split; reflexivity.
  - reflexivity.
Qed.

Definition tree_of (pr : ptree_result L) : rtree L := mkRtree (pr_is_rooted pr) (pr_comments pr) (pr_tree pr).

Theorem py_rd_parse_tree_statement_eq : ro_blank_after_comma ro = true -> forall fuel st,
  mrel (parse_tree_statement L parse_len lower ro fuel st)
       (py_rd_parse_tree_statement L parse_len lower ro fuel st)
       (fun r res => res = MRet (option_map tree_of (fst r)) (snd r)).
Proof.
  intros Hb fuel st. unfold parse_tree_statement, py_rd_parse_tree_statement, run_f, py_rd_parse_tree_statement_body.
  unfold s_seq at 1, s_do at 1. ev_st. unfold s_seq at 1, s_call at 1. ev_st. rewrite pull_eq.
  destruct (pull_comments st) as [tc st0] eqn:Ep. ev_st.
  pose proof (pull_props st) as (P1 & _). rewrite Ep in P1. cbn [snd] in P1. rewrite <- P1.
  unfold s_seq at 1. unfold s_while at 1, s_whilee at 1.
  pose proof (skip_gen fuel fuel st0 tc new_rtree) as SG.
  destruct (skip_semicolons fuel st0 tc) as [[tree_comments st1]|e|] eqn:Esk; cbn [bind rel mrel] in SG |- *.
  2:{ destruct SG as (x & s' & -> & Ee). eexists _, _. split; [reflexivity | exact Ee]. }
  2:{ exact I. }
  cbn [fst snd] in SG. rewrite SG. clear SG.
  unfold s_seq at 1, s_if at 1. ev_st.
  destruct (ps_eof st1) eqn:Eeof.
  { unfold s_ret. cbn [mrel fst snd option_map]. reflexivity. }
  unfold s_skip at 1. unfold s_seq at 1, s_if at 1. ev_st. rewrite <- cur_is_eq. change 40 with LPAREN.
  (* the current token is a real token: the skip loop ended on it *)
  assert (Hcur1 : ps_cur st1 <> None).
  { clear - Esk Eeof. revert st0 tc Esk. induction fuel as [|f IH]; intros st0 tc Esk; [discriminate|]. cbn [skip_semicolons] in Esk.
    destruct ((cur_is st0 SEMI || match ps_cur st0 with None => true | _ => false end) && negb (ps_eof st0)) eqn:Ec.
    - destruct (require_next st0) as [sa|e|]; cbn [bind] in Esk; try discriminate.
      destruct (pull_comments sa) as [cs sb]. exact (IH _ _ Esk).
    - inversion Esk; subst. rewrite Eeof in Ec. cbn [negb] in Ec. rewrite andb_true_r in Ec.
      apply orb_false_iff in Ec. destruct Ec as [_ Ec]. destruct (ps_cur st1); [discriminate | discriminate]. }
  set (st2 := set_nesting st1 (if cur_is st1 LPAREN then 1 else 0)).
  match goal with |- context [if negb (cur_is st1 LPAREN) then ?A else ?B] =>
    replace (if negb (cur_is st1 LPAREN) then A else B)
      with (@FNext _ (option (rtree L)) (st2, LCS (ps_cur st1) new_rtree (to_olist tree_comments)))
      by (subst st2; destruct (cur_is st1 LPAREN); reflexivity) end.
  unfold s_seq at 1, s_do at 1. ev_st. unfold s_seq at 1, s_call at 1. ev_st.
  rewrite py_rd_process_tree_comments_eq. ev_st. cbn [rt_comments rt_seed new_rtree].
  unfold process_tree_comments.
  destruct (process_tree_comments_loop ro tree_comments None []) as [acc kept].
  set (rooted := match acc with Some r => r | None => parse_tree_rooting_state ro [] end).
  assert (Hpair : (match acc with Some r => (r, kept) | None => (parse_tree_rooting_state ro [], kept) end) = (rooted, kept))
    by (subst rooted; destruct acc; reflexivity).
  rewrite !Hpair. cbv beta iota.
  unfold s_seq at 1, s_do at 1. ev_st. unfold s_seq at 1, s_do at 1. ev_st.
  unfold s_seq at 1, s_call at 1. ev_st. cbn [rt_seed].
  set (st3 := set_seen_map (set_complete st2 false) [] (ps_map st2)).
  change (set_ps_seen (set_complete st2 false) []) with st3.
  pose proof (node_gen Hb fuel fuel (le_n _) st3 [] None) as NG.
  assert (Hc3 : ps_cur st3 <> None) by exact Hcur1.
  assert (Hn3 : cur_is st3 LPAREN = true -> 1 <= ps_nesting st3).
  { intro X. change (cur_is st3 LPAREN) with (cur_is st1 LPAREN) in X. subst st3 st2. cbn. rewrite X. lia. }
  specialize (NG Hc3 Hn3). change (@new_pnode L) with (PN (L:=L) None None None [] []) in *.
  destruct (parse_node L parse_len lower ro fuel st3 None []) as [[t st4]|e|]; cbn [bind mrel] in NG |- *.
  2:{ destruct NG as (x & o & -> & Ee). eexists _, _. split; [reflexivity | exact Ee]. }
  2:{ exact I. }
  cbn [fst snd] in NG. rewrite NG. clear NG. ev_st. cbn [set_rt_seed rt_rooted rt_comments].
  unfold s_seq at 1, s_do at 1. ev_st. unfold s_seq at 1, s_if at 1. ev_st.
  destruct (ps_complete st4); cbn [negb].
  2:{ unfold s_raise. eexists _, _. split; reflexivity. }
  unfold s_skip at 1. unfold s_seq at 1, s_skip at 1. unfold s_seq at 1, s_skip at 1. unfold s_seq at 1, s_skip at 1.
  unfold s_seq at 1. unfold s_while at 1, s_whilee at 1.
  pose proof (trailing_gen fuel fuel st4 (set_rt_seed (mkRtree rooted kept (PN None None None [] [])) t) (to_olist tree_comments)) as TG.
  destruct (skip_trailing fuel st4) as [st5|e|]; cbn [bind rel mrel] in TG |- *.
  - rewrite TG. unfold s_ret. ev_st. reflexivity.
  - destruct TG as (x & s' & -> & Ee). eexists _, _. split; [reflexivity | exact Ee].
  - exact I.
Qed.

(* the two main statements without the auxiliary definitions *)
Corollary node_gen_expanded : ro_blank_after_comma ro = true ->
  forall g f st pre isint, (f <= g)%nat -> ps_cur st <> None -> (cur_is st LPAREN = true -> 1 <= ps_nesting st) ->
  match parse_node L parse_len lower ro f st isint pre with
  | Ok (t, st') => PD g st (PN None None None pre []) isint = MRet t st'
  | Err e => exists x o, PD g st (PN None None None pre []) isint = MExc x o /\ exc_err x = e
  | OutOfFuel => True
  end.
Proof.
  intros Hb g f st pre isint Hf Hc Hn. pose proof (node_gen Hb g f Hf st pre isint Hc Hn) as H. unfold mrel in H.
  destruct (parse_node L parse_len lower ro f st isint pre) as [[t st']|e|]; exact H.
Qed.

Corollary statement_gen_expanded : ro_blank_after_comma ro = true -> forall fuel st,
  match parse_tree_statement L parse_len lower ro fuel st with
  | Ok (None, st') => py_rd_parse_tree_statement L parse_len lower ro fuel st = MRet None st'
  | Ok (Some pr, st') =>
    py_rd_parse_tree_statement L parse_len lower ro fuel st = MRet (Some (mkRtree (pr_is_rooted pr) (pr_comments pr) (pr_tree pr))) st'
  | Err e => exists x o, py_rd_parse_tree_statement L parse_len lower ro fuel st = MExc x o /\ exc_err x = e
  | OutOfFuel => True
  end.
Proof.
  intros Hb fuel st. pose proof (py_rd_parse_tree_statement_eq Hb fuel st) as H. unfold mrel in H.
  destruct (parse_tree_statement L parse_len lower ro fuel st) as [[[pr|] st']|e|]; exact H.
Qed.
End ReaderGen.
