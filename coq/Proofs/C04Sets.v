(* C04: leafset masks as sets of accession indices.  For trees whose leaves carry pairwise distinct
   taxa: masks of sibling subtrees are disjoint, every node's mask is non-zero and contained in its
   ancestors', and two leafsets below the seed normalise to the same split mask only if they are equal or
   complementary. *)
From Coq Require Import ZArith List Bool Lia Permutation.
From DV Require Import Model.PyPrims Model.Tree Model.C04Model Model.C04Spec Gen.BitFns
  Proofs.C04Lists Proofs.C04Loops Proofs.C04Bits Proofs.C04Core.
Import ListNotations.
Open Scope Z_scope.

(* ------------------------------------------------------------------------------------------ *)
(* lists *)

Definition disjoint (a b : list Z) : Prop := forall x, In x a -> ~ In x b.

Lemma NoDup_app_disjoint (a b : list Z) : NoDup (a ++ b) -> disjoint a b.
Proof.
  induction a as [|x r IH]; simpl; intros H y Hy; [contradiction|].
  inversion H as [|? ? Hx Hr]; subst. destruct Hy as [->|Hy].
  - intro Hb. apply Hx. apply in_or_app. right. exact Hb.
  - apply IH; assumption.
Qed.

Lemma NoDup_app_l {A} (a b : list A) : NoDup (a ++ b) -> NoDup a.
Proof. induction a as [|x r IH]; simpl; intro H; [constructor|]. inversion H; subst. constructor; [|auto]. intro Hi. apply H2. apply in_or_app. left. exact Hi. Qed.

Lemma NoDup_app_r {A} (a b : list A) : NoDup (a ++ b) -> NoDup b.
Proof. induction a as [|x r IH]; simpl; intro H; [exact H|]. inversion H; subst. auto. Qed.

Lemma NoDup_flat_map_in {A} (f : A -> list Z) ks k : NoDup (flat_map f ks) -> In k ks -> NoDup (f k).
Proof.
  induction ks as [|a r IH]; simpl; intros H Hk; [contradiction|].
  destruct Hk as [->|Hk]; [eapply NoDup_app_l, H | apply IH; [eapply NoDup_app_r, H | exact Hk]].
Qed.

(* two members of a list whose images are jointly duplicate-free are the same member or have disjoint images *)
Lemma flat_map_members {A} (f : A -> list Z) ks a b :
  NoDup (flat_map f ks) -> In a ks -> In b ks -> a = b \/ disjoint (f a) (f b).
Proof.
  induction ks as [|k r IH]; simpl; intros H Ha Hb; [contradiction|].
  pose proof (NoDup_app_disjoint _ _ H) as D. pose proof (NoDup_app_r _ _ H) as Hr.
  destruct Ha as [->|Ha], Hb as [->|Hb].
  - left. reflexivity.
  - right. intros x Hx Hxb. apply (D x Hx). apply in_flat_map. exists b. tauto.
  - right. intros x Hx Hxb. apply (D x Hxb). apply in_flat_map. exists a. tauto.
  - apply IH; assumption.
Qed.

Lemma tree_eq_dec (a b : tree) : {a = b} + {a <> b}.
Proof.
  destruct (tree_eqb a b) eqn:E.
  - left. apply tree_eqb_eq. exact E.
  - right. intro H. apply tree_eqb_eq in H. congruence.
Qed.

(* members with non-empty, jointly duplicate-free images: another member / a third member exists *)
Lemma members_nodup {A} (f : A -> list Z) ks :
  NoDup (flat_map f ks) -> (forall k, In k ks -> f k <> []) -> NoDup ks.
Proof.
  induction ks as [|k r IH]; simpl; intros H Hne; [constructor|].
  constructor.
  - intro Hk. pose proof (NoDup_app_disjoint _ _ H) as D.
    destruct (f k) as [|x xs] eqn:E; [apply (Hne k (or_introl eq_refl)); exact E|].
    apply (D x (or_introl eq_refl)). apply in_flat_map. exists k. split; [exact Hk|]. rewrite E. left. reflexivity.
  - apply IH; [eapply NoDup_app_r, H|]. intros k' Hk'. apply Hne. right. exact Hk'.
Qed.

Lemma other_member (ks : list tree) a : NoDup ks -> (2 <= length ks)%nat -> exists c, In c ks /\ c <> a.
Proof.
  intros N L. destruct ks as [|x [|y r]]; simpl in L; try lia.
  destruct (tree_eq_dec x a) as [->|Hx].
  - exists y. split; [right; left; reflexivity|]. inversion N as [|? ? H1 _]; subst. intro E. subst. apply H1. left. reflexivity.
  - exists x. split; [left; reflexivity|exact Hx].
Qed.

Lemma third_member (ks : list tree) a b :
  NoDup ks -> (3 <= length ks)%nat -> exists c, In c ks /\ c <> a /\ c <> b.
Proof.
  intros N L. destruct ks as [|x [|y [|z r]]]; simpl in L; try lia.
  inversion N as [|? ? Hx N1]; subst. inversion N1 as [|? ? Hy N2]; subst.
  assert (Dxy : x <> y) by (intro E; subst; apply Hx; left; reflexivity).
  assert (Dxz : x <> z) by (intro E; subst; apply Hx; right; left; reflexivity).
  assert (Dyz : y <> z) by (intro E; subst; apply Hy; left; reflexivity).
  destruct (tree_eq_dec x a) as [Ex|Ex], (tree_eq_dec x b) as [Fx|Fx];
  destruct (tree_eq_dec y a) as [Ey|Ey], (tree_eq_dec y b) as [Fy|Fy];
  destruct (tree_eq_dec z a) as [Ez|Ez], (tree_eq_dec z b) as [Fz|Fz]; subst; try congruence;
  try (exists x; split; [left; reflexivity | split; assumption]);
  try (exists y; split; [right; left; reflexivity | split; assumption]);
  try (exists z; split; [right; right; left; reflexivity | split; assumption]).
Qed.

(* ------------------------------------------------------------------------------------------ *)
(* bits of a tree *)

Lemma bits_node acc i x l e ks : ks <> [] -> bits acc (T i x l e ks) = flat_map (bits acc) ks.
Proof. destruct ks; [congruence|reflexivity]. Qed.

Lemma has_bits_node acc i x l e ks : ks <> [] -> has_bits acc (T i x l e ks) = forallb (has_bits acc) ks.
Proof. destruct ks; [congruence|reflexivity]. Qed.

Lemma has_bits_nonempty acc t : has_bits acc t = true -> bits acc t <> [].
Proof.
  induction t as [i x l e ks IH] using tree_ind'. destruct ks as [|k r].
  - simpl. destruct x as [tx|]; [|discriminate]. destruct (zlookup tx acc); [discriminate|discriminate].
  - rewrite has_bits_node, bits_node by discriminate. cbn [forallb flat_map]. intro H.
    apply andb_true_iff in H. destruct H as [Hk _]. inversion IH as [|? ? IHk _]; subst.
    specialize (IHk Hk). destruct (bits acc k); [congruence|discriminate].
Qed.

(* testbit of a leafset mask *)
Lemma testbit_taxon_mask acc x j :
  0 <= j -> (forall i, In i (bits acc (T 0 x None None [])) -> 0 <= i) ->
  Z.testbit (taxon_mask acc x) j = memz j (bits acc (T 0 x None None [])).
Proof.
  intros Hj Hn. unfold taxon_mask. simpl in *. destruct x as [tx|]; [|apply Z.bits_0].
  destruct (zlookup tx acc) as [i|]; [|apply Z.bits_0].
  assert (Hi : 0 <= i) by (apply Hn; left; reflexivity).
  rewrite Z.shiftl_1_l, Z.pow2_bits_eqb by exact Hi. simpl. rewrite orb_false_r. apply Z.eqb_sym.
Qed.

Lemma testbit_lor_all l j : Z.testbit (lor_all l) j = existsb (fun m => Z.testbit m j) l.
Proof.
  induction l as [|m r IH]; unfold lor_all in *; simpl; [apply Z.bits_0|]. rewrite Z.lor_spec, IH. reflexivity.
Qed.

Lemma memz_flat_map {A} (f : A -> list Z) ks j : memz j (flat_map f ks) = existsb (fun k => memz j (f k)) ks.
Proof.
  induction ks as [|k r IH]; simpl; [reflexivity|]. unfold memz in *. rewrite existsb_app, IH. reflexivity.
Qed.

Lemma existsb_map' {A B} (f : B -> bool) (g : A -> B) l : existsb f (map g l) = existsb (fun x => f (g x)) l.
Proof. induction l as [|x r IH]; simpl; [reflexivity|]. rewrite IH. reflexivity. Qed.

Lemma existsb_ext_in' {A} (f g : A -> bool) l : (forall x, In x l -> f x = g x) -> existsb f l = existsb g l.
Proof.
  induction l as [|x r IH]; simpl; intro H; [reflexivity|].
  rewrite (H x (or_introl eq_refl)), IH; [reflexivity|]. intros y Hy. apply H. right. exact Hy.
Qed.

Lemma testbit_lmask acc t j :
  0 <= j -> (forall i, In i (bits acc t) -> 0 <= i) ->
  Z.testbit (lmask acc t) j = memz j (bits acc t).
Proof.
  intro Hj. induction t as [i x l e ks IH] using tree_ind'. intro Hn. destruct ks as [|k r].
  - cbn [lmask]. apply testbit_taxon_mask; [exact Hj|]. exact Hn.
  - rewrite lmask_node, bits_node by discriminate. rewrite testbit_lor_all, memz_flat_map, existsb_map'.
    apply existsb_ext_in'. intros k' Hk'. rewrite Forall_forall in IH. apply IH; [exact Hk'|].
    intros i' Hi'. apply Hn. rewrite bits_node by discriminate. apply in_flat_map. exists k'. tauto.
Qed.

(* ------------------------------------------------------------------------------------------ *)
(* trees whose leaves carry pairwise distinct known taxa *)

Definition good (acc : acc_map) (t : tree) : Prop :=
  has_bits acc t = true /\ (forall i, In i (bits acc t) -> 0 <= i) /\ NoDup (bits acc t).

Lemma distinct_taxa_good acc t : distinct_taxa acc t = true -> good acc t.
Proof.
  unfold distinct_taxa. rewrite !andb_true_iff. intros [[H1 H2] H3]. repeat split.
  - exact H1.
  - intros i Hi. rewrite forallb_forall in H2. apply Z.leb_le. apply H2, Hi.
  - apply nodupb_NoDup, H3.
Qed.

Lemma good_distinct_taxa acc t : good acc t -> distinct_taxa acc t = true.
Proof.
  intros [H1 [H2 H3]]. unfold distinct_taxa. rewrite !andb_true_iff. repeat split.
  - exact H1.
  - apply forallb_forall. intros i Hi. apply Z.leb_le. apply H2, Hi.
  - apply NoDup_nodupb, H3.
Qed.

Lemma good_kid acc i x l e ks k : good acc (T i x l e ks) -> In k ks -> good acc k.
Proof.
  intros [H1 [H2 H3]] Hk.
  assert (N : ks <> []) by (intro E; subst; contradiction).
  rewrite has_bits_node in H1 by exact N. rewrite bits_node in H2, H3 by exact N. repeat split.
  - rewrite forallb_forall in H1. apply H1, Hk.
  - intros j Hj. apply H2. apply in_flat_map. exists k. tauto.
  - eapply NoDup_flat_map_in; eassumption.
Qed.

Lemma postorder_node i x l e ks : postorder (T i x l e ks) = flat_map postorder ks ++ [T i x l e ks].
Proof. reflexivity. Qed.

Lemma postorder_good acc t u : good acc t -> In u (postorder t) -> good acc u /\ incl (bits acc u) (bits acc t).
Proof.
  revert u. induction t as [i x l e ks IH] using tree_ind'. intros u G Hu.
  rewrite postorder_node in Hu. apply in_app_iff in Hu. destruct Hu as [Hu|[<-|[]]].
  - apply in_flat_map in Hu. destruct Hu as [k [Hk Hu]]. rewrite Forall_forall in IH.
    destruct (IH k Hk u (good_kid acc i x l e ks k G Hk) Hu) as [Gu Iu]. split; [exact Gu|].
    intros j Hj. rewrite bits_node by (intro E; subst; contradiction). apply in_flat_map. exists k. split; [exact Hk|apply Iu, Hj].
  - split; [exact G | apply incl_refl].
Qed.

Lemma good_mask_bit acc t : good acc t -> exists j, 0 <= j /\ In j (bits acc t) /\ Z.testbit (lmask acc t) j = true.
Proof.
  intros [H1 [H2 H3]]. pose proof (has_bits_nonempty acc t H1) as N.
  destruct (bits acc t) as [|j r] eqn:E; [congruence|]. exists j.
  assert (Hj : 0 <= j) by (apply H2; left; reflexivity).
  split; [exact Hj|]. split; [left; reflexivity|].
  rewrite testbit_lmask; [|exact Hj|rewrite E; exact H2]. rewrite E. apply memz_In. left. reflexivity.
Qed.

Lemma good_mask_nonzero acc t : good acc t -> lmask acc t <> 0.
Proof. intros G E. destruct (good_mask_bit acc t G) as [j [_ [_ T]]]. rewrite E, Z.bits_0 in T. discriminate. Qed.

Lemma good_testbit acc t j : good acc t -> 0 <= j -> Z.testbit (lmask acc t) j = memz j (bits acc t).
Proof. intros [_ [H2 _]] Hj. apply testbit_lmask; assumption. Qed.

Lemma masks_disjoint acc a b :
  good acc a -> good acc b -> disjoint (bits acc a) (bits acc b) -> Z.land (lmask acc a) (lmask acc b) = 0.
Proof.
  intros Ga Gb D. apply Z.bits_inj'. intros n Hn. rewrite Z.land_spec, Z.bits_0, !good_testbit by assumption.
  destruct (memz n (bits acc a)) eqn:E1; [|reflexivity]. apply memz_In in E1.
  destruct (memz n (bits acc b)) eqn:E2; [|reflexivity]. apply memz_In in E2. exfalso. apply (D n E1 E2).
Qed.

Lemma mask_subset acc u t :
  good acc u -> good acc t -> incl (bits acc u) (bits acc t) -> Z.land (lmask acc u) (lmask acc t) = lmask acc u.
Proof.
  intros Gu Gt I. apply Z.bits_inj'. intros n Hn. rewrite Z.land_spec, !good_testbit by assumption.
  destruct (memz n (bits acc u)) eqn:E1; [|reflexivity]. apply memz_In in E1. apply I in E1. apply memz_In in E1. rewrite E1. reflexivity.
Qed.

(* the kids of a good node: distinct, with pairwise disjoint bits *)
Lemma good_kids_nodup acc i x l e ks : good acc (T i x l e ks) -> NoDup ks.
Proof.
  intro G. destruct ks as [|k r]; [constructor|].
  apply (members_nodup (bits acc)).
  - destruct G as [_ [_ H3]]. rewrite bits_node in H3 by discriminate. exact H3.
  - intros k' Hk'. apply has_bits_nonempty. apply (good_kid acc i x l e _ k' G Hk').
Qed.

Lemma good_kids_disjoint acc i x l e ks a b :
  good acc (T i x l e ks) -> In a ks -> In b ks -> a <> b -> disjoint (bits acc a) (bits acc b).
Proof.
  intros G Ha Hb Hab. destruct G as [_ [_ H3]].
  rewrite bits_node in H3 by (intro E; subst; contradiction).
  destruct (flat_map_members (bits acc) ks a b H3 Ha Hb) as [E|D]; [congruence|exact D].
Qed.

(* ------------------------------------------------------------------------------------------ *)
(* (A) in a tree without unifurcations all leafset masks are different *)

Lemma unifurcation_free_node i x l e ks :
  unifurcation_free (T i x l e ks) = true -> length ks <> 1%nat /\ forall k, In k ks -> unifurcation_free k = true.
Proof.
  cbn [unifurcation_free]. rewrite andb_true_iff, forallb_forall. intros [H1 H2]. split; [|exact H2].
  intro E. rewrite E in H1. discriminate.
Qed.

Lemma nodup_forest acc ks :
  (forall k, In k ks -> good acc k /\ NoDup (map (lmask acc) (postorder k))) ->
  NoDup (flat_map (bits acc) ks) ->
  NoDup (map (lmask acc) (flat_map postorder ks)).
Proof.
  induction ks as [|k r IH]; intros H N; [constructor|].
  cbn [flat_map] in *. rewrite map_app. apply NoDup_app_intro.
  - apply (H k (or_introl eq_refl)).
  - apply IH; [intros k' Hk'; apply H; right; exact Hk' | eapply NoDup_app_r, N].
  - intros m Hm Hm'. apply in_map_iff in Hm. destruct Hm as [u [<- Hu]].
    apply in_map_iff in Hm'. destruct Hm' as [v [E Hv]]. apply in_flat_map in Hv. destruct Hv as [k' [Hk' Hv]].
    destruct (H k (or_introl eq_refl)) as [Gk _]. destruct (H k' (or_intror Hk')) as [Gk' _].
    destruct (postorder_good acc k u Gk Hu) as [Gu Iu]. destruct (postorder_good acc k' v Gk' Hv) as [Gv Iv].
    destruct (good_mask_bit acc u Gu) as [j [Hj [Hin T]]].
    rewrite <- E, good_testbit in T by assumption. apply memz_In in T.
    apply (NoDup_app_disjoint _ _ N j (Iu j Hin)). apply in_flat_map. exists k'. split; [exact Hk'|apply Iv, T].
Qed.

Theorem masks_all_different acc t :
  good acc t -> unifurcation_free t = true -> NoDup (map (lmask acc) (postorder t)).
Proof.
  induction t as [i x l e ks IH] using tree_ind'. intros G U.
  destruct (unifurcation_free_node i x l e ks U) as [L Uk].
  rewrite postorder_node, map_app. cbn [map]. apply NoDup_snoc.
  - destruct ks as [|k0 r0]; [constructor|]. apply nodup_forest.
    + intros k Hk. split; [apply (good_kid acc i x l e _ k G Hk)|].
      rewrite Forall_forall in IH. apply IH; [exact Hk | apply (good_kid acc i x l e _ k G Hk) | apply Uk, Hk].
    + destruct G as [_ [_ H3]]. rewrite bits_node in H3 by discriminate. exact H3.
  - intro Hm. apply in_map_iff in Hm. destruct Hm as [u [E Hu]]. apply in_flat_map in Hu. destruct Hu as [k [Hk Hu]].
    pose proof (good_kid acc i x l e ks k G Hk) as Gk.
    destruct (postorder_good acc k u Gk Hu) as [Gu Iu].
    assert (L2 : (2 <= length ks)%nat) by (destruct ks as [|a [|b r]]; simpl in *; try contradiction; lia).
    destruct (other_member ks k (good_kids_nodup acc i x l e ks G) L2) as [c [Hc Hck]].
    pose proof (good_kid acc i x l e ks c G Hc) as Gc.
    destruct (good_mask_bit acc c Gc) as [j [Hj [Hin _]]].
    assert (T1 : Z.testbit (lmask acc (T i x l e ks)) j = true).
    { rewrite good_testbit by assumption. apply memz_In. rewrite bits_node by (intro E0; subst; contradiction).
      apply in_flat_map. exists c. tauto. }
    rewrite <- E, good_testbit in T1 by assumption. apply memz_In in T1.
    apply (good_kids_disjoint acc i x l e ks c k G Hc Hk Hck j Hin). apply Iu, T1.
Qed.
