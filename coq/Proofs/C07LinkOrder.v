(* C07 link, part 4: ladderize / reorder on the heap.  C03 proves that the heap programs keep the
   node set and the leaf multiset (`same_nodes`); here the same fold is re-done with the stronger
   relation equivT (the result is the same tree up to the order of children at every node), which
   gives the unrooted-tree invariants end to end.  Uses C03's primitives (set_kids_perm_wf,
   sort_by_perm, ...) unchanged. *)
From Coq Require Import ZArith List Bool Lia Permutation.
From DV Require Import Model.PyPrims Model.Tree.
From DV Require Import Model.Heap Model.HeapOps Proofs.C03Base Proofs.C03Abs Proofs.C03Local
     Proofs.C03Order Proofs.C03Hist.
From DV Require Model.C07Model Proofs.C07Base Proofs.C07Blocks Proofs.C07Ops.
From DV Require Import Model.C07Spec Proofs.C07Equiv.
Import ListNotations.
Open Scope Z_scope.

Lemma equivT_plug c : forall s s', equivT s s' -> equivT (plug c s) (plug c s').
Proof.
  induction c as [|c' IH i x l e lft rgt]; intros s s' H; simpl; [assumption|].
  apply IH. apply equivT_node; [destruct lft; discriminate|].
  apply Forall2_app; [apply forall2_refl; apply equivT_refl|].
  constructor; [assumption | apply forall2_refl; apply equivT_refl].
Qed.

Lemma nodup_lt_plug c : forall s, NoDup (leaf_taxa (plug c s)) -> NoDup (leaf_taxa s).
Proof.
  induction c as [|c' IH i x l e lft rgt]; intros s N; simpl in N; [assumption|].
  apply IH in N. rewrite C07Base.leaf_taxa_node in N by (destruct lft; discriminate).
  eapply C07Blocks.nodup_ltF_elem; eauto.
Qed.

(* same nodes, and the same tree up to child order *)
Definition same_tree (t t' : tree) : Prop := same_nodes t t' /\ equivT t t'.

Lemma same_tree_refl t : same_tree t t.
Proof. split; [apply same_nodes_refl | apply equivT_refl]. Qed.
Lemma same_tree_trans a b c : same_tree a b -> same_tree b c -> same_tree a c.
Proof. intros [A1 A2] [B1 B2]. split; [eapply same_nodes_trans; eauto | eapply equivT_trans; eauto]. Qed.

Lemma reorder_step_eq h t nd (f : list Z -> list Z) :
  (forall l, Permutation (f l) l) ->
  Wr h t -> In nd (ids t) -> NoDup (leaf_taxa t) ->
  exists t', Wr (set_kids nd (f (kids h nd)) h) t' /\ same_tree t t'.
Proof.
  intros Pf W Hn ND. destruct (find_ctx t nd Hn) as [c [s [Et Es]]]. subst t.
  destruct s as [i x l e ks]. simpl in Es. subst i.
  assert (K : kids h nd = map t_id ks) by (apply (kids_of_focus h c (T nd x l e ks) W)).
  rewrite K. destruct (Permutation_map_inv t_id ks (Pf (map t_id ks))) as [ks' [E P]].
  rewrite E. exists (plug c (T nd x l e ks')). split.
  - apply (set_kids_perm_wf h c nd x l e ks ks' W P).
  - split; [apply same_nodes_plug_kids, P|].
    apply equivT_plug. destruct ks as [|k r].
    + apply Permutation_nil in P. subst ks'. apply equivT_refl.
    + apply equivT_perm; [discriminate | exact P|].
      apply nodup_lt_plug in ND. rewrite C07Base.leaf_taxa_node in ND by discriminate. exact ND.
Qed.

Lemma reorder_fold_eq (g : heap -> Z -> option (list Z -> list Z)) :
  (forall h nd f, g h nd = Some f -> forall l, Permutation (f l) l) ->
  forall L h t, Wr h t -> (forall nd, In nd L -> In nd (ids t)) -> NoDup (leaf_taxa t) ->
  let step := fun h nd => match g h nd with Some f => set_kids nd (f (kids h nd)) h | None => h end in
  exists t', Wr (fold_left step L h) t' /\ same_tree t t' /\
             next (fold_left step L h) = next h /\ rooted (fold_left step L h) = rooted h /\
             seed (fold_left step L h) = seed h.
Proof.
  intros Pg L. induction L as [|nd r IH]; intros h t W HL ND step; simpl.
  - exists t. split; [exact W|split; [apply same_tree_refl|auto]].
  - assert (S1 : exists t1, Wr (step h nd) t1 /\ same_tree t t1).
    { unfold step. destruct (g h nd) as [f|] eqn:E.
      - apply reorder_step_eq; [eapply Pg; eauto|exact W|apply HL; left; reflexivity|exact ND].
      - exists t. split; [exact W|apply same_tree_refl]. }
    destruct S1 as [t1 [W1 SN1]].
    destruct (IH (step h nd) t1 W1) as [t' [W' [SN' [P1 [P2 P3]]]]].
    { intros x Hx. destruct SN1 as [[_ [PI _]] _]. eapply Permutation_in; [exact PI|]. apply HL. right. exact Hx. }
    { destruct SN1 as [_ ET]. eapply Permutation_NoDup; [apply (et_lt _ _ ET) | exact ND]. }
    exists t'. split; [exact W'|split; [eapply same_tree_trans; eauto|]].
    fold step in P1, P2, P3. rewrite P1, P2, P3. unfold step. destruct (g h nd); auto.
Qed.

Lemma heap_ladderize_equiv asc h t :
  WFt h t -> NoDup (leaf_taxa t) ->
  exists h' t', HeapOps.ladderize asc h = HOk h' /\ WFt h' t' /\ same_tree t t' /\ rooted h' = rooted h.
Proof.
  intros [W S] ND. unfold ladderize, with_sub. fold (abs h). rewrite (abs_WFt h t (conj W S)).
  set (cnt := desc_counts t).
  set (key := fun nd => match zlookup nd cnt with Some c => c | None => 0 end).
  pose (g := fun (h : heap) (nd : Z) =>
               if is_internal h nd then Some (sort_by key (negb asc)) else None).
  destruct (reorder_fold_eq g) with (L := post_ids t) (h := h) (t := t) as [t' [W' [SN [P1 [P2 P3]]]]].
  - intros h0 nd f E l. unfold g in E. destruct (is_internal h0 nd); [|discriminate]. inversion E. apply sort_by_perm.
  - exact W.
  - apply post_ids_in.
  - exact ND.
  - eexists. exists t'. split; [reflexivity|].
    match goal with |- WFt ?hh _ /\ _ => assert (EH : hh = fold_left (fun h nd => match g h nd with Some f => set_kids nd (f (kids h nd)) h | None => h end) (post_ids t) h) end.
    { apply fold_left_ext_eq. intros h0 nd. unfold g. destruct (is_internal h0 nd); reflexivity. }
    rewrite EH. split; [split; [exact W'|]|auto].
    rewrite P3. destruct SN as [[E _] _]. congruence.
Qed.

Lemma heap_reorder_equiv asc ranks h t :
  WFt h t -> NoDup (leaf_taxa t) ->
  exists h' t', HeapOps.reorder asc ranks h = HOk h' /\ WFt h' t' /\ same_tree t t' /\ rooted h' = rooted h.
Proof.
  intros [W S] ND. unfold reorder, with_sub. fold (abs h). rewrite (abs_WFt h t (conj W S)).
  set (key := fun nd => match taxon h nd with
                        | Some x => match zlookup x ranks with Some r => r | None => 0 end
                        | None => 0 end).
  pose (g := fun (_ : heap) (_ : Z) => Some (sort_by key (negb asc))).
  destruct (reorder_fold_eq g) with (L := pre_ids t) (h := h) (t := t) as [t' [W' [SN [P1 [P2 P3]]]]].
  - intros h0 nd f E l. unfold g in E. inversion E. apply sort_by_perm.
  - exact W.
  - intros nd H. exact H.
  - exact ND.
  - eexists. exists t'. split; [reflexivity|].
    split; [split; [exact W'|]|auto].
    simpl in P3. rewrite P3. destruct SN as [[E _] _]. congruence.
Qed.

Lemma heap_ladderize_l asc h t :
  WF h -> abs h = Some t -> NoDup (leaf_taxa t) ->
  exists h' t', HeapOps.ladderize asc h = HOk h' /\ WF h' /\ abs h' = Some t' /\ rooted h' = rooted h
    /\ t_id t' = t_id t /\ Permutation (ids t) (ids t')
    /\ Permutation (leaf_taxa t) (leaf_taxa t')
    /\ (forall S, is_usplit t S <-> is_usplit t' S)
    /\ total_length t' = total_length t
    /\ (forall a b, dist a b t' = dist a b t).
Proof.
  intros W E ND. pose proof (WF_abs_t h t W E) as Wt.
  destruct (heap_ladderize_equiv asc h t Wt ND) as [h' [t' [E' [W' [[[I1 [I2 _]] ET] R]]]]].
  exists h', t'. split; [exact E'|]. split; [eapply WFt_WF; eauto|]. split; [apply abs_WFt; exact W'|].
  split; [exact R|]. split; [exact I1|]. split; [exact I2|].
  apply C07Ops.equivU_unfold, equivT_U, ET.
Qed.

Lemma heap_reorder_l asc ranks h t :
  WF h -> abs h = Some t -> NoDup (leaf_taxa t) ->
  exists h' t', HeapOps.reorder asc ranks h = HOk h' /\ WF h' /\ abs h' = Some t' /\ rooted h' = rooted h
    /\ t_id t' = t_id t /\ Permutation (ids t) (ids t')
    /\ Permutation (leaf_taxa t) (leaf_taxa t')
    /\ (forall S, is_usplit t S <-> is_usplit t' S)
    /\ total_length t' = total_length t
    /\ (forall a b, dist a b t' = dist a b t).
Proof.
  intros W E ND. pose proof (WF_abs_t h t W E) as Wt.
  destruct (heap_reorder_equiv asc ranks h t Wt ND) as [h' [t' [E' [W' [[[I1 [I2 _]] ET] R]]]]].
  exists h', t'. split; [exact E'|]. split; [eapply WFt_WF; eauto|]. split; [apply abs_WFt; exact W'|].
  split; [exact R|]. split; [exact I1|]. split; [exact I2|].
  apply C07Ops.equivU_unfold, equivT_U, ET.
Qed.
