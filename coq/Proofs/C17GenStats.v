(* C17: the generated statistics (Gen/Ages.v) equal the hand-written model *)
From Coq Require Import ZArith QArith List Bool Lia ZifyBool Setoid.
From DV Require Import Model.PyPrims Model.Tree Model.C17Model Model.C17Prims Gen.Ages.
From DV Require Import Proofs.C17Ages Proofs.C17Depth Proofs.C17Stats Proofs.C17GenLib.
Import ListNotations.
Open Scope Z_scope.

(* ------------------------------------------------------------------------------------------ *)
(* treeness                                                                                    *)

Definition tre_res (x0 i0 : Z) (r : res (Z * Z)) : xres (Z * Z) :=
  match r with
  | Ok (i, x) => XOk (x0 + x, i0 + i)
  | Err e => XErr (Py e)
  | OutOfFuel => XErr (Py OtherErr)
  end.

Lemma g_treeness_sub t0 st k : forall anc x0 i0,
  anc <> [] -> lens_agree st k ->
  py_for (post_under anc k) (g_treeness_loop1 t0 st) (x0, i0) = tre_res x0 i0 (tre_sub k).
Proof.
  induction k as [i x l e ks IH] using tree_ind'. intros anc x0 i0 Hanc Hl.
  rewrite post_under_unfold, py_for_app. cbn [t_id t_kids].
  assert (Hkids : forall x1 i1,
    py_for (flat_map (post_under (i :: anc)) ks) (g_treeness_loop1 t0 st) (x1, i1)
    = match rsequence (map tre_sub ks) with
      | Ok rs => XOk (x1 + sumZ (map snd rs), i1 + sumZ (map fst rs))
      | Err er => XErr (Py er)
      | OutOfFuel => XErr (Py OtherErr)
      end).
  { assert (Hl' : forall c, In c ks -> lens_agree st c) by (intros c Hc; eapply lens_agree_kid; [exact Hl | exact Hc]).
    clear Hl. induction IH as [|c r Hc _ IHr]; intros x1 i1.
    - cbn. f_equal. f_equal; lia.
    - cbn [flat_map map rsequence]. rewrite py_for_app, Hc; [|discriminate | apply Hl'; left; reflexivity].
      destruct (tre_sub c) as [[ic xc]| |]; cbn [tre_res xbind]; try reflexivity.
      rewrite IHr by (intros c' Hc'; apply Hl'; right; exact Hc').
      destruct (rsequence (map tre_sub r)) as [rs| |]; try reflexivity.
      cbn [map fst snd]. rewrite !sumZ_cons. f_equal. f_equal; lia. }
  rewrite Hkids. cbn [tre_sub].
  destruct (rsequence (map tre_sub ks)) as [rs| |]; cbn [xbind tre_res]; try reflexivity.
  cbn [py_for]. unfold g_treeness_loop1 at 1. cbv beta iota.
  assert (Hp : py_is_none (py_parent (mkNode (T i x l e ks) anc)) = false) by (destruct anc; [contradiction | reflexivity]).
  rewrite Hp. cbn [negb].
  assert (El : py_length st (n_id (mkNode (T i x l e ks) anc)) = e) by (apply (Hl _ (in_preorder_self _))).
  rewrite El. unfold py_is_leaf, is_leaf. cbn [n_sub t_kids].
  destruct ks as [|k0 r]; destruct e as [len|]; cbn [py_add_oo xbind tre_res]; try reflexivity.
  - f_equal. f_equal; lia.
  - f_equal. f_equal; lia.
Qed.

Lemma g_treeness_eq_l : forall t st, lens_agree st t ->
  g_treeness t st = xbind (of_res (treeness t)) (fun q => XOk (st, q)).
Proof.
  intros t st Hl. unfold g_treeness, py_postorder_nodes. rewrite post_under_unfold, py_for_app.
  assert (Hkids : forall x1 i1,
    py_for (flat_map (post_under [t_id t]) (t_kids t)) (g_treeness_loop1 t st) (x1, i1)
    = match rsequence (map tre_sub (t_kids t)) with
      | Ok rs => XOk (x1 + sumZ (map snd rs), i1 + sumZ (map fst rs))
      | Err er => XErr (Py er)
      | OutOfFuel => XErr (Py OtherErr)
      end).
  { assert (Hl' : forall c, In c (t_kids t) -> lens_agree st c) by (intros c Hc; eapply lens_agree_kid; [exact Hl | exact Hc]).
    induction (t_kids t) as [|c r IHr]; intros x1 i1.
    - cbn. f_equal. f_equal; lia.
    - cbn [flat_map map rsequence]. rewrite py_for_app, g_treeness_sub; [|discriminate | apply Hl'; left; reflexivity].
      destruct (tre_sub c) as [[ic xc]| |]; cbn [tre_res xbind]; try reflexivity.
      rewrite IHr by (intros c' Hc'; apply Hl'; right; exact Hc').
      destruct (rsequence (map tre_sub r)) as [rs| |]; try reflexivity.
      cbn [map fst snd]. rewrite !sumZ_cons. f_equal. f_equal; lia. }
  rewrite Hkids. unfold treeness.
  destruct (rsequence (map tre_sub (t_kids t))) as [rs| |]; cbn [xbind of_res]; try reflexivity.
  cbn [py_for]. unfold g_treeness_loop1 at 1. cbv beta iota. cbn [py_parent n_anc hd_error py_is_none negb xbind].
  rewrite !Z.add_0_l. unfold py_div. rewrite Qeq_bool_inject_0.
  destruct (sumZ (map snd rs) + sumZ (map fst rs) =? 0); reflexivity.
Qed.

(* ------------------------------------------------------------------------------------------ *)
(* Sackin, N_bar                                                                               *)

Lemma leaf_anc_depths t : forall anc,
  map (fun x => Z.of_nat (length (n_anc x))) (filter py_is_leaf (post_under anc t)) = leaf_depths (Z.of_nat (length anc)) t.
Proof.
  induction t as [i x l e ks IH] using tree_ind'. intro anc. rewrite post_under_unfold, filter_app, map_app.
  cbn [t_id t_kids filter]. unfold py_is_leaf at 2. unfold is_leaf. cbn [n_sub t_kids].
  destruct ks as [|k0 r]; [reflexivity|]. cbn [map app]. rewrite app_nil_r.
  change (leaf_depths (Z.of_nat (length anc)) (T i x l e (k0 :: r)))
    with (flat_map (leaf_depths (Z.of_nat (length anc) + 1)) (k0 :: r)).
  induction IH as [|c ls Hc _ IHl]; [reflexivity|]. cbn [flat_map]. rewrite filter_app, map_app, IHl, Hc. f_equal.
  cbn [length]. f_equal. lia.
Qed.

Lemma count_loop {P} (body : Z -> Z -> xres Z) (l : list P) :
  forall (f : P -> Z -> xres Z), (forall p n, f p n = XOk (n + 1)) -> forall n, py_for l f n = XOk (n + Z.of_nat (length l)).
Proof.
  intros f Hf. induction l as [|p r IH]; intro n; [cbn; f_equal; lia|].
  cbn [py_for length]. rewrite Hf. cbn [xbind]. rewrite IH. f_equal. lia.
Qed.

Lemma leaves_loop (inner : Z -> Z -> xres Z) (outer : node -> Z * Z -> xres (Z * Z)) :
  (forall p n, inner p n = XOk (n + 1)) ->
  (forall x lc na, outer x (lc, na) = xbind (py_for (py_ancestors x) inner na) (fun na' => XOk (lc + 1, na'))) ->
  forall L lc na,
    py_for L outer (lc, na) = XOk (lc + Z.of_nat (length L), na + sumZ (map (fun x => Z.of_nat (length (n_anc x))) L)).
Proof.
  intros Hi Ho. induction L as [|x r IH]; intros lc na; [cbn; f_equal; f_equal; lia|].
  cbn [py_for]. rewrite Ho, (count_loop inner) by exact Hi. cbn [xbind]. rewrite IH. cbn [length map]. rewrite sumZ_cons.
  unfold py_ancestors. f_equal. f_equal; lia.
Qed.

Lemma leaf_counts t :
  Z.of_nat (length (py_leaf_nodes t)) = Z.of_nat (length (leaf_depths 0 t))
  /\ sumZ (map (fun x => Z.of_nat (length (n_anc x))) (py_leaf_nodes t)) = sumZ (leaf_depths 0 t).
Proof.
  unfold py_leaf_nodes, py_postorder_nodes. pose proof (leaf_anc_depths t []) as H. cbn [length Z.of_nat] in H.
  rewrite <- H. rewrite map_length. split; reflexivity.
Qed.

Lemma g_N_bar_eq_l : forall t st, g_N_bar t st = XOk (st, N_bar t).
Proof.
  intros t st. unfold g_N_bar.
  rewrite (leaves_loop (g_N_bar_loop1 t) (g_N_bar_loop2 t)); [|reflexivity | reflexivity].
  cbn [xbind]. destruct (leaf_counts t) as [E1 E2]. rewrite E1, E2, !Z.add_0_l.
  unfold py_div. rewrite Qeq_bool_inject_0.
  assert (Hpos : (1 <= length (leaf_depths 0 t))%nat) by (rewrite leaf_depths_length; apply leaves_pos).
  destruct (Z.of_nat (length (leaf_depths 0 t)) =? 0) eqn:E; [lia|]. reflexivity.
Qed.

(* results compared up to == on the rational *)
Definition xq_equiv (a b : xres (store * Q)) : Prop :=
  match a, b with
  | XOk (s1, q1), XOk (s2, q2) => s1 = s2 /\ (q1 == q2)%Q
  | XErr e1, XErr e2 => e1 = e2
  | _, _ => False
  end.

Lemma xq_equiv_refl a : xq_equiv a a.
Proof. destruct a as [[s q]|e]; cbn; [split; reflexivity | reflexivity]. Qed.

Lemma xq_equiv_eq a b : a = b -> xq_equiv a b.
Proof. intros ->. apply xq_equiv_refl. Qed.

Lemma xmapM_ok {A B} (f : A -> xres B) (g : A -> B) l : (forall a, In a l -> f a = XOk (g a)) -> xmapM f l = XOk (map g l).
Proof.
  induction l as [|a l IH]; intro H; [reflexivity|]. cbn [xmapM map]. rewrite (H a (or_introl eq_refl)). cbn [xbind].
  rewrite IH; [reflexivity|]. intros b Hb. apply H. right. exact Hb.
Qed.

Lemma fold_left_Qplus_shift l a : (fold_left Qplus l a == a + fold_left Qplus l 0)%Q.
Proof.
  revert a. induction l as [|x l IH]; intro a; cbn [fold_left]; [ring|]. rewrite IH, (IH (0 + x)%Q). ring.
Qed.

Lemma zrange_from_snoc a m : zrange_from a (S m) = zrange_from a m ++ [a + Z.of_nat m].
Proof.
  revert a. induction m as [|m IH]; intro a; [cbn; f_equal; lia|].
  change (zrange_from a (S (S m))) with (a :: zrange_from (a + 1) (S m)). rewrite IH. cbn [zrange_from app]. f_equal. f_equal. f_equal. lia.
Qed.

Lemma zrange_from_ge a m j : In j (zrange_from a m) -> a <= j.
Proof.
  revert a. induction m as [|m IH]; intros a Hj; [destruct Hj|].
  destruct Hj as [<- | Hj]; [lia|]. specialize (IH (a + 1) Hj). lia.
Qed.

Lemma harmonic_range (n : nat) :
  (py_sum_Q (map (fun j => inject_Z 1 / inject_Z j)%Q (zrange_from 2 (n - 1))) == harmonic_from2 n)%Q.
Proof.
  unfold py_sum_Q.
  assert (G : forall m, (fold_left Qplus (map (fun j => inject_Z 1 / inject_Z j)%Q (zrange_from 2 m)) 0 == harmonic_from2 (S m))%Q).
  { induction m as [|m IHm]; [reflexivity|].
    rewrite zrange_from_snoc, map_app, fold_left_app. cbn [map fold_left]. rewrite IHm.
    change (harmonic_from2 (S (S m))) with (harmonic_from2 (S m) + (1 # Pos.of_nat (S (S m))))%Q.
    apply Qplus_comp; [reflexivity|].
    assert (Ez : 2 + Z.of_nat m = Z.pos (Pos.of_nat (S (S m)))) by (rewrite <- Pos.of_nat_succ, Zpos_P_of_succ_nat; lia).
    rewrite Ez.
    generalize (Pos.of_nat (S (S m))) as q. intro q. unfold Qdiv, Qinv, inject_Z, Qeq, Qmult. cbn. lia. }
  destruct n as [|[|m]]; [reflexivity | reflexivity|]. replace (S (S m) - 1)%nat with (S m) by lia. apply G.
Qed.

Lemma g_sackin_eq_l : forall w nm t st,
  Qeq_bool (pow15 w) 0 = false ->
  xq_equiv (g_sackin_index w nm t st) (xbind (of_res (sackin_index w nm t)) (fun q => XOk (st, q))).
Proof.
  intros w nm t st Hpow. unfold g_sackin_index.
  rewrite (leaves_loop (g_sackin_index_loop1 w nm t) (g_sackin_index_loop2 w nm t)); [|reflexivity | reflexivity].
  cbn [xbind]. destruct (leaf_counts t) as [E1 E2]. rewrite E1, E2, !Z.add_0_l.
  assert (Hpos : (1 <= length (leaf_depths 0 t))%nat) by (rewrite leaf_depths_length; apply leaves_pos).
  set (n := length (leaf_depths 0 t)) in *. set (S := sumZ (leaf_depths 0 t)).
  assert (Hn0 : (Z.of_nat n =? 0) = false) by lia.
  unfold sackin_index. fold n. fold S.
  destruct nm; cbn [norm_eqb orb andb negb xbind of_res]; try (apply xq_equiv_refl).
  - (* True *) unfold py_div. rewrite Qeq_bool_inject_0, Hn0. apply xq_equiv_refl.
  - (* yule *)
    rewrite (xmapM_ok _ (fun j => inject_Z 1 / inject_Z j)%Q).
    2:{ intros j Hj. unfold py_div. rewrite Qeq_bool_inject_0.
        assert (2 <= j) by (apply (zrange_from_ge _ _ _ Hj)).
        destruct (j =? 0) eqn:E; [lia | reflexivity]. }
    cbn [xbind]. unfold py_div. rewrite Qeq_bool_inject_0, Hn0. cbn [xbind xq_equiv]. split; [reflexivity|].
    unfold py_range. replace (Z.to_nat (Z.of_nat n + 1 - 2)) with (n - 1)%nat by lia.
    rewrite harmonic_range. rewrite inject_Z_mult. unfold Qdiv. ring.
  - (* pda *)
    unfold py_div at 1. cbn [Qeq_bool inject_Z Qnum Qden Z.mul Zeq_bool Z.compare Pos.mul Pos.compare Pos.compare_cont xbind].
    unfold py_pow.
    replace (Qeq_bool (inject_Z 3 / inject_Z 2) (3 # 2)) with true by reflexivity.
    unfold py_div. rewrite Hpow. apply xq_equiv_refl.
Qed.

(* ------------------------------------------------------------------------------------------ *)
(* Colless                                                                                     *)

Lemma py_index_0 {A} (a : A) l : py_index (a :: l) 0 = XOk a.
Proof. reflexivity. Qed.

Lemma py_index_1 {A} (a b : A) l : py_index (a :: b :: l) 1 = XOk b.
Proof. reflexivity. Qed.

Lemma a_calc_root_id : True. Proof. exact I. Qed.

Lemma g_colless_sub w nm t0 k : forall anc d nl c,
  NoDup (ids k) ->
  match colless_sub k with
  | Ok (ck, nk) =>
    exists d', py_for (post_under anc k) (g_colless_tree_imbalance_loop1 w nm t0) (d, nl, c) = XOk (d', nl + nk, c + ck)
               /\ d' (t_id k) = Some nk /\ forall j, ~ In j (ids k) -> d' j = d j
  | Err e => py_for (post_under anc k) (g_colless_tree_imbalance_loop1 w nm t0) (d, nl, c) = XErr (Py e)
  | OutOfFuel => False
  end.
Proof.
  induction k as [i x l e ks IH] using tree_ind'. intros anc d nl c Hnd.
  rewrite post_under_unfold, py_for_app. cbn [t_id t_kids].
  (* the children *)
  assert (Hkids : forall d1 nl1 c1,
    match rsequence (map colless_sub ks) with
    | Ok rs =>
      exists d', py_for (flat_map (post_under (i :: anc)) ks) (g_colless_tree_imbalance_loop1 w nm t0) (d1, nl1, c1)
                 = XOk (d', nl1 + sumZ (map snd rs), c1 + sumZ (map fst rs))
                 /\ map (fun c => d' (t_id c)) ks = map (fun r => Some (snd r)) rs
                 /\ forall j, ~ In j (flat_map ids ks) -> d' j = d1 j
    | Err er => py_for (flat_map (post_under (i :: anc)) ks) (g_colless_tree_imbalance_loop1 w nm t0) (d1, nl1, c1) = XErr (Py er)
    | OutOfFuel => False
    end).
  { destruct (nodup_root _ Hnd) as [_ Hd]. cbn [t_kids] in Hd. clear Hnd.
    induction IH as [|k r Hk _ IHr]; intros d1 nl1 c1.
    - cbn. exists d1. split; [repeat (f_equal; try lia)|]. split; [reflexivity|]. intros; reflexivity.
    - destruct (nodup_kids_cons k r Hd) as [Hdk [Hdr Hdisj]].
      cbn [flat_map map rsequence]. rewrite py_for_app.
      specialize (Hk (i :: anc) d1 nl1 c1 Hdk).
      destruct (colless_sub k) as [[ck nk]| |]; [|rewrite Hk; reflexivity | exact Hk].
      destruct Hk as [d2 [E2 [Hroot Hframe]]]. rewrite E2. cbn [xbind].
      specialize (IHr Hdr d2 (nl1 + nk) (c1 + ck)).
      destruct (rsequence (map colless_sub r)) as [rs| |]; [|exact IHr | exact IHr].
      destruct IHr as [d3 [E3 [Hroots Hframe3]]]. exists d3. split.
      + rewrite E3. cbn [map fst snd]. rewrite !sumZ_cons. repeat (f_equal; try lia).
      + split.
        * cbn [map snd]. f_equal; [|exact Hroots]. rewrite Hframe3; [exact Hroot|].
          apply Hdisj. rewrite ids_unfold. left. reflexivity.
        * intros j Hj. rewrite Hframe3, Hframe; [reflexivity | |]; intro Hin; apply Hj; apply in_or_app; [left | right]; exact Hin. }
  specialize (Hkids d nl c).
  change (colless_sub (T i x l e ks)) with
    (match ks with
     | [] => Ok (0, 1)
     | _ => match rsequence (map colless_sub ks) with
            | Ok [(cl, n1); (cr, n2)] => Ok (cl + cr + Z.abs (n2 - n1), n1 + n2)
            | Ok [_] => Err IndexErr
            | Ok _ => Err TypeErr
            | Err e => Err e
            | OutOfFuel => OutOfFuel
            end
     end).
  destruct (nodup_root _ Hnd) as [Hroot _]. cbn [t_id t_kids] in Hroot.
  destruct ks as [|k0 r].
  { (* leaf *) cbn [flat_map py_for xbind]. rewrite xbind_ret. unfold g_colless_tree_imbalance_loop1. cbv beta iota.
    unfold py_is_leaf, is_leaf. cbn [n_sub t_kids n_id t_id].
    exists (py_dict_set d i 1). split; [repeat (f_equal; try lia)|]. split.
    - unfold py_dict_set. apply upd_same.
    - intros j Hj. unfold py_dict_set. apply upd_other. intro E. apply Hj. rewrite ids_unfold. left. symmetry. exact E. }
  destruct (rsequence (map colless_sub (k0 :: r))) as [rs| |]; [|rewrite Hkids; reflexivity | exact Hkids].
  destruct Hkids as [d' [E' [Hroots Hframe]]]. rewrite E'. cbn [xbind]. rewrite py_for_one.
  unfold g_colless_tree_imbalance_loop1. cbv beta iota.
  unfold py_is_leaf, is_leaf. cbn [n_sub t_kids]. rewrite child_nodes_mk. cbn [t_kids t_id]. rewrite py_len_map.
  assert (Hlen : length rs = length (k0 :: r)).
  { apply (f_equal (@length _)) in Hroots. rewrite !map_length in Hroots. symmetry. exact Hroots. }
  destruct r as [|k1 r].
  - (* one child *)
    destruct rs as [|[c0 n0] [|? ?]]; try discriminate. cbn [map snd] in *. inversion Hroots as [H0].
    replace (py_len [k0] >? 2) with false by reflexivity. cbn [map].
    rewrite py_index_0. cbn [xbind]. unfold n_id. cbn [n_sub]. unfold py_dict_get. rewrite H0. cbn [xbind]. reflexivity.
  - destruct r as [|k2 r].
    + (* two children *)
      destruct rs as [|[c0 n0] [|[c1 n1] [|? ?]]]; try discriminate. cbn [map snd] in *. inversion Hroots as [[H0 H1]].
      replace (py_len [k0; k1] >? 2) with false by reflexivity. cbn [map].
      rewrite py_index_0. cbn [xbind]. unfold n_id. cbn [n_sub]. unfold py_dict_get at 1. rewrite H0. cbn [xbind].
      rewrite py_index_1. cbn [xbind n_sub]. unfold py_dict_get at 1. rewrite H1. cbn [xbind].
      eexists. split; [|split].
      * cbn [map fst snd]. rewrite !sumZ_cons. change (sumZ []) with 0. repeat (f_equal; try lia).
      * unfold py_dict_set. rewrite upd_same. f_equal. lia.
      * intros j Hj. unfold py_dict_set. rewrite upd_other.
        -- apply Hframe. intro Hin. apply Hj. rewrite ids_unfold. right. exact Hin.
        -- intro E. apply Hj. rewrite ids_unfold. left. symmetry. exact E.
    + (* three or more *)
      destruct rs as [|r0 [|r1 [|r2 rs]]]; try discriminate.
      assert (Hg : (py_len (k0 :: k1 :: k2 :: r) >? 2) = true) by (unfold py_len; cbn [length]; lia).
      rewrite Hg. destruct r0, r1. reflexivity.
Qed.

Lemma colless_sub_leaves k c n : colless_sub k = Ok (c, n) -> 1 <= n.
Proof.
  intro H. destruct (colless_sub_spec k) as [[_ E] | [_ [e [E _]]]]; rewrite E in H; [|discriminate].
  inversion H. unfold nl. pose proof (leaves_pos k). lia.
Qed.

Lemma g_colless_eq_l : forall w nm t st,
  NoDup (ids t) -> Qeq_bool (pow15 w) 0 = false ->
  g_colless_tree_imbalance w nm t st = xbind (of_res (colless_tree_imbalance w nm t)) (fun q => XOk (st, q)).
Proof.
  intros w nm t st Hnd Hpow. unfold g_colless_tree_imbalance, py_postorder_nodes.
  pose proof (g_colless_sub w nm t t [] (@py_dict_empty Z) 0 0 Hnd) as H.
  unfold colless_tree_imbalance.
  destruct (colless_sub t) as [[c n]| |] eqn:Ec; [|rewrite H; reflexivity | destruct H].
  destruct H as [d' [E _]]. rewrite E. cbn [xbind of_res]. rewrite !Z.add_0_l.
  pose proof (colless_sub_leaves t c n Ec) as Hn.
  assert (Hn0 : (n =? 0) = false) by lia.
  destruct nm; cbn [norm_eqb orb andb negb xbind of_res]; try reflexivity.
  - (* True *) unfold py_div. rewrite Qeq_bool_inject_0. destruct (n * (n - 3) + 2 =? 0); reflexivity.
  - (* max *) unfold py_div. rewrite Qeq_bool_inject_0. destruct (n * (n - 3) + 2 =? 0); reflexivity.
  - (* yule *) unfold py_div. rewrite Qeq_bool_inject_0, Hn0. reflexivity.
  - (* pda *)
    unfold py_div at 1. cbn [Qeq_bool inject_Z Qnum Qden Z.mul Zeq_bool Z.compare Pos.mul Pos.compare Pos.compare_cont xbind].
    unfold py_pow. replace (Qeq_bool (inject_Z 3 / inject_Z 2) (3 # 2)) with true by reflexivity.
    unfold py_div. rewrite Hpow. reflexivity.
Qed.

(* ------------------------------------------------------------------------------------------ *)
(* B1                                                                                          *)

Lemma g_B1_sub t0 k : forall anc d b,
  anc <> [] -> NoDup (ids k) ->
  exists d' b', py_for (post_under anc k) (g_B1_loop1 t0) (d, b) = XOk (d', b')
    /\ (b' == b + b1_sub k)%Q /\ d' (t_id k) = Some (mi k) /\ forall j, ~ In j (ids k) -> d' j = d j.
Proof.
  induction k as [i x l e ks IH] using tree_ind'. intros anc d b Hanc Hnd.
  rewrite post_under_unfold, py_for_app. cbn [t_id t_kids].
  assert (Hkids : forall d1 b1,
    exists d' b', py_for (flat_map (post_under (i :: anc)) ks) (g_B1_loop1 t0) (d1, b1) = XOk (d', b')
      /\ (b' == b1 + sumQ (map b1_sub ks))%Q
      /\ (forall c, In c ks -> d' (t_id c) = Some (mi c))
      /\ forall j, ~ In j (flat_map ids ks) -> d' j = d1 j).
  { destruct (nodup_root _ Hnd) as [_ Hd]. cbn [t_kids] in Hd. clear Hnd.
    induction IH as [|k r Hk _ IHr]; intros d1 b1.
    - exists d1, b1. split; [reflexivity|]. split; [cbn; ring|]. split; [intros c []|]. intros; reflexivity.
    - destruct (nodup_kids_cons k r Hd) as [Hdk [Hdr Hdisj]].
      cbn [flat_map]. rewrite py_for_app.
      destruct (Hk (i :: anc) d1 b1 ltac:(discriminate) Hdk) as [d2 [b2 [E2 [Hb2 [Hroot Hframe]]]]].
      rewrite E2. cbn [xbind].
      destruct (IHr Hdr d2 b2) as [d3 [b3 [E3 [Hb3 [Hroots Hframe3]]]]].
      exists d3, b3. split; [exact E3|]. split.
      + rewrite Hb3, Hb2. cbn [map]. rewrite sumQ_cons. ring.
      + split.
        * intros c [<- | Hc]; [|apply Hroots; exact Hc]. rewrite Hframe3; [exact Hroot|].
          apply Hdisj. rewrite ids_unfold. left. reflexivity.
        * intros j Hj. rewrite Hframe3, Hframe; [reflexivity | |]; intro Hin; apply Hj; apply in_or_app; [left | right]; exact Hin. }
  destruct (Hkids d b) as [d' [b' [E' [Hb' [Hroots Hframe]]]]]. rewrite E'. cbn [xbind py_for].
  unfold g_B1_loop1 at 1. cbv beta iota.
  assert (Hp : py_is_none (py_parent (mkNode (T i x l e ks) anc)) = false) by (destruct anc; [contradiction | reflexivity]).
  rewrite Hp. rewrite child_nodes_mk. cbn [t_kids t_id]. rewrite py_len_map, py_len_zero.
  destruct (nodup_root _ Hnd) as [Hroot _]. cbn [t_id t_kids] in Hroot.
  destruct ks as [|k0 r].
  - cbn [n_id n_sub t_id]. exists (py_dict_set d' i 0), b'. split; [reflexivity|]. split; [rewrite Hb'; cbn; ring|]. split.
    + unfold py_dict_set. apply upd_same.
    + intros j Hj. unfold py_dict_set. rewrite upd_other; [apply Hframe; intros []|].
      intro E. apply Hj. rewrite ids_unfold. left. symmetry. exact E.
  - rewrite (xmapM_ok _ (fun c => mi (n_sub c))).
    2:{ intros a Ha. apply in_map_iff in Ha. destruct Ha as [c [<- Hc]]. unfold n_id. cbn [n_sub]. unfold py_dict_get.
        rewrite (Hroots c Hc). reflexivity. }
    cbn [xbind]. rewrite map_map. cbn [n_sub map py_max_list xbind n_id t_id].
    change (maxl (mi k0) (map (fun c => mi c) r) + 1) with (mi (T i x l e (k0 :: r))).
    set (M := mi (T i x l e (k0 :: r))).
    assert (HM : 1 <= M). { unfold M. rewrite mi_height. pose proof (height_kid i x l e (k0 :: r) k0 (or_introl eq_refl)). pose proof (height_pos k0). lia. }
    unfold py_div. rewrite Qeq_bool_inject_0. destruct (M =? 0) eqn:EM; [lia|]. cbn [xbind].
    eexists. eexists. split; [reflexivity|]. split; [|split].
    + rewrite Hb'. change (b1_sub (T i x l e (k0 :: r))) with (sumQ (map b1_sub (k0 :: r)) + (1 # Z.to_pos M))%Q.
      assert (Hq : (inject_Z 1 / inject_Z M == 1 # Z.to_pos M)%Q).
      { unfold Qdiv, Qinv, inject_Z, Qeq, Qmult. cbn [Qnum Qden]. destruct M eqn:EM'; try lia. cbn. reflexivity. }
      rewrite Hq. ring.
    + unfold py_dict_set. apply upd_same.
    + intros j Hj. unfold py_dict_set. rewrite upd_other.
      * apply Hframe. intro Hin. apply Hj. rewrite ids_unfold. right. exact Hin.
      * intro E. apply Hj. rewrite ids_unfold. left. symmetry. exact E.
Qed.

Lemma g_B1_eq_l : forall t st, NoDup (ids t) ->
  exists q, g_B1 t st = XOk (st, q) /\ (q == B1 t)%Q.
Proof.
  intros t st Hnd. unfold g_B1, py_postorder_nodes. rewrite post_under_unfold, py_for_app.
  assert (Hkids : forall d1 b1,
    exists d' b', py_for (flat_map (post_under [t_id t]) (t_kids t)) (g_B1_loop1 t) (d1, b1) = XOk (d', b')
      /\ (b' == b1 + sumQ (map b1_sub (t_kids t)))%Q).
  { destruct (nodup_root _ Hnd) as [_ Hd]. clear Hnd.
    induction (t_kids t) as [|k r IHr]; intros d1 b1.
    - exists d1, b1. split; [reflexivity | cbn; ring].
    - destruct (nodup_kids_cons k r Hd) as [Hdk [Hdr _]].
      cbn [flat_map]. rewrite py_for_app.
      destruct (g_B1_sub t k [t_id t] d1 b1 ltac:(discriminate) Hdk) as [d2 [b2 [E2 [Hb2 _]]]].
      rewrite E2. cbn [xbind]. destruct (IHr Hdr d2 b2) as [d3 [b3 [E3 Hb3]]].
      exists d3, b3. split; [exact E3|]. rewrite Hb3, Hb2. cbn [map]. rewrite sumQ_cons. ring. }
  destruct (Hkids (@py_dict_empty Z) (inject_Z 0)) as [d' [b' [E' Hb']]]. rewrite E'. cbn [xbind py_for].
  unfold g_B1_loop1 at 1. cbv beta iota. cbn [py_parent n_anc hd_error py_is_none xbind].
  exists b'. split; [reflexivity|]. rewrite Hb'. unfold B1. change (inject_Z 0) with 0%Q. ring.
Qed.
