(* C15: consequences - age order (stable sort), len, level order is by depth, permutations / NoDup,
   parents before children, bracket structure. *)
From Coq Require Import ZArith List Bool Arith Lia Permutation Sorted.
From DV Require Import Model.PyPrims Model.Tree Model.C15Prims Gen.Traversals Model.C15Model
     Proofs.C15Base Proofs.C15Proofs Proofs.C15Apply.
Import ListNotations.
Open Scope nat_scope.

(* ------------------------------------------------------------------ list.sort(key=, reverse=) *)
Section Sort.
  Context {A : Type} (key : A -> Z) (rv : bool).

  Notation key_ord := (key_ord key rv).

  Lemma py_insert_perm x l : Permutation (py_insert key rv x l) (x :: l).
  Proof.
    induction l as [|y r IH]; simpl; [reflexivity|].
    destruct (if rv then Z.leb (key y) (key x) else Z.leb (key x) (key y)); [reflexivity|].
    apply Permutation_trans with (y :: x :: r); [constructor; exact IH | constructor].
  Qed.

  Lemma py_sort_perm l : Permutation (py_sort_by key rv l) l.
  Proof.
    induction l as [|x r IH]; simpl; [constructor|].
    apply Permutation_trans with (x :: py_sort_by key rv r); [apply py_insert_perm | constructor; exact IH].
  Qed.

  Lemma py_insert_sorted x l : StronglySorted key_ord l -> StronglySorted key_ord (py_insert key rv x l).
  Proof.
    induction l as [|y r IH]; intro H; simpl.
    - constructor; constructor.
    - apply StronglySorted_inv in H. destruct H as [Hr Hy].
      destruct (if rv then Z.leb (key y) (key x) else Z.leb (key x) (key y)) eqn:C.
      + constructor; [constructor; assumption|].
        constructor.
        * unfold C15Model.key_ord. destruct rv; apply Z.leb_le in C; exact C.
        * eapply Forall_impl; [|exact Hy]. intros z Hz. unfold C15Model.key_ord in *.
          destruct rv; apply Z.leb_le in C; lia.
      + constructor; [apply IH; exact Hr|].
        eapply Permutation_Forall; [apply Permutation_sym, py_insert_perm|].
        constructor; [|exact Hy].
        unfold C15Model.key_ord. destruct rv; apply Z.leb_gt in C; lia.
  Qed.

  Lemma py_sort_sorted l : StronglySorted key_ord (py_sort_by key rv l).
  Proof. induction l as [|x r IH]; simpl; [constructor|]. apply py_insert_sorted. exact IH. Qed.

  (* stability: elements with the same key keep their relative order - also for reverse=True *)
  Lemma py_insert_stable k x l :
    filter (fun y => Z.eqb (key y) k) (py_insert key rv x l) = filter (fun y => Z.eqb (key y) k) (x :: l).
  Proof.
    induction l as [|y r IH]; [reflexivity|]. simpl py_insert.
    destruct (if rv then Z.leb (key y) (key x) else Z.leb (key x) (key y)) eqn:C; [reflexivity|].
    simpl filter in *. rewrite IH.
    destruct (Z.eqb_spec (key x) k), (Z.eqb_spec (key y) k); try reflexivity.
    exfalso. destruct rv; apply Z.leb_gt in C; lia.
  Qed.

  Lemma py_sort_stable k l :
    filter (fun y => Z.eqb (key y) k) (py_sort_by key rv l) = filter (fun y => Z.eqb (key y) k) l.
  Proof.
    induction l as [|x r IH]; [reflexivity|]. simpl py_sort_by. rewrite py_insert_stable.
    simpl filter. rewrite IH. reflexivity.
  Qed.
End Sort.

Lemma flat_map_flat_map {A B C} (f : B -> list C) (g : A -> list B) l :
  flat_map f (flat_map g l) = flat_map (fun x => flat_map f (g x)) l.
Proof. induction l as [|x r IH]; simpl; [reflexivity|]. rewrite flat_map_app, IH. reflexivity. Qed.

Lemma fold_count {A} (l : list A) (a : Z) :
  fold_left (fun (c : Z) (_ : A) => Z.add c 1) l a = (a + Z.of_nat (length l))%Z.
Proof.
  revert a. induction l as [|x r IH]; intro a; simpl fold_left; [simpl; lia|].
  rewrite IH. simpl length. lia.
Qed.

Section More.
  Context {E : Type} (eo : lnode -> E) (hd : E -> lnode) (age : lnode -> Z).
  Notation G := (LGE E eo hd age).

  (* ---------------------------------------------------------------- age order *)
  Definition age_keep (include_leaves : bool) (ff : option (lnode -> bool)) (x : lnode) : bool :=
    (include_leaves || l_is_internal x) && pyf ff x.

  Theorem ageorder_iter_run (ff : option (lnode -> bool)) il desc (n : lnode) fuel :
    lsize n < fuel ->
    Node_ageorder_iter G fuel ff il desc n
    = GDone (filter (age_keep il ff) (py_sort_by age desc (lpre n))).
  Proof.
    intro Hf. unfold Node_ageorder_iter. rewrite preorder_iter_run by exact Hf.
    change (pyf (@None (lnode -> bool))) with (fun _ : lnode => true). rewrite filter_true.
    simpl gflat_map. rewrite flat_map_singleton. simpl gbind.
    destruct desc; cbv zeta; f_equal;
      exact (flat_map_if_filter (age_keep il ff) (py_sort_by age _ (lpre n))).
  Qed.

  (* ---------------------------------------------------------------- len(tree) *)
  Theorem len_run (n : lnode) fuel :
    2 * lsize n < fuel -> Tree_dunder_len G fuel n = Ok (Z.of_nat (length (leaves (here n)))).
  Proof.
    intro Hf. unfold Tree_dunder_len. rewrite leaf_iter_run by exact Hf.
    change (pyf (@None (lnode -> bool))) with (fun _ : lnode => true). rewrite filter_true.
    simpl gbind_res. cbv zeta. rewrite fold_count.
    rewrite <- (lleaves_here n), map_length. reflexivity.
  Qed.
End More.

(* ------------------------------------------------------------------ level order *)
Lemma flat_map_lpre_split q :
  Permutation (flat_map lpre q) (q ++ flat_map lpre (flat_map l_kids q)).
Proof.
  induction q as [|n r IH]; [constructor|].
  simpl flat_map. rewrite lpre_unfold, flat_map_app. simpl app.
  constructor.
  apply Permutation_trans with (flat_map lpre (l_kids n) ++ r ++ flat_map lpre (flat_map l_kids r)).
  - apply Permutation_app_head. exact IH.
  - rewrite !app_assoc. apply Permutation_app_tail. apply Permutation_app_comm.
Qed.

Lemma levels_perm : forall H q,
  Forall (fun k => height (here k) <= H) q -> Permutation (levels H q) (flat_map lpre q).
Proof.
  induction H as [|H IH]; intros q Hh.
  - destruct q as [|k r]; [constructor|].
    inversion Hh as [|? ? Hk _]; subst. pose proof (height_pos (here k)). lia.
  - simpl levels. apply Permutation_sym.
    apply Permutation_trans with (q ++ flat_map lpre (flat_map l_kids q)); [apply flat_map_lpre_split|].
    apply Permutation_app_head, Permutation_sym, IH.
    apply Forall_forall. intros k Hk. apply in_flat_map in Hk. destruct Hk as [p [Hp Hk]].
    rewrite Forall_forall in Hh. specialize (Hh p Hp). apply l_kids_height in Hk. lia.
Qed.

Theorem llevel_perm n : Permutation (llevel n) (lpre n).
Proof.
  unfold llevel. rewrite <- (app_nil_r (lpre n)). change (lpre n ++ []) with (flat_map lpre [n]).
  apply levels_perm. constructor; [apply Nat.le_refl|constructor].
Qed.

Lemma StronglySorted_app {A} (R : A -> A -> Prop) a b :
  StronglySorted R a -> StronglySorted R b -> (forall x y, In x a -> In y b -> R x y) ->
  StronglySorted R (a ++ b).
Proof.
  induction a as [|x r IH]; intros Ha Hb Hab; [exact Hb|].
  apply StronglySorted_inv in Ha. destruct Ha as [Hr Hx]. simpl. constructor.
  - apply IH; [exact Hr|exact Hb|]. intros; apply Hab; [right|]; assumption.
  - apply Forall_app. split; [exact Hx|]. apply Forall_forall. intros y Hy. apply Hab; [left; reflexivity|exact Hy].
Qed.

Lemma levels_depth : forall H q d,
  Forall (fun k => l_depth k = d) q ->
  StronglySorted depth_le (levels H q) /\ Forall (fun m => d <= l_depth m) (levels H q).
Proof.
  induction H as [|H IH]; intros q d Hq; [split; constructor|].
  simpl levels.
  assert (Hkids : Forall (fun k => l_depth k = S d) (flat_map l_kids q)).
  { apply Forall_forall. intros k Hk. apply in_flat_map in Hk. destruct Hk as [p [Hp Hk]].
    pose proof (l_kids_parent p) as P. rewrite Forall_forall in P. destruct (P k Hk) as [_ D].
    rewrite Forall_forall in Hq. rewrite (Hq p Hp) in D. exact D. }
  destruct (IH _ _ Hkids) as [Ss Sd]. split.
  - apply StronglySorted_app; [|exact Ss|].
    + clear -Hq. induction Hq as [|k r Hk Hr IHr]; constructor; [exact IHr|].
      eapply Forall_impl; [|exact Hr]. intros m Hm. unfold depth_le. cbv beta in *. lia.
    + intros x y Hx Hy. rewrite Forall_forall in Hq, Sd. unfold depth_le.
      rewrite (Hq x Hx). specialize (Sd y Hy). lia.
  - apply Forall_app. split.
    + eapply Forall_impl; [|exact Hq]. intros m Hm. cbv beta in *. lia.
    + eapply Forall_impl; [|exact Sd]. intros m Hm. cbv beta in *. lia.
Qed.

Theorem llevel_depth_sorted n : StronglySorted depth_le (llevel n).
Proof. apply (levels_depth (height (here n)) [n] (l_depth n)). constructor; [reflexivity|constructor]. Qed.

(* ------------------------------------------------------------------ each node exactly once *)
Lemma l_id_here l : map l_id l = map t_id (map here l).
Proof. rewrite map_map. reflexivity. Qed.

Theorem lpre_ids n : map l_id (lpre n) = ids (here n).
Proof. rewrite l_id_here, lpre_here. reflexivity. Qed.

Theorem lpost_ids_perm n : Permutation (map l_id (lpost n)) (ids (here n)).
Proof. rewrite <- lpre_ids. apply Permutation_map, lpost_lpre_perm. Qed.

Theorem llevel_ids_perm n : Permutation (map l_id (llevel n)) (ids (here n)).
Proof. rewrite <- lpre_ids. apply Permutation_map, llevel_perm. Qed.

Lemma NoDup_of_ids (l : list lnode) : NoDup (map l_id l) -> NoDup l.
Proof. apply NoDup_map_inv. Qed.

(* ------------------------------------------------------------------ relative order *)
Lemma before_embed {A} (l p s : list A) a b : before l a b -> before (p ++ l ++ s) a b.
Proof.
  intros [l1 [l2 [l3 ->]]]. exists (p ++ l1), l2, (l3 ++ s).
  rewrite <- !app_assoc. simpl. rewrite <- !app_assoc. reflexivity.
Qed.

Lemma lpre_head n : In n (lpre n).
Proof. rewrite lpre_unfold. left. reflexivity. Qed.

Lemma lpost_last n : In n (lpost n).
Proof. rewrite lpost_unfold. apply in_or_app. right. left. reflexivity. Qed.

Theorem lpre_parents_first : forall n m k, In m (lpre n) -> In k (l_kids m) -> before (lpre n) m k.
Proof.
  induction n as [n IH] using lnode_ind. intros m k Hm Hk.
  rewrite lpre_unfold in Hm |- *. destruct Hm as [<-|Hm].
  - assert (Hin : In k (flat_map lpre (l_kids n))).
    { apply in_flat_map. exists k. split; [exact Hk|apply lpre_head]. }
    apply in_split in Hin. destruct Hin as [l2 [l3 ->]]. exists [], l2, l3. reflexivity.
  - apply in_flat_map in Hm. destruct Hm as [c [Hc Hm]].
    rewrite Forall_forall in IH. specialize (IH c Hc m k Hm Hk).
    apply in_split in Hc. destruct Hc as [k1 [k2 ->]].
    rewrite flat_map_app. simpl flat_map.
    change (n :: flat_map lpre k1 ++ lpre c ++ flat_map lpre k2)
      with ((n :: flat_map lpre k1) ++ lpre c ++ flat_map lpre k2).
    apply before_embed. exact IH.
Qed.

Theorem lpost_children_first : forall n m k, In m (lpost n) -> In k (l_kids m) -> before (lpost n) k m.
Proof.
  induction n as [n IH] using lnode_ind. intros m k Hm Hk.
  rewrite lpost_unfold in Hm |- *. apply in_app_or in Hm. destruct Hm as [Hm|[<-|[]]].
  - apply in_flat_map in Hm. destruct Hm as [c [Hc Hm]].
    rewrite Forall_forall in IH. specialize (IH c Hc m k Hm Hk).
    apply in_split in Hc. destruct Hc as [k1 [k2 ->]].
    rewrite flat_map_app. simpl flat_map. rewrite <- !app_assoc.
    apply before_embed. exact IH.
  - assert (Hin : In k (flat_map lpost (l_kids n))).
    { apply in_flat_map. exists k. split; [exact Hk|apply lpost_last]. }
    apply in_split in Hin. destruct Hin as [l1 [l2 ->]]. exists l1, l2, [].
    rewrite <- app_assoc. reflexivity.
Qed.

(* ------------------------------------------------------------------ brackets *)
Lemma well_nested_app a b : well_nested a -> well_nested b -> well_nested (a ++ b).
Proof.
  induction 1 as [|n r Hr IH|n a' r Ha IHa Hr IHr]; intro Hb; simpl.
  - exact Hb.
  - constructor. apply IH. exact Hb.
  - rewrite <- app_assoc. simpl. constructor; [exact Ha|]. apply IHr. exact Hb.
Qed.

Theorem lbrackets_well_nested : forall n, well_nested (lbrackets n).
Proof.
  induction n as [n IH] using lnode_ind. rewrite lbrackets_unfold.
  destruct (l_is_leaf n).
  - constructor. constructor.
  - apply (wn_pair n (flat_map lbrackets (l_kids n)) []); [|constructor].
    induction IH as [|k r Hk _ IHr]; simpl; [constructor|]. apply well_nested_app; assumption.
Qed.

Lemma internal_not_leaf n : l_is_internal n = negb (l_is_leaf n).
Proof. reflexivity. Qed.

Theorem lbrackets_before : forall n, flat_map ev_before (lbrackets n) = filter l_is_internal (lpre n).
Proof.
  induction n as [n IH] using lnode_ind. rewrite lbrackets_unfold, lpre_unfold. simpl filter.
  rewrite internal_not_leaf, filter_flat_map, <- (flat_map_ext_Forall _ _ _ IH).
  destruct (l_is_leaf n) eqn:El.
  - unfold l_is_leaf in El. destruct (l_kids n); [reflexivity|discriminate].
  - simpl. rewrite flat_map_app. simpl. rewrite app_nil_r, flat_map_flat_map. reflexivity.
Qed.

Theorem lbrackets_after : forall n, flat_map ev_after (lbrackets n) = filter l_is_internal (lpost n).
Proof.
  induction n as [n IH] using lnode_ind. rewrite lbrackets_unfold, lpost_unfold, filter_app. simpl filter.
  rewrite internal_not_leaf, filter_flat_map, <- (flat_map_ext_Forall _ _ _ IH).
  destruct (l_is_leaf n) eqn:El.
  - unfold l_is_leaf in El. destruct (l_kids n); [reflexivity|discriminate].
  - simpl. rewrite flat_map_app. simpl. rewrite flat_map_flat_map. reflexivity.
Qed.

Theorem lbrackets_leaf : forall n, flat_map ev_leaf (lbrackets n) = lleaves n.
Proof.
  induction n as [n IH] using lnode_ind. rewrite lbrackets_unfold, lleaves_unfold.
  destruct (l_is_leaf n); [reflexivity|].
  simpl. rewrite flat_map_app. simpl. rewrite app_nil_r, flat_map_flat_map.
  apply flat_map_ext_Forall. exact IH.
Qed.
