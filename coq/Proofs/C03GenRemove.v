(* C03Gen: Node.remove_child(node, suppress_unifurcations) as generated = Heap.remove_child. *)
From Coq Require Import ZArith List Bool Lia.
From DV Require Import Model.PyPrims Model.Tree Model.Heap Model.C15Prims Model.MutPrims Gen.Mutators
     Model.C03GenInst Proofs.C03Base Proofs.C03GenPrims Proofs.C03GenNode Proofs.C03GenHeq.
Import ListNotations.
Open Scope Z_scope.

Lemma gen_add_child_lift p c h : Node_add_child HG p c h = lift c (add_child p c h).
Proof. apply gen_add_child_eq. Qed.

Lemma gen_remove_plain_lift p c h :
  Node_remove_child__suppress_unifurcations_False HG p c h = lift c (remove_child_plain p c h).
Proof. apply gen_remove_child_plain_eq. Qed.

Lemma gen_is_internal h x : Node_is_internal HG h x = is_internal h x.
Proof. unfold Node_is_internal, is_internal. hsimp. cbv zeta. destruct (kids h x); reflexivity. Qed.

Lemma parent_insert_child q pos ch h x :
  parent (insert_child q pos ch h) x = if Z.eqb x ch then Some q else parent h x.
Proof.
  unfold insert_child. destruct (index_of ch (kids (set_parent ch (Some q) h) q)) as [cur|].
  - destruct (Nat.eqb cur pos); [apply parent_set_parent|]. rewrite parent_set_kids. apply parent_set_parent.
  - rewrite parent_set_kids. apply parent_set_parent.
Qed.

Lemma gen_insert_loop p pos : forall l h,
  mfor (fun c0 (_ : unit) s0 =>
          match Node_insert_child HG p (Z.of_nat pos) c0 s0 with
          | MOk _ s1 => MOk (LNext tt) s1
          | MErr dv_e s1 => MErr dv_e s1
          | MFuel => MFuel
          end) l tt h
  = MOk (LNext tt) (insert_each p pos l h).
Proof.
  induction l as [|c0 r IH]; intro h; [reflexivity|]. simpl mfor.
  destruct (gen_insert_child_eq p pos c0 h) as [v ->]. apply IH.
Qed.

Lemma remove_first_In (x c : Z) l : In x (remove_first c l) -> In x l.
Proof.
  induction l as [|y r IH]; simpl; [auto|]. destruct (Z.eqb c y); [auto|].
  intros [->|H]; [left; reflexivity|right; auto].
Qed.

Lemma mres_sim_lift c m r : m = lift c r -> mres_sim c m r.
Proof. intros ->. destruct r; simpl; auto using heq_refl. Qed.

Lemma py_len_ge2 {A} (a b : A) r k : (k < 2)%Z -> Z.eqb (py_len (a :: b :: r)) k = false.
Proof. intro H. apply Z.eqb_neq. unfold py_len. simpl length. lia. Qed.

Lemma py_len_ge3 {A} (a b d : A) r : Z.eqb (py_len (a :: b :: d :: r)) 2 = false.
Proof. apply Z.eqb_neq. unfold py_len. simpl length. lia. Qed.

Lemma kids_remove_plain q nd h1 h2 x :
  remove_child_plain q nd h1 = HOk h2 -> x <> q -> kids h2 x = kids h1 x.
Proof.
  unfold remove_child_plain. destruct (memz nd (kids h1 q)); [|discriminate].
  intros E N. inversion E; subst. rewrite kids_set_kids.
  destruct (Z.eqb_spec x q); [contradiction|apply kids_set_parent].
Qed.

Lemma kids_insert_child_other p i c h x : x <> p -> kids (insert_child p i c h) x = kids h x.
Proof.
  intro N. unfold insert_child. destruct (index_of c (kids (set_parent c (Some p) h) p)) as [cur|].
  - destruct (Nat.eqb cur i); [apply kids_set_parent|]. rewrite kids_set_kids.
    destruct (Z.eqb_spec x p); [contradiction|apply kids_set_parent].
  - rewrite kids_set_kids. destruct (Z.eqb_spec x p); [contradiction|apply kids_set_parent].
Qed.

(* the live iteration over to_remove's child list while inserting into self: self <> to_remove, so
   the iterated list object is never touched and Python's iterator sees exactly the snapshot *)
Lemma gen_insert_loop_live p pos tr : forall h fuel,
  tr <> p -> (length (kids h tr) < fuel)%nat ->
  mfor_live fuel (fun s => kids s tr)
           (fun c0 (_ : unit) s0 =>
              match Node_insert_child HG p (Z.of_nat pos) c0 s0 with
              | MOk _ s1 => MOk (LNext tt) s1
              | MErr dv_e s1 => MErr dv_e s1
              | MFuel => MFuel
              end) O tt h
  = MOk (LNext tt) (insert_each p pos (kids h tr) h).
Proof.
  intros h fuel N Hf.
  rewrite (mfor_live_stable (fun s => kids s tr) _ (kids h tr) (fun s => kids s tr = kids h tr)).
  - simpl skipn. apply gen_insert_loop.
  - intros s Hs. exact Hs.
  - intros x v s v' s' _ Hs Hb. destruct (gen_insert_child_eq p pos x s) as [w E]. rewrite E in Hb.
    inversion Hb; subst. rewrite kids_insert_child_other by exact N. exact Hs.
  - reflexivity.
  - lia.
Qed.

(* the tail of the root branch: splice the children of to_remove into self at pos *)
Lemma root_tail fuel p c tr h3 :
  tr <> p ->
  (forall h4, remove_child_plain p tr h3 = HOk h4 -> (length (kids h4 tr) < fuel)%nat) ->
  mres_sim c
    (match py_list_index Z.eqb tr (kids h3 p) with
     | Some ix =>
       match Node_remove_child__suppress_unifurcations_False HG p tr h3 with
       | MOk _ s =>
         match mfor_live fuel (fun s0 => kids s0 tr)
                    (fun c0 (_ : unit) s0 =>
                       match Node_insert_child HG p (Z.of_nat ix) c0 s0 with
                       | MOk _ s1 => MOk (LNext tt) s1
                       | MErr dv_e s1 => MErr dv_e s1
                       | MFuel => MFuel
                       end)
                    O tt (set_kids tr (rev (kids s tr)) s) with
         | MOk _ s0 => MOk c (set_kids tr [] s0)
         | MErr dv_e s0 => MErr dv_e s0
         | MFuel => MFuel
         end
       | MErr dv_e s => MErr dv_e s
       | MFuel => MFuel
       end
     | None => MErr ValueErr h3
     end)
    (match index_of tr (kids h3 p) with
     | Some pos =>
       hdo h4 <- remove_child_plain p tr h3 ;;
       HOk (set_kids tr [] (insert_each p pos (rev (kids h4 tr)) h4))
     | None => HErr ValueErr h3
     end).
Proof.
  intros N Hf. rewrite py_list_index_of.
  destruct (index_of tr (kids h3 p)) as [pos|]; [|simpl; auto using heq_refl].
  rewrite gen_remove_plain_lift.
  destruct (remove_child_plain p tr h3) as [h4|e h4|] eqn:Er; simpl; auto using heq_refl.
  rewrite gen_insert_loop_live.
  - rewrite kids_set_kids, Z.eqb_refl. simpl. split; [reflexivity|].
    eapply heq_trans.
    + apply heq_set_kids. apply insert_each_set_kids_comm. exact N.
    + rewrite set_kids_set_kids. apply heq_refl.
  - exact N.
  - rewrite kids_set_kids, Z.eqb_refl, rev_length. apply Hf. reflexivity.
Qed.

Theorem gen_remove_child fuel p c su h :
  memz p (kids h p) = false ->
  (forall x, (length (kids h x) < fuel)%nat) ->
  mres_sim c (Node_remove_child HG fuel p c su h) (remove_child p c su h).
Proof.
  intros Hself Hfuel.
  unfold Node_remove_child, remove_child. hsimp. cbv zeta.
  rewrite py_in_memz.
  unfold remove_child_plain at 1.
  destruct (memz c (kids h p)) eqn:Em; [|simpl; auto using heq_refl].
  unfold Node__get_edge, Edge__set_tail_node. hsimp. cbv zeta iota.
  rewrite gen_set_parent_node_exact by (rewrite parent_set_parent, Z.eqb_refl; exact I).
  unfold set_parent_node. rewrite parent_set_parent, Z.eqb_refl, set_parent_set_parent.
  rewrite py_list_index_of, kids_set_parent.
  rewrite index_of_memz in Em. destruct (index_of c (kids h p)) eqn:Ei; [|discriminate].
  rewrite py_remove_first, index_of_memz, Ei. cbv iota.
  set (h1 := set_parent c None h).
  assert (Hk2 : kids (set_kids p (remove_first c (kids h p)) h1) p = remove_first c (kids h p))
    by (rewrite kids_set_kids, Z.eqb_refl; reflexivity).
  set (h2 := set_kids p (remove_first c (kids h p)) h1) in *.
  simpl hbind.
  destruct su; [|simpl; auto using heq_refl]. simpl negb. cbv iota.
  destruct (parent h2 p) as [q|] eqn:Ep2.
  - (* self has a parent: exact *)
    apply mres_sim_lift.
    destruct (kids h2 p) as [|child [|x r]] eqn:Ek2.
    + reflexivity.
    + change (Z.eqb (py_len [child]) 1) with true. cbv iota.
      change (py_index [child] 0) with (Some child). cbv iota.
      rewrite py_list_index_of. destruct (index_of p (kids h2 q)) as [pos|]; [|reflexivity].
      destruct (gen_insert_child_eq q pos child h2) as [v ->].
      rewrite parent_insert_child, Ep2.
      replace (if Z.eqb p child then Some q else Some q) with (Some q) by (destruct (Z.eqb p child); reflexivity).
      rewrite gen_remove_plain_lift.
      destruct (remove_child_plain q p (insert_child q pos child h2)) as [h4|e h4|]; simpl; try reflexivity.
      unfold Node__get_edge. hsimp. cbv zeta. unfold add_len_try.
      destruct (elen h4 child), (elen h4 p); reflexivity.
    + rewrite py_len_ge2 by lia. reflexivity.
  - (* self is a root *)
    destruct (kids h2 p) as [|k0 [|k1 [|k2 r]]] eqn:Ek2; try (apply mres_sim_lift; reflexivity).
    2:{ apply mres_sim_lift. rewrite py_len_ge3. reflexivity. }
    assert (Hn0 : k0 <> p /\ k1 <> p).
    { assert (Hin : forall x, In x [k0; k1] -> x <> p).
      { intros x Hx E. subst x. apply memz_false in Hself. apply Hself.
        apply (remove_first_In p c). rewrite <- Hk2. exact Hx. }
      split; apply Hin; simpl; auto. }
    destruct Hn0 as [N0 N1].
    change (Z.eqb (py_len [k0; k1]) 2) with true. cbv iota.
    change (py_index [k0; k1] 0) with (Some k0). change (py_index [k0; k1] 1) with (Some k1). cbv iota.
    rewrite !gen_is_internal.
    unfold Node__get_edge. hsimp. cbv zeta.
    destruct (is_internal h2 k0).
    + unfold add_len_try. destruct (elen h2 k1), (elen h2 k0); cbv iota; try rewrite <- Ek2; (apply root_tail; [exact N0|]);
        intros h4 E4; rewrite (kids_remove_plain p k0 _ h4 k0 E4 N0), ?kids_set_elen; subst h2 h1;
        rewrite kids_set_kids, kids_set_parent; (destruct (Z.eqb_spec k0 p); [contradiction|]); apply Hfuel.
    + destruct (is_internal h2 k1); [|simpl; auto using heq_refl].
      unfold add_len_try. destruct (elen h2 k0), (elen h2 k1); cbv iota; try rewrite <- Ek2; (apply root_tail; [exact N1|]);
        intros h4 E4; rewrite (kids_remove_plain p k1 _ h4 k1 E4 N1), ?kids_set_elen; subst h2 h1;
        rewrite kids_set_kids, kids_set_parent; (destruct (Z.eqb_spec k1 p); [contradiction|]); apply Hfuel.
Qed.

(* with suppress_unifurcations=False, and whenever self has a parent, the equality is exact *)
Theorem gen_remove_child_false fuel p c h :
  Node_remove_child HG fuel p c false h = lift c (remove_child p c false h).
Proof.
  unfold Node_remove_child, remove_child. hsimp. cbv zeta.
  rewrite py_in_memz. unfold remove_child_plain at 1.
  destruct (memz c (kids h p)) eqn:Em; [|reflexivity].
  unfold Node__get_edge, Edge__set_tail_node. hsimp. cbv zeta iota.
  rewrite gen_set_parent_node_exact by (rewrite parent_set_parent, Z.eqb_refl; exact I).
  unfold set_parent_node. rewrite parent_set_parent, Z.eqb_refl, set_parent_set_parent.
  rewrite py_list_index_of, kids_set_parent.
  rewrite index_of_memz in Em. destruct (index_of c (kids h p)) eqn:Ei; [|discriminate].
  rewrite py_remove_first, index_of_memz, Ei. reflexivity.
Qed.
