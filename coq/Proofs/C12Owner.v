(* C12, wave 7: an attribute-bound annotation given ANOTHER object as owner (owner_instance=), whatever the position of
   the owner in the traversal (copied earlier or later than the annotation).  Corollary of the isomorphism theorem
   (edge-commuting clause, twice, and the freshness clause): the copy's annotation holds a pair whose first component is
   the COUNTERPART of the source's owner under the isomorphism - a fresh object of the copy, never the source's owner,
   unless the owner is itself shared at the documented depth (then, and only then, it is the same object) - and whose
   second component is the same attribute name. *)
From Coq Require Import ZArith List Bool Lia.
From DV Require Import Model.PyPrims Model.C12Model Model.C12Spec2 Model.C12Spec3 Proofs.C12IsoFullTop.
Import ListNotations.
Open Scope Z_scope.

Theorem foreign_owner_follows_copy_l : forall nf h seeds root fuel s' y,
  wf_heap h seeds = true -> wf_heap2 h = true -> wf_heap3 h = true -> wf_heap3s h = true -> wf_heap4 h = true ->
  root_seeds_ok h seeds root = true -> memz root (owned_list h) = false ->
  0 <= root < hlen h -> (length h < fuel)%nat ->
  run_seeded nf fuel h seeds root = Ok (s', R y) ->
  forall a a' oa t ot owner name,
    iso_rel h s' root y a a' ->
    hget h a = Some oa -> In (NM_VALUE, R t) (obody oa) ->
    hget h t = Some ot -> In (pidx 0, R owner) (obody ot) -> In (pidx 1, P name) (obody ot) ->
    exists oa' t' ot' owner',
      hget (sh s') a' = Some oa' /\ In (NM_VALUE, R t') (obody oa')
      /\ hget (sh s') t' = Some ot' /\ In (pidx 0, R owner') (obody ot') /\ In (pidx 1, P name) (obody ot')
      /\ iso_rel h s' root y t t' /\ iso_rel h s' root y owner owner'
      /\ (owner' < hlen h -> owner = owner')
      /\ (hlen h <= owner' -> owner <> owner').
Proof.
  intros nf h seeds root fuel s' y WF WF2 WF3 WF3S WF4 RS NO Hr Hf E a a' oa t ot owner name IA GA IV GT I0 I1.
  destruct (deepcopy_isomorphism_l nf h seeds root fuel s' y WF WF2 WF3 WF3S WF4 RS NO Hr Hf E)
    as [_ [_ [_ [_ [_ [FR ED]]]]]].
  destruct (ED a a' IA) as [oa1 [oa' [G1 [G1' [_ [_ [_ [_ [FW _]]]]]]]]].
  assert (oa1 = oa) by congruence. subst oa1.
  destruct (FW NM_VALUE (R t) IV) as [[k' [v' [IN' [VK VV]]]]|[_ [Bad _]]]; [|discriminate Bad].
  unfold NM_VALUE in VK. destruct k' as [q|]; simpl in VK; [subst q | contradiction].
  destruct v' as [|t']; simpl in VV; [contradiction|].
  destruct (ED t t' VV) as [ot1 [ot' [G2 [G2' [_ [_ [_ [_ [FW2 _]]]]]]]]].
  assert (ot1 = ot) by congruence. subst ot1.
  destruct (FW2 (pidx 0) (R owner) I0) as [[k0 [v0 [IN0 [VK0 VV0]]]]|[_ [Bad _]]]; [|discriminate Bad].
  unfold pidx in VK0. destruct k0 as [q|]; simpl in VK0; [subst q | contradiction].
  destruct v0 as [|owner']; simpl in VV0; [contradiction|].
  destruct (FW2 (pidx 1) (P name) I1) as [[k1 [v1 [IN1 [VK1 VV1]]]]|[_ [Bad _]]]; [|discriminate Bad].
  unfold pidx in VK1. destruct k1 as [q|]; simpl in VK1; [subst q | contradiction].
  destruct v1 as [q|]; simpl in VV1; [subst q | contradiction].
  destruct (FR owner owner' VV0) as [F1 F2].
  exists oa', t', ot', owner'.
  split; [exact G1'|]. split; [exact IN'|]. split; [exact G2'|]. split; [exact IN0|]. split; [exact IN1|].
  split; [exact VV|]. split; [exact VV0|]. split.
  - intros L. exact (F1 L).
  - intros L. destruct (F2 L) as [_ N]. exact N.
Qed.

(* the hypotheses hold on the heap of Proofs/C12Alias.v whose annotation is bound to a LATER sibling (and the model's
   copy of it binds the copy's annotation to the copy's sibling: C12Alias.foreign_owner_follows_copy) *)
From DV Require Import Model.C12Classes Proofs.C12Alias.
Example owner_heap_iso_hyp :
  wf_heap owner_heap [] = true /\ wf_heap2 owner_heap = true /\ wf_heap3 owner_heap = true
  /\ wf_heap3s owner_heap = true /\ wf_heap4 owner_heap = true /\ root_seeds_ok owner_heap [] 0 = true
  /\ memz 0 (owned_list owner_heap) = false.
Proof. vm_compute. repeat split; reflexivity. Qed.
