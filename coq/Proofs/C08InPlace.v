(* C08 - the in-place algorithms (loops of pointer-level updates, repeated passes) computed as
   structural recursions. *)
From Coq Require Import ZArith List Bool Lia.
From DV Require Import Model.PyPrims Model.Tree Model.C08Model Proofs.C08Base.
Import ListNotations.
Open Scope Z_scope.

(* ---------------------------------------------------------------------------------------- *)
(* record-like helpers                                                                      *)
(* ---------------------------------------------------------------------------------------- *)

Lemma t_id_set_kids t ks : t_id (set_kids t ks) = t_id t.
Proof. destruct t; reflexivity. Qed.
Lemma t_kids_set_kids t ks : t_kids (set_kids t ks) = ks.
Proof. destruct t; reflexivity. Qed.
Lemma set_kids_set_kids t a b : set_kids (set_kids t a) b = set_kids t b.
Proof. destruct t; reflexivity. Qed.
Lemma set_kids_same t : set_kids t (t_kids t) = t.
Proof. destruct t; reflexivity. Qed.
Lemma t_taxon_set_kids t ks : t_taxon (set_kids t ks) = t_taxon t.
Proof. destruct t; reflexivity. Qed.
Lemma t_len_set_kids t ks : t_len (set_kids t ks) = t_len t.
Proof. destruct t; reflexivity. Qed.
Lemma t_id_set_len t e : t_id (set_len t e) = t_id t.
Proof. destruct t; reflexivity. Qed.
Lemma t_kids_set_len t e : t_kids (set_len t e) = t_kids t.
Proof. destruct t; reflexivity. Qed.
Lemma ids_set_len t e : ids (set_len t e) = ids t.
Proof. destruct t. simpl set_len. rewrite !ids_T. reflexivity. Qed.
Lemma ids_set_kids t ks : ids (set_kids t ks) = t_id t :: idsF ks.
Proof. destruct t. simpl set_kids. rewrite ids_T. reflexivity. Qed.
Lemma ids_as_kids t : ids t = t_id t :: idsF (t_kids t).
Proof. destruct t. rewrite ids_T. reflexivity. Qed.

(* ---------------------------------------------------------------------------------------- *)
(* a loop of `upd_below f` steps with a special case at the seed                            *)
(* ---------------------------------------------------------------------------------------- *)

Definition gstep (f : tree -> list tree) (rc : tree -> ires tree) (s : ires tree) (id : Z) : ires tree :=
  match s with
  | IOk t => if Z.eqb (t_id t) id then rc t else IOk (upd_below f id t)
  | x => x
  end.

Lemma gfold_below f rc L : forall t, ~ In (t_id t) L ->
  fold_left (gstep f rc) L (IOk t) = IOk (set_kids t (foldF f L (t_kids t))).
Proof.
  induction L as [|a r IH]; intros t H.
  - simpl. unfold foldF. simpl. rewrite set_kids_same. reflexivity.
  - simpl. destruct (Z.eqb_spec (t_id t) a) as [E|Hne]; [exfalso; apply H; left; symmetry; exact E|].
    rewrite IH.
    + unfold upd_below. rewrite t_kids_set_kids, set_kids_set_kids. reflexivity.
    + unfold upd_below. rewrite t_id_set_kids. intro Hi. apply H. right. exact Hi.
Qed.

Lemma gfold_err f rc L e t : fold_left (gstep f rc) L (IErr e t) = IErr e t.
Proof. induction L as [|a r IH]; simpl; [reflexivity | exact IH]. Qed.

Lemma rm_step_g e : rm_step e = gstep rm_f (fun t => IErr e t).
Proof. reflexivity. Qed.

Lemma p1_step_g lf intn taxa :
  p1_step lf intn taxa = gstep (p1_f lf intn taxa) (fun t => if p1_cond lf intn taxa t then IErr EAttr t else IOk t).
Proof. reflexivity. Qed.

(* ---------------------------------------------------------------------------------------- *)
(* prune_taxa, first loop                                                                   *)
(* ---------------------------------------------------------------------------------------- *)

Lemma p1_shrink lf intn taxa : ids_shrink (p1_f lf intn taxa).
Proof.
  intros n a. unfold p1_f. destruct (p1_cond lf intn taxa n); simpl; [contradiction|].
  rewrite app_nil_r. exact (fun H => H).
Qed.

Lemma phase1_eq lf intn taxa t : NoDup (ids t) ->
  prune_phase1 lf intn taxa t =
  let t1 := set_kids t (flat_map (recf (p1_f lf intn taxa)) (t_kids t)) in
  if p1_cond lf intn taxa t1 then IErr EAttr t1 else IOk t1.
Proof.
  intro Hnd. unfold prune_phase1. destruct t as [i x l e ks].
  rewrite post_ids_T, fold_left_app, p1_step_g.
  destruct (NoDup_ids_kids _ _ _ _ _ Hnd) as [Hk Hi].
  rewrite gfold_below; [|simpl; intro H; apply postF_in in H; exact (Hi H)].
  simpl t_kids. rewrite (post_fold_kids _ (p1_shrink lf intn taxa) ks Hk).
  simpl. rewrite Z.eqb_refl. reflexivity.
Qed.

(* ---------------------------------------------------------------------------------------- *)
(* one pass of the leaf-removal loop, and the loop                                          *)
(* ---------------------------------------------------------------------------------------- *)

Definition badleaf (bad : npred) (n : tree) : bool := is_leaf n && app_np bad n.

(* what the repeated passes converge to, below the seed *)
Fixpoint dropL (bad : npred) (t : tree) : list tree :=
  match t with
  | T i x l e ks =>
    let ks' := flat_map (dropL bad) ks in
    if is_nil ks' && bad i x then [] else [T i x l e ks']
  end.

Lemma dropL_T bad i x l e ks :
  dropL bad (T i x l e ks) =
  if is_nil (flat_map (dropL bad) ks) && bad i x then [] else [T i x l e (flat_map (dropL bad) ks)].
Proof. reflexivity. Qed.

Lemma leaves_T_cons i x l e k r : leaves (T i x l e (k :: r)) = flat_map leaves (k :: r).
Proof. reflexivity. Qed.

Lemma leaves_in_preorder : forall t n, In n (leaves t) -> In n (preorder t) /\ is_leaf n = true.
Proof.
  induction t as [i x l e ks IH] using tree_ind'. intros n Hn.
  destruct ks as [|k r].
  - simpl in Hn. destruct Hn as [<-|[]]. split; [left; reflexivity | reflexivity].
  - rewrite leaves_T_cons in Hn. apply in_flat_map in Hn. destruct Hn as [c [Hc Hn]].
    rewrite Forall_forall in IH. destruct (IH c Hc n Hn) as [H1 H2]. split; [|exact H2].
    apply (preorder_trans _ c); [apply kid_in_preorder; exact Hc | exact H1].
Qed.

Lemma preorder_leaf_in_leaves : forall t n, In n (preorder t) -> is_leaf n = true -> In n (leaves t).
Proof.
  induction t as [i x l e ks IH] using tree_ind'. intros n Hn Hl.
  rewrite preorder_T in Hn. destruct Hn as [<-|Hn].
  - destruct ks; [left; reflexivity | discriminate Hl].
  - apply in_flat_map in Hn. destruct Hn as [c [Hc Hn]].
    destruct ks as [|k r]; [destruct Hc|]. rewrite leaves_T_cons. apply in_flat_map. exists c. split; [exact Hc|].
    rewrite Forall_forall in IH. exact (IH c Hc n Hn Hl).
Qed.

(* the ids collected by `[nd for nd in leaf_node_iter() if bad(nd)]` identify exactly the bad leaves *)
Lemma rem_set_is_badleaf bad t : NoDup (ids t) ->
  forall n, In n (preorder t) ->
  in_set (map t_id (filter (app_np bad) (leaves t))) n = badleaf bad n.
Proof.
  intros Hnd n Hn. unfold in_set, badleaf.
  destruct (memz (t_id n) (map t_id (filter (app_np bad) (leaves t)))) eqn:E.
  - apply memz_In in E. apply in_map_iff in E. destruct E as [m [Hid Hm]].
    apply filter_In in Hm. destruct Hm as [Hm Hb]. apply leaves_in_preorder in Hm. destruct Hm as [Hm Hl].
    assert (m = n) by (apply (node_by_id t); assumption). subst m. rewrite Hl, Hb. reflexivity.
  - apply memz_false in E. destruct (is_leaf n) eqn:Hl; [|reflexivity]. simpl.
    destruct (app_np bad n) eqn:Hb; [|reflexivity]. exfalso. apply E. apply in_map. apply filter_In.
    split; [apply preorder_leaf_in_leaves; assumption | exact Hb].
Qed.

Definition rem_of (bad : npred) (t : tree) : list Z := map t_id (filter (app_np bad) (leaves t)).

Lemma pass_eq bad e t : NoDup (ids t) ->
  fold_left (rm_step e) (rem_of bad t) (IOk t) =
  if badleaf bad t then IErr e t else IOk (set_kids t (flat_map (rmQ (badleaf bad)) (t_kids t))).
Proof.
  intro Hnd. destruct (badleaf bad t) eqn:Hb.
  - (* the seed is itself a bad leaf: it is the only node *)
    unfold badleaf in Hb. apply andb_true_iff in Hb. destruct Hb as [Hl Hb].
    destruct t as [i x l e0 ks]. destruct ks; [|discriminate Hl].
    unfold rem_of. simpl. rewrite Hb. simpl. rewrite Z.eqb_refl. reflexivity.
  - rewrite rm_step_g, gfold_below.
    + rewrite rm_fold. f_equal. f_equal. apply flat_map_ext_in. intros k Hk.
      apply rmQ_ext. intros n Hn. apply (rem_set_is_badleaf bad t Hnd).
      destruct t as [i x l e0 ks]. apply (preorder_trans _ k); [apply kid_in_preorder; exact Hk | exact Hn].
    + intro Hi. unfold rem_of in Hi. apply in_map_iff in Hi. destruct Hi as [m [Hid Hm]].
      apply filter_In in Hm. destruct Hm as [Hm Hbm]. apply leaves_in_preorder in Hm. destruct Hm as [Hm Hl].
      assert (m = t) by (apply (node_by_id t); [exact Hnd | exact Hm | apply preorder_self | exact Hid]).
      subst m. unfold badleaf in Hb. rewrite Hl, Hbm in Hb. discriminate Hb.
Qed.

(* passes preserve what the loop converges to *)
Lemma dropL_pass bad : forall n, flat_map (dropL bad) (rmQ (badleaf bad) n) = dropL bad n.
Proof.
  induction n as [i x l e ks IH] using tree_ind'. simpl rmQ.
  destruct (badleaf bad (T i x l e ks)) eqn:Hb.
  - unfold badleaf in Hb. apply andb_true_iff in Hb. destruct Hb as [Hl Hb].
    destruct ks; [|discriminate Hl]. simpl. unfold app_np in Hb. simpl in Hb. rewrite Hb. reflexivity.
  - simpl flat_map. rewrite app_nil_r. rewrite !dropL_T. rewrite flat_map_flat_map.
    rewrite (flat_map_ext_in (fun a => flat_map (dropL bad) (rmQ (badleaf bad) a)) (dropL bad)); [reflexivity|].
    rewrite Forall_forall in IH. exact IH.
Qed.

Lemma filter_flat_map_nil {A B} (p : B -> bool) (f : A -> list B) l :
  filter p (flat_map f l) = [] -> forall a, In a l -> filter p (f a) = [].
Proof.
  induction l as [|x r IH]; simpl; intros H a Ha; [contradiction|].
  rewrite filter_app in H. apply app_eq_nil in H. destruct H as [H1 H2].
  destruct Ha as [<-|Ha]; [exact H1 | exact (IH H2 a Ha)].
Qed.

Lemma dropL_fix bad : forall n, filter (app_np bad) (leaves n) = [] -> dropL bad n = [n].
Proof.
  induction n as [i x l e ks IH] using tree_ind'. intro H.
  destruct ks as [|k r].
  - simpl in H. unfold app_np in H. simpl in H. simpl. destruct (bad i x); [discriminate H | reflexivity].
  - rewrite leaves_T_cons in H. rewrite dropL_T.
    rewrite (flat_map_ext_in (dropL bad) (fun a => [a]) (k :: r)).
    + rewrite flat_map_singleton. reflexivity.
    + intros a Ha. rewrite Forall_forall in IH. apply IH; [exact Ha|].
      exact (filter_flat_map_nil _ _ _ H a Ha).
Qed.

(* sizes *)
Lemma sizes_nil : sizes [] = 0%nat.
Proof. reflexivity. Qed.
Lemma sizes_single a : sizes [a] = size a.
Proof. rewrite sizes_cons, sizes_nil. lia. Qed.

Lemma sizes_flat_map_le (g : tree -> list tree) : forall F,
  (forall k, In k F -> (sizes (g k) <= size k)%nat) -> (sizes (flat_map g F) <= sizes F)%nat.
Proof.
  induction F as [|k r IH]; intro H; [simpl; lia|].
  simpl flat_map. rewrite sizes_app, sizes_cons.
  pose proof (H k (or_introl eq_refl)). assert (sizes (flat_map g r) <= sizes r)%nat.
  { apply IH. intros a Ha. apply H. right. exact Ha. }
  lia.
Qed.

Lemma sizes_flat_map_lt (g : tree -> list tree) : forall F,
  (forall k, In k F -> (sizes (g k) <= size k)%nat) ->
  (exists k, In k F /\ (sizes (g k) < size k)%nat) -> (sizes (flat_map g F) < sizes F)%nat.
Proof.
  induction F as [|k r IH]; intros H [a [Ha Hlt]]; [destruct Ha|].
  simpl flat_map. rewrite sizes_app, sizes_cons.
  pose proof (H k (or_introl eq_refl)).
  assert (Hr : forall k0, In k0 r -> (sizes (g k0) <= size k0)%nat) by (intros b Hb; apply H; right; exact Hb).
  pose proof (sizes_flat_map_le g r Hr).
  destruct Ha as [->|Ha]; [lia|].
  assert (sizes (flat_map g r) < sizes r)%nat by (apply IH; [exact Hr | exists a; split; assumption]). lia.
Qed.

Lemma sizes_rmQ_le1 q : forall t, (sizes (rmQ q t) <= size t)%nat.
Proof.
  induction t as [i x l e ks IH] using tree_ind'. simpl rmQ. destruct (q (T i x l e ks)).
  - rewrite sizes_nil. lia.
  - rewrite sizes_single, !size_eq. apply le_n_S. apply sizes_flat_map_le.
    rewrite Forall_forall in IH. exact IH.
Qed.

Lemma sizes_rmQ_le q F : (sizes (flat_map (rmQ q) F) <= sizes F)%nat.
Proof. apply sizes_flat_map_le. intros k _. apply sizes_rmQ_le1. Qed.

Lemma sizes_rmQ_lt1 q : forall t, (exists n, In n (preorder t) /\ q n = true) -> (sizes (rmQ q t) < size t)%nat.
Proof.
  induction t as [i x l e ks IH] using tree_ind'. intros [n [Hn Hq]]. simpl rmQ.
  destruct (q (T i x l e ks)) eqn:E.
  - rewrite sizes_nil. apply size_pos.
  - rewrite preorder_T in Hn. destruct Hn as [<-|Hn]; [rewrite Hq in E; discriminate E|].
    rewrite sizes_single, !size_eq. apply -> Nat.succ_lt_mono.
    apply in_flat_map in Hn. destruct Hn as [k [Hk Hn]].
    apply sizes_flat_map_lt; [intros a _; apply sizes_rmQ_le1|].
    exists k. split; [exact Hk|]. rewrite Forall_forall in IH. apply IH; [exact Hk|]. exists n. split; assumption.
Qed.

Lemma sizes_rmQ_lt q : forall F, (exists n, In n (flat_map preorder F) /\ q n = true) ->
  (sizes (flat_map (rmQ q) F) < sizes F)%nat.
Proof.
  intros F [n [Hn Hq]]. apply in_flat_map in Hn. destruct Hn as [k [Hk Hn]].
  apply sizes_flat_map_lt; [intros a _; apply sizes_rmQ_le1|].
  exists k. split; [exact Hk|]. apply sizes_rmQ_lt1. exists n. split; assumption.
Qed.

Lemma size_set_kids t ks : size (set_kids t ks) = S (sizes ks).
Proof. destruct t. reflexivity. Qed.

Lemma size_as_kids t : size t = S (sizes (t_kids t)).
Proof. destruct t. reflexivity. Qed.

Lemma idsF_single a : idsF [a] = ids a.
Proof. unfold idsF. simpl. apply app_nil_r. Qed.

(* ids of what rmQ leaves *)
Lemma rmQ_ids q : forall t a, In a (idsF (rmQ q t)) -> exists n, In n (preorder t) /\ t_id n = a /\ q n = false.
Proof.
  induction t as [i x l e ks IH] using tree_ind'. intros a Ha. simpl rmQ in Ha.
  destruct (q (T i x l e ks)) eqn:E; [destruct Ha|].
  rewrite idsF_single, ids_T in Ha. destruct Ha as [<-|Ha].
  - exists (T i x l e ks). split; [apply preorder_self | split; [reflexivity | exact E]].
  - unfold idsF in Ha. rewrite flat_map_flat_map in Ha. apply in_flat_map in Ha. destruct Ha as [k [Hk Ha]].
    rewrite Forall_forall in IH. destruct (IH k Hk a Ha) as [n [Hn [Hid Hq]]].
    exists n. split; [|split; assumption]. apply (preorder_trans _ k); [apply kid_in_preorder; exact Hk | exact Hn].
Qed.

Lemma rmQ_ids_sub q t a : In a (idsF (rmQ q t)) -> In a (ids t).
Proof. intro H. destruct (rmQ_ids q t a H) as [n [Hn [<- _]]]. apply preorder_in_ids. exact Hn. Qed.

Lemma rmQF_ids_sub q F a : In a (idsF (flat_map (rmQ q) F)) -> In a (idsF F).
Proof.
  unfold idsF. rewrite flat_map_flat_map. rewrite !in_flat_map. intros [k [Hk Ha]]. exists k. split; [exact Hk|].
  apply (rmQ_ids_sub q). exact Ha.
Qed.

Lemma NoDup_rmQ q : forall t, NoDup (ids t) -> NoDup (idsF (rmQ q t)).
Proof.
  induction t as [i x l e ks IH] using tree_ind'. intro Hnd. simpl rmQ.
  destruct (q (T i x l e ks)); [constructor|].
  rewrite idsF_single, ids_T.
  destruct (NoDup_ids_kids _ _ _ _ _ Hnd) as [Hk Hi].
  constructor.
  - intro H. apply Hi. apply (rmQF_ids_sub q). exact H.
  - clear Hi Hnd. induction ks as [|k r IHr]; [constructor|].
    inversion IH as [|? ? Pk Pr]; subst. rewrite idsF_cons in Hk.
    simpl flat_map. rewrite idsF_app. apply NoDup_app_intro.
    + apply Pk. exact (NoDup_app_l _ _ Hk).
    + apply IHr; [exact Pr | exact (NoDup_app_r _ _ Hk)].
    + intros a H1 H2. apply rmQ_ids_sub in H1. apply rmQF_ids_sub in H2. exact (NoDup_app_disj _ _ _ Hk H1 H2).
Qed.

Lemma NoDup_rmQF q F : NoDup (idsF F) -> NoDup (idsF (flat_map (rmQ q) F)).
Proof.
  induction F as [|k r IH]; intro H; [constructor|]. rewrite idsF_cons in H.
  simpl flat_map. rewrite idsF_app. apply NoDup_app_intro.
  - apply NoDup_rmQ. exact (NoDup_app_l _ _ H).
  - apply IH. exact (NoDup_app_r _ _ H).
  - intros a H1 H2. apply rmQ_ids_sub in H1. apply rmQF_ids_sub in H2. exact (NoDup_app_disj _ _ _ H H1 H2).
Qed.

Lemma NoDup_pass bad t : NoDup (ids t) -> NoDup (ids (set_kids t (flat_map (rmQ (badleaf bad)) (t_kids t)))).
Proof.
  intro H. rewrite ids_set_kids. rewrite ids_as_kids in H. inversion H as [|? ? Hn Hr]; subst. constructor.
  - intro Hi. apply Hn. apply (rmQF_ids_sub _ _ _ Hi).
  - apply NoDup_rmQF. exact Hr.
Qed.

(* the loop: error iff the seed ends up a bad leaf, otherwise the tree it converges to *)
Definition drop_root (bad : npred) (t : tree) : tree := set_kids t (flat_map (dropL bad) (t_kids t)).
Definition drop_fails (bad : npred) (t : tree) : bool :=
  is_nil (flat_map (dropL bad) (t_kids t)) && app_np bad t.

Lemma rem_nil_iff bad t : is_nil (rem_of bad t) = true -> filter (app_np bad) (leaves t) = [].
Proof. unfold rem_of. destruct (filter (app_np bad) (leaves t)); [reflexivity | discriminate]. Qed.

Lemma is_nil_true {A} (l : list A) : is_nil l = true -> l = [].
Proof. destruct l; [reflexivity | discriminate]. Qed.

Lemma leaves_kids_nil bad t :
  filter (app_np bad) (leaves t) = [] -> t_kids t <> [] ->
  forall k, In k (t_kids t) -> filter (app_np bad) (leaves k) = [].
Proof.
  destruct t as [i x l e ks]. simpl t_kids. intros H Hne k Hk. destruct ks as [|k0 r]; [contradiction|].
  rewrite leaves_T_cons in H. exact (filter_flat_map_nil _ _ _ H k Hk).
Qed.

Lemma lf_loop_S bad e rc fu t acc :
  lf_loop bad e rc (S fu) t acc =
  match fold_left (rm_step e) (rem_of bad t) (IOk t) with
  | IOk t' =>
    if is_nil (rem_of bad t) || negb rc then IOk (acc ++ rem_of bad t, t')
    else lf_loop bad e rc fu t' (acc ++ rem_of bad t)
  | IErr x t' => IErr x t'
  | IFuel => IFuel
  end.
Proof. reflexivity. Qed.

Lemma lf_loop_tree bad e : forall fuel t acc, (size t <= fuel)%nat -> NoDup (ids t) ->
  (drop_fails bad t = true -> lf_loop bad e true (S fuel) t acc = IErr e (set_kids t [])) /\
  (drop_fails bad t = false -> exists rem, lf_loop bad e true (S fuel) t acc = IOk (acc ++ rem, drop_root bad t)).
Proof.
  induction fuel as [|fu IH]; intros t acc Hsz Hnd.
  - pose proof (size_pos t). lia.
  - rewrite lf_loop_S. rewrite (pass_eq bad e t Hnd).
    destruct (badleaf bad t) eqn:Hb.
    + (* seed is a bad leaf now *)
      unfold badleaf in Hb. apply andb_true_iff in Hb. destruct Hb as [Hl Hbt].
      destruct t as [i x l e0 ks]. destruct ks; [|discriminate Hl].
      split; intro H; [reflexivity|]. unfold drop_fails in H. simpl in H. unfold app_np in Hbt. simpl in Hbt.
      unfold app_np in H. simpl in H. rewrite Hbt in H. discriminate H.
    + set (t' := set_kids t (flat_map (rmQ (badleaf bad)) (t_kids t))).
      assert (Hdk : flat_map (dropL bad) (t_kids t') = flat_map (dropL bad) (t_kids t)).
      { unfold t'. rewrite t_kids_set_kids, flat_map_flat_map.
        apply flat_map_ext_in. intros k _. apply dropL_pass. }
      assert (Hdf : drop_fails bad t' = drop_fails bad t).
      { unfold drop_fails. rewrite Hdk. unfold t', app_np. rewrite t_id_set_kids, t_taxon_set_kids. reflexivity. }
      assert (Hdr : drop_root bad t' = drop_root bad t).
      { unfold drop_root. rewrite Hdk. unfold t'. rewrite set_kids_set_kids. reflexivity. }
      destruct (is_nil (rem_of bad t)) eqn:Hrem; simpl orb; cbv iota.
      * (* nothing left to remove: converged *)
        apply rem_nil_iff in Hrem.
        assert (Hsame : flat_map (dropL bad) (t_kids t) = t_kids t).
        { destruct (t_kids t) as [|k0 r] eqn:Ek; [reflexivity|].
          rewrite (flat_map_ext_in (dropL bad) (fun a => [a])); [apply flat_map_singleton|].
          intros a Ha. apply dropL_fix. apply (leaves_kids_nil bad t Hrem); [rewrite Ek; discriminate | rewrite Ek; exact Ha]. }
        assert (Hsame2 : flat_map (rmQ (badleaf bad)) (t_kids t) = t_kids t).
        { rewrite (flat_map_ext_in (rmQ (badleaf bad)) (fun a => [a])); [apply flat_map_singleton|].
          intros a Ha. apply rmQ_none. intros n Hn. unfold badleaf.
          destruct (is_leaf n) eqn:Hl; [|reflexivity]. simpl.
          destruct (app_np bad n) eqn:Hbn; [|reflexivity]. exfalso.
          assert (Hin : In n (filter (app_np bad) (leaves t))).
          { apply filter_In. split; [|exact Hbn]. apply preorder_leaf_in_leaves; [|exact Hl].
            destruct t as [i x l e0 ks]. simpl in Ha. apply (preorder_trans _ a); [apply kid_in_preorder; exact Ha | exact Hn]. }
          rewrite Hrem in Hin. destruct Hin. }
        split; intro H.
        -- exfalso. unfold drop_fails in H. rewrite Hsame in H. apply andb_true_iff in H. destruct H as [H1 H2].
           apply is_nil_true in H1. unfold badleaf in Hb. destruct t as [i x l e0 ks]. simpl in H1. subst ks.
           simpl in Hb. rewrite H2 in Hb. discriminate Hb.
        -- exists []. unfold rem_of. rewrite Hrem. simpl. rewrite app_nil_r. unfold drop_root, t'. rewrite Hsame, Hsame2.
           rewrite set_kids_same. reflexivity.
      * (* some leaves removed: go round again on a smaller tree *)
        assert (Hlt : (size t' < size t)%nat).
        { unfold t'. rewrite size_set_kids, (size_as_kids t). apply -> Nat.succ_lt_mono.
          apply sizes_rmQ_lt.
          destruct (filter (app_np bad) (leaves t)) as [|m r] eqn:Ef; [unfold rem_of in Hrem; rewrite Ef in Hrem; discriminate Hrem|].
          assert (Hm : In m (filter (app_np bad) (leaves t))) by (rewrite Ef; left; reflexivity).
          apply filter_In in Hm. destruct Hm as [Hm Hbm]. apply leaves_in_preorder in Hm. destruct Hm as [Hm Hl].
          exists m. split.
          - destruct t as [i x l e0 ks]. rewrite preorder_T in Hm. destruct Hm as [<-|Hm]; [|exact Hm].
            unfold badleaf in Hb. rewrite Hl, Hbm in Hb. discriminate Hb.
          - unfold badleaf. rewrite Hl, Hbm. reflexivity. }
        assert (Hnd' : NoDup (ids t')) by (apply NoDup_pass; exact Hnd).
        destruct (IH t' (acc ++ rem_of bad t) ltac:(lia) Hnd') as [IH1 IH2].
        split; intro H.
        -- rewrite IH1; [|rewrite Hdf; exact H]. unfold t'. rewrite set_kids_set_kids. reflexivity.
        -- destruct IH2 as [rem Hr]; [rewrite Hdf; exact H|].
           exists (rem_of bad t ++ rem). rewrite Hr, Hdr, app_assoc. reflexivity.
Qed.

(* ---------------------------------------------------------------------------------------- *)
(* suppress_unifurcations                                                                   *)
(* ---------------------------------------------------------------------------------------- *)

Definition su_root (t : tree) : tree :=
  match t_kids t with
  | [c] => set_len c (merge_len (t_len t) (t_len c))
  | _ => t
  end.

Definition sut (t : tree) (id : Z) : tree :=
  if Z.eqb (t_id t) id then su_root t else upd_below su_f id t.

Lemma fst_su_fold L : forall s, fst (fold_left su_step L s) = fold_left sut L (fst s).
Proof.
  induction L as [|a r IH]; intros [t log]; [reflexivity|].
  simpl fold_left. rewrite IH. f_equal. unfold su_step, sut, su_root.
  destruct (Z.eqb (t_id t) a); [|reflexivity].
  destruct (t_kids t) as [|c [|c2 r2]]; reflexivity.
Qed.

Lemma sut_fold_below L : forall t, ~ In (t_id t) L ->
  fold_left sut L t = set_kids t (foldF su_f L (t_kids t)).
Proof.
  induction L as [|a r IH]; intros t H.
  - simpl. unfold foldF. simpl. rewrite set_kids_same. reflexivity.
  - simpl. unfold sut at 2. destruct (Z.eqb_spec (t_id t) a) as [E|Hne]; [exfalso; apply H; left; symmetry; exact E|].
    rewrite IH.
    + unfold upd_below. rewrite t_kids_set_kids, set_kids_set_kids. reflexivity.
    + unfold upd_below. rewrite t_id_set_kids. intro Hi. apply H. right. exact Hi.
Qed.

Lemma su_shrink : ids_shrink su_f.
Proof.
  intros n a. unfold su_f. destruct n as [i x l e ks]. simpl t_kids.
  destruct ks as [|c [|c2 r]]; rewrite idsF_single; try (exact (fun H => H)).
  rewrite ids_set_len. intro H. apply (ids_sub_kid i x l e [c] c); [left; reflexivity | exact H].
Qed.

Definition suL : tree -> list tree := recf su_f.

Lemma su_run_eq t : NoDup (ids t) ->
  fst (su_run t) = su_root (set_kids t (flat_map suL (t_kids t))).
Proof.
  intro Hnd. unfold su_run. rewrite fst_su_fold. simpl fst.
  destruct t as [i x l e ks]. rewrite post_ids_T, fold_left_app.
  destruct (NoDup_ids_kids _ _ _ _ _ Hnd) as [Hk Hi].
  rewrite (sut_fold_below (flat_map post_ids ks) (T i x l e ks)); [|simpl; intro H; apply postF_in in H; exact (Hi H)].
  simpl t_kids. rewrite (post_fold_kids _ su_shrink ks Hk).
  simpl. unfold sut. simpl. rewrite Z.eqb_refl. reflexivity.
Qed.

Lemma suL_T i x l e ks : suL (T i x l e ks) = su_f (T i x l e (flat_map suL ks)).
Proof. reflexivity. Qed.

Lemma su_f_single n : exists n', su_f n = [n'].
Proof.
  unfold su_f. destruct (t_kids n) as [|c [|c2 r]]; eexists; reflexivity.
Qed.

Lemma suL_single : forall n, exists n', suL n = [n'].
Proof. intro n. destruct n as [i x l e ks]. rewrite suL_T. apply su_f_single. Qed.

Lemma suL_length F : length (flat_map suL F) = length F.
Proof.
  induction F as [|k r IH]; [reflexivity|]. simpl. destruct (suL_single k) as [n' E]. rewrite E. simpl. rewrite IH. reflexivity.
Qed.
