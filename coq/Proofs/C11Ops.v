(* C11: preservation of the closure invariant by the tree / tree-list / matrix operations *)
From Coq Require Import List Bool Arith ZArith Lia.
From DV Require Import Model.PyPrims Model.C11Model Proofs.C11Base Proofs.C11Inv.
Import ListNotations.
Open Scope nat_scope.

Ltac inv H := inversion H; subst; clear H.

Definition NoX : oid -> Prop := fun _ => False.

(* every (non-exempt) list that holds tree object tr refers to namespace n *)
Definition Holders (XL : oid -> Prop) (st : state) (tr n : oid) : Prop :=
  forall i L, nth_error (s_lists st) i = Some L -> ~ XL i -> In tr (l_trees L) -> l_ns L = n.

Definition frame (st st' : state) : Prop :=
  s_lists st' = s_lists st /\ s_mats st' = s_mats st /\ s_dss st' = s_dss st
  /\ length (s_trees st') = length (s_trees st).

Lemma frame_refl : forall st, frame st st.
Proof. intro. repeat split. Qed.

Lemma frame_trans : forall a b c, frame a b -> frame b c -> frame a c.
Proof. intros a b c [A1 [A2 [A3 A4]]] [B1 [B2 [B3 B4]]]. repeat split; congruence. Qed.

Lemma grows_frame : forall st st', grows st st' -> frame st st'.
Proof. intros st st' [[T [L [M D]]] _]. repeat split; congruence. Qed.

Lemma set_tree_frame : forall st i t, frame st (set_tree st i t).
Proof. intros. repeat split. simpl. apply upd_length. Qed.

Lemma holders_ok_spec : forall XL st n tr, holders_ok st n tr = true -> Holders XL st tr n.
Proof.
  intros XL st n tr H i L E0 _ Hin. unfold holders_ok in H.
  assert (E : negb (memb tr (l_trees L)) || Nat.eqb (l_ns L) n = true).
  { apply (forallb_In _ _ _ L H). eapply nth_error_In. exact E0. }
  apply orb_true_iff in E. destruct E as [E|E].
  - apply negb_true_iff in E. apply memb_false in E. contradiction.
  - apply Nat.eqb_eq. exact E.
Qed.

Lemma Holders_frame : forall XL st st' tr n, s_lists st' = s_lists st -> Holders XL st tr n -> Holders XL st' tr n.
Proof. intros XL st st' tr n E H i L. rewrite E. apply H. Qed.

Lemma valid_tree_get : forall st i, valid_tree st i = true -> nth_error (s_trees st) i = Some (gettree st i).
Proof. intros. apply nth_nth_error. apply ltb_lt'. exact H. Qed.
Lemma valid_list_get : forall st i, valid_list st i = true -> nth_error (s_lists st) i = Some (getlist st i).
Proof. intros. apply nth_nth_error. apply ltb_lt'. exact H. Qed.
Lemma valid_mat_get : forall st i, valid_mat st i = true -> nth_error (s_mats st) i = Some (getmat st i).
Proof. intros. apply nth_nth_error. apply ltb_lt'. exact H. Qed.
Lemma valid_ds_get : forall st i, valid_ds st i = true -> nth_error (s_dss st) i = Some (getds st i).
Proof. intros. apply nth_nth_error. apply ltb_lt'. exact H. Qed.

Lemma lt_tree_get : forall st i, i < length (s_trees st) -> nth_error (s_trees st) i = Some (gettree st i).
Proof. intros. apply nth_nth_error. exact H. Qed.

Lemma gettree_some : forall st i t, nth_error (s_trees st) i = Some t -> gettree st i = t.
Proof. intros. apply nth_error_some_nth. exact H. Qed.
Lemma getlist_some : forall st i t, nth_error (s_lists st) i = Some t -> getlist st i = t.
Proof. intros. apply nth_error_some_nth. exact H. Qed.
Lemma getmat_some : forall st i t, nth_error (s_mats st) i = Some t -> getmat st i = t.
Proof. intros. apply nth_error_some_nth. exact H. Qed.
Lemma getds_some : forall st i t, nth_error (s_dss st) i = Some t -> getds st i = t.
Proof. intros. apply nth_error_some_nth. exact H. Qed.

Lemma gettree_set_same : forall st i t, i < length (s_trees st) -> gettree (set_tree st i t) i = t.
Proof.
  intros. apply gettree_some. simpl. destruct (nth_error (s_trees st) i) eqn:E.
  - eapply nth_error_upd_same. exact E.
  - apply nth_error_None in E. lia.
Qed.

Lemma gettree_set_other : forall st i t j, j <> i -> gettree (set_tree st i t) j = gettree st j.
Proof.
  intros. unfold gettree. simpl. destruct (nth_error (s_trees st) j) eqn:E.
  - erewrite nth_error_some_nth; [|rewrite nth_error_upd_other by exact H; exact E].
    symmetry. eapply nth_error_some_nth. exact E.
  - rewrite !nth_overflow; [reflexivity | apply nth_error_None; exact E |].
    rewrite upd_length. apply nth_error_None. exact E.
Qed.

Lemma gettree_same_trees : forall a b x, s_trees a = s_trees b -> gettree a x = gettree b x.
Proof. intros a b x E. unfold gettree. rewrite E. reflexivity. Qed.

(* what the members of a closed list look like *)
Lemma closed_member : forall XL XD st i L tr,
  ClosedX XL XD st -> nth_error (s_lists st) i = Some L -> ~ XL i -> In tr (l_trees L) ->
  tr < length (s_trees st) /\ t_ns (gettree st tr) = l_ns L.
Proof.
  intros XL XD st i L tr [_ [_ [C3 _]]] E NX Hin. destruct (C3 i L E) as [_ K].
  destruct (K NX tr Hin) as [t [Et N]]. split.
  - apply nth_error_Some. congruence.
  - rewrite (gettree_some _ _ _ Et). exact N.
Qed.

Lemma closed_holders : forall XL XD st tr,
  ClosedX XL XD st -> Holders XL st tr (t_ns (gettree st tr)).
Proof.
  intros XL XD st tr C i L E NX Hin. destruct (closed_member _ _ _ _ _ _ C E NX Hin) as [_ N]. symmetry. exact N.
Qed.

Lemma closed_tree_ok : forall XL XD st tr, ClosedX XL XD st -> tree_ok st (gettree st tr).
Proof.
  intros XL XD st tr [C1 _]. unfold gettree. destruct (nth_error (s_trees st) tr) eqn:E.
  - erewrite nth_error_some_nth by exact E. eapply C1. exact E.
  - rewrite nth_overflow by (apply nth_error_None; exact E). intros x [].
Qed.

Lemma closed_mat_ok : forall XL XD st m, ClosedX XL XD st -> mat_ok st (getmat st m).
Proof.
  intros XL XD st m [_ [C2 _]]. unfold getmat. destruct (nth_error (s_mats st) m) eqn:E.
  - erewrite nth_error_some_nth by exact E. eapply C2. exact E.
  - rewrite nth_overflow by (apply nth_error_None; exact E). intros x [].
Qed.

(* the attached-namespace clause for a list that keeps its namespace *)
Lemma ds_clause_list : forall XL XD st l L,
  ClosedX XL XD st -> nth_error (s_lists st) l = Some L ->
  forall i d, nth_error (s_dss st) i = Some d -> ~ XD i -> In l (d_lists d) ->
              forall a, d_att d = Some a -> l_ns L = a.
Proof.
  intros XL XD st l L [_ [_ [_ C4]]] E i d Ed NX Hin a Ha.
  destruct (C4 i d Ed) as [_ K]. destruct (K NX) as [K1 _]. destruct (K1 l Hin) as [L0 [E0 A]].
  rewrite E in E0. inv E0. apply A, Ha.
Qed.

Lemma ds_clause_mat : forall XL XD st m M,
  ClosedX XL XD st -> nth_error (s_mats st) m = Some M ->
  forall i d, nth_error (s_dss st) i = Some d -> ~ XD i -> In m (d_mats d) ->
              forall a, d_att d = Some a -> m_ns M = a.
Proof.
  intros XL XD st m M [_ [_ [_ C4]]] E i d Ed NX Hin a Ha.
  destruct (C4 i d Ed) as [_ K]. destruct (K NX) as [_ K2]. destruct (K2 m Hin) as [M0 [E0 A]].
  rewrite E in E0. inv E0. apply A, Ha.
Qed.

(* replacing a list by one with the same namespace whose members are fine *)
Lemma set_list_same_ns : forall XL XD st l L trs,
  ClosedX XL XD st -> nth_error (s_lists st) l = Some L ->
  (forall tr, In tr trs -> tr < length (s_trees st) /\ (~ XL l -> t_ns (gettree st tr) = l_ns L)) ->
  ClosedX XL XD (set_list st l (mkTL (l_ns L) trs)).
Proof.
  intros XL XD st l L trs C E H. apply set_list_closedX; [exact C | | |].
  - intros tr Htr. apply H, Htr.
  - intros NX tr Htr. destruct (H tr Htr) as [V N]. exists (gettree st tr). split; [apply lt_tree_get; exact V|].
    simpl. apply N, NX.
  - simpl. eapply ds_clause_list; eassumption.
Qed.

Section WithLower.
Variable lower : lbl -> lbl.

(* ---- single trees ---- *)
Lemma migrate_tree_spec : forall XL XD st tr n u memo,
  ClosedX XL XD st -> Holders XL st tr n ->
  let st' := fst (migrate_tree lower st tr n u memo) in
  ClosedX XL XD st' /\ frame st st' /\ mono st st'
  /\ (tr < length (s_trees st) -> t_ns (gettree st' tr) = n)
  /\ (forall x, x <> tr -> gettree st' x = gettree st x).
Proof.
  intros XL XD st tr n u memo C H. unfold migrate_tree.
  destruct (recon_refs lower st n u (t_refs (gettree st tr)) memo) as [[st1 refs'] memo'] eqn:R. simpl.
  destruct (recon_refs_spec _ _ _ _ _ _ _ _ _ R) as [G [I _]].
  pose proof (grows_frame _ _ G) as F. destruct F as [FL [FM [FD FT]]].
  split; [|split; [|split; [|split]]].
  - apply set_tree_closedX.
    + eapply grows_closedX; eassumption.
    + intros x Hx. simpl in *. apply I, Hx.
    + simpl. rewrite FL. exact H.
  - eapply frame_trans; [apply grows_frame; exact G | apply set_tree_frame].
  - intros k x Hx. simpl. apply G, Hx.
  - intro V. rewrite gettree_set_same by lia. reflexivity.
  - intros x Ne. rewrite gettree_set_other by exact Ne. apply gettree_same_trees. destruct G as [[T _] _]. exact T.
Qed.

Lemma update_tree_spec : forall XL XD st tr n,
  ClosedX XL XD st -> Holders XL st tr n ->
  let st' := update_tree st tr n in
  ClosedX XL XD st' /\ frame st st' /\ mono st st'
  /\ (tr < length (s_trees st) -> t_ns (gettree st' tr) = n)
  /\ (forall x, x <> tr -> gettree st' x = gettree st x).
Proof.
  intros XL XD st tr n C H. unfold update_tree.
  pose proof (add_members_grows (t_refs (gettree st tr)) st n) as G.
  pose proof (grows_frame _ _ G) as F. destruct F as [FL [FM [FD FT]]].
  split; [|split; [|split; [|split]]].
  - apply set_tree_closedX.
    + eapply grows_closedX; eassumption.
    + intros x Hx. simpl in *. apply add_members_In, Hx.
    + simpl. rewrite FL. exact H.
  - eapply frame_trans; [apply grows_frame; exact G | apply set_tree_frame].
  - intros k x Hx. simpl. apply G, Hx.
  - intro V. rewrite gettree_set_same by lia. reflexivity.
  - intros x Ne. rewrite gettree_set_other by exact Ne. apply gettree_same_trees. destruct G as [[T _] _]. exact T.
Qed.

Lemma import_tree_spec : forall XL XD st ln tr s,
  ClosedX XL XD st -> Holders XL st tr ln ->
  let st' := fst (import_tree lower st ln tr s) in
  ClosedX XL XD st' /\ frame st st' /\ mono st st'
  /\ (snd (import_tree lower st ln tr s) = true -> tr < length (s_trees st) -> t_ns (gettree st' tr) = ln)
  /\ (forall x, t_ns (gettree st x) = ln -> t_ns (gettree st' x) = ln)
  /\ (forall x, x <> tr -> gettree st' x = gettree st x).
Proof.
  intros XL XD st ln tr s C H. unfold import_tree.
  destruct (Nat.eqb (t_ns (gettree st tr)) ln) eqn:E.
  - apply Nat.eqb_eq in E. simpl.
    split; [exact C|]. split; [apply frame_refl|]. split; [intros k x Hx; exact Hx|].
    split; [intros _ _; exact E|]. split; intros; auto.
  - destruct s as [u| |]; cbn [fst snd].
    + destruct (migrate_tree_spec XL XD st tr ln u [] C H) as [C' [F [M [N K]]]].
      split; [exact C'|]. split; [exact F|]. split; [exact M|]. split; [intros _; exact N|]. split; [|exact K].
      intros x Hx. destruct (Nat.eq_dec x tr) as [Eq|Ne].
      * subst x. apply Nat.eqb_neq in E. congruence.
      * rewrite K by exact Ne. exact Hx.
    + destruct (update_tree_spec XL XD st tr ln C H) as [C' [F [M [N K]]]].
      split; [exact C'|]. split; [exact F|]. split; [exact M|]. split; [intros _; exact N|]. split; [|exact K].
      intros x Hx. destruct (Nat.eq_dec x tr) as [Eq|Ne].
      * subst x. apply Nat.eqb_neq in E. congruence.
      * rewrite K by exact Ne. exact Hx.
    + split; [exact C|]. split; [apply frame_refl|]. split; [intros k x Hx; exact Hx|].
      split; [intro D; discriminate|]. split; intros; auto.
Qed.


(* ---- loop frame: what a tree-list operation may change besides the trees it re-homes ---- *)
(* every list of st' is an unchanged list of st or refers to namespace n *)
Definition lists_n (st st' : state) (n : oid) : Prop :=
  length (s_lists st) <= length (s_lists st') /\
  forall j L', nth_error (s_lists st') j = Some L' -> l_ns L' = n \/ nth_error (s_lists st) j = Some L'.

Definition lframe (st st' : state) (n : oid) : Prop :=
  lists_n st st' n /\ s_mats st' = s_mats st /\ s_dss st' = s_dss st
  /\ length (s_trees st) <= length (s_trees st') /\ mono st st'.

Lemma lists_n_refl : forall st n, lists_n st st n.
Proof. intros. split; [lia | intros j L' H; right; exact H]. Qed.

Lemma lframe_refl : forall st n, lframe st st n.
Proof. intros. split; [apply lists_n_refl|]. repeat split; auto. intros k x H; exact H. Qed.

Lemma lframe_trans : forall a b c n, lframe a b n -> lframe b c n -> lframe a c n.
Proof.
  intros a b c n [[A0 A1] [A2 [A3 [A4 A5]]]] [[B0 B1] [B2 [B3 [B4 B5]]]].
  split; [split; [lia|]|].
  - intros j L' H. destruct (B1 j L' H) as [E|E]; [left; exact E | apply A1, E].
  - split; [congruence|]. split; [congruence|]. split; [lia|]. intros k x H. apply B5, A5, H.
Qed.

Lemma frame_lframe : forall st st' n, frame st st' -> mono st st' -> lframe st st' n.
Proof.
  intros st st' n [FL [FM [FD FT]]] M. split; [|repeat split; auto; lia].
  split; [rewrite FL; lia|]. intros j L' H. right. rewrite <- FL. exact H.
Qed.

Lemma Holders_lframe : forall XL st st' tr n, lframe st st' n -> Holders XL st tr n -> Holders XL st' tr n.
Proof.
  intros XL st st' tr n [[_ A1] _] H j L' E NX Hin. destruct (A1 j L' E) as [K|K]; [exact K|].
  eapply H; eassumption.
Qed.

Lemma lframe_getlist_ns : forall st st' l n,
  lframe st st' n -> l < length (s_lists st) -> l_ns (getlist st l) = n -> l_ns (getlist st' l) = n.
Proof.
  intros st st' l n [[A0 A1] _] V E.
  assert (V' : l < length (s_lists st')) by lia.
  pose proof (nth_nth_error _ (s_lists st') l dlist V') as G. fold (getlist st' l) in G.
  destruct (A1 _ _ G) as [K|K]; [exact K|]. rewrite <- E. f_equal. symmetry. apply getlist_some. exact K.
Qed.

Lemma list_push_spec : forall XL XD st l tr,
  ClosedX XL XD st -> l < length (s_lists st) -> tr < length (s_trees st) ->
  (~ XL l -> t_ns (gettree st tr) = l_ns (getlist st l)) ->
  ClosedX XL XD (list_push st l tr) /\ lframe st (list_push st l tr) (l_ns (getlist st l)).
Proof.
  intros XL XD st l tr C V Vt N. unfold list_push.
  pose proof (nth_nth_error _ (s_lists st) l dlist V) as G. fold (getlist st l) in G. split.
  - apply set_list_same_ns with (L := getlist st l); [exact C | exact G |].
    intros x Hx. apply in_app_or in Hx. destruct Hx as [Hx|[Hx|[]]].
    + destruct C as [_ [_ [C3 _]]]. destruct (C3 _ _ G) as [W K]. split; [apply W, Hx|].
      intro NX. destruct (K NX x Hx) as [t [Et Nt]]. rewrite (gettree_some _ _ _ Et). exact Nt.
    + subst x. split; [exact Vt | exact N].
  - split; [|repeat split; simpl; auto; intros k x H; exact H].
    split; [simpl; rewrite upd_length; lia|]. intros j L' H. simpl in H.
    apply nth_error_upd_inv in H. destruct H as [[_ E]|[_ E]]; [left; subst; reflexivity | right; exact E].
Qed.

Lemma append_tree_spec : forall XL XD st l tr s,
  ClosedX XL XD st -> l < length (s_lists st) -> tr < length (s_trees st) ->
  Holders XL st tr (l_ns (getlist st l)) ->
  let st' := fst (append_tree lower st l tr s) in
  ClosedX XL XD st' /\ lframe st st' (l_ns (getlist st l)).
Proof.
  intros XL XD st l tr s C V Vt H. unfold append_tree.
  destruct (import_tree_spec XL XD st (l_ns (getlist st l)) tr s C H) as [C1 [F [M [N [_ _]]]]].
  destruct (import_tree lower st (l_ns (getlist st l)) tr s) as [st1 ok] eqn:I. simpl in *.
  destruct ok; simpl.
  - destruct F as [FL [FM [FD FT]]].
    assert (GL : getlist st1 l = getlist st l) by (unfold getlist; rewrite FL; reflexivity).
    destruct (list_push_spec XL XD st1 l tr C1) as [C2 LF].
    + rewrite FL. exact V.
    + lia.
    + intros _. rewrite GL. apply N; [reflexivity | exact Vt].
    + split; [exact C2|]. rewrite GL in LF.
      exact (lframe_trans st st1 _ _ (frame_lframe st st1 _ (conj FL (conj FM (conj FD FT))) M) LF).
  - split; [exact C1|]. apply frame_lframe; assumption.
Qed.

Lemma append_all_spec : forall trs XL XD st l,
  ClosedX XL XD st -> l < length (s_lists st) ->
  (forall tr, In tr trs -> tr < length (s_trees st) /\ Holders XL st tr (l_ns (getlist st l))) ->
  ClosedX XL XD (append_all lower st l trs) /\ lframe st (append_all lower st l trs) (l_ns (getlist st l)).
Proof.
  induction trs as [|tr r IH]; intros XL XD st l C V H; simpl.
  - split; [exact C | apply lframe_refl].
  - destruct (H tr (or_introl eq_refl)) as [Vt Ht].
    destruct (append_tree_spec XL XD st l tr (SMigrate true) C V Vt Ht) as [C1 LF1].
    set (st1 := fst (append_tree lower st l tr (SMigrate true))) in *.
    assert (E : l_ns (getlist st1 l) = l_ns (getlist st l)) by (eapply lframe_getlist_ns; [exact LF1 | exact V | reflexivity]).
    destruct (IH XL XD st1 l C1) as [C2 LF2].
    + destruct LF1 as [[A0 _] _]. lia.
    + intros x Hx. destruct (H x (or_intror Hx)) as [Vx Hx']. split.
      * destruct LF1 as [_ [_ [_ [T _]]]]. lia.
      * rewrite E. eapply Holders_lframe; eassumption.
    + split; [exact C2|]. rewrite E in LF2. eapply lframe_trans; eassumption.
Qed.

Lemma import_migrate_ok : forall st n tr u, snd (import_tree lower st n tr (SMigrate u)) = true.
Proof. intros. unfold import_tree. destruct (Nat.eqb (t_ns (gettree st tr)) n); reflexivity. Qed.

Lemma import_all_spec : forall trs XL XD st n,
  ClosedX XL XD st ->
  (forall tr, In tr trs -> tr < length (s_trees st) /\ Holders XL st tr n) ->
  let st' := import_all lower st n trs in
  ClosedX XL XD st' /\ frame st st' /\ mono st st'
  /\ (forall x, t_ns (gettree st x) = n -> t_ns (gettree st' x) = n)
  /\ (forall tr, In tr trs -> t_ns (gettree st' tr) = n).
Proof.
  induction trs as [|tr r IH]; intros XL XD st n C H; simpl.
  - split; [exact C|]. split; [apply frame_refl|]. split; [intros k x Hx; exact Hx|].
    split; [intros x Hx; exact Hx | intros tr []].
  - destruct (H tr (or_introl eq_refl)) as [Vt Ht].
    destruct (import_tree_spec XL XD st n tr (SMigrate true) C Ht) as [C1 [F [M [N [Keep _]]]]].
    set (st1 := fst (import_tree lower st n tr (SMigrate true))) in *.
    destruct (IH XL XD st1 n C1) as [C2 [F2 [M2 [Keep2 N2]]]].
    + intros x Hx. destruct (H x (or_intror Hx)) as [Vx Hx']. destruct F as [FL [_ [_ FT]]]. split; [lia|].
      eapply Holders_frame; eassumption.
    + split; [exact C2|]. split; [eapply frame_trans; eassumption|].
      split; [intros k x Hx; apply M2, M, Hx|].
      split; [intros x Hx; apply Keep2, Keep, Hx|].
      intros x [Hx|Hx]; [|apply N2, Hx]. subst x. apply Keep2. apply N; [apply import_migrate_ok | exact Vt].
Qed.

(* ---- cloning ---- *)
Lemma alookup_idmap : forall x ms, In x ms -> alookup x (map (fun y => (y, y)) ms) = Some x.
Proof.
  intros x ms. induction ms as [|y r IH]; intro H; [contradiction|]. simpl.
  destruct (Nat.eqb x y) eqn:E; [apply Nat.eqb_eq in E; subst; reflexivity|].
  apply IH. destruct H as [H|H]; [subst; rewrite Nat.eqb_refl in E; discriminate | exact H].
Qed.

Lemma clone_tree_spec : forall XL XD st tr n,
  ClosedX XL XD st ->
  let st' := fst (clone_tree lower st tr n) in
  let c := snd (clone_tree lower st tr n) in
  ClosedX XL XD st' /\ c = length (s_trees st) /\ length (s_trees st') = S (length (s_trees st))
  /\ s_lists st' = s_lists st /\ s_mats st' = s_mats st /\ s_dss st' = s_dss st /\ mono st st'
  /\ t_ns (gettree st' c) = n
  /\ (forall x, x < length (s_trees st) -> gettree st' x = gettree st x).
Proof.
  intros XL XD st tr n C. unfold clone_tree.
  pose proof (closed_tree_ok XL XD st tr C) as OK.
  set (t0 := gettree st tr) in *.
  assert (Hm : exists st1 memo, (if Nat.eqb (t_ns t0) n then (st, map (fun x => (x, x)) (members st (t_ns t0)))
                      else clone_memo lower st n (members st (t_ns t0)) []) = (st1, memo)
               /\ grows st st1
               /\ forall x, In x (t_refs t0) -> exists t, alookup x memo = Some t /\ In t (members st1 n)).
  { destruct (Nat.eqb (t_ns t0) n) eqn:E.
    - apply Nat.eqb_eq in E. exists st, (map (fun x => (x, x)) (members st (t_ns t0))).
      split; [reflexivity|]. split; [apply grows_refl|]. intros x Hx. exists x.
      split; [apply alookup_idmap, OK, Hx | rewrite <- E; apply OK, Hx].
    - destruct (clone_memo lower st n (members st (t_ns t0)) []) as [st1 memo] eqn:Q.
      exists st1, memo. split; [reflexivity|].
      destruct (clone_memo_spec lower _ _ _ _ _ _ Q) as [G [I [Cov _]]]; [intros x t A; discriminate|].
      split; [exact G|]. intros x Hx. destruct (Cov x (OK x Hx)) as [t A]. exists t. split; [exact A | eapply I; exact A]. }
  destruct Hm as [st1 [memo [Q [G Cov]]]]. rewrite Q.
  destruct (clone_refs_covered n (t_refs t0) st1 memo Cov) as [refs' [R I]]. rewrite R. simpl.
  pose proof (grows_closedX XL XD st st1 G C) as C1.
  destruct G as [[T [L [M D]]] Mo].
  split; [|split; [|split; [|split; [|split; [|split; [|split; [|split]]]]]]].
  - apply alloc_tree_closedX; [exact C1|].
    intros x Hx. simpl in *. apply I, Hx.
  - rewrite T. reflexivity.
  - rewrite app_length. simpl. rewrite T. lia.
  - exact L.
  - exact M.
  - exact D.
  - intros k x Hx. apply Mo, Hx.
  - unfold gettree. simpl. rewrite app_nth2 by lia. rewrite Nat.sub_diag. reflexivity.
  - intros x Vx. unfold gettree. simpl. rewrite T. rewrite app_nth1 by exact Vx. reflexivity.
Qed.

Lemma clone_push_all_spec : forall trs XL XD st l,
  ClosedX XL XD st -> l < length (s_lists st) ->
  ClosedX XL XD (clone_push_all lower st l trs) /\ lframe st (clone_push_all lower st l trs) (l_ns (getlist st l)).
Proof.
  induction trs as [|tr r IH]; intros XL XD st l C V; simpl.
  - split; [exact C | apply lframe_refl].
  - destruct (clone_tree_spec XL XD st tr (l_ns (getlist st l)) C) as [C1 [Ec [LT [FL [FM [FD [Mo [N _]]]]]]]].
    destruct (clone_tree lower st tr (l_ns (getlist st l))) as [st1 c] eqn:Q. simpl in *.
    assert (GL : getlist st1 l = getlist st l) by (unfold getlist; rewrite FL; reflexivity).
    destruct (list_push_spec XL XD st1 l c C1) as [C2 LF2].
    + rewrite FL. exact V.
    + lia.
    + intros _. rewrite GL. exact N.
    + rewrite GL in LF2.
      assert (LF1 : lframe st st1 (l_ns (getlist st l))).
      { split; [split; [rewrite FL; lia | intros j L' H; right; rewrite <- FL; exact H]|].
        repeat split; auto. lia. }
      set (st2 := list_push st1 l c) in *.
      assert (E : l_ns (getlist st2 l) = l_ns (getlist st l)).
      { eapply lframe_getlist_ns; [eapply lframe_trans; eassumption | exact V | reflexivity]. }
      destruct (IH XL XD st2 l C2) as [C3 LF3].
      * destruct LF2 as [[A0 _] _]. rewrite FL in A0. lia.
      * split; [exact C3|]. rewrite E in LF3. eapply lframe_trans; [eapply lframe_trans; eassumption | exact LF3].
Qed.

Lemma clone_all_spec : forall trs XL XD st n (acc : list oid),
  ClosedX XL XD st ->
  (forall c : oid, In c acc -> c < length (s_trees st) /\ t_ns (gettree st c) = n) ->
  let st' := fst (clone_all lower st n trs acc) in
  let cs := snd (clone_all lower st n trs acc) in
  ClosedX XL XD st' /\ s_lists st' = s_lists st /\ s_mats st' = s_mats st /\ s_dss st' = s_dss st
  /\ mono st st' /\ length (s_trees st) <= length (s_trees st')
  /\ (forall x : oid, x < length (s_trees st) -> gettree st' x = gettree st x)
  /\ (forall c : oid, In c cs -> c < length (s_trees st') /\ t_ns (gettree st' c) = n).
Proof.
  induction trs as [|tr r IH]; intros XL XD st n acc C Hacc; cbn [clone_all].
  - cbn [fst snd]. split; [exact C|]. split; [reflexivity|]. split; [reflexivity|]. split; [reflexivity|].
    split; [intros k x H; exact H|]. split; [lia|]. split; [reflexivity | exact Hacc].
  - destruct (clone_tree_spec XL XD st tr n C) as [C1 [Ec [LT [FL [FM [FD [Mo [N Old]]]]]]]].
    destruct (clone_tree lower st tr n) as [st1 c] eqn:Q. cbn [fst snd] in *.
    destruct (IH XL XD st1 n (acc ++ [c]) C1) as [C2 [L2 [M2 [D2 [Mo2 [T2 [Old2 N2]]]]]]].
    + intros x Hx. apply in_app_or in Hx. destruct Hx as [Hx|[Hx|[]]].
      * destruct (Hacc x Hx) as [Vx Nx]. split; [lia|]. rewrite Old by exact Vx. exact Nx.
      * subst x. split; [lia | exact N].
    + split; [exact C2|]. split; [exact (eq_trans L2 FL)|]. split; [exact (eq_trans M2 FM)|]. split; [exact (eq_trans D2 FD)|].
      split; [intros k x Hx; apply Mo2, Mo, Hx|]. split; [lia|]. split; [|exact N2].
      intros x Vx. rewrite Old2 by lia. apply Old, Vx.
Qed.

End WithLower.
