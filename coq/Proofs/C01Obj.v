(* C01, object level: every encoding creates its Bipartition objects; what an earlier encoding returned
   keeps its objects and their masks under every later operation on the tree (Model/C01ObjModel.v). *)
From Coq Require Import ZArith List Bool Lia.
From DV Require Import Model.PyPrims Model.Tree Gen.BitFns Model.C01Model Model.C01GenPrims Model.C01ObjModel
  Proofs.C01Bits Proofs.C01Enc Proofs.C01Flags.
Import ListNotations.
Open Scope Z_scope.

(* ------------------------------------------------------------------------------------------ *)
(* heap primitives                                                                             *)

Lemma st_get_cons k b s c : st_get ((k, b) :: s) c = if Z.eqb k c then Some b else st_get s c.
Proof. reflexivity. Qed.

Lemma oh_write_next c f h : oh_next (oh_write c f h) = oh_next h.
Proof. unfold oh_write. destruct (st_get (oh_store h) c); reflexivity. Qed.

Lemma oh_write_emap c f h : oh_emap (oh_write c f h) = oh_emap h.
Proof. unfold oh_write. destruct (st_get (oh_store h) c); reflexivity. Qed.

Lemma oh_write_other c f h c' : c' <> c -> st_get (oh_store (oh_write c f h)) c' = st_get (oh_store h) c'.
Proof.
  intro N. unfold oh_write. destruct (st_get (oh_store h) c) eqn:E; [| reflexivity].
  cbn [oh_store]. rewrite st_get_cons. destruct (Z.eqb_spec c c'); [congruence | reflexivity].
Qed.

Lemma oh_write_same c f h : st_get (oh_store (oh_write c f h)) c = option_map f (st_get (oh_store h) c).
Proof.
  unfold oh_write. destruct (st_get (oh_store h) c) eqn:E; cbn [option_map].
  - cbn [oh_store]. rewrite st_get_cons, Z.eqb_refl. reflexivity.
  - exact E.
Qed.

Lemma oh_write_slot c f h k : oh_slot (oh_write c f h) k = oh_slot h k.
Proof. unfold oh_slot. rewrite oh_write_emap. reflexivity. Qed.

(* every reference held by an edge and every allocated cell is below oh_next *)
Definition hwf (h : oheap) : Prop :=
  (forall k c, em_get (oh_emap h) k = Some c -> c < oh_next h) /\
  (forall c b, st_get (oh_store h) c = Some b -> c < oh_next h).

Lemma hwf_write c f h : hwf h -> hwf (oh_write c f h).
Proof.
  intros [A B]. split.
  - intros k c'. rewrite oh_write_emap, oh_write_next. apply A.
  - intros c' b. rewrite oh_write_next. destruct (Z.eq_dec c' c) as [-> | N].
    + rewrite oh_write_same. destruct (st_get (oh_store h) c) eqn:E; cbn [option_map]; [| discriminate].
      intros _. exact (B _ _ E).
    + rewrite (oh_write_other c f h c' N). apply B.
Qed.

(* ------------------------------------------------------------------------------------------ *)
(* first pass: one NEW object per retained edge                                                *)

Definition first_obj (r : option bool) (ls : Z) : bip := set_b_rooted r (set_b_leafset (Some ls) init_obj).

Lemma first_pass_edge_facts r h e :
  let h' := first_pass_edge r h e in
  oh_next h' = oh_next h + 1 /\
  oh_emap h' = (fst e, oh_next h) :: oh_emap h /\
  (forall c, c <> oh_next h -> st_get (oh_store h') c = st_get (oh_store h) c) /\
  st_get (oh_store h') (oh_next h) = Some (first_obj r (fst (snd e))).
Proof.
  unfold first_pass_edge, oh_alloc. cbv zeta.
  set (c := oh_next h).
  set (h1 := mkOH ((c, init_obj) :: oh_store h) (c + 1) (oh_emap h)).
  set (h2 := oh_bind (fst e) c h1).
  assert (G2 : st_get (oh_store h2) c = Some init_obj).
  { unfold h2, oh_bind, h1. cbn [oh_store]. rewrite st_get_cons, Z.eqb_refl. reflexivity. }
  repeat split.
  - rewrite !oh_write_next. reflexivity.
  - rewrite !oh_write_emap. reflexivity.
  - intros c' N. rewrite !oh_write_other by exact N. unfold h2, oh_bind, h1. cbn [oh_store].
    rewrite st_get_cons. destruct (Z.eqb_spec c c'); [congruence | reflexivity].
  - rewrite !oh_write_same, G2. reflexivity.
Qed.

Lemma hwf_first_pass_edge r h e : hwf h -> hwf (first_pass_edge r h e).
Proof.
  intros [A B]. destruct (first_pass_edge_facts r h e) as (N & M & F & S).
  split.
  - intros k c. rewrite M, N. cbn [em_get]. destruct (Z.eqb (fst e) k).
    + intro E. injection E as <-. lia.
    + intro E. specialize (A _ _ E). lia.
  - intros c b. rewrite N. destruct (Z.eq_dec c (oh_next h)) as [-> | NE]; [lia |].
    rewrite (F c NE). intro E. specialize (B _ _ E). lia.
Qed.

Lemma em_get_cons a b m k : em_get ((a, b) :: m) k = if Z.eqb a k then Some b else em_get m k.
Proof. reflexivity. Qed.

Lemma first_pass_fold r : forall entries h,
  let h1 := fold_left (first_pass_edge r) entries h in
  oh_next h1 = oh_next h + Z.of_nat (length entries) /\
  (forall c, c < oh_next h -> st_get (oh_store h1) c = st_get (oh_store h) c) /\
  (forall e, In e entries -> exists c, oh_slot h1 (fst e) = Some c /\ oh_next h <= c < oh_next h1) /\
  (forall k, ~ In k (map fst entries) -> oh_slot h1 k = oh_slot h k) /\
  (hwf h -> hwf h1).
Proof.
  induction entries as [|e0 q IH]; intro h; cbv zeta.
  - cbn [fold_left length map]. split; [cbn; lia |]. split; [reflexivity |]. split; [intros e [] |].
    split; [reflexivity | tauto].
  - cbn [fold_left]. destruct (first_pass_edge_facts r h e0) as (N0 & M0 & F0 & S0).
    specialize (IH (first_pass_edge r h e0)). cbv zeta in IH. destruct IH as (N & F & S & U & W).
    set (h1 := fold_left (first_pass_edge r) q (first_pass_edge r h e0)) in *.
    assert (NN : oh_next h1 = oh_next h + Z.of_nat (length (e0 :: q))).
    { rewrite N, N0. cbn [length]. lia. }
    split; [exact NN |]. split; [| split; [| split]].
    + intros c Hc. rewrite F by lia. apply F0. lia.
    + intros e [<- | He].
      * destruct (in_dec Z.eq_dec (fst e0) (map fst q)) as [I | NI].
        -- apply in_map_iff in I. destruct I as (e' & Ef & He'). destruct (S e' He') as (c & Sc & Rc).
           exists c. rewrite <- Ef. split; [exact Sc | lia].
        -- exists (oh_next h). rewrite (U _ NI). unfold oh_slot. rewrite M0, em_get_cons, Z.eqb_refl.
           split; [reflexivity | lia].
      * destruct (S e He) as (c & Sc & Rc). exists c. split; [exact Sc | lia].
    + intros k NI. cbn [map] in NI. rewrite U by (intro I; apply NI; right; exact I).
      unfold oh_slot. rewrite M0, em_get_cons. destruct (Z.eqb_spec (fst e0) k) as [E | _]; [| reflexivity].
      exfalso. apply NI. left. exact E.
    + intro Hw. apply W. apply hwf_first_pass_edge. exact Hw.
Qed.

(* ------------------------------------------------------------------------------------------ *)
(* second pass: the object bound to each edge is compiled in place and returned                 *)

Definition slot_cells (h : oheap) (entries : list (Z * (Z * Z))) : list Z :=
  flat_map (fun e => match oh_slot h (fst e) with Some c => [c] | None => [] end) entries.

Lemma second_pass_fold mut tm : forall entries h acc0,
  let hc := fold_left (second_pass_edge mut tm) entries (h, acc0) in
  oh_next (fst hc) = oh_next h /\ oh_emap (fst hc) = oh_emap h /\
  snd hc = acc0 ++ slot_cells h entries /\
  (forall c, ~ In c (slot_cells h entries) -> st_get (oh_store (fst hc)) c = st_get (oh_store h) c) /\
  (hwf h -> hwf (fst hc)).
Proof.
  induction entries as [|e q IH]; intros h acc0; cbv zeta.
  - cbn [fold_left fst snd slot_cells flat_map]. rewrite app_nil_r.
    split; [reflexivity |]. split; [reflexivity |]. split; [reflexivity |]. split; [intros; reflexivity | tauto].
  - cbn [fold_left].
    replace (second_pass_edge mut tm (h, acc0) e) with
      (match oh_slot h (fst e) with
       | Some c => (oh_write c (compiled_obj mut tm) h, acc0 ++ [c])
       | None => (h, acc0)
       end) by reflexivity.
    unfold slot_cells. cbn [flat_map]. fold (slot_cells h q).
    destruct (oh_slot h (fst e)) as [c|] eqn:E.
    + specialize (IH (oh_write c (compiled_obj mut tm) h) (acc0 ++ [c])). cbv zeta in IH.
      destruct IH as (N & M & C & F & W).
      assert (SC : slot_cells (oh_write c (compiled_obj mut tm) h) q = slot_cells h q).
      { unfold slot_cells. apply flat_map_ext. intro a. rewrite oh_write_slot. reflexivity. }
      rewrite SC in *. split; [| split; [| split; [| split]]].
      * rewrite N. apply oh_write_next.
      * rewrite M. apply oh_write_emap.
      * rewrite C, <- app_assoc. reflexivity.
      * intros c' NI. rewrite F by (intro I; apply NI; apply in_or_app; right; exact I).
        apply oh_write_other. intros ->. apply NI. left. reflexivity.
      * intro Hw. apply W. apply hwf_write. exact Hw.
    + cbn [app]. apply IH.
Qed.

(* ------------------------------------------------------------------------------------------ *)
(* encode_bipartitions at the object level                                                     *)

Definition owf (s : otree) : Prop :=
  hwf (ot_heap s) /\
  (forall l, In l (ot_saved s) -> forall c, In c l -> c < oh_next (ot_heap s)) /\
  (forall l, ot_stored s = Some l -> forall c, In c l -> c < oh_next (ot_heap s)).

Lemma slot_cells_range r entries h :
  let h1 := fold_left (first_pass_edge r) entries h in
  forall c, In c (slot_cells h1 entries) -> oh_next h <= c < oh_next h1.
Proof.
  cbv zeta. intros c I. unfold slot_cells in I. apply in_flat_map in I. destruct I as (e & He & Ic).
  destruct (first_pass_fold r entries h) as (_ & _ & S & _). destruct (S e He) as (c' & Sc & Rc).
  rewrite Sc in Ic. destruct Ic as [<- | []]. exact Rc.
Qed.

Lemma obj_encode_facts su cb ss mut acc s :
  let s' := obj_encode su cb ss mut acc s in
  let R := encode_f su cb acc (ot_rooted s) (ot_tree s) in
  exists cells,
    ot_saved s' = ot_saved s ++ [cells] /\
    ot_stored s' = (if ss then None else Some cells) /\
    ot_tree s' = r_tree R /\ ot_rooted s' = r_rooted R /\
    oh_next (ot_heap s') = oh_next (ot_heap s) + Z.of_nat (length (r_edges R)) /\
    (forall c, In c cells -> oh_next (ot_heap s) <= c < oh_next (ot_heap s')) /\
    (forall c, c < oh_next (ot_heap s) -> st_get (oh_store (ot_heap s')) c = st_get (oh_store (ot_heap s)) c) /\
    (forall k, ~ In k (map fst (r_edges R)) -> oh_slot (ot_heap s') k = oh_slot (ot_heap s) k) /\
    (forall e, In e (r_edges R) -> exists c, oh_slot (ot_heap s') (fst e) = Some c /\ In c cells) /\
    (hwf (ot_heap s) -> hwf (ot_heap s')).
Proof.
  cbv zeta. unfold obj_encode. cbv zeta.
  set (R := encode_f su cb acc (ot_rooted s) (ot_tree s)).
  set (tm := fst (snd (last (r_edges R) (0, (0, 0))))).
  set (h1 := fold_left (first_pass_edge (r_rooted R)) (r_edges R) (ot_heap s)).
  destruct (first_pass_fold (r_rooted R) (r_edges R) (ot_heap s)) as (N1 & F1 & S1 & U1 & W1). fold h1 in N1, F1, S1, U1, W1.
  destruct (second_pass_fold mut tm (r_edges R) h1 []) as (N2 & M2 & C2 & F2 & W2).
  set (hc := fold_left (second_pass_edge mut tm) (r_edges R) (h1, [])) in *. cbn [app] in C2.
  exists (snd hc). cbn [ot_saved ot_stored ot_tree ot_rooted ot_heap].
  assert (RG : forall c, In c (snd hc) -> oh_next (ot_heap s) <= c < oh_next h1).
  { intros c I. rewrite C2 in I. exact (slot_cells_range (r_rooted R) (r_edges R) (ot_heap s) c I). }
  split; [reflexivity |]. split; [reflexivity |]. split; [reflexivity |]. split; [reflexivity |].
  split; [rewrite N2, N1; reflexivity |].
  split; [intros c I; rewrite N2; apply RG; exact I |].
  split; [| split; [| split]].
  - intros c Hc. rewrite F2.
    + apply F1. exact Hc.
    + intro I. rewrite <- C2 in I. specialize (RG c I). lia.
  - intros k NI. unfold oh_slot. rewrite M2. apply U1. exact NI.
  - intros e He. destruct (S1 e He) as (c & Sc & _). exists c. split.
    + unfold oh_slot. rewrite M2. exact Sc.
    + rewrite C2. unfold slot_cells. apply in_flat_map. exists e. split; [exact He |]. rewrite Sc. left. reflexivity.
  - intro Hw. apply W2. apply W1. exact Hw.
Qed.

Lemma owf_init rooted t : owf (ot_init rooted t).
Proof.
  unfold owf, ot_init, hwf. cbn. repeat split; try discriminate; try tauto.
Qed.

Lemma owf_step acc s st : owf s -> owf (obj_step acc s st).
Proof.
  intros (Hh & Hs & Ht). destruct st as [su cb ss mut | t r | t r |]; cbn [obj_step];
    [| split; [| split]; assumption | | split; [| split]; assumption].
  2:{ split; [exact Hh |]. split; [exact Hs |]. unfold obj_supp. cbn [ot_stored ot_heap].
      intros l E c Ic. destruct (ot_stored s) as [l0|] eqn:E0; [| discriminate]. cbn [option_map] in E.
      injection E as <-. apply filter_In in Ic. destruct Ic as [Ic _]. exact (Ht l0 eq_refl c Ic). }
  destruct (obj_encode_facts su cb ss mut acc s) as (cells & E1 & E2 & _ & _ & N & RG & _ & _ & _ & W).
  set (s' := obj_encode su cb ss mut acc s) in *.
  assert (LE : oh_next (ot_heap s) <= oh_next (ot_heap s')) by lia.
  split; [exact (W Hh) |]. split.
  - intros l I c Ic. rewrite E1 in I. apply in_app_or in I. destruct I as [I | [<- | []]].
    + specialize (Hs l I c Ic). lia.
    + apply RG. exact Ic.
  - intros l E c Ic. rewrite E2 in E. destruct ss; [discriminate |]. injection E as <-. apply RG. exact Ic.
Qed.

Lemma owf_steps acc : forall steps s, owf s -> owf (fold_left (obj_step acc) steps s).
Proof. induction steps as [|st q IH]; intros s H; [exact H |]. cbn [fold_left]. apply IH. apply owf_step. exact H. Qed.

(* one step: lists saved before stay, with the same objects and the same contents *)
Lemma step_keeps_saved acc s st k l :
  owf s -> nth_error (ot_saved s) k = Some l ->
  nth_error (ot_saved (obj_step acc s st)) k = Some l /\
  map (deref (ot_heap (obj_step acc s st))) l = map (deref (ot_heap s)) l.
Proof.
  intros (Hh & Hs & Ht) E. destruct st as [su cb ss mut | t r | t r |]; cbn [obj_step]; try (split; [exact E | reflexivity]).
  destruct (obj_encode_facts su cb ss mut acc s) as (cells & E1 & _ & _ & _ & _ & _ & F & _).
  split.
  - rewrite E1. rewrite nth_error_app1; [exact E |]. apply nth_error_Some. congruence.
  - apply map_ext_in. intros c Ic. unfold deref. rewrite F; [reflexivity |].
    apply (Hs l); [| exact Ic]. apply nth_error_In with k. exact E.
Qed.

Lemma steps_keep_saved acc : forall steps s k l,
  owf s -> nth_error (ot_saved s) k = Some l ->
  nth_error (ot_saved (fold_left (obj_step acc) steps s)) k = Some l /\
  map (deref (ot_heap (fold_left (obj_step acc) steps s))) l = map (deref (ot_heap s)) l.
Proof.
  induction steps as [|st q IH]; intros s k l W E; [split; [exact E | reflexivity] |].
  cbn [fold_left]. destruct (step_keeps_saved acc s st k l W E) as (E' & D').
  destruct (IH (obj_step acc s st) k l (owf_step acc s st W) E') as (E'' & D'').
  split; [exact E'' |]. rewrite D''. exact D'.
Qed.

(* no Bipartition object is shared between two encodings *)
Definition saved_sep (s : otree) : Prop :=
  forall i j li lj, (i < j)%nat -> nth_error (ot_saved s) i = Some li -> nth_error (ot_saved s) j = Some lj ->
  forall c, In c li -> ~ In c lj.

Lemma saved_sep_step acc s st : owf s -> saved_sep s -> saved_sep (obj_step acc s st).
Proof.
  intros (Hh & Hs & Ht) Sep. destruct st as [su cb ss mut | t r | t r |]; cbn [obj_step]; try exact Sep.
  destruct (obj_encode_facts su cb ss mut acc s) as (cells & E1 & _ & _ & _ & _ & RG & _).
  intros i j li lj Lt Ei Ej c Ici Icj. rewrite E1 in Ei, Ej.
  assert (Lj : (j < length (ot_saved s ++ [cells]))%nat) by (apply nth_error_Some; congruence).
  rewrite app_length in Lj. cbn [length] in Lj.
  destruct (Nat.eq_dec j (length (ot_saved s))) as [-> | NJ].
  - rewrite nth_error_app2 in Ej by lia. rewrite Nat.sub_diag in Ej. cbn in Ej. injection Ej as <-.
    rewrite nth_error_app1 in Ei by lia.
    specialize (Hs li (nth_error_In _ _ Ei) c Ici). specialize (RG c Icj). lia.
  - rewrite nth_error_app1 in Ej by lia. rewrite nth_error_app1 in Ei by lia.
    exact (Sep i j li lj Lt Ei Ej c Ici Icj).
Qed.

Lemma saved_sep_steps acc : forall steps s, owf s -> saved_sep s -> saved_sep (fold_left (obj_step acc) steps s).
Proof.
  induction steps as [|st q IH]; intros s W Sp; [exact Sp |]. cbn [fold_left].
  apply IH; [apply owf_step; exact W | apply saved_sep_step; assumption].
Qed.

Lemma saved_sep_init rooted t : saved_sep (ot_init rooted t).
Proof. intros i j li lj _ Ei. destruct i; discriminate. Qed.

(* ------------------------------------------------------------------------------------------ *)
(* the contents: the object level refines the value level                                      *)

Definition cells_from (n : Z) (k : nat) : list Z := map (fun i => n + Z.of_nat i) (seq 0 k).

Lemma cells_from_S n k : cells_from n (S k) = n :: cells_from (n + 1) k.
Proof.
  unfold cells_from. cbn [seq map]. rewrite Z.add_0_r. f_equal.
  rewrite <- seq_shift, map_map. apply map_ext. intro i. lia.
Qed.

Lemma cells_from_In n k c : In c (cells_from n k) -> n <= c < n + Z.of_nat k.
Proof.
  unfold cells_from. intro I. apply in_map_iff in I. destruct I as (i & <- & Hi). apply in_seq in Hi. lia.
Qed.

Lemma cells_from_NoDup : forall k n, NoDup (cells_from n k).
Proof.
  induction k as [|k IH]; intro n; [constructor |]. rewrite cells_from_S. constructor; [| apply IH].
  intro I. apply cells_from_In in I. lia.
Qed.

Lemma first_pass_closed r : forall entries h,
  NoDup (map fst entries) ->
  let h1 := fold_left (first_pass_edge r) entries h in
  slot_cells h1 entries = cells_from (oh_next h) (length entries) /\
  (forall i e, nth_error entries i = Some e ->
     st_get (oh_store h1) (oh_next h + Z.of_nat i) = Some (first_obj r (fst (snd e)))).
Proof.
  induction entries as [|e0 q IH]; intros h ND; cbv zeta.
  - split; [reflexivity |]. intros [|i] e; discriminate.
  - cbn [fold_left]. cbn [map] in ND. inversion ND as [|? ? NI ND']; subst.
    destruct (first_pass_edge_facts r h e0) as (N0 & M0 & F0 & S0).
    destruct (first_pass_fold r q (first_pass_edge r h e0)) as (_ & F & _ & U & _).
    specialize (IH (first_pass_edge r h e0) ND'). cbv zeta in IH. destruct IH as (SC & ST).
    set (h1 := fold_left (first_pass_edge r) q (first_pass_edge r h e0)) in *.
    split.
    + cbn [length]. rewrite cells_from_S. unfold slot_cells. cbn [flat_map]. fold (slot_cells h1 q).
      rewrite (U _ NI). unfold oh_slot at 1. rewrite M0, em_get_cons, Z.eqb_refl. cbn [app].
      rewrite SC, N0. reflexivity.
    + intros [|i] e E.
      * cbn in E. injection E as <-. cbn [Z.of_nat]. rewrite Z.add_0_r. rewrite F by lia. exact S0.
      * cbn [nth_error] in E. specialize (ST i e E). rewrite N0 in ST.
        replace (oh_next h + Z.of_nat (S i)) with (oh_next h + 1 + Z.of_nat i) by lia. exact ST.
Qed.

Lemma second_pass_contents mut tm : forall entries h acc0,
  NoDup (slot_cells h entries) ->
  forall c, In c (slot_cells h entries) ->
  st_get (oh_store (fst (fold_left (second_pass_edge mut tm) entries (h, acc0)))) c
  = option_map (compiled_obj mut tm) (st_get (oh_store h) c).
Proof.
  induction entries as [|e q IH]; intros h acc0 ND c I; [destruct I |].
  cbn [fold_left].
  replace (second_pass_edge mut tm (h, acc0) e) with
    (match oh_slot h (fst e) with
     | Some c => (oh_write c (compiled_obj mut tm) h, acc0 ++ [c])
     | None => (h, acc0)
     end) by reflexivity.
  unfold slot_cells in ND, I. cbn [flat_map] in ND, I. fold (slot_cells h q) in ND, I.
  destruct (oh_slot h (fst e)) as [c0|] eqn:E.
  - cbn [app] in ND, I. inversion ND as [|? ? NI ND']; subst.
    assert (SC : slot_cells (oh_write c0 (compiled_obj mut tm) h) q = slot_cells h q).
    { unfold slot_cells. apply flat_map_ext. intro a. rewrite oh_write_slot. reflexivity. }
    destruct I as [<- | I].
    + destruct (second_pass_fold mut tm q (oh_write c0 (compiled_obj mut tm) h) (acc0 ++ [c0])) as (_ & _ & _ & F & _).
      rewrite F by (rewrite SC; exact NI). apply oh_write_same.
    + rewrite IH; [| rewrite SC; exact ND' | rewrite SC; exact I].
      rewrite oh_write_other; [reflexivity |]. intros ->. exact (NI I).
  - cbn [app] in ND, I. apply IH; assumption.
Qed.

(* the masks of the model's edge list are the compiled ones for the tree mask the second pass uses *)
Lemma edges_have_model_split su cb acc rooted t :
  let R := encode_f su cb acc rooted t in
  let tm := fst (snd (last (r_edges R) (0, (0, 0)))) in
  forall e, In e (r_edges R) -> snd (snd e) = compile_split (r_rooted R) tm (fst (snd e)).
Proof.
  cbv zeta. intros e He.
  assert (TM : fst (snd (last (r_edges (encode_f su cb acc rooted t)) (0, (0, 0)))) = cmask acc t).
  { rewrite encode_f_spec. cbv zeta. cbn [r_edges]. unfold spec_edges.
    destruct (post_f su (fst (pre_collapse_f cb rooted t))) as [i x l e' ks] eqn:EPF.
    rewrite postorder_unfold, map_app. cbn [map]. rewrite last_last. cbn [fst snd]. rewrite <- EPF.
    unfold cmask. rewrite leaf_taxa_post_f, leaf_taxa_pre_collapse_f. reflexivity. }
  rewrite TM. rewrite encode_f_spec in He |- *. cbv zeta in He |- *. cbn [r_edges r_rooted] in He |- *.
  unfold spec_edges in He. apply in_map_iff in He. destruct He as (n & <- & _). reflexivity.
Qed.

Lemma compiled_first_masks mut r tm ls :
  b_leafset (compiled_obj mut tm (first_obj r ls)) = Some ls /\
  b_split (compiled_obj mut tm (first_obj r ls)) = Some (compile_split r tm ls) /\
  b_rooted (compiled_obj mut tm (first_obj r ls)) = r.
Proof.
  unfold compiled_obj, first_obj, init_obj, compile_split. cbn [b_leafset set_b_rooted set_b_leafset b_split b_tree_leafset b_lrb b_rooted b_mutable].
  destruct (Z.eqb tm 0); repeat split; reflexivity.
Qed.

Lemma obj_encode_contents su cb ss mut acc s :
  let s' := obj_encode su cb ss mut acc s in
  let R := encode_f su cb acc (ot_rooted s) (ot_tree s) in
  NoDup (map fst (r_edges R)) ->
  exists cells,
    ot_saved s' = ot_saved s ++ [cells] /\
    cells = cells_from (oh_next (ot_heap s)) (length (r_edges R)) /\
    map (fun e => oh_slot (ot_heap s') (fst e)) (r_edges R) = map Some cells /\
    map (fun c => option_map (fun b => (b_leafset b, b_split b, b_rooted b)) (st_get (oh_store (ot_heap s')) c)) cells
    = map (fun e => Some (Some (fst (snd e)), Some (snd (snd e)), r_rooted R)) (r_edges R).
Proof.
  cbv zeta. intro ND. unfold obj_encode. cbv zeta.
  set (R := encode_f su cb acc (ot_rooted s) (ot_tree s)) in *.
  set (tm := fst (snd (last (r_edges R) (0, (0, 0))))).
  set (h1 := fold_left (first_pass_edge (r_rooted R)) (r_edges R) (ot_heap s)).
  destruct (first_pass_closed (r_rooted R) (r_edges R) (ot_heap s) ND) as (SC & ST). fold h1 in SC, ST.
  destruct (second_pass_fold mut tm (r_edges R) h1 []) as (_ & M2 & C2 & _ & _).
  set (hc := fold_left (second_pass_edge mut tm) (r_edges R) (h1, [])) in *. cbn [app] in C2.
  exists (snd hc). cbn [ot_saved ot_heap].
  split; [reflexivity |]. split; [rewrite C2; exact SC |]. split.
  - rewrite C2. unfold slot_cells.
    assert (G : forall l : list (Z * (Z * Z)), (forall e, In e l -> exists c, oh_slot h1 (fst e) = Some c) ->
                map (fun e => oh_slot (fst hc) (fst e)) l
                = map Some (flat_map (fun e => match oh_slot h1 (fst e) with Some c => [c] | None => [] end) l)).
    { induction l as [|a l IHl]; intro A; [reflexivity |]. cbn [map flat_map]. rewrite map_app.
      rewrite IHl by (intros e He; apply A; right; exact He).
      destruct (A a (or_introl eq_refl)) as (c & Ec). unfold oh_slot at 1. rewrite M2. fold (oh_slot h1 (fst a)).
      rewrite Ec. reflexivity. }
    apply G. intros e He. destruct (first_pass_fold (r_rooted R) (r_edges R) (ot_heap s)) as (_ & _ & S & _).
    destruct (S e He) as (c & Sc & _). exists c. exact Sc.
  - rewrite C2, SC. unfold cells_from. rewrite map_map.
    assert (ND2 : NoDup (slot_cells h1 (r_edges R))) by (rewrite SC; apply cells_from_NoDup).
    assert (G : forall i e, nth_error (r_edges R) i = Some e ->
                option_map (fun b => (b_leafset b, b_split b, b_rooted b))
                  (st_get (oh_store (fst hc)) (oh_next (ot_heap s) + Z.of_nat i))
                = Some (Some (fst (snd e)), Some (snd (snd e)), r_rooted R)).
    { intros i e E. unfold hc. rewrite (second_pass_contents mut tm (r_edges R) h1 [] ND2).
      - rewrite (ST i e E). cbn [option_map].
        destruct (compiled_first_masks mut (r_rooted R) tm (fst (snd e))) as (A & B & C). rewrite A, B, C.
        rewrite (edges_have_model_split su cb acc (ot_rooted s) (ot_tree s) e (nth_error_In _ _ E)). reflexivity.
      - rewrite SC. unfold cells_from. apply in_map_iff. exists i. split; [reflexivity |].
        apply in_seq. assert (i < length (r_edges R))%nat by (apply nth_error_Some; congruence). lia. }
    clear - G. revert G. generalize (oh_next (ot_heap s)) as n. generalize (r_edges R) as l.
    induction l as [|a l IHl]; intros n G; [reflexivity |].
    cbn [length seq map]. f_equal.
    + rewrite (G 0%nat a eq_refl). reflexivity.
    + rewrite <- seq_shift, map_map. rewrite <- (IHl (n + 1)).
      * apply map_ext. intro i. replace (n + Z.of_nat (S i)) with (n + 1 + Z.of_nat i) by lia. reflexivity.
      * intros i e E. replace (n + 1 + Z.of_nat i) with (n + Z.of_nat (S i)) by lia. apply (G (S i) e). exact E.
Qed.

(* ------------------------------------------------------------------------------------------ *)
(* exported statements                                                                         *)

Lemma encoding_creates_fresh_objects_l : forall su cb ss mut acc s,
  owf s ->
  exists cells,
    ot_saved (obj_encode su cb ss mut acc s) = ot_saved s ++ [cells] /\
    ot_stored (obj_encode su cb ss mut acc s) = (if ss then None else Some cells) /\
    (forall c, In c cells ->
       st_get (oh_store (ot_heap s)) c = None /\
       (forall k, oh_slot (ot_heap s) k <> Some c) /\
       (forall l, In l (ot_saved s) -> ~ In c l) /\
       (forall l, ot_stored s = Some l -> ~ In c l)) /\
    (forall e, In e (r_edges (encode_f su cb acc (ot_rooted s) (ot_tree s))) ->
       exists c, oh_slot (ot_heap (obj_encode su cb ss mut acc s)) (fst e) = Some c /\ In c cells) /\
    (forall c b, st_get (oh_store (ot_heap s)) c = Some b ->
       st_get (oh_store (ot_heap (obj_encode su cb ss mut acc s))) c = Some b) /\
    (forall k, ~ In k (map fst (r_edges (encode_f su cb acc (ot_rooted s) (ot_tree s)))) ->
       oh_slot (ot_heap (obj_encode su cb ss mut acc s)) k = oh_slot (ot_heap s) k).
Proof.
  intros su cb ss mut acc s ((A & B) & Hs & Ht).
  destruct (obj_encode_facts su cb ss mut acc s) as (cells & E1 & E2 & _ & _ & _ & RG & F & U & S & _).
  exists cells. split; [exact E1 |]. split; [exact E2 |]. split; [| split; [exact S | split; [| exact U]]].
  - intros c I. destruct (RG c I) as [Lo Hi]. split; [| split; [| split]].
    + destruct (st_get (oh_store (ot_heap s)) c) as [b|] eqn:E; [| reflexivity]. specialize (B _ _ E). lia.
    + intros k E. specialize (A _ _ E). lia.
    + intros l Il Ic. specialize (Hs l Il c Ic). lia.
    + intros l El Ic. specialize (Ht l El c Ic). lia.
  - intros c b E. rewrite F; [exact E |]. exact (B _ _ E).
Qed.

Lemma saved_encoding_keeps_its_masks_l : forall acc rooted t before after k l,
  let s1 := fold_left (obj_step acc) before (ot_init rooted t) in
  let s2 := fold_left (obj_step acc) after s1 in
  nth_error (ot_saved s1) k = Some l ->
  nth_error (ot_saved s2) k = Some l /\
  map (deref (ot_heap s2)) l = map (deref (ot_heap s1)) l.
Proof.
  cbv zeta. intros. apply steps_keep_saved; [| assumption]. apply owf_steps. apply owf_init.
Qed.

Lemma no_bipartition_object_shared_l : forall acc rooted t steps i j li lj,
  let s := fold_left (obj_step acc) steps (ot_init rooted t) in
  i <> j -> nth_error (ot_saved s) i = Some li -> nth_error (ot_saved s) j = Some lj ->
  forall c, In c li -> ~ In c lj.
Proof.
  cbv zeta. intros acc rooted t steps i j li lj NE Ei Ej c Ii Ij.
  assert (Sp : saved_sep (fold_left (obj_step acc) steps (ot_init rooted t))).
  { apply saved_sep_steps; [apply owf_init | apply saved_sep_init]. }
  destruct (Nat.lt_ge_cases i j) as [L | G].
  - exact (Sp i j li lj L Ei Ej c Ii Ij).
  - assert (L : (j < i)%nat) by lia. exact (Sp j i lj li L Ej Ei c Ij Ii).
Qed.

(* the statement bites: a variant that recycles the object already bound to the edge (seeded change C01-7)
   violates it on a three-leaf tree that is edited and encoded again *)
Definition first_pass_edge_recycle (r : option bool) (h : oheap) (e : Z * (Z * Z)) : oheap :=
  match oh_slot h (fst e) with
  | Some c => oh_write c (set_b_rooted r) (oh_write c (set_b_leafset (Some (fst (snd e)))) (oh_write c (set_b_mutable (Some true)) h))
  | None => first_pass_edge r h e
  end.

Definition obj_encode_recycle (su cb ss mut : bool) (acc : Z -> Z) (s : otree) : otree :=
  let R := encode_f su cb acc (ot_rooted s) (ot_tree s) in
  let entries := r_edges R in
  let tm := fst (snd (last entries (0, (0, 0)))) in
  let h1 := fold_left (first_pass_edge_recycle (r_rooted R)) entries (ot_heap s) in
  let hc := fold_left (second_pass_edge mut tm) entries (h1, []) in
  mkOT (fst hc) (r_tree R) (r_rooted R) (if ss then None else Some (snd hc)) (ot_saved s ++ [snd hc]).

Definition demo_tree1 : tree :=
  T 0 None None None [T 1 None None None [T 2 (Some 0) None None []; T 3 (Some 1) None None []];
                      T 4 None None None [T 5 (Some 2) None None []; T 6 (Some 3) None None []]].
Definition demo_tree2 : tree :=
  T 0 None None None [T 1 None None None [T 2 (Some 0) None None []; T 5 (Some 2) None None []];
                      T 4 None None None [T 3 (Some 1) None None []; T 6 (Some 3) None None []]].

Lemma recycling_variant_refuted_l :
  let s1 := obj_encode_recycle true true false false (fun x => x) (ot_init (Some true) demo_tree1) in
  let s2 := obj_encode_recycle true true false false (fun x => x) (obj_edit demo_tree2 (Some true) s1) in
  exists l, nth_error (ot_saved s1) 0 = Some l /\ nth_error (ot_saved s2) 0 = Some l /\
            map (deref (ot_heap s2)) l <> map (deref (ot_heap s1)) l.
Proof. cbv zeta. eexists. split; [reflexivity |]. split; [reflexivity |]. vm_compute. discriminate. Qed.

(* the same history through the model of the real code: two encodings, disjoint objects, the first unchanged,
   with non-trivial contents *)
Example history_example :
  let s1 := obj_encode true true false false (fun x => x) (ot_init (Some true) demo_tree1) in
  let s2 := obj_encode true true false false (fun x => x) (obj_edit demo_tree2 (Some true) s1) in
  owf s1 /\ NoDup (map fst (r_edges (encode_f true true (fun x => x) (ot_rooted s1) (ot_tree s1)))) /\
  nth_error (ot_saved s2) 0 = Some [0; 1; 2; 3; 4; 5; 6] /\ nth_error (ot_saved s2) 1 = Some [7; 8; 9; 10; 11; 12; 13] /\
  map (fun c => option_map b_split (st_get (oh_store (ot_heap s2)) c)) [2; 9] = [Some (Some 3); Some (Some 5)].
Proof.
  cbv zeta. split; [apply (owf_step (fun x => x) (ot_init (Some true) demo_tree1) (HEnc true true false false)), owf_init |].
  split; [vm_compute; repeat constructor; cbn; intuition discriminate |].
  vm_compute. repeat split.
Qed.
