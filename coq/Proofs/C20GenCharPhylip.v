(* C20, translator tie, part B: the PHYLIP reader generated from the source (Gen/CharIO.v, by py/dv/gen_chario.py)
   against the row-list model for BOTH values of ignore_invalid_chars.

   Props/C09Gen.v states these equalities for ignore_invalid_chars = False.  The line loops below are C09's
   proofs (Proofs/C09GenPhylip.v, sections PhylipLoops / PhylipRead) replayed with the flag as a variable
   and `phylip_states_ig a ign` as the decoder of one line; the lemmas about the reader's objects
   (w_cm, p_proc, gen_parse_taxon, parse_taxon_inv, ...) are used from there unchanged. *)
From Coq Require Import ZArith List Bool Lia.
From DV Require Import Model.C20Model Proofs.C20GenCharModel.
From DV Require Import Model.PyPrims Model.C09AlphaTypes Model.C09Model Model.C09Prims Gen.CharIO
  Proofs.C09Text Proofs.C09GenFasta Proofs.C09GenPhylip.
Import ListNotations.
Open Scope Z_scope.

(* _parse_sequence_from_line (a discrete data type), both values of ignore_invalid_chars *)
Lemma gen_parse_sequence_ig : forall (a : alphabet) (ign : bool) line (rows : matrix) i l v ns proc,
  nth_error rows i = Some (l, v) ->
  PhylipReader_parse_sequence_from_line ign a ns (w_cm rows) proc i line
  = do states <- phylip_states_ig a ign line ;; Ok (ns, w_cm (C09Model.append_at Z i states rows), proc).
Proof.
  intros a ign line rows i l v ns proc H. unfold PhylipReader_parse_sequence_from_line.
  match goal with |- context [for_each_res _ ?B _] => set (body := B) end.
  assert (Loop : forall ln (rs : matrix) l' v', nth_error rs i = Some (l', v') ->
            for_each_res (py_chars ln) body (w_cm rs)
            = do xs <- phylip_states_ig a ign ln ;; Ok (w_cm (C09Model.append_at Z i xs rs))).
  { induction ln as [|c ln IH]; intros rs l' v' Hn.
    - cbn [py_chars map for_each_res phylip_states_ig bind]. rewrite append_at_nil. reflexivity.
    - cbn [py_chars map for_each_res phylip_states_ig]. fold (py_chars ln). unfold body at 1. rewrite in_blanks.
      destruct (C09Model.is_blank c).
      + cbn [bind]. apply (IH rs l' v' Hn).
      + unfold py_symbol_lookup, state_of_symbol. destruct (tlookup [c] (a_fullmap a)) as [s|].
        * cbn [bind].
          destruct (w_cm_extend rs i l' v' [s] Hn) as [E1 [_ [_ E4]]]. rewrite E1.
          rewrite (IH _ l' (v' ++ [s]) E4). destruct (phylip_states_ig a ign ln); cbn [bind]; [|reflexivity|reflexivity].
          rewrite append_at_app. reflexivity.
        * destruct ign; cbn [negb bind]; [apply (IH rs l' v' Hn) | reflexivity]. }
  rewrite (Loop line rows l v H). destruct (phylip_states_ig a ign line); reflexivity.
Qed.

Section PhylipLoopsIg.
Variable lower : text -> text.
Variable a : alphabet.
Variables (strict inter multi u2s ign : bool) (ntax nchar : Z).
Let o := mkPR strict inter multi u2s.

Definition prel_ig (r : res (option taxon * tns * cmat Z * list taxon)) (h : res matrix) : Prop :=
  match r, h with
  | Ok (_, ns, cm, pr), Ok rows => ns = map fst rows /\ cm = w_cm rows /\ pr = p_proc rows
  | Err e1, Err e2 => e1 = e2
  | OutOfFuel, OutOfFuel => True
  | _, _ => False
  end.

Lemma rstrip_eq_nil_ig : forall l, py_str_eq (py_rstrip l) [] = match rstrip l with [] => true | _ => false end.
Proof. intro l. unfold py_str_eq, py_rstrip. destruct (rstrip l); reflexivity. Qed.

Theorem gen_parse_sequential_ig : forall lines (rows : matrix), len rows <= ntax ->
  PhylipReader_parse_sequential lower strict multi u2s ntax nchar ign a (map fst rows) (w_cm rows) (p_proc rows) lines
  = match phylip_sequential lower Z ((phylip_states_ig a ign)) o ntax nchar rows None lines with
    | Ok rows' => Ok (map fst rows', w_cm rows', p_proc rows')
    | Err e => Err e
    | OutOfFuel => OutOfFuel
    end.
Proof.
  intros lines rows Hlen. unfold PhylipReader_parse_sequential.
  match goal with |- context [for_each_res lines ?B _] => set (body := B) end.
  assert (Loop : forall ls (rs : matrix) cur, len rs <= ntax ->
            (forall i, cur = Some i -> exists l v, nth_error rs i = Some (l, v)) ->
            prel_ig (for_each_res ls body (cur, map fst rs, w_cm rs, p_proc rs))
                 (phylip_sequential lower Z ((phylip_states_ig a ign)) o ntax nchar rs cur ls)).
  { induction ls as [|line ls IH]; intros rs cur Hl Hc.
    - cbn [for_each_res phylip_sequential prel_ig]. repeat split.
    - cbn [for_each_res phylip_sequential]. unfold body at 1. rewrite rstrip_eq_nil_ig. unfold py_rstrip.
      destruct (rstrip line) as [|c r] eqn:Er.
      + cbn [bind]. apply IH; assumption.
      + (* a line with content *)
        destruct cur as [i|].
        * (* continuing the current taxon *)
          cbn [bind]. destruct (Hc i eq_refl) as [l [v En]].
          rewrite (gen_parse_sequence_ig a ign (c :: r) rs i l v _ _ En).
          destruct ((phylip_states_ig a ign) (c :: r)) as [states| |]; cbn [bind prel_ig]; [|reflexivity|exact I].
          destruct (w_cm_extend rs i l v states En) as [E1 [E2 [E3 E4]]].
          unfold cm_getitem. rewrite (w_cm_get _ _ _ _ E4). rewrite E4.
          assert (Ep : p_proc rs = p_proc (append_at Z i states rs)) by (unfold p_proc; rewrite E3; reflexivity).
          rewrite Ep. rewrite <- E2.
          destruct (nchar <=? len (v ++ states)); cbn [bind]; apply IH;
            try (unfold len in *; rewrite E3; exact Hl); intros j Hj; try discriminate.
          inversion Hj; subst. eauto.
        * (* a new taxon line *)
          rewrite (gen_parse_taxon lower strict inter multi u2s ntax nchar rs (c :: r) Hl). fold o.
          destruct (parse_taxon lower Z o ntax nchar rs (c :: r)) as [[[rows1 i] rest]| |] eqn:Ex; cbn [bind prel_ig]; [|reflexivity|exact I].
          destruct (parse_taxon_inv lower strict inter multi u2s ntax nchar rs rows1 (c :: r) i rest Hl Ex) as [Hl1 [l [v En]]].
          rewrite (gen_parse_sequence_ig a ign rest rows1 i l v _ _ En).
          destruct ((phylip_states_ig a ign) rest) as [states| |]; cbn [bind prel_ig]; [|reflexivity|exact I].
          destruct (w_cm_extend rows1 i l v states En) as [E1 [E2 [E3 E4]]].
          unfold cm_getitem. rewrite (w_cm_get _ _ _ _ E4). rewrite E4.
          assert (Ep : p_proc rows1 = p_proc (append_at Z i states rows1)) by (unfold p_proc; rewrite E3; reflexivity).
          rewrite Ep. rewrite <- E2.
          destruct (nchar <=? len (v ++ states)); cbn [bind]; apply IH;
            try (unfold len in *; rewrite E3; exact Hl1); intros j Hj; try discriminate.
          inversion Hj; subst. eauto. }
  specialize (Loop lines rows None Hlen (fun i H => ltac:(discriminate))).
  match goal with |- context [for_each_res lines body ?i] => set (R := for_each_res lines body i) end.
  match type of Loop with prel_ig ?X _ => change X with R in Loop end.
  destruct R as [[[[c' ns'] cm'] pr']| |];
    destruct (phylip_sequential lower Z ((phylip_states_ig a ign)) o ntax nchar rows None lines) as [rows'| |];
    cbn [prel_ig] in Loop; try contradiction; cbn [bind].
  - destruct Loop as [A [B C0]]. subst. reflexivity.
  - subst. reflexivity.
  - reflexivity.
Qed.

Definition prel2_ig (r : res (option taxon * Z * tns * cmat Z * list taxon * bool)) (h : res matrix) : Prop :=
  match r, h with
  | Ok (_, _, ns, cm, pr, _), Ok rows => ns = map fst rows /\ cm = w_cm rows /\ pr = p_proc rows
  | Err e1, Err e2 => e1 = e2
  | OutOfFuel, OutOfFuel => True
  | _, _ => False
  end.

Theorem gen_parse_interleaved_ig : forall lines (rows : matrix), len rows <= ntax ->
  PhylipReader_parse_interleaved lower strict multi u2s ntax nchar ign a (map fst rows) (w_cm rows) (p_proc rows) lines
  = match phylip_interleaved lower Z ((phylip_states_ig a ign)) o ntax nchar rows false (-1) lines with
    | Ok rows' => Ok (map fst rows', w_cm rows', p_proc rows')
    | Err e => Err e
    | OutOfFuel => OutOfFuel
    end.
Proof.
  intros lines rows Hlen. unfold PhylipReader_parse_interleaved.
  match goal with |- context [for_each_res lines ?B _] => set (body := B) end.
  assert (Loop : forall ls (rs : matrix) cur paged paged_row, len rs <= ntax -> -1 <= paged_row ->
            prel2_ig (for_each_res ls body (cur, paged_row, map fst rs, w_cm rs, p_proc rs, paged))
                  (phylip_interleaved lower Z ((phylip_states_ig a ign)) o ntax nchar rs paged paged_row ls)).
  { induction ls as [|line ls IH]; intros rs cur paged paged_row Hl Hp.
    - cbn [for_each_res phylip_interleaved prel2_ig]. repeat split.
    - cbn [for_each_res phylip_interleaved]. unfold body at 1. rewrite rstrip_eq_nil_ig. unfold py_rstrip.
      destruct (rstrip line) as [|c r] eqn:Er.
      + cbn [bind]. apply IH; assumption.
      + set (pr := if ntax <=? paged_row + 1 then 0 else paged_row + 1).
        match goal with |- context [bind (if ntax <=? ?q then ?A else ?B) _] =>
          assert (Epr : (if ntax <=? q then A else B) = Ok pr)
            by (unfold pr; destruct (ntax <=? paged_row + 1); reflexivity);
          rewrite Epr end.
        cbn [bind].
        assert (Hpr : 0 <= pr) by (unfold pr; destruct (ntax <=? paged_row + 1); lia).
        destruct paged.
        * (* a later page: the taxon is the pr-th of the namespace *)
          unfold tns_getitem. assert (Elen : len (map fst rs) = len rs) by (unfold len; rewrite map_length; reflexivity). rewrite !Elen.
          destruct (nth_error rs (Z.to_nat pr)) as [[l v]|] eqn:En.
          -- assert (Lt : pr < len rs).
             { assert (Z.to_nat pr < length rs)%nat by (apply nth_error_Some; congruence). unfold len. lia. }
             replace ((0 <=? pr) && (pr <? len rs)) with true by (symmetry; apply andb_true_iff; split; [apply Z.leb_le | apply Z.ltb_lt]; lia).
             cbn [bind].
             rewrite (gen_parse_sequence_ig a ign (c :: r) rs (Z.to_nat pr) l v _ _ En).
             destruct ((phylip_states_ig a ign) (c :: r)) as [states| |]; cbn [bind prel2_ig]; [|reflexivity|exact I].
             destruct (w_cm_extend rs (Z.to_nat pr) l v states En) as [E1 [E2 [E3 E4]]].
             assert (Ep : p_proc rs = p_proc (append_at Z (Z.to_nat pr) states rs)) by (unfold p_proc; rewrite E3; reflexivity).
             rewrite Ep. rewrite <- E2. apply IH; [unfold len in *; rewrite E3; exact Hl | lia].
          -- assert (Ge : len rs <= pr).
             { apply nth_error_None in En. unfold len. lia. }
             replace ((0 <=? pr) && (pr <? len rs)) with false
               by (symmetry; apply andb_false_iff; right; apply Z.ltb_ge; lia).
             replace ((- len rs <=? pr) && (pr <? 0)) with false
               by (symmetry; apply andb_false_iff; right; apply Z.ltb_ge; lia).
             cbn [bind]. simpl. reflexivity.
        * (* first page: the line starts with a label *)
          rewrite (gen_parse_taxon lower strict inter multi u2s ntax nchar rs (c :: r) Hl). fold o.
          destruct (parse_taxon lower Z o ntax nchar rs (c :: r)) as [[[rows1 i] rest]| |] eqn:Ex; cbn [bind prel2_ig]; [|reflexivity|exact I].
          destruct (parse_taxon_inv lower strict inter multi u2s ntax nchar rs rows1 (c :: r) i rest Hl Ex) as [Hl1 [l [v En]]].
          assert (Efull : tns_len (map fst rows1) = len rows1) by (unfold tns_len, len; rewrite map_length; reflexivity).
          rewrite Efull.
          destruct (len rows1 =? ntax) eqn:Ef; cbn [bind].
          -- rewrite (gen_parse_sequence_ig a ign rest rows1 i l v _ _ En).
             destruct ((phylip_states_ig a ign) rest) as [states| |]; cbn [bind prel2_ig]; [|reflexivity|exact I].
             destruct (w_cm_extend rows1 i l v states En) as [E1 [E2 [E3 E4]]].
             assert (Ep : p_proc rows1 = p_proc (append_at Z i states rows1)) by (unfold p_proc; rewrite E3; reflexivity).
             rewrite Ep. rewrite <- E2. apply IH; [unfold len in *; rewrite E3; exact Hl1 | lia].
          -- rewrite (gen_parse_sequence_ig a ign rest rows1 i l v _ _ En).
             destruct ((phylip_states_ig a ign) rest) as [states| |]; cbn [bind prel2_ig]; [|reflexivity|exact I].
             destruct (w_cm_extend rows1 i l v states En) as [E1 [E2 [E3 E4]]].
             assert (Ep : p_proc rows1 = p_proc (append_at Z i states rows1)) by (unfold p_proc; rewrite E3; reflexivity).
             rewrite Ep. rewrite <- E2. apply IH; [unfold len in *; rewrite E3; exact Hl1 | lia]. }
  specialize (Loop lines rows None false (-1) Hlen ltac:(lia)).
  match goal with |- context [for_each_res lines body ?i] => set (R := for_each_res lines body i) end.
  match type of Loop with prel2_ig ?X _ => change X with R in Loop end.
  destruct R as [[[[[[c' p'] ns'] cm'] pr'] pg']| |];
    destruct (phylip_interleaved lower Z ((phylip_states_ig a ign)) o ntax nchar rows false (-1) lines) as [rows'| |];
    cbn [prel2_ig] in Loop; try contradiction; cbn [bind].
  - destruct Loop as [A [B C0]]. subst. reflexivity.
  - subst. reflexivity.
  - reflexivity.
Qed.

End PhylipLoopsIg.

Section PhylipReadIg.
Variable lower : text -> text.
Variable a : alphabet.
Variables (strict inter multi u2s ign : bool).

Theorem gen_phylip_read_ig : forall t,
  match PhylipReader_read lower strict multi u2s ign inter a (split_lines3 t) with
  | Ok (ns, cm, _) => Ok (to_matrix (ns, cm))
  | Err e => Err e
  | OutOfFuel => OutOfFuel
  end
  = read_phylip lower Z ((phylip_states_ig a ign)) (mkPR strict inter multi u2s) t.
Proof.
  intro t. unfold PhylipReader_read, read_phylip. set (lines := split_lines3 t).
  destruct (len lines =? 0) eqn:E0.
  - apply Z.eqb_eq in E0. replace (len lines <=? 2) with true by (symmetry; apply Z.leb_le; lia). reflexivity.
  - destruct (len lines <=? 2) eqn:E2; [reflexivity|].
    destruct lines as [|desc body]; [discriminate|].
    cbn [py_list_get Z.to_nat nth_error bind py_list_from skipn]. change (Z.to_nat 1) with 1%nat. cbn [skipn].
    unfold py_match_desc. destruct (parse_desc desc) as [[ntax nchar]|] eqn:Ed; [|reflexivity].
    cbn [fst snd]. destruct (parse_desc_nonneg _ _ _ Ed) as [Hn _].
    destruct ((ntax =? 0) || (nchar =? 0)); [reflexivity|].
    cbn [r_interleaved].
    assert (L0 : len (@nil (text * list Z)) <= ntax) by (unfold len; simpl; lia).
    destruct inter.
    + pose proof (gen_parse_interleaved_ig lower a strict true multi u2s ign ntax nchar body [] L0) as G.
      match goal with |- context [PhylipReader_parse_interleaved ?x1 ?x2 ?x3 ?x4 ?x5 ?x6 ?x7 ?x8 ?ns ?cm ?pr ?b] =>
        match type of G with _ = ?rhs =>
          replace (PhylipReader_parse_interleaved x1 x2 x3 x4 x5 x6 x7 x8 ns cm pr b) with rhs by (symmetry; exact G) end end.
      clear G.
      destruct (phylip_interleaved lower Z ((phylip_states_ig a ign)) (mkPR strict true multi u2s) ntax nchar [] false (-1) body)
        as [rows| |]; cbn [bind]; [|reflexivity|reflexivity].
      unfold p_proc, set_len, len at 1. rewrite seq_length. fold (len rows).
      destruct (len rows =? ntax); cbn [negb]; [|reflexivity].
      rewrite w_cm_keys. pose proof (length_check_loop nchar rows []) as LC. cbn [length app] in LC.
      match goal with |- context [bind ?X _] =>
        match type of LC with _ = ?rhs => assert (EX : X = rhs) by exact LC; rewrite EX; clear EX end end.
      destruct (forallb (fun r : text * list Z => len (snd r) =? nchar) rows); cbn [bind]; [|reflexivity].
      pose proof (to_matrix_w rows) as TM. unfold w_ns in TM. rewrite TM. reflexivity.
    + pose proof (gen_parse_sequential_ig lower a strict false multi u2s ign ntax nchar body [] L0) as G.
      match goal with |- context [PhylipReader_parse_sequential ?x1 ?x2 ?x3 ?x4 ?x5 ?x6 ?x7 ?x8 ?ns ?cm ?pr ?b] =>
        match type of G with _ = ?rhs =>
          replace (PhylipReader_parse_sequential x1 x2 x3 x4 x5 x6 x7 x8 ns cm pr b) with rhs by (symmetry; exact G) end end.
      clear G.
      destruct (phylip_sequential lower Z ((phylip_states_ig a ign)) (mkPR strict false multi u2s) ntax nchar [] None body)
        as [rows| |]; cbn [bind]; [|reflexivity|reflexivity].
      unfold p_proc, set_len, len at 1. rewrite seq_length. fold (len rows).
      destruct (len rows =? ntax); cbn [negb]; [|reflexivity].
      rewrite w_cm_keys. pose proof (length_check_loop nchar rows []) as LC. cbn [length app] in LC.
      match goal with |- context [bind ?X _] =>
        match type of LC with _ = ?rhs => assert (EX : X = rhs) by exact LC; rewrite EX; clear EX end end.
      destruct (forallb (fun r : text * list Z => len (snd r) =? nchar) rows); cbn [bind]; [|reflexivity].
      pose proof (to_matrix_w rows) as TM. unfold w_ns in TM. rewrite TM. reflexivity.
Qed.

End PhylipReadIg.
