(* C15 wave 10: wf_store is ESTABLISHED by build_world.

   For every list ts of rose trees whose node ids are pairwise distinct (NoDup (flat_map ids ts)),
   build_world ts empty_store succeeds, its live trees are the seeds of ts in order, and every live tree
   is well formed (world_wf, i.e. wf_store with the fuel S (length (s_nodes s)) the executable check uses);
   the tree read off the store at each seed has exactly the node ids of the tree that was built.  Hence the
   machines of Gen/Traversals.v yield their structural orders on every freshly built world
   (traversals_on_built_worlds), without the wf_store hypothesis. *)
From Coq Require Import ZArith List Bool Arith Lia.
From DV Require Import Model.PyPrims Model.Tree Model.C15Prims Model.C15WorldPrims
     Gen.Traversals Gen.TraversalsObj Model.C15Model Model.C15World
     Proofs.C15Base Proofs.C15Proofs Proofs.C15Apply Proofs.C15Order Proofs.C15Edges Proofs.C15Final
     Proofs.C15WorldProofs Proofs.C15Refused Proofs.C15W9Sim Proofs.C15W9Store.
Import ListNotations.
Open Scope Z_scope.

(* ---- association lists ---- *)
Lemma alookup_app {A} k (l l' : list (Z * A)) :
  alookup k (l ++ l') = match alookup k l with Some v => Some v | None => alookup k l' end.
Proof. induction l as [|[k' v] r IH]; simpl; [reflexivity|]. destruct (Z.eqb k k'); [reflexivity|exact IH]. Qed.

Lemma alookup_aset {A} k k' (v : A) l : alookup k (aset k' v l) = if Z.eqb k k' then Some v else alookup k l.
Proof.
  induction l as [|[k2 v2] r IH]; simpl; [reflexivity|].
  destruct (Z.eqb k' k2) eqn:E2; simpl.
  - apply Z.eqb_eq in E2. subst k2. destruct (Z.eqb k k'); reflexivity.
  - destruct (Z.eqb k k2) eqn:E; [|exact IH].
    destruct (Z.eqb k k') eqn:E3; [|reflexivity].
    apply Z.eqb_eq in E. apply Z.eqb_eq in E3. subst. rewrite Z.eqb_refl in E2. discriminate.
Qed.

(* ---- the structural invariant of stores ---- *)
Definition dom (s : store) (x : Z) : Prop := node_of s x <> None.

Definition sok (s : store) : Prop :=
  (forall x r, node_of s x = Some r -> n_kids r < s_next s /\ list_of s (n_kids r) <> None) /\
  (forall l c, list_of s l = Some c -> l < s_next s) /\
  (forall x y rx ry, node_of s x = Some rx -> node_of s y = Some ry -> n_kids rx = n_kids ry -> x = y).

Lemma new_node_spec s x : sok s -> ~ dom s x ->
  exists s', new_node x s = Ok (tt, s') /\ sok s' /\ s_trees s' = s_trees s /\ s_held s' = s_held s /\
    (forall y, dom s' y <-> dom s y \/ y = x) /\
    (forall y, y <> x -> kids_of s' y = kids_of s y /\ parent_of s' y = parent_of s y) /\
    kids_of s' x = [] /\ parent_of s' x = None.
Proof.
  intros [S1 [S2 S3]] Hx. unfold dom in *.
  destruct (node_of s x) eqn:Ex; [exfalso; apply Hx; discriminate|]. clear Hx.
  eexists. split; [unfold new_node; rewrite Ex; reflexivity|].
  set (s' := mkS _ _ _ _ _).
  assert (N : forall y, node_of s' y = match node_of s y with Some r => Some r
                                      | None => if Z.eqb y x then Some (mkN (s_next s) None) else None end).
  { intro y. unfold node_of, s'. simpl. rewrite alookup_app. reflexivity. }
  assert (L : forall l, list_of s' l = match list_of s l with Some c => Some c
                                      | None => if Z.eqb l (s_next s) then Some [] else None end).
  { intro l. unfold list_of, s'. simpl. rewrite alookup_app. reflexivity. }
  assert (Ln : list_of s (s_next s) = None).
  { destruct (list_of s (s_next s)) eqn:E; [|reflexivity]. apply S2 in E. lia. }
  assert (Nx : s_next s' = s_next s + 1) by reflexivity.
  split; [|split; [reflexivity|split; [reflexivity|split; [|split; [|split]]]]].
  - split; [|split].
    + intros y r. rewrite N, Nx. destruct (node_of s y) eqn:Ey.
      * intro E. inversion E; subst. destruct (S1 y r Ey) as [A B]. split; [lia|].
        rewrite L. destruct (list_of s (n_kids r)); [discriminate|contradiction].
      * destruct (Z.eqb y x); [|discriminate]. intro E. inversion E; subst. simpl. split; [lia|].
        rewrite L, Ln, Z.eqb_refl. discriminate.
    + intros l c. rewrite L, Nx. destruct (list_of s l) eqn:El.
      * intros _. apply S2 in El. lia.
      * destruct (Z.eqb l (s_next s)) eqn:E; [|discriminate]. apply Z.eqb_eq in E. lia.
    + intros a b ra rb. rewrite !N.
      destruct (node_of s a) eqn:Ea, (node_of s b) eqn:Eb.
      * intros E1 E2. inversion E1; inversion E2; subst. eapply S3; eauto.
      * destruct (Z.eqb b x); [|discriminate]. intros E1 E2 E. inversion E1; inversion E2; subst. simpl in E.
        destruct (S1 a ra Ea). lia.
      * destruct (Z.eqb a x); [|discriminate]. intros E1 E2 E. inversion E1; inversion E2; subst. simpl in E.
        destruct (S1 b rb Eb). lia.
      * destruct (Z.eqb a x) eqn:A; [|discriminate]. destruct (Z.eqb b x) eqn:B; [|discriminate].
        apply Z.eqb_eq in A. apply Z.eqb_eq in B. intros. congruence.
  - intro y. rewrite N. destruct (node_of s y) eqn:Ey.
    + split; [intros _; left; discriminate|intros _; discriminate].
    + destruct (Z.eqb y x) eqn:E.
      * apply Z.eqb_eq in E. split; [intros _; right; exact E|intros _; discriminate].
      * apply Z.eqb_neq in E. split; [intro F; contradiction|intros [F|F]; contradiction].
  - intros y Hy. apply Z.eqb_neq in Hy. unfold kids_of, parent_of. rewrite N, Hy.
    destruct (node_of s y) eqn:Ey; [|split; reflexivity]. split; [|reflexivity].
    rewrite L. destruct (S1 y n Ey) as [_ B]. destruct (list_of s (n_kids n)); [reflexivity|contradiction].
  - unfold kids_of. rewrite N, Ex, Z.eqb_refl. simpl. rewrite L, Ln, Z.eqb_refl. reflexivity.
  - unfold parent_of. rewrite N, Ex, Z.eqb_refl. reflexivity.
Qed.

Lemma mbind_ok {A B} (m : M A) (f : A -> M B) s a s' : m s = Ok (a, s') -> mbind m f s = f a s'.
Proof. intro H. unfold mbind. rewrite H. reflexivity. Qed.

Lemma add_child_spec s i k : sok s -> dom s i -> dom s k -> k <> i -> parent_of s i <> Some k -> ~ In k (kids_of s i) ->
  exists s', Node_add_child_obj i k s = Ok (k, s') /\ sok s' /\ s_trees s' = s_trees s /\ s_held s' = s_held s /\
    (forall y, dom s' y <-> dom s y) /\
    (forall y, y <> i -> kids_of s' y = kids_of s y) /\ kids_of s' i = kids_of s i ++ [k] /\
    (forall y, y <> k -> parent_of s' y = parent_of s y) /\ parent_of s' k = Some i.
Proof.
  intros [S1 [S2 S3]] Di Dk Hki Hp Hin. unfold dom in *.
  destruct (node_of s i) as [ri|] eqn:Ei; [|contradiction]. destruct (node_of s k) as [rk|] eqn:Ek; [|contradiction].
  destruct (S1 i ri Ei) as [_ Lc]. destruct (list_of s (n_kids ri)) as [c|] eqn:Ec; [|contradiction]. clear Lc.
  assert (Ki : kids_of s i = c) by (unfold kids_of; rewrite Ei, Ec; reflexivity).
  assert (Pi : parent_of s i = n_parent ri) by (unfold parent_of; rewrite Ei; reflexivity).
  rewrite Ki in Hin. rewrite Pi in Hp.
  assert (Hki' : Z.eqb k i = false) by (apply Z.eqb_neq; exact Hki).
  assert (Hik' : Z.eqb i k = false) by (apply Z.eqb_neq; intro; apply Hki; symmetry; assumption).
  assert (Ho : opt_is (n_parent ri) k = false).
  { destruct (n_parent ri) as [q|]; simpl; [|reflexivity]. apply Z.eqb_neq. intro E. apply Hp. subst. reflexivity. }
  assert (Hm : C15WorldPrims.memZ k c = false).
  { destruct (C15WorldPrims.memZ k c) eqn:E; [|reflexivity]. change (C15Model.memZ k c = true) in E.
    apply memZ_In in E. contradiction. }
  set (s1 := set_nodes s (aset k (mkN (n_kids rk) (Some i)) (s_nodes s))).
  set (s2 := set_lists s1 (aset (n_kids ri) (c ++ [k]) (s_lists s1))).
  assert (N1 : forall y, node_of s1 y = if Z.eqb y k then Some (mkN (n_kids rk) (Some i)) else node_of s y).
  { intro y. unfold node_of, s1, set_nodes. simpl. apply alookup_aset. }
  assert (L1 : forall l, list_of s1 l = list_of s l) by reflexivity.
  assert (N2 : forall y, node_of s2 y = node_of s1 y) by reflexivity.
  assert (L2 : forall l, list_of s2 l = if Z.eqb l (n_kids ri) then Some (c ++ [k]) else list_of s l).
  { intro l. unfold list_of, s2, set_lists. simpl. apply alookup_aset. }
  exists s2. split.
  { unfold Node_add_child_obj. rewrite Hki'. cbn [negb].
    erewrite mbind_ok; [|unfold o_get_parent; rewrite Ei; reflexivity].
    rewrite Ho. cbn [negb].
    erewrite mbind_ok; [|unfold o_set_parent; rewrite Ek; reflexivity]. fold s1.
    unfold mbind at 1.
    erewrite mbind_ok; [|unfold o_child_list; rewrite N1, Hik', Ei; reflexivity].
    erewrite mbind_ok; [|unfold l_mem; erewrite mbind_ok; [|unfold l_contents; rewrite L1, Ec; reflexivity]; reflexivity].
    rewrite Hm. cbn [negb].
    erewrite mbind_ok; [|unfold o_child_list; rewrite N1, Hik', Ei; reflexivity].
    unfold l_append. erewrite mbind_ok; [|unfold l_contents; rewrite L1, Ec; reflexivity].
    unfold l_put. rewrite L1, Ec. reflexivity. }
  assert (NK : forall y r, node_of s2 y = Some r -> exists r0, node_of s y = Some r0 /\ n_kids r = n_kids r0).
  { intros y r. rewrite N2, N1. destruct (Z.eqb y k) eqn:E.
    - apply Z.eqb_eq in E. subst y. intro H. inversion H; subst. exists rk. split; [exact Ek|reflexivity].
    - intro H. exists r. split; [exact H|reflexivity]. }
  split; [|split; [reflexivity|split; [reflexivity|split; [|split; [|split; [|split]]]]]].
  - split; [|split].
    + intros y r Hy. destruct (NK y r Hy) as [r0 [E0 Ek0]]. rewrite Ek0. destruct (S1 y r0 E0) as [A B].
      split; [exact A|]. rewrite L2. destruct (Z.eqb (n_kids r0) (n_kids ri)); [discriminate|exact B].
    + intros l c0. rewrite L2. destruct (Z.eqb l (n_kids ri)) eqn:E.
      * intros _. apply Z.eqb_eq in E. subst l. exact (S2 _ _ Ec).
      * apply S2.
    + intros a b ra rb Ha Hb E. destruct (NK a ra Ha) as [ra0 [Ea0 Eka]]. destruct (NK b rb Hb) as [rb0 [Eb0 Ekb]].
      apply (S3 a b ra0 rb0 Ea0 Eb0). congruence.
  - intro y. rewrite N2, N1. destruct (Z.eqb y k) eqn:E.
    + apply Z.eqb_eq in E. subst y. rewrite Ek. split; intros _; discriminate.
    + reflexivity.
  - intros y Hy. unfold kids_of. rewrite N2, N1. destruct (Z.eqb y k) eqn:E.
    + apply Z.eqb_eq in E. subst y. rewrite Ek. rewrite L2. cbn [n_kids].
      destruct (Z.eqb (n_kids rk) (n_kids ri)) eqn:F; [|reflexivity].
      apply Z.eqb_eq in F. exfalso. apply Hki. exact (S3 k i rk ri Ek Ei F).
    + destruct (node_of s y) as [ry|] eqn:Ey; [|reflexivity]. rewrite L2.
      destruct (Z.eqb (n_kids ry) (n_kids ri)) eqn:F; [|reflexivity].
      apply Z.eqb_eq in F. exfalso. apply Hy. exact (S3 y i ry ri Ey Ei F).
  - unfold kids_of at 1. rewrite N2, N1, Hik', Ei, L2, Z.eqb_refl, Ki. reflexivity.
  - intros y Hy. apply Z.eqb_neq in Hy. unfold parent_of. rewrite N2, N1, Hy. reflexivity.
  - unfold parent_of. rewrite N2, N1, Z.eqb_refl. reflexivity.
Qed.

(* ---- "the store holds the tree t at node t_id t" ---- *)
Inductive grep (s : store) : tree -> Prop :=
| grep_T i x l e ks : kids_of s i = map t_id ks ->
    Forall (fun k => parent_of s (t_id k) = Some i /\ grep s k) ks -> grep s (T i x l e ks).

Lemma ids_unfold i x l e ks : ids (T i x l e ks) = i :: flat_map ids ks.
Proof. unfold ids. simpl. f_equal. induction ks as [|k r IH]; simpl; [reflexivity|]. rewrite map_app, IH. reflexivity. Qed.

Lemma ids_head t : ids t = t_id t :: flat_map ids (t_kids t).
Proof. destruct t. apply ids_unfold. Qed.

Lemma grep_frame s s' : forall t, grep s t ->
  (forall y, In y (ids t) -> kids_of s' y = kids_of s y) ->
  (forall y, In y (flat_map ids (t_kids t)) -> parent_of s' y = parent_of s y) -> grep s' t.
Proof.
  induction t as [i x l e ks IH] using tree_ind'. intros G HK HP. inversion G as [? ? ? ? ? Gk GF]; subst.
  constructor.
  - rewrite HK; [exact Gk|]. rewrite ids_unfold. left. reflexivity.
  - simpl in HP. rewrite Forall_forall in *. intros k Hk. destruct (GF k Hk) as [Pk Gk'].
    assert (Hsub : forall y, In y (ids k) -> In y (flat_map ids ks)).
    { intros y Hy. apply in_flat_map. exists k. split; assumption. }
    split.
    + rewrite HP; [exact Pk|]. apply Hsub. rewrite ids_head. left. reflexivity.
    + apply (IH k Hk Gk').
      * intros y Hy. apply HK. rewrite ids_unfold. right. apply Hsub. exact Hy.
      * intros y Hy. apply HP. apply Hsub. rewrite ids_head. right. exact Hy.
Qed.

Lemma NoDup_app_inv {A} (a b : list A) : NoDup (a ++ b) -> NoDup a /\ NoDup b /\ (forall x, In x a -> ~ In x b).
Proof.
  induction a as [|h r IH]; simpl; intro N.
  - split; [constructor|split; [exact N|intros x []]].
  - inversion N as [|? ? Hh Nr]; subst. destruct (IH Nr) as [Na [Nb D]]. split; [|split; [exact Nb|]].
    + constructor; [|exact Na]. intro F. apply Hh. apply in_or_app. left. exact F.
    + intros x [E|Hx]; [subst; intro F; apply Hh; apply in_or_app; right; exact F|apply D; exact Hx].
Qed.

(* ---- build ---- *)
Fixpoint build_kids (i : Z) (ks : list tree) : M unit :=
  match ks with
  | [] => ret tt
  | k :: r => mbind (new_node (t_id k)) (fun _ =>
              mbind (Node_add_child_obj i (t_id k)) (fun _ =>
              mbind (build k) (fun _ => build_kids i r)))
  end.

Lemma build_eq i x l e ks : build (T i x l e ks) = build_kids i ks.
Proof. simpl. induction ks as [|k r IH]; [reflexivity|]. simpl. rewrite IH. reflexivity. Qed.

Definition build_post (s s' : store) (i : Z) (D : list Z) : Prop :=
  sok s' /\ s_trees s' = s_trees s /\ s_held s' = s_held s /\
  (forall y, dom s' y <-> dom s y \/ In y D) /\
  (forall y, dom s y -> y <> i -> kids_of s' y = kids_of s y) /\
  (forall y, dom s y -> parent_of s' y = parent_of s y).

Definition build_ok (t : tree) : Prop :=
  forall s, sok s -> dom s (t_id t) -> kids_of s (t_id t) = [] ->
    (forall q, parent_of s (t_id t) = Some q -> dom s q) ->
    NoDup (flat_map ids (t_kids t)) -> (forall y, In y (flat_map ids (t_kids t)) -> ~ dom s y) ->
    exists s', build t s = Ok (tt, s') /\ build_post s s' (t_id t) (flat_map ids (t_kids t)) /\ grep s' t.

Lemma kids_spec i : forall rest, Forall build_ok rest -> forall done s,
  sok s -> dom s i -> kids_of s i = map t_id done -> Forall (dom s) (map t_id done) ->
  (forall q, parent_of s i = Some q -> dom s q) ->
  NoDup (flat_map ids rest) -> (forall y, In y (flat_map ids rest) -> ~ dom s y) ->
  exists s', build_kids i rest s = Ok (tt, s') /\ build_post s s' i (flat_map ids rest) /\
    kids_of s' i = map t_id (done ++ rest) /\
    Forall (fun k => parent_of s' (t_id k) = Some i /\ grep s' k) rest.
Proof.
  induction 1 as [|k r Hk _ IH]; intros done s So Di Ki Fd Hp ND Fr.
  - exists s. split; [reflexivity|]. split; [|split; [rewrite app_nil_r; exact Ki|constructor]].
    split; [exact So|split; [reflexivity|split; [reflexivity|split; [|split; intros; reflexivity]]]].
    intro y. simpl. tauto.
  - simpl flat_map in ND, Fr. rewrite (ids_head k) in ND, Fr.
    set (kk := t_id k) in *. set (Dk := flat_map ids (t_kids k)) in *. set (Dr := flat_map ids r) in *.
    destruct (NoDup_app_inv _ _ ND) as [NDk [NDr Dis]]. inversion NDk as [|? ? Hkk NDk']; subst.
    assert (Fkk : ~ dom s kk) by (apply Fr; left; reflexivity).
    assert (Hki : kk <> i) by (intro E; apply Fkk; rewrite E; exact Di).
    destruct (new_node_spec s kk So Fkk) as [s1 [E1 [So1 [T1 [H1 [D1 [F1 [K1 P1]]]]]]]].
    assert (Di1 : dom s1 i) by (apply D1; left; exact Di).
    assert (Dk1 : dom s1 kk) by (apply D1; right; reflexivity).
    assert (Hik : i <> kk) by (intro E; apply Hki; symmetry; exact E).
    destruct (F1 i Hik) as [Ki1 Pi1].
    destruct (add_child_spec s1 i kk So1 Di1 Dk1 Hki) as [s2 [E2 [So2 [T2 [H2 [D2 [KO2 [KI2 [PO2 PK2]]]]]]]]].
    { rewrite Pi1. intro E. apply Fkk. apply Hp. exact E. }
    { rewrite Ki1, Ki. intro F. rewrite Forall_forall in Fd. exact (Fkk (Fd kk F)). }
    assert (Di2 : dom s2 i) by (apply D2; exact Di1).
    assert (Dk2 : dom s2 kk) by (apply D2; exact Dk1).
    destruct (Hk s2 So2 Dk2) as [s3 [E3 [[So3 [T3 [H3 [D3 [KF3 PF3]]]]] G3]]].
    { fold kk. rewrite (KO2 kk Hki). exact K1. }
    { intros q E. fold kk in E. rewrite PK2 in E. inversion E; subst. exact Di2. }
    { exact NDk'. }
    { fold Dk. intros y Hy F. apply D2 in F. apply D1 in F. destruct F as [F|F].
      - apply (Fr y); [|exact F]. right. apply in_or_app. left. exact Hy.
      - subst y. exact (Hkk Hy). }
    fold kk in E3, D3, KF3, PF3. fold Dk in D3.
    assert (DD : forall y, dom s3 y <-> dom s y \/ y = kk \/ In y Dk).
    { intro y. rewrite D3, D2, D1. tauto. }
    assert (Di3 : dom s3 i) by (apply DD; left; exact Di).
    assert (Ki3 : kids_of s3 i = map t_id (done ++ [k])).
    { rewrite (KF3 i Di2 Hik), KI2, Ki1, Ki, map_app. reflexivity. }
    destruct (IH (done ++ [k]) s3 So3 Di3 Ki3) as [s4 [E4 [[So4 [T4 [H4 [D4 [KF4 PF4]]]]] [KI4 GF4]]]].
    { rewrite map_app. apply Forall_app. split.
      - rewrite Forall_forall in *. intros y Hy. apply DD. left. exact (Fd y Hy).
      - constructor; [|constructor]. apply DD. right. left. reflexivity. }
    { intros q E. rewrite (PF3 i Di2), (PO2 i Hik), Pi1 in E. apply DD. left. exact (Hp q E). }
    { exact NDr. }
    { intros y Hy F. apply DD in F. destruct F as [F|[F|F]].
      - apply (Fr y); [|exact F]. right. apply in_or_app. right. exact Hy.
      - subst y. apply (Dis kk); [left; reflexivity|exact Hy].
      - apply (Dis y); [right; exact F|exact Hy]. }
    exists s4. split; [|split; [|split]].
    + simpl build_kids. fold kk. erewrite mbind_ok; [|exact E1]. erewrite mbind_ok; [|exact E2].
      erewrite mbind_ok; [|exact E3]. exact E4.
    + split; [exact So4|split; [congruence|split; [congruence|split; [|split]]]].
      * intro y. simpl flat_map. rewrite (ids_head k). fold kk Dk Dr. rewrite D4, DD, in_app_iff. simpl. intuition congruence.
      * intros y Dy Hy. assert (Hyk : y <> kk) by (intro E; subst y; exact (Fkk Dy)).
        rewrite (KF4 y), (KF3 y), (KO2 y Hy); auto.
        -- apply F1. exact Hyk.
        -- apply D2. apply D1. left. exact Dy.
        -- apply DD. left. exact Dy.
      * intros y Dy. assert (Hyk : y <> kk) by (intro E; subst y; exact (Fkk Dy)).
        rewrite (PF4 y), (PF3 y), (PO2 y Hyk).
        -- apply F1. exact Hyk.
        -- apply D2. apply D1. left. exact Dy.
        -- apply DD. left. exact Dy.
    + rewrite KI4, <- app_assoc. reflexivity.
    + constructor; [|exact GF4]. fold kk.
      assert (Dk3 : dom s3 kk) by (apply DD; right; left; reflexivity).
      split.
      * rewrite (PF4 kk Dk3), (PF3 kk Dk2). exact PK2.
      * apply (grep_frame s3 s4 k G3).
        -- intros y Hy. rewrite ids_head in Hy. fold kk Dk in Hy. apply KF4.
           ++ apply DD. right. destruct Hy as [Hy|Hy]; [left; symmetry; exact Hy|right; exact Hy].
           ++ intro E. subst y. apply (Fr i); [|exact Di]. apply in_or_app. left. exact Hy.
        -- intros y Hy. apply PF4. apply DD. right. right. exact Hy.
Qed.

Theorem build_spec : forall t, build_ok t.
Proof.
  induction t as [i x l e ks IH] using tree_ind'. intros s So Di Ki Hp ND Fr. simpl t_id in *. simpl t_kids in *.
  destruct (kids_spec i ks IH [] s So Di Ki (Forall_nil _) Hp ND Fr) as [s' [E [BP [KI GF]]]].
  exists s'. split; [rewrite build_eq; exact E|]. split; [exact BP|]. constructor; [exact KI|exact GF].
Qed.

(* ---- from grep to the executable wf_store ---- *)
Lemma size_in_sizes k ks : In k ks -> (size k <= sizes ks)%nat.
Proof.
  induction ks as [|a r IH]; intro H; [destruct H|]. rewrite sizes_cons.
  destruct H as [E|H]; [subst; lia|specialize (IH H); lia].
Qed.

Lemma grep_wf s : forall t f p, grep s t -> parent_of s (t_id t) = p -> (size t <= f)%nat ->
  wf_from s f p (t_id t) = true.
Proof.
  induction t as [i x l e ks IH] using tree_ind'. intros f p G Hp Hs. inversion G as [? ? ? ? ? Gk GF]; subst.
  rewrite size_eq in Hs. destruct f as [|f]; [lia|]. simpl t_id in *. cbn [wf_from].
  apply andb_true_iff. split.
  - destruct (parent_of s i); simpl; [apply Z.eqb_refl|reflexivity].
  - rewrite Gk. apply forallb_forall. intros y Hy. apply in_map_iff in Hy. destruct Hy as [k [Ek Hk]]. subst y.
    rewrite Forall_forall in IH, GF. destruct (GF k Hk) as [Pk Gk']. apply (IH k Hk f (Some i) Gk' Pk).
    pose proof (size_in_sizes k ks Hk). lia.
Qed.

Lemma grep_ids s : forall t f, grep s t -> (size t <= f)%nat -> ids (store_tree s f (t_id t)) = ids t.
Proof.
  induction t as [i x l e ks IH] using tree_ind'. intros f G Hs. inversion G as [? ? ? ? ? Gk GF]; subst.
  rewrite size_eq in Hs. destruct f as [|f]; [lia|]. simpl t_id. cbn [store_tree]. rewrite !ids_unfold. f_equal.
  rewrite Gk. clear Gk G.
  assert (H : forall k, In k ks -> ids (store_tree s f (t_id k)) = ids k).
  { intros k Hk. rewrite Forall_forall in IH, GF. apply (IH k Hk f); [apply GF; exact Hk|].
    pose proof (size_in_sizes k ks Hk). lia. }
  clear -H. induction ks as [|k r IHr]; simpl; [reflexivity|]. rewrite H; [|left; reflexivity]. f_equal.
  apply IHr. intros. apply H. right. assumption.
Qed.

Lemma NoDup_nodup_b l : NoDup l -> nodup_b l = true.
Proof.
  induction 1 as [|x r Hx _ IH]; simpl; [reflexivity|]. rewrite IH, andb_true_r.
  match goal with |- negb ?m = true => destruct m eqn:E end; [|reflexivity].
  apply memZ_In in E. contradiction.
Qed.

Lemma ids_length : forall t, length (ids t) = size t.
Proof.
  induction t as [i x l e ks IH] using tree_ind'. rewrite ids_unfold, size_eq. cbn [length]. f_equal.
  induction IH as [|k r Hk _ IHr]; [reflexivity|]. cbn [flat_map]. rewrite app_length, sizes_cons. lia.
Qed.

Lemma dom_length s L : NoDup L -> (forall y, In y L -> dom s y) -> (length L <= length (s_nodes s))%nat.
Proof.
  intros N H. rewrite <- (map_length fst (s_nodes s)). apply NoDup_incl_length; [exact N|].
  intros y Hy. specialize (H y Hy). unfold dom, node_of in H.
  destruct (alookup y (s_nodes s)) eqn:E; [|contradiction]. exact (alookup_In _ _ _ E).
Qed.

Definition live (s : store) (t : tree) : Prop :=
  grep s t /\ parent_of s (t_id t) = None /\ (forall y, In y (ids t) -> dom s y).

Lemma live_wf_store s t : live s t -> NoDup (ids t) ->
  wf_store s (S (length (s_nodes s))) (t_id t) = true /\
  ids (store_tree s (S (length (s_nodes s))) (t_id t)) = ids t.
Proof.
  intros [G [P D]] N.
  assert (Hs : (size t <= S (length (s_nodes s)))%nat).
  { rewrite <- ids_length. pose proof (dom_length s (ids t) N D). lia. }
  pose proof (grep_ids s t _ G Hs) as EI. split; [|exact EI].
  unfold wf_store. rewrite (grep_wf s t _ None G P Hs), EI. simpl. apply NoDup_nodup_b. exact N.
Qed.

Lemma live_frame s s' t : live s t ->
  (forall y, dom s y -> dom s' y /\ kids_of s' y = kids_of s y /\ parent_of s' y = parent_of s y) -> live s' t.
Proof.
  intros [G [P D]] F. split; [|split].
  - apply (grep_frame s s' t G).
    + intros y Hy. apply F. apply D. exact Hy.
    + intros y Hy. apply F. apply D. rewrite ids_head. right. exact Hy.
  - destruct (F (t_id t)) as [_ [_ E]]; [apply D; rewrite ids_head; left; reflexivity|]. rewrite E. exact P.
  - intros y Hy. apply F. apply D. exact Hy.
Qed.

(* ---- Tree(seed_node=x) for a parentless node: only the list of live trees grows ---- *)
Lemma set_seed_new s x : dom s x -> parent_of s x = None ->
  exists s', Tree_set_seed_node_obj (n_trees s) (Some x) s = Ok (tt, s') /\
    s_trees s' = s_trees s ++ [x] /\ s_held s' = s_held s /\ s_next s' = s_next s /\
    (forall y, node_of s' y = node_of s y) /\ (forall l, list_of s' l = list_of s l).
Proof.
  unfold dom, parent_of. intros Dx Px. destruct (node_of s x) as [rx|] eqn:Ex; [|contradiction].
  set (sA := mkS (s_nodes s) (s_lists s) (s_next s) (s_trees s ++ [x]) (s_held s)).
  set (sB := set_nodes sA (aset x (mkN (n_kids rx) None) (s_nodes sA))).
  assert (NA : forall y, node_of sA y = node_of s y) by reflexivity.
  assert (NB : forall y, node_of sB y = node_of s y).
  { intro y. unfold node_of, sB, set_nodes. simpl. rewrite alookup_aset. destruct (Z.eqb y x) eqn:E; [|reflexivity].
    apply Z.eqb_eq in E. subst y. fold (node_of s x). rewrite Ex. destruct rx. simpl in *. subst. reflexivity. }
  exists sB. split; [|repeat split; try reflexivity; exact NB].
  assert (GA : o_get_parent x sA = Ok (None, sA)).
  { unfold o_get_parent. rewrite NA, Ex, Px. reflexivity. }
  assert (GB : o_get_parent x sB = Ok (None, sB)).
  { unfold o_get_parent. rewrite NB, Ex, Px. reflexivity. }
  unfold Tree_set_seed_node_obj. erewrite mbind_ok with (a := tt) (s' := sA).
  2:{ unfold t_set_seed, n_trees. 
      destruct (Z.ltb (Z.of_nat (length (s_trees s))) 0) eqn:E1; [apply Z.ltb_lt in E1; lia|].
      rewrite Z.ltb_irrefl, Z.eqb_refl. reflexivity. }
  cbn [negb]. unfold mbind at 1. erewrite mbind_ok; [|exact GA]. cbn [negb]. unfold ret at 1.
  unfold Node_set_parent_node_obj. unfold mbind at 1. erewrite mbind_ok; [|exact GA]. cbn [negb]. unfold ret at 1.
  erewrite mbind_ok with (a := tt) (s' := sB); [|unfold o_set_parent; rewrite NA, Ex; reflexivity].
  erewrite mbind_ok; [|exact GB]. reflexivity.
Qed.

Lemma sok_ext s s' : sok s -> s_next s' = s_next s ->
  (forall y, node_of s' y = node_of s y) -> (forall l, list_of s' l = list_of s l) -> sok s'.
Proof.
  intros [S1 [S2 S3]] En N L. split; [|split].
  - intros x r. rewrite N, En, L. apply S1.
  - intros l c. rewrite L, En. apply S2.
  - intros x y rx ry. rewrite !N. apply S3.
Qed.

Lemma new_tree_spec t s : sok s -> NoDup (ids t) -> (forall y, In y (ids t) -> ~ dom s y) ->
  exists s', new_tree t s = Ok (tt, s') /\ sok s' /\ s_trees s' = s_trees s ++ [t_id t] /\ s_held s' = s_held s /\
    (forall y, dom s y -> dom s' y /\ kids_of s' y = kids_of s y /\ parent_of s' y = parent_of s y) /\
    (forall y, dom s' y <-> dom s y \/ In y (ids t)) /\ live s' t.
Proof.
  intros So N Fr. rewrite ids_head in N, Fr. set (x := t_id t) in *. set (D := flat_map ids (t_kids t)) in *.
  inversion N as [|? ? HxD ND]; subst.
  assert (Fx : ~ dom s x) by (apply Fr; left; reflexivity).
  destruct (new_node_spec s x So Fx) as [s1 [E1 [So1 [T1 [H1 [D1 [F1 [K1 P1]]]]]]]].
  assert (Dx1 : dom s1 x) by (apply D1; right; reflexivity).
  destruct (set_seed_new s1 x Dx1 P1) as [s2 [E2 [T2 [H2 [X2 [N2 L2]]]]]].
  pose proof (sok_ext s1 s2 So1 X2 N2 L2) as So2.
  assert (K2 : forall y, kids_of s2 y = kids_of s1 y).
  { intro y. unfold kids_of. rewrite N2. destruct (node_of s1 y); [rewrite L2|]; reflexivity. }
  assert (P2 : forall y, parent_of s2 y = parent_of s1 y) by (intro y; unfold parent_of; rewrite N2; reflexivity).
  assert (D2 : forall y, dom s2 y <-> dom s1 y) by (intro y; unfold dom; rewrite N2; reflexivity).
  destruct (build_spec t s2 So2) as [s3 [E3 [[So3 [T3 [H3 [D3 [KF3 PF3]]]]] G3]]].
  { apply D2. exact Dx1. }
  { fold x. rewrite K2. exact K1. }
  { fold x. intros q E. rewrite P2, P1 in E. discriminate. }
  { exact ND. }
  { fold D. intros y Hy F. apply D2 in F. apply D1 in F. destruct F as [F|F].
    - apply (Fr y); [right; exact Hy|exact F].
    - subst y. exact (HxD Hy). }
  fold x D in D3, KF3, PF3.
  assert (DD : forall y, dom s3 y <-> dom s y \/ In y (x :: D)).
  { intro y. rewrite D3, D2, D1. simpl. intuition congruence. }
  exists s3. split; [|split; [exact So3|split; [|split; [congruence|split; [|split; [|split; [exact G3|split]]]]]]].
  - unfold new_tree. fold x. erewrite mbind_ok; [|exact E1]. erewrite mbind_ok; [|exact E2]. exact E3.
  - rewrite T3, T2, T1. reflexivity.
  - intros y Dy. assert (Hyx : y <> x) by (intro E; subst y; exact (Fx Dy)).
    assert (Dy2 : dom s2 y) by (apply D2; apply D1; left; exact Dy).
    split; [apply DD; left; exact Dy|]. destruct (F1 y Hyx) as [A B].
    rewrite (KF3 y Dy2 Hyx), (PF3 y Dy2), K2, P2. split; assumption.
  - intro y. rewrite ids_head. fold x D. apply DD.
  - fold x. rewrite (PF3 x), P2; [exact P1|]. apply D2. exact Dx1.
  - intros y Hy. rewrite ids_head in Hy. fold x D in Hy. apply DD. right. exact Hy.
Qed.

Lemma NoDup_flat_map_in {A B} (f : A -> list B) l x : NoDup (flat_map f l) -> In x l -> NoDup (f x).
Proof.
  induction l as [|a r IH]; simpl; intros N H; [destruct H|].
  destruct (NoDup_app_inv _ _ N) as [Na [Nr _]]. destruct H as [E|H]; [subst; exact Na|exact (IH Nr H)].
Qed.

Lemma build_world_spec : forall ts s F, sok s -> Forall (live s) F -> s_trees s = map t_id F ->
  NoDup (flat_map ids ts) -> (forall y, In y (flat_map ids ts) -> ~ dom s y) ->
  exists s', build_world ts s = Ok (tt, s') /\ sok s' /\ Forall (live s') (F ++ ts) /\
    s_trees s' = map t_id (F ++ ts) /\ s_held s' = s_held s.
Proof.
  induction ts as [|t r IH]; intros s F So LF TF N Fr.
  - exists s. rewrite app_nil_r. split; [reflexivity|split; [exact So|split; [exact LF|split; [exact TF|reflexivity]]]].
  - simpl flat_map in N, Fr. destruct (NoDup_app_inv _ _ N) as [Nt [Nr Dis]].
    destruct (new_tree_spec t s So Nt) as [s1 [E1 [So1 [T1 [H1 [F1 [D1 L1]]]]]]].
    { intros y Hy. apply Fr. apply in_or_app. left. exact Hy. }
    destruct (IH s1 (F ++ [t]) So1) as [s2 [E2 [So2 [L2 [T2 H2]]]]].
    { apply Forall_app. split; [|constructor; [exact L1|constructor]].
      rewrite Forall_forall in *. intros u Hu. exact (live_frame s s1 u (LF u Hu) F1). }
    { rewrite T1, TF, map_app. reflexivity. }
    { exact Nr. }
    { intros y Hy Dy. apply D1 in Dy. destruct Dy as [Dy|Dy].
      - apply (Fr y); [apply in_or_app; right; exact Hy|exact Dy].
      - exact (Dis y Dy Hy). }
    exists s2. rewrite <- app_assoc in L2, T2. simpl in L2, T2.
    split; [simpl; erewrite mbind_ok; [|exact E1]; exact E2|].
    split; [exact So2|split; [exact L2|split; [exact T2|congruence]]].
Qed.

Lemma sok_empty : sok empty_store.
Proof. split; [|split]; intros; discriminate. Qed.

(* ---- (1): build_world establishes world_wf ---- *)
Theorem build_world_establishes_wf (ts : list tree) : NoDup (flat_map ids ts) ->
  exists s, build_world ts empty_store = Ok (tt, s) /\
    s_trees s = map t_id ts /\ s_held s = [] /\
    world_wf s = true /\
    forall t, In t ts ->
      wf_store s (S (length (s_nodes s))) (t_id t) = true /\
      ids (store_tree s (S (length (s_nodes s))) (t_id t)) = ids t.
Proof.
  intro N.
  destruct (build_world_spec ts empty_store [] sok_empty (Forall_nil _) eq_refl N) as [s [E [So [L [T H]]]]].
  { intros y _ F. apply F. reflexivity. }
  simpl in L, T. exists s. split; [exact E|split; [exact T|split; [exact H|]]].
  assert (W : forall t, In t ts -> wf_store s (S (length (s_nodes s))) (t_id t) = true /\
      ids (store_tree s (S (length (s_nodes s))) (t_id t)) = ids t).
  { intros t Ht. rewrite Forall_forall in L. apply live_wf_store; [exact (L t Ht)|].
    exact (NoDup_flat_map_in ids ts t N Ht). }
  split; [|exact W].
  unfold world_wf. rewrite T. apply forallb_forall. intros y Hy. apply in_map_iff in Hy.
  destruct Hy as [t [Et Ht]]. subst y. apply W. exact Ht.
Qed.

(* ---- the conclusion of C15W9Store.traversals_on_wellformed_store, as a predicate on (store, fuel, seed) ---- *)
Definition structural_orders (s : store) (f : nat) (seed : Z) : Prop := (
    forall x, loc (store_tree s f seed, []) x ->
    forall (ff : option (Z -> bool)) (b1 b2 : bool) (fuel : nat),
      2 * size (here x) + l_depth x + 2 <= fuel ->
      Node_preorder_iter (WG s) fuel ff (l_id x) = GDone (map l_id (filter (pyf (lift ff)) (lpre x))) /\
      Node_postorder_iter (WG s) fuel ff (l_id x) = GDone (map l_id (filter (pyf (lift ff)) (lpost x))) /\
      Node_levelorder_iter (WG s) fuel ff (l_id x) = GDone (map l_id (filter (pyf (lift ff)) (llevel x))) /\
      Node_inorder_iter (WG s) fuel ff (l_id x) = gmap l_id (linorder (pyf (lift ff)) x) /\
      Node_leaf_iter (WG s) fuel ff (l_id x) = GDone (map l_id (filter (pyf (lift ff)) (lleaves x))) /\
      Node_preorder_internal_node_iter (WG s) fuel ff b1 (l_id x)
        = GDone (map l_id (filter (fun y => (if b1 then l_has_parent y else true) && l_is_internal y && pyf (lift ff) y)
                                  (lpre x))) /\
      Node_postorder_internal_node_iter (WG s) fuel ff b1 (l_id x)
        = GDone (map l_id (filter (fun y => (if b1 then l_has_parent y else true) && l_is_internal y && pyf (lift ff) y)
                                  (lpost x))) /\
      Node_ancestor_iter (WG s) fuel ff b1 (l_id x)
        = GDone (map l_id (filter (pyf (lift ff)) ((if b1 then [x] else []) ++ lancestors x))) /\
      Node_child_node_iter (WG s) fuel ff (l_id x) = GDone (map l_id (filter (pyf (lift ff)) (l_kids x))) /\
      Node_child_edge_iter (WG s) fuel ff (l_id x) = GDone (map l_id (filter (pyf (lift ff)) (l_kids x))) /\
      Node_ageorder_iter (WG s) fuel ff b1 b2 (l_id x)
        = GDone (map l_id (filter (fun y => (b1 || l_is_internal y) && pyf (lift ff) y)
                                  (py_sort_by store_age b2 (lpre x)))) /\
      Node_leaf_nodes (WG s) fuel (l_id x) = GDone (map l_id (lleaves x)) /\
      Tree_nodes (WG s) fuel ff (l_id x) = GDone (map l_id (filter (pyf (lift ff)) (lpre x))) /\
      Tree_leaf_nodes (WG s) fuel (l_id x) = GDone (map l_id (lleaves x)) /\
      Tree_internal_nodes (WG s) fuel b1 (l_id x)
        = GDone (map l_id (filter (fun y => (if b1 then l_has_parent y else true) && l_is_internal y && true) (lpre x))) /\
      Tree_dunder_len (WG s) fuel (l_id x) = Ok (Z.of_nat (length (leaves (here x)))) /\
      (forall (ev : Type) (bf af lf : option (Z -> ev)),
         Node_apply (WG s) fuel bf af lf (l_id x)
         = GDone (flat_map (cb_emit (lift_cb l_id bf) (lift_cb l_id af) (lift_cb l_id lf)) (lbrackets x))))%nat.

Lemma wf_store_structural_orders s f seed : wf_store s f seed = true -> structural_orders s f seed.
Proof. exact (traversals_on_wellformed_store s f seed). Qed.

(* ---- corollary of (1): on every freshly built world every live tree's machines yield their structural orders,
   for every located start node, filter, flag and sufficient fuel; at the seed the fuel of the correspondence
   check (store_fuel s) is sufficient ---- *)
Theorem traversals_on_built_worlds (ts : list tree) : NoDup (flat_map ids ts) ->
  exists s, build_world ts empty_store = Ok (tt, s) /\ s_trees s = map t_id ts /\
    forall seed, In seed (s_trees s) ->
      let f := S (length (s_nodes s)) in
      structural_orders s f seed /\
      (exists x, loc (store_tree s f seed, []) x /\ l_id x = seed /\
                 (2 * size (here x) + l_depth x + 2 <= store_fuel s)%nat).
Proof.
  intro N. destruct (build_world_establishes_wf ts N) as [s [E [T [_ [W _]]]]].
  exists s. split; [exact E|split; [exact T|]]. intros seed Hs. cbv zeta.
  pose proof (world_wf_probes s seed W Hs) as Ws.
  split; [exact (wf_store_structural_orders _ _ _ Ws)|exact (seed_is_located_with_probe_fuel _ _ _ Ws)].
Qed.
