(* C03 proofs: what the leaf-pruning family (filter_leaf_nodes, prune_leaves_without_taxa,
   prune_taxa on leaves, retain_taxa) does to the leaves and their taxa.  C03PruneLoops.v shows
   that these operations finish and keep the heap well formed; here the loop lemmas are reproved
   with an invariant that additionally tracks WHICH nodes survive:
     (a) nothing new appears: every node of the result is a node of the input, same taxon;
     (b) a leaf the operation was not asked to remove is still a leaf, same taxon;
     (c) a leaf that is gone was asked for;
     (d) a leaf that was asked for is gone;
   and from these the multiset statement about leaf_taxa. *)
From Coq Require Import ZArith List Bool Lia Permutation.
From DV Require Import Model.PyPrims Model.Tree Model.Heap Model.HeapOps Model.C03Spec
  Proofs.C03Base Proofs.C03Abs Proofs.C03Local Proofs.C03Prims Proofs.C03Collapse Proofs.C03Suppress
  Proofs.C03Reseed Proofs.C03Order Proofs.C03Ops Proofs.C03Ops2 Proofs.C03PruneLoops Proofs.C03Hist.
From DV Require Import Proofs.C03Trav.
Import ListNotations. Open Scope Z_scope.

(* ---------- the (id, taxon) pairs of a tree ---------- *)

Definition nodes (t : tree) : list (Z * option Z) :=
  map (fun s => (t_id s, t_taxon s)) (preorder t).

(* the taxon field of every node *)
Definition node_taxa (t : tree) : list (option Z) := map t_taxon (preorder t).

Lemma nodes_eq i x l e ks : nodes (T i x l e ks) = (i, x) :: flat_map nodes ks.
Proof.
  unfold nodes. simpl. f_equal. induction ks as [|k r IH]; simpl; [reflexivity|].
  rewrite map_app, IH. reflexivity.
Qed.

Lemma ids_nodes t : ids t = map fst (nodes t).
Proof. unfold ids, nodes. rewrite map_map. reflexivity. Qed.

Lemma node_taxa_nodes t : node_taxa t = map snd (nodes t).
Proof. unfold node_taxa, nodes. rewrite map_map. reflexivity. Qed.

Lemma nodes_bump b t : nodes (bump b t) = nodes t.
Proof. destruct t as [i x l e ks]. simpl bump. rewrite !nodes_eq. reflexivity. Qed.

Lemma leaf_ids_bump b t : leaf_ids (bump b t) = leaf_ids t.
Proof. destruct t as [i x l e ks]. simpl bump. rewrite !leaf_ids_eq. reflexivity. Qed.

Lemma leaf_ids_len i x l e e' ks : leaf_ids (T i x l e ks) = leaf_ids (T i x l e' ks).
Proof. rewrite !leaf_ids_eq. reflexivity. Qed.

(* ---------- spec_su / spec_collapse_basal keep the leaves and invent no node ---------- *)

Lemma nodes_spec_su t : incl (nodes (spec_su t)) (nodes t).
Proof.
  induction t as [i x l e ks IH] using tree_ind'. rewrite spec_su_eq.
  assert (FM : incl (flat_map nodes (map spec_su ks)) (flat_map nodes ks)).
  { induction IH as [|k r Hk Hr IHr]; simpl; [apply incl_refl|].
    apply incl_app; [apply incl_appl; exact Hk|apply incl_appr; exact IHr]. }
  destruct ks as [|k [|k2 r]].
  - simpl. apply incl_refl.
  - simpl map. cbv beta iota. rewrite nodes_bump, nodes_eq. apply incl_tl. simpl. rewrite app_nil_r.
    inversion IH; subst. assumption.
  - change (map spec_su (k :: k2 :: r)) with (spec_su k :: spec_su k2 :: map spec_su r) in *.
    cbv beta iota. rewrite !nodes_eq. intros p [<-|Hp]; [left; reflexivity|right; apply FM; exact Hp].
Qed.

Lemma leaf_ids_spec_su t : leaf_ids (spec_su t) = leaf_ids t.
Proof.
  induction t as [i x l e ks IH] using tree_ind'. rewrite spec_su_eq.
  assert (FM : flat_map leaf_ids (map spec_su ks) = flat_map leaf_ids ks).
  { induction IH as [|k r Hk Hr IHr]; simpl; [reflexivity|]. rewrite Hk, IHr. reflexivity. }
  destruct ks as [|k [|k2 r]].
  - reflexivity.
  - simpl map. cbv beta iota. rewrite leaf_ids_bump, (leaf_ids_eq i x l e [k]). simpl. rewrite app_nil_r.
    inversion IH; subst. assumption.
  - change (map spec_su (k :: k2 :: r)) with (spec_su k :: spec_su k2 :: map spec_su r) in *.
    cbv beta iota. rewrite !leaf_ids_eq. exact FM.
Qed.

Lemma nodes_collapse_basal t : incl (nodes (spec_collapse_basal t)) (nodes t).
Proof.
  destruct t as [i x l e ks].
  destruct ks as [|[i0 x0 l0 e0 k0] [|[i1 x1 l1 e1 k1] [|c' r]]]; try apply incl_refl.
  unfold spec_collapse_basal.
  destruct (2 <=? Z.of_nat (length k1)); [|destruct (2 <=? Z.of_nat (length k0)); [|apply incl_refl]].
  - rewrite !nodes_eq. cbn [flat_map]. rewrite !nodes_eq.
    intros p. rewrite ?app_nil_r. cbn [In app]. rewrite ?in_app_iff. cbn [In]. tauto.
  - rewrite !nodes_eq. rewrite flat_map_app. cbn [flat_map]. rewrite !nodes_eq.
    intros p. rewrite ?app_nil_r. cbn [In app]. rewrite ?in_app_iff. cbn [In app]. rewrite ?in_app_iff. cbn [In]. tauto.
Qed.

Lemma leaf_ids_collapse_basal t : leaf_ids (spec_collapse_basal t) = leaf_ids t.
Proof.
  destruct t as [i x l e ks].
  destruct ks as [|[i0 x0 l0 e0 k0] [|[i1 x1 l1 e1 k1] [|c' r]]]; try reflexivity.
  unfold spec_collapse_basal.
  destruct (2 <=? Z.of_nat (length k1)) eqn:E1.
  - destruct k1 as [|a1 r1]; [discriminate E1|].
    rewrite (leaf_ids_eq i), (leaf_ids_eq i). simpl flat_map.
    rewrite (leaf_ids_len i0 x0 l0 _ e0), (leaf_ids_eq i1). simpl flat_map. rewrite app_nil_r. reflexivity.
  - destruct (2 <=? Z.of_nat (length k0)) eqn:E0; [|reflexivity].
    destruct k0 as [|a0 r0]; [discriminate E0|].
    rewrite (leaf_ids_eq i), (leaf_ids_eq i). cbn [app]. cbv iota. cbn [flat_map]. rewrite flat_map_app.
    cbn [flat_map]. rewrite (leaf_ids_len i1 x1 l1 _ e1), (leaf_ids_eq i0). cbn [flat_map].
    rewrite !app_nil_r, <- app_assoc. reflexivity.
Qed.

Lemma nodes_spec_encode su cb u t : incl (nodes (spec_encode su cb u t)) (nodes t).
Proof.
  unfold spec_encode. cbv zeta.
  destruct (cb && u && (Z.of_nat (length (t_kids t)) =? 2)); destruct su.
  - eapply incl_tran; [apply nodes_spec_su|apply nodes_collapse_basal].
  - apply nodes_collapse_basal.
  - apply nodes_spec_su.
  - apply incl_refl.
Qed.

Lemma leaf_ids_spec_encode su cb u t : leaf_ids (spec_encode su cb u t) = leaf_ids t.
Proof.
  unfold spec_encode. cbv zeta.
  destruct (cb && u && (Z.of_nat (length (t_kids t)) =? 2)); destruct su;
    rewrite ?leaf_ids_spec_su, ?leaf_ids_collapse_basal; reflexivity.
Qed.

Lemma nodes_spec_tail ub su u t : incl (nodes (spec_tail ub su u t)) (nodes t).
Proof.
  unfold spec_tail. cbv zeta. destruct ub, su.
  - eapply incl_tran; [apply nodes_spec_encode|apply nodes_spec_su].
  - apply nodes_spec_encode.
  - apply nodes_spec_su.
  - apply incl_refl.
Qed.

Lemma leaf_ids_spec_tail ub su u t : leaf_ids (spec_tail ub su u t) = leaf_ids t.
Proof.
  unfold spec_tail. cbv zeta. destruct ub, su; rewrite ?leaf_ids_spec_encode, ?leaf_ids_spec_su; reflexivity.
Qed.

(* ---------- node taxa: tree versus heap ---------- *)

Lemma rep_sub h t : forall par s, rep h par t -> In s (preorder t) -> exists par', rep h par' s.
Proof.
  induction t as [i x l e ks IH] using tree_ind'. intros par s R Hs.
  rewrite preorder_eq in Hs. destruct Hs as [<-|Hs]; [exists par; exact R|].
  apply rep_eq in R. destruct R as [_ [_ C]]. apply in_flat_map in Hs. destruct Hs as [k [Hk Hs]].
  rewrite Forall_forall in IH, C. apply (IH k Hk (Some i) s (C k Hk) Hs).
Qed.

Lemma nodes_taxon h par t j x : rep h par t -> In (j, x) (nodes t) -> taxon h j = x.
Proof.
  intros R H. unfold nodes in H. apply in_map_iff in H. destruct H as [s [E Hs]].
  inversion E; subst. destruct (rep_sub h t par s R Hs) as [par' Rs]. apply (rep_taxon h par' s Rs).
Qed.

Lemma nodes_transfer h t h' t' :
  Wr h t -> Wr h' t' -> incl (nodes t') (nodes t) ->
  forall j, In j (ids t') -> In j (ids t) /\ taxon h' j = taxon h j.
Proof.
  intros [R _] [R' _] I j Hj. rewrite ids_nodes in Hj. apply in_map_iff in Hj.
  destruct Hj as [[j' x] [E Hp]]. simpl in E. subst j'. split.
  - rewrite ids_nodes. apply in_map_iff. exists (j, x). split; [reflexivity|apply I, Hp].
  - rewrite (nodes_taxon h' None t' j x R' Hp). symmetry. apply (nodes_taxon h None t j x R). apply I, Hp.
Qed.

(* a node of a well-formed tree is a leaf iff its child list is empty *)
Lemma leaf_iff h t j : WFt h t -> (In j (leaf_ids t) <-> In j (ids t) /\ kids h j = []).
Proof. intros [[R _] _]. exact (leaf_ids_heap h t j (ex_intro _ None R)). Qed.

Lemma leaf_taxa_leaves t : leaf_taxa t = map t_taxon (leaves t).
Proof.
  induction t as [i x l e ks IH] using tree_ind'. destruct ks as [|k0 kr]; [reflexivity|].
  change (leaf_taxa (T i x l e (k0 :: kr))) with (flat_map leaf_taxa (k0 :: kr)).
  change (leaves (T i x l e (k0 :: kr))) with (flat_map leaves (k0 :: kr)).
  induction IH as [|k r Hk Hr IHr]; simpl; [reflexivity|]. rewrite map_app, Hk, IHr. reflexivity.
Qed.

(* the leaf taxa are the taxon cells of the leaf nodes, in order *)
Lemma leaf_taxa_heap h t : WFt h t -> leaf_taxa t = map (taxon h) (leaf_ids t).
Proof.
  intros [[R _] _]. rewrite leaf_taxa_leaves. unfold leaf_ids. rewrite map_map.
  apply map_ext_in. intros s Hs. destruct (leaves_ctx t s Hs) as [c [Et _]]. subst t.
  apply rep_plug in R. destruct R as [_ Rs]. symmetry. apply (rep_taxon h _ s Rs).
Qed.

(* ---------- removals do not touch taxon cells ---------- *)

Definition tx_same (h h' : heap) : Prop := forall j, taxon h' j = taxon h j.
Definition childless_kept (h h' : heap) : Prop := forall j, kids h j = [] -> kids h' j = [].

Lemma taxon_set_parent i v h j : taxon (set_parent i v h) j = taxon h j.
Proof.
  unfold taxon at 1. rewrite get_set_parent. destruct (Z.eqb j i) eqn:E; [|reflexivity].
  apply Z.eqb_eq in E. subst. reflexivity.
Qed.

Lemma taxon_set_kids i v h j : taxon (set_kids i v h) j = taxon h j.
Proof.
  unfold taxon at 1. rewrite get_set_kids. destruct (Z.eqb j i) eqn:E; [|reflexivity].
  apply Z.eqb_eq in E. subst. reflexivity.
Qed.

Lemma taxon_remove_from_parent e nd h h' : remove_from_parent e nd h = HOk h' -> tx_same h h'.
Proof.
  unfold remove_from_parent, remove_child_plain. destruct (parent h nd) as [p|]; [|discriminate].
  destruct (memz nd (kids h p)); [|discriminate]. intro E. inversion E; subst. intro j.
  rewrite taxon_set_kids, taxon_set_parent. reflexivity.
Qed.

(* ---------- the invariant of the removal loops ---------- *)

(* (h', t') comes from (h, t) by removing nodes that satisfy R; taxon cells are untouched, a
   childless node stays childless *)
Definition evolves (h : heap) (t : tree) (R : Z -> Prop) (h' : heap) (t' : tree) : Prop :=
  WFt h' t' /\ (forall j, In j (ids t') -> In j (ids t)) /\
  (forall j, In j (ids t) -> In j (ids t') \/ R j) /\
  tx_same h h' /\ childless_kept h h' /\ pres h h'.

Lemma evolves_refl h t R : WFt h t -> evolves h t R h t.
Proof.
  intro W. split; [exact W|split; [auto|split; [auto|split; [|split]]]].
  - intro j. reflexivity.
  - intros j K. exact K.
  - apply pres_refl.
Qed.

Lemma evolves_mono h t (R R' : Z -> Prop) h' t' :
  (forall j, In j (ids t) -> R j -> R' j) -> evolves h t R h' t' -> evolves h t R' h' t'.
Proof.
  intros I [W [I1 [Rm [Tx [Ck P]]]]]. split; [exact W|split; [exact I1|split; [|auto]]].
  intros j Hj. destruct (Rm j Hj) as [A|A]; [left; exact A|right; apply I; assumption].
Qed.

Lemma evolves_trans h t R h1 t1 h2 t2 :
  evolves h t R h1 t1 -> evolves h1 t1 R h2 t2 -> evolves h t R h2 t2.
Proof.
  intros [W1 [I1 [Rm1 [Tx1 [Ck1 P1]]]]] [W2 [I2 [Rm2 [Tx2 [Ck2 P2]]]]].
  split; [exact W2|split; [auto|split; [|split; [|split]]]].
  - intros j Hj. destruct (Rm1 j Hj) as [A|A]; [|right; exact A]. apply Rm2, A.
  - intro j. rewrite Tx2. apply Tx1.
  - intros j K. apply Ck2, Ck1, K.
  - eapply pres_trans; eauto.
Qed.

(* one removal of a childless live node *)
Lemma remove_one e h t nd :
  WFt h t -> In nd (ids t) -> kids h nd = [] -> nd <> seed h ->
  exists h' t', remove_from_parent e nd h = HOk h' /\ evolves h t (fun j => j = nd) h' t' /\
    ~ In nd (ids t').
Proof.
  intros W Hn Kn Dn.
  destruct (remove_childless h t nd e W Hn Kn Dn) as [h' [t' [E [W' [Pm [P K]]]]]].
  exists h', t'. split; [exact E|split].
  - split; [exact W'|split; [|split; [|split; [|split]]]].
    + intros j Hj. apply (Permutation_in _ (Permutation_sym Pm)). right. exact Hj.
    + intros j Hj. apply (Permutation_in _ Pm) in Hj. destruct Hj as [Hj|Hj]; [right; auto|left; exact Hj].
    + apply (taxon_remove_from_parent e nd h h' E).
    + exact K.
    + exact P.
  - destruct W as [[_ [N _]] _]. apply (Permutation_NoDup Pm) in N. apply NoDup_cons_iff in N. tauto.
Qed.

(* for nd in rm: nd.parent.remove_child(nd), all of rm childless and live *)
Lemma hfold_remove_keeps e : forall rm h t h',
  WFt h t -> NoDup rm -> (forall nd, In nd rm -> In nd (ids t) /\ kids h nd = []) ->
  hfold (remove_from_parent e) rm h = HOk h' ->
  exists t', evolves h t (fun j => In j rm) h' t' /\ (forall j, In j rm -> ~ In j (ids t')).
Proof.
  induction rm as [|nd r IH]; intros h t h' W N H E.
  - simpl in E. inversion E; subst. exists t. split; [apply evolves_refl, W|intros j []].
  - apply NoDup_cons_iff in N. destruct N as [Nn Nr].
    destruct (H nd (or_introl eq_refl)) as [Hn Kn]. simpl hfold in E.
    destruct (Z.eq_dec nd (seed h)) as [->|Dn].
    + rewrite (remove_root h t e W) in E. simpl in E. discriminate E.
    + destruct (remove_one e h t nd W Hn Kn Dn) as [h1 [t1 [E1 [Ev1 Nn1]]]].
      rewrite E1 in E. simpl hbind in E.
      pose proof Ev1 as [W1 [I1 [Rm1 [Tx1 [Ck1 P1]]]]].
      destruct (IH h1 t1 h' W1 Nr) as [t' [Ev2 D2]]; [|exact E|].
      * intros j Hj. destruct (H j (or_intror Hj)) as [Hi Kj]. split; [|apply Ck1, Kj].
        destruct (Rm1 j Hi) as [A|A]; [exact A|]. exfalso. apply Nn. rewrite <- A. exact Hj.
      * exists t'. split.
        -- apply (evolves_trans h t _ h1 t1 h' t').
           ++ apply (evolves_mono h t (fun j => j = nd)); [|exact Ev1]. intros j _ ->. left. reflexivity.
           ++ apply (evolves_mono h1 t1 (fun j => In j r)); [|exact Ev2]. intros j _ Hj. right. exact Hj.
        -- intros j [<-|Hj]; [|apply D2, Hj]. intro Hi. apply Nn1.
           destruct Ev2 as [_ [I2 _]]. apply I2, Hi.
Qed.

(* the while loop; the test reads the taxon cell only, so it gives the same answer at every round *)
Lemma leaf_prune_loop_keeps bad e rec :
  (forall h1 h2 j, taxon h1 j = taxon h2 j -> bad h1 j = bad h2 j) ->
  forall fuel h t h', WFt h t -> leaf_prune_loop fuel bad e rec h = HOk h' ->
  exists t', evolves h t (fun j => bad h j = true) h' t' /\
    (forall j, In j (leaf_ids t) -> bad h j = true -> ~ In j (ids t')).
Proof.
  intro Hb. induction fuel as [|n IH]; intros h t h' W H; [discriminate H|].
  simpl leaf_prune_loop in H. rewrite (with_sub_seed h t _ W) in H. cbv beta zeta in H.
  remember (filter (bad h) (leaf_ids t)) as rm eqn:Erm.
  assert (Nrm : NoDup rm).
  { subst rm. apply NoDup_filter. apply (proj2 (leaf_ids_sub t)). destruct W as [[_ [N _]] _]. exact N. }
  assert (Hrm : forall nd, In nd rm -> In nd (ids t) /\ kids h nd = []).
  { intros nd Hn. subst rm. apply filter_In in Hn. apply (leaf_live h t nd W). tauto. }
  destruct (hfold (remove_from_parent e) rm h) as [h1|er h1|] eqn:E; simpl hbind in H; try discriminate H.
  destruct (hfold_remove_keeps e rm h t h1 W Nrm Hrm E) as [t1 [Ev1 Rm1]].
  assert (Ev1' : evolves h t (fun j => bad h j = true) h1 t1).
  { apply (evolves_mono h t (fun j => In j rm)); [|exact Ev1]. intros j _ Hj. subst rm.
    apply filter_In in Hj. tauto. }
  assert (D1 : forall j, In j (leaf_ids t) -> bad h j = true -> ~ In j (ids t1)).
  { intros j Hj Bj. apply Rm1. subst rm. apply filter_In. split; assumption. }
  assert (Hc : h' = h1 \/ leaf_prune_loop n bad e rec h1 = HOk h').
  { destruct rm as [|r0 rr]; [left; inversion H; reflexivity|].
    destruct rec; [right; exact H|left; inversion H; reflexivity]. }
  destruct Hc as [->|H2].
  - exists t1. split; [exact Ev1'|exact D1].
  - pose proof Ev1 as [W1 [I1 [_ [Tx1 _]]]].
    destruct (IH h1 t1 h' W1 H2) as [t2 [Ev2 _]]. exists t2. split.
    + apply (evolves_trans h t _ h1 t1 h' t2); [exact Ev1'|].
      apply (evolves_mono h1 t1 (fun j => bad h1 j = true)); [|exact Ev2].
      intros j _ Bj. rewrite <- Bj. apply Hb. symmetry. apply Tx1.
    + intros j Hj Bj Hi. apply (D1 j Hj Bj). destruct Ev2 as [_ [I2 _]]. apply I2, Hi.
Qed.

(* a loop that removes the visited node when a test holds that implies childlessness.
   R: what a removed node satisfied; D: a sufficient condition for a childless node to be removed *)
Lemma hfold_cond_keeps e (cond : heap -> Z -> bool) (R D : Z -> Prop) h0 :
  (forall h nd, cond h nd = true -> kids h nd = []) ->
  (forall h nd, tx_same h0 h -> cond h nd = true -> R nd) ->
  (forall h nd, tx_same h0 h -> kids h nd = [] -> D nd -> cond h nd = true) ->
  forall rm h t h', WFt h t -> tx_same h0 h -> NoDup rm -> (forall nd, In nd rm -> In nd (ids t)) ->
  hfold (fun nd h => if cond h nd then remove_from_parent e nd h else HOk h) rm h = HOk h' ->
  exists t', evolves h t R h' t' /\
    (forall j, In j rm -> kids h j = [] -> D j -> ~ In j (ids t')).
Proof.
  intros Hc HR HD. induction rm as [|nd r IH]; intros h t h' W T0 N H E.
  - simpl in E. inversion E; subst. exists t. split; [apply evolves_refl, W|intros j []].
  - apply NoDup_cons_iff in N. destruct N as [Nn Nr]. simpl hfold in E.
    destruct (cond h nd) eqn:C.
    + destruct (Z.eq_dec nd (seed h)) as [->|Dn].
      * rewrite (remove_root h t e W) in E. simpl in E. discriminate E.
      * destruct (remove_one e h t nd W (H nd (or_introl eq_refl)) (Hc h nd C) Dn) as [h1 [t1 [E1 [Ev1 Nn1]]]].
        rewrite E1 in E. simpl hbind in E.
        pose proof Ev1 as [W1 [I1 [Rm1 [Tx1 [Ck1 P1]]]]].
        assert (T1 : tx_same h0 h1). { intro j. rewrite Tx1. apply T0. }
        destruct (IH h1 t1 h' W1 T1 Nr) as [t' [Ev2 D2]]; [|exact E|].
        -- intros j Hj. destruct (Rm1 j (H j (or_intror Hj))) as [A|A]; [exact A|].
           exfalso. apply Nn. rewrite <- A. exact Hj.
        -- exists t'. split.
           ++ apply (evolves_trans h t _ h1 t1 h' t'); [|exact Ev2].
              apply (evolves_mono h t (fun j => j = nd)); [|exact Ev1]. intros j _ ->. apply (HR h nd T0 C).
           ++ intros j [<-|Hj] Kj Dj.
              ** intro Hi. apply Nn1. destruct Ev2 as [_ [I2 _]]. apply I2, Hi.
              ** apply (D2 j Hj); [apply Ck1, Kj|exact Dj].
    + simpl hbind in E. destruct (IH h t h' W T0 Nr) as [t' [Ev2 D2]]; [|exact E|].
      * intros j Hj. apply H. right. exact Hj.
      * exists t'. split; [exact Ev2|]. intros j [<-|Hj] Kj Dj; [|apply D2; assumption].
        rewrite (HD h nd T0 Kj Dj) in C. discriminate C.
Qed.

(* ---------- the su / ub tails ---------- *)

Lemma tail_keeps (ub su : bool) h t h' :
  WFt h t ->
  hbind (if su then suppress_unifurcations h else HOk h) (ub_tail_su ub su) = HOk h' ->
  exists t', WFt h' t' /\ incl (nodes t') (nodes t) /\ leaf_ids t' = leaf_ids t.
Proof.
  intros W E. destruct (tail_wf ub su h t W) as [h2 [E2 [W2 _]]]. simpl hbind in E2.
  pose proof (eq_trans (eq_sym E2) E) as E3. inversion E3; subst h2.
  exists (spec_tail ub su (not_rooted h) t).
  split; [exact W2|split; [apply nodes_spec_tail|apply leaf_ids_spec_tail]].
Qed.

(* ---------- the statement about leaves ---------- *)

(* (a) nothing new; (b) a leaf not asked for stays a leaf; (c) a leaf that is gone was asked for;
   (d) a leaf that was asked for is gone.  Taxon cells of surviving nodes are unchanged. *)
Definition pruned (h : heap) (t : tree) (asked : Z -> Prop) (h' : heap) (t' : tree) : Prop :=
  (forall j, In j (ids t') -> In j (ids t) /\ taxon h' j = taxon h j) /\
  (forall j, In j (leaf_ids t) -> ~ asked j -> In j (leaf_ids t') /\ taxon h' j = taxon h j) /\
  (forall j, In j (leaf_ids t) -> ~ In j (ids t') -> asked j) /\
  (forall j, In j (leaf_ids t) -> asked j -> ~ In j (ids t')).

Lemma evolves_tail_pruned h t (asked : Z -> Prop) h1 t1 h' t' :
  WFt h t -> evolves h t asked h1 t1 ->
  (forall j, In j (leaf_ids t) -> asked j -> ~ In j (ids t1)) ->
  WFt h' t' -> incl (nodes t') (nodes t1) -> leaf_ids t' = leaf_ids t1 ->
  pruned h t asked h' t'.
Proof.
  intros W [W1 [I1 [Rm1 [Tx1 [Ck1 P1]]]]] D1 W' In' Lf'.
  assert (Tr : forall j, In j (ids t') -> In j (ids t1) /\ taxon h' j = taxon h1 j).
  { apply (nodes_transfer h1 t1 h' t'); [apply W1|apply W'|exact In']. }
  assert (LL : forall j, In j (leaf_ids t) -> In j (ids t1) -> In j (leaf_ids t')).
  { intros j Hj Hi. rewrite Lf'. apply (leaf_iff h1 t1 j W1). split; [exact Hi|].
    apply Ck1. apply (leaf_live h t j W Hj). }
  split; [|split; [|split]].
  - intros j Hj. destruct (Tr j Hj) as [A B]. split; [apply I1, A|]. rewrite B. apply Tx1.
  - intros j Hj Na.
    assert (Hi : In j (ids t1)).
    { destruct (Rm1 j (proj1 (leaf_ids_sub t) j Hj)) as [A|A]; [exact A|contradiction]. }
    pose proof (LL j Hj Hi) as Hl. split; [exact Hl|].
    destruct (Tr j (proj1 (leaf_ids_sub t') j Hl)) as [_ B]. rewrite B. apply Tx1.
  - intros j Hj Ni. destruct (Rm1 j (proj1 (leaf_ids_sub t) j Hj)) as [A|A]; [|exact A].
    exfalso. apply Ni. apply (proj1 (leaf_ids_sub t')). apply LL; assumption.
  - intros j Hj Ha Hi. apply (D1 j Hj Ha). apply Tr, Hi.
Qed.

(* the common shape of filter_leaf_nodes and prune_leaves_without_taxa *)
Lemma loop_tail_keeps bad e rec (ub su : bool) h t h' (asked : Z -> Prop) :
  (forall h1 h2 j, taxon h1 j = taxon h2 j -> bad h1 j = bad h2 j) ->
  (forall j, bad h j = true <-> asked j) ->
  WFt h t ->
  (hdo h1 <- leaf_prune_loop (fuel_of h) bad e rec h ;;
   hdo h2 <- (if su then suppress_unifurcations h1 else HOk h1) ;;
   ub_tail_su ub su h2) = HOk h' ->
  exists h1 t1 t', evolves h t asked h1 t1 /\
    (forall j, In j (leaf_ids t) -> asked j -> ~ In j (ids t1)) /\
    WFt h' t' /\ incl (nodes t') (nodes t1) /\ leaf_ids t' = leaf_ids t1.
Proof.
  intros Hb Ha W H.
  destruct (leaf_prune_loop (fuel_of h) bad e rec h) as [h1|er h1|] eqn:E1; simpl hbind in H; try discriminate H.
  destruct (leaf_prune_loop_keeps bad e rec Hb (fuel_of h) h t h1 W E1) as [t1 [Ev1 D1]].
  pose proof Ev1 as [W1 _].
  destruct (tail_keeps ub su h1 t1 h' W1 H) as [t' [W' [In' Lf']]].
  exists h1, t1, t'. split; [|split; [|auto]].
  - apply (evolves_mono h t (fun j => bad h j = true)); [|exact Ev1]. intros j _ Bj. apply Ha, Bj.
  - intros j Hj Aj. apply D1; [exact Hj|apply Ha, Aj].
Qed.

(* ---------- filter_leaf_nodes ---------- *)

Theorem filter_leaf_nodes_leaf_taxa keep rec ub su h t h' :
  WF h -> abs h = Some t -> filter_leaf_nodes keep rec ub su h = HOk h' ->
  exists t', abs h' = Some t' /\ WFt h' t' /\ pruned h t (fun j => ~ In j keep) h' t'.
Proof.
  intros W0 A H. pose proof (WF_abs_t h t W0 A) as W. unfold filter_leaf_nodes in H.
  destruct (loop_tail_keeps (fun _ nd => negb (memz nd keep)) OtherErr rec ub su h t h'
              (fun j => ~ In j keep)) as [h1 [t1 [t' [Ev1 [D1 [W' [In' Lf']]]]]]].
  - intros h1 h2 j _. reflexivity.
  - intro j. rewrite negb_true_iff. apply memz_false.
  - exact W.
  - exact H.
  - exists t'. split; [apply abs_WFt, W'|split; [exact W'|]].
    apply (evolves_tail_pruned h t _ h1 t1 h' t'); assumption.
Qed.

(* ---------- prune_leaves_without_taxa ---------- *)

Lemma plwt_keeps rec ub su h t h' :
  WFt h t -> prune_leaves_without_taxa rec ub su h = HOk h' ->
  exists h1 t1 t', evolves h t (fun j => taxon h j = None) h1 t1 /\
    (forall j, In j (leaf_ids t) -> taxon h j = None -> ~ In j (ids t1)) /\
    WFt h' t' /\ incl (nodes t') (nodes t1) /\ leaf_ids t' = leaf_ids t1.
Proof.
  intros W H. unfold prune_leaves_without_taxa in H.
  apply (loop_tail_keeps (fun h nd => match taxon h nd with None => true | Some _ => false end)
           AttrErr rec ub su h t h' (fun j => taxon h j = None)).
  - intros h1 h2 j Ej. rewrite Ej. reflexivity.
  - intro j. destruct (taxon h j); split; intro E; try reflexivity; discriminate E.
  - exact W.
  - exact H.
Qed.

Theorem prune_leaves_without_taxa_leaf_taxa rec ub su h t h' :
  WF h -> abs h = Some t -> prune_leaves_without_taxa rec ub su h = HOk h' ->
  exists t', abs h' = Some t' /\ WFt h' t' /\ pruned h t (fun j => taxon h j = None) h' t'.
Proof.
  intros W0 A H. pose proof (WF_abs_t h t W0 A) as W.
  destruct (plwt_keeps rec ub su h t h' W H) as [h1 [t1 [t' [Ev1 [D1 [W' [In' Lf']]]]]]].
  exists t'. split; [apply abs_WFt, W'|split; [exact W'|]].
  apply (evolves_tail_pruned h t _ h1 t1 h' t'); assumption.
Qed.

(* ---------- prune_taxa (leaves only) / retain_taxa ---------- *)

(* what prune_taxa(taxa, on_leaves=ol, on_internal=False) is asked to remove among the leaves:
   those carrying one of the taxa (if ol), and, by its second phase, those without a taxon *)
Definition asked_pt (taxa : list Z) (ol : bool) (h : heap) (j : Z) : Prop :=
  (ol = true /\ exists x, taxon h j = Some x /\ In x taxa) \/ taxon h j = None.

Theorem prune_taxa_leaf_taxa taxa ub su ol h t h' :
  WF h -> abs h = Some t -> prune_taxa taxa ub su ol false h = HOk h' ->
  exists t', abs h' = Some t' /\ WFt h' t' /\ pruned h t (asked_pt taxa ol h) h' t'.
Proof.
  intros W0 A H. pose proof (WF_abs_t h t W0 A) as W. unfold prune_taxa in H.
  rewrite (with_sub_seed h t _ W) in H. cbv beta in H.
  set (cond := fun (h : heap) (nd : Z) =>
                 ((false && is_internal h nd) || (ol && negb (is_internal h nd))) &&
                 match taxon h nd with Some x => memz x taxa | None => false end) in *.
  set (R1 := fun j => ol = true /\ exists x, taxon h j = Some x /\ In x taxa).
  change (hbind (hfold (fun nd h => if cond h nd then remove_from_parent AttrErr nd h else HOk h) (post_ids t) h)
                (fun h1 => prune_leaves_without_taxa true ub su h1) = HOk h') in H.
  destruct (hfold (fun nd h => if cond h nd then remove_from_parent AttrErr nd h else HOk h) (post_ids t) h)
    as [h1|er h1|] eqn:E1; simpl hbind in H; try discriminate H.
  assert (T0 : tx_same h h) by (intro j; reflexivity).
  destruct (hfold_cond_keeps AttrErr cond R1 R1 h) with (rm := post_ids t) (h := h) (t := t) (h' := h1)
    as [t1 [Ev1 D1]].
  - intros h0 nd C. unfold cond in C. simpl in C. apply andb_true_iff in C. destruct C as [C _].
    apply andb_true_iff in C. destruct C as [_ C]. unfold is_internal in C.
    destruct (kids h0 nd); [reflexivity|discriminate].
  - intros h0 nd Tx C. unfold cond in C. simpl in C. apply andb_true_iff in C. destruct C as [C1 C2].
    apply andb_true_iff in C1. destruct C1 as [C1 _]. split; [exact C1|].
    rewrite (Tx nd) in C2. destruct (taxon h nd) as [x|]; [|discriminate C2].
    exists x. split; [reflexivity|apply memz_In, C2].
  - intros h0 nd Tx K [Eo [x [Ex Hx]]]. unfold cond, is_internal. rewrite K, (Tx nd), Ex, Eo. simpl.
    apply memz_In, Hx.
  - exact W.
  - exact T0.
  - apply (proj2 (post_ids_sub t)). destruct W as [[_ [N _]] _]. exact N.
  - intro nd. apply post_ids_in.
  - exact E1.
  - pose proof Ev1 as [W1 [I1 [Rm1 [Tx1 [Ck1 P1]]]]].
    destruct (plwt_keeps true ub su h1 t1 h' W1 H) as [h2 [t2 [t' [Ev2 [D2 [W' [In' Lf']]]]]]].
    exists t'. split; [apply abs_WFt, W'|split; [exact W'|]].
    apply (evolves_tail_pruned h t _ h2 t2 h' t'); try assumption.
    + apply (evolves_trans h t _ h1 t1 h2 t2).
      * apply (evolves_mono h t R1); [|exact Ev1]. intros j _ Rj. left. exact Rj.
      * apply (evolves_mono h1 t1 (fun j => taxon h1 j = None)); [|exact Ev2].
        intros j _ Ej. right. rewrite <- (Tx1 j). exact Ej.
    + intros j Hj Aj. pose proof (leaf_live h t j W Hj) as [Hi Kj].
      pose proof Ev2 as [_ [I2 _]].
      destruct Aj as [Aj|Aj].
      * intro H2. apply (D1 j); [|exact Kj|exact Aj|apply I2, H2].
        apply (Permutation_in _ (Permutation_sym (post_pre_ids_perm t))). exact Hi.
      * destruct (in_dec Z.eq_dec j (ids t1)) as [H1|H1]; [|intro H2; apply H1, I2, H2].
        apply D2; [|rewrite (Tx1 j); exact Aj].
        apply (leaf_iff h1 t1 j W1). split; [exact H1|apply Ck1, Kj].
Qed.

Theorem retain_taxa_leaf_taxa ns taxa ub su h t h' :
  WF h -> abs h = Some t -> retain_taxa ns taxa ub su h = HOk h' ->
  exists t', abs h' = Some t' /\ WFt h' t' /\
    pruned h t (fun j => (exists x, taxon h j = Some x /\ In x ns /\ ~ In x taxa) \/ taxon h j = None) h' t'.
Proof.
  intros W0 A H. unfold retain_taxa in H.
  destruct (prune_taxa_leaf_taxa _ ub su true h t h' W0 A H) as [t' [A' [W' [Pa [Pb [Pc Pd]]]]]].
  assert (Eq : forall j, asked_pt (filter (fun x => negb (memz x taxa)) ns) true h j <->
                 ((exists x, taxon h j = Some x /\ In x ns /\ ~ In x taxa) \/ taxon h j = None)).
  { intro j. unfold asked_pt. split.
    - intros [[_ [x [Ex Hx]]]|E]; [left|right; exact E]. apply filter_In in Hx. destruct Hx as [Hn Hm].
      exists x. split; [exact Ex|split; [exact Hn|]]. apply memz_false. apply negb_true_iff. exact Hm.
    - intros [[x [Ex [Hn Hm]]]|E]; [left|right; exact E]. split; [reflexivity|]. exists x. split; [exact Ex|].
      apply filter_In. split; [exact Hn|]. apply negb_true_iff. apply memz_false. exact Hm. }
  exists t'. split; [exact A'|split; [exact W'|]]. split; [exact Pa|split; [|split]].
  - intros j Hj Na. apply Pb; [exact Hj|]. intro Aj. apply Na, Eq, Aj.
  - intros j Hj Ni. apply Eq. apply Pc; assumption.
  - intros j Hj Aj. apply Pd; [exact Hj|apply Eq, Aj].
Qed.

(* ---------- consequences for the multiset of leaf taxa ---------- *)

Lemma node_taxa_heap h t j : WFt h t -> In j (ids t) -> In (taxon h j) (node_taxa t).
Proof.
  intros [[R _] _] Hj. unfold ids in Hj. apply in_map_iff in Hj. destruct Hj as [s [Es Hs]]. subst j.
  destruct (rep_sub h t None s R Hs) as [par' Rs]. rewrite (rep_taxon h par' s Rs).
  unfold node_taxa. apply in_map. exact Hs.
Qed.

(* every leaf taxon of the result is the taxon of some node of the input *)
Corollary pruned_leaf_taxa_old h t asked h' t' :
  WFt h t -> WFt h' t' -> pruned h t asked h' t' ->
  forall x, In x (leaf_taxa t') -> In x (node_taxa t).
Proof.
  intros W W' [Pa _] x Hx. rewrite (leaf_taxa_heap h' t' W') in Hx. apply in_map_iff in Hx.
  destruct Hx as [j [Ej Hj]]. apply (proj1 (leaf_ids_sub t')) in Hj. destruct (Pa j Hj) as [Hi Tj].
  rewrite <- Ej, Tj. apply (node_taxa_heap h t j W Hi).
Qed.

Lemma nodup_incl_split : forall (l l' : list Z), NoDup l -> NoDup l' -> incl l l' ->
  exists r, Permutation l' (l ++ r) /\ (forall x, In x r -> In x l' /\ ~ In x l).
Proof.
  induction l as [|a l0 IH]; intros l' N N' I.
  - exists l'. split; [reflexivity|]. intros x Hx. split; [exact Hx|intros []].
  - apply NoDup_cons_iff in N. destruct N as [Na N0].
    destruct (in_split a l' (I a (or_introl eq_refl))) as [l1 [l2 El]]. subst l'.
    pose proof (NoDup_remove_1 _ _ _ N') as N1. pose proof (NoDup_remove_2 _ _ _ N') as N2.
    destruct (IH (l1 ++ l2) N0 N1) as [r [Pm Hr]].
    + intros x Hx. pose proof (I x (or_intror Hx)) as Hx'. apply in_app_iff in Hx'. apply in_app_iff.
      destruct Hx' as [Hx'|[Hx'|Hx']]; [left; exact Hx'| |right; exact Hx'].
      exfalso. apply Na. rewrite Hx'. exact Hx.
    + exists r. split.
      * etransitivity; [apply Permutation_sym, Permutation_middle|]. simpl. apply perm_skip. exact Pm.
      * intros x Hx. destruct (Hr x Hx) as [H1 H2]. split.
        -- apply in_app_iff in H1. apply in_app_iff. destruct H1 as [H1|H1]; [left; exact H1|right; right; exact H1].
        -- intros [E|H3]; [|exact (H2 H3)]. apply N2. rewrite E. exact H1.
Qed.

(* the leaf taxa of the result are: the taxa of the leaves that were not asked for, plus the taxa
   of some nodes that were INTERNAL in the input (nodes that became leaves) *)
Theorem pruned_multiset h t (asked : Z -> Prop) (keptb : Z -> bool) h' t' :
  WFt h t -> WFt h' t' -> pruned h t asked h' t' ->
  (forall j, keptb j = true -> ~ asked j) -> (forall j, keptb j = false -> asked j) ->
  exists rest,
    Permutation (leaf_taxa t') (map (taxon h) (filter keptb (leaf_ids t)) ++ map (taxon h) rest) /\
    (forall j, In j rest -> In j (ids t) /\ ~ In j (leaf_ids t) /\ In j (leaf_ids t')).
Proof.
  intros W W' [Pa [Pb [Pc Pd]]] K1 K2.
  assert (N : NoDup (leaf_ids t)).
  { apply (proj2 (leaf_ids_sub t)). destruct W as [[_ [N _]] _]. exact N. }
  assert (N' : NoDup (leaf_ids t')).
  { apply (proj2 (leaf_ids_sub t')). destruct W' as [[_ [N' _]] _]. exact N'. }
  destruct (nodup_incl_split (filter keptb (leaf_ids t)) (leaf_ids t')) as [r [Pm Hr]].
  - apply NoDup_filter, N.
  - exact N'.
  - intros j Hj. apply filter_In in Hj. destruct Hj as [Hj Kj]. apply (Pb j Hj (K1 j Kj)).
  - exists r. split.
    + rewrite (leaf_taxa_heap h' t' W'). rewrite (Permutation_map (taxon h') Pm), map_app.
      assert (Ex : forall X, (forall j, In j X -> In j (leaf_ids t')) -> map (taxon h') X = map (taxon h) X).
      { intros X HX. apply map_ext_in. intros j Hj. apply Pa. apply (proj1 (leaf_ids_sub t')). apply HX, Hj. }
      rewrite (Ex (filter keptb (leaf_ids t))), (Ex r); [reflexivity| |].
      * intros j Hj. apply Hr, Hj.
      * intros j Hj. apply filter_In in Hj. destruct Hj as [Hj Kj]. apply (Pb j Hj (K1 j Kj)).
    + intros j Hj. destruct (Hr j Hj) as [H1 H2].
      pose proof (proj1 (leaf_ids_sub t') j H1) as Hi'. split; [apply Pa, Hi'|split; [|exact H1]].
      intro Hl. destruct (keptb j) eqn:Kj.
      * apply H2. apply filter_In. split; assumption.
      * apply (Pd j Hl (K2 j Kj)). exact Hi'.
Qed.

Theorem filter_leaf_nodes_leaf_multiset keep rec ub su h t h' :
  WF h -> abs h = Some t -> filter_leaf_nodes keep rec ub su h = HOk h' ->
  exists t' rest, abs h' = Some t' /\
    Permutation (leaf_taxa t')
      (map (taxon h) (filter (fun j => memz j keep) (leaf_ids t)) ++ map (taxon h) rest) /\
    (forall j, In j rest -> In j (ids t) /\ ~ In j (leaf_ids t) /\ In j (leaf_ids t')).
Proof.
  intros W0 A H. destruct (filter_leaf_nodes_leaf_taxa keep rec ub su h t h' W0 A H) as [t' [A' [W' P]]].
  destruct (pruned_multiset h t _ (fun j => memz j keep) h' t' (WF_abs_t h t W0 A) W' P) as [rest HR].
  - intros j Kj Nj. apply Nj. apply memz_In, Kj.
  - intros j Kj. apply memz_false, Kj.
  - exists t', rest. split; [exact A'|exact HR].
Qed.

Theorem prune_leaves_without_taxa_leaf_multiset rec ub su h t h' :
  WF h -> abs h = Some t -> prune_leaves_without_taxa rec ub su h = HOk h' ->
  exists t' rest, abs h' = Some t' /\
    Permutation (leaf_taxa t')
      (map (taxon h) (filter (fun j => match taxon h j with Some _ => true | None => false end) (leaf_ids t))
       ++ map (taxon h) rest) /\
    (forall j, In j rest -> In j (ids t) /\ ~ In j (leaf_ids t) /\ In j (leaf_ids t')).
Proof.
  intros W0 A H.
  destruct (prune_leaves_without_taxa_leaf_taxa rec ub su h t h' W0 A H) as [t' [A' [W' P]]].
  destruct (pruned_multiset h t _ (fun j => match taxon h j with Some _ => true | None => false end)
              h' t' (WF_abs_t h t W0 A) W' P) as [rest HR].
  - intros j Kj Nj. rewrite Nj in Kj. discriminate Kj.
  - intros j Kj. destruct (taxon h j); [discriminate Kj|reflexivity].
  - exists t', rest. split; [exact A'|exact HR].
Qed.

Theorem prune_taxa_leaf_multiset taxa ub su ol h t h' :
  WF h -> abs h = Some t -> prune_taxa taxa ub su ol false h = HOk h' ->
  exists t' rest, abs h' = Some t' /\
    Permutation (leaf_taxa t')
      (map (taxon h)
         (filter (fun j => match taxon h j with Some x => negb (ol && memz x taxa) | None => false end)
                 (leaf_ids t))
       ++ map (taxon h) rest) /\
    (forall j, In j rest -> In j (ids t) /\ ~ In j (leaf_ids t) /\ In j (leaf_ids t')).
Proof.
  intros W0 A H.
  destruct (prune_taxa_leaf_taxa taxa ub su ol h t h' W0 A H) as [t' [A' [W' P]]].
  destruct (pruned_multiset h t _
              (fun j => match taxon h j with Some x => negb (ol && memz x taxa) | None => false end)
              h' t' (WF_abs_t h t W0 A) W' P) as [rest HR].
  - intros j Kj [[Eo [x [Ex Hx]]]|E].
    + rewrite Ex, Eo in Kj. apply memz_In in Hx. rewrite Hx in Kj. discriminate Kj.
    + rewrite E in Kj. discriminate Kj.
  - intros j Kj. unfold asked_pt. destruct (taxon h j) as [x|]; [left|right; reflexivity].
    apply negb_false_iff in Kj. apply andb_true_iff in Kj. destruct Kj as [Eo Hx].
    split; [exact Eo|]. exists x. split; [reflexivity|apply memz_In, Hx].
  - exists t', rest. split; [exact A'|exact HR].
Qed.

(* retain_taxa keeps the leaves whose taxon is retained or lies outside the namespace *)
Theorem retain_taxa_leaf_multiset ns taxa ub su h t h' :
  WF h -> abs h = Some t -> retain_taxa ns taxa ub su h = HOk h' ->
  exists t' rest, abs h' = Some t' /\
    Permutation (leaf_taxa t')
      (map (taxon h)
         (filter (fun j => match taxon h j with Some x => negb (memz x ns) || memz x taxa | None => false end)
                 (leaf_ids t))
       ++ map (taxon h) rest) /\
    (forall j, In j rest -> In j (ids t) /\ ~ In j (leaf_ids t) /\ In j (leaf_ids t')).
Proof.
  intros W0 A H.
  destruct (retain_taxa_leaf_taxa ns taxa ub su h t h' W0 A H) as [t' [A' [W' P]]].
  destruct (pruned_multiset h t _
              (fun j => match taxon h j with Some x => negb (memz x ns) || memz x taxa | None => false end)
              h' t' (WF_abs_t h t W0 A) W' P) as [rest HR].
  - intros j Kj [[x [Ex [Hn Hm]]]|E].
    + rewrite Ex in Kj. apply memz_In in Hn. apply memz_false in Hm. rewrite Hn, Hm in Kj. discriminate Kj.
    + rewrite E in Kj. discriminate Kj.
  - intros j Kj. destruct (taxon h j) as [x|]; [left|right; reflexivity].
    apply orb_false_iff in Kj. destruct Kj as [Hn Hm]. apply negb_false_iff in Hn.
    exists x. split; [reflexivity|split; [apply memz_In, Hn|apply memz_false, Hm]].
  - exists t', rest. split; [exact A'|exact HR].
Qed.
