(* C20, translator tie for the NEXUS character block, part 3: the MATRIX-statement methods GENERATED from the source
   by py/dv/gen_nexuschars.py (Gen/NexusChars.v, over the primitives of Model/C20NexusPrims2.v) against the skeleton
   of Model/C20Nexus2.v.  This file:
     NexusReader._parse_dimensions_statement = parse_dimensions      (gen_parse_dimensions_eq)
     NexusReader._get_taxon                  = get_taxon             (gen_get_taxon_eq)
   and the frame lemmas about the matrix primitives used by Proofs/C20GenNexusMatrix2.v. *)
From Coq Require Import String Ascii ZArith List Bool Lia.
From DV Require Import Model.PyPrims Gen.ReaderLoops Model.Tokenizer Model.Newick Model.C20Model Model.C20Nexus2
  Model.C20NexusPrims Model.C20NexusPrims2 Gen.NexusChars Proofs.C20NexusDims Proofs.C20GenNexus.
Import ListNotations.
Close Scope string_scope.
Open Scope list_scope.
Open Scope Z_scope.

Lemma rec_dims : guard_extra L_dims = (fun _ _ => true) /\ uniform_prim L_dims = FRequireNextTokenUcase.
Proof. split; vm_compute; reflexivity. Qed.

Section DimsTie.
Variable upper : str -> str.
Variable dval : Z -> option Z.

Ltac compute_lits :=
  repeat match goal with
         | |- context [seqb (s_of ?a) (s_of ?b)] =>
           let v := eval vm_compute in (seqb (s_of a) (s_of b)) in change (seqb (s_of a) (s_of b)) with v
         end.
Ltac tstep :=
  match goal with
  | |- context [seqb ?x (s_of ?l)] =>
    is_var x; let E := fresh "E" in
    destruct (seqb x (s_of l)) eqn:E; [apply seqb_true in E; subst x; compute_lits|];
    cbn [orb andb negb nbind fst snd tok_is]
  end.
Ltac foldU := repeat match goal with |- context [ucase upper (require_next_token ?s)] => change (ucase upper (require_next_token s)) with (fetchU upper s) end.
Ltac fstep :=
  rewrite ?py_fetchU; foldU;
  match goal with
  | |- context [fetchU upper ?s0] =>
    let E := fresh "E" in let o := fresh "o" in let s := fresh "s" in
    destruct (fetchU upper s0) as [[o s]| |] eqn:E; cbn [nbind fst snd]; [|reflexivity|reflexivity];
    let t := fresh "t" in let Et := fresh "Et" in destruct (fetchU_some _ _ _ _ E) as [t Et]; subst o; cbn [nbind fst snd tok_is]; foldU
  end.

Lemma dims_loop_eq : forall f t st,
  (dn r <- NexusReader_parse_dimensions_statement_loop1 upper dval f t st ;; ROk (snd r))
  = dims_loop upper dval f (Some t) st.
Proof.
  destruct rec_dims as [G K].
  induction f as [|f IH]; intros t st; [reflexivity|].
  cbn [NexusReader_parse_dimensions_statement_loop1 dims_loop]. rewrite G, K. cbv zeta. cbn [andb fetch tok_is]. unfold str_is. foldU.
  tstep; [reflexivity|].
  tstep.
  { (* NTAX *)
    fstep. tstep; [|reflexivity]. fstep. unfold py_isdecimal, py_int.
    match goal with |- context [all_digits dval ?x] => destruct (all_digits dval x) end; cbn [nbind]; [|reflexivity].
    unfold set_file_specified_ntax. fstep. apply IH. }
  tstep.
  { (* NCHAR *)
    fstep. tstep; [|reflexivity]. fstep. unfold py_isdecimal, py_int.
    match goal with |- context [all_digits dval ?x] => destruct (all_digits dval x) end; cbn [nbind]; [|reflexivity].
    unfold set_file_specified_nchar. fstep. apply IH. }
  tstep; [reflexivity|].
  fstep. apply IH.
Qed.

(* NexusReader._parse_dimensions_statement is the skeleton's parse_dimensions *)
Theorem gen_parse_dimensions_eq : forall F st,
  NexusReader_parse_dimensions_statement upper dval F st = parse_dimensions upper dval F st.
Proof.
  intros F st. unfold NexusReader_parse_dimensions_statement, parse_dimensions.
  rewrite py_fetchU. fold (fetchU upper st).
  destruct (fetchU upper st) as [[o s]| |] eqn:E; cbn [nbind fst snd]; try reflexivity.
  destruct (fetchU_some _ _ _ _ E) as [t Et]. subst o. cbn [nbind fst snd].
  rewrite <- dims_loop_eq.
  destruct (NexusReader_parse_dimensions_statement_loop1 upper dval F t s) as [[t' s']| |]; reflexivity.
Qed.

End DimsTie.

(* ---- _get_taxon ---- *)
Theorem gen_get_taxon_eq : forall (lower : str -> str) ti (tok : option str) st,
  NexusReader_get_taxon lower ti tok st = get_taxon lower st ti (tok_text tok).
Proof.
  intros lower ti tok st. unfold NexusReader_get_taxon, get_taxon, py_require_taxon, py_get_taxon,
    get_file_specified_ntax, py_tns_len, py_not_optz, py_lt_z_optz. cbv zeta.
  destruct (find_label lower (tok_text tok) (tns_labels st ti) 0) as [i|] eqn:Ef.
  - destruct (n_ntax st) as [n|]; cbn [nbind]; [|reflexivity].
    destruct (n =? 0); cbn [nbind]; [reflexivity|].
    destruct (zlen (tns_labels st ti) <? n); reflexivity.
  - destruct (n_ntax st) as [n|]; cbn [nbind negb andb]; [|reflexivity].
    destruct (n =? 0); cbn [nbind negb andb]; [reflexivity|].
    destruct (zlen (tns_labels st ti) <? n); reflexivity.
Qed.

(* ---- the matrix primitives on the LAST matrix of the state ---- *)
Lemma nth_error_last (A : Type) (pre : list A) (m : A) : nth_error (pre ++ [m]) (length pre) = Some m.
Proof. induction pre as [|x pre IH]; [reflexivity | exact IH]. Qed.

Lemma set_nth_last (A : Type) (pre : list A) (m v : A) : set_nth (pre ++ [m]) (length pre) v = pre ++ [v].
Proof. induction pre as [|x pre IH]; [reflexivity|]. cbn [app length set_nth]. rewrite IH. reflexivity. Qed.

Lemma cb_mat_last st cb pre m : n_mats st = pre ++ [m] -> cb_ix cb = length pre -> cb_mat st cb = Some m.
Proof. intros H Hc. unfold cb_mat. rewrite H, Hc. apply nth_error_last. Qed.

Lemma cb_rows_last st cb pre m : n_mats st = pre ++ [m] -> cb_ix cb = length pre -> cb_rows st cb = m_rows m.
Proof. intros H Hc. unfold cb_rows. rewrite (cb_mat_last _ _ _ _ H Hc). reflexivity. Qed.

Lemma cb_upd_rows_last st cb pre m rows : n_mats st = pre ++ [m] -> cb_ix cb = length pre ->
  cb_upd_rows st cb rows = set_last_mat st (mkMat (m_label m) (m_tns m) rows (m_sets m)).
Proof.
  intros H Hc. unfold cb_upd_rows. rewrite (cb_mat_last _ _ _ _ H Hc). unfold set_last_mat.
  rewrite H at 2. rewrite rev_app_distr. cbn [rev app]. rewrite rev_involutive.
  rewrite H, Hc, set_nth_last. reflexivity.
Qed.

Lemma upd_mats_same st : upd_mats st (n_mats st) = st.
Proof. destruct st. reflexivity. Qed.

Lemma set_last_mat_same st pre m : n_mats st = pre ++ [m] -> set_last_mat st m = st.
Proof.
  intro H. unfold set_last_mat. rewrite H. rewrite rev_app_distr. cbn [rev app]. rewrite rev_involutive.
  rewrite <- H. apply upd_mats_same.
Qed.

Lemma row_len_of_set_row : forall rows t n, row_len_of (set_row rows t n) t = Some n.
Proof.
  induction rows as [|[i k] rows IH]; intros t n; cbn [set_row row_len_of].
  - rewrite Nat.eqb_refl. reflexivity.
  - destruct (Nat.eqb i t) eqn:E; cbn [row_len_of]; rewrite E; [reflexivity | apply IH].
Qed.

Lemma set_row_same : forall rows t n, row_len_of rows t = Some n -> set_row rows t n = rows.
Proof.
  induction rows as [|[i k] rows IH]; intros t n H; cbn [row_len_of] in H; [discriminate|]. cbn [set_row].
  destruct (Nat.eqb i t) eqn:E.
  - inversion H; subst. reflexivity.
  - rewrite (IH _ _ H). reflexivity.
Qed.

Lemma mat_eta m : mkMat (m_label m) (m_tns m) (m_rows m) (m_sets m) = m.
Proof. destruct m. reflexivity. Qed.

(* char_block[taxon] on the last matrix: the skeleton's `set_row rows t n0` *)
Lemma py_cb_touch_last st cb pre m t : n_mats st = pre ++ [m] -> cb_ix cb = length pre ->
  py_cb_touch st cb t
  = set_last_mat st (mkMat (m_label m) (m_tns m)
                           (set_row (m_rows m) t (match row_len_of (m_rows m) t with Some n => n | None => 0 end)) (m_sets m)).
Proof.
  intros H Hc. unfold py_cb_touch. rewrite (cb_rows_last _ _ _ _ H Hc).
  destruct (row_len_of (m_rows m) t) as [n|] eqn:E.
  - rewrite (set_row_same _ _ _ E), mat_eta. symmetry. exact (set_last_mat_same _ _ _ H).
  - exact (cb_upd_rows_last _ _ _ _ _ H Hc).
Qed.

Lemma py_cb_touch_present st cb t n : row_len_of (cb_rows st cb) t = Some n -> py_cb_touch st cb t = st.
Proof. intro H. unfold py_cb_touch. rewrite H. reflexivity. Qed.

Lemma zlen_repeat (n : Z) : 0 <= n -> zlen (repeat tt (Z.to_nat n)) = n.
Proof. intro H. unfold zlen. rewrite repeat_length. lia. Qed.

(* the tokenizer does not look at the payload: next_token commutes with a change of the last matrix *)
Lemma set_last_mat_pay st m : exists p, set_last_mat st m = upd_pay st p /\ (forall s, pay s = pay st -> set_last_mat s m = upd_pay s p).
Proof.
  unfold set_last_mat. destruct (rev (n_mats st)) as [|x r] eqn:E.
  - exists (pay st). split; [destruct st; reflexivity|]. intros s Hs.
    assert (Em : n_mats s = n_mats st) by (unfold pay in Hs; inversion Hs; reflexivity).
    rewrite Em, E. rewrite <- Hs. destruct s; reflexivity.
  - eexists. split; [reflexivity|]. intros s Hs.
    assert (Em : n_mats s = n_mats st) by (unfold pay in Hs; inversion Hs; reflexivity).
    rewrite Em, E. unfold upd_mats. rewrite Hs. reflexivity.
Qed.

Lemma next_token_upd_pay st p : next_token (upd_pay st p)
  = match next_token st with ROk (o, s) => ROk (o, upd_pay s p) | RErr e => RErr e | RFuel => RFuel end.
Proof.
  unfold next_token. rewrite nadvance_upd_pay. destruct (nadvance st) as [s|s|e|]; reflexivity.
Qed.
