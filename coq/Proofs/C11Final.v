(* C11: the theorems of Props/C11.v *)
From Coq Require Import List Bool Arith ZArith Lia.
From DV Require Import Model.PyPrims Model.C11Model Proofs.C11Base Proofs.C11Inv Proofs.C11Ops Proofs.C11Ops2
  Proofs.C11Step Proofs.C11Step2 Proofs.C11Step3 Proofs.C11Unify.
Import ListNotations.
Open Scope nat_scope.

(* ---- what Closed says, without the exemption machinery ---- *)
Lemma closed_meaning_l : forall st,
  Closed st <->
  ((forall i t, nth_error (s_trees st) i = Some t ->
      forall x, In x (t_refs t) -> In x (members st (t_ns t))) /\
   (forall i m, nth_error (s_mats st) i = Some m ->
      forall x, In x (m_rows m) -> In x (members st (m_ns m))) /\
   (forall i l, nth_error (s_lists st) i = Some l ->
      forall tr, In tr (l_trees l) -> exists t, nth_error (s_trees st) tr = Some t /\ t_ns t = l_ns l) /\
   (forall i d, nth_error (s_dss st) i = Some d ->
      (forall l, In l (d_lists d) ->
         exists L, nth_error (s_lists st) l = Some L /\ forall a, d_att d = Some a -> l_ns L = a) /\
      (forall m, In m (d_mats d) ->
         exists M, nth_error (s_mats st) m = Some M /\ forall a, d_att d = Some a -> m_ns M = a))).
Proof.
  intro st. split.
  - intros [C1 [C2 [C3 C4]]]. split; [exact C1|]. split; [exact C2|]. split.
    + intros i l E. destruct (C3 i l E) as [_ K]. apply K. intros [].
    + intros i d E. destruct (C4 i d E) as [_ K]. apply K. intros [].
  - intros [C1 [C2 [C3 C4]]]. unfold Closed. closed_split; try assumption.
    + intros i l E. split; [apply list_ok_wf; exact (C3 i l E) | intros _; exact (C3 i l E)].
    + intros i d E. split; [|intros _; exact (C4 i d E)]. destruct (C4 i d E) as [K1 K2]. split.
      * intros l Hl. destruct (K1 l Hl) as [L [EL _]]. apply nth_error_Some. congruence.
      * intros m Hm. destruct (K2 m Hm) as [M [EM _]]. apply nth_error_Some. congruence.
Qed.

(* the container view asked for by the property: a member tree refers to the list's namespace and all
   its node taxa are members of that namespace *)
Lemma closed_members_l : forall st i l tr,
  Closed st -> nth_error (s_lists st) i = Some l -> In tr (l_trees l) ->
  exists t, nth_error (s_trees st) tr = Some t /\ t_ns t = l_ns l
            /\ forall x, In x (t_refs t) -> In x (members st (l_ns l)).
Proof.
  intros st i l tr C E Hin. apply closed_meaning_l in C. destruct C as [C1 [_ [C3 _]]].
  destruct (C3 i l E tr Hin) as [t [Et N]]. exists t. split; [exact Et|]. split; [exact N|].
  rewrite <- N. eapply C1. exact Et.
Qed.

Lemma closedb_iff : forall st, closedb st = true <-> Closed st.
Proof.
  intro st. rewrite closed_meaning_l. unfold closedb. rewrite !andb_true_iff, !forallb_forall. split.
  - intros [[[H1 H2] H3] H4]. split; [|split; [|split]].
    + intros i t E x Hx. specialize (H1 t (nth_error_In _ _ E)). rewrite forallb_forall in H1.
      apply memb_In. apply H1, Hx.
    + intros i m E x Hx. specialize (H2 m (nth_error_In _ _ E)). rewrite forallb_forall in H2.
      apply memb_In. apply H2, Hx.
    + intros i l E tr Htr. specialize (H3 l (nth_error_In _ _ E)). rewrite forallb_forall in H3.
      specialize (H3 tr Htr). destruct (nth_error (s_trees st) tr) as [t|]; [|discriminate].
      exists t. split; [reflexivity | apply Nat.eqb_eq; exact H3].
    + intros i d E. specialize (H4 d (nth_error_In _ _ E)). apply andb_true_iff in H4. destruct H4 as [K1 K2].
      rewrite forallb_forall in K1, K2. split.
      * intros l Hl. specialize (K1 l Hl). destruct (nth_error (s_lists st) l) as [L|]; [|discriminate].
        exists L. split; [reflexivity|]. intros a Ha. unfold att_okb in K1. rewrite Ha in K1. apply Nat.eqb_eq. exact K1.
      * intros m Hm. specialize (K2 m Hm). destruct (nth_error (s_mats st) m) as [M|]; [|discriminate].
        exists M. split; [reflexivity|]. intros a Ha. unfold att_okb in K2. rewrite Ha in K2. apply Nat.eqb_eq. exact K2.
  - intros [C1 [C2 [C3 C4]]]. split; [split; [split|]|].
    + intros t Ht. apply In_nth_error in Ht. destruct Ht as [i E]. apply forallb_forall. intros x Hx.
      apply memb_In. eapply C1; eassumption.
    + intros m Hm. apply In_nth_error in Hm. destruct Hm as [i E]. apply forallb_forall. intros x Hx.
      apply memb_In. eapply C2; eassumption.
    + intros l Hl. apply In_nth_error in Hl. destruct Hl as [i E]. apply forallb_forall. intros tr Htr.
      destruct (C3 i l E tr Htr) as [t [Et N]]. rewrite Et. apply Nat.eqb_eq. exact N.
    + intros d Hd. apply In_nth_error in Hd. destruct Hd as [i E]. destruct (C4 i d E) as [K1 K2].
      apply andb_true_iff. split; apply forallb_forall.
      * intros l Hl. destruct (K1 l Hl) as [L [EL A]]. rewrite EL. unfold att_okb.
        destruct (d_att d) as [a|]; [|reflexivity]. apply Nat.eqb_eq. apply A. reflexivity.
      * intros m Hm. destruct (K2 m Hm) as [M [EM A]]. rewrite EM. unfold att_okb.
        destruct (d_att d) as [a|]; [|reflexivity]. apply Nat.eqb_eq. apply A. reflexivity.
Qed.

Lemma closed_init_l : Closed st_init.
Proof. apply closedb_iff. reflexivity. Qed.

Section WithLower.
Variable lower : lbl -> lbl.

(* ---- all reachable states ---- *)
Lemma closed_history_l : forall ops st,
  Closed st -> hist_ok lower st ops = true -> Forall Closed (states lower st ops).
Proof.
  induction ops as [|o r IH]; intros st C H; cbn [states]; [constructor|].
  cbn [hist_ok] in H. apply andb_true_iff in H. destruct H as [H H3]. apply andb_true_iff in H. destruct H as [H1 H2].
  assert (C1 : Closed (fst (step lower st o))).
  { apply closed_step_l; [exact C | exact H1 |]. intro E. rewrite E in H2. discriminate. }
  constructor; [exact C1 | apply IH; assumption].
Qed.

Lemma closed_run_l : forall ops st,
  Closed st -> hist_ok lower st ops = true -> Closed (run_state lower st ops).
Proof.
  induction ops as [|o r IH]; intros st C H; [exact C|].
  cbn [hist_ok] in H. apply andb_true_iff in H. destruct H as [H H3]. apply andb_true_iff in H. destruct H as [H1 H2].
  unfold run_state. cbn [fold_left]. apply IH; [|exact H3].
  apply closed_step_l; [exact C | exact H1 |]. intro E. rewrite E in H2. discriminate.
Qed.

Lemma closed_reachable_l : forall ops, hist_ok lower st_init ops = true -> Closed (run_state lower st_init ops).
Proof. intros ops H. apply closed_run_l; [exact closed_init_l | exact H]. Qed.

(* ---- migration by label ---- *)
Lemma migrate_unifies_l : forall st tr n,
  valid_tree st tr = true -> valid_ns st n = true ->
  (forall x, In x (members st n) -> x < length (s_lab st)) ->
  (forall x, In x (t_refs (gettree st tr)) -> x < length (s_lab st)) ->
  let st' := fst (step lower st (MigrateTree tr n true)) in
  let refs := t_refs (gettree st tr) in
  let refs' := t_refs (gettree st' tr) in
  let k := key lower (ns_cs st n) in
  t_ns (gettree st' tr) = n /\ length refs' = length refs
  /\ (forall i, i < length refs ->
        In (nth i refs' 0) (members st' n) /\ k (label st' (nth i refs' 0)) = k (label st (nth i refs 0)))
  /\ (forall i j, i < length refs -> j < length refs ->
        (nth i refs' 0 = nth j refs' 0 <-> k (label st (nth i refs 0)) = k (label st (nth j refs 0)))).
Proof.
  intros st tr n Vt Vn W Vr. cbn [step]. rewrite Vt, Vn. cbn [andb fst].
  apply migrate_tree_unifies; [apply ltb_lt'; exact Vt | exact W | exact Vr].
Qed.

(* the same for the import done by append (strategy "migrate") *)
Lemma append_unifies_l : forall st l tr,
  valid_list st l = true -> valid_tree st tr = true ->
  t_ns (gettree st tr) <> l_ns (getlist st l) ->
  (forall x, In x (members st (l_ns (getlist st l))) -> x < length (s_lab st)) ->
  (forall x, In x (t_refs (gettree st tr)) -> x < length (s_lab st)) ->
  let n := l_ns (getlist st l) in
  let st' := fst (step lower st (Append l tr (SMigrate true))) in
  let refs := t_refs (gettree st tr) in
  let refs' := t_refs (gettree st' tr) in
  let k := key lower (ns_cs st n) in
  l_trees (getlist st' l) = l_trees (getlist st l) ++ [tr] /\ l_ns (getlist st' l) = n
  /\ t_ns (gettree st' tr) = n /\ length refs' = length refs
  /\ (forall i, i < length refs ->
        In (nth i refs' 0) (members st' n) /\ k (label st' (nth i refs' 0)) = k (label st (nth i refs 0)))
  /\ (forall i j, i < length refs -> j < length refs ->
        (nth i refs' 0 = nth j refs' 0 <-> k (label st (nth i refs 0)) = k (label st (nth j refs 0)))).
Proof.
  intros st l tr Vl Vt Ne W Vr. cbn [step]. rewrite Vl, Vt. cbn [andb].
  unfold append_tree, import_tree. apply Nat.eqb_neq in Ne. rewrite Ne. cbn [fst snd].
  set (n := l_ns (getlist st l)). set (st1 := fst (migrate_tree lower st tr n true [])).
  pose proof (migrate_tree_unifies lower st tr n (ltb_lt' _ _ Vt) W Vr) as U. fold st1 in U.
  assert (L1 : s_lists st1 = s_lists st).
  { unfold st1, migrate_tree. destruct (recon_refs lower st n true (t_refs (gettree st tr)) []) as [[s1 r1] m1] eqn:R.
    cbn [fst]. simpl. destruct (recon_refs_spec lower _ _ _ _ _ _ _ _ R) as [[[_ [L _]] _] _]. exact L. }
  assert (GL : getlist st1 l = getlist st l) by (unfold getlist; rewrite L1; reflexivity).
  unfold list_push. rewrite GL. fold n.
  assert (G2 : getlist (set_list st1 l (mkTL n (l_trees (getlist st l) ++ [tr]))) l = mkTL n (l_trees (getlist st l) ++ [tr])).
  { apply getlist_some. simpl. apply ltb_lt' in Vl. destruct (nth_error (s_lists st1) l) eqn:E.
    - eapply nth_error_upd_same. exact E.
    - apply nth_error_None in E. rewrite L1 in E. lia. }
  rewrite G2. cbn [l_trees l_ns]. split; [reflexivity|]. split; [reflexivity|]. exact U.
Qed.

(* ---- removed trees ---- *)
Lemma pop_consistent_l : forall st l i st' tr,
  Closed st -> step lower st (Pop l i) = (st', OId tr) ->
  exists t, nth_error (s_trees st) tr = Some t /\ nth_error (s_trees st') tr = Some t
            /\ In tr (l_trees (getlist st l))
            /\ t_ns t = l_ns (getlist st l) /\ l_ns (getlist st' l) = l_ns (getlist st l)
            /\ (forall x, In x (t_refs t) -> In x (members st' (t_ns t)))
            /\ Closed st'.
Proof.
  intros st l i st' tr C H.
  pose proof (step_Pop lower st l i C) as C'. rewrite H in C'. cbn [fst] in C'.
  cbn [step] in H. destruct (valid_list st l) eqn:Vl; [|discriminate].
  destruct (norm_index (length (l_trees (getlist st l))) i) as [j|] eqn:N; [|discriminate].
  injection H as H1 H2. subst st' tr. apply ltb_lt' in Vl.
  assert (Vj : j < length (l_trees (getlist st l))).
  { unfold norm_index in N. destruct (i <? 0)%Z eqn:E1.
    - destruct (Z.of_nat (length (l_trees (getlist st l))) + i <? 0)%Z eqn:E2; [discriminate|]. injection N as N. subst j.
      apply Z.ltb_lt in E1. apply Z.ltb_ge in E2. lia.
    - destruct (i <? Z.of_nat (length (l_trees (getlist st l))))%Z eqn:E2; [|discriminate]. injection N as N. subst j.
      apply Z.ltb_ge in E1. apply Z.ltb_lt in E2. lia. }
  assert (Hin : In (nth j (l_trees (getlist st l)) 0) (l_trees (getlist st l))) by (apply nth_In; exact Vj).
  destruct (closed_list_member st l _ C Vl Hin) as [Vt Nt].
  exists (gettree st (nth j (l_trees (getlist st l)) 0)).
  split; [apply lt_tree_get; exact Vt|]. split; [simpl; apply lt_tree_get; exact Vt|]. split; [exact Hin|].
  split; [exact Nt|]. split.
  - match goal with |- l_ns (getlist (set_list st l ?X) l) = _ =>
      assert (G : getlist (set_list st l X) l = X) end.
    { apply getlist_some. simpl. destruct (nth_error (s_lists st) l) eqn:E.
      - eapply nth_error_upd_same. exact E.
      - apply nth_error_None in E. lia. }
    rewrite G. reflexivity.
  - split; [|exact C']. apply (closed_tree_ok NoX NoX). exact C.
Qed.

Lemma remove_consistent_l : forall st l tr st',
  Closed st -> step lower st (Remove l tr) = (st', OUnit) ->
  exists t, nth_error (s_trees st) tr = Some t /\ nth_error (s_trees st') tr = Some t
            /\ In tr (l_trees (getlist st l))
            /\ t_ns t = l_ns (getlist st l) /\ l_ns (getlist st' l) = l_ns (getlist st l)
            /\ (forall x, In x (t_refs t) -> In x (members st' (t_ns t)))
            /\ Closed st'.
Proof.
  intros st l tr st' C H.
  pose proof (step_Remove lower st l tr C) as C'. rewrite H in C'. cbn [fst] in C'.
  cbn [step] in H. destruct (valid_list st l && valid_tree st tr) eqn:V; [|discriminate].
  apply andb_true_iff in V. destruct V as [Vl Vt]. apply ltb_lt' in Vl. apply ltb_lt' in Vt.
  destruct (remove_first tr (l_trees (getlist st l))) as [r|] eqn:R; [|discriminate].
  injection H as H1. subst st'.
  assert (Hin : In tr (l_trees (getlist st l))).
  { clear - R. revert r R. induction (l_trees (getlist st l)) as [|y ys IH]; intros r R; simpl in R; [discriminate|].
    destruct (Nat.eqb tr y) eqn:E; [left; apply Nat.eqb_eq in E; auto|].
    destruct (remove_first tr ys); [|discriminate]. right. eapply IH. reflexivity. }
  destruct (closed_list_member st l tr C Vl Hin) as [_ Nt].
  exists (gettree st tr).
  split; [apply lt_tree_get; exact Vt|]. split; [simpl; apply lt_tree_get; exact Vt|]. split; [exact Hin|].
  split; [exact Nt|]. split.
  - match goal with |- l_ns (getlist (set_list st l ?X) l) = _ =>
      assert (G : getlist (set_list st l X) l = X) end.
    { apply getlist_some. simpl. destruct (nth_error (s_lists st) l) eqn:E.
      - eapply nth_error_upd_same. exact E.
      - apply nth_error_None in E. lia. }
    rewrite G. reflexivity.
  - split; [|exact C']. apply (closed_tree_ok NoX NoX). exact C.
Qed.

(* a tree object stays consistent with its own namespace along every disciplined continuation *)
Lemma tree_stays_consistent_l : forall ops st tr,
  Closed st -> hist_ok lower st ops = true ->
  forall x, In x (t_refs (gettree (run_state lower st ops) tr)) ->
            In x (members (run_state lower st ops) (t_ns (gettree (run_state lower st ops) tr))).
Proof.
  induction ops as [|o r IH]; intros st tr C H.
  - apply (closed_tree_ok NoX NoX). exact C.
  - cbn [hist_ok] in H. apply andb_true_iff in H. destruct H as [H H3]. apply andb_true_iff in H. destruct H as [H1 H2].
    unfold run_state. cbn [fold_left]. apply IH; [|exact H3].
    apply closed_step_l; [exact C | exact H1 |]. intro E. rewrite E in H2. discriminate.
Qed.


(* under the hypothesis that no two labels on the tree differ only by what the target's case rule ignores,
   label-equal nodes end on one taxon and label-different nodes on different taxa *)
Lemma migrate_distinct_l : forall st tr n,
  valid_tree st tr = true -> valid_ns st n = true ->
  (forall x, In x (members st n) -> x < length (s_lab st)) ->
  (forall x, In x (t_refs (gettree st tr)) -> x < length (s_lab st)) ->
  let st' := fst (step lower st (MigrateTree tr n true)) in
  let refs := t_refs (gettree st tr) in
  let refs' := t_refs (gettree st' tr) in
  (forall i j, i < length refs -> j < length refs ->
     key lower (ns_cs st n) (label st (nth i refs 0)) = key lower (ns_cs st n) (label st (nth j refs 0)) ->
     label st (nth i refs 0) = label st (nth j refs 0)) ->
  forall i j, i < length refs -> j < length refs ->
    (label st (nth i refs 0) = label st (nth j refs 0) <-> nth i refs' 0 = nth j refs' 0).
Proof.
  intros st tr n Vt Vn W Vr st' refs refs' H i j Hi Hj.
  destruct (migrate_unifies_l st tr n Vt Vn W Vr) as [_ [_ [_ U]]]. fold st' refs refs' in U.
  rewrite (U i j Hi Hj). split.
  - intro E. rewrite E. reflexivity.
  - apply H; assumption.
Qed.


(* TreeList.migrate_taxon_namespace(n): one memo for the whole list *)
Lemma migrate_list_unifies_l : forall st l n,
  valid_list st l = true -> valid_ns st n = true -> NoDup (l_trees (getlist st l)) ->
  (forall tr, In tr (l_trees (getlist st l)) -> tr < length (s_trees st)) ->
  (forall x, In x (members st n) -> x < length (s_lab st)) ->
  (forall tr x, In tr (l_trees (getlist st l)) -> In x (t_refs (gettree st tr)) -> x < length (s_lab st)) ->
  let st' := fst (step lower st (MigrateList l n true)) in
  let k := key lower (ns_cs st n) in
  l_ns (getlist st' l) = n /\ l_trees (getlist st' l) = l_trees (getlist st l)
  /\ (forall tr, In tr (l_trees (getlist st l)) ->
        t_ns (gettree st' tr) = n /\ length (t_refs (gettree st' tr)) = length (t_refs (gettree st tr))
        /\ forall i, i < length (t_refs (gettree st tr)) ->
             In (nth i (t_refs (gettree st' tr)) 0) (members st' n)
             /\ k (label st' (nth i (t_refs (gettree st' tr)) 0)) = k (label st (nth i (t_refs (gettree st tr)) 0)))
  /\ (forall tr1 tr2 i j, In tr1 (l_trees (getlist st l)) -> In tr2 (l_trees (getlist st l)) ->
        i < length (t_refs (gettree st tr1)) -> j < length (t_refs (gettree st tr2)) ->
        (nth i (t_refs (gettree st' tr1)) 0 = nth j (t_refs (gettree st' tr2)) 0
         <-> k (label st (nth i (t_refs (gettree st tr1)) 0)) = k (label st (nth j (t_refs (gettree st tr2)) 0)))).
Proof.
  intros st l n Vl Vn ND Vt W Vr. cbn [step]. rewrite Vl, Vn. cbn [andb fst].
  apply migrate_list_unifies; [apply ltb_lt'; exact Vl | exact ND | exact Vt | exact W | exact Vr].
Qed.

End WithLower.
