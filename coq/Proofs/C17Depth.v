(* C17: root distances, lineage counting, tree length *)
From Coq Require Import ZArith QArith List Bool Lia ZifyBool.
From DV Require Import Model.PyPrims Model.Tree Model.C17Model Proofs.C17Ages.
Import ListNotations.
Open Scope Z_scope.

Lemma sumZ_cons x l : sumZ (x :: l) = x + sumZ l.
Proof. reflexivity. Qed.

Lemma sumZ_app a b : sumZ (a ++ b) = sumZ a + sumZ b.
Proof. induction a as [|x a IH]; [reflexivity|]. cbn [app]. rewrite !sumZ_cons, IH. lia. Qed.

Lemma epaths_unfold k :
  epaths k = (k, [elen k]) :: flat_map (fun c => map (fun vp => (fst vp, elen k :: snd vp)) (epaths c)) (t_kids k).
Proof. destruct k; reflexivity. Qed.

Lemma epaths_nonempty k vp : In vp (epaths k) -> snd vp <> [].
Proof.
  rewrite epaths_unfold. intros [<- | H]; [discriminate|].
  apply in_flat_map in H. destruct H as [c [_ H]]. apply in_map_iff in H. destruct H as [vp' [<- _]]. discriminate.
Qed.

Lemma epaths_node k vp : In vp (epaths k) -> In (fst vp) (preorder k).
Proof.
  revert vp. induction k as [i x l e ks IH] using tree_ind'. intros vp H. rewrite Forall_forall in IH.
  rewrite epaths_unfold in H. destruct H as [<- | H]; [apply in_preorder_self|].
  apply in_flat_map in H. destruct H as [c [Hc H]]. apply in_map_iff in H. destruct H as [vp' [<- H]].
  cbn [fst]. eapply in_preorder_kid; [exact Hc | apply IH; assumption].
Qed.

Lemma last_cons {X} (a : X) p d : p <> [] -> last (a :: p) d = last p d.
Proof. destruct p; [contradiction | reflexivity]. Qed.

Lemma removelast_cons {X} (a : X) p : p <> [] -> removelast (a :: p) = a :: removelast p.
Proof. destruct p; [contradiction | reflexivity]. Qed.

Lemma epaths_last k vp : In vp (epaths k) -> last (snd vp) 0 = elen (fst vp).
Proof.
  revert vp. induction k as [i x l e ks IH] using tree_ind'. intros vp H. rewrite Forall_forall in IH.
  rewrite epaths_unfold in H. destruct H as [<- | H]; [reflexivity|].
  apply in_flat_map in H. destruct H as [c [Hc H]]. apply in_map_iff in H. destruct H as [vp' [<- H]].
  cbn [fst snd]. rewrite last_cons by (eapply epaths_nonempty; exact H). apply (IH c Hc _ H).
Qed.

Lemma sumZ_removelast p : p <> [] -> sumZ p = sumZ (removelast p) + last p 0.
Proof.
  intro H. rewrite (app_removelast_last 0 H) at 1. rewrite sumZ_app. cbn. lia.
Qed.

Lemma epaths_fst k : map fst (epaths k) = preorder k.
Proof.
  induction k as [i x l e ks IH] using tree_ind'. rewrite epaths_unfold, preorder_unfold. cbn [map fst t_kids]. f_equal.
  generalize (elen (T i x l e ks)) as L. intro L.
  induction IH as [|c r Hc _ IHr]; [reflexivity|]. cbn [flat_map]. rewrite map_app, IHr. f_equal.
  rewrite map_map. cbn [fst]. exact Hc.
Qed.

Lemma paths_fst t : map fst (paths t) = preorder t.
Proof.
  unfold paths. rewrite preorder_unfold. cbn [map fst]. f_equal.
  induction (t_kids t) as [|c r IH]; [reflexivity|]. cbn [flat_map]. rewrite map_app, IH, epaths_fst. reflexivity.
Qed.

(* ------------------------------------------------------------------------------------------ *)

Definition all_lens (k : tree) : Prop := forall v, In v (preorder k) -> t_len v <> None.

Lemma rseq_map_cases {X Y} (g : X -> res Y) (F : X -> Y) (e0 : err) ks :
  Forall (fun k => g k = Ok (F k) \/ g k = Err e0) ks ->
  (rsequence (map g ks) = Ok (map F ks) /\ forall k, In k ks -> g k = Ok (F k))
  \/ (rsequence (map g ks) = Err e0 /\ exists k, In k ks /\ g k = Err e0).
Proof.
  induction 1 as [|k r Hk _ IH].
  - left. split; [reflexivity|]. intros k [].
  - cbn [map rsequence]. destruct Hk as [E | E]; rewrite E.
    + destruct IH as [[E2 H2] | [E2 [k' [Hin E3]]]]; rewrite E2.
      * left. split; [reflexivity|]. intros c [<- | Hc]; [exact E | apply H2; exact Hc].
      * right. split; [reflexivity|]. exists k'. split; [right; exact Hin | exact E3].
    + right. split; [reflexivity|]. exists k. split; [left; reflexivity | exact E].
Qed.

Definition dentry_at (pd : Z) (vp : tree * list Z) : dentry :=
  mkD (t_id (fst vp)) (pd + sumZ (removelast (snd vp))) (pd + sumZ (snd vp)) (is_leaf (fst vp)).

Lemma concat_map_flat {X Y} (f : X -> list Y) l : concat (map f l) = flat_map f l.
Proof. induction l as [|a l IH]; [reflexivity|]. cbn. rewrite IH. reflexivity. Qed.

Lemma map_flat_map {X Y W} (g : Y -> W) (f : X -> list Y) l : map g (flat_map f l) = flat_map (fun x => map g (f x)) l.
Proof. induction l as [|a l IH]; [reflexivity|]. cbn. rewrite map_app, IH. reflexivity. Qed.

Lemma flat_map_ext_in {X Y} (f g : X -> list Y) l : (forall a, In a l -> f a = g a) -> flat_map f l = flat_map g l.
Proof.
  induction l as [|a l IH]; intro H; [reflexivity|]. cbn. rewrite (H a (or_introl eq_refl)), IH; [reflexivity|].
  intros b Hb. apply H. right. exact Hb.
Qed.

Lemma dentry_at_cons pd len vp : snd vp <> [] ->
  dentry_at pd (fst vp, len :: snd vp) = dentry_at (len + pd) vp.
Proof.
  intro H. unfold dentry_at. cbn [fst snd]. rewrite removelast_cons by exact H. rewrite !sumZ_cons. f_equal; lia.
Qed.

Lemma rd_spec k : forall pd,
  (all_lens k /\ rd pd k = Ok (map (dentry_at pd) (epaths k)))
  \/ (~ all_lens k /\ rd pd k = Err TypeErr).
Proof.
  induction k as [i x l e ks IH] using tree_ind'. intro pd. cbn [rd]. destruct e as [len|].
  2:{ right. split; [|reflexivity]. intro H. apply (H _ (in_preorder_self _)). reflexivity. }
  destruct (rseq_map_cases (rd (len + pd)) (fun c => map (dentry_at (len + pd)) (epaths c)) TypeErr ks) as
      [[E Hall] | [E [c [Hc Ec]]]].
  { apply Forall_impl with (2 := IH). intros c H. destruct (H (len + pd)) as [[_ H1] | [_ H1]]; [left | right]; exact H1. }
  - rewrite E. left. split.
    + intros v Hv. apply in_preorder_inv in Hv. destruct Hv as [-> | [c [Hc Hv]]]; [discriminate|].
      rewrite Forall_forall in IH. destruct (IH c Hc (len + pd)) as [[H _] | [_ H]]; [apply H; exact Hv|].
      rewrite (Hall c Hc) in H. discriminate.
    + rewrite epaths_unfold. cbn [map t_kids]. apply f_equal. apply f_equal2.
      * unfold dentry_at. cbn [fst snd removelast t_id]. rewrite !sumZ_cons. change (sumZ []) with 0.
        change (elen (T i x l (Some len) ks)) with len.
        replace (pd + 0) with pd by lia. replace (pd + (len + 0)) with (len + pd) by lia. reflexivity.
      * rewrite concat_map_flat, map_flat_map. apply flat_map_ext_in. intros c Hc.
        rewrite map_map. apply map_ext_in. intros vp Hvp. symmetry.
        change (elen (T i x l (Some len) ks)) with len. apply dentry_at_cons. eapply epaths_nonempty; exact Hvp.
  - rewrite E. right. split; [|reflexivity]. intro H.
    rewrite Forall_forall in IH. destruct (IH c Hc (len + pd)) as [[_ H1] | [H1 _]]; [rewrite H1 in Ec; discriminate|].
    apply H1. intros v Hv. apply H. eapply in_preorder_kid; [exact Hc | exact Hv].
Qed.

Lemma root_dists_spec t :
  ((forall v, In v (nonroot t) -> t_len v <> None) /\ root_dists t = Ok (map dentry_of (paths t)))
  \/ ((exists v, In v (nonroot t) /\ t_len v = None) /\ root_dists t = Err TypeErr).
Proof.
  unfold root_dists, nonroot.
  destruct (rseq_map_cases (rd 0) (fun c => map (dentry_at 0) (epaths c)) TypeErr (t_kids t)) as
      [[E Hall] | [E [c [Hc Ec]]]].
  { apply Forall_forall. intros c _. destruct (rd_spec c 0) as [[_ H1] | [_ H1]]; [left | right]; exact H1. }
  - rewrite E. left. split.
    + intros v Hv. apply in_flat_map in Hv. destruct Hv as [c [Hc Hv]].
      destruct (rd_spec c 0) as [[H _] | [_ H]]; [apply H; exact Hv|]. rewrite (Hall c Hc) in H. discriminate.
    + unfold paths. cbn [map]. apply f_equal. rewrite concat_map_flat, map_flat_map. apply f_equal2; [reflexivity|].
      apply flat_map_ext_in. intros c Hc.
      apply map_ext. intros vp. unfold dentry_at, dentry_of. rewrite !Z.add_0_l. reflexivity.
  - rewrite E. right. split; [|reflexivity].
    destruct (rd_spec c 0) as [[_ H1] | [H1 _]]; [rewrite H1 in Ec; discriminate|].
    assert (exists v, In v (preorder c) /\ t_len v = None) as [v [Hv Hn]].
    { clear - H1. unfold all_lens in H1.
      assert (G : forall ls, (forall v, In v ls -> t_len v <> None) \/ exists v, In v ls /\ t_len v = None).
      { induction ls as [|a ls IH]; [left; intros v []|]. destruct (t_len a) eqn:Ea.
        - destruct IH as [IH | [v [Hv Hn]]]; [left | right].
          + intros v [<- | Hv]; [rewrite Ea; discriminate | apply IH; exact Hv].
          + exists v. split; [right; exact Hv | exact Hn].
        - right. exists a. split; [left; reflexivity | exact Ea]. }
      destruct (G (preorder c)) as [H | H]; [contradiction | exact H]. }
    exists v. split; [|exact Hn]. apply in_flat_map. exists c. split; assumption.
Qed.

(* ------------------------------------------------------------------------------------------ *)

Lemma filter_map_comm {X Y} (p : Y -> bool) (g : X -> Y) l : filter p (map g l) = map g (filter (fun x => p (g x)) l).
Proof. induction l as [|a l IH]; [reflexivity|]. cbn. destruct (p (g a)); cbn; rewrite IH; reflexivity. Qed.

Lemma filter_ext_in_local {X} (p q : X -> bool) l : (forall a, In a l -> p a = q a) -> filter p l = filter q l.
Proof.
  induction l as [|a l IH]; intro H; [reflexivity|]. cbn. rewrite (H a (or_introl eq_refl)), IH; [reflexivity|].
  intros b Hb. apply H. right. exact Hb.
Qed.

Lemma depth_exact_l : forall t,
  (forall v, In v (nonroot t) -> t_len v <> None) ->
  map fst (paths t) = preorder t
  /\ root_dists t = Ok (map dentry_of (paths t))
  /\ resolve_node_depths t = Ok (map (fun vp => (t_id (fst vp), sumZ (snd vp))) (paths t))
  /\ calc_node_root_distances false t = Ok (map (fun vp => sumZ (snd vp)) (paths t))
  /\ calc_node_root_distances true t = Ok (map (fun vp => sumZ (snd vp)) (filter (fun vp => is_leaf (fst vp)) (paths t))).
Proof.
  intros t H. split; [apply paths_fst|].
  destruct (root_dists_spec t) as [[_ E] | [[v [Hv Hn]] _]]; [|exfalso; apply (H v Hv Hn)].
  split; [exact E|]. unfold resolve_node_depths, calc_node_root_distances. rewrite E. repeat split.
  - rewrite map_map. reflexivity.
  - cbn [negb orb]. f_equal.
    assert (G : forall (ls : list dentry), filter (fun _ => true) ls = ls).
    { induction ls as [|a ls IH]; [reflexivity|]. cbn. rewrite IH. reflexivity. }
    rewrite G, map_map. reflexivity.
  - cbn [negb orb]. f_equal. rewrite filter_map_comm, map_map. reflexivity.
Qed.

Lemma depth_none_l : forall t,
  (exists v, In v (nonroot t) /\ t_len v = None) ->
  root_dists t = Err TypeErr /\ resolve_node_depths t = Err TypeErr
  /\ (forall b, calc_node_root_distances b t = Err TypeErr)
  /\ (forall x, num_lineages_at x t = Err TypeErr).
Proof.
  intros t [v [Hv Hn]]. destruct (root_dists_spec t) as [[H _] | [_ E]]; [exfalso; apply (H v Hv Hn)|].
  unfold resolve_node_depths, calc_node_root_distances, num_lineages_at. rewrite E. repeat split.
Qed.

(* root distance of the tips = the tip distances of the root *)
Lemma epaths_tipdists k :
  map (fun vp => sumZ (snd vp)) (filter (fun vp => is_leaf (fst vp)) (epaths k)) = map (Z.add (elen k)) (tipdists k).
Proof.
  induction k as [i x l e ks IH] using tree_ind'. rewrite epaths_unfold. cbn [filter fst t_kids].
  destruct ks as [|k0 r].
  - cbn. f_equal; lia.
  - change (is_leaf (T i x l e (k0 :: r))) with false. cbv iota.
    rewrite tipdists_node. set (K := T i x l e (k0 :: r)).
    assert (G : forall ls, Forall (fun k => map (fun vp => sumZ (snd vp)) (filter (fun vp => is_leaf (fst vp)) (epaths k))
                                          = map (Z.add (elen k)) (tipdists k)) ls ->
       map (fun vp => sumZ (snd vp))
         (filter (fun vp => is_leaf (fst vp)) (flat_map (fun c => map (fun vp => (fst vp, elen K :: snd vp)) (epaths c)) ls))
       = map (Z.add (elen K)) (flat_map (fun c => map (Z.add (elen c)) (tipdists c)) ls)).
    { induction 1 as [|c ls Hc _ IHl]; [reflexivity|]. cbn [flat_map]. rewrite filter_app, !map_app, IHl. f_equal.
      rewrite filter_map_comm, map_map. cbn [fst snd].
      rewrite <- Hc, map_map. apply map_ext. intro vp. apply sumZ_cons. }
    apply G. exact IH.
Qed.

Lemma leaf_depths_are_tipdists t : t_kids t <> [] ->
  map (fun vp => sumZ (snd vp)) (filter (fun vp => is_leaf (fst vp)) (paths t)) = tipdists t.
Proof.
  destruct t as [i x l e ks]. cbn [t_kids]. intro Hne. destruct ks as [|k0 r]; [contradiction|].
  unfold paths. cbn [filter fst t_kids]. change (is_leaf (T i x l e (k0 :: r))) with false. cbv iota.
  rewrite tipdists_node.
  generalize (k0 :: r) as ls. intro ls.
  induction ls as [|c ls IH]; [reflexivity|]. cbn [flat_map]. rewrite filter_app, map_app, IH, epaths_tipdists. reflexivity.
Qed.

(* ------------------------------------------------------------------------------------------ *)
(* num_lineages_at                                                                             *)

Lemma num_lineages_general_l : forall x t,
  (forall v, In v (nonroot t) -> t_len v <> None) ->
  num_lineages_at x t =
  Ok (Z.of_nat (length (filter
        (fun vp => (sumZ (snd vp) =? x) || ((sumZ (snd vp) >=? x) && (sumZ (removelast (snd vp)) <? x)))
        (flat_map epaths (t_kids t))))).
Proof.
  intros x t H. destruct (depth_exact_l t H) as [_ [E _]]. unfold num_lineages_at. rewrite E.
  unfold paths. cbn [map tl]. rewrite filter_map_comm, map_length. reflexivity.
Qed.

Lemma num_lineages_spec_l : forall x t,
  (forall v, In v (nonroot t) -> exists l, t_len v = Some l /\ 0 < l) ->
  num_lineages_at x t =
  Ok (Z.of_nat (length (filter
        (fun vp => (sumZ (removelast (snd vp)) <? x) && (x <=? sumZ (snd vp)))
        (flat_map epaths (t_kids t))))).
Proof.
  intros x t H. rewrite num_lineages_general_l.
  2:{ intros v Hv. destruct (H v Hv) as [l [E _]]. rewrite E. discriminate. }
  do 3 f_equal. apply filter_ext_in_local. intros vp Hvp.
  apply in_flat_map in Hvp. destruct Hvp as [c [Hc Hvp]].
  pose proof (epaths_nonempty _ _ Hvp) as Hne. pose proof (epaths_last _ _ Hvp) as Hl.
  pose proof (sumZ_removelast _ Hne) as Hs. rewrite Hl in Hs.
  assert (Hin : In (fst vp) (nonroot t)).
  { unfold nonroot. apply in_flat_map. exists c. split; [exact Hc | apply epaths_node; exact Hvp]. }
  destruct (H _ Hin) as [l [El Hpos]]. unfold elen in Hs. rewrite El in Hs. cbn [len0] in Hs. lia.
Qed.

(* with a zero-length edge the first clause of the code counts an edge that does not cross x *)
Lemma num_lineages_zero_length_example :
  let t := T 0 None None None [T 1 None None (Some 0) []; T 2 None None (Some 5) []] in
  num_lineages_at 0 t = Ok 1
  /\ length (filter (fun vp => (sumZ (removelast (snd vp)) <? 0) && (0 <=? sumZ (snd vp))) (flat_map epaths (t_kids t))) = 0%nat.
Proof. split; vm_compute; reflexivity. Qed.

(* ------------------------------------------------------------------------------------------ *)
(* Tree.length                                                                                 *)

Lemma tree_length_spec_l : forall t, tree_length t = sumZ (map elen (preorder t)).
Proof.
  induction t as [i x l e ks IH] using tree_ind'. rewrite preorder_unfold. cbn [tree_length map t_kids].
  rewrite sumZ_cons. change (elen (T i x l e ks)) with (len0 e).
  assert (G : fold_right Z.add 0 (map tree_length ks) = sumZ (map elen (flat_map preorder ks))).
  { induction IH as [|c r Hc _ IHr]; [reflexivity|]. cbn [map fold_right flat_map]. rewrite map_app, sumZ_app, IHr, Hc. reflexivity. }
  rewrite G. lia.
Qed.

(* max / minmax leaf distance *)
Lemma minmax_spec_l : forall t x r,
  (forall v, In v (nonroot t) -> t_len v <> None) ->
  map (fun vp => sumZ (snd vp)) (filter (fun vp => is_leaf (fst vp)) (paths t)) = x :: r ->
  max_distance_from_root t = Ok (maxl x r) /\ minmax_leaf_distance_from_root t = Ok (minl x r, maxl x r).
Proof.
  intros t x r H E. destruct (depth_exact_l t H) as [_ [_ [_ [_ E2]]]].
  unfold max_distance_from_root, minmax_leaf_distance_from_root. rewrite E2, E. split; reflexivity.
Qed.

(* on an exactly ultrametric tree depth + age is the same for every node *)
Lemma epaths_depth_plus_age k vp : local_okb 0 k = true -> In vp (epaths k) -> sumZ (snd vp) + fp (fst vp) = elen k + fp k.
Proof.
  revert vp. induction k as [i x l e ks IH] using tree_ind'. intros vp Hok H. rewrite Forall_forall in IH.
  rewrite epaths_unfold in H. destruct H as [<- | H]; [cbn; lia|].
  apply in_flat_map in H. destruct H as [c [Hc H]]. apply in_map_iff in H. destruct H as [vp' [<- H]].
  cbn [fst snd t_kids] in *. rewrite sumZ_cons.
  assert (Hokc : local_okb 0 c = true).
  { eapply local_okb_sub; [exact Hok|]. eapply in_preorder_kid; [exact Hc | apply in_preorder_self]. }
  specialize (IH c Hc vp' Hokc H).
  assert (fp (T i x l e ks) = fp c + elen c).
  { destruct ks as [|k0 r]; [destruct Hc|]. destruct Hc as [<- | Hc]; [apply fp_cons|].
    pose proof (proj1 (local_okb_iff 0 _) Hok _ (in_preorder_self _) c Hc). lia. }
  lia.
Qed.

Lemma depth_plus_age_l : forall t vp,
  local_okb 0 t = true -> In vp (paths t) -> sumZ (snd vp) + fp (fst vp) = fp t.
Proof.
  intros t vp Hok [<- | H]; [cbn; lia|]. apply in_flat_map in H. destruct H as [c [Hc H]].
  assert (Hokc : local_okb 0 c = true).
  { eapply local_okb_sub; [exact Hok|]. eapply in_preorder_kid; [exact Hc | apply in_preorder_self]. }
  rewrite (epaths_depth_plus_age c vp Hokc H).
  destruct t as [i x l e ks]. cbn [t_kids] in Hc. destruct ks as [|k0 r]; [destruct Hc|]. destruct Hc as [<- | Hc].
  - rewrite fp_cons. lia.
  - pose proof (proj1 (local_okb_iff 0 _) Hok _ (in_preorder_self _) c Hc). lia.
Qed.

Lemma depth_plus_age_readable : forall t vp,
  (forall v, In v (preorder t) -> forall k, In k (tl (t_kids v)) -> Z.abs (fp v - (fp k + elen k)) <= 0) ->
  In vp (paths t) -> sumZ (snd vp) + fp (fst vp) = fp t.
Proof. intros t vp H. apply depth_plus_age_l. apply local_okb_iff. exact H. Qed.
