(* C05: TreeArray: which weights reach the distribution; restored trees *)
From Coq Require Import ZArith QArith Qabs Qreduction List Bool Lia Lqa Permutation Sorted Setoid Morphisms.
From DV Require Import Model.PyPrims Gen.BitFns Gen.Consts Model.C05Model Model.C05Spec
     Proofs.C05Lists Proofs.C05Freq Proofs.C05Consensus.
Import ListNotations.
Open Scope Z_scope.

Lemma ta_add_tree_sd fw c a t a' :
  ta_add_tree fw c a t = Ok a' ->
  ta_sd a' = fst (count_tree (ta_sd_cfg fw c) (ta_sd a) t) /\
  ta_splits a' = ta_splits a ++ [splits_of t].
Proof.
  unfold ta_add_tree.
  match goal with |- match ?X with _ => _ end = _ -> _ => destruct X as [r'| |]; try discriminate end.
  unfold count_tree.
  destruct (count_recs (ta_sd_cfg fw c) (weight_to_use (ta_sd_cfg fw c) t) (t_recs t)
                       (counts (ta_sd a)) (elens (ta_sd a)) (nages (ta_sd a))) as [[cnt el] ag].
  intro E. inversion E. subst a'. simpl. split; reflexivity.
Qed.

Lemma ta_add_trees_sd fw c ts : forall a a',
  ta_add_trees fw c a ts = Ok a' ->
  ta_sd a' = count_trees (ta_sd_cfg fw c) (ta_sd a) ts /\
  ta_splits a' = ta_splits a ++ map splits_of ts.
Proof.
  induction ts as [|t r IH]; intros a a' E; simpl in E.
  - inversion E. subst. simpl. now rewrite app_nil_r.
  - destruct (ta_add_tree fw c a t) as [a1| |] eqn:E1; try discriminate.
    destruct (ta_add_tree_sd fw c a t a1 E1) as [S1 S2].
    destruct (IH a1 a' E) as [T1 T2]. split.
    + rewrite T1, S1. reflexivity.
    + rewrite T2, S2, <- app_assoc. reflexivity.
Qed.

Lemma weight_cfg_forward c t : weight_to_use (ta_sd_cfg true c) t = weight_to_use c t.
Proof. reflexivity. Qed.

Lemma exact_freq_cfg_forward c ts s : exact_freq (ta_sd_cfg true c) ts s = exact_freq c ts s.
Proof. reflexivity. Qed.

(* when the flag is forwarded, the array's distribution reports the frequency under the array's
   own weighting choice *)
Theorem treearray_freq_exact_l c ts a s :
  (forall t, In t ts -> NoDup (splits_of t)) ->
  ta_add_trees true c (ta_empty None) ts = Ok a ->
  (snd (query (ta_sd a) s) == exact_freq c ts s)%Q.
Proof.
  intros ND E. destruct (ta_add_trees_sd true c ts _ _ E) as [S _]. simpl in S. rewrite S.
  rewrite (query_val (ta_sd_cfg true c) _ ts s (rep_counted _ ts) (counted_cache _ ts)).
  rewrite exact_freq_m_nodup by assumption. now rewrite exact_freq_cfg_forward.
Qed.

(* when it is not: the distribution always weights (its own default use_tree_weights=True) *)
Theorem treearray_freq_unforwarded_l c ts a s :
  (forall t, In t ts -> NoDup (splits_of t)) ->
  ta_add_trees false c (ta_empty None) ts = Ok a ->
  (snd (query (ta_sd a) s) == exact_freq (mkCfg (ignore_len c) (ignore_ages c) true (Some 0%Q)) ts s)%Q.
Proof.
  intros ND E. destruct (ta_add_trees_sd false c ts _ _ E) as [S _]. simpl in S. rewrite S.
  rewrite (query_val (ta_sd_cfg false c) _ ts s (rep_counted _ ts) (counted_cache _ ts)).
  rewrite exact_freq_m_nodup by assumption. reflexivity.
Qed.

(* from_split_bitmasks on pairwise compatible splits keeps all of them (restore_tree) *)
Theorem restore_all_l all rooted ss :
  (forall s1 s2, In s1 ss -> In s2 ss ->
                 compat all (fsb_denorm all rooted s1) (fsb_denorm all rooted s2) = true) ->
  forall m, In m (greedy all [] (fsb_prepare all rooted ss)) <->
            In m (fsb_prepare all rooted ss) /\ is_single m = false.
Proof.
  intros H m. split.
  - intro I. apply greedy_sub in I. destruct I as [[] | I]. exact I.
  - intros [I S]. apply greedy_all_accepted; try assumption.
    + intros a c0 [].
    + intros c1 c2 I1 I2.
      apply fsb_prepare_in in I1. destruct I1 as [s1 [I1 [_ E1]]].
      apply fsb_prepare_in in I2. destruct I2 as [s2 [I2 [_ E2]]].
      subst. now apply H.
Qed.

Lemma nth_app_map_splits ts i t :
  nth_error ts i = Some t -> nth i (map splits_of ts) [] = splits_of t.
Proof.
  revert i. induction ts as [|x r IH]; intros [|i] E; simpl in *; try discriminate.
  - now inversion E.
  - now apply IH.
Qed.

Theorem mcc_topology_l fw c ts a all i t :
  ta_add_trees fw c (ta_empty None) ts = Ok a ->
  nth_error ts i = Some t ->
  tree_compatible all (truthy (ta_rooting a)) t = true ->
  forall m, In m (ta_restore a all i) <->
            In m (fsb_prepare all (truthy (ta_rooting a)) (splits_of t)) /\ is_single m = false.
Proof.
  intros E N TC m. destruct (ta_add_trees_sd fw c ts _ _ E) as [_ S]. simpl in S.
  unfold ta_restore. rewrite S, (nth_app_map_splits ts i t N).
  apply restore_all_l. intros s1 s2 I1 I2. now apply (tree_compatible_pair all _ t).
Qed.
