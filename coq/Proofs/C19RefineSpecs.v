(* C19: the value-level specifications read on object-level states (through abs_m = dereference every row id) *)
From Coq Require Import ZArith List Bool Lia.
From DV Require Import Model.PyPrims Model.C19Model Model.C19RowHeap Proofs.C19Alist Proofs.C19Rows Proofs.C19Cols
                       Proofs.C19Concat Proofs.C19Proofs Proofs.C19Step Proofs.C19RowHeapSep Proofs.C19RowHeapFrame
                       Proofs.C19RefineRows Proofs.C19Refine Proofs.C19RefineHist.
Import ListNotations.
Open Scope Z_scope.

Section T.
Variable lower : lbl -> lbl.
Variable suffix : lbl -> Z -> lbl.
Variable locus : Z -> lbl.

Notation o_step := (C19RowHeap.o_step lower suffix locus).
Notation o_run := (C19RowHeap.o_run lower suffix locus).

Lemma oinv_incl w m mm : oinv w -> aget m (ow_ms w) = Some mm ->
  incl (map fst (m_rows (abs_m (ow_store w) mm))) (otaxa_of w (om_ns mm)).
Proof. intros I H. destruct (oinv_wf_matrix w m mm I H) as [_ K]. exact K. Qed.

Theorem fill_spec_obj w m mm v size app :
  oinv w -> aget m (ow_ms w) = Some mm ->
  let T := otaxa_of w (om_ns mm) in
  let M := abs_m (ow_store w) mm in
  let r := o_step w (OBase (Fill m v size app)) in
  exists mm', aget m (ow_ms (fst r)) = Some mm' /\
  let M' := abs_m (ow_store (fst r)) mm' in
  let s := match size with Some s => s | None => max_sequence_size T (m_rows M) end in
  snd r = OInt s /\
  m_ns M' = m_ns M /\ m_label M' = m_label M /\ m_subs M' = m_subs M /\
  map fst (m_rows M') = map fst (m_rows M) /\
  (forall t, aget t (m_rows M') =
             match aget t (m_rows M) with
             | None => None
             | Some r => Some (if app then r ++ repeat v (Z.to_nat (s - zlen r))
                               else repeat v (Z.to_nat (s - zlen r)) ++ r)
             end) /\
  (forall t r r', aget t (m_rows M) = Some r -> aget t (m_rows M') = Some r' -> zlen r' = Z.max s (zlen r)) /\
  (size = None -> forall t r', aget t (m_rows M') = Some r' -> zlen r' = s) /\
  (size = None -> s = 0 \/ exists t r, aget t (m_rows M) = Some r /\ zlen r = s).
Proof.
  intros I H T M r. subst T M r. pose proof (fill_obj lower suffix locus w m mm v size app I H) as Q. cbv zeta in Q.
  destruct Q as [mm' [A [B C]]].
  exists mm'. split; [exact A|]. cbv zeta. rewrite B, C.
  pose proof (fill_spec_l (otaxa_of w (om_ns mm)) (abs_m (ow_store w) mm) v size app (oinv_incl w m mm I H)) as S. cbv zeta in S.
  destruct S as [S1 S2]. rewrite S1. split; [reflexivity | exact S2].
Qed.

Theorem pack_spec_obj w m mm v size app :
  oinv w -> aget m (ow_ms w) = Some mm ->
  let T := otaxa_of w (om_ns mm) in
  let M := abs_m (ow_store w) mm in
  let r := o_step w (OBase (Pack m v size app)) in
  exists mm', aget m (ow_ms (fst r)) = Some mm' /\
  let M' := abs_m (ow_store (fst r)) mm' in
  let s := match size with Some s => s | None => max_sequence_size T (m_rows (fill_taxa T M)) end in
  snd r = OUnit /\
  m_ns M' = m_ns M /\ m_label M' = m_label M /\ m_subs M' = m_subs M /\
  map fst (m_rows M') = map fst (m_rows M) ++ filter (fun t => negb (ahas t (m_rows M))) T /\
  (forall t, In t T -> ahas t (m_rows M') = true) /\
  (forall t, aget t (m_rows M') =
             let pad0 r := if app then r ++ repeat v (Z.to_nat (s - zlen r))
                           else repeat v (Z.to_nat (s - zlen r)) ++ r in
             match aget t (m_rows M) with
             | Some r => Some (pad0 r)
             | None => if memb t T then Some (pad0 []) else None
             end) /\
  (size = None -> forall t r', aget t (m_rows M') = Some r' -> zlen r' = s).
Proof.
  intros I H T M r. subst T M r. pose proof (pack_obj lower suffix locus w m mm v size app I H) as Q. cbv zeta in Q.
  destruct Q as [mm' [A [B C]]].
  exists mm'. split; [exact A|]. cbv zeta. rewrite B, C.
  split; [reflexivity|].
  destruct (oinv_matrix w m mm I H) as [_ [_ [_ NT]]].
  apply (pack_spec_l (otaxa_of w (om_ns mm)) (abs_m (ow_store w) mm) v size app NT (oinv_incl w m mm I H)).
Qed.

Theorem export_spec_obj w m mm idx (d : cell) :
  oinv w -> aget m (ow_ms w) = Some mm ->
  let M := abs_m (ow_store w) mm in
  exists s' mm', o_step w (OBase (ExportIdx m idx)) = (oadd_new w s' mm', ONew (ow_next w)) /\
  let e := abs_m s' mm' in
  m_ns e = m_ns M /\ m_label e = m_label M /\ m_subs e = [] /\
  map fst (m_rows e) = map fst (m_rows M) /\
  forall t, aget t (m_rows e) =
            match aget t (m_rows M) with
            | None => None
            | Some r => Some (map (fun j => nth (Z.to_nat j) r d)
                                  (filter (fun j => memb j idx) (zrange 0 (zlen r))))
            end.
Proof.
  intros I H M. subst M. pose proof (export_obj lower suffix locus w m mm idx I H) as Q. cbv zeta in Q.
  destruct Q as [s' [mm' [A B]]].
  exists s', mm'. split; [exact A|]. cbv zeta. rewrite B.
  apply (export_spec_l (otaxa_of w (om_ns mm)) (abs_m (ow_store w) mm) idx d (oinv_incl w m mm I H)).
Qed.

Theorem concatenate_spec_obj w l cms j :
  oinv w -> oget_all (ow_ms w) l = Some cms -> snd (o_step w (OBase (Concat l))) = ONew j ->
  exists s' mm', fst (o_step w (OBase (Concat l))) = oadd_new w s' mm' /\ j = ow_next w /\
  concatenate lower suffix locus (otaxa_of w) (map (abs_m (ow_store w)) cms) = Ok (abs_m s' mm') /\
  (forall n, NoDup (otaxa_of w n)) /\
  Forall (fun cm => NoDup (map fst (m_rows cm)) /\ incl (map fst (m_rows cm)) (otaxa_of w (m_ns cm)))
         (map (abs_m (ow_store w)) cms).
Proof.
  intros I H HJ. pose proof (refines_snd lower suffix locus w (Concat l) I) as E.
  cbn [C19RowHeap.o_step] in HJ. rewrite HJ in E. cbn [C19Model.step] in E. cbn [abs_w w_ms] in E.
  rewrite get_all_abs, H in E. cbn [option_map] in E. change (taxa_of (abs_w w)) with (otaxa_of w) in E.
  destruct (concatenate lower suffix locus (otaxa_of w) (map (abs_m (ow_store w)) cms)) as [M| |] eqn:HM; cbn [lift_new snd] in E; try discriminate E.
  destruct (concatenate_obj lower suffix locus w l cms M I H HM) as [s' [mm' [A B]]].
  exists s', mm'. split; [cbn [C19RowHeap.o_step] in *; rewrite A; reflexivity|]. split.
  - cbn [C19RowHeap.o_step] in A. rewrite A in HJ. cbn [snd] in HJ. inversion HJ. reflexivity.
  - split; [rewrite B; reflexivity|]. split.
    + intros n. apply (taxa_of_NoDup (abs_w w) n). apply I.
    + rewrite Forall_forall. intros vm Hv. apply in_map_iff in Hv. destruct Hv as [cm [<- Hc]].
      destruct (oget_all_In _ _ _ H cm Hc) as [i Hi]. apply (oinv_wf_matrix w i cm I Hi).
Qed.

Theorem extend_sequences_spec_obj w m o mm mo addnew :
  oinv w -> aget m (ow_ms w) = Some mm -> aget o (ow_ms w) = Some mo -> om_ns mo = om_ns mm ->
  let M := abs_m (ow_store w) mm in
  let O := abs_m (ow_store w) mo in
  let r := o_step w (OBase (ExtendSeqs m o addnew)) in
  snd r = OUnit /\
  exists mm', aget m (ow_ms (fst r)) = Some mm' /\
  let M' := abs_m (ow_store (fst r)) mm' in
  m_ns M' = m_ns M /\ m_label M' = m_label M /\ m_subs M' = m_subs M /\
  (forall t, aget t (m_rows M') = match aget t (m_rows M), aget t (m_rows O) with
                                  | Some r, Some r' => Some (r ++ r')
                                  | Some r, None => Some r
                                  | None, Some r' => if addnew then Some r' else None
                                  | None, None => None
                                  end) /\
  map fst (m_rows M') = map fst (m_rows M) ++
                        (if addnew then filter (fun t => negb (ahas t (m_rows M))) (map fst (m_rows O)) else []).
Proof.
  intros I Hm Ho Ns M O r. subst M O r.
  destruct (oinv_wf_matrix w o mo I Ho) as [KO _].
  destruct (extend_sequences_spec_l (abs_m (ow_store w) mm) (abs_m (ow_store w) mo) addnew KO Ns) as [rs' [E [G K]]].
  destruct (binary_obj lower suffix locus w (ExtendSeqs m o addnew) m o mm mo (fun x y => extend_sequences x y addnew) I Hm Ho
              (or_intror (or_intror (or_intror (or_introl (ex_intro _ addnew (conj eq_refl eq_refl)))))) _ E) as [mm' [A [B C]]].
  split; [exact C|]. exists mm'. split; [exact A|]. cbv zeta. rewrite B. cbn [m_ns m_label m_subs m_rows].
  repeat split; assumption.
Qed.

(* history versions: the invariant holds in every state reached from constructor-built matrices by copying operations *)
Theorem arguments_unchanged_hist nss g ms ops b j mj :
  wf_world (mkW nss ms (zlen ms)) -> forallb copying ops = true ->
  let w := o_run (o_init nss g ms) ops in
  aget j (ow_ms w) = Some mj -> receiver b <> Some j ->
  let w' := fst (o_step w (OBase b)) in
  (exists mj', aget j (ow_ms w') = Some mj' /\ abs_m (ow_store w') mj' = abs_m (ow_store w) mj) /\
  ow_nss w' = ow_nss w.
Proof.
  intros W C w H R. apply (arguments_unchanged_obj lower suffix locus w b j mj (reachable_oinv lower suffix locus nss g ms ops W C) H R).
Qed.

Theorem terminates_hist nss g ms ops b :
  (forall l i j, lower (suffix l i) = lower (suffix l j) -> i = j) ->
  wf_world (mkW nss ms (zlen ms)) -> forallb copying ops = true ->
  snd (o_step (o_run (o_init nss g ms) ops) (OBase b)) <> OErr Hang.
Proof.
  intros Inj W C. apply (terminates_obj lower suffix locus _ b Inj (reachable_oinv lower suffix locus nss g ms ops W C)).
Qed.

End T.

(* the hypotheses are satisfiable: the example world of Proofs/C19RowHeapSep.v *)
Example ex_ow_oinv : oinv ex_ow.
Proof.
  apply o_init_oinv. split.
  - intros n T H. simpl in H. destruct (Z.eqb n 0); [|discriminate]. inversion H.
    constructor; [intros [E|[]]; discriminate|]. constructor; [intros []|constructor].
  - intros j m H. simpl in H. destruct (Z.eqb j 0).
    + inversion H; subst m. split; cbn.
      * constructor; [intros [E|[]]; discriminate|]. constructor; [intros []|constructor].
      * intros x Hx. exact Hx.
    + destruct (Z.eqb j 1); [|discriminate]. inversion H; subst m. split; cbn.
      * constructor; [intros []|constructor].
      * intros x [<-|[]]. left. reflexivity.
Qed.

(* the well-formedness half of the invariant is needed: over a namespace listing a taxon twice (impossible for a
   TaxonNamespace, an ordered set) export's `for vec in clone.values()` visits the row twice and deletes columns
   twice, while the value-level model selects once *)
Definition bad_ow : oworld :=
  mkOW [(0, [0; 0])] (mkS [(0, [5; 6; 7])] 1) [(0, mkOM 0 None [(0, 0)] [])] 1 false.

Example refinement_needs_wf :
  sep bad_ow /\
  (abs_w (fst (C19RowHeap.o_step idl ids2 idz bad_ow (OBase (ExportIdx 0 [1])))),
   snd (C19RowHeap.o_step idl ids2 idz bad_ow (OBase (ExportIdx 0 [1]))))
  <> C19Model.step idl ids2 idz (abs_w bad_ow) (ExportIdx 0 [1]).
Proof.
  split.
  - split.
    + unfold NoSharing. vm_compute. constructor; [intros []|constructor].
    + vm_compute. intros r [<-|[]]. reflexivity.
  - vm_compute. intros H. discriminate H.
Qed.
