(* C07 proofs, part 3: the core lemmas
     rot_step      inverting ONE edge at the root preserves leaf taxa / unrooted splits / total
                   length / all leaf-to-leaf distances
     rot_equivU    ... lifted along the whole path from the old seed to the new seed
     suppress_equivT, collapse_basal_equivU, split_edge_equivT   the other building blocks *)
From Coq Require Import ZArith List Bool Lia Permutation.
From DV Require Import Model.PyPrims Model.Tree Model.C07Model Model.C07Spec Proofs.C07Base Proofs.C07Equiv.
Import ListNotations.
Open Scope Z_scope.

Lemma app_compl_l (X Y : list (option Z)) :
  NoDup (X ++ Y) -> forall x, In x X <-> In x (X ++ Y) /\ ~ In x Y.
Proof.
  intros ND x. split.
  - intros H. split; [apply in_or_app; left; assumption|]. intro H2. eapply nodup_app_disj; eauto.
  - intros [H Hn]. apply in_app_or in H. destruct H; [assumption | contradiction].
Qed.

Lemma app_compl_r (X Y : list (option Z)) :
  NoDup (X ++ Y) -> forall x, In x Y <-> In x (X ++ Y) /\ ~ In x X.
Proof.
  intros ND x. split.
  - intros H. split; [apply in_or_app; right; assumption|]. intro H2. eapply nodup_app_disj; eauto.
  - intros [H Hn]. apply in_app_or in H. destruct H; [contradiction | assumption].
Qed.

Lemma oadd_oadd a b o : oadd a (oadd b o) = oadd (a + b) o.
Proof. destruct o; simpl; [f_equal; lia | reflexivity]. Qed.

(* ---------- one edge inverted at the root, child in first position ---------- *)
Lemma rot_step_head i x l e i' x' l' e' ks' R :
  ks' <> [] -> R <> [] ->
  NoDup (leaf_taxa (T i x l e (T i' x' l' e' ks' :: R))) ->
  equivU (T i x l e (T i' x' l' e' ks' :: R))
         (T i' x' l' e (ks' ++ [T i x l e' R])).
Proof.
  intros Hk HR ND.
  assert (LK : leaf_taxa (T i' x' l' e' ks') = ltF ks') by (apply leaf_taxa_node; assumption).
  assert (LP : leaf_taxa (T i x l e' R) = ltF R) by (apply leaf_taxa_node; assumption).
  assert (DK : forall a, downT a (T i' x' l' e' ks') = oadd (len0 e') (downF a ks')) by (intro; apply downT_node; assumption).
  assert (DP : forall a, downT a (T i x l e' R) = oadd (len0 e') (downF a R)) by (intro; apply downT_node; assumption).
  assert (CK : clades (T i' x' l' e' ks') = ltF ks' :: clF ks') by (rewrite clades_node, LK; reflexivity).
  assert (CP : clades (T i x l e' R) = ltF R :: clF R) by (rewrite clades_node, LP; reflexivity).
  assert (TK : total_length (T i' x' l' e' ks') = len0 e' + zsum (map total_length ks')) by reflexivity.
  assert (TP : total_length (T i x l e' R) = len0 e' + zsum (map total_length R)) by reflexivity.
  assert (XK : forall a b, dist a b (T i' x' l' e' ks') = distF a b ks') by (intros; apply dist_node; assumption).
  assert (XP : forall a b, dist a b (T i x l e' R) = distF a b R) by (intros; apply dist_node; assumption).
  remember (T i' x' l' e' ks') as k eqn:Ek. remember (T i x l e' R) as P eqn:EP.
  assert (Hn1 : k :: R <> []) by discriminate.
  assert (Hn2 : ks' ++ [P] <> []) by (destruct ks'; discriminate).
  assert (L0 : leaf_taxa (T i x l e (k :: R)) = ltF ks' ++ ltF R).
  { rewrite leaf_taxa_node by assumption. cbn [flat_map]. rewrite LK. reflexivity. }
  assert (L1 : leaf_taxa (T i' x' l' e (ks' ++ [P])) = ltF ks' ++ ltF R).
  { rewrite leaf_taxa_node by assumption. rewrite flat_map_app. cbn [flat_map]. rewrite LP, app_nil_r. reflexivity. }
  rewrite L0 in ND.
  constructor.
  - rewrite L0, L1. apply Permutation_refl.
  - intros a b. rewrite !dist_node by assumption.
    rewrite distF_cons, distF_app, !DK.
    rewrite !downF_cons, !downF_nil, distF_cons, !DP, distF_nil, downF_nil, XK, XP.
    destruct (downF a ks') as [da|] eqn:A1, (downF b ks') as [db|] eqn:B1; cbn [oadd option_map].
    + reflexivity.
    + destruct (downF b R); cbn [oadd option_map]; [f_equal; lia | reflexivity].
    + destruct (downF a R); cbn [oadd option_map]; [f_equal; lia | reflexivity].
    + destruct (downF a R) as [ra|] eqn:A2, (downF b R) as [rb|] eqn:B2; cbn [oadd option_map]; try reflexivity.
      * apply distF_none_r; assumption.
      * apply distF_none_l; assumption.
      * apply distF_none_l; assumption.
  - rewrite !total_node. rewrite map_app. cbn [map]. rewrite zsum_app, !zsum_cons, TK, TP.
    change (zsum []) with 0. lia.
  - apply cover_same; rewrite L0, L1; rewrite !clades_node, L0, L1.
    + intros C HC. cbn [flat_map] in HC. rewrite flat_map_app. cbn [flat_map]. rewrite app_nil_r.
      rewrite CK in HC. rewrite CP.
      destruct HC as [HC|HC]; [|destruct HC as [HC|HC]; [|apply in_app_or in HC; destruct HC as [HC|HC]]].
      * subst C. eexists. split; [left; reflexivity | intro; reflexivity].
      * subst C. exists (ltF R). split.
        { right. apply in_or_app. right. left. reflexivity. }
        { apply usplit_of_compl; [apply app_compl_l; assumption | intros; apply in_or_app; right; assumption]. }
      * exists C. split; [right; apply in_or_app; left; assumption | intro; reflexivity].
      * exists C. split; [right; apply in_or_app; right; right; assumption | intro; reflexivity].
    + intros C HC. cbn [flat_map]. rewrite flat_map_app in HC. cbn [flat_map] in HC. rewrite app_nil_r in HC.
      rewrite CK. rewrite CP in HC.
      destruct HC as [HC|HC]; [|apply in_app_or in HC; destruct HC as [HC|[HC|HC]]].
      * subst C. eexists. split; [left; reflexivity | intro; reflexivity].
      * exists C. split; [right; right; apply in_or_app; left; assumption | intro; reflexivity].
      * subst C. exists (ltF ks'). split.
        { right. left. reflexivity. }
        { apply usplit_of_compl; [apply app_compl_r; assumption | intros; apply in_or_app; left; assumption]. }
      * exists C. split; [right; right; apply in_or_app; right; assumption | intro; reflexivity].
Qed.

(* ---------- one edge inverted at the root, child anywhere ---------- *)
Lemma rot_step i x l e A i' x' l' e' ks' B :
  ks' <> [] -> A ++ B <> [] ->
  NoDup (leaf_taxa (T i x l e (A ++ T i' x' l' e' ks' :: B))) ->
  equivU (T i x l e (A ++ T i' x' l' e' ks' :: B))
         (T i' x' l' e (ks' ++ [T i x l e' (A ++ B)])).
Proof.
  intros Hk HR ND.
  assert (Hn : A ++ T i' x' l' e' ks' :: B <> []) by (destruct A; discriminate).
  assert (HP : Permutation (A ++ T i' x' l' e' ks' :: B) (T i' x' l' e' ks' :: A ++ B))
    by (apply Permutation_sym, Permutation_middle).
  assert (E1 : equivT (T i x l e (A ++ T i' x' l' e' ks' :: B)) (T i x l e (T i' x' l' e' ks' :: A ++ B))).
  { apply equivT_perm; try assumption. rewrite leaf_taxa_node in ND by assumption. assumption. }
  apply equivT_U in E1. eapply equivU_trans; [exact E1|].
  apply rot_step_head; try assumption. eapply equivU_nodup; eauto.
Qed.

Lemma all_lens_node i x l e ks : all_lens (T i x l e ks) = e :: flat_map all_lens ks.
Proof. reflexivity. Qed.

Lemma rot_step_lens i x l e A i' x' l' e' ks' B :
  Permutation (nonroot_lens (T i x l e (A ++ T i' x' l' e' ks' :: B)))
              (nonroot_lens (T i' x' l' e (ks' ++ [T i x l e' (A ++ B)]))).
Proof.
  unfold nonroot_lens. cbn [t_kids]. rewrite !flat_map_app. cbn [flat_map].
  rewrite !all_lens_node, app_nil_r, flat_map_app.
  set (a := flat_map all_lens A). set (b := flat_map all_lens B). set (c := flat_map all_lens ks').
  apply Permutation_trans with (l' := (e' :: c) ++ a ++ b).
  - rewrite app_assoc. rewrite app_assoc. apply Permutation_app_tail. apply Permutation_app_comm.
  - cbn [app]. apply Permutation_trans with (l' := c ++ e' :: a ++ b); [apply Permutation_middle | apply Permutation_refl].
Qed.

(* ---------- rot finds the node find_node finds ---------- *)
Lemma first_ctx_none_iff {A B C} (f : list A -> A -> list A -> option B) (g : A -> option C) l :
  (forall k, In k l -> forall pre post, f pre k post = None <-> g k = None) ->
  forall pre, first_ctx f pre l = None <-> first_some g l = None.
Proof.
  induction l as [|a l IH]; intros H pre; [split; reflexivity|].
  rewrite first_ctx_cons, first_some_cons.
  assert (Ha := H a (or_introl eq_refl) pre l).
  destruct (f pre a l) eqn:E1, (g a) eqn:E2.
  - split; discriminate.
  - exfalso. destruct Ha as [_ Ha]. specialize (Ha eq_refl). discriminate.
  - exfalso. destruct Ha as [Ha _]. specialize (Ha eq_refl). discriminate.
  - apply IH. intros k Hk. apply H. right. assumption.
Qed.

Lemma first_ctx_agree {A B C} (f : list A -> A -> list A -> option B) (g : A -> option C) l :
  (forall k, In k l -> forall pre post, f pre k post = None <-> g k = None) ->
  forall pre b, first_ctx f pre l = Some b ->
  exists X k Y, l = X ++ k :: Y /\ f (pre ++ X) k Y = Some b /\ first_some g l = g k.
Proof.
  induction l as [|a l IH]; intros H pre b; [discriminate|].
  rewrite first_ctx_cons, first_some_cons.
  assert (Ha := H a (or_introl eq_refl) pre l).
  destruct (f pre a l) eqn:E1.
  - intros Hb. inversion Hb; subst. exists [], a, l. rewrite app_nil_r.
    split; [reflexivity|]. split; [assumption|].
    destruct (g a) eqn:E2; [reflexivity|]. destruct Ha as [_ Ha]. specialize (Ha eq_refl). discriminate.
  - intros Hb. destruct Ha as [Ha _]. rewrite (Ha eq_refl).
    destruct (IH (fun k Hk => H k (or_intror Hk)) _ _ Hb) as [X [k [Y [Hl [Hf Hg]]]]].
    exists (a :: X), k, Y. split; [rewrite Hl; reflexivity|]. split; [|assumption].
    rewrite <- app_assoc in Hf. exact Hf.
Qed.

Lemma rot_none_iff n : forall t e0 above, rot e0 n t above = None <-> find_node n t = None.
Proof.
  induction t as [i x l e ks IH] using tree_ind'. intros e0 above. simpl.
  destruct (i =? n); [split; discriminate|].
  apply first_ctx_none_iff. intros k Hk pre post. rewrite Forall_forall in IH. apply IH. assumption.
Qed.

Lemma find_node_kids n t X : find_node n t = Some X -> t_kids X <> [] -> t_kids t <> [].
Proof.
  destruct t as [i x l e ks]. simpl. destruct (i =? n).
  - intros H; inversion H; subst. simpl. auto.
  - intros H _. destruct ks; [discriminate|]. simpl. discriminate.
Qed.

(* ---------- the whole chain of inversions ---------- *)
Lemma rot_equivU n : forall t e0 above r X,
  rot e0 n t above = Some r ->
  find_node n t = Some X -> t_kids X <> [] ->
  (t_id t = n \/ above <> [] \/ (2 <= length (t_kids t))%nat) ->
  NoDup (leaf_taxa (T (t_id t) (t_taxon t) (t_label t) e0 (t_kids t ++ above))) ->
  equivU (T (t_id t) (t_taxon t) (t_label t) e0 (t_kids t ++ above)) r
  /\ Permutation (nonroot_lens (T (t_id t) (t_taxon t) (t_label t) e0 (t_kids t ++ above))) (nonroot_lens r).
Proof.
  induction t as [i x l e ks IH] using tree_ind'. intros e0 above r X Hr HX HXk Hside ND.
  cbn [t_id t_taxon t_label t_kids] in *. simpl in Hr, HX.
  destruct (i =? n) eqn:Ei.
  - inversion Hr; subst. split; [apply equivU_refl | apply Permutation_refl].
  - rewrite Forall_forall in IH.
    destruct (first_ctx_agree _ (find_node n) ks (fun k Hk pre post => rot_none_iff n k _ _) _ _ Hr)
      as [A [k [B [Hks [Hrk Hfk]]]]].
    cbn [app] in Hrk. rewrite Hfk in HX.
    assert (Hkin : In k ks) by (rewrite Hks; apply in_or_app; right; left; reflexivity).
    assert (Hkk : t_kids k <> []) by (eapply find_node_kids; eauto).
    assert (HR : A ++ B ++ above <> []).
    { destruct Hside as [Hs|[Hs|Hs]].
      - apply Z.eqb_neq in Ei. contradiction.
      - destruct A; [destruct B; [assumption | discriminate] | discriminate].
      - rewrite Hks, app_length in Hs. cbn [length] in Hs. destruct A; [destruct B; [cbn in Hs; lia | discriminate] | discriminate]. }
    destruct k as [i' x' l' e' ks']. cbn [t_kids t_len] in *.
    assert (Hks2 : ks ++ above = A ++ T i' x' l' e' ks' :: (B ++ above)).
    { rewrite Hks, <- app_assoc. reflexivity. }
    rewrite Hks2 in *.
    assert (S1 := rot_step i x l e0 A i' x' l' e' ks' (B ++ above) Hkk HR ND).
    assert (S2 := rot_step_lens i x l e0 A i' x' l' e' ks' (B ++ above)).
    specialize (IH _ Hkin e0 [T i x l e' (A ++ B ++ above)] r X Hrk HX HXk).
    cbn [t_id t_taxon t_label t_kids] in IH.
    destruct IH as [I1 I2].
    + right. left. discriminate.
    + eapply equivU_nodup; eauto.
    + split; [eapply equivU_trans; eauto | eapply Permutation_trans; eauto].
Qed.
