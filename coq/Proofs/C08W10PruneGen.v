(* C08 wave 10 - the GENERATED Tree_prune_taxa / Tree_retain_taxa (Gen/Mutators.v, compiled from _tree.py on
   every run) compute C08's structural specification `restrict`: Proofs/C03GenPrune.v (generated code =
   HeapOps.v's program) composed with Proofs/C08W10Prune.v (HeapOps.v's program -> restrict). *)
From Coq Require Import ZArith List Bool Lia.
From DV Require Import Model.PyPrims Model.Tree Model.Heap Model.HeapOps Model.C15Prims Model.MutPrims Gen.Mutators
     Model.C03GenInst Proofs.C03Base Proofs.C03GenPrims Proofs.C03GenPrune.
From DV Require Model.C08Model Proofs.C03Hist Proofs.C08Prune Proofs.C08W10Prune.
Import ListNotations.
Open Scope Z_scope.

Lemma prune_taxa_op_ok taxa ub su ol oi h h' :
  prune_taxa taxa ub su ol oi h = HOk h' -> run_op_v v_now (OPruneTaxa taxa ub su ol oi) h = HOk h'.
Proof. intro E. cbn [run_op_v v_now v_seed_guard run_op]. rewrite E. reflexivity. Qed.

Lemma retain_taxa_op_ok ns taxa ub su h h' :
  retain_taxa ns taxa ub su h = HOk h' -> run_op_v v_now (ORetainTaxa ns taxa ub su) h = HOk h'.
Proof. intro E. cbn [run_op_v v_now v_seed_guard run_op]. rewrite E. reflexivity. Qed.

(* the fuel hypothesis of C03GenPrune's refinement theorems follows from fuel_of h <= fuel: the first loop
   keeps the number of heap cells *)
Lemma phase1_fuel_hyp (fuel : nat) (taxa : list Z) (h : heap) :
  WF h -> (fuel_of h <= fuel)%nat ->
  forall t h1, abs_at h (seed h) = Some t ->
               hfold (prune_taxa_step_e OtherErr taxa true false) (post_ids t) h = HOk h1 -> (fuel_of h1 <= fuel)%nat.
Proof.
  intros W Hf t h1 A E. pose proof (Proofs.C03Hist.WF_abs_t h t W A) as Wt.
  rewrite (C08W10Prune.phase1_fuel taxa true OtherErr h t h1 Wt E). exact Hf.
Qed.

Theorem gen_prune_taxa_is_restrict (fuel : nat) (taxa : list Z) (ub su : bool) (h : heap) (t r : tree) :
  (fuel_of h <= fuel)%nat ->
  WF h -> abs h = Some t -> C08Model.leaf_taxa_only t = true ->
  C08Model.restrict su (C08Model.drop_taxa taxa) t = Some r ->
  exists h', to_hres (Tree_prune_taxa HG fuel taxa ub su true false h) = HOk h' /\ WF h' /\
             abs h' = Some (fst (C08Prune.with_update ub su (rooted h) r)).
Proof.
  intros Hf W A Hd R.
  destruct (C08W10Prune.heap_prune_taxa_is_restrict_l taxa ub su h t r W A Hd R) as [h' [E [W' A']]].
  exists h'. split; [|split; assumption].
  rewrite (gen_prune_taxa fuel taxa ub su true false h (phase1_fuel_hyp fuel taxa h W Hf)); rewrite (prune_taxa_op_ok _ _ _ _ _ _ _ E); [reflexivity|discriminate].
Qed.

Theorem gen_retain_taxa_is_restrict (fuel : nat) (ns keep : list Z) (ub su : bool) (h : heap) (t r : tree) :
  (fuel_of h <= fuel)%nat ->
  WF h -> abs h = Some t -> C08Model.leaf_taxa_only t = true ->
  (forall n a, In n (leaves t) -> t_taxon n = Some a -> C08Model.memz a ns = true) ->
  C08Model.restrict su (C08Model.keep_taxa keep) t = Some r ->
  exists h', to_hres (Tree_retain_taxa HG fuel ns keep ub su h) = HOk h' /\ WF h' /\
             abs h' = Some (fst (C08Prune.with_update ub su (rooted h) r)).
Proof.
  intros Hf W A Hd Hns R.
  destruct (C08W10Prune.heap_retain_taxa_is_restrict_l ns keep ub su h t r W A Hd Hns R) as [h' [E [W' A']]].
  exists h'. split; [|split; assumption].
  rewrite (gen_retain_taxa fuel ns keep ub su h (phase1_fuel_hyp fuel _ h W Hf)); rewrite (retain_taxa_op_ok _ _ _ _ _ _ E); [reflexivity|discriminate].
Qed.

(* hypotheses satisfiable; the run on the example: ((A,B)X,C)R rooted, prune {A}, suppress_unifurcations=True *)
Example gen_prune_taxa_is_restrict_hyps :
  (fuel_of C08W10Prune.w10_heap <= 10)%nat /\
  WF C08W10Prune.w10_heap /\ abs C08W10Prune.w10_heap = Some C08W10Prune.w10_tree /\
  C08Model.leaf_taxa_only C08W10Prune.w10_tree = true /\
  C08Model.restrict true (C08Model.drop_taxa [0]) C08W10Prune.w10_tree =
    Some (T 0 None None None [T 3 (Some 1) None (Some 3072) []; T 4 (Some 2) None (Some 1024) []]).
Proof.
  split; [|exact C08W10Prune.w10_hyps].
  vm_compute. lia.
Qed.

Example gen_prune_taxa_w10_run :
  match to_hres (Tree_prune_taxa HG 10 [0] false true true false C08W10Prune.w10_heap) with
  | HOk h' => abs h'
  | _ => None
  end = Some (T 0 None None None [T 3 (Some 1) None (Some 3072) []; T 4 (Some 2) None (Some 1024) []]).
Proof. vm_compute. reflexivity. Qed.
