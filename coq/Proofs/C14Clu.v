(* C14: one step of UPGMA / NJ is sound *)
From Coq Require Import ZArith QArith Qabs List Bool Lia Lra Permutation.
From DV Require Import Model.PyPrims Model.Tree Model.C14Model Model.C14Spec Proofs.C14Dict.
Import ListNotations.
Open Scope Z_scope.

(* ---------- generic helpers ---------- *)
Lemma res_map_ok' {A B} (f : A -> res B) l :
  (forall x, In x l -> exists y, f x = Ok y) ->
  exists ys, res_map f l = Ok ys /\ length ys = length l /\
             forall i x, nth_error l i = Some x -> exists y, nth_error ys i = Some y /\ f x = Ok y.
Proof.
  induction l as [|x l IH]; intro H.
  - exists []. split; [reflexivity|]. split; [reflexivity|]. intros [|i] x0 E; discriminate.
  - destruct (H x (or_introl eq_refl)) as [y Hy]. destruct IH as [ys [E [L N]]].
    { intros z Hz. apply H. right. exact Hz. }
    exists (y :: ys). simpl. rewrite Hy. simpl. rewrite E. simpl. split; [reflexivity|]. split; [congruence|].
    intros [|i] x0 E0; simpl in *.
    + inversion E0. subst. exists y. auto.
    + apply N. exact E0.
Qed.

Lemma res_map_map {A B} (f : A -> res B) (g : A -> B) l :
  (forall x, In x l -> f x = Ok (g x)) -> res_map f l = Ok (map g l).
Proof.
  induction l as [|x l IH]; intro H; [reflexivity|]. simpl. rewrite (H x (or_introl eq_refl)). simpl.
  rewrite IH by (intros y Hy; apply H; right; exact Hy). reflexivity.
Qed.

Lemma pairs_of_In {A} (l : list A) a b : In (a, b) (pairs_of l) -> In a l /\ In b l.
Proof.
  induction l as [|x l IH]; [intros []|]. simpl. rewrite in_app_iff, in_map_iff. intros [[y [E Hy]]|H].
  - inversion E. subst. auto.
  - destruct (IH H). auto.
Qed.

Lemma pairs_of_distinct {A} (idf : A -> Z) (l : list A) a b :
  NoDup (map idf l) -> In (a, b) (pairs_of l) -> idf a <> idf b.
Proof.
  induction l as [|x l IH]; [intros _ []|]. simpl. intros N. inversion N as [|? ? Hx N']; subst.
  rewrite in_app_iff, in_map_iff. intros [[y [E Hy]]|H].
  - inversion E. subst. intro Eq. apply Hx. rewrite Eq. apply in_map. exact Hy.
  - apply IH; assumption.
Qed.

Lemma pairs_of_nonempty {A} (l : list A) : (2 <= length l)%nat -> pairs_of l <> [].
Proof. destruct l as [|a [|b l]]; simpl; intros H; try lia. discriminate. Qed.

(* first strict minimum *)
Lemma argmin_first_spec {A} (l : list (Q * A)) : forall best,
  (best <> None \/ l <> []) ->
  exists v x, argmin_first best l = Some (v, x) /\
    (best = Some (v, x) \/ In (v, x) l) /\
    (forall v' x', In (v', x') l -> (v <= v')%Q) /\
    (forall v' x', best = Some (v', x') -> (v <= v')%Q).
Proof.
  induction l as [|[v0 x0] l IH]; intros best H.
  - destruct best as [[v x]|]; [|destruct H; congruence]. exists v, x. cbn [argmin_first].
    split; [reflexivity|]. split; [left; reflexivity|]. split; [intros ? ? []|].
    intros v' x' E. inversion E. apply Qle_refl.
  - cbn [argmin_first]. destruct best as [[m xm]|].
    + destruct (Qlt_le_dec v0 m) as [L|L].
      * destruct (IH (Some (v0, x0))) as [v [x [E [I [M1 M2]]]]]; [left; discriminate|].
        exists v, x. split; [exact E|]. split.
        { destruct I as [I|I]; [inversion I; subst; right; left; reflexivity | right; right; exact I]. }
        split.
        { intros v' x' [E'|H']; [inversion E'; subst; eapply M2; reflexivity | eapply M1; exact H']. }
        { intros v' x' E'. inversion E'. subst. eapply Qle_trans; [eapply M2; reflexivity | apply Qlt_le_weak; exact L]. }
      * destruct (IH (Some (m, xm))) as [v [x [E [I [M1 M2]]]]]; [left; discriminate|].
        exists v, x. split; [exact E|]. split.
        { destruct I as [I|I]; [left; exact I | right; right; exact I]. }
        split.
        { intros v' x' [E'|H']; [inversion E'; subst; eapply Qle_trans; [eapply M2; reflexivity | exact L] | eapply M1; exact H']. }
        { exact M2. }
    + destruct (IH (Some (v0, x0))) as [v [x [E [I [M1 M2]]]]]; [left; discriminate|].
      exists v, x. split; [exact E|]. split.
      { destruct I as [I|I]; [inversion I; subst; right; left; reflexivity | right; right; exact I]. }
      split.
      { intros v' x' [E'|H']; [inversion E'; subst; eapply M2; reflexivity | eapply M1; exact H']. }
      { intros; discriminate. }
Qed.

(* list.remove(node) by identity *)
Section RemoveId.
Context {A : Type} (idf : A -> Z).

Lemma remove_id_In i l x : NoDup (map idf l) -> (In x (remove_id idf i l) <-> In x l /\ idf x <> i).
Proof.
  unfold remove_id. induction l as [|y l IH]; intro N; [simpl; tauto|].
  simpl in N. inversion N as [|? ? Hy N']; subst. simpl. destruct (Z.eqb (idf y) i) eqn:E.
  - apply Z.eqb_eq in E. split.
    + intro H. split; [right; exact H|]. intro Ex. apply Hy. rewrite E, <- Ex. apply in_map. exact H.
    + intros [[H|H] Hn]; [subst; congruence | exact H].
  - apply Z.eqb_neq in E. simpl. rewrite (IH N'). split.
    + intros [H|[H Hn]]; [subst; auto | auto].
    + intros [[H|H] Hn]; [left; exact H | right; auto].
Qed.

Lemma remove_id_NoDup i l : NoDup (map idf l) -> NoDup (map idf (remove_id idf i l)).
Proof.
  unfold remove_id. induction l as [|y l IH]; intro N; [constructor|].
  simpl in N. inversion N as [|? ? Hy N']; subst. simpl. destruct (Z.eqb (idf y) i); [exact N'|].
  simpl. constructor; [|apply IH; exact N']. intro H. apply Hy. apply in_map_iff in H.
  destruct H as [z [Ez Hz]]. rewrite <- Ez. apply in_map.
  assert (G : forall l0, In z ((fix go (l1 : list A) : list A := match l1 with [] => [] | x :: r => if Z.eqb (idf x) i then r else x :: go r end) l0) -> In z l0).
  { induction l0 as [|w l0 IHl]; simpl; [tauto|]. destruct (Z.eqb (idf w) i); [intro; right; assumption|].
    intros [H0|H0]; [left; exact H0 | right; apply IHl; exact H0]. }
  apply G. exact Hz.
Qed.

Lemma remove_id_length i l : In i (map idf l) -> length (remove_id idf i l) = pred (length l).
Proof.
  unfold remove_id. induction l as [|y l IH]; [intros []|]. simpl. destruct (Z.eqb (idf y) i) eqn:E; [reflexivity|].
  apply Z.eqb_neq in E. intros [H|H]; [congruence|]. simpl. rewrite (IH H). destruct l; [destruct H | reflexivity].
Qed.
End RemoveId.

(* ------------------------------------------------------------------ *)
(* UPGMA                                                               *)
(* ------------------------------------------------------------------ *)
Lemma qget_def d k : dmem k d = true -> qget d k = Ok (qdef d k).
Proof. unfold dmem, qget, qdef. destruct (dget k d); [reflexivity | discriminate]. Qed.

Lemma dget_map_ids {A} (idf : A -> Z) (g : A -> Q) l x :
  NoDup (map idf l) -> In x l -> dget (idf x) (map (fun y => (idf y, g y)) l) = Some (g x).
Proof.
  intros N H. apply In_dget.
  - unfold dkeys. rewrite map_map. simpl. exact N.
  - apply in_map_iff. exists x. auto.
Qed.

Lemma dget_map_ids_none {A} (idf : A -> Z) (g : A -> Q) l k :
  ~ In k (map idf l) -> dget k (map (fun y => (idf y, g y)) l) = None.
Proof.
  intro H. destruct (dget k _) eqn:E; [|reflexivity]. exfalso. apply H.
  apply dget_In in E. apply in_map_iff in E. destruct E as [y [Ey Hy]]. inversion Ey. subst.
  apply in_map. exact Hy.
Qed.

Definition uavg (j0 j1 : unode) (k : Z) : Q :=
  Qred ((0 + qdef (u_d j0) k * inject_Z (u_size j0) + qdef (u_d j1) k * inject_Z (u_size j1))
        / inject_Z (u_size j0 + u_size j1)).

Definition uupd (next : Z) (j0 j1 : unode) (k : unode) : unode :=
  mkU (u_tree k) (u_size k) (u_tip k) (dset next (uavg j0 j1 (u_id k)) (u_d k)).

Definition unew (next : Z) (dmin : Q) (j0 j1 : unode) (others : list unode) : unode :=
  let elen := Qred (dmin / 2) in
  mkU (QT next None None [q_setlen (u_tree j0) (Qred (elen - u_tip j0)); q_setlen (u_tree j1) (Qred (elen - u_tip j1))])
      (u_size j0 + u_size j1)
      (Qred ((elen - u_tip j0) + u_tip j0))
      (map (fun k => (u_id k, uavg j0 j1 (u_id k))) others).

(* what upgma_step computes, explicitly *)
Lemma upgma_step_eval pool next :
  uwf pool -> (2 <= length pool)%nat ->
  exists j0 j1,
    In (j0, j1) (pairs_of pool) /\
    (forall a b, In (a, b) (pairs_of pool) -> (qdef (u_d j0) (u_id j1) <= qdef (u_d a) (u_id b))%Q) /\
    let others := remove_id u_id (u_id j1) (remove_id u_id (u_id j0) pool) in
    upgma_step pool next =
    Ok (map (uupd next j0 j1) others ++ [unew next (qdef (u_d j0) (u_id j1)) j0 j1 others]).
Proof.
  intros [N [D Sz]] L. unfold upgma_step.
  set (g := fun ab : unode * unode => (qdef (u_d (fst ab)) (u_id (snd ab)), ab)).
  rewrite (res_map_map _ g).
  2:{ intros [a b] Hab. destruct (pairs_of_In _ _ _ Hab) as [Ha Hb]. simpl.
      rewrite qget_def; [reflexivity|]. apply D; auto. eapply pairs_of_distinct; eassumption. }
  simpl bind.
  destruct (argmin_first_spec (map g (pairs_of pool)) None) as [dmin [[j0 j1] [E [I [M _]]]]].
  { right. intro X. apply map_eq_nil in X. revert X. apply pairs_of_nonempty. exact L. }
  rewrite E. destruct I as [I|I]; [discriminate|]. apply in_map_iff in I. destruct I as [[a b] [Eg Hab]].
  unfold g in Eg. simpl in Eg. inversion Eg as [[Hd Ha Hb]]. subst a b dmin. clear Eg.
  exists j0, j1. split; [exact Hab|]. split.
  { intros a b Hab'. apply (M (qdef (u_d a) (u_id b)) (a, b)). apply in_map_iff. exists (a, b). auto. }
  set (others := remove_id u_id (u_id j1) (remove_id u_id (u_id j0) pool)). destruct (pairs_of_In _ _ _ Hab) as [H0 H1].
  pose proof (pairs_of_distinct u_id _ _ _ N Hab) as Nd.
  assert (N0 : NoDup (map u_id (remove_id u_id (u_id j0) pool))) by (apply remove_id_NoDup; exact N).
  assert (No : NoDup (map u_id others)) by (apply remove_id_NoDup; exact N0).
  assert (Io : forall k, In k others <-> In k pool /\ u_id k <> u_id j0 /\ u_id k <> u_id j1).
  { intro k. unfold others. rewrite (remove_id_In u_id _ _ _ N0), (remove_id_In u_id _ _ _ N). tauto. }
  rewrite (res_map_map _ (fun k => (u_id k, uavg j0 j1 (u_id k)))).
  2:{ intros k Hk. apply Io in Hk. destruct Hk as [Hk [K0 K1]].
      rewrite !qget_def by (apply D; auto). reflexivity. }
  simpl bind. f_equal. f_equal.
  apply map_ext_in. intros k Hk. unfold uupd. f_equal.
  rewrite (dget_map_ids u_id (fun k => uavg j0 j1 (u_id k)) others k No Hk). reflexivity.
Qed.

Lemma Qred_eq q : (Qred q == q)%Q.
Proof. apply Qred_correct. Qed.

Lemma Qred_minus a b : (Qred (Qred a - b) == a - b)%Q.
Proof. rewrite Qred_correct. unfold Qminus. apply Qplus_comp; [apply Qred_correct | reflexivity]. Qed.

Lemma Qred_tip a b : (Qred (Qred a - b + b) == a)%Q.
Proof.
  rewrite Qred_correct. transitivity (Qred a); [|apply Qred_correct]. ring.
Qed.

Lemma uavg_spec j0 j1 k : 0 < u_size j0 -> 0 < u_size j1 ->
  (uavg j0 j1 k == (qdef (u_d j0) k * inject_Z (u_size j0) + qdef (u_d j1) k * inject_Z (u_size j1))
                   / inject_Z (u_size j0 + u_size j1))%Q /\
  ((qdef (u_d j0) k == qdef (u_d j1) k)%Q -> (uavg j0 j1 k == qdef (u_d j0) k)%Q).
Proof.
  intros S0 S1. unfold uavg. rewrite Qred_eq. split.
  - rewrite Qplus_0_l. reflexivity.
  - intro E. rewrite <- E. rewrite Qplus_0_l.
    assert (Hs : ~ (inject_Z (u_size j0 + u_size j1) == 0)%Q).
    { unfold Qeq. simpl. lia. }
    rewrite inject_Z_plus. field. rewrite <- inject_Z_plus. exact Hs.
Qed.

Lemma upgma_step_sound_l pool next :
  uwf pool -> (2 <= length pool)%nat -> ~ In next (uids pool) ->
  exists j0 j1 rest newn,
    upgma_step pool next = Ok (rest ++ [newn]) /\
    (* the pair joined: the first pair, in pool order, at the smallest distance *)
    In (j0, j1) (pairs_of pool) /\
    (forall a b, In (a, b) (pairs_of pool) -> (qdef (u_d j0) (u_id j1) <= qdef (u_d a) (u_id b))%Q) /\
    (* the new node *)
    (exists l0 l1,
       u_tree newn = QT next None None [q_setlen (u_tree j0) l0; q_setlen (u_tree j1) l1] /\
       (l0 == qdef (u_d j0) (u_id j1) / 2 - u_tip j0)%Q /\ (l1 == qdef (u_d j0) (u_id j1) / 2 - u_tip j1)%Q) /\
    (u_tip newn == qdef (u_d j0) (u_id j1) / 2)%Q /\ u_size newn = u_size j0 + u_size j1 /\
    (* the other nodes: unchanged except for the entry for the new node *)
    map u_id rest = map u_id (remove_id u_id (u_id j1) (remove_id u_id (u_id j0) pool)) /\
    (forall k', In k' rest -> exists k,
        In k pool /\ u_id k <> u_id j0 /\ u_id k <> u_id j1 /\
        u_id k' = u_id k /\ u_tree k' = u_tree k /\ u_size k' = u_size k /\ u_tip k' = u_tip k /\
        (forall b, b <> next -> dget b (u_d k') = dget b (u_d k)) /\
        exists w, dget next (u_d k') = Some w /\ dget (u_id k) (u_d newn) = Some w /\
                  (w == (qdef (u_d j0) (u_id k) * inject_Z (u_size j0) + qdef (u_d j1) (u_id k) * inject_Z (u_size j1))
                        / inject_Z (u_size j0 + u_size j1))%Q /\
                  ((qdef (u_d j0) (u_id k) == qdef (u_d j1) (u_id k))%Q -> (w == qdef (u_d j0) (u_id k))%Q)) /\
    uwf (rest ++ [newn]).
Proof.
  intros W L Nn. destruct (upgma_step_eval pool next W L) as [j0 [j1 [Hab [Min E]]]].
  destruct W as [N [D Sz]].
  set (others := remove_id u_id (u_id j1) (remove_id u_id (u_id j0) pool)) in *.
  destruct (pairs_of_In _ _ _ Hab) as [H0 H1].
  pose proof (pairs_of_distinct u_id _ _ _ N Hab) as Nd.
  assert (N0 : NoDup (map u_id (remove_id u_id (u_id j0) pool))) by (apply remove_id_NoDup; exact N).
  assert (No : NoDup (map u_id others)) by (apply remove_id_NoDup; exact N0).
  assert (Io : forall k, In k others <-> In k pool /\ u_id k <> u_id j0 /\ u_id k <> u_id j1).
  { intro k. unfold others. rewrite (remove_id_In u_id _ _ _ N0), (remove_id_In u_id _ _ _ N). tauto. }
  assert (Hids : map u_id (map (uupd next j0 j1) others) = map u_id others).
  { rewrite map_map. apply map_ext. intro k. reflexivity. }
  exists j0, j1, (map (uupd next j0 j1) others), (unew next (qdef (u_d j0) (u_id j1)) j0 j1 others).
  split; [exact E|]. split; [exact Hab|]. split; [exact Min|]. split.
  { exists (Qred (Qred (qdef (u_d j0) (u_id j1) / 2) - u_tip j0)), (Qred (Qred (qdef (u_d j0) (u_id j1) / 2) - u_tip j1)).
    split; [reflexivity|]. split.
    - apply Qred_minus.
    - apply Qred_minus. }
  split. { unfold unew. cbn [u_tip]. apply Qred_tip. }
  split; [reflexivity|]. split; [exact Hids|]. split.
  - intros k' Hk'. apply in_map_iff in Hk'. destruct Hk' as [k [<- Hk]]. pose proof Hk as Hk0. apply Io in Hk0.
    destruct Hk0 as [Hp [K0 K1]]. exists k. repeat (split; [assumption || reflexivity|]). split.
    + intros b Hb. cbn [u_d u_id u_size u_tip u_tree uupd unew q_id]. apply dget_dset_other. congruence.
    + exists (uavg j0 j1 (u_id k)). split; [cbn [u_d u_id u_size u_tip u_tree uupd unew q_id]; apply dget_dset_same|]. split.
      * cbn [u_d u_id u_size u_tip u_tree uupd unew q_id]. apply (dget_map_ids u_id (fun k => uavg j0 j1 (u_id k)) others k No Hk).
      * apply uavg_spec; apply Sz; assumption.
  - (* well-formedness of the new pool *)
    assert (Nnext : ~ In next (map u_id others)).
    { intro H. apply in_map_iff in H. destruct H as [k [Ek Hk]]. apply Io in Hk. apply Nn. rewrite <- Ek.
      apply in_map. tauto. }
    split; [|split].
    + unfold uids. rewrite map_app, Hids. cbn [map u_id unew u_tree q_id]. apply NoDup_snoc; assumption.
    + intros u v Hu Hv Huv. apply in_app_iff in Hu. apply in_app_iff in Hv.
      destruct Hu as [Hu|[<-|[]]]; destruct Hv as [Hv|[<-|[]]].
      * apply in_map_iff in Hu. destruct Hu as [u0 [<- Hu0]]. apply in_map_iff in Hv. destruct Hv as [v0 [<- Hv0]].
        change (dmem (u_id v0) (dset next (uavg j0 j1 (u_id u0)) (u_d u0)) = true).
        change (u_id u0 <> u_id v0) in Huv.
        rewrite dmem_dset. apply Io in Hu0. apply Io in Hv0. rewrite (D u0 v0); try tauto. apply orb_true_r.
      * apply in_map_iff in Hu. destruct Hu as [u0 [<- Hu0]].
        change (dmem next (dset next (uavg j0 j1 (u_id u0)) (u_d u0)) = true). rewrite dmem_dset, Z.eqb_refl. reflexivity.
      * apply in_map_iff in Hv. destruct Hv as [v0 [<- Hv0]].
        change (dmem (u_id v0) (map (fun k => (u_id k, uavg j0 j1 (u_id k))) others) = true). unfold dmem.
        rewrite (dget_map_ids u_id (fun k => uavg j0 j1 (u_id k)) others v0 No Hv0). reflexivity.
      * congruence.
    + intros u Hu. apply in_app_iff in Hu. destruct Hu as [Hu|[<-|[]]].
      * apply in_map_iff in Hu. destruct Hu as [u0 [<- Hu0]]. cbn [u_d u_id u_size u_tip u_tree uupd unew q_id]. apply Sz. apply Io in Hu0. tauto.
      * cbn [u_d u_id u_size u_tip u_tree uupd unew q_id]. pose proof (Sz j0 H0). pose proof (Sz j1 H1). lia.
Qed.

(* ------------------------------------------------------------------ *)
(* NJ                                                                  *)
(* ------------------------------------------------------------------ *)
Definition jdist (j0 j1 node : jnode) : Q :=
  Qred ((1 # 2) * ((0 + jd node j0 + jd node j1) - jd j0 j1))%Q.

Definition jupd (next : Z) (j0 j1 node : jnode) : jnode :=
  mkJ (j_tree node) (dset next (jdist j0 j1 node) (j_d node))
      (Qred (j_xsub node + jdist j0 j1 node - jd j0 node - jd j1 node)%Q).

Definition jlens (n : Z) (j0 j1 : jnode) : Q * Q :=
  let v3 := jd j0 j1 in
  if 2 <? n then
    let v1 := ((1 # 2) * v3)%Q in
    let v4 := ((1 / inject_Z (2 * (n - 2))) * (j_xsub j0 - j_xsub j1))%Q in
    let delta_f := Qred (v1 + v4)%Q in
    (delta_f, Qred (v3 - delta_f)%Q)
  else (Qred (v3 / 2)%Q, Qred (v3 / 2)%Q).

Definition jnew (n next : Z) (j0 j1 : jnode) (others : list jnode) : jnode :=
  let upd := map (fun node => (jupd next j0 j1 node, jdist j0 j1 node)) others in
  mkJ (QT next None None [q_setlen (j_tree j0) (fst (jlens n j0 j1)); q_setlen (j_tree j1) (snd (jlens n j0 j1))])
      (map (fun nd : jnode * Q => (j_id (fst nd), snd nd)) upd)
      (Qred (fold_left (fun acc (nd : jnode * Q) => (acc + snd nd)%Q) upd 0%Q)).

Lemma nj_step_eval pool n next :
  jwf pool -> (2 <= length pool)%nat ->
  exists j0 j1,
    In (j0, j1) (pairs_of pool) /\
    (forall a b, In (a, b) (pairs_of pool) -> (qvalue n j0 j1 <= qvalue n a b)%Q) /\
    let others := remove_id j_id (j_id j1) (remove_id j_id (j_id j0) pool) in
    nj_step pool n next = Ok (map (jupd next j0 j1) others ++ [jnew n next j0 j1 others]).
Proof.
  intros [N [D [Sy Xs]]] L. unfold nj_step.
  set (g := fun ab : jnode * jnode => (qvalue n (fst ab) (snd ab), ab)).
  rewrite (res_map_map _ g).
  2:{ intros [a b] Hab. destruct (pairs_of_In _ _ _ Hab) as [Ha Hb]. simpl fst. simpl snd.
      rewrite qget_def; [reflexivity|]. apply D; auto. eapply pairs_of_distinct; eassumption. }
  cbn [bind].
  destruct (argmin_first_spec (map g (pairs_of pool)) None) as [qmin [[j0 j1] [E [I [M _]]]]].
  { right. intro X. apply map_eq_nil in X. revert X. apply pairs_of_nonempty. exact L. }
  rewrite E. destruct I as [I|I]; [discriminate|]. apply in_map_iff in I. destruct I as [[a b] [Eg Hab]].
  unfold g in Eg. cbn [fst snd] in Eg. inversion Eg as [[Hd Ha Hb]]. subst a b qmin. clear Eg.
  exists j0, j1. split; [exact Hab|]. split.
  { intros a b Hab'. apply (M (qvalue n a b) (a, b)). apply in_map_iff. exists (a, b). auto. }
  set (others := remove_id j_id (j_id j1) (remove_id j_id (j_id j0) pool)). destruct (pairs_of_In _ _ _ Hab) as [H0 H1].
  pose proof (pairs_of_distinct j_id _ _ _ N Hab) as Nd.
  assert (N0 : NoDup (map j_id (remove_id j_id (j_id j0) pool))) by (apply remove_id_NoDup; exact N).
  assert (Io : forall k, In k others <-> In k pool /\ j_id k <> j_id j0 /\ j_id k <> j_id j1).
  { intro k. unfold others. rewrite (remove_id_In j_id _ _ _ N0), (remove_id_In j_id _ _ _ N). tauto. }
  rewrite (qget_def (j_d j0) (j_id j1)) by (apply D; auto). cbn [bind].
  rewrite (res_map_map _ (fun node => (jupd next j0 j1 node, jdist j0 j1 node))).
  2:{ intros k Hk. apply Io in Hk. destruct Hk as [Hk [K0 K1]].
      rewrite !qget_def by (apply D; auto). reflexivity. }
  cbn [bind]. unfold jnew, jlens, jd. rewrite map_map.
  destruct (2 <? n); reflexivity.
Qed.

(* ---------- sums ---------- *)
Lemma filter_all {A} (P : A -> bool) l : (forall z, In z l -> P z = true) -> filter P l = l.
Proof.
  induction l as [|z l IH]; intro H; [reflexivity|]. simpl. rewrite (H z (or_introl eq_refl)). f_equal.
  apply IH. intros y Hy. apply H. right. exact Hy.
Qed.

Lemma remove_id_filter {A} (idf : A -> Z) i l : NoDup (map idf l) ->
  remove_id idf i l = filter (fun x => negb (Z.eqb (idf x) i)) l.
Proof.
  unfold remove_id. induction l as [|y l IH]; intro N; [reflexivity|].
  simpl in N. inversion N as [|? ? Hy N']; subst. simpl. destruct (Z.eqb (idf y) i) eqn:E; simpl.
  - apply Z.eqb_eq in E. symmetry. apply filter_all. intros z Hz.
    destruct (Z.eqb (idf z) i) eqn:Ez; [|reflexivity]. apply Z.eqb_eq in Ez. exfalso. apply Hy.
    rewrite E, <- Ez. apply in_map. exact Hz.
  - f_equal. apply IH. exact N'.
Qed.

Lemma filter_comm {A} (P Q : A -> bool) l : filter P (filter Q l) = filter Q (filter P l).
Proof.
  induction l as [|x l IH]; [reflexivity|]. simpl. destruct (P x) eqn:Ep; destruct (Q x) eqn:Eq; simpl; rewrite ?Ep, ?Eq, IH; reflexivity.
Qed.

Lemma qsum_filter_split {A} (idf : A -> Z) (f : A -> Q) (P : A -> bool) l j :
  NoDup (map idf l) -> In j l -> P j = true ->
  (qsum (map f (filter P l)) == f j + qsum (map f (filter P (filter (fun x => negb (Z.eqb (idf x) (idf j))) l))))%Q.
Proof.
  induction l as [|y l IH]; intros N Hj Pj; [destruct Hj|].
  simpl in N. inversion N as [|? ? Hy N']; subst. simpl. destruct (Z.eqb (idf y) (idf j)) eqn:E; simpl.
  - apply Z.eqb_eq in E. assert (y = j).
    { destruct Hj as [Hj|Hj]; [exact Hj|]. exfalso. apply Hy. rewrite E. apply in_map. exact Hj. }
    subst y. rewrite Pj. simpl.
    assert (F : filter (fun x => negb (Z.eqb (idf x) (idf j))) l = l).
    { apply filter_all. intros z Hz. destruct (Z.eqb (idf z) (idf j)) eqn:Ez; [|reflexivity].
      apply Z.eqb_eq in Ez. exfalso. apply Hy. rewrite <- Ez. apply in_map. exact Hz. }
    rewrite F. reflexivity.
  - apply Z.eqb_neq in E. destruct Hj as [Hj|Hj]; [congruence|].
    destruct (P y); simpl; rewrite (IH N' Hj Pj); ring.
Qed.

Lemma fold_left_qsum {A} (g : A -> Q) l : forall a, (fold_left (fun acc x => acc + g x) l a == a + qsum (map g l))%Q.
Proof.
  induction l as [|x l IH]; intro a; simpl; [ring|]. rewrite IH. ring.
Qed.

Lemma qsum_shift {A} (g : A -> Q) (c : Q) l :
  (qsum (map (fun k => c + g k) l) == inject_Z (Z.of_nat (length l)) * c + qsum (map g l))%Q.
Proof.
  induction l as [|x l IH]; [simpl; ring|]. cbn [map qsum fold_right length]. change (fold_right Qplus 0%Q) with qsum.
  rewrite IH. rewrite Nat2Z.inj_succ, <- Z.add_1_r, inject_Z_plus. ring.
Qed.

Lemma qsum_ext {A} (f g : A -> Q) l : (forall x, In x l -> (f x == g x)%Q) -> (qsum (map f l) == qsum (map g l))%Q.
Proof.
  induction l as [|x l IH]; intro H; [reflexivity|]. cbn [map qsum fold_right]. change (fold_right Qplus 0%Q) with qsum.
  rewrite (H x (or_introl eq_refl)), IH; [reflexivity|]. intros y Hy. apply H. right. exact Hy.
Qed.

(* ---------- the pool after one NJ step ---------- *)
Lemma filter_map_comm {A B} (f : A -> B) (P : B -> bool) l : filter P (map f l) = map f (filter (fun x => P (f x)) l).
Proof. induction l as [|x l IH]; [reflexivity|]. simpl. destruct (P (f x)); simpl; rewrite IH; reflexivity. Qed.

Lemma jd_upd_upd next j0 j1 k v : j_id v <> next -> jd (jupd next j0 j1 k) (jupd next j0 j1 v) = jd k v.
Proof.
  intro H. unfold jd, qdef. change (j_id (jupd next j0 j1 v)) with (j_id v).
  change (j_d (jupd next j0 j1 k)) with (dset next (jdist j0 j1 k) (j_d k)).
  rewrite dget_dset_other by congruence. reflexivity.
Qed.

Lemma jd_upd_new next j0 j1 k newn : j_id newn = next -> jd (jupd next j0 j1 k) newn = jdist j0 j1 k.
Proof.
  intro H. unfold jd, qdef. rewrite H. change (j_d (jupd next j0 j1 k)) with (dset next (jdist j0 j1 k) (j_d k)).
  rewrite dget_dset_same. reflexivity.
Qed.

Lemma jnew_d n next j0 j1 others :
  j_d (jnew n next j0 j1 others) = map (fun node => (j_id node, jdist j0 j1 node)) others.
Proof. unfold jnew. cbn [j_d]. rewrite map_map. reflexivity. Qed.

Lemma jd_new_upd n next j0 j1 others k : NoDup (map j_id others) -> In k others ->
  jd (jnew n next j0 j1 others) (jupd next j0 j1 k) = jdist j0 j1 k.
Proof.
  intros N H. unfold jd, qdef. rewrite jnew_d. change (j_id (jupd next j0 j1 k)) with (j_id k).
  rewrite (dget_map_ids j_id (jdist j0 j1) others k N H). reflexivity.
Qed.

Lemma jnew_xsub n next j0 j1 others :
  (j_xsub (jnew n next j0 j1 others) == qsum (map (jdist j0 j1) others))%Q.
Proof.
  unfold jnew. cbn [j_xsub]. rewrite Qred_correct.
  rewrite (fold_left_qsum (fun nd : jnode * Q => snd nd)). rewrite map_map. cbn [snd]. rewrite Qplus_0_l. reflexivity.
Qed.

Lemma qsum_app {A} (f : A -> Q) l1 l2 : (qsum (map f (l1 ++ l2)) == qsum (map f l1) + qsum (map f l2))%Q.
Proof.
  induction l1 as [|x l1 IH]; [simpl; ring|]. cbn [app map qsum fold_right]. change (fold_right Qplus 0%Q) with qsum.
  rewrite IH. ring.
Qed.

Definition jne (i : Z) (x : jnode) : bool := negb (Z.eqb (j_id x) i).

Lemma nj_step_sound_l pool n next :
  jwf pool -> n = Z.of_nat (length pool) -> (2 <= length pool)%nat -> ~ In next (jids pool) ->
  exists j0 j1 rest newn l0 l1,
    nj_step pool n next = Ok (rest ++ [newn]) /\
    (* the pair joined: the first pair, in pool order, with the smallest Q value *)
    In (j0, j1) (pairs_of pool) /\
    (forall a b, In (a, b) (pairs_of pool) -> (qvalue n j0 j1 <= qvalue n a b)%Q) /\
    j_tree newn = QT next None None [q_setlen (j_tree j0) l0; q_setlen (j_tree j1) l1] /\
    (n = 2 -> (l0 == jd j0 j1 / 2)%Q /\ (l1 == jd j0 j1 / 2)%Q) /\
    (l0 + l1 == jd j0 j1)%Q /\
    (* the other nodes keep their subtree and their distances to each other; the distance to the
       new node is (d(k,j0) + d(k,j1) - d(j0,j1)) / 2 in both directions *)
    let others := remove_id j_id (j_id j1) (remove_id j_id (j_id j0) pool) in
    map j_id rest = map j_id others /\ map j_tree rest = map j_tree others /\
    (forall k, In k others -> exists k', In k' rest /\ j_id k' = j_id k /\
        (forall v v', In v others -> In v' rest -> j_id v' = j_id v -> j_id v <> j_id k -> jd k' v' = jd k v) /\
        (jd k' newn == (jd k j0 + jd k j1 - jd j0 j1) / 2)%Q /\ jd newn k' = jd k' newn) /\
    (* the invariant, incl. the incrementally updated row sums, holds again *)
    jwf (rest ++ [newn]) /\
    (* if the pair is a cherry -- d(j0,j1) = a0 + a1 and d(j0,k) = a0 + mv k, d(j1,k) = a1 + mv k for
       every other node k -- the reduced matrix is mv and the two new edge lengths are a0 and a1 *)
    (forall a0 a1 mv, is_cherry others j0 j1 a0 a1 mv ->
       (forall k k', In k others -> In k' rest -> j_id k' = j_id k -> (jd k' newn == mv k)%Q) /\
       (2 < n -> (l0 == a0)%Q /\ (l1 == a1)%Q)).
Proof.
  intros W Hn L Nn. destruct (nj_step_eval pool n next W L) as [j0 [j1 [Hab [Min E]]]].
  destruct W as [N [D [Sy Xs]]].
  set (others := remove_id j_id (j_id j1) (remove_id j_id (j_id j0) pool)) in *.
  destruct (pairs_of_In _ _ _ Hab) as [H0 H1].
  pose proof (pairs_of_distinct j_id _ _ _ N Hab) as Nd.
  assert (N0 : NoDup (map j_id (remove_id j_id (j_id j0) pool))) by (apply remove_id_NoDup; exact N).
  assert (No : NoDup (map j_id others)) by (apply remove_id_NoDup; exact N0).
  assert (Io : forall k, In k others <-> In k pool /\ j_id k <> j_id j0 /\ j_id k <> j_id j1).
  { intro k. unfold others. rewrite (remove_id_In j_id _ _ _ N0), (remove_id_In j_id _ _ _ N). tauto. }
  assert (Nnext : forall k, In k others -> j_id k <> next).
  { intros k Hk Ek. apply Io in Hk. apply Nn. rewrite <- Ek. apply in_map. tauto. }
  set (newn := jnew n next j0 j1 others). set (rest := map (jupd next j0 j1) others).
  assert (Hids : map j_id rest = map j_id others) by (unfold rest; rewrite map_map; reflexivity).
  assert (Htrees : map j_tree rest = map j_tree others) by (unfold rest; rewrite map_map; reflexivity).
  assert (Hnew : j_id newn = next) by reflexivity.
  assert (Huniq : forall v v', In v others -> In v' rest -> j_id v' = j_id v -> v' = jupd next j0 j1 v).
  { intros v v' Hv Hv' Ev. unfold rest in Hv'. apply in_map_iff in Hv'. destruct Hv' as [w [<- Hw]].
    change (j_id (jupd next j0 j1 w)) with (j_id w) in Ev. f_equal.
    clear - No Hv Hw Ev. induction others as [|y l IH]; [destruct Hv|].
    simpl in No. inversion No as [|? ? Hy No']; subst.
    destruct Hv as [<-|Hv]; destruct Hw as [<-|Hw]; auto.
    - exfalso. apply Hy. rewrite <- Ev. apply in_map. exact Hw.
    - exfalso. apply Hy. rewrite Ev. apply in_map. exact Hv. }
  exists j0, j1, rest, newn, (fst (jlens n j0 j1)), (snd (jlens n j0 j1)).
  split; [exact E|]. split; [exact Hab|]. split; [exact Min|]. split; [reflexivity|].
  split. { intro E2. unfold jlens. assert (2 <? n = false) as -> by (apply Z.ltb_ge; lia). cbn [fst snd].
           split; apply Qred_correct. }
  split. { unfold jlens. destruct (2 <? n); cbn [fst snd].
           - rewrite (Qred_correct (_ - _)). ring.
           - rewrite Qred_correct. field. }
  split; [exact Hids|]. split; [exact Htrees|]. split.
  { intros k Hk. exists (jupd next j0 j1 k). split; [unfold rest; apply in_map; exact Hk|]. split; [reflexivity|].
    split; [|split].
    - intros v v' Hv Hv' Ev Nv. rewrite (Huniq v v' Hv Hv' Ev). apply jd_upd_upd. apply Nnext. exact Hv.
    - rewrite (jd_upd_new next j0 j1 k newn Hnew). unfold jdist. rewrite Qred_correct. field.
    - rewrite (jd_upd_new next j0 j1 k newn Hnew). unfold newn. apply (jd_new_upd n next j0 j1 others k No Hk). }
  assert (Eo : others = filter (jne (j_id j1)) (filter (jne (j_id j0)) pool)).
  { unfold others. rewrite (remove_id_filter j_id _ _ N0), (remove_id_filter j_id _ _ N). reflexivity. }
  (* the sum of a row of the old pool, split into the two joined nodes and the others *)
  assert (Xk : forall k, In k others ->
            (j_xsub k == jd k j0 + jd k j1 + qsum (map (jd k) (filter (jne (j_id k)) others)))%Q).
  { intros k Hk. apply Io in Hk. destruct Hk as [Hp [K0 K1]]. rewrite (Xs k Hp). unfold jothers. fold (jne (j_id k)).
    rewrite (qsum_filter_split j_id (jd k) (jne (j_id k)) pool j0 N H0).
    2:{ unfold jne. apply negb_true_iff. apply Z.eqb_neq. congruence. }
    fold (jne (j_id j0)).
    rewrite (qsum_filter_split j_id (jd k) (jne (j_id k)) (filter (jne (j_id j0)) pool) j1).
    - fold (jne (j_id j1)). rewrite <- Eo. ring.
    - unfold jne. rewrite <- (remove_id_filter j_id _ _ N). exact N0.
    - apply filter_In. split; [exact H1|]. unfold jne. apply negb_true_iff. apply Z.eqb_neq. congruence.
    - unfold jne. apply negb_true_iff. apply Z.eqb_neq. congruence. }
  assert (X0 : (j_xsub j0 == jd j0 j1 + qsum (map (jd j0) others))%Q).
  { rewrite (Xs j0 H0). unfold jothers. fold (jne (j_id j0)).
    rewrite (qsum_filter_split j_id (jd j0) (jne (j_id j0)) pool j1 N H1).
    2:{ unfold jne. apply negb_true_iff. apply Z.eqb_neq. congruence. }
    fold (jne (j_id j1)). rewrite filter_comm, <- Eo. reflexivity. }
  assert (X1 : (j_xsub j1 == jd j1 j0 + qsum (map (jd j1) others))%Q).
  { rewrite (Xs j1 H1). unfold jothers. fold (jne (j_id j1)).
    rewrite (qsum_filter_split j_id (jd j1) (jne (j_id j1)) pool j0 N H0).
    2:{ unfold jne. apply negb_true_iff. apply Z.eqb_neq. congruence. }
    fold (jne (j_id j0)). rewrite <- Eo. reflexivity. }
  split.
  { (* jwf of the new pool *)
    split; [|split; [|split]].
    - unfold jids. rewrite map_app, Hids. cbn [map]. rewrite Hnew. apply NoDup_snoc; [exact No|].
      intro H. apply in_map_iff in H. destruct H as [k [Ek Hk]]. exact (Nnext k Hk Ek).
    - intros u v Hu Hv Huv. apply in_app_iff in Hu. apply in_app_iff in Hv.
      destruct Hu as [Hu|[<-|[]]]; destruct Hv as [Hv|[<-|[]]].
      + unfold rest in Hu, Hv. apply in_map_iff in Hu. destruct Hu as [u0 [<- Hu0]].
        apply in_map_iff in Hv. destruct Hv as [v0 [<- Hv0]].
        change (dmem (j_id v0) (dset next (jdist j0 j1 u0) (j_d u0)) = true).
        change (j_id u0 <> j_id v0) in Huv.
        rewrite dmem_dset. apply Io in Hu0. apply Io in Hv0. rewrite (D u0 v0); try tauto. apply orb_true_r.
      + unfold rest in Hu. apply in_map_iff in Hu. destruct Hu as [u0 [<- Hu0]].
        change (dmem next (dset next (jdist j0 j1 u0) (j_d u0)) = true). rewrite dmem_dset, Z.eqb_refl. reflexivity.
      + unfold rest in Hv. apply in_map_iff in Hv. destruct Hv as [v0 [<- Hv0]].
        unfold newn. rewrite jnew_d. change (j_id (jupd next j0 j1 v0)) with (j_id v0). unfold dmem.
        rewrite (dget_map_ids j_id (jdist j0 j1) others v0 No Hv0). reflexivity.
      + congruence.
    - intros u v Hu Hv Huv. apply in_app_iff in Hu. apply in_app_iff in Hv.
      destruct Hu as [Hu|[<-|[]]]; destruct Hv as [Hv|[<-|[]]].
      + unfold rest in Hu, Hv. apply in_map_iff in Hu. destruct Hu as [u0 [<- Hu0]].
        apply in_map_iff in Hv. destruct Hv as [v0 [<- Hv0]]. change (j_id u0 <> j_id v0) in Huv.
        rewrite !jd_upd_upd by (apply Nnext; assumption). apply Io in Hu0. apply Io in Hv0. apply Sy; tauto.
      + unfold rest in Hu. apply in_map_iff in Hu. destruct Hu as [u0 [<- Hu0]].
        rewrite (jd_upd_new next j0 j1 u0 newn Hnew). unfold newn. rewrite (jd_new_upd n next j0 j1 others u0 No Hu0). reflexivity.
      + unfold rest in Hv. apply in_map_iff in Hv. destruct Hv as [v0 [<- Hv0]].
        rewrite (jd_upd_new next j0 j1 v0 newn Hnew). unfold newn. rewrite (jd_new_upd n next j0 j1 others v0 No Hv0). reflexivity.
      + congruence.
    - intros u Hu. apply in_app_iff in Hu. destruct Hu as [Hu|[<-|[]]].
      + unfold rest in Hu. apply in_map_iff in Hu. destruct Hu as [k [<- Hk]].
        unfold jothers. change (j_id (jupd next j0 j1 k)) with (j_id k). fold (jne (j_id k)).
        rewrite filter_app. cbn [filter]. unfold jne at 2. rewrite Hnew.
        assert (Z.eqb next (j_id k) = false) as -> by (apply Z.eqb_neq; intro X; apply (Nnext k Hk); congruence).
        cbn [negb]. unfold rest. rewrite filter_map_comm.
        rewrite (filter_ext _ (jne (j_id k))) by (intro x; reflexivity).
        rewrite qsum_app, map_map. cbn [map qsum fold_right]. rewrite Qplus_0_r.
        rewrite (jd_upd_new next j0 j1 k newn Hnew).
        rewrite (qsum_ext (fun x => jd (jupd next j0 j1 k) (jupd next j0 j1 x)) (jd k)).
        2:{ intros x Hx. apply filter_In in Hx. destruct Hx as [Hx _]. rewrite jd_upd_upd by (apply Nnext; exact Hx). reflexivity. }
        change (j_xsub (jupd next j0 j1 k)) with (Qred (j_xsub k + jdist j0 j1 k - jd j0 k - jd j1 k)%Q).
        rewrite Qred_correct, (Xk k Hk). pose proof Hk as Hk'. apply Io in Hk'. destruct Hk' as [Hp [K0 K1]].
        rewrite (Sy j0 k H0 Hp) by congruence. rewrite (Sy j1 k H1 Hp) by congruence. ring.
      + unfold jothers. rewrite Hnew. rewrite filter_app. cbn [filter]. rewrite Hnew, Z.eqb_refl. cbn [negb].
        rewrite app_nil_r. rewrite filter_all.
        2:{ intros z Hz. unfold rest in Hz. apply in_map_iff in Hz. destruct Hz as [k [<- Hk]].
            change (j_id (jupd next j0 j1 k)) with (j_id k). apply negb_true_iff. apply Z.eqb_neq. apply Nnext. exact Hk. }
        unfold rest. rewrite map_map. unfold newn at 1. rewrite jnew_xsub.
        apply qsum_ext. intros k Hk. unfold newn. rewrite (jd_new_upd n next j0 j1 others k No Hk). reflexivity. }
  (* the cherry clause *)
  intros a0 a1 mv [C01 Ck]. split.
  - intros k k' Hk Hk' Ek. rewrite (Huniq k k' Hk Hk' Ek). rewrite (jd_upd_new next j0 j1 k newn Hnew).
    unfold jdist. rewrite Qred_correct. destruct (Ck k Hk) as [C0 C1]. pose proof Hk as Hk2. apply Io in Hk2.
    destruct Hk2 as [Hp [K0 K1]]. rewrite (Sy k j0 Hp H0) by congruence. rewrite (Sy k j1 Hp H1) by congruence.
    rewrite C0, C1, C01. field.
  - intro Hn2. unfold jlens. assert (2 <? n = true) as -> by (apply Z.ltb_lt; exact Hn2). cbn [fst snd].
    assert (Lo : Z.of_nat (length others) = n - 2).
    { unfold others. rewrite remove_id_length.
      - rewrite remove_id_length by (apply in_map; exact H0). lia.
      - apply in_map. apply (remove_id_In j_id _ _ _ N). split; [exact H1 | congruence]. }
    assert (S0 : (qsum (map (jd j0) others) == inject_Z (n - 2) * a0 + qsum (map mv others))%Q).
    { rewrite (qsum_ext (jd j0) (fun k => a0 + mv k)%Q) by (intros k Hk; apply (Ck k Hk)).
      rewrite qsum_shift, Lo. reflexivity. }
    assert (S1 : (qsum (map (jd j1) others) == inject_Z (n - 2) * a1 + qsum (map mv others))%Q).
    { rewrite (qsum_ext (jd j1) (fun k => a1 + mv k)%Q) by (intros k Hk; apply (Ck k Hk)).
      rewrite qsum_shift, Lo. reflexivity. }
    assert (Hm : ~ (inject_Z (n - 2) == 0)%Q) by (unfold Qeq; simpl; lia).
    assert (L0 : (Qred ((1 # 2) * jd j0 j1 + 1 / inject_Z (2 * (n - 2)) * (j_xsub j0 - j_xsub j1)) == a0)%Q).
    { rewrite Qred_correct, X0, X1, S0, S1. rewrite (Sy j1 j0 H1 H0) by congruence. rewrite C01.
      rewrite inject_Z_mult. change (inject_Z 2) with 2%Q. field. exact Hm. }
    split; [exact L0|]. rewrite Qred_correct, L0, C01. ring.
Qed.

(* ------------------------------------------------------------------ *)
(* the loops terminate within their fuel and never fail on a well-formed pool *)
(* ------------------------------------------------------------------ *)
Lemma others_length {A} (idf : A -> Z) (pool : list A) j0 j1 :
  NoDup (map idf pool) -> In j0 pool -> In j1 pool -> idf j0 <> idf j1 ->
  S (S (length (remove_id idf (idf j1) (remove_id idf (idf j0) pool)))) = length pool.
Proof.
  intros N H0 H1 Nd. rewrite remove_id_length.
  - rewrite remove_id_length by (apply in_map; exact H0).
    destruct pool as [|x [|y pool]]; simpl.
    + destruct H0.
    + exfalso. destruct H0 as [<-|[]]. destruct H1 as [<-|[]]. congruence.
    + reflexivity.
  - apply in_map. apply (remove_id_In idf _ _ _ N). split; [exact H1 | congruence].
Qed.

Lemma nj_loop_total : forall fuel pool n next,
  jwf pool -> n = Z.of_nat (length pool) -> (length pool <= fuel)%nat -> (1 <= length pool)%nat ->
  (forall i, In i (jids pool) -> i < next) ->
  exists T, nj_loop fuel pool n next = Ok T.
Proof.
  induction fuel as [|f IH]; intros pool n next W Hn Lf L1 Fr; [lia|].
  cbn [nj_loop]. destruct (1 <? n) eqn:E1.
  - apply Z.ltb_lt in E1. assert (L2 : (2 <= length pool)%nat) by lia.
    assert (Nn : ~ In next (jids pool)) by (intro H; apply Fr in H; lia).
    destruct (nj_step_sound_l pool n next W Hn L2 Nn) as [j0 [j1 [rest [newn [l0 [l1 [E [Hab [_ [Ht [_ [_ [Hids [_ [_ [W' _]]]]]]]]]]]]]]]].
    rewrite E. cbn [bind].
    destruct W as [N _]. destruct (pairs_of_In _ _ _ Hab) as [H0 H1].
    pose proof (pairs_of_distinct j_id _ _ _ N Hab) as Nd.
    pose proof (others_length j_id pool j0 j1 N H0 H1 Nd) as Lo.
    assert (Lr : length rest = length (remove_id j_id (j_id j1) (remove_id j_id (j_id j0) pool))).
    { rewrite <- (map_length j_id rest), Hids, map_length. reflexivity. }
    apply IH.
    + exact W'.
    + rewrite app_length. simpl. lia.
    + rewrite app_length. simpl. lia.
    + rewrite app_length. simpl. lia.
    + intros i Hi. unfold jids in Hi. rewrite map_app, in_app_iff in Hi. destruct Hi as [Hi|[Hi|[]]].
      * rewrite Hids in Hi. apply in_map_iff in Hi. destruct Hi as [k [<- Hk]].
        apply (remove_id_In j_id) in Hk; [|apply remove_id_NoDup; exact N]. destruct Hk as [Hk _].
        apply (remove_id_In j_id _ _ _ N) in Hk. destruct Hk as [Hk _].
        assert (j_id k < next) by (apply Fr; apply in_map; exact Hk). lia.
      * subst i. unfold j_id. rewrite Ht. simpl. lia.
  - apply Z.ltb_ge in E1. destruct pool as [|x pool]; [simpl in L1; lia|]. eexists. reflexivity.
Qed.

Lemma upgma_loop_total : forall fuel pool next,
  uwf pool -> (length pool <= S fuel)%nat -> (1 <= length pool)%nat ->
  (forall i, In i (uids pool) -> i < next) ->
  exists T, upgma_loop fuel pool next = Ok T.
Proof.
  induction fuel as [|f IH]; intros pool next W Lf L1 Fr.
  - destruct pool as [|x [|y pool]]; simpl in *; try lia. eexists. reflexivity.
  - destruct pool as [|x [|y pool]]; [simpl in L1; lia | eexists; reflexivity|].
    cbn [upgma_loop]. set (P := x :: y :: pool) in *.
    assert (L2 : (2 <= length P)%nat) by (simpl; lia).
    assert (Nn : ~ In next (uids P)) by (intro H; apply Fr in H; lia).
    destruct (upgma_step_sound_l P next W L2 Nn) as [j0 [j1 [rest [newn [E [Hab [_ [[l0 [l1 [Ht _]]] [_ [_ [Hids [_ W']]]]]]]]]]]].
    rewrite E. cbn [bind].
    destruct W as [N _]. destruct (pairs_of_In _ _ _ Hab) as [H0 H1].
    pose proof (pairs_of_distinct u_id _ _ _ N Hab) as Nd.
    pose proof (others_length u_id P j0 j1 N H0 H1 Nd) as Lo.
    assert (Lr : length rest = length (remove_id u_id (u_id j1) (remove_id u_id (u_id j0) P))).
    { rewrite <- (map_length u_id rest), Hids, map_length. reflexivity. }
    apply IH.
    + exact W'.
    + rewrite app_length. change (length [newn]) with 1%nat. lia.
    + rewrite app_length. change (length [newn]) with 1%nat. lia.
    + intros i Hi. unfold uids in Hi. rewrite map_app, in_app_iff in Hi. destruct Hi as [Hi|[Hi|[]]].
      * rewrite Hids in Hi. apply in_map_iff in Hi. destruct Hi as [k [<- Hk]].
        apply (remove_id_In u_id) in Hk; [|apply remove_id_NoDup; exact N]. destruct Hk as [Hk _].
        apply (remove_id_In u_id _ _ _ N) in Hk. destruct Hk as [Hk _].
        assert (u_id k < next) by (apply Fr; apply in_map; exact Hk). lia.
      * subst i. unfold u_id. rewrite Ht. simpl. lia.
Qed.

(* ------------------------------------------------------------------ *)
(* the initial pools are well-formed                                   *)
(* ------------------------------------------------------------------ *)
Lemma flat_map_map {A B C} (f : A -> B) (g : B -> list C) l : flat_map g (map f l) = flat_map (fun x => g (f x)) l.
Proof. induction l as [|x l IH]; [reflexivity|]. simpl. rewrite IH. reflexivity. Qed.

Lemma mget_mval M a b : tget2 a b M <> None -> mget M a b = Ok (mval M a b).
Proof. unfold mget, key_get, mval. destruct (tget2 a b M); [reflexivity | congruence]. Qed.

Section Init.
Variables (M : tbl Q) (ids : list (Z * Z)).
Hypothesis Nf : NoDup (map fst ids).
Hypothesis Ns : NoDup (map snd ids).
Hypothesis Hc : mcomplete M (map snd ids).
Hypothesis Hs : msymmetric M (map snd ids).

Lemma ids_snd_neq ia jb : In ia ids -> In jb ids -> fst ia <> fst jb -> snd ia <> snd jb.
Proof.
  intros Ha Hb Hn E. apply Hn. clear Hn.
  revert Ha Hb. clear - Ns E. induction ids as [|x l IH]; [intros []|].
  simpl in Ns. inversion Ns as [|? ? Hx Ns']; subst. intros [Ha|Ha] [Hb|Hb].
  - congruence.
  - subst x. exfalso. apply Hx. rewrite E. apply in_map. exact Hb.
  - subst x. exfalso. apply Hx. rewrite <- E. apply in_map. exact Ha.
  - apply IH; assumption.
Qed.

Definition nrow (ia : Z * Z) (l : list (Z * Z)) : dict Q :=
  flat_map (fun jb => if Z.eqb (fst ia) (fst jb) then [] else [(fst jb, mval M (snd ia) (snd jb))]) l.

Lemma nrow_dget ia l jb : NoDup (map fst l) -> In jb l -> fst ia <> fst jb ->
  dget (fst jb) (nrow ia l) = Some (mval M (snd ia) (snd jb)).
Proof.
  induction l as [|x l IH]; intros N H Hn; [destruct H|]. simpl in N. inversion N as [|? ? Hx N']; subst.
  unfold nrow. simpl. fold (nrow ia l). destruct H as [->|H].
  - assert (Z.eqb (fst ia) (fst jb) = false) as -> by (apply Z.eqb_neq; exact Hn). simpl. rewrite Z.eqb_refl. reflexivity.
  - destruct (Z.eqb (fst ia) (fst x)); simpl.
    + apply IH; assumption.
    + destruct (Z.eqb (fst jb) (fst x)) eqn:E; [|apply IH; assumption].
      apply Z.eqb_eq in E. exfalso. apply Hx. rewrite <- E. apply in_map. exact H.
Qed.

Lemma nrow_sum ia l :
  map snd (nrow ia l) = map (fun jb => mval M (snd ia) (snd jb)) (filter (fun jb => negb (Z.eqb (fst jb) (fst ia))) l).
Proof.
  induction l as [|x l IH]; [reflexivity|]. unfold nrow. simpl. fold (nrow ia l). rewrite (Z.eqb_sym (fst x) (fst ia)).
  destruct (Z.eqb (fst ia) (fst x)); simpl; rewrite IH; reflexivity.
Qed.

Definition nmk (ia : Z * Z) : jnode :=
  mkJ (QT (fst ia) (Some (snd ia)) None []) (nrow ia ids)
      (Qred (fold_left (fun acc kv => (acc + snd kv)%Q) (nrow ia ids) 0%Q)).

Lemma nj_init_eval order : ids = combine (map Z.of_nat (seq 0 (length order))) order ->
  nj_init M order = Ok (map nmk ids).
Proof.
  intro E. unfold nj_init. rewrite <- E. apply res_map_map. intros ia Ha.
  rewrite (res_map_map _ (fun jb => if Z.eqb (fst ia) (fst jb) then None else Some (fst jb, mval M (snd ia) (snd jb)))).
  - cbn [bind]. unfold nmk, nrow. rewrite flat_map_map. f_equal. f_equal.
    + apply flat_map_ext. intro jb. destruct (Z.eqb (fst ia) (fst jb)); reflexivity.
    + f_equal. f_equal. apply flat_map_ext. intro jb. destruct (Z.eqb (fst ia) (fst jb)); reflexivity.
  - intros jb Hb. destruct (Z.eqb (fst ia) (fst jb)) eqn:E1; [reflexivity|]. apply Z.eqb_neq in E1.
    rewrite mget_mval; [reflexivity|]. apply Hc; try (apply in_map; assumption). apply ids_snd_neq; assumption.
Qed.

Lemma nmk_jd ia jb : In jb ids -> fst ia <> fst jb -> jd (nmk ia) (nmk jb) = mval M (snd ia) (snd jb).
Proof.
  intros Hb Hn. unfold jd, qdef. change (j_id (nmk jb)) with (fst jb). change (j_d (nmk ia)) with (nrow ia ids).
  rewrite (nrow_dget ia ids jb Nf Hb Hn). reflexivity.
Qed.

Lemma nj_init_wf : jwf (map nmk ids).
Proof.
  assert (Ej : map j_id (map nmk ids) = map fst ids) by (rewrite map_map; reflexivity).
  split; [|split; [|split]].
  - unfold jids. rewrite Ej. exact Nf.
  - intros u v Hu Hv Huv. apply in_map_iff in Hu. destruct Hu as [ia [<- Ha]].
    apply in_map_iff in Hv. destruct Hv as [jb [<- Hb]]. change (fst ia <> fst jb) in Huv.
    change (dmem (fst jb) (nrow ia ids) = true). unfold dmem. rewrite (nrow_dget ia ids jb Nf Hb Huv). reflexivity.
  - intros u v Hu Hv Huv. apply in_map_iff in Hu. destruct Hu as [ia [<- Ha]].
    apply in_map_iff in Hv. destruct Hv as [jb [<- Hb]]. change (fst ia <> fst jb) in Huv.
    rewrite (nmk_jd ia jb Hb Huv), (nmk_jd jb ia Ha) by congruence.
    apply Hs; try (apply in_map; assumption). apply ids_snd_neq; assumption.
  - intros u Hu. apply in_map_iff in Hu. destruct Hu as [ia [<- Ha]].
    change (j_xsub (nmk ia)) with (Qred (fold_left (fun acc kv => (acc + snd kv)%Q) (nrow ia ids) 0%Q)).
    rewrite Qred_correct, (fold_left_qsum (fun kv : Z * Q => snd kv)), Qplus_0_l, nrow_sum.
    unfold jothers. change (j_id (nmk ia)) with (fst ia). rewrite filter_map_comm, map_map.
    apply qsum_ext. intros jb Hb. apply filter_In in Hb. destruct Hb as [Hb Hn].
    change (j_id (nmk jb)) with (fst jb) in Hn. apply negb_true_iff in Hn. apply Z.eqb_neq in Hn.
    rewrite (nmk_jd ia jb Hb) by congruence. reflexivity.
Qed.

End Init.

Section UInit.
Variables (M : tbl Q) (ids : list (Z * Z)).
Hypothesis Nf : NoDup (map fst ids).
Hypothesis Ns : NoDup (map snd ids).
Hypothesis Hc : mcomplete M (map snd ids).

Definition uent (ia jb : Z * Z) : Q :=
  if fst ia <? fst jb then mval M (snd ia) (snd jb) else mval M (snd jb) (snd ia).

Definition urow (ia : Z * Z) (l : list (Z * Z)) : dict Q :=
  flat_map (fun jb => if Z.eqb (fst ia) (fst jb) then [] else [(fst jb, uent ia jb)]) l.

Lemma urow_dmem ia l jb : In jb l -> fst ia <> fst jb -> dmem (fst jb) (urow ia l) = true.
Proof.
  induction l as [|x l IH]; intros H Hn; [destruct H|].
  unfold urow. simpl. fold (urow ia l). apply dmem_In. rewrite dkeys_app. apply in_app_iff. destruct H as [->|H].
  - left. assert (Z.eqb (fst ia) (fst jb) = false) as -> by (apply Z.eqb_neq; exact Hn). left. reflexivity.
  - right. apply dmem_In. apply IH; assumption.
Qed.

Definition umk (ia : Z * Z) : unode := mkU (QT (fst ia) (Some (snd ia)) None []) 1 0%Q (urow ia ids).

Lemma upgma_init_eval order : ids = combine (map Z.of_nat (seq 0 (length order))) order ->
  upgma_init M order = Ok (map umk ids).
Proof.
  intro E. unfold upgma_init. rewrite <- E. apply res_map_map. intros ia Ha.
  rewrite (res_map_map _ (fun jb => if Z.eqb (fst ia) (fst jb) then None else Some (fst jb, uent ia jb))).
  - cbn [bind]. unfold umk, urow. rewrite flat_map_map. f_equal. f_equal.
    apply flat_map_ext. intro jb. destruct (Z.eqb (fst ia) (fst jb)); reflexivity.
  - intros jb Hb. destruct (Z.eqb (fst ia) (fst jb)) eqn:E1; [reflexivity|]. apply Z.eqb_neq in E1.
    pose proof (ids_snd_neq ids Ns ia jb Ha Hb E1) as Sn. unfold uent.
    destruct (fst ia <? fst jb).
    + rewrite mget_mval; [reflexivity|]. apply Hc; try (apply in_map; assumption). exact Sn.
    + rewrite mget_mval; [reflexivity|]. apply Hc; try (apply in_map; assumption). congruence.
Qed.

Lemma upgma_init_wf : uwf (map umk ids).
Proof.
  split; [|split].
  - unfold uids. rewrite map_map. exact Nf.
  - intros u v Hu Hv Huv. apply in_map_iff in Hu. destruct Hu as [ia [<- Ha]].
    apply in_map_iff in Hv. destruct Hv as [jb [<- Hb]]. change (fst ia <> fst jb) in Huv.
    change (dmem (fst jb) (urow ia ids) = true). apply urow_dmem; assumption.
  - intros u Hu. apply in_map_iff in Hu. destruct Hu as [ia [<- Ha]]. simpl. lia.
Qed.
End UInit.

(* ---------- nj_tree / upgma_tree never run out of fuel and never fail on a complete matrix ---------- *)
Lemma combine_fst {A B} (l1 : list A) (l2 : list B) : length l1 = length l2 -> map fst (combine l1 l2) = l1.
Proof.
  revert l2. induction l1 as [|a l1 IH]; intros [|b l2] H; simpl in *; try discriminate; try reflexivity.
  f_equal. apply IH. lia.
Qed.

Lemma combine_snd {A B} (l1 : list A) (l2 : list B) : length l1 = length l2 -> map snd (combine l1 l2) = l2.
Proof.
  revert l2. induction l1 as [|a l1 IH]; intros [|b l2] H; simpl in *; try discriminate; try reflexivity.
  f_equal. apply IH. lia.
Qed.

Lemma ids_facts (order : list Z) :
  let ids := combine (map Z.of_nat (seq 0 (length order))) order in
  map fst ids = map Z.of_nat (seq 0 (length order)) /\ map snd ids = order /\
  NoDup (map fst ids) /\ length ids = length order /\
  forall i, In i (map fst ids) -> i < Z.of_nat (length order).
Proof.
  intro ids. assert (L : length (map Z.of_nat (seq 0 (length order))) = length order) by (rewrite map_length, seq_length; reflexivity).
  assert (F : map fst ids = map Z.of_nat (seq 0 (length order))) by (apply combine_fst; exact L).
  split; [exact F|]. split; [apply combine_snd; exact L|]. split; [|split].
  - rewrite F. apply FinFun.Injective_map_NoDup; [intros a b; apply Nat2Z.inj | apply seq_NoDup].
  - unfold ids. rewrite combine_length, L. apply Nat.min_id.
  - intros i Hi. rewrite F in Hi. apply in_map_iff in Hi. destruct Hi as [k [<- Hk]]. apply in_seq in Hk. lia.
Qed.

Lemma nj_tree_total_l M order :
  NoDup order -> order <> [] -> mcomplete M order -> msymmetric M order ->
  exists T, nj_tree M order = Ok T.
Proof.
  intros N Ne Hc Hs. destruct (ids_facts order) as [F [S0 [Nf [Li Fr]]]].
  set (ids := combine (map Z.of_nat (seq 0 (length order))) order) in *.
  assert (Ns : NoDup (map snd ids)) by (rewrite S0; exact N).
  assert (Hc' : mcomplete M (map snd ids)) by (rewrite S0; exact Hc).
  assert (Hs' : msymmetric M (map snd ids)) by (rewrite S0; exact Hs).
  unfold nj_tree. rewrite (nj_init_eval M ids Ns Hc' order eq_refl). cbn [bind].
  apply nj_loop_total.
  - apply nj_init_wf; assumption.
  - rewrite map_length, Li. reflexivity.
  - rewrite map_length, Li. lia.
  - rewrite map_length, Li. destruct order; [congruence | simpl; lia].
  - intros i Hi. unfold jids in Hi. rewrite map_map in Hi. apply Fr. exact Hi.
Qed.

Lemma upgma_tree_total_l M order :
  NoDup order -> order <> [] -> mcomplete M order ->
  exists T, upgma_tree M order = Ok T.
Proof.
  intros N Ne Hc. destruct (ids_facts order) as [F [S0 [Nf [Li Fr]]]].
  set (ids := combine (map Z.of_nat (seq 0 (length order))) order) in *.
  assert (Ns : NoDup (map snd ids)) by (rewrite S0; exact N).
  assert (Hc' : mcomplete M (map snd ids)) by (rewrite S0; exact Hc).
  unfold upgma_tree. rewrite (upgma_init_eval M ids Ns Hc' order eq_refl). cbn [bind].
  apply upgma_loop_total.
  - apply upgma_init_wf; assumption.
  - rewrite map_length, Li. lia.
  - rewrite map_length, Li. destruct order; [congruence | simpl; lia].
  - intros i Hi. unfold uids in Hi. rewrite map_map in Hi. apply Fr. exact Hi.
Qed.
