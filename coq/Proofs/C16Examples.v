(* C16 - concrete instances: the hypotheses of the theorems are satisfiable on non-trivial data,
   and what the transcribed code does outside the property's quantifier. *)
From Coq Require Import ZArith List Bool Lia.
From DV Require Import Model.PyPrims Model.Tree Model.C16Model Proofs.C16Fitch Proofs.C16Link Proofs.C16Top.
Import ListNotations.
Open Scope Z_scope.

Definition lf (i x : Z) : tree := T i (Some x) None None [].
Definition nd (i : Z) (ks : list tree) : tree := T i None None None ks.

(* ((t0,t1),(t2,t3)) *)
Definition ex_tree : tree := nd 0 [nd 1 [lf 2 0; lf 3 1]; nd 4 [lf 5 2; lf 6 3]].
(* (t0,(t1,(t2,t3))) : the root moved, and ((t3,t2),(t1,t0)) : children swapped *)
Definition ex_tree_rr : tree := nd 10 [lf 12 0; nd 11 [lf 13 1; nd 14 [lf 15 2; lf 16 3]]].
Definition ex_tree_sw : tree := nd 0 [nd 4 [lf 6 3; lf 5 2]; nd 1 [lf 3 1; lf 2 0]].

(* DNA: A C G T - ? N R Y  as (fundamental_indexes, ..._with_gaps_as_missing) *)
Definition ex_dna : alphabet := [(1,1); (2,2); (4,4); (8,8); (16,15); (31,15); (15,15); (5,5); (10,10)].

Definition ex_m1 : cmatrix := [(0, [0;0;4]); (1, [0;0;0]); (2, [0;0;4]); (3, [0;0;0])].
Definition ex_m2 : cmatrix := [(0, [0;1;7]); (1, [1;0;4]); (2, [2;3;1]); (3, [3;2;5])].

Definition ex_c1 := mkCall (ParsimonyScore true) ex_dna true ex_m1 None true.
Definition ex_c2 := mkCall (ParsimonyScore true) ex_dna true ex_m2 (Some [1; 2; 5]) true.
Definition ex_c2_gaps := mkCall (ParsimonyScore true) ex_dna false ex_m2 (Some [1; 2; 5]) true.

(* gaps as missing: '-' becomes the full set {A,C,G,T}; otherwise a fifth state *)
Example ex_map_gam : call_map ex_c2 = [(0, [1;2;5]); (1, [2;1;15]); (2, [4;8;2]); (3, [8;4;15])].
Proof. reflexivity. Qed.
Example ex_map_gaps : call_map ex_c2_gaps = [(0, [1;2;5]); (1, [2;1;16]); (2, [4;8;2]); (3, [8;4;31])].
Proof. reflexivity. Qed.

Example ex_hyps :
  binary ex_tree /\ NoDup (ids ex_tree) /\ covers (call_map ex_c2) 3 ex_tree /\
  Forall (fun row => length (snd row) = 3%nat) (call_map ex_c2) /\ weights_ok (k_weights ex_c2) 3 /\
  (forall i, (i < 3)%nat -> leaves_ok 4 (column (call_map ex_c2) i) ex_tree) /\
  (forall i, (i < 3)%nat -> 0 <= weight_at (k_weights ex_c2) i).
Proof.
  split; [simpl; tauto|]. split.
  { unfold ids. simpl. repeat constructor; simpl; intuition discriminate. }
  split; [simpl; repeat split; eexists; split; reflexivity|].
  split; [repeat constructor|]. split; [simpl; lia|]. split.
  - intros i Hi. destruct i as [|[|[|i]]]; try lia; cbv; repeat split; reflexivity.
  - intros i Hi. destruct i as [|[|[|i]]]; try lia; cbv; discriminate.
Qed.

(* the history [M1; M2] of DESIGN 5.3 (F11): the second call gives what a fresh tree gives *)
Example ex_history :
  map result_of (run_history ex_tree [] [ex_c1; ex_c2]) =
  [(Ok 0, Some [0; 0; 0]); (Ok 14, Some [3; 6; 5])] /\
  map result_of (run_history ex_tree [] [ex_c2]) = [(Ok 14, Some [3; 6; 5])].
Proof. split; reflexivity. Qed.

Example ex_gaps_new_state :
  map result_of (run_history ex_tree [] [ex_c2_gaps]) = [(Ok 19, Some [3; 6; 10])].
Proof. reflexivity. Qed.

Example ex_per_character :
  map (fun i => fitch1 (column (call_map ex_c2) i) ex_tree) [0%nat; 1%nat; 2%nat] = [(15, 3); (15, 3); (7, 1)].
Proof. reflexivity. Qed.

(* a concrete optimal assignment for character 0 (root A; internal nodes A and G) *)
Example ex_assignment :
  let a := AT 0 [AT 0 [AT 0 []; AT 1 []]; AT 2 [AT 2 []; AT 3 []]] in
  fits (column (call_map ex_c2) 0) a ex_tree /\ in_range 4 a /\ changes a = 3.
Proof. simpl. unfold column. simpl. repeat split; lia. Qed.

Example ex_sankoff :
  map (cost 4 (column (call_map ex_c2) 0) ex_tree) [0; 1; 2; 3] = [Fin 3; Fin 3; Fin 3; Fin 3] /\
  map (cost 4 (column (call_map ex_c2) 2) ex_tree) [0; 1; 2; 3] = [Fin 1; Fin 1; Fin 1; Fin 2].
Proof. split; reflexivity. Qed.

(* re-rooted and child-swapped copies *)
Example ex_reroot_eq : reroot_eq ex_tree ex_tree_rr.
Proof.
  unfold ex_tree, ex_tree_rr, nd.
  eapply rr_trans.
  - apply rr_sym. apply (rr_move 0 None None None 4 None None None 0 None None None 1 None None None (lf 2 0) (lf 3 1) (nd 4 [lf 5 2; lf 6 3])).
  - apply rr_swap. unfold nd, lf. repeat constructor.
Qed.

Example ex_swap_eq : swap_eq ex_tree ex_tree_sw.
Proof. unfold ex_tree, ex_tree_sw, nd, lf. apply sw_swap; apply sw_swap; constructor. Qed.

Example ex_reroot_results :
  map result_of (run_history ex_tree_rr [] [ex_c1; ex_c2]) = map result_of (run_history ex_tree [] [ex_c1; ex_c2]) /\
  map result_of (run_history ex_tree_sw [] [ex_c1; ex_c2]) = map result_of (run_history ex_tree [] [ex_c1; ex_c2]).
Proof. split; reflexivity. Qed.

(* reroot_at really moves the root: onto the edge above t3 (path: second child, second child) *)
Example ex_reroot_at :
  reroot_at 5 [1%nat; 1%nat] ex_tree = nd 0 [lf 6 3; nd 4 [lf 5 2; nd 1 [lf 2 0; lf 3 1]]].
Proof. reflexivity. Qed.

(* ---------- outside the property's quantifier ---------- *)
(* fitch_down_pass called WITHOUT a taxon_state_sets_map re-uses the leaf sets cached on the nodes
   (documented): after scoring M1 it reports M1's score whatever is meant to be scored. *)
Definition ex_nomap := mkCall (DownPass false) ex_dna true ex_m2 None false.
Example ex_history_matters_without_map :
  map result_of (run_history ex_tree [] [ex_c1; ex_nomap]) = [(Ok 0, Some [0; 0; 0]); (Ok 0, None)] /\
  map result_of (run_history ex_tree [] [ex_c2; ex_nomap]) = [(Ok 14, Some [3; 6; 5]); (Ok 7, None)] /\
  map result_of (run_history ex_tree [] [ex_nomap]) = [(Err TypeErr, None)].
Proof. repeat split; reflexivity. Qed.

(* polytomies: children beyond the second are folded in one after the other, so the result is the
   score of one particular resolution and depends on the order of the children; a unifurcation raises *)
Definition ex_star (order : list Z) : tree := nd 0 (map (fun x => lf (x + 1) x) order).
Definition ex_m01 : cmatrix := [(0, [0]); (1, [0]); (2, [1]); (3, [1])].
Definition ex_c01 := mkCall (ParsimonyScore true) ex_dna true ex_m01 None true.
Example ex_polytomy_order :
  map result_of (run_history (ex_star [0; 1; 2; 3]) [] [ex_c01]) = [(Ok 1, Some [1])] /\
  map result_of (run_history (ex_star [0; 2; 1; 3]) [] [ex_c01]) = [(Ok 2, Some [2])].
Proof. split; reflexivity. Qed.

Example ex_unifurcation :
  map result_of (run_history (nd 0 [nd 1 [lf 2 0]; lf 3 1]) [] [ex_c01]) = [(Err ValueErr, Some [0])].
Proof. reflexivity. Qed.
