(* C03 (wave 6, after repair 1c81f78b): Tree.to_outgroup_position in its repaired form
   (HeapOps.to_outgroup_position_r: the outgroup is moved to the front of its parent's child list,
   THEN the tree is re-seeded at that parent) keeps the invariant for EVERY live outgroup node and both
   values of suppress_unifurcations - the two argument classes that broke the old form (outgroup the
   only child of a unifurcating seed; outgroup with exactly one child) included - and so does
   randomly_reorient_r for every pick.  Explicit result: the re-seeded, then suppressed / encoded tree. *)
From Coq Require Import ZArith List Bool Lia Permutation.
From DV Require Import Model.PyPrims Model.Tree Model.Heap Model.HeapOps Model.C03Spec
  Proofs.C03Base Proofs.C03Abs Proofs.C03Local Proofs.C03Prims Proofs.C03Collapse Proofs.C03Suppress
  Proofs.C03Reseed Proofs.C03Order Proofs.C03Ops Proofs.C03Ops2 Proofs.C03PruneLoops Proofs.C03Hist
  Proofs.C03More2 Proofs.C03SetKids Proofs.C03More3 Proofs.C03Hist2.
Import ListNotations.
Open Scope Z_scope.

(* the first half: the outgroup s goes to the front of its parent's child list, nothing else changes *)
Lemma move_front_wf h c p x l e lft s rgt :
  WFt h (plug c (T p x l e (lft ++ s :: rgt))) ->
  parent h (t_id s) = Some p /\
  exists h1, remove_child_plain p (t_id s) h = HOk h1 /\
    WFt (insert_child p 0 (t_id s) h1) (plug c (T p x l e (s :: lft ++ rgt))) /\
    next (insert_child p 0 (t_id s) h1) = next h /\ rooted (insert_child p 0 (t_id s) h1) = rooted h.
Proof.
  intro W.
  pose proof W as [W0 S]. destruct (wr_focus _ _ _ _ _ _ _ W0) as [_ [_ [Fk _]]].
  apply Forall_app in Fk. destruct Fk as [_ Fk]. inversion Fk as [|? ? Rs _]; subst.
  split; [exact (rep_parent h (Some p) s Rs)|].
  destruct (remove_child_plain_wf h c p x l e lft s rgt W0) as [h1 [E1 [W1 [R1 [_ [_ [P1 [P2 P3]]]]]]]].
  exists h1. split; [exact E1|].
  destruct (detached_facts h c p x l e lft s rgt W0) as [Ns [Ds Bs]].
  pose proof (insert_child_attach h1 c p x l e (lft ++ rgt) 0 None s W1 R1 Ns) as W2.
  simpl firstn in W2. simpl skipn in W2. simpl app in W2.
  destruct (insert_child_frame p 0 (t_id s) h1) as [_ [_ [Q1 [Q2 Q3]]]].
  split; [split|split].
  - apply W2; [exact Ds|]. intros j Hj. rewrite P1. apply Bs, Hj.
  - rewrite Q3, P3, <- S, !plug_id. reflexivity.
  - rewrite Q1, P1. reflexivity.
  - rewrite Q2, P2. reflexivity.
Qed.

Lemma to_outgroup_r_ctx ub su h c p x l e lft s rgt :
  WFt h (plug c (T p x l e (lft ++ s :: rgt))) ->
  exists h', to_outgroup_position_r (t_id s) ub su h = HOk h' /\
    WFt h' (spec_encode su false (not_rooted h) (reroot c (T p x l e (s :: lft ++ rgt)))) /\
    next h' = next h /\ rooted_ok h h'.
Proof.
  intro W. unfold to_outgroup_position_r.
  destruct (move_front_wf h c p x l e lft s rgt W) as [Pp [h1 [E1 [W2t [N2 R2]]]]].
  rewrite Pp, E1. simpl hbind.
  set (h2 := insert_child p 0 (t_id s) h1) in *.
  destruct (reseed_at_wf ub false su h2 c (T p x l e (s :: lft ++ rgt)) W2t) as [h' [E' [W' [N' R']]]].
  { left. discriminate. }
  simpl t_id in E'. exists h'. split; [exact E'|].
  assert (Enr : not_rooted h2 = not_rooted h) by (unfold not_rooted; rewrite R2; reflexivity).
  rewrite Enr in W'. split; [exact W'|]. split; [rewrite N', N2; reflexivity|].
  unfold rooted_ok in *. rewrite R2 in R'. exact R'.
Qed.

Theorem to_outgroup_r_ends (og : Z) (ub su : bool) (h : heap) :
  WF h -> live h og -> ends_wf (to_outgroup_position_r og ub su h).
Proof.
  intros [t W] L. pose proof (live_in h t og W L) as Hn.
  destruct (find_ctx t og Hn) as [c [s [-> Es]]]. subst og.
  destruct c as [|c' p x l e lft rgt].
  - (* the seed: assert p is not None *)
    unfold to_outgroup_position_r. destruct W as [[R N] S]. simpl in R. rewrite (rep_parent h None s R).
    exists h. split; [exists s; split; [split; assumption|exact S]|]. right. exists AssertErr. reflexivity.
  - simpl plug in W. destruct (to_outgroup_r_ctx ub su h c' p x l e lft s rgt W) as [h' [E [W' _]]].
    exists h'. split; [eapply WFt_WF, W'|left; exact E].
Qed.

Theorem randomly_reorient_r_ends (pick : nat) (perms : list (list nat)) (ub : bool) (h : heap) :
  WF h -> randomly_reorient_r pick perms ub h <> HFuel -> ends_wf (randomly_reorient_r pick perms ub h).
Proof.
  intros [t W] NF. unfold randomly_reorient_r in *. rewrite (with_sub_seed h t _ W) in *.
  destruct (nth_error (pre_ids t) pick) as [nd|] eqn:En; [|congruence].
  assert (Hn : In nd (ids t)) by (eapply nth_error_In; exact En).
  assert (ROT : forall h1, WF h1 -> randomly_rotate perms h1 <> HFuel -> ends_wf (randomly_rotate perms h1)).
  { intros h1 W1 NF1. destruct (randomly_rotate_finishes perms h1 W1) as [F|F]; [contradiction|]. eapply finishes_ends, F. }
  destruct (is_internal h nd).
  - destruct (find_ctx t nd Hn) as [c [s [-> Es]]]. subst nd.
    destruct (reseed_at_any ub true true h c s W) as [h1 [t1 [E1 [W1 _]]]].
    rewrite E1 in *. simpl hbind in *. apply ROT; [eapply WFt_WF, W1|exact NF].
  - assert (L : live h nd) by (exists t; split; [apply abs_WFt, W|exact Hn]).
    destruct (to_outgroup_r_ends nd ub true h (ex_intro _ t W) L) as [h1 [W1 [E|[e E]]]]; rewrite E in *; simpl hbind in *.
    + apply ROT; assumption.
    + exists h1. split; [exact W1|right; exists e; reflexivity].
Qed.

(* the two argument classes of the former findings, on the repaired form: well formed, no exception *)
Example to_outgroup_r_former_classes :
  (exists h', to_outgroup_position_r 1 false true
                (of_tree (T 0 None None None [T 1 None None (Some 1024) [og_leaf 2; og_leaf 3]]) None) = HOk h' /\
              abs h' = Some (T 1 None None (Some 1024) [og_leaf 2; og_leaf 3])) /\
  (exists h', to_outgroup_position_r 2 false true
                (of_tree (T 0 None None None [og_leaf 1; T 2 None None (Some 1024) [T 3 None None (Some 1024) [og_leaf 4; og_leaf 5]]]) None) = HOk h' /\
              abs h' = Some (T 0 None None None [T 3 None None (Some 2048) [og_leaf 4; og_leaf 5]; og_leaf 1])).
Proof. split; eexists; split; vm_compute; reflexivity. Qed.
