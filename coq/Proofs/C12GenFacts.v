(* C12, translator tie: the facts that coq/Gen/CopyGen.v extracts from the source (part 2) against the hand-written
   templates and routes; the memo that the translated populate_memo_for_taxon_namespace_scoped_copy builds
   against the seeds of the model's scoped route. *)
From Coq Require Import ZArith List Bool Lia.
From DV Require Import Model.PyPrims Model.C12Model Model.C12Spec2 Model.C12Shallow Model.C12GenPrims Gen.CopyGen
  Proofs.C12Heap Proofs.C12Wf.
Import ListNotations.
Open Scope Z_scope.

(* the attribute templates computed from the constructors and __copy__ are the templates of Model/C12Shallow.v *)
Theorem gen_templates_eq :
  gen_treelist_template = treelist_template
  /\ gen_matrix_template = matrix_template
  /\ gen_cont_matrix_template = cont_matrix_template.
Proof. repeat split; reflexivity. Qed.

(* DataObject.clone: 0 - copy.copy, 1 - the taxon-namespace-scoped copy, 2 - copy.deepcopy, anything else raises *)
Theorem gen_clone_route_eq : forall d,
  gen_clone_route d = if Z.eqb d 0 then Some CloneShallow else if Z.eqb d 1 then Some CloneScoped
                      else if Z.eqb d 2 then Some CloneDeep else None.
Proof. reflexivity. Qed.

Theorem gen_route_facts :
  gen_tree_copy_is_scoped_copy = true /\ gen_scoped_copy_is_populate_then_annotable_deepcopy = true
  /\ gen_scoped_copy_of_namespace_is_self = true /\ gen_clone_from_is_scoped_deepcopy_then_dict_takeover = true
  /\ gen_namespace_copy_construction_is_seeded_deepcopy = true.
Proof. repeat split; reflexivity. Qed.

(* ---- the seeds of the scoped copy ------------------------------------------------------------------- *)

Lemma populate_loop_spec : forall rec xs s self d, Forall (fun v => exists a, v = R a) xs ->
  exists s', py_populate_memo_loop1 rec s self d xs = Ok s' /\ sh s' = sh s /\ snone s' = snone s /\ sc s' = sc s
    /\ forall k, alookup k (sm s') = if memz k (refs_of xs) then Some k else alookup k (sm s).
Proof.
  intros rec. induction xs as [|v r IH]; intros s self d F.
  - exists s. simpl. auto.
  - inversion F as [|? ? [a E] Fr]; subst. cbn [py_populate_memo_loop1]. change (memo_val s (R a) (R a)) with (memo_set s a a).
    destruct (IH (memo_set s a a) self d Fr) as [s' [E' [A [B [C D]]]]]. exists s'. split; [exact E'|].
    split; [rewrite A; reflexivity|]. split; [rewrite B; reflexivity|]. split; [rewrite C; reflexivity|].
    intros k. rewrite D. simpl refs_of. unfold memz at 2. cbn [existsb app]. fold (memz k (refs_of r)).
    destruct (memz k (refs_of r)); [rewrite orb_true_r; reflexivity|]. rewrite orb_false_r.
    change (sm (memo_set s a a)) with ((a, a) :: sm s). rewrite alookup_cons.
    destruct (k =? a) eqn:Ek; [apply Z.eqb_eq in Ek; subst; reflexivity | reflexivity].
Qed.

(* populate_memo_for_taxon_namespace_scoped_copy, as translated, maps exactly the seeds of the model's scoped route
   (ns_seeds: the namespace and its taxa) to themselves and leaves the rest of memo, the heap and the None flag
   alone.  (Hypotheses: the namespace has a `_taxa` list of objects.) *)
Theorem gen_populate_memo_seeds : forall rec s ns ob lt,
  hget (sh s) ns = Some ob -> bget (obody ob) NM_TAXA = Some (R lt) ->
  Forall (fun v => exists a, v = R a) (values (body_of s lt)) ->
  exists s', py_populate_memo rec s ns = Ok s' /\ sh s' = sh s /\ snone s' = snone s /\ sc s' = sc s
    /\ forall k, alookup k (sm s') = if memz k (ns_seeds (sh s) ns) then Some k else alookup k (sm s).
Proof.
  intros rec s ns ob lt G B F. unfold py_populate_memo, g_dict_items, g_snap_get, g_iter_list.
  assert (BD : body_of s ns = obody ob) by (unfold body_of; rewrite G; reflexivity).
  rewrite BD, B. cbn [bind]. change (body_of (memo_set s ns ns) lt) with (body_of s lt).
  destruct (populate_loop_spec rec (values (body_of s lt)) (memo_set s ns ns) ns (obody ob) F) as [s' [E [A [B' [C D]]]]].
  rewrite E. cbn [bind]. exists s'. split; [reflexivity|]. split; [exact A|]. split; [exact B'|]. split; [exact C|].
  intros k. rewrite D. unfold ns_seeds. rewrite G, B. unfold body_of. 
  destruct (hget (sh s) lt) as [l|]; cbn [memz existsb].
  - fold (memz k (refs_of (values (obody l)))). destruct (memz k (refs_of (values (obody l)))); [rewrite orb_true_r; reflexivity|].
    rewrite orb_false_r. simpl.
    destruct (k =? ns) eqn:Ek; [apply Z.eqb_eq in Ek; subst; reflexivity | reflexivity].
  - simpl. rewrite orb_false_r.
    destruct (k =? ns) eqn:Ek; [apply Z.eqb_eq in Ek; subst; reflexivity | reflexivity].
Qed.

(* started from the empty memo (memo=None), the memo is the seeded memo of run (RScoped ns), as a map *)
Corollary gen_populate_memo_is_seed_memo : forall rec nf h ns ob lt,
  hget h ns = Some ob -> bget (obody ob) NM_TAXA = Some (R lt) ->
  Forall (fun v => exists a, v = R a) (values (body_of (init_st nf h []) lt)) ->
  exists s', py_populate_memo rec (init_st nf h []) ns = Ok s' /\ sh s' = h /\ snone s' = nf /\ sc s' = []
    /\ forall k, alookup k (sm s') = alookup k (sm (init_st nf h (ns_seeds h ns))).
Proof.
  intros rec nf h ns ob lt G B F.
  destruct (gen_populate_memo_seeds rec (init_st nf h []) ns ob lt G B F) as [s' [E [A [B' [C D]]]]].
  exists s'. split; [exact E|]. split; [exact A|]. split; [exact B'|]. split; [exact C|].
  intros k. rewrite D. change (sh (init_st nf h [])) with h. change (sm (init_st nf h [])) with (@nil (Z * Z)).
  change (sm (init_st nf h (ns_seeds h ns))) with (seed_memo (ns_seeds h ns)). cbn [alookup].
  destruct (memz k (ns_seeds h ns)) eqn:M.
  - apply memz_In in M. symmetry. apply alookup_seed_in. exact M.
  - destruct (alookup k (seed_memo (ns_seeds h ns))) as [y|] eqn:AL; [|reflexivity].
    apply alookup_seed in AL. destruct AL as [_ I]. apply memz_In in I. congruence.
Qed.
