(* C13: the statements about the actual routes, assembled. *)
From Coq Require Import ZArith List Bool Lia.
From DV Require Import Model.PyPrims Model.C13Model Proofs.C13Lists Proofs.C13Lockstep Proofs.C13Suffix
  Proofs.C13Blocks Proofs.C13Routes Proofs.C13Attach Proofs.C13Newick Proofs.C13Namespace.
Import ListNotations.
Open Scope Z_scope.

Section Final.
Variable T : Type.
Variables lower upper : str -> str.
Variable parse_tree : mapper -> tz -> res (option T * mapper * tz).
Variable set_label : T -> option str -> T.
Variable add_comments : T -> list str -> T.
Variable vl : bool.
Variable vs : bool.
Variables va vk : bool.

Hypothesis parse_tree_suf : forall m z ot m' z',
  parse_tree m z = Ok (ot, m', z') -> suf (z_toks z') (z_toks z).
Hypothesis upper_idem : forall s, upper (upper s) = upper s.

Notation NR := (nexus_read T lower upper parse_tree set_label add_comments vl vs).
Notation NY := (nexus_yield T lower upper parse_tree set_label add_comments vl).
Notation TLR := (treelist_read T lower upper parse_tree set_label add_comments va vl vs).
Notation YFF := (yield_from_files T lower upper parse_tree set_label add_comments vl).
Notation RB := (read_blocks T lower upper parse_tree set_label add_comments vl vs).
Notation ROY := (nexus_read_of_yield T lower upper parse_tree set_label add_comments vl vs parse_tree_suf upper_idem).

(* the two-implementation theorem, any configuration *)
Lemma nexus_loops_agree_l : forall (nc : nscfg) (tlf : tl_factory) (ns0 : list str) (d : doc),
  SetsOk upper vs (fst d) ->
  let Y := y_items_from_stream T lower upper parse_tree set_label add_comments vl nc false
                               (doc_fuel d) (core_init nc ns0 d) (regs_init nc) in
  match snd Y with
  | Ok (k', g') =>
    exists s, NR (mkCfg nc tlf) ns0 d = Ok s /\ r_k s = k' /\ r_g s = g'
              /\ match tlf with
                 | TLFixed => rs_list0 T s = fst Y
                 | TLNew => concat (rs_blocks T s) = fst Y
                 end
  | Err e => NR (mkCfg nc tlf) ns0 d = Err e
  | OutOfFuel => NR (mkCfg nc tlf) ns0 d = OutOfFuel
  end.
Proof. intros nc tlf ns0 d N. exact (ROY nc tlf ns0 d N). Qed.

(* the unattached reader succeeded: the iterator under the same configuration did too *)
Lemma nr_ok_yield : forall nc tlf ns0 d s,
  SetsOk upper vs (fst d) -> NR (mkCfg nc tlf) ns0 d = Ok s ->
  exists g', NY nc ns0 d = (match tlf with TLFixed => rs_list0 T s | TLNew => concat (rs_blocks T s) end,
                            Ok (r_k s, g')).
Proof.
  intros nc tlf ns0 d s N H. pose proof (ROY nc tlf ns0 d N) as R.
  destruct (NY nc ns0 d) as [out r]. simpl fst in *. simpl snd in *.
  destruct r as [[k' g']|e|]; try congruence.
  destruct R as [s' [E [K [G F]]]]. rewrite H in E. inversion E; subst s'.
  exists g'. rewrite <- K. destruct tlf; rewrite F; reflexivity.
Qed.

(* from the list route's configuration to the attached one *)
Lemma yield_attached : forall a1 sl fac ns0 d out k' g1',
  NY (mkNsCfg a1 (FacFixed sl)) ns0 d = (out, Ok (k', g1')) ->
  NY (mkNsCfg true fac) ns0 d = (out, Ok (k', mkRegs (if has_ns0 (mkNsCfg true fac) then [None] else []) [])).
Proof.
  intros a1 sl fac ns0 d out k' g1' H. unfold nexus_yield in *.
  assert (I : inv (regs_init (mkNsCfg a1 (FacFixed sl)))) by (unfold inv; simpl; constructor).
  pose proof (y_items_12 T lower upper parse_tree set_label add_comments vl a1 sl fac false (doc_fuel d)
                (core_init (mkNsCfg a1 (FacFixed sl)) ns0 d) (regs_init (mkNsCfg a1 (FacFixed sl)))
                (regs_init (mkNsCfg true fac)) I) as R.
  unfold yrel in R. rewrite H in R. destruct R as [R _].
  assert (EC : core_init (mkNsCfg a1 (FacFixed sl)) ns0 d = core_init (mkNsCfg true fac) ns0 d).
  { unfold core_init, has_ns0. simpl. destruct fac; reflexivity. }
  rewrite <- EC. rewrite R. reflexivity.
Qed.

(* routes_agree_nexus: TreeList.get / .read succeeds -> the iterator is complete and equal *)
Lemma routes_agree_nexus_l : forall (ns0 : list str) (d : doc) ts ns,
  SetsOk upper vs (fst d) ->
  TLR Nexus ns0 d = Ok (ts, ns) -> YFF Nexus ns0 d = (ts, Ok ns).
Proof.
  intros ns0 d ts ns N H. unfold treelist_read in H.
  destruct (NR (cfg_list va) ns0 d) as [s|e|] eqn:E; cbn [bind] in H; try discriminate.
  inversion H; subst; clear H.
  destruct (nr_ok_yield (c_ns (cfg_list va)) TLFixed ns0 d s N E) as [g' HY].
  apply (yield_attached va true (FacFixed false)) in HY.
  rewrite yield_from_files_nexus. unfold cfg_yield at 1 2. cbn [c_ns].
  unfold nexus_yield in HY. unfold cfg_list in HY. cbn [c_ns] in HY.
  unfold nexus_yield. unfold cfg_yield. cbn [c_ns]. rewrite HY. reflexivity.
Qed.

(* TreeList.get succeeds -> DataSet.get(taxon_namespace=ns) succeeds with the same trees, grouped *)
Lemma dataset_attached_l : forall (d : doc) ts ns,
  SetsOk upper vs (fst d) ->
  TLR Nexus [] d = Ok (ts, ns) ->
  exists blocks, dataset_get T lower upper parse_tree set_label add_comments vl vs Nexus true d = Ok blocks
                 /\ concat blocks = ts.
Proof.
  intros d ts ns N H. unfold treelist_read in H.
  destruct (NR (cfg_list va) [] d) as [s|e|] eqn:E; cbn [bind] in H; try discriminate.
  inversion H; subst; clear H.
  destruct (nr_ok_yield (c_ns (cfg_list va)) TLFixed [] d s N E) as [g' HY].
  apply (yield_attached va true (FacFixed false)) in HY.
  pose proof (ROY (mkNsCfg true (FacFixed false)) TLNew [] d N) as R.
  unfold cfg_list in HY. cbn [c_ns] in HY. rewrite HY in R. simpl fst in R. simpl snd in R.
  destruct R as [sb [EB [_ [_ FB]]]].
  unfold dataset_get, read_blocks. unfold cfg_yield. rewrite EB. cbn [bind fst].
  eexists. split; [reflexivity | assumption].
Qed.

(* dataset_blocks_concat / offsets: one list per collection vs one list, same namespace handling
   (Tree.get and TreeList.get(collection_offset=..) vs TreeList.get) - exact, both directions *)
Lemma blocks_vs_list_l : forall (d : doc),
  SetsOk upper vs (fst d) ->
  match RB Nexus (cfg_blocks va) [] d with
  | Ok (blocks, ns) => TLR Nexus [] d = Ok (concat blocks, ns)
  | Err e => TLR Nexus [] d = Err e
  | OutOfFuel => TLR Nexus [] d = OutOfFuel
  end.
Proof.
  intros d N. unfold read_blocks, treelist_read.
  pose proof (list_vs_blocks T lower upper parse_tree set_label add_comments vl vs parse_tree_suf upper_idem
                (c_ns (cfg_list va)) [] d N) as H.
  change (mkCfg (c_ns (cfg_list va)) TLNew) with (cfg_blocks va) in H.
  change (mkCfg (c_ns (cfg_list va)) TLFixed) with (cfg_list va) in H.
  destruct (NR (cfg_blocks va) [] d) as [sb|e|]; cbn [bind].
  - destruct H as [sl [EL [F [K G]]]]. rewrite EL. cbn [bind]. unfold rs_ns0. rewrite K, F. reflexivity.
  - rewrite H. reflexivity.
  - rewrite H. reflexivity.
Qed.

(* offset_selection, NEXUS *)
Lemma offset_selection_nexus_l : forall (d : doc),
  SetsOk upper vs (fst d) ->
  forall blocks ns, RB Nexus (cfg_blocks va) [] d = Ok (blocks, ns) ->
  (* the flat list is the concatenation *)
  TLR Nexus [] d = Ok (concat blocks, ns)
  (* Tree.get(c, k) is Python indexing into the collections *)
  /\ (forall c k, tree_get T lower upper parse_tree set_label add_comments va vk vl vs Nexus c k d
                  = select_tree T set_label vk blocks (match c with Some c => c | None => 0 end)
                                (match k with Some k => k | None => 0 end))
  /\ (forall (c k : nat) b t, nth_error blocks c = Some b -> nth_error b k = Some t ->
        tree_get T lower upper parse_tree set_label add_comments va vk vl vs Nexus (Some (Z.of_nat c)) (Some (Z.of_nat k)) d
        = Ok (got_label T set_label vk t)
        /\ nth_error (concat blocks) (length (concat (firstn c blocks)) + k) = Some t)
  (* TreeList.get(collection_offset, tree_offset) is the tail of one collection *)
  /\ (forall c k, (c <> None \/ k <> None) ->
        treelist_get_off T lower upper parse_tree set_label add_comments va vl vs Nexus c k d
        = select_offsets T blocks (match c with Some c => c | None => 0 end) k).
Proof.
  intros d N blocks ns H. pose proof (blocks_vs_list_l d N) as HL. rewrite H in HL.
  split; [assumption|]. split; [|split].
  - intros c k. unfold tree_get. rewrite H. reflexivity.
  - intros c k b t Hc Hk. split.
    + unfold tree_get. rewrite H. cbn [bind fst]. eapply select_tree_nat; eassumption.
    + eapply nth_error_concat; eassumption.
  - intros c k Hck. unfold treelist_get_off. destruct c, k; try (destruct Hck; congruence); rewrite H; reflexivity.
Qed.

(* the full parse failed: every offset route fails the same way *)
Lemma offset_routes_fail_l : forall sch (d : doc) e,
  RB sch (cfg_blocks va) [] d = Err e ->
  (forall c k, tree_get T lower upper parse_tree set_label add_comments va vk vl vs sch c k d = Err e)
  /\ (forall c k, (c <> None \/ k <> None) ->
        treelist_get_off T lower upper parse_tree set_label add_comments va vl vs sch c k d = Err e).
Proof.
  intros sch d e H. split.
  - intros. unfold tree_get. rewrite H. reflexivity.
  - intros c k Hck. unfold treelist_get_off. destruct c, k; try (destruct Hck; congruence); rewrite H; reflexivity.
Qed.

(* TreeArray.read = the iterator's trees from tree_offset on *)
Lemma treearray_l : forall sch k ns0 d,
  treearray_read T lower upper parse_tree set_label add_comments vl sch k ns0 d
  = (skipn (Z.to_nat k) (fst (YFF sch ns0 d)), snd (YFF sch ns0 d)).
Proof. intros. unfold treearray_read. destruct (YFF sch ns0 d). reflexivity. Qed.

(* namespace threading: reads only append to the namespace (Newick) *)
Hypothesis parse_tree_grows : forall m z ot m' z',
  parse_tree m z = Ok (ot, m', z') -> prefix_of (m_ns m) (m_ns m').

Lemma prefix_refl : forall a, prefix_of a a.
Proof. intros a. exists []. rewrite app_nil_r. reflexivity. Qed.
Lemma prefix_trans : forall a b c, prefix_of a b -> prefix_of b c -> prefix_of a c.
Proof. intros a b c [r1 E1] [r2 E2]. exists (r1 ++ r2). subst. rewrite app_assoc. reflexivity. Qed.

Lemma newick_read_loop_grows : forall fuel m z acc ts m' z',
  newick_read_loop T parse_tree fuel m z acc = Ok (ts, m', z') -> prefix_of (m_ns m) (m_ns m').
Proof.
  induction fuel as [|f IH]; intros m z acc ts m' z' H; simpl in H; [discriminate|].
  destruct (parse_tree m z) as [[[ot m1] z1]|e|] eqn:E; cbn [bind] in H; try discriminate.
  apply parse_tree_grows in E. destruct ot.
  - apply IH in H. eapply prefix_trans; eassumption.
  - inversion H; subst. assumption.
Qed.

Lemma newick_read_grows : forall ns0 d ts ns1,
  TLR Newick ns0 d = Ok (ts, ns1) -> prefix_of ns0 ns1.
Proof.
  intros ns0 d ts ns1 H. unfold treelist_read, newick_read in H.
  destruct (newick_read_loop T parse_tree (doc_fuel d) (new_mapper lower ns0 false) (doc_tz d) []) as [[[ts' m'] z']|e|] eqn:E;
    cbn [bind] in H; try discriminate.
  inversion H; subst. apply newick_read_loop_grows in E. exact E.
Qed.

End Final.
