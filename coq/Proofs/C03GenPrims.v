(* C03Gen: the generic Python-list primitives of MutPrims.v at Z.eqb are Heap.v's list functions;
   heap write-after-write lemmas. *)
From Coq Require Import ZArith List Bool Lia.
From DV Require Import Model.PyPrims Model.Tree Model.Heap Model.C15Prims Model.MutPrims Model.C03GenInst
     Proofs.C03Base.
Import ListNotations.
Open Scope Z_scope.

Lemma py_in_memz x l : py_in Z.eqb x l = memz x l.
Proof. induction l as [|y r IH]; simpl; [reflexivity|]. rewrite IH. destruct (Z.eqb x y); reflexivity. Qed.

Lemma py_list_index_of x l : py_list_index Z.eqb x l = index_of x l.
Proof. induction l as [|y r IH]; simpl; [reflexivity|]. rewrite IH. reflexivity. Qed.

Lemma py_remove_first x l :
  py_remove Z.eqb x l = if memz x l then Some (remove_first x l) else None.
Proof.
  induction l as [|y r IH]; simpl; [reflexivity|]. rewrite IH.
  destruct (Z.eqb x y); simpl; [reflexivity|]. destruct (memz x r); reflexivity.
Qed.

Lemma index_of_memz x l : memz x l = match index_of x l with Some _ => true | None => false end.
Proof.
  unfold memz. induction l as [|y r IH]; simpl; [reflexivity|]. destruct (Z.eqb x y); simpl; [reflexivity|].
  rewrite IH. destruct (index_of x r); reflexivity.
Qed.

Lemma py_insert_at (l : list Z) n x : py_insert l (Z.of_nat n) x = insert_at n x l.
Proof.
  unfold py_insert, insert_at.
  destruct (Z.ltb_spec (Z.of_nat n) 0); [lia|].
  destruct (Z.min_spec (Z.of_nat n) (Z.of_nat (length l))) as [[Hlt ->]|[Hge ->]].
  - rewrite Nat2Z.id. reflexivity.
  - rewrite Nat2Z.id. rewrite firstn_all, skipn_all.
    rewrite firstn_all2, skipn_all2 by lia. reflexivity.
Qed.

Lemma py_len_len {A} (l : list A) : py_len l = Z.of_nat (length l).
Proof. reflexivity. Qed.

(* ---- write after write on the same cell ---- *)
Lemma aupd_aupd k v w m : aupd k v (aupd k w m) = aupd k v m.
Proof.
  induction m as [|[a b] r IH]; simpl.
  - rewrite Z.eqb_refl. reflexivity.
  - destruct (Z.eqb k a) eqn:E; simpl.
    + rewrite Z.eqb_refl. reflexivity.
    + rewrite E, IH. reflexivity.
Qed.

Lemma upd_cell_upd_cell i f g h : upd_cell i f (upd_cell i g h) = upd_cell i (fun c => f (g c)) h.
Proof.
  unfold upd_cell at 1. rewrite get_upd_cell, Z.eqb_refl. unfold upd_cell. simpl.
  rewrite aupd_aupd. reflexivity.
Qed.

Lemma set_kids_set_kids i a b h : set_kids i b (set_kids i a h) = set_kids i b h.
Proof. unfold set_kids. rewrite upd_cell_upd_cell. reflexivity. Qed.

Lemma set_parent_set_parent i a b h : set_parent i b (set_parent i a h) = set_parent i b h.
Proof. unfold set_parent. rewrite upd_cell_upd_cell. reflexivity. Qed.

(* ---- reads after writes ---- *)
Lemma parent_set_parent i v h j : parent (set_parent i v h) j = if Z.eqb j i then v else parent h j.
Proof. unfold parent. rewrite get_set_parent. destruct (Z.eqb j i); reflexivity. Qed.

Lemma kids_set_parent i v h j : kids (set_parent i v h) j = kids h j.
Proof.
  unfold kids. rewrite get_set_parent. destruct (Z.eqb_spec j i); [subst; reflexivity|reflexivity].
Qed.

Lemma elen_set_parent i v h j : elen (set_parent i v h) j = elen h j.
Proof.
  unfold elen. rewrite get_set_parent. destruct (Z.eqb_spec j i); [subst; reflexivity|reflexivity].
Qed.

Lemma kids_set_kids i v h j : kids (set_kids i v h) j = if Z.eqb j i then v else kids h j.
Proof. unfold kids. rewrite get_set_kids. destruct (Z.eqb j i); reflexivity. Qed.

Lemma parent_set_kids i v h j : parent (set_kids i v h) j = parent h j.
Proof.
  unfold parent. rewrite get_set_kids. destruct (Z.eqb_spec j i); [subst; reflexivity|reflexivity].
Qed.

Lemma elen_set_kids i v h j : elen (set_kids i v h) j = elen h j.
Proof.
  unfold elen. rewrite get_set_kids. destruct (Z.eqb_spec j i); [subst; reflexivity|reflexivity].
Qed.

Lemma elen_set_elen i v h j : elen (set_elen i v h) j = if Z.eqb j i then v else elen h j.
Proof. unfold elen. rewrite get_set_elen. destruct (Z.eqb j i); reflexivity. Qed.

Lemma kids_set_elen i v h j : kids (set_elen i v h) j = kids h j.
Proof.
  unfold kids. rewrite get_set_elen. destruct (Z.eqb_spec j i); [subst; reflexivity|reflexivity].
Qed.

Lemma parent_set_elen i v h j : parent (set_elen i v h) j = parent h j.
Proof.
  unfold parent. rewrite get_set_elen. destruct (Z.eqb_spec j i); [subst; reflexivity|reflexivity].
Qed.

(* ---- observational equality ---- *)
Lemma heq_refl h : heq h h.
Proof. repeat split. Qed.

Lemma heq_upd_same i (f : cell -> cell) h : f (get h i) = get h i -> heq (upd_cell i f h) h.
Proof.
  intro H. repeat split. intro j. rewrite get_upd_cell.
  destruct (Z.eqb_spec j i); [subst; exact H|reflexivity].
Qed.

Lemma heq_upd_cell i f a b : heq a b -> heq (upd_cell i f a) (upd_cell i f b).
Proof.
  intros [Hs [Hr [Hn Hg]]]. repeat split; simpl; try assumption.
  intro j. rewrite !get_upd_cell, !Hg. destruct (Z.eqb j i); reflexivity.
Qed.

Lemma heq_sym a b : heq a b -> heq b a.
Proof. intros [Hs [Hr [Hn Hg]]]. repeat split; auto. Qed.

Lemma heq_trans a b c : heq a b -> heq b c -> heq a c.
Proof.
  intros [Hs [Hr [Hn Hg]]] [Hs' [Hr' [Hn' Hg']]].
  split; [congruence|split; [congruence|split; [congruence|intro j; rewrite Hg; apply Hg']]].
Qed.

Lemma heq_upd_cell_gen i f a b : heq a b -> heq (upd_cell i f a) (upd_cell i f b).
Proof. apply heq_upd_cell. Qed.

(* ---- the live list iterator coincides with iteration over a snapshot when the body leaves the
        iterated list alone ---- *)
Lemma skipn_nth_some {A} (l : list A) i x : nth_error l i = Some x -> skipn i l = x :: skipn (S i) l.
Proof.
  revert i. induction l as [|y r IH]; intros [|i] H; simpl in *; try discriminate.
  - inversion H. reflexivity.
  - apply IH. exact H.
Qed.

Lemma skipn_nth_none {A} (l : list A) i : nth_error l i = None -> skipn i l = [].
Proof.
  revert i. induction l as [|y r IH]; intros [|i] H; simpl in *; try discriminate; try reflexivity.
  apply IH. exact H.
Qed.

Lemma mfor_live_stable {S X V} (read : S -> list X) (body : X -> V -> S -> mres S (lctl V))
      (l : list X) (P : S -> Prop) :
  (forall s, P s -> read s = l) ->
  (forall x v s v' s', In x l -> P s -> body x v s = MOk (LNext v') s' -> P s') ->
  forall fuel i v s, P s -> (length l - i < fuel)%nat ->
    mfor_live fuel read body i v s = mfor body (skipn i l) v s.
Proof.
  intros Hr Hp. induction fuel as [|fuel IH]; intros i v s HP Hf; [lia|].
  simpl mfor_live. rewrite (Hr s HP).
  destruct (nth_error l i) as [x|] eqn:En.
  - rewrite (skipn_nth_some l i x En). simpl mfor.
    assert (Hin : In x l) by (eapply nth_error_In; exact En).
    assert (Hlt : (i < length l)%nat) by (apply nth_error_Some; rewrite En; discriminate).
    destruct (body x v s) as [[v'|v'] s'|e s'|] eqn:Eb; try reflexivity.
    apply IH; [eapply Hp; eassumption|lia].
  - rewrite (skipn_nth_none l i En). reflexivity.
Qed.
