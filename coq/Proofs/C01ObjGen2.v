(* C01, object-level translator tie, instantiated with the generated compile functions and constructor of
   Gen/Bipartition.v. *)
From Coq Require Import ZArith List Bool Lia.
From DV Require Import Model.PyPrims Model.Tree Gen.BitFns Model.C01Model Model.C01GenPrims Gen.Bipartition
  Model.C01ObjModel Model.C01ObjPrims Gen.BipartitionObj Proofs.C01Bits Proofs.C01Enc Proofs.C01Flags Proofs.C01Gen
  Proofs.C01Obj Proofs.C01ObjGen.
Import ListNotations.
Open Scope Z_scope.

Lemma first_obj_fresh r ls : first_obj r ls = fresh_bip r ls.
Proof. reflexivity. Qed.

Lemma compiled_obj_compiled_bip mut r tm ls : compiled_obj mut tm (first_obj r ls) = compiled_bip mut r tm ls.
Proof. unfold compiled_obj, compiled_bip, first_obj, fresh_bip, init_obj. cbn. destruct (Z.eqb tm 0); reflexivity. Qed.

Lemma gen_compile_on_first_obj (mut : bool) tm r ls :
  (if mut then gen_compile_mutable_bipartition_for_edge else gen_compile_immutable_bipartition_for_edge)
    (Some tm) (first_obj r ls) = Ok (compiled_obj mut tm (first_obj r ls)).
Proof. rewrite compiled_obj_compiled_bip, first_obj_fresh. apply gen_compile_edge. Qed.

(* the constructor as the object level reads it = the generated Bipartition.__init__ *)
Lemma prim_bip_new_gen_init cb mu : gen_init None None None None mu cb = Ok (prim_bip_new cb mu, tt).
Proof. destruct cb as [[[|]|]|]; destruct mu as [[[|]|]|]; reflexivity. Qed.

Lemma ogen_encode_generated_eq su cb ss mut acc s :
  NoDup (map fst (r_edges (encode_f su cb acc (ot_rooted s) (ot_tree s)))) ->
  ogen_encode_bipartitions su cb ss mut acc gen_compile_mutable_bipartition_for_edge
    gen_compile_immutable_bipartition_for_edge s = Ok (obj_encode su cb ss mut acc s).
Proof.
  intro ND. apply ogen_encode_bipartitions_eq; [exact ND | |].
  - intros tm r ls. exact (gen_compile_on_first_obj true tm r ls).
  - intros tm r ls. exact (gen_compile_on_first_obj false tm r ls).
Qed.
