(* C10: the functions generated from the Python source (Gen/Namespace.v) equal the hand-written
   model (Model/C10Model.v, C10ModelExt.v) on well-typed arguments. *)
From Coq Require Import ZArith List Bool Lia String.
From DV Require Import Model.PyPrims Model.C10Model Model.C10ModelExt Model.C10NsPrims Gen.Namespace.
From DV Require Import Proofs.C10Lists.
Import ListNotations.
Open Scope Z_scope.

Definition cs_val (cs : option bool) : pyval := match cs with None => VNone | Some b => VBool b end.

(* result of a state-changing method that returns None *)
Definition lift_ns_v (w : world) (r : res ns) : res (world * pyval) :=
  match r with Ok n => Ok (set_ns w n, VNone) | Err e => Err e | OutOfFuel => OutOfFuel end.

Lemma ns_eta' n : mkNs (taxa n) (acc n) (rev n) (count n) (bm n) (is_mut n) (is_cs n) = n.
Proof. destruct n; reflexivity. Qed.

Lemma world_eta w : mkW (w_ns w) (w_lab w) (w_next w) = w.
Proof. destruct w; reflexivity. Qed.

Lemma py_for_ext {S R} (xs : list pyval) (f g : pyval -> S -> res (ctrl S R)) (s : S) :
  (forall x s', In x xs -> f x s' = g x s') -> py_for xs f s = py_for xs g s.
Proof.
  revert s. induction xs as [|x r IH]; intros s H; [reflexivity|]. cbn [py_for].
  rewrite (H x s) by (left; reflexivity). destruct (g x s) as [[s'|v]| |]; try reflexivity.
  apply IH. intros y s'' Hy. apply H. right. exact Hy.
Qed.

Lemma aremove_idem {V} (k : Z) (l : list (Z * V)) : aremove k (aremove k l) = aremove k l.
Proof.
  induction l as [|[k' v] r IH]; [reflexivity|]. cbn [aremove].
  destruct (Z.eqb k k') eqn:E; [exact IH|]. cbn [aremove]. rewrite E, IH. reflexivity.
Qed.

Ltac eta := unfold set_ns; cbn [w_ns w_lab w_next]; rewrite ?ns_eta', ?world_eta; reflexivity.

Section G.
Variable lower : lbl -> lbl.
Variable casefold : lbl -> lbl.

(* ---------- add_taxon / new_taxon / new_taxa ---------- *)

Theorem gen_add_taxon_l (w : world) (t : tid) :
  py_add_taxon w (VTaxon t) = lift_ns_v w (add_taxon (w_ns w) t).
Proof.
  unfold py_add_taxon, add_taxon, lift_ns_v. cbn.
  destruct (alookup t (acc (w_ns w))); cbn; [eta|].
  destruct (is_mut (w_ns w)); cbn; reflexivity.
Qed.

(* add_taxa(iterable): the generated loop calls the generated add_taxon for every element, in
   order, re-examining membership each time (repeated objects inside one batch included) *)
Theorem gen_add_taxa_l (w : world) (ts : list tid) :
  py_add_taxa w (VList (map VTaxon ts)) = lift_ns_v w (add_taxa (w_ns w) ts).
Proof.
  unfold py_add_taxa. cbn -[py_add_taxon]. revert w.
  induction ts as [|t r IH]; intros w; cbn -[py_add_taxon]; [unfold lift_ns_v; cbn; f_equal; f_equal; eta|].
  rewrite gen_add_taxon_l. unfold lift_ns_v at 1. destruct (add_taxon (w_ns w) t) as [n1| |]; cbn -[py_add_taxon]; try reflexivity.
  rewrite IH. reflexivity.
Qed.

Definition new_taxon_v (w : world) (l : lbl) : res (world * pyval) :=
  match new_taxon w l with Ok (w', t) => Ok (w', VTaxon t) | Err e => Err e | OutOfFuel => OutOfFuel end.

Theorem gen_new_taxon_l (w : world) (l : lbl) : py_new_taxon w (VLabel l) = new_taxon_v w l.
Proof.
  unfold py_new_taxon, new_taxon_v, new_taxon. cbn -[py_add_taxon]. destruct (is_mut (w_ns w)); cbn -[py_add_taxon]; [|reflexivity].
  rewrite gen_add_taxon_l. cbn. destruct (add_taxon (w_ns w) (w_next w)); reflexivity.
Qed.

Definition new_taxa_v (w : world) (ls : list lbl) : res (world * pyval) :=
  if negb (is_mut (w_ns w)) then Err TypeErr
  else match new_taxa w ls [] with
       | Ok (w', ts) => Ok (w', VList (map VTaxon ts)) | Err e => Err e | OutOfFuel => OutOfFuel
       end.

Theorem gen_new_taxa_l (w : world) (ls : list lbl) :
  py_new_taxa w (VList (map VLabel ls)) = new_taxa_v w ls.
Proof.
  unfold py_new_taxa, new_taxa_v. cbn -[py_new_taxon]. destruct (is_mut (w_ns w)); cbn -[py_new_taxon]; [|reflexivity].
  change (@nil pyval) with (map VTaxon []). generalize (@nil tid) as a. revert w.
  induction ls as [|l r IH]; intros w a; cbn -[py_new_taxon]; [reflexivity|].
  rewrite gen_new_taxon_l. unfold new_taxon_v. destruct (new_taxon w l) as [[w1 t]| |]; cbn; try reflexivity.
  replace (map VTaxon a ++ [VTaxon t]) with (map VTaxon (a ++ [t])) by (rewrite map_app; reflexivity).
  apply IH.
Qed.

(* ---------- remove_taxon ---------- *)

Lemma remove_first_all t l : remove_all t (remove_first t l) = remove_all t l.
Proof.
  induction l as [|x r IH]; [reflexivity|]. cbn. destruct (Z.eqb t x) eqn:E; [reflexivity|].
  cbn. rewrite E, IH. reflexivity.
Qed.

Lemma remove_first_length t l : memb t l = true -> S (List.length (remove_first t l)) = List.length l.
Proof.
  induction l as [|x r IH]; cbn; [discriminate|]. destruct (Z.eqb t x); cbn; [reflexivity|].
  intros H. rewrite IH by exact H. reflexivity.
Qed.

Lemma remove_all_nomem t l : memb t l = false -> remove_all t l = l.
Proof.
  induction l as [|x r IH]; cbn; [reflexivity|]. destruct (Z.eqb t x); cbn; [discriminate|].
  intros H. rewrite IH by exact H. reflexivity.
Qed.

(* the loop `while taxon in self._taxa: self._taxa.remove(taxon)` *)
Lemma remove_loop (t : tid) : forall (fuel : nat) (w : world),
  (List.length (taxa (w_ns w)) < fuel)%nat ->
  py_while fuel
    (fun st : world => Ok (memb t (taxa (w_ns st))))
    (fun st : world =>
       do l <- (if memb t (taxa (w_ns st)) then Ok (remove_first t (taxa (w_ns st))) else Err ValueErr) ;;
       Ok (@Next world (world * pyval) (set_taxa st l))) w
  = Ok (Next (set_taxa w (remove_all t (taxa (w_ns w))))).
Proof.
  induction fuel as [|f IH]; intros w H; [lia|]. cbn.
  destruct (memb t (taxa (w_ns w))) eqn:M; cbn.
  - rewrite IH.
    + cbn. rewrite remove_first_all. reflexivity.
    + cbn. pose proof (remove_first_length _ _ M). unfold tid in *. lia.
  - rewrite remove_all_nomem by exact M. unfold set_taxa. rewrite ns_eta', world_eta. reflexivity.
Qed.

Theorem gen_remove_taxon_l (w : world) (t : tid) :
  py_remove_taxon w (VTaxon t) = lift_ns_v w (remove_taxon (w_ns w) t).
Proof.
  unfold py_remove_taxon, remove_taxon, lift_ns_v. cbn [taxa_has bind py_not py_truth].
  destruct (memb t (taxa (w_ns w))) eqn:M; cbn [negb bind]; [|reflexivity].
  cbn [taxa_remove]. rewrite M. cbn [bind].
  rewrite remove_loop by (unfold fuel_len; lia). cbn.
  rewrite remove_first_all.
  destruct (alookup t (acc (w_ns w))) as [i|] eqn:A; cbn.
  - destruct (alookup t (bm (w_ns w))); cbn; rewrite ?aremove_idem; unfold set_acc, set_bm, set_rev, set_taxa, set_ns; cbn; reflexivity.
  - destruct (alookup t (bm (w_ns w))); cbn; rewrite ?aremove_idem; unfold set_acc, set_bm, set_rev, set_taxa, set_ns; cbn; reflexivity.
Qed.

(* ---------- clear / sort / reverse ---------- *)

Theorem gen_clear_l (w : world) :
  py_clear w = Ok (set_ns w (mkNs [] [] [] (count (w_ns w)) [] (is_mut (w_ns w)) (is_cs (w_ns w))), VNone).
Proof. reflexivity. Qed.

Theorem gen_sort_l (w : world) (reverse : bool) :
  py_sort w VNone (VBool reverse)
  = Ok (set_ns w (mkNs (C10Model.py_sort w reverse (taxa (w_ns w))) (acc (w_ns w)) (rev (w_ns w)) (count (w_ns w))
                       (bm (w_ns w)) (is_mut (w_ns w)) (is_cs (w_ns w))), VNone).
Proof. reflexivity. Qed.

Theorem gen_reverse_l (w : world) :
  py_reverse w
  = Ok (set_ns w (mkNs (List.rev (taxa (w_ns w))) (acc (w_ns w)) (rev (w_ns w)) (count (w_ns w))
                       (bm (w_ns w)) (is_mut (w_ns w)) (is_cs (w_ns w))), VNone).
Proof. reflexivity. Qed.

(* ---------- labels / bitmasks ---------- *)

Lemma py_map_taxa (f : pyval -> res pyval) (g : tid -> pyval) (ts : list tid) :
  (forall t, f (VTaxon t) = Ok (g t)) -> py_map f (taxa_vals ts) = Ok (map g ts).
Proof.
  intros H. induction ts as [|t r IH]; [reflexivity|]. unfold taxa_vals in *. cbn [map py_map].
  rewrite H, IH. reflexivity.
Qed.

Theorem gen_labels_l (w : world) :
  py_labels w = Ok (VList (map VLabel (map (label_of w) (taxa (w_ns w))))).
Proof.
  unfold py_labels. rewrite (py_map_taxa _ (fun t => VLabel (label_of w t))) by (intros; reflexivity).
  cbn [bind]. rewrite map_map. reflexivity.
Qed.

Theorem gen_all_taxa_bitmask_l (w : world) : 0 <= count (w_ns w) ->
  py_all_taxa_bitmask w = Ok (VInt (all_taxa_bitmask (w_ns w))).
Proof.
  intros H. unfold py_all_taxa_bitmask, all_taxa_bitmask. cbn.
  destruct (Z.ltb_spec (count (w_ns w)) 0); [lia|]. reflexivity.
Qed.

Definition taxon_bitmask_v (w : world) (t : tid) : res (world * pyval) :=
  match taxon_bitmask (w_ns w) t with
  | Ok (n, m) => Ok (set_ns w n, VInt m) | Err e => Err e | OutOfFuel => OutOfFuel
  end.

(* the accession indices are never negative (part of Inv) *)
Definition idx_nonneg (n : ns) : Prop := forall t i, alookup t (acc n) = Some i -> 0 <= i.

Theorem gen_taxon_bitmask_l (w : world) (t : tid) : idx_nonneg (w_ns w) ->
  py_taxon_bitmask w (VTaxon t) = taxon_bitmask_v w t.
Proof.
  intros H. unfold py_taxon_bitmask, taxon_bitmask_v, taxon_bitmask. cbn.
  destruct (alookup t (bm (w_ns w))) as [m|]; cbn; [eta|].
  destruct (alookup t (acc (w_ns w))) as [i|] eqn:A; cbn; [|reflexivity].
  destruct (Z.ltb_spec i 0); [apply H in A; lia|]. reflexivity.
Qed.

Theorem gen_accession_index_l (w : world) (t : tid) :
  py_accession_index w (VTaxon t)
  = match alookup t (acc (w_ns w)) with Some i => Ok (VInt i) | None => Err KeyErr end.
Proof.
  unfold py_accession_index. cbn. destruct (alookup t (acc (w_ns w))); reflexivity.
Qed.

(* ---------- _lookup_label and its clients ---------- *)

Lemma for_filter (f : tid -> bool) (first : bool) (body : pyval -> pyval -> res (ctrl pyval pyval)) :
  (forall t xs, body (VTaxon t) (VList xs)
                = Ok (if f t then (if first then Ret (VTaxon t) else Next (VList (xs ++ [VTaxon t])))
                      else Next (VList xs))) ->
  forall ts xs, py_for (taxa_vals ts) body (VList xs)
    = Ok (match filter f ts with
          | [] => Next (VList xs)
          | t :: _ => if first then Ret (VTaxon t) else Next (VList (xs ++ map VTaxon (filter f ts)))
          end).
Proof.
  intros H. induction ts as [|t r IH]; intros xs; [reflexivity|].
  unfold taxa_vals in *. cbn [map py_for filter]. rewrite H. destruct (f t) eqn:F.
  - destruct first; [reflexivity|]. rewrite IH. destruct (filter f r) as [|t' r'].
    + cbn [map]. reflexivity.
    + cbn [map]. rewrite <- app_assoc. reflexivity.
  - apply IH.
Qed.

Definition lookup_label_v (w : world) (l : lbl) (cs : option bool) (first err : bool) : res pyval :=
  match lookup_all lower w l cs with
  | [] => if err then Err LookupErr else Ok VNone
  | t :: r => if first then Ok (VTaxon t) else Ok (VList (map VTaxon (t :: r)))
  end.

Theorem gen_lookup_label_l (w : world) (l : lbl) (cs : option bool) (first err : bool) :
  py__lookup_label lower casefold w (VLabel l) (cs_val cs) (VBool first) (VBool err) = lookup_label_v w l cs first err.
Proof.
  unfold py__lookup_label, lookup_label_v, lookup_all.
  assert (T : forall c : bool,
    (do or__14 <- py_for (taxa_vals (taxa (w_ns w)))
        (fun v_taxon st__15 : pyval =>
           do v__9 <- (if c then py_attr_label w v_taxon else py_Taxon_lower_cased_label lower casefold w v_taxon) ;;
           do v__10 <- py_eq (VLabel (if c then l else lower l)) v__9 ;;
           do b__11 <- py_truth v__10 ;;
           if b__11
           then do b__12 <- py_truth (VBool first) ;;
                if b__12 then Ok (Ret v_taxon)
                else do l__13 <- py_append st__15 v_taxon ;; Ok (Next l__13)
           else Ok (Next st__15)) (VList []) ;;
     match or__14 with
     | Next st__15 =>
         do v__16 <- py_len st__15 ;;
         do v__17 <- py_eq v__16 (VInt 0) ;;
         do b__18 <- py_truth v__17 ;;
         if b__18
         then do b__19 <- py_truth (VBool err) ;; if b__19 then Err LookupErr else Ok VNone
         else Ok st__15
     | Ret r__14 => Ok r__14
     end)
    = match filter (matches lower w c l) (taxa (w_ns w)) with
      | [] => if err then Err LookupErr else Ok VNone
      | t :: r => if first then Ok (VTaxon t) else Ok (VList (map VTaxon (t :: r)))
      end).
  { intros c. rewrite (for_filter (matches lower w c l) first).
    - cbn [bind]. destruct (filter (matches lower w c l) (taxa (w_ns w))) as [|t r].
      + cbn. destruct err; reflexivity.
      + destruct first; [reflexivity|]. cbn. reflexivity.
    - intros t xs. unfold matches, py_Taxon_lower_cased_label, member_normal_form. destruct c; cbn;
        (destruct (Z.eqb _ _); cbn; [destruct first; reflexivity| reflexivity]). }
  destruct cs as [[|]|]; cbn [cs_val use_cs py_is_true py_is_none bind py_truth].
  - apply (T true).
  - cbn [py_str_norm]. apply (T false).
  - destruct (is_cs (w_ns w)); cbn [bind py_truth py_str_norm]; [apply (T true)| apply (T false)].
Qed.

Theorem gen_findall_l (w : world) (l : lbl) (cs : option bool) :
  py_findall lower casefold w (VLabel l) (cs_val cs) = Ok (VList (map VTaxon (lookup_all lower w l cs))).
Proof.
  unfold py_findall. rewrite gen_lookup_label_l. unfold lookup_label_v.
  destruct (lookup_all lower w l cs); reflexivity.
Qed.

Definition opt_taxon_v (o : option tid) : pyval := match o with Some t => VTaxon t | None => VNone end.

Theorem gen_get_taxon_l (w : world) (l : lbl) (cs : option bool) :
  py_get_taxon lower casefold w (VLabel l) (cs_val cs) = Ok (opt_taxon_v (lookup_first lower w l cs)).
Proof.
  unfold py_get_taxon. rewrite gen_lookup_label_l. unfold lookup_label_v, lookup_first.
  destruct (lookup_all lower w l cs); reflexivity.
Qed.

Theorem gen_has_taxon_label_l (w : world) (l : lbl) (cs : option bool) :
  py_has_taxon_label lower casefold w (VLabel l) (cs_val cs)
  = Ok (VBool (match lookup_first lower w l cs with Some _ => true | None => false end)).
Proof.
  unfold py_has_taxon_label. rewrite gen_lookup_label_l. unfold lookup_label_v, lookup_first.
  destruct (lookup_all lower w l cs); reflexivity.
Qed.

Theorem gen_has_taxa_labels_l (w : world) (ls : list lbl) (cs : option bool) :
  py_has_taxa_labels lower casefold w (VList (map VLabel ls)) (cs_val cs)
  = Ok (VBool (forallb (fun l => match lookup_all lower w l cs with [] => false | _ => true end) ls)).
Proof.
  unfold py_has_taxa_labels. cbn [py_iter bind].
  induction ls as [|l r IH]; [reflexivity|]. cbn -[py__lookup_label].
  rewrite gen_lookup_label_l. unfold lookup_label_v.
  destruct (lookup_all lower w l cs) as [|t ts]; cbn -[py__lookup_label]; [reflexivity|].
  cbn -[py__lookup_label] in IH. exact IH.
Qed.

Definition require_taxon_v (w : world) (l : lbl) (cs : option bool) : res (world * pyval) :=
  match lookup_first lower w l cs with
  | Some t => Ok (w, VTaxon t)
  | None => if negb (is_mut (w_ns w)) then Err TypeErr else new_taxon_v w l
  end.

Theorem gen_require_taxon_l (w : world) (l : lbl) (cs : option bool) :
  py_require_taxon lower casefold w (VLabel l) (cs_val cs) = require_taxon_v w l cs.
Proof.
  unfold py_require_taxon, require_taxon_v. rewrite gen_lookup_label_l. unfold lookup_label_v, lookup_first.
  destruct (lookup_all lower w l cs); cbn -[py_new_taxon]; [|reflexivity].
  destruct (is_mut (w_ns w)); cbn -[py_new_taxon]; [|reflexivity].
  rewrite gen_new_taxon_l. unfold new_taxon_v. destruct (new_taxon w l) as [[w' t]| |]; reflexivity.
Qed.

(* get_taxa *)
Lemma in_list_taxa (t : tid) (g : list tid) :
  py_in_list (VTaxon t) (VList (map VTaxon g)) = Ok (VBool (memb t g)).
Proof.
  cbn. f_equal. f_equal. unfold memb. induction g as [|x r IH]; [reflexivity|]. cbn. rewrite IH. destruct (Z.eqb t x); reflexivity.
Qed.

Theorem gen_get_taxa_l (w : world) (ls : list lbl) (cs : option bool) (first : bool) :
  py_get_taxa lower casefold w (VList (map VLabel ls)) (cs_val cs) (VBool first)
  = Ok (VList (map VTaxon (get_taxa lower w ls cs first []))).
Proof.
  unfold py_get_taxa. cbn [py_iter bind]. change (@nil pyval) with (map VTaxon []).
  generalize (@nil tid) as got. induction ls as [|l r IH]; intros got; [reflexivity|].
  cbn -[py__lookup_label py_in_list]. rewrite gen_lookup_label_l. unfold lookup_label_v, lookup_first.
  destruct first.
  - destruct (lookup_all lower w l cs) as [|t ts]; cbn -[py__lookup_label py_in_list].
    + apply IH.
    + replace (map VTaxon got ++ [VTaxon t]) with (map VTaxon (got ++ [t])) by (rewrite map_app; reflexivity).
      apply IH.
  - destruct (lookup_all lower w l cs) as [|t ts] eqn:E; cbn -[py__lookup_label py_in_list map py_for].
    + apply IH.
    + assert (D : forall xs g,
        py_for (map VTaxon xs)
          (fun v_t st__12 : pyval =>
             do v__7 <- py_in_list v_t st__12 ;;
             do v__8 <- py_not v__7 ;;
             do b__9 <- py_truth v__8 ;;
             if b__9 then do l__10 <- py_append st__12 v_t ;; Ok (@Next pyval pyval l__10)
             else Ok (Next st__12)) (VList (map VTaxon g))
        = Ok (Next (VList (map VTaxon (fold_left (fun g t => if memb t g then g else g ++ [t]) xs g))))).
      { induction xs as [|x xs IHx]; intros g; [reflexivity|]. cbn -[py_in_list]. rewrite in_list_taxa.
        cbn -[py_in_list]. destruct (memb x g); cbn -[py_in_list]; [apply IHx|].
        replace (map VTaxon g ++ [VTaxon x]) with (map VTaxon (g ++ [x])) by (rewrite map_app; reflexivity).
        apply IHx. }
      rewrite D. cbn -[py__lookup_label py_in_list map py_for].
      apply IH.
Qed.

(* remove_taxon_label / discard_taxon_label *)
Lemma remove_loop_each (body : pyval -> world -> res (ctrl world (world * pyval))) :
  (forall t s, body (VTaxon t) s
     = match py_remove_taxon s (VTaxon t) with
       | Ok (w', _) => Ok (Next w') | Err e => Err e | OutOfFuel => OutOfFuel end) ->
  forall ts w, py_for (map VTaxon ts) body w
    = match remove_each (w_ns w) ts with
      | Ok n => Ok (Next (set_ns w n)) | Err e => Err e | OutOfFuel => OutOfFuel end.
Proof.
  intros H. induction ts as [|t r IH]; intros w; cbn [map py_for remove_each]; [f_equal; f_equal; eta|].
  rewrite H, gen_remove_taxon_l. unfold lift_ns_v.
  destruct (remove_taxon (w_ns w) t) as [n1| |]; try reflexivity.
  rewrite IH. cbn [set_ns w_ns]. destruct (remove_each n1 r); reflexivity.
Qed.

Definition remove_label_v (w : world) (l : lbl) (cs : option bool) (first : bool) (strict : bool)
  : res (world * pyval) :=
  match lookup_all lower w l cs with
  | [] => if strict then Err LookupErr else Ok (w, VNone)
  | t :: r => lift_ns_v w (remove_each (w_ns w) (if first then [t] else t :: r))
  end.

Theorem gen_remove_taxon_label_l (w : world) (l : lbl) (cs : option bool) (first : bool) :
  py_remove_taxon_label lower casefold w (VLabel l) (cs_val cs) (VBool first) = remove_label_v w l cs first true.
Proof.
  unfold py_remove_taxon_label, remove_label_v. rewrite gen_lookup_label_l. unfold lookup_label_v.
  destruct (lookup_all lower w l cs) as [|t r]; [reflexivity|].
  destruct first; cbn -[py_remove_taxon map py_for remove_each].
  - change [VTaxon t] with (map VTaxon [t]). rewrite remove_loop_each by (intros; reflexivity).
    unfold lift_ns_v. destruct (remove_each (w_ns w) [t]); reflexivity.
  - rewrite remove_loop_each by (intros; reflexivity).
    unfold lift_ns_v. destruct (remove_each (w_ns w) (t :: r)); reflexivity.
Qed.

Theorem gen_discard_taxon_label_l (w : world) (l : lbl) (cs : option bool) (first : bool) :
  py_discard_taxon_label lower casefold w (VLabel l) (cs_val cs) (VBool first) = remove_label_v w l cs first false.
Proof.
  unfold py_discard_taxon_label, remove_label_v. rewrite gen_lookup_label_l. unfold lookup_label_v.
  destruct (lookup_all lower w l cs) as [|t r]; [reflexivity|].
  destruct first; cbn -[py_remove_taxon map py_for remove_each].
  - change [VTaxon t] with (map VTaxon [t]). rewrite remove_loop_each by (intros; reflexivity).
    unfold lift_ns_v. destruct (remove_each (w_ns w) [t]); reflexivity.
  - rewrite remove_loop_each by (intros; reflexivity).
    unfold lift_ns_v. destruct (remove_each (w_ns w) (t :: r)); reflexivity.
Qed.

(* ---------- taxa_bitmask ---------- *)

Lemma taxon_bitmask_acc n t n' m : taxon_bitmask n t = Ok (n', m) -> acc n' = acc n.
Proof.
  unfold taxon_bitmask. destruct (alookup t (bm n)); [intros E; inversion E; reflexivity|].
  destruct (alookup t (acc n)); [|discriminate]. intros E; inversion E; reflexivity.
Qed.

Definition taxa_bitmask_v (w : world) (ts : list tid) (b : Z) : res (world * pyval) :=
  match taxa_bitmask (w_ns w) ts b with
  | Ok (n, m) => Ok (set_ns w n, VInt m) | Err e => Err e | OutOfFuel => OutOfFuel
  end.

Lemma taxa_bitmask_loop (body : pyval -> world * pyval -> res (ctrl (world * pyval) (world * pyval))) :
  (forall t w b, body (VTaxon t) (w, VInt b)
     = match py_taxon_bitmask w (VTaxon t) with
       | Ok (w', r) => do n <- py_bor (VInt b) r ;; Ok (Next (w', n))
       | Err e => Err e | OutOfFuel => OutOfFuel end) ->
  forall ts w b, idx_nonneg (w_ns w) ->
    py_for (map VTaxon ts) body (w, VInt b)
    = match taxa_bitmask (w_ns w) ts b with
      | Ok (n, m) => Ok (Next (set_ns w n, VInt m)) | Err e => Err e | OutOfFuel => OutOfFuel end.
Proof.
  intros H. induction ts as [|t r IH]; intros w b Hn; cbn [map py_for taxa_bitmask]; [f_equal; f_equal; f_equal; eta|].
  rewrite H, gen_taxon_bitmask_l by exact Hn. unfold taxon_bitmask_v.
  destruct (taxon_bitmask (w_ns w) t) as [[n1 m1]| |] eqn:T; try reflexivity.
  cbn [py_bor py_int2 bind]. rewrite IH.
  - cbn [set_ns w_ns]. destruct (taxa_bitmask n1 r (Z.lor b m1)) as [[n2 m2]| |]; reflexivity.
  - cbn [set_ns w_ns]. unfold idx_nonneg. rewrite (taxon_bitmask_acc _ _ _ _ T). exact Hn.
Qed.

Theorem gen_taxa_bitmask_taxa_l (w : world) (ts : list tid) : idx_nonneg (w_ns w) ->
  py_taxa_bitmask lower casefold w (VKw [("taxa"%string, VList (map VTaxon ts))]) = taxa_bitmask_v w ts 0.
Proof.
  intros Hn. unfold py_taxa_bitmask, taxa_bitmask_v. cbn -[py_taxon_bitmask py_for map].
  rewrite taxa_bitmask_loop; [|intros; reflexivity| exact Hn].
  destruct (taxa_bitmask (w_ns w) ts 0) as [[n m]| |]; reflexivity.
Qed.

Theorem gen_taxa_bitmask_labels_l (w : world) (ls : list lbl) (cs : option bool) (first : bool) :
  idx_nonneg (w_ns w) ->
  py_taxa_bitmask lower casefold w (VKw [("labels"%string, VList (map VLabel ls)); ("is_case_sensitive"%string, cs_val cs);
                                ("first_match_only"%string, VBool first)])
  = taxa_bitmask_v w (get_taxa lower w ls cs first []) 0.
Proof.
  intros Hn. unfold py_taxa_bitmask, taxa_bitmask_v.
  set (kw := VKw _).
  assert (K1 : kw_has "taxa"%string kw = Ok (VBool false)) by reflexivity.
  assert (K2 : py_kwargs [("labels"%string, None); ("is_case_sensitive"%string, Some VNone);
                          ("first_match_only"%string, Some (VBool false))] kw
               = Ok [VList (map VLabel ls); cs_val cs; VBool first]) by reflexivity.
  rewrite K1. cbn [bind py_truth]. rewrite K2. cbn [bind]. rewrite gen_get_taxa_l. cbn [bind py_iter].
  rewrite taxa_bitmask_loop; [|intros; reflexivity| exact Hn].
  destruct (taxa_bitmask (w_ns w) _ 0) as [[n m]| |]; reflexivity.
Qed.

(* a keyword get_taxa does not know (what taxa_bipartition(labels=.., is_rooted=..) passes on) *)
Theorem gen_taxa_bitmask_unexpected_keyword_l (w : world) (ls v : pyval) :
  py_taxa_bitmask lower casefold w (VKw [("labels"%string, ls); ("is_rooted"%string, v)]) = Err TypeErr.
Proof. reflexivity. Qed.

(* ---------- bitmask_taxa_list ---------- *)

Lemma land1_testbit (m : Z) : negb (Z.eqb (Z.land m 1) 0) = Z.testbit m 0.
Proof. change 1 with (Z.shiftl 1 0). rewrite land_shiftl1_zero by lia. apply negb_involutive. Qed.

Lemma btl_loop (n : ns) (cond : pyval * pyval * pyval -> res bool)
      (body : pyval * pyval * pyval -> res (ctrl (pyval * pyval * pyval) pyval)) :
  (forall m i g, cond (VInt m, VInt i, VList g) = Ok (negb (Z.eqb m 0))) ->
  (forall m i g, body (VInt m, VInt i, VList g)
     = if negb (Z.eqb (Z.land m 1) 0)
       then match alookup i (rev n) with
            | Some t => Ok (Next (VInt (Z.shiftr m 1), VInt (i + 1), VList (g ++ [VTaxon t])))
            | None => Err KeyErr end
       else Ok (Next (VInt (Z.shiftr m 1), VInt (i + 1), VList g))) ->
  forall fuel m i got,
    (do o <- py_while fuel cond body (VInt m, VInt i, VList (map VTaxon got)) ;;
     match o with Ret r => Ok r | Next st => let '(_, _, v) := st in Ok v end)
    = match bitmask_taxa_list n fuel m i got with
      | Ok l => Ok (VList (map VTaxon l)) | Err e => Err e | OutOfFuel => OutOfFuel end.
Proof.
  intros Hc Hb. induction fuel as [|f IH]; intros m i got; [reflexivity|].
  cbn [py_while bitmask_taxa_list]. rewrite Hc. destruct (Z.eqb m 0); cbn [negb bind]; [reflexivity|].
  rewrite Hb, land1_testbit. destruct (Z.testbit m 0).
  - destruct (alookup i (rev n)) as [t|]; [|reflexivity].
    replace (map VTaxon got ++ [VTaxon t]) with (map VTaxon (got ++ [t])) by (rewrite map_app; reflexivity).
    apply IH.
  - apply IH.
Qed.

Theorem gen_bitmask_taxa_list_l (w : world) (m idx : Z) :
  py_bitmask_taxa_list w (VInt m) (VInt idx)
  = match bitmask_taxa_list (w_ns w) (bits_fuel m) m idx [] with
    | Ok l => Ok (VList (map VTaxon l)) | Err e => Err e | OutOfFuel => OutOfFuel end.
Proof.
  unfold py_bitmask_taxa_list. cbn [fuel_bits]. change (@nil pyval) with (map VTaxon []).
  apply (btl_loop (w_ns w)).
  - intros m0 i g. reflexivity.
  - intros m0 i g. cbn. destruct (Z.eqb (Z.land m0 1) 0); cbn; [reflexivity|].
    change (@alookup tid i (rev (w_ns w))) with (@alookup Z i (rev (w_ns w))).
    destruct (@alookup Z i (rev (w_ns w))); reflexivity.
Qed.

(* ---------- nexusprocessing.bitmask_as_newick_string ---------- *)

Lemma labels_of_map (l : list lbl) : labels_of (map VLabel l) = Ok l.
Proof. induction l as [|x r IH]; [reflexivity|]. cbn. rewrite IH. reflexivity. Qed.

Lemma escape_map (l : list lbl) :
  py_map (fun v_label => do v__1 <- py_escape_nexus_token v_label ;; Ok v__1) (map VLabel l) = Ok (map VLabel l).
Proof. induction l as [|x r IH]; [reflexivity|]. cbn. cbn in IH. rewrite IH. reflexivity. Qed.

Lemma newick_groups_len w0 n m ts l r n' l' r' :
  newick_groups w0 n m ts l r = Ok (n', (l', r')) ->
  (List.length l' + List.length r' = List.length l + List.length r + List.length ts)%nat.
Proof.
  revert n l r. induction ts as [|t rest IH]; intros n l r; cbn [newick_groups].
  - intros E; inversion E; subst. cbn. lia.
  - destruct (taxon_bitmask n t) as [[n1 b]| |]; try discriminate.
    destruct (negb (Z.land m b =? 0)); intros E; apply IH in E; rewrite app_length in E; cbn in *; lia.
Qed.

Lemma newick_loop (w0 : world) (m : Z)
      (body : pyval -> world * pyval * pyval -> res (ctrl (world * pyval * pyval) (world * pyval))) :
  (forall t x w l r, body (VList [VTaxon t; VLabel x]) (w, VList l, VList r)
     = match py_taxon_bitmask w (VTaxon t) with
       | Ok (w', VInt b) =>
         if negb (Z.eqb (Z.land m b) 0) then Ok (Next (w', VList (l ++ [VLabel x]), VList r))
         else Ok (Next (w', VList l, VList (r ++ [VLabel x])))
       | Ok (_, _) => Err TypeErr
       | Err e => Err e | OutOfFuel => OutOfFuel end) ->
  forall ts w l r, idx_nonneg (w_ns w) ->
    py_for (py_zip (taxa_vals ts) (map VLabel (map (label_of w0) ts))) body
           (w, VList (map VLabel l), VList (map VLabel r))
    = match newick_groups w0 (w_ns w) m ts l r with
      | Ok (n', (l', r')) => Ok (Next (set_ns w n', VList (map VLabel l'), VList (map VLabel r')))
      | Err e => Err e | OutOfFuel => OutOfFuel end.
Proof.
  intros H. induction ts as [|t rest IH]; intros w l r Hn.
  - cbn. f_equal. f_equal. f_equal. f_equal. eta.
  - unfold py_zip, taxa_vals in *. cbn [map combine fst snd py_for newick_groups].
    rewrite H, gen_taxon_bitmask_l by exact Hn. unfold taxon_bitmask_v.
    destruct (taxon_bitmask (w_ns w) t) as [[n1 b]| |] eqn:T; try reflexivity.
    assert (Hn1 : idx_nonneg (w_ns (set_ns w n1))).
    { cbn [set_ns w_ns]. unfold idx_nonneg. rewrite (taxon_bitmask_acc _ _ _ _ T). exact Hn. }
    destruct (negb (Z.land m b =? 0)).
    + replace (map VLabel l ++ [VLabel (label_of w0 t)]) with (map VLabel (l ++ [label_of w0 t]))
        by (rewrite map_app; reflexivity).
      rewrite IH by exact Hn1. cbn [set_ns w_ns]. destruct (newick_groups w0 n1 m rest _ _) as [[n2 [l2 r2]]| |]; reflexivity.
    + replace (map VLabel r ++ [VLabel (label_of w0 t)]) with (map VLabel (r ++ [label_of w0 t]))
        by (rewrite map_app; reflexivity).
      rewrite IH by exact Hn1. cbn [set_ns w_ns]. destruct (newick_groups w0 n1 m rest _ _) as [[n2 [l2 r2]]| |]; reflexivity.
Qed.

Definition newick_v (w : world) (m : Z) : res (world * pyval) :=
  let n := w_ns w in
  if orb (Z.eqb m 0) (Z.eqb m (all_taxa_bitmask n)) then Ok (w, VOut (OGroup1 (map (label_of w) (taxa n))))
  else match newick_groups w n m (taxa n) [] [] with
       | Ok (n', (l, r)) => Ok (set_ns w n', VOut (OGroups l r))
       | Err e => Err e | OutOfFuel => OutOfFuel
       end.

Theorem gen_bitmask_as_newick_string_l (w : world) (m : Z) (ps qu : pyval) :
  idx_nonneg (w_ns w) -> 0 <= count (w_ns w) ->
  py_bitmask_as_newick_string w (VInt m) ps qu = newick_v w m.
Proof.
  intros Hn Hc. unfold py_bitmask_as_newick_string, newick_v.
  rewrite gen_labels_l. cbn [bind py_iter]. rewrite escape_map. cbn [bind py_eq py_truth].
  rewrite gen_all_taxa_bitmask_l by exact Hc. cbn [bind py_eq py_truth].
  assert (C : (do c__10 <- (do a__8 <- Ok (VBool (m =? 0)) ;; do t__9 <- Ok (m =? 0) ;;
                 if t__9 then Ok a__8 else Ok (VBool (m =? all_taxa_bitmask (w_ns w)))) ;; Ok c__10)
              = Ok (VBool ((m =? 0) || (m =? all_taxa_bitmask (w_ns w))))).
  { destruct (m =? 0); reflexivity. }
  destruct (m =? 0) eqn:E0; cbn [bind orb py_truth].
  - unfold py_newick_one_group. rewrite labels_of_map. reflexivity.
  - destruct (m =? all_taxa_bitmask (w_ns w)) eqn:E1; cbn [bind py_truth].
    + unfold py_newick_one_group. rewrite labels_of_map. reflexivity.
    + change (@nil pyval) with (map VLabel []).
      rewrite (newick_loop w m); [|clear; intros t x w0 l r; cbn -[py_taxon_bitmask];
        destruct (py_taxon_bitmask w0 (VTaxon t)) as [[w' []]| |]; try reflexivity;
        cbn; destruct (Z.land m z =? 0); reflexivity | exact Hn].
      destruct (newick_groups w (w_ns w) m (taxa (w_ns w)) [] []) as [[n' [l' r']]| |] eqn:G; cbn [bind]; try reflexivity.
      apply newick_groups_len in G. cbn [py_len py_add py_int2 bind py_eq].
      rewrite !map_length. cbn [List.length] in G.
      assert (Q : (Z.of_nat (List.length l') + Z.of_nat (List.length r') =? Z.of_nat (List.length (taxa (w_ns w)))) = true)
        by (apply Z.eqb_eq; lia).
      rewrite Q. cbn [py_truth bind]. unfold py_newick_two_groups. rewrite !labels_of_map. reflexivity.
Qed.

(* ---------- bitprocessing.bit_length / int_as_bitstring ---------- *)

Definition bit_ch (b : bool) : pych := if b then C1 else C0.

Lemma pos_bits_head (p : positive) : exists r, pos_bits p = true :: r.
Proof.
  induction p as [q [r E]|q [r E]|]; cbn [pos_bits]; try rewrite E; eexists; cbn; reflexivity.
Qed.

Theorem gen_bit_length_l (w : world) (n : Z) :
  py_bit_length w (VInt n) = Ok (VInt (bit_length n)) /\ py_bit_length w VNone = Ok (VInt 0).
Proof.
  split; [|reflexivity]. unfold py_bit_length, bit_length. destruct n as [|p|p]; [reflexivity| |].
  - cbn. destruct (pos_bits_head p) as [r E]. rewrite E. cbn. rewrite map_length. reflexivity.
  - cbn. destruct (pos_bits_head p) as [r E]. rewrite E. cbn. rewrite map_length. reflexivity.
Qed.

Lemma map_repeat {A B} (f : A -> B) (a : A) (k : nat) : map f (repeat a k) = repeat (f a) k.
Proof. induction k as [|k IH]; [reflexivity|]. cbn. rewrite IH. reflexivity. Qed.

Theorem gen_int_as_bitstring_l (w : world) (n len : Z) : 0 <= n ->
  py_int_as_bitstring w (VInt n) (VInt len) VNone VNone (VBool false)
    = Ok (VStr (map bit_ch (int_as_bitstring n len)))
  /\ py_int_as_bitstring w (VInt n) VNone VNone VNone (VBool false)
    = Ok (VStr (map bit_ch (int_as_bitstring n (bit_length n)))).
Proof.
  intros H.
  assert (B : forall len', (do v__3 <- py_bin (VInt n) ;; do v__4 <- py_slice_from v__3 (VInt 2) ;;
                            py_rjust v__4 (VInt len') (VStr [C0]))
                           = Ok (VStr (map bit_ch (int_as_bitstring n len')))).
  { intros len'. unfold int_as_bitstring, rjust0. rewrite map_app, map_repeat.
    destruct n as [|p|p]; [reflexivity| |lia]. cbn. change (Pos.to_nat 2) with 2%nat. cbn [skipn]. rewrite map_length. reflexivity. }
  split.
  - unfold py_int_as_bitstring. cbn [py_is_none py_truth bind negb].
    specialize (B len). cbn [bind] in B.
    destruct (py_bin (VInt n)) as [v3| |]; cbn [bind] in *; try discriminate.
    destruct (py_slice_from v3 (VInt 2)) as [v4| |]; cbn [bind] in *; try discriminate.
    rewrite B. reflexivity.
  - unfold py_int_as_bitstring. cbn [py_is_none py_truth bind negb].
    rewrite (proj1 (gen_bit_length_l w n)). cbn [bind].
    specialize (B (bit_length n)). cbn [bind] in B.
    destruct (py_bin (VInt n)) as [v3| |]; cbn [bind] in *; try discriminate.
    destruct (py_slice_from v3 (VInt 2)) as [v4| |]; cbn [bind] in *; try discriminate.
    rewrite B. reflexivity.
Qed.

End G.
