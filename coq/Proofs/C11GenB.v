(* C11: translated methods = model - part B: TreeList import / append / insert / extend / += / + / [] / []=,
   and the corresponding cases of `step` *)
From Coq Require Import String.
From Coq Require Import List Bool Arith ZArith Lia.
From DV Require Import Model.PyPrims Model.C11Model Model.C11Prims Gen.Containers Proofs.C11Base Proofs.C11GenA.
Import ListNotations.
Open Scope nat_scope.

(* how the harness / the model's op arguments are handed to the Python methods *)
Definition strat_str (s : strat) : string :=
  match s with SMigrate _ => "migrate"%string | SAdd => "add"%string | SBogus => "bogus"%string end.
Definition strat_kw (s : strat) : option bool := match s with SMigrate u => Some u | _ => None end.

(* what the harness observes of a call *)
Definition out_of {A} (f : A -> out) (r : res A) : out :=
  match r with
  | Ok a => f a
  | Err OtherErr => ORecon          (* TaxonNamespaceReconstructionError *)
  | Err e => OErr e
  | OutOfFuel => OErr Hang
  end.
Definition obs_unit {A} (r : R A) : state * out := (fst r, out_of (fun _ => OUnit) (snd r)).
Definition obs_id (r : R oid) : state * out := (fst r, out_of OId (snd r)).

Section WithLower.
Variable lower : lbl -> lbl.

Lemma add_members_objs : forall xs st T L M D n,
  add_members (with_objs st T L M D) n xs = with_objs (add_members st n xs) T L M D.
Proof.
  induction xs as [|x r IH]; intros; [reflexivity|]. unfold add_members in *. cbn [fold_left].
  rewrite add_member_objs. apply IH.
Qed.

Lemma add_members_objs_id : forall xs st n,
  add_members st n xs = with_objs (add_members st n xs) (s_trees st) (s_lists st) (s_mats st) (s_dss st).
Proof. intros. rewrite <- add_members_objs, with_objs_id. reflexivity. Qed.

(* ---- TreeList._import_tree_to_taxon_namespace ---- *)
Theorem gen_import_migrate : forall st l tr kw,
  tr < length (s_trees st) ->
  py_TreeList__import_tree_to_taxon_namespace lower st l tr "migrate"%string kw
  = (fst (import_tree lower st (l_ns (getlist st l)) tr (SMigrate (kw_default kw true))), Ok tr).
Proof.
  intros st l tr kw V. unfold py_TreeList__import_tree_to_taxon_namespace, import_tree.
  destruct (Nat.eqb (t_ns (gettree st tr)) (l_ns (getlist st l))); cbn [negb]; [reflexivity|].
  change (String.eqb "migrate" "migrate") with true. cbv iota.
  rewrite (gen_Tree_migrate lower st tr _ _ None V). reflexivity.
Qed.

Lemma set_tree_add_members_objs : forall st T L M D n xs tr X,
  set_tree (add_members (with_objs st T L M D) n xs) tr X = with_objs (add_members st n xs) (upd T tr X) L M D.
Proof. intros. rewrite add_members_objs. reflexivity. Qed.

Lemma update_tree_after_set_ns : forall st tr n,
  tr < length (s_trees st) ->
  update_tree (set_tree st tr (mkTree n (t_refs (gettree st tr)))) tr n = update_tree st tr n.
Proof.
  intros st tr n V. unfold update_tree. rewrite gettree_set_tree_same by exact V. cbn [t_refs].
  set (refs0 := t_refs (gettree st tr)).
  replace (set_tree st tr (mkTree n refs0))
    with (with_objs st (upd (s_trees st) tr (mkTree n refs0)) (s_lists st) (s_mats st) (s_dss st)) by reflexivity.
  rewrite set_tree_add_members_objs, upd_upd.
  pose proof (set_tree_add_members_objs st (s_trees st) (s_lists st) (s_mats st) (s_dss st) n refs0 tr (mkTree n refs0)) as Q.
  rewrite with_objs_id in Q. rewrite Q. reflexivity.
Qed.

Theorem gen_import_add : forall st l tr kw,
  tr < length (s_trees st) ->
  py_TreeList__import_tree_to_taxon_namespace lower st l tr "add"%string kw
  = (fst (import_tree lower st (l_ns (getlist st l)) tr SAdd), Ok tr).
Proof.
  intros st l tr kw V. unfold py_TreeList__import_tree_to_taxon_namespace, import_tree.
  destruct (Nat.eqb (t_ns (gettree st tr)) (l_ns (getlist st l))); cbn [negb]; [reflexivity|].
  change (String.eqb "add" "migrate") with false. change (String.eqb "add" "add") with true. cbv iota.
  set (n := l_ns (getlist st l)).
  rewrite gen_Tree_update. unfold set_tree_ns. rewrite gettree_set_tree_same by exact V. cbn [t_ns bindR fst].
  rewrite update_tree_after_set_ns by exact V. reflexivity.
Qed.

Theorem gen_import_bogus : forall st l tr kw,
  py_TreeList__import_tree_to_taxon_namespace lower st l tr "bogus"%string kw
  = (fst (import_tree lower st (l_ns (getlist st l)) tr SBogus),
     if snd (import_tree lower st (l_ns (getlist st l)) tr SBogus) then Ok tr else Err ValueErr).
Proof.
  intros st l tr kw. unfold py_TreeList__import_tree_to_taxon_namespace, import_tree.
  destruct (Nat.eqb (t_ns (gettree st tr)) (l_ns (getlist st l))); cbn [negb]; reflexivity.
Qed.

Theorem gen_import : forall st l tr s,
  tr < length (s_trees st) ->
  py_TreeList__import_tree_to_taxon_namespace lower st l tr (strat_str s) (strat_kw s)
  = (fst (import_tree lower st (l_ns (getlist st l)) tr s),
     if snd (import_tree lower st (l_ns (getlist st l)) tr s) then Ok tr else Err ValueErr).
Proof.
  intros st l tr s V. destruct s as [u| |]; cbn [strat_str strat_kw].
  - rewrite gen_import_migrate by exact V. cbn [kw_default]. unfold import_tree.
    destruct (Nat.eqb (t_ns (gettree st tr)) (l_ns (getlist st l))); reflexivity.
  - rewrite gen_import_add by exact V. unfold import_tree.
    destruct (Nat.eqb (t_ns (gettree st tr)) (l_ns (getlist st l))); reflexivity.
  - apply gen_import_bogus.
Qed.

(* ---- append / insert ---- *)
Theorem gen_append : forall st l tr s,
  tr < length (s_trees st) ->
  py_TreeList_append lower st l tr (strat_str s) (strat_kw s)
  = (fst (append_tree lower st l tr s), if snd (append_tree lower st l tr s) then Ok tt else Err ValueErr).
Proof.
  intros st l tr s V. unfold py_TreeList_append, append_tree. rewrite gen_import by exact V.
  destruct (import_tree lower st (l_ns (getlist st l)) tr s) as [st1 ok]. cbn [fst snd]. destruct ok; reflexivity.
Qed.

Theorem gen_append_default : forall st l tr,
  tr < length (s_trees st) ->
  py_TreeList_append lower st l tr "migrate"%string None
  = (fst (append_tree lower st l tr (SMigrate true)), Ok tt).
Proof.
  intros st l tr V. unfold py_TreeList_append, append_tree. rewrite gen_import_migrate by exact V. cbn [kw_default].
  destruct (import_tree lower st (l_ns (getlist st l)) tr (SMigrate true)) as [st1 ok] eqn:E. cbn [fst bindR].
  assert (O : ok = true).
  { unfold import_tree in E. destruct (Nat.eqb (t_ns (gettree st tr)) (l_ns (getlist st l))); injection E as E1 E2; auto. }
  subst ok. reflexivity.
Qed.

Theorem step_Append_gen : forall st l tr s,
  valid_list st l && valid_tree st tr = true ->
  step lower st (Append l tr s) = obs_unit (py_TreeList_append lower st l tr (strat_str s) (strat_kw s)).
Proof.
  intros st l tr s V. cbn [step]. rewrite V. apply andb_true_iff in V. destruct V as [_ Vt]. apply ltb_lt' in Vt.
  rewrite gen_append by exact Vt. destruct (append_tree lower st l tr s) as [st1 ok]. destruct ok; reflexivity.
Qed.

Theorem step_Insert_gen : forall st l i tr s,
  valid_list st l && valid_tree st tr = true ->
  step lower st (Insert l i tr s) = obs_unit (py_TreeList_insert lower st l i tr (strat_str s) (strat_kw s)).
Proof.
  intros st l i tr s V. cbn [step]. rewrite V. apply andb_true_iff in V. destruct V as [_ Vt]. apply ltb_lt' in Vt.
  unfold py_TreeList_insert. rewrite gen_import by exact Vt.
  destruct (import_tree lower st (l_ns (getlist st l)) tr s) as [st1 ok]. cbn [fst snd]. destruct ok; reflexivity.
Qed.

(* ---- extend / += ---- *)
Lemma import_tree_len : forall st n tr s,
  length (s_trees (fst (import_tree lower st n tr s))) = length (s_trees st)
  /\ s_lists (fst (import_tree lower st n tr s)) = s_lists st.
Proof.
  intros st n tr s. unfold import_tree. destruct (Nat.eqb (t_ns (gettree st tr)) n); [split; reflexivity|].
  destruct s as [u| |]; cbn [fst]; [| |split; reflexivity].
  - unfold migrate_tree.
    pose proof (recon_refs_objs lower n u (t_refs (gettree st tr)) st (s_trees st) (s_lists st) (s_mats st) (s_dss st) []) as Q.
    rewrite with_objs_id in Q. destruct (recon_refs lower st n u (t_refs (gettree st tr)) []) as [[s1 r] m]. injection Q as Q.
    cbn [fst]. simpl. rewrite upd_length, Q. split; reflexivity.
  - unfold update_tree. simpl. rewrite upd_length. rewrite (add_members_objs_id (t_refs (gettree st tr)) st n). split; reflexivity.
Qed.

Lemma append_tree_len : forall st l tr s,
  length (s_trees (fst (append_tree lower st l tr s))) = length (s_trees st).
Proof.
  intros. unfold append_tree. destruct (import_tree_len st (l_ns (getlist st l)) tr s) as [H _].
  destruct (import_tree lower st (l_ns (getlist st l)) tr s) as [st1 ok]. cbn [fst] in *. destruct ok; exact H.
Qed.

Lemma for_each_append_all : forall ts st l,
  (forall tr, In tr ts -> tr < length (s_trees st)) ->
  for_each ts (fun stb x (_ : unit) =>
                 bindR (py_TreeList_append lower stb l x "migrate"%string None) (fun s r => (s, Ok tt))) st tt
  = (append_all lower st l ts, Ok tt).
Proof.
  induction ts as [|tr r IH]; intros st l V; cbn [for_each append_all]; [reflexivity|].
  rewrite gen_append_default by (apply V; left; reflexivity). cbn [bindR].
  apply IH. intros x Hx. rewrite append_tree_len. apply V. right. exact Hx.
Qed.

Lemma for_each_clone_push : forall trs st l,
  for_each trs (fun stb x (_ : unit) =>
                  bindR (py_Tree__clone_from lower stb tt x (Some (l_ns (getlist stb l)))) (fun s r =>
                  let s' := set_list_trees s l (l_trees (getlist s l) ++ [r]) in (s', Ok tt))) st tt
  = (clone_push_all lower st l trs, Ok tt).
Proof.
  induction trs as [|tr r IH]; intros st l; cbn [for_each clone_push_all]; [reflexivity|].
  rewrite gen_Tree_clone_from. destruct (clone_tree lower st tr (l_ns (getlist st l))) as [st1 c]. cbn [fst snd bindR]. cbv zeta.
  apply IH.
Qed.

Theorem gen_extend : forall st l s,
  valid_src st s = true ->
  py_TreeList_extend lower st l s
  = match extend lower st l s with Some s1 => (s1, Ok l) | None => (st, OutOfFuel) end.
Proof.
  intros st l s V. unfold py_TreeList_extend, extend. destruct s as [l2|ts].
  - unfold for_each_tree_of. destruct (Nat.eqb l2 l); [reflexivity|].
    rewrite for_each_clone_push. reflexivity.
  - rewrite for_each_append_all; [reflexivity|]. intros tr Htr. cbn [valid_src] in V.
    apply ltb_lt'. apply (forallb_In _ _ _ tr V Htr).
Qed.

Theorem step_Extend_gen : forall st l s,
  valid_list st l && valid_src st s = true ->
  step lower st (Extend l s) = obs_unit (py_TreeList_extend lower st l s).
Proof.
  intros st l s V. cbn [step]. rewrite V. apply andb_true_iff in V. destruct V as [_ Vs].
  rewrite gen_extend by exact Vs. destruct (extend lower st l s); reflexivity.
Qed.

Theorem step_IAdd_gen : forall st l s,
  valid_list st l && valid_src st s = true ->
  step lower st (IAdd l s) = obs_unit (py_TreeList___iadd__ lower st l s).
Proof.
  intros st l s V. cbn [step]. rewrite V. apply andb_true_iff in V. destruct V as [_ Vs].
  unfold py_TreeList___iadd__. rewrite gen_extend by exact Vs. destruct (extend lower st l s); reflexivity.
Qed.

End WithLower.
