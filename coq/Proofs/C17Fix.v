(* C17: the proposed repair of F16 (calc_node_ages_fix) is sound AND complete, and agrees with the
   present code on every tree it accepts. *)
From Coq Require Import ZArith QArith List Bool Lia ZifyBool.
From DV Require Import Model.PyPrims Model.Tree Model.C17Model Proofs.C17Ages Proofs.C17AgesThm.
Import ListNotations.
Open Scope Z_scope.

Lemma hmin_le_fp t : hmin t <= fp t.
Proof. apply hmin_in_tipdists. apply fp_in_tipdists. Qed.
Lemma fp_le_hmax t : fp t <= hmax t.
Proof. apply hmax_in_tipdists. apply fp_in_tipdists. Qed.

Lemma alo_ahi_annot t : forall co, alo (annot fp CoAll co t) = hmin t /\ ahi (annot fp CoAll co t) = hmax t.
Proof.
  induction t as [i x l e ks IH] using tree_ind'. intro co. rewrite Forall_forall in IH.
  destruct ks as [|k0 r]; [split; reflexivity|].
  assert (El : map (fun k => alo k + len0 (a_len k)) (map (annot fp CoAll true) (k0 :: r)) = map (fun c => hmin c + elen c) (k0 :: r)).
  { rewrite map_map. apply map_ext_in. intros c Hc. rewrite (proj1 (IH c Hc true)).
    destruct c as [i' x' l' e' ks']. unfold elen. cbn. destruct e'; reflexivity. }
  assert (Eh : map (fun k => ahi k + len0 (a_len k)) (map (annot fp CoAll true) (k0 :: r)) = map (fun c => hmax c + elen c) (k0 :: r)).
  { rewrite map_map. apply map_ext_in. intros c Hc. rewrite (proj2 (IH c Hc true)).
    destruct c as [i' x' l' e' ks']. unfold elen. cbn. destruct e'; reflexivity. }
  pose proof (hmin_le_fp (T i x l e (k0 :: r))) as H1. pose proof (fp_le_hmax (T i x l e (k0 :: r))) as H2.
  split.
  - change (alo (annot fp CoAll co (T i x l e (k0 :: r))))
      with (minl (fp (T i x l e (k0 :: r))) (map (fun k => alo k + len0 (a_len k)) (map (annot fp CoAll true) (k0 :: r)))).
    rewrite El. cbn [map minl]. change (minl (hmin k0 + elen k0) (map (fun c => hmin c + elen c) r)) with (hmin (T i x l e (k0 :: r))). lia.
  - change (ahi (annot fp CoAll co (T i x l e (k0 :: r))))
      with (maxl (fp (T i x l e (k0 :: r))) (map (fun k => ahi k + len0 (a_len k)) (map (annot fp CoAll true) (k0 :: r)))).
    rewrite Eh. cbn [map maxl]. change (maxl (hmax k0 + elen k0) (map (fun c => hmax c + elen c) r)) with (hmax (T i x l e (k0 :: r))). lia.
Qed.

Lemma global_okb_iff p t :
  global_okb p t = true <->
  forall v, In v (preorder t) -> forall d1 d2, In d1 (tipdists v) -> In d2 (tipdists v) -> Z.abs (d1 - d2) <= p.
Proof.
  induction t as [i x l e ks IH] using tree_ind'. rewrite Forall_forall in IH. cbn [global_okb]. split.
  - intro H. apply andb_true_iff in H. destruct H as [H1 H2]. rewrite forallb_forall in H2.
    intros v Hv d1 d2 Hd1 Hd2. apply in_preorder_inv in Hv. destruct Hv as [-> | [k [Hk Hv]]].
    + destruct (hmax_in_tipdists (T i x l e ks)) as [_ Hx]. destruct (hmin_in_tipdists (T i x l e ks)) as [_ Hn].
      pose proof (Hx d1 Hd1). pose proof (Hx d2 Hd2). pose proof (Hn d1 Hd1). pose proof (Hn d2 Hd2). lia.
    + cbn [t_kids] in Hk. apply (proj1 (IH k Hk) (H2 k Hk) v Hv d1 d2 Hd1 Hd2).
  - intro H. apply andb_true_iff. split.
    + destruct (hmax_in_tipdists (T i x l e ks)) as [Hx _]. destruct (hmin_in_tipdists (T i x l e ks)) as [Hn _].
      pose proof (H _ (in_preorder_self _) _ _ Hx Hn). lia.
    + apply forallb_forall. intros k Hk. apply IH; [exact Hk|]. intros v Hv. apply H.
      eapply in_preorder_kid; [exact Hk | exact Hv].
Qed.

Lemma map_coerce_annot ls : map coerce_len (map (annot fp CoAll false) ls) = map (annot fp CoAll true) ls.
Proof. rewrite map_map. apply map_ext. intro c. apply annot_coerce. Qed.

Lemma calc_fix_enabled c p t :
  c_fmax c = false -> c_fmin c = false -> check_prec (c_prec c) = Some p ->
  (global_okb p t = true /\ calc_fix c t = COk (annot fp CoAll false t))
  \/ (global_okb p t = false /\ exists v, In v (preorder t) /\ calc_fix c t = CErr Ultra (t_id v) /\ hmax v - hmin v > p).
Proof.
  intros Hmx Hmn Hp. pose proof (check_prec_nonneg _ _ Hp) as Hp0.
  induction t as [i x l e ks IH] using tree_ind'.
  cbn [calc_fix]. unfold node_step_fix.
  destruct (cseq_map (calc_fix c) (annot fp CoAll false)
              (fun k e n => global_okb p k = false /\ e = Ultra /\ exists v, In v (preorder k) /\ n = t_id v /\ hmax v - hmin v > p) ks) as
      [[Hs Hall] | [k [er [n [Hk [Hs [Hck [Hlk [-> [v [Hv [-> Hd]]]]]]]]]]]].
  { apply Forall_impl with (2 := IH). intros k [[_ H] | [H [v [Hv [H1 H2]]]]]; [left; exact H|].
    right. exists Ultra, (t_id v). split; [exact H1|]. split; [exact H|]. split; [reflexivity|]. exists v. repeat split; assumption. }
  - rewrite Hs. destruct ks as [|k0 r].
    + left. split; [|reflexivity]. cbn. apply andb_true_iff. split; [lia | reflexivity].
    + assert (Hkids : forallb (global_okb p) (k0 :: r) = true).
      { apply forallb_forall. intros k Hk. rewrite Forall_forall in IH, Hall.
        destruct (IH k Hk) as [[H _] | [_ [v [_ [H _]]]]]; [exact H|]. rewrite (Hall k Hk) in H. discriminate. }
      change (map (annot fp CoAll false) (k0 :: r)) with (annot fp CoAll false k0 :: map (annot fp CoAll false) r).
      cbv iota beta. rewrite Hmx, Hmn, Hp.
      change (annot fp CoAll false k0 :: map (annot fp CoAll false) r) with (map (annot fp CoAll false) (k0 :: r)).
      rewrite map_coerce_annot. rewrite annot_path. rewrite <- (fp_cons i x l e k0 r).
      change (A i x l (fp (T i x l e (k0 :: r))) e (map (annot fp CoAll true) (k0 :: r))) with (annot fp CoAll false (T i x l e (k0 :: r))).
      destruct (alo_ahi_annot (T i x l e (k0 :: r)) false) as [E1 E2]. rewrite E1, E2.
      destruct (hmax (T i x l e (k0 :: r)) - hmin (T i x l e (k0 :: r)) >? p) eqn:Eg.
      * right. split; [cbn [global_okb]; apply andb_false_iff; left; lia|].
        exists (T i x l e (k0 :: r)). split; [apply in_preorder_self|]. split; [reflexivity | lia].
      * left. split; [|reflexivity]. cbn [global_okb]. apply andb_true_iff. split; [lia | exact Hkids].
  - rewrite Hs. right. split.
    + cbn [global_okb]. apply andb_false_iff. right. apply not_true_is_false. intro H.
      rewrite forallb_forall in H. rewrite (H k Hk) in Hlk. discriminate.
    + exists v. split; [eapply in_preorder_kid; [exact Hk | exact Hv]|]. split; [reflexivity | exact Hd].
Qed.

Lemma global_implies_local p t : global_okb p t = true -> local_okb p t = true.
Proof.
  intro H. apply local_okb_iff. intros v Hv c Hc.
  apply (proj1 (global_okb_iff p t) H v Hv).
  - apply fp_in_tipdists.
  - apply (tipdists_kid v c); [|apply fp_in_tipdists]. destruct (t_kids v); [destruct Hc | right; exact Hc].
Qed.

(* the repaired check accepts exactly the trees whose tip paths agree within the precision below
   every node, computes the same ages as the present code, and rejects with UltrametricityError *)
Lemma fixed_spec_l : forall c p t,
  c_fmax c = false -> c_fmin c = false -> check_prec (c_prec c) = Some p ->
  ((exists a, calc_node_ages_fix c t = COk a) <->
   (forall v, In v (preorder t) -> forall d1 d2, In d1 (tipdists v) -> In d2 (tipdists v) -> Z.abs (d1 - d2) <= p))
  /\ (forall a, calc_node_ages_fix c t = COk a -> calc_node_ages c t = COk a)
  /\ (forall e n, calc_node_ages_fix c t = CErr e n ->
        e = Ultra /\ exists v, In v (preorder t) /\ t_id v = n
                     /\ exists d1 d2, In d1 (tipdists v) /\ In d2 (tipdists v) /\ Z.abs (d1 - d2) > p).
Proof.
  intros c p t Hmx Hmn Hp. unfold calc_node_ages_fix. rewrite Hmx, Hmn. cbn [andb].
  rewrite calc_node_ages_unforced by assumption.
  destruct (calc_fix_enabled c p t Hmx Hmn Hp) as [[Hok E] | [Hok [v [Hv [E Hd]]]]]; rewrite E.
  - split; [split; [intros _; apply global_okb_iff; exact Hok | intros _; eexists; reflexivity]|]. split.
    + intros a Ha. inversion Ha; subst a.
      destruct (calc_enabled c p t Hmx Hmn Hp) as [[_ E2] | [E2 _]]; [exact E2|].
      rewrite (global_implies_local p t Hok) in E2. discriminate.
    + intros e n H. discriminate.
  - split; [split; [intros [a Ha]; discriminate|]|].
    + intro H. apply global_okb_iff in H. rewrite H in Hok. discriminate.
    + split; [intros a Ha; discriminate|]. intros e n H. inversion H; subst e n. split; [reflexivity|].
      exists v. split; [exact Hv|]. split; [reflexivity|]. exists (hmax v), (hmin v).
      split; [apply hmax_in_tipdists|]. split; [apply hmin_in_tipdists|]. lia.
Qed.

Lemma reject_complete_fixed_l : forall c p t,
  c_fmax c = false -> c_fmin c = false -> check_prec (c_prec c) = Some p ->
  (exists v d1 d2, In v (preorder t) /\ In d1 (tipdists v) /\ In d2 (tipdists v) /\ Z.abs (d1 - d2) > p) ->
  exists n, calc_node_ages_fix c t = CErr Ultra n.
Proof.
  intros c p t Hmx Hmn Hp [v [d1 [d2 [Hv [H1 [H2 Hd]]]]]].
  destruct (fixed_spec_l c p t Hmx Hmn Hp) as [Hiff [_ Herr]].
  destruct (calc_node_ages_fix c t) as [a|e n] eqn:E.
  - exfalso. pose proof (proj1 Hiff (ex_intro _ a eq_refl) v Hv d1 d2 H1 H2). lia.
  - destruct (Herr e n eq_refl) as [-> _]. exists n. reflexivity.
Qed.

(* other configurations: the variant is the present code *)
Lemma fixed_same_elsewhere_l : forall c t,
  (c_fmax c = true \/ c_fmin c = true \/ check_prec (c_prec c) = None) ->
  calc_node_ages_fix c t = calc_node_ages c t.
Proof.
  intros c t H. unfold calc_node_ages_fix, calc_node_ages. destruct (c_fmax c && c_fmin c); [reflexivity|].
  induction t as [i x l e ks IH] using tree_ind'. cbn [calc_fix calc].
  assert (E : map (calc_fix c) ks = map (calc c) ks).
  { apply map_ext_in. intros k Hk. rewrite Forall_forall in IH. apply IH. exact Hk. }
  rewrite E. unfold node_step_fix, node_step. destruct (csequence (map (calc c) ks)) as [[|a0 rest]|]; try reflexivity.
  destruct (c_fmax c); [reflexivity|]. destruct (c_fmin c); [reflexivity|].
  destruct H as [H | [H | H]]; try discriminate. rewrite H. reflexivity.
Qed.
