(* C14 translator tie: the statements exported by Props/C14Gen.v, over Model-level definitions only. *)
From Coq Require Import ZArith QArith List Bool Lia.
From DV Require Import Model.PyPrims Model.Tree Model.C14Model Model.C14Spec Model.C14Spec2 Model.C14GenPrims Model.C14GenObj Model.C14GenMrcaPrims Gen.Pdm
  Proofs.C14Dict Proofs.C14Pdm Proofs.C14Mrca Proofs.C14GenBase Proofs.C14GenMirror Proofs.C14GenMrca
  Proofs.C14GenComp Proofs.C14GenForm Proofs.C14GenKernels Proofs.C14GenTreesBase Proofs.C14GenUpgma Proofs.C14GenNj Proofs.C14GenTm
  Proofs.C14Clu Proofs.C14Proofs Proofs.C14UpgmaFull Proofs.C14Qcrit Proofs.C14FourPoint.
Import ListNotations.
Open Scope Z_scope.

Lemma gen_compile_from_tree_top t none_key self :
  good_leaves t -> NoDup (ids t) ->
  match compile_from_tree t with
  | Ok p => PDM_compile_from_tree t none_key self t
            = Ok (mkPdm (p_tree_length p) (p_num_edges p) (p_dist p) (p_steps p) (p_mrca p) (p_mapped p) (p_pairs p)
                        (p_log self))
  | Err e => PDM_compile_from_tree t none_key self t = Err e
  | OutOfFuel => PDM_compile_from_tree t none_key self t = OutOfFuel
  end.
Proof.
  intros GL N. rewrite (gen_compile_from_tree_eq t none_key self GL N).
  destruct (compile_from_tree t); reflexivity.
Qed.

Lemma gen_mirror_lookups_top s :
  (NoDup (dkeys (p_dist s)) /\ forall k r, dget k (p_dist s) = Some r -> NoDup (dkeys r)) ->
  (NoDup (dkeys (p_steps s)) /\ forall k r, dget k (p_steps s) = Some r -> NoDup (dkeys r)) ->
  (NoDup (dkeys (p_mrca s)) /\ forall k r, dget k (p_mrca s) = Some r -> NoDup (dkeys r)) ->
  (forall x y v, tget2 x y (p_dist s) = Some v -> dmem y (p_dist s) = true) ->
  (forall x y v, tget2 x y (p_steps s) = Some v -> dmem y (p_steps s) = true) ->
  (forall x y v, tget2 x y (p_mrca s) = Some v -> dmem y (p_mrca s) = true) ->
  PDM__mirror_lookups s = mirror s.
Proof. intros. apply gen_mirror_lookups_eq; assumption. Qed.

Lemma gen_tree_mrca_descent_top enc sm s fuel : sm <> 0 -> (size s <= fuel)%nat ->
  Tree_mrca_descent fuel enc sm s =
  if negb (Z.eqb (Z.land (enc_get enc (t_id s)) sm) sm) then Ok None
  else match visit false enc sm s s with Some r => Ok (Some r) | None => Ok (Some s) end.
Proof. intros. apply gen_tree_mrca_descent_eq; assumption. Qed.

(* the hand model of Tree.mrca ends in exactly that tail: whenever its argument handling and refresh
   succeed, its result is the generated descent's (with enough fuel) *)
Lemma tree_mrca_uses_generated_descent ns mt arg start updated sm mt' s fuel :
  mrca_mask ns arg = Ok sm -> Z.eqb sm 0 = false ->
  (if Z.eqb (enc_get (mt_enc mt) (match start with Some i => i | None => t_id (mt_tree mt) end)) 0 || negb updated
   then encode ns mt else Ok mt) = Ok mt' ->
  match find_node (match start with Some i => i | None => t_id (mt_tree mt) end) (mt_tree mt') with
  | Some s => Some s
  | None => find_node (match start with Some i => i | None => t_id (mt_tree mt) end) (mt_tree mt)
  end = Some s ->
  t_id s = match start with Some i => i | None => t_id (mt_tree mt) end ->
  (size s <= fuel)%nat ->
  tree_mrca false ns mt arg start updated =
  (match Tree_mrca_descent fuel (mt_enc mt') sm s with
   | Ok o => Ok (option_map t_id o) | Err e => Err e | OutOfFuel => OutOfFuel end, mt').
Proof.
  intros Hm Hz Hr Hs Hid Hf.
  rewrite (tree_mrca_tail ns mt arg start updated sm mt' s Hm Hz Hr Hs Hid).
  rewrite gen_tree_mrca_descent_eq; [reflexivity | | exact Hf].
  intro E. subst sm. discriminate.
Qed.

Lemma gen_nj_formulas_top :
  (forall n d x1 x2, (inject_Z (n - 2) * d - x1 - x2 == NJ_qvalue (inject_Z n) d x1 x2)%Q) /\
  (forall (v m : Q) (x y : option (Q * (jnode * jnode))),
      (if Qlt_le_dec v m then x else y) = if NJ_better v m then x else y) /\
  (forall a0 a1 v3, (Qred ((1 # 2) * ((0 + a0 + a1) - v3)) == NJ_dist (0 + a0 + a1) v3)%Q) /\
  (forall x dist b0 b1, (Qred (x + dist - b0 - b1) == NJ_xsub_update x dist b0 b1)%Q) /\
  (forall n v3 x0 x1,
      (Qred ((1 # 2) * v3 + (1 / inject_Z (2 * (n - 2))) * (x0 - x1)) == NJ_delta_f (inject_Z n) v3 x0 x1)%Q) /\
  (forall n v3 x0 x1, NJ_delta_g n v3 x0 x1 = (v3 - NJ_delta_f n v3 x0 x1)%Q) /\
  (forall v3, (Qred (v3 / 2) == NJ_half v3)%Q) /\
  (forall n, (1 <? n) = NJ_continue n /\ (2 <? n) = NJ_general n).
Proof.
  repeat split; intros.
  - apply nj_qvalue_model.
  - apply nj_better_model.
  - apply nj_dist_model.
  - apply nj_xsub_model.
  - apply nj_delta_f_model.
  - apply nj_half_model.
  - apply nj_guards_model.
  - apply nj_guards_model.
Qed.

Lemma gen_upgma_formulas_top :
  (forall (v m : Q) (x y : option (Q * (unode * unode))),
      (if Qlt_le_dec v m then x else y) = if UPGMA_better v m then x else y) /\
  (forall dmin, (Qred (dmin / 2) == UPGMA_elen dmin)%Q) /\
  (forall elen tip, (Qred (elen - tip) == UPGMA_child_len elen tip)%Q) /\
  (forall elen tip, (Qred ((elen - tip) + tip) == UPGMA_tip (UPGMA_child_len elen tip) tip)%Q) /\
  (forall d20 s0 d21 s1 count,
      (Qred ((0 + d20 * s0 + d21 * s1) / inject_Z count)
       == UPGMA_avg (UPGMA_acc (UPGMA_acc 0 d20 s0) d21 s1) (inject_Z count))%Q).
Proof.
  repeat split; intros.
  - apply upgma_better_model.
  - apply upgma_elen_model.
  - apply upgma_child_len_model.
  - apply upgma_tip_model.
  - apply upgma_avg_model.
Qed.

(* summary kernels: same exception, or equal rationals *)
Lemma gen_mean_pairwise_distance_top (p : pdm) (regime : list (Z * Z)) (n : bool) :
  match PDM__calculate_mean_pairwise_distance_weighted p regime n,
        (do ds <- res_map (fun ab => dmatrix p true (fst ab) (snd ab)) regime ;; mean_of p true n ds) with
  | Ok a, Ok b => (a == b)%Q | Err e1, Err e2 => e1 = e2 | OutOfFuel, OutOfFuel => True | _, _ => False
  end /\
  match PDM__calculate_mean_pairwise_distance_unweighted p regime n,
        (do ds <- res_map (fun ab => dmatrix p false (fst ab) (snd ab)) regime ;; mean_of p false n ds) with
  | Ok a, Ok b => (a == b)%Q | Err e1, Err e2 => e1 = e2 | OutOfFuel, OutOfFuel => True | _, _ => False
  end.
Proof. split; [exact (gen_mpd_weighted_eq p regime n) | exact (gen_mpd_unweighted_eq p regime n)]. Qed.

Lemma model_mean_pairwise_distance_top p filt w n :
  mean_pairwise_distance p filt w n =
  if existsb (fun ab => Z.eqb (fst ab) (snd ab)) (p_pairs p) then Err ValueErr
  else do ds <- res_map (fun ab => dmatrix p w (fst ab) (snd ab))
                        (filter (fun ab => passes filt (fst ab) && passes filt (snd ab)) (p_pairs p)) ;;
       mean_of p w n ds.
Proof. reflexivity. Qed.

Lemma gen_mean_nearest_taxon_distance_top (p : pdm) (cr : dict (list Z)) (n : bool) :
  NoDup (dkeys cr) -> (forall a os, In (a, os) cr -> os <> []) ->
  match PDM__calculate_mean_nearest_taxon_distance_weighted p cr n,
        (do mins <- res_map (fun ao : Z * list Z =>
                               do ds <- res_map (fun b => dmatrix p true (fst ao) b) (snd ao) ;;
                               match ds with [] => Err IndexErr | d0 :: r => Ok (min_from d0 r) end) cr ;;
         mean_of p true n mins) with
  | Ok a, Ok b => (a == b)%Q | Err e1, Err e2 => e1 = e2 | OutOfFuel, OutOfFuel => True | _, _ => False
  end /\
  match PDM__calculate_mean_nearest_taxon_distance_unweighted p cr n,
        (do mins <- res_map (fun ao : Z * list Z =>
                               do ds <- res_map (fun b => dmatrix p false (fst ao) b) (snd ao) ;;
                               match ds with [] => Err IndexErr | d0 :: r => Ok (min_from d0 r) end) cr ;;
         mean_of p false n mins) with
  | Ok a, Ok b => (a == b)%Q | Err e1, Err e2 => e1 = e2 | OutOfFuel, OutOfFuel => True | _, _ => False
  end.
Proof.
  intros N NE. split; [exact (gen_mntd_weighted_eq p cr n N NE) | exact (gen_mntd_unweighted_eq p cr n N NE)].
Qed.

Lemma model_mean_nearest_taxon_distance_top p filt w n :
  mean_nearest_taxon_distance p filt w n =
  let others a := filter (fun b => negb (Z.eqb a b) && passes filt b) (p_mapped p) in
  do mins <- res_map (fun ao : Z * list Z =>
                        do ds <- res_map (fun b => dmatrix p w (fst ao) b) (snd ao) ;;
                        match ds with [] => Err IndexErr | d0 :: r => Ok (min_from d0 r) end)
                     (map (fun a => (a, others a))
                          (filter (fun a => match others a with [] => false | _ => true end)
                                  (filter (fun a => passes filt a) (p_mapped p)))) ;;
  mean_of p w n mins.
Proof. exact (mean_nearest_taxon_distance_kernel p filt w n). Qed.

(* the main loops of upgma_tree / nj_tree *)
Lemma gen_upgma_tree_top (none_key : Z) (M : tbl Q) (order : list Z) (T : qtree) :
  NoDup order -> mcomplete M order -> upgma_tree M order = Ok T ->
  exists i h, PDM_upgma_tree none_key (length order) M order = Ok (i, h) /\
              forall fuel, (qdepth T <= fuel)%nat -> rebuild fuel h i = Ok T.
Proof. apply gen_upgma_tree_ok. Qed.

Lemma gen_nj_tree_top (none_key : Z) (M : tbl Q) (order : list Z) (T : qtree) :
  NoDup order -> mcomplete M order -> nj_tree M order = Ok T ->
  exists i h, PDM_nj_tree none_key (length order) M order = Ok (i, h) /\
              forall fuel, (qdepth T <= fuel)%nat -> rebuild fuel h i = Ok T.
Proof. apply gen_nj_tree_ok. Qed.

Lemma gen_upgma_recovers_top (none_key : Z) t p h order :
  rbin t -> good_leaves t -> t_kids t <> [] -> positive_internal t -> nonneg_lengths t -> equidistant h t ->
  compile_from_tree t = Ok p ->
  NoDup order -> (forall a, In a order <-> In (Some a) (leaf_taxa t)) ->
  exists T i hp, PDM_upgma_tree none_key (length order) (qtable p true) order = Ok (i, hp) /\
                 (forall fuel, (qdepth T <= fuel)%nat -> rebuild fuel hp i = Ok T) /\
                 qsame_rooted (tq t) T.
Proof.
  intros R G Hk P Nn E Ec N Hin.
  destruct (upgma_recovers_ultrametric_l t p h order R G Hk P Nn E Ec N Hin) as [T [ET QS]].
  assert (C : mcomplete (qtable p true) order).
  { destruct (pdm_exact_p t G Hk) as [p' [E' [Hv _]]]. rewrite Ec in E'. assert (p' = p) by congruence. subst p'.
    intros a b Ha Hb _. destruct (Hv a b (proj1 (Hin a) Ha) (proj1 (Hin b) Hb)) as [r [d [s [_ [_ [_ [T1 _]]]]]]].
    rewrite qtable_get, T1. discriminate. }
  destruct (gen_upgma_tree_ok none_key _ _ _ N C ET) as [i [hp [EG RB]]].
  exists T, i, hp. repeat split; assumption.
Qed.

Lemma gen_nj_recovers_small_top (none_key : Z) M order :
  NoDup order -> order <> [] -> (length order <= 5)%nat ->
  mcomplete M order -> msymmetric M order -> mfour_point_strict M order ->
  exists T i hp, PDM_nj_tree none_key (length order) M order = Ok (i, hp) /\
                 (forall fuel, (qdepth T <= fuel)%nat -> rebuild fuel hp i = Ok T) /\
                 forall a b, In a order -> In b order -> a <> b -> exists q, qdist T a b = Some q /\ (q == mval M a b)%Q.
Proof.
  intros N Ne L C S F. destruct (nj_recovers_small_l M order N Ne L C S F) as [T [ET D]].
  destruct (gen_nj_tree_ok none_key _ _ _ N C ET) as [i [hp [EG RB]]].
  exists T, i, hp. repeat split; assumption.
Qed.

Lemma gen_nj_recovers_tree_small_top (none_key : Z) t p order :
  rbin t -> good_leaves t -> t_kids t <> [] -> positive_internal t -> nonneg_lengths t ->
  compile_from_tree t = Ok p ->
  NoDup order -> order <> [] -> (length order <= 5)%nat -> (forall a, In a order -> In (Some a) (leaf_taxa t)) ->
  exists T i hp, PDM_nj_tree none_key (length order) (qtable p true) order = Ok (i, hp) /\
                 (forall fuel, (qdepth T <= fuel)%nat -> rebuild fuel hp i = Ok T) /\
                 forall a b, In a order -> In b order -> a <> b ->
                   exists q d, qdist T a b = Some q /\ dist t a b = Some d /\ (q == uq d)%Q.
Proof.
  intros R G Hk P Nn Ec N Ne L5 Hin.
  destruct (nj_recovers_tree_small t p order R G Hk P Nn Ec N Ne L5 Hin) as [T [ET HD]].
  assert (C : mcomplete (qtable p true) order).
  { destruct (pdm_exact_p t G Hk) as [p' [E' [Hv _]]]. rewrite Ec in E'. assert (p' = p) by congruence. subst p'.
    intros a b Ha Hb _. destruct (Hv a b (Hin a Ha) (Hin b Hb)) as [r [d [s [_ [_ [_ [T1 _]]]]]]].
    rewrite qtable_get, T1. discriminate. }
  destruct (gen_nj_tree_ok none_key _ _ _ N C ET) as [i [hp [EG RB]]].
  exists T, i, hp. repeat split; assumption.
Qed.

(* Tree.mrca as a whole, treemeasure.patristic_distance *)
Lemma gen_tree_mrca_top fuel ns mt arg start updated :
  (size (mt_tree mt) <= fuel)%nat ->
  let kw := mkKw start
                 (match arg with ByMask m => Some m | _ => None end)
                 (match arg with ByTaxa l => Some l | _ => None end)
                 (match arg with ByLabels l => Some l | _ => None end)
                 (Some updated) in
  match tree_mrca false ns mt arg start updated with
  | (Ok r, mt') => Tree_mrca fuel ns mt kw = Ok (r, mt')
  | (Err e, _) => Tree_mrca fuel ns mt kw = Err e
  | (OutOfFuel, _) => True
  end.
Proof. intro Hf. exact (gen_tree_mrca_eq fuel ns mt arg start updated Hf). Qed.

Lemma gen_tm_patristic_top fuel ns mt a b updated :
  (size (mt_tree mt) < fuel)%nat ->
  match tm_patristic false ns mt a b updated with
  | (Ok d, mt') => NoDup (ids (mt_tree mt')) -> TM_patristic_distance fuel ns mt a b updated = Ok (d, mt')
  | (Err e, mt') => NoDup (ids (mt_tree mt')) -> TM_patristic_distance fuel ns mt a b updated = Err e
  | (OutOfFuel, _) => True
  end.
Proof. apply gen_tm_patristic_eq. Qed.

(* non-vacuity: a tree in the domain of gen_compile_from_tree_top, and the two sides computed *)
Definition gen_ex_tree : tree :=
  T 0 None None None
    [T 1 None None (Some 1024) [T 2 (Some 10) None (Some 512) []; T 3 (Some 11) None None []];
     T 4 (Some 12) None (Some 2048) []].

Lemma gen_compile_from_tree_example_top :
  good_leaves gen_ex_tree /\ NoDup (ids gen_ex_tree) /\
  PDM_compile_from_tree gen_ex_tree (-1) pdm_empty gen_ex_tree
  = match compile_from_tree gen_ex_tree with
    | Ok p => Ok (mkPdm (p_tree_length p) (p_num_edges p) (p_dist p) (p_steps p) (p_mrca p) (p_mapped p) (p_pairs p) [])
    | Err e => Err e | OutOfFuel => OutOfFuel end /\
  (exists p, compile_from_tree gen_ex_tree = Ok p /\ tget2 12 10 (p_dist p) = Some 3584).
Proof.
  split.
  - split; cbn; [repeat constructor; cbn; intuition discriminate | intuition discriminate].
  - split; [cbn; repeat constructor; cbn; intuition discriminate|].
    split; [vm_compute; reflexivity|]. eexists. split; vm_compute; reflexivity.
Qed.

Lemma gen_tree_mrca_descent_example_top :
  Tree_mrca_descent 5 [(2, 1); (3, 2); (1, 3); (4, 4); (0, 7)] 3 gen_ex_tree
  = Ok (Some (T 1 None None (Some 1024) [T 2 (Some 10) None (Some 512) []; T 3 (Some 11) None None []])).
Proof. vm_compute. reflexivity. Qed.

Definition gen_ex_matrix : tbl Q :=
  [(10, [(11, (2 # 1)%Q); (12, (4 # 1)%Q)]); (11, [(10, (2 # 1)%Q); (12, (4 # 1)%Q)]); (12, [(10, (4 # 1)%Q); (11, (4 # 1)%Q)])].

Lemma gen_tree_builders_example_top :
  (do r <- PDM_upgma_tree (-1) 3 gen_ex_matrix [10; 11; 12] ;; rebuild 5 (snd r) (fst r)) = upgma_tree gen_ex_matrix [10; 11; 12] /\
  (do r <- PDM_nj_tree (-1) 3 gen_ex_matrix [10; 11; 12] ;; rebuild 5 (snd r) (fst r)) = nj_tree gen_ex_matrix [10; 11; 12] /\
  upgma_tree gen_ex_matrix [10; 11; 12]
  = Ok (QT 4 None None [QT 2 (Some 12) (Some (2 # 1)%Q) []; QT 3 None (Some (1 # 1)%Q) [QT 0 (Some 10) (Some (1 # 1)%Q) []; QT 1 (Some 11) (Some (1 # 1)%Q) []]]).
Proof. split; [vm_compute; reflexivity|]. split; vm_compute; reflexivity. Qed.
