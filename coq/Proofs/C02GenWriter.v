(* Translator tie, part 3: the generated NewickWriter methods (Gen/NewickGen.v) against Model/Newick.v. *)
From Coq Require Import ZArith List Bool Lia.
From DV Require Import Model.PyPrims Gen.CharClasses Model.Tokenizer Model.Newick Model.C02GenPrims Gen.NewickGen
     Proofs.C02Lex Proofs.C02GenEsc.
Import ListNotations.
Open Scope Z_scope.

Section WriterGen.
Variable L : Type.
Variable render_len : L -> str.
Variable wo : wopts.

Ltac unf_body := unfold s_seq, s_if, s_ife, s_do, s_doe, s_call, s_break, s_skip, s_raise, s_ret, s_rete.

Lemma compose_comment_string_eq out : py_wr_compose_comment_string L render_len wo out = MRet [] out.
Proof. reflexivity. Qed.

Lemma str_join_parts parts : str_join [32] parts = join_parts parts.
Proof. reflexivity. Qed.

Ltac ev_rt := cbv beta iota delta [fst snd
    py_wr_render_node_tag_v_tag py_wr_render_node_tag_v_tag_parts py_wr_render_node_tag_v_is_leaf py_wr_render_node_tag_v_node
    set_py_wr_render_node_tag_v_tag set_py_wr_render_node_tag_v_tag_parts set_py_wr_render_node_tag_v_is_leaf
    set_py_wr_render_node_tag_v_node wn_tree n_kids n_taxon n_label];
  cbn [length Z.of_nat Z.eqb Z.gtb Z.compare is_none negb andb ostr_truthy bind need_str app Pos.of_succ_nat Pos.succ].

Ltac fin_tag :=
  ev_rt; cbn [str_join flat_map join_parts app]; ev_rt; cbn [str_join flat_map join_parts app is_nil]; rewrite ?app_nil_r; unfold SPACE;
  first [ reflexivity
        | rewrite ?py_escape_nexus_token_eq; reflexivity
        | match goal with
          | |- context [ostr_truthy (Some ?A)] => destruct A eqn:EA
          | |- context [match ?A with [] => false | _ :: _ => true end] => destruct A eqn:EA
          end;
          ev_rt; cbn [is_nil]; rewrite ?py_escape_nexus_token_eq; reflexivity ].

Theorem py_wr_render_node_tag_eq out t p i :
  py_wr_render_node_tag L render_len wo out (mkWnode t p i) = MRet (Some (render_node_tag L wo t)) out.
Proof.
  destruct t as [tx lb ln ks]. unfold py_wr_render_node_tag, render_node_tag, run. unf_body. ev_rt.
  destruct ks as [|k ks]; ev_rt; cbn [is_nil].
  - destruct tx as [tl|]; ev_rt; [destruct (wo_suppress_leaf_taxon_labels wo); ev_rt|];
      (destruct lb as [[|c l]|]; ev_rt; [ | destruct (wo_suppress_leaf_node_labels wo); ev_rt | ]); fin_tag.
  - destruct tx as [tl|]; ev_rt; [destruct (wo_suppress_internal_taxon_labels wo); ev_rt|];
      (destruct lb as [[|c l]|]; ev_rt; [ | destruct (wo_suppress_internal_node_labels wo); ev_rt | ]); fin_tag.
Qed.

Ltac ev_w := cbv beta iota delta [fst snd
    py_wr_write_node_body_v_node py_wr_write_node_open_v_node py_wr_write_leaf_v_node py_wr_write_node_close_v_node
    wn_tree wn_parent wn_index n_len];
  cbn [is_none negb andb orb bind need_len mval].

Theorem py_wr_write_node_body_eq out t p i :
  py_wr_write_node_body L render_len wo out (mkWnode t p i) = MRet tt (out ++ write_node_body L render_len wo t).
Proof.
  unfold py_wr_write_node_body, write_node_body, run. unf_body. ev_w.
  rewrite py_wr_render_node_tag_eq. ev_w. cbn [need_str]. ev_w.
  destruct t as [tx lb ln ks]. cbn [n_len]. destruct ln as [x|]; ev_w.
  - destruct (wo_suppress_edge_lengths wo); ev_w; repeat (rewrite compose_comment_string_eq; ev_w);
      rewrite ?app_nil_r, <- ?app_assoc; reflexivity.
  - repeat (rewrite compose_comment_string_eq; ev_w). rewrite !app_nil_r. reflexivity.
Qed.

(* `node._parent_node is None or node._parent_node._child_nodes[0] is node` for a node handed out by
   apply: no parent, or the parent has S n children and the node is the i-th *)
Definition is_first (p : option nat) (i : nat) : bool := match p with None => true | Some _ => (i =? 0)%nat end.
Definition parent_ok (p : option nat) : Prop := match p with None => True | Some n => (0 < n)%nat end.

Lemma first_test p i : parent_ok p ->
  (if is_none p then Ok true else child_is p 0 i) = Ok (is_first p i).
Proof.
  destruct p as [n|]; [|reflexivity]. intro H. cbn in H. cbn [is_none bind child_is is_first].
  destruct n; [lia|]. cbn. destruct i; reflexivity.
Qed.

Theorem py_wr_write_node_open_eq out t p i : parent_ok p ->
  py_wr_write_node_open L render_len wo out (mkWnode t p i)
  = MRet tt (out ++ (if is_first p i then [LPAREN] else [COMMA; LPAREN])).
Proof.
  intro H. unfold py_wr_write_node_open, run. unf_body. ev_w. rewrite (first_test p i H).
  destruct (is_first p i); reflexivity.
Qed.

Theorem py_wr_write_leaf_eq out t p i : parent_ok p ->
  py_wr_write_leaf L render_len wo out (mkWnode t p i)
  = MRet tt (out ++ (if is_first p i then [] else [COMMA]) ++ write_node_body L render_len wo t).
Proof.
  intro H. unfold py_wr_write_leaf, run. unf_body. ev_w. rewrite (first_test p i H). cbn [bind].
  destruct (is_first p i); cbn [negb]; ev_w; rewrite py_wr_write_node_body_eq; ev_w; rewrite <- ?app_assoc; reflexivity.
Qed.

Theorem py_wr_write_node_close_eq out t p i :
  py_wr_write_node_close L render_len wo out (mkWnode t p i)
  = MRet tt (out ++ RPAREN :: write_node_body L render_len wo t).
Proof.
  unfold py_wr_write_node_close, run. unf_body. ev_w. rewrite py_wr_write_node_body_eq. ev_w.
  rewrite <- app_assoc. reflexivity.
Qed.

(* tree.apply with the three writer callbacks = write_node *)
Notation W_before := (fun wx wo_ => py_wr_write_node_open L render_len wo wo_ wx).
Notation W_after := (fun wx wo_ => py_wr_write_node_close L render_len wo wo_ wx).
Notation W_leaf := (fun wx wo_ => py_wr_write_leaf L render_len wo wo_ wx).

Lemma apply_write_node : forall t p i out, parent_ok p ->
  apply_node W_before W_after W_leaf t p i out = MRet tt (out ++ write_node L render_len wo (is_first p i) t).
Proof.
  induction t as [tx lb ln ks IH] using ntree_ind'. intros p i out Hp.
  destruct ks as [|k ks].
  - cbn [apply_node write_node]. rewrite (py_wr_write_leaf_eq out _ p i Hp).
    destruct (is_first p i); reflexivity.
  - cbn [apply_node write_node]. rewrite (py_wr_write_node_open_eq out _ p i Hp). cbn [mseq].
    set (n := length (k :: ks)).
    assert (Hn : parent_ok (Some n)) by (subst n; cbn; lia).
    assert (Hkids : forall l j o, Forall (fun k => forall p i out, parent_ok p ->
                       apply_node W_before W_after W_leaf k p i out = MRet tt (out ++ write_node L render_len wo (is_first p i) k)) l ->
               apply_list (fun k i => apply_node W_before W_after W_leaf k (Some n) i) l j o
               = MRet tt (o ++ flat_map (fun k => write_node L render_len wo (is_first (Some n) (fst k)) (snd k)) (enum_from j l))).
    { induction l as [|x l IHl]; intros j o Hl.
      - cbn. rewrite app_nil_r. reflexivity.
      - inversion Hl as [|? ? Hx Hl']; subst. cbn [apply_list enum_from flat_map fst snd]. rewrite (Hx (Some n) j o Hn). cbn [mseq].
        rewrite (IHl (S j) _ Hl'). rewrite <- app_assoc. reflexivity. }
    rewrite (Hkids (k :: ks) 0%nat _ IH). cbn [mseq]. rewrite py_wr_write_node_close_eq.
    f_equal. cbn [enum_from flat_map fst snd is_first Nat.eqb].
    assert (Hrest : forall l j, flat_map (fun k0 => write_node L render_len wo (is_first (Some n) (fst k0)) (snd k0)) (enum_from (S j) l)
                              = flat_map (write_node L render_len wo false) l).
    { induction l as [|x l IHl]; intro j; [reflexivity|]. cbn [enum_from flat_map fst snd is_first Nat.eqb]. rewrite IHl. reflexivity. }
    rewrite Hrest. destruct (is_first p i); rewrite <- !app_assoc; reflexivity.
Qed.

Ltac ev_t := cbv beta iota delta [fst snd
    py_wr_write_tree_v_tree py_wr_write_tree_v_rooting py_wr_write_tree_v_weight py_wr_write_tree_v_annotation_comments
    py_wr_write_tree_v_tree_comments set_py_wr_write_tree_v_tree set_py_wr_write_tree_v_rooting set_py_wr_write_tree_v_weight
    set_py_wr_write_tree_v_annotation_comments set_py_wr_write_tree_v_tree_comments wt_rooted wt_root];
  cbn [is_none negb andb orb obool_truthy].

Theorem py_wr_write_tree_eq out r t :
  py_wr_write_tree L render_len wo out (mkWtree r t) = MRet tt (out ++ write_tree L render_len wo r t).
Proof.
  unfold py_wr_write_tree, write_tree, rooting_token, run. unf_body. ev_t.
  destruct r as [[|]|]; ev_t; destruct (wo_suppress_rooting wo); ev_t; rewrite compose_comment_string_eq; ev_t;
    rewrite (apply_write_node t None 0%nat _ I); ev_t; cbn [is_first app]; rewrite ?app_nil_r, <- ?app_assoc; reflexivity.
Qed.

Lemma write_tree_list_for : forall ts out lc,
  for_loop (map (fun rt => mkWtree (fst rt) (snd rt)) ts)
           (fun x (s : str * lc_py_wr_write_tree_list L) => (fst s, set_py_wr_write_tree_list_v_tree (snd s) x))
           (py_wr_write_tree_list_for0_body L render_len wo)
           (out, lc)
  = @FNext _ unit (out ++ write_tree_list L render_len wo ts,
                   match ts with [] => lc | _ => set_py_wr_write_tree_list_v_tree lc (let rt := last ts (None, Nd None None None []) in mkWtree (fst rt) (snd rt)) end).
Proof.
  induction ts as [|[r t] ts IH]; intros out lc.
  - cbn. rewrite app_nil_r. reflexivity.
  - cbn [map for_loop fst snd]. unfold py_wr_write_tree_list_for0_body at 1. unfold s_seq at 1, s_call at 1, s_do at 1.
    cbv beta iota delta [fst snd py_wr_write_tree_list_v_tree set_py_wr_write_tree_list_v_tree].
    rewrite py_wr_write_tree_eq. cbv beta iota delta [fst snd]. rewrite IH.
    unfold write_tree_list. cbn [flat_map fst snd]. rewrite <- !app_assoc. f_equal.
    destruct ts as [|rt2 ts]; [reflexivity|]. cbn [last]. destruct lc; reflexivity.
Qed.

Theorem py_wr_write_tree_list_eq out ts :
  py_wr_write_tree_list L render_len wo out (map (fun rt => mkWtree (fst rt) (snd rt)) ts)
  = MRet tt (out ++ write_tree_list L render_len wo ts).
Proof.
  unfold py_wr_write_tree_list, run. unf_body. unfold s_for.
  cbv beta iota delta [fst snd py_wr_write_tree_list_v_tree_list].
  rewrite write_tree_list_for. cbv beta iota delta [fst snd]. rewrite compose_comment_string_eq.
  cbv beta iota delta [fst snd py_wr_write_tree_list_v_annotation_comments py_wr_write_tree_list_v_treelist_comments
    set_py_wr_write_tree_list_v_annotation_comments set_py_wr_write_tree_list_v_treelist_comments].
  destruct ts; cbn [app]; rewrite ?app_nil_r; reflexivity.
Qed.
End WriterGen.
