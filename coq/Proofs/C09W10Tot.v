(* C09, wave 10 (e): the value-level run and the object-level run succeed together (the same argument checks);
   the agreement is false if CharacterDataSequence(other) took other's list itself. *)
From Coq Require Import ZArith List Bool Lia.
From DV Require Import Model.PyPrims Model.C09AlphaTypes Model.C09Model Model.C09Obj.
From DV Require Import Proofs.C09Text Proofs.C09ObjProofs Proofs.C09W9Sep Proofs.C09W10Val.
Import ListNotations.
Open Scope Z_scope.

Lemma o_step_runs_when_value_runs : forall w o cs, v_op (contents w) o = Ok cs -> exists w', o_step CopyValues w o = Ok w'.
Proof.
  intros [s ms] o cs H. unfold contents in H. cbn [ow_ms ow_store] in H.
  destruct o as [b k j | js | j idx]; cbn [o_step v_op ow_store ow_ms] in *.
  - destruct (Nat.eqb k j); [discriminate|]. rewrite !nth_error_map in H.
    destruct (nth_error ms k) as [mk |]; [| discriminate].
    destruct (nth_error ms j) as [mj |]; [| discriminate].
    destruct (bin_rows CopyValues b (s, mk) mj) as [s' rk]. eexists. reflexivity.
  - rewrite map_length in H. destruct (forallb (fun j => Nat.ltb j (length ms)) js); [| discriminate].
    destruct (concat_rows CopyValues s ms js) as [s' acc]. eexists. reflexivity.
  - rewrite nth_error_map in H. destruct (nth_error ms j) as [mj |]; [| discriminate].
    destruct (export_rows idx s mj) as [s' cr]. eexists. reflexivity.
Qed.

Lemma o_run_value_total : forall ops w cs, sep w -> v_run (contents w) ops = Ok cs ->
  exists w', o_run CopyValues w ops = Ok w' /\ contents w' = cs.
Proof.
  induction ops as [| o ops IH]; intros w cs S H; cbn in H |- *.
  - inversion H. exists w. split; reflexivity.
  - destruct (v_op (contents w) o) as [cs1 | e |] eqn:E; try discriminate.
    destruct (o_step_runs_when_value_runs w o cs1 E) as [w1 E1]. rewrite E1.
    pose proof (o_step_value w o w1 S E1) as V. rewrite E in V. inversion V. subst cs1.
    exact (IH w1 cs (o_step_sep w o w1 S E1) H).
Qed.

(* with shared value lists the object-level route does NOT compute the value-level semantics: after
   concatenate([m0; m1]) the source m0 holds m1's characters too *)
Lemma value_semantics_refuted_shared_l :
  exists w' cs, sep (o_init ex_ms)
    /\ o_run ShareValues (o_init ex_ms) [OConcat [0%nat; 1%nat]] = Ok w'
    /\ v_run (contents (o_init ex_ms)) [OConcat [0%nat; 1%nat]] = Ok cs
    /\ nth 0 cs [] = [([97], [0; 1]); ([98], [2; 3])]
    /\ nth 0 (contents w') [] = [([97], [0; 1; 0]); ([98], [2; 3; 1])]
    /\ contents w' <> cs.
Proof.
  eexists. eexists. split; [exact ex_sep|]. split; [vm_compute; reflexivity|]. split; [vm_compute; reflexivity|].
  split; [vm_compute; reflexivity|]. split; [vm_compute; reflexivity|]. vm_compute. discriminate.
Qed.
